/-
  Lemmas about `DState.processLoop` / `processMode` (`process_mode` of decode/lzma.rs),
  generic over the window type.
-/
import LzmaProofs.Lemmas.Monad
namespace Lzma

namespace PM

theorem bind_ok {m : M α} {f : α → M β} {s s' : Sink} {b : β} :
    (m >>= f) s = (s', .ok b) ↔ ∃ s1 a, m s = (s1, .ok a) ∧ f a s1 = (s', .ok b) := by
  rw [bind_run]
  rcases h : m s with ⟨s1, e | a⟩
  · simp
  · constructor
    · intro h'; exact ⟨s1, a, rfl, h'⟩
    · rintro ⟨s2, a2, h1, h'⟩
      cases h1; exact h'

theorem liftE_ok_iff {e : Except Err α} {s s' : Sink} {a : α} :
    (liftE e : M α) s = (s', .ok a) ↔ e = .ok a ∧ s' = s := by
  cases e <;> simp [liftE_ok, liftE_error]
  constructor <;> rintro ⟨h1, h2⟩ <;> subst h1 <;> subst h2 <;> exact ⟨rfl, rfl⟩

theorem pure_ok_iff {a b : α} {s s' : Sink} :
    (pure a : M α) s = (s', .ok b) ↔ s' = s ∧ b = a := by
  simp [pure_run, eq_comm]

theorem throwM_ok_iff {e : Err} {b : α} {s s' : Sink} :
    (throwM e : M α) s = (s', .ok b) ↔ False := by
  simp [throwM_run]

end PM

namespace DState
variable {ω : Type} [LzBuf ω]

theorem applySym_fields {s : DState} {w : ω} {rc : RC} {rd : Rd} {sym : RawSym} {snk snk' : Sink}
    {st : Status} {s' : DState} {w' : ω}
    (h : applySym s w rc rd sym snk = (snk', .ok (st, s', w'))) :
    s'.unpackedSize = s.unpackedSize ∧ s'.props = s.props ∧ s'.partialBuf = s.partialBuf := by
  cases sym with
  | lit b =>
    simp only [applySym, PM.bind_ok, PM.pure_ok_iff] at h
    obtain ⟨s1, a, -, -, h⟩ := h
    cases h; simp
  | shortRep =>
    simp only [applySym, PM.bind_ok, PM.pure_ok_iff] at h
    obtain ⟨s1, a, -, -, h⟩ := h
    cases h; simp
  | rep idx len =>
    simp only [applySym, PM.bind_ok, PM.pure_ok_iff] at h
    obtain ⟨s1, a, -, -, h⟩ := h
    cases h
    split <;> simp
  | mtch len r0 =>
    simp only [applySym] at h
    split at h
    · simp only [PM.bind_ok, PM.liftE_ok_iff] at h
      obtain ⟨s1, a, -, h⟩ := h
      split at h
      · simp only [PM.pure_ok_iff] at h
        obtain ⟨-, h⟩ := h
        cases h; simp
      · simp at h
    · simp only [PM.bind_ok, PM.pure_ok_iff] at h
      obtain ⟨s1, a, -, -, h⟩ := h
      cases h; simp

/-- the state after the end marker has been decoded (`rep[0] = 0xFFFF_FFFF`) -/
def markerState (s : DState) : DState :=
  { s with rep3 := s.rep2, rep2 := s.rep1, rep1 := s.rep0, rep0 := 0xFFFFFFFF,
           state := if s.state < 7 then 7 else 10 }

/-- the end-marker case of `process_next_inner`, completely -/
theorem applySym_marker (s : DState) (w : ω) (rc : RC) (rd : Rd) (l : Nat) (snk : Sink) :
    applySym s w rc rd (.mtch l 0xFFFFFFFF) snk =
      (snk, match rc.isFinishedOk rd with
        | .ok true => .ok (.finished, markerState s, w)
        | .ok false => .error .lzma
        | .error e => .error e) := by
  simp only [applySym, if_true, bind_run]
  rcases rc.isFinishedOk rd with e | b
  · simp
  · cases b <;> simp [markerState]

/-- `applySym` reports `Finished` only for the end marker, and then it has checked
`is_finished_ok` and touched neither the window nor the sink -/
theorem applySym_finished {s : DState} {w : ω} {rc : RC} {rd : Rd} {sym : RawSym} {snk snk' : Sink}
    {s' : DState} {w' : ω}
    (h : applySym s w rc rd sym snk = (snk', .ok (.finished, s', w'))) :
    (∃ l, sym = .mtch l 0xFFFFFFFF) ∧ rc.isFinishedOk rd = .ok true ∧
      snk' = snk ∧ w' = w ∧ s' = markerState s := by
  cases sym with
  | lit b =>
    simp only [applySym, PM.bind_ok, PM.pure_ok_iff] at h
    obtain ⟨s1, a, -, -, h⟩ := h
    cases h
  | shortRep =>
    simp only [applySym, PM.bind_ok, PM.pure_ok_iff] at h
    obtain ⟨s1, a, -, -, h⟩ := h
    cases h
  | rep idx len =>
    simp only [applySym, PM.bind_ok, PM.pure_ok_iff] at h
    obtain ⟨s1, a, -, -, h⟩ := h
    cases h
  | mtch len r0 =>
    by_cases hr : r0 = 0xFFFFFFFF
    · subst hr
      rw [applySym_marker] at h
      rcases hf : rc.isFinishedOk rd with e | b
      · simp [hf] at h
      · cases b <;> simp [hf] at h
        obtain ⟨h1, h2, h3⟩ := h
        exact ⟨⟨len, rfl⟩, rfl, h1.symm, h3.symm, h2.symm⟩
    · simp only [applySym, hr, if_false, PM.bind_ok, PM.pure_ok_iff] at h
      obtain ⟨s1, a, -, -, h⟩ := h
      cases h

/-! ### `processNext` -/

theorem processNext_ok_iff {s : DState} {w : ω} {rc : RC} {rd : Rd} {snk snk' : Sink}
    {st : Status} {s' : DState} {w' : ω} {rc' : RC} {rd' : Rd} :
    processNext s w rc rd snk = (snk', .ok (st, s', w', rc', rd')) ↔
      ∃ sym probs, runDec true (symTree (s.mkCtx w)) s.probs rc rd = .ok (sym, probs, rc', rd') ∧
        applySym { s with probs := probs } w rc' rd' sym snk = (snk', .ok (st, s', w')) := by
  simp only [processNext, PM.bind_ok, PM.liftE_ok_iff, PM.pure_ok_iff]
  constructor
  · rintro ⟨s1, ⟨sym, probs, rc1, rd1⟩, ⟨h1, rfl⟩, s2, ⟨st2, s2', w2⟩, h2, rfl, h3⟩
    cases h3
    exact ⟨sym, probs, h1, h2⟩
  · rintro ⟨sym, probs, h1, h2⟩
    exact ⟨snk, (sym, probs, rc', rd'), ⟨h1, rfl⟩, snk', (st, s', w'), h2, rfl, rfl⟩

theorem processNext_fields {s : DState} {w : ω} {rc : RC} {rd : Rd} {snk snk' : Sink}
    {st : Status} {s' : DState} {w' : ω} {rc' : RC} {rd' : Rd}
    (h : processNext s w rc rd snk = (snk', .ok (st, s', w', rc', rd'))) :
    s'.unpackedSize = s.unpackedSize ∧ s'.props = s.props ∧ s'.partialBuf = s.partialBuf := by
  obtain ⟨sym, probs, -, h2⟩ := processNext_ok_iff.1 h
  exact applySym_fields (s := { s with probs := probs }) h2

/-- `process_next` returns `Finished` exactly when the decoded symbol is the end marker and
`is_finished_ok` holds for the coder state right after the marker's last bit -/
theorem processNext_finished_iff {s : DState} {w : ω} {rc : RC} {rd : Rd} {snk snk' : Sink}
    {s' : DState} {w' : ω} {rc' : RC} {rd' : Rd} :
    processNext s w rc rd snk = (snk', .ok (.finished, s', w', rc', rd')) ↔
      ∃ l probs, runDec true (symTree (s.mkCtx w)) s.probs rc rd =
          .ok (.mtch l 0xFFFFFFFF, probs, rc', rd') ∧
        rc'.isFinishedOk rd' = .ok true ∧ snk' = snk ∧ w' = w ∧
        s' = markerState { s with probs := probs } := by
  rw [processNext_ok_iff]
  constructor
  · rintro ⟨sym, probs, h1, h2⟩
    obtain ⟨⟨l, rfl⟩, h3, h4, h5, h6⟩ := applySym_finished h2
    exact ⟨l, probs, h1, h3, h4, h5, h6⟩
  · rintro ⟨l, probs, h1, h3, rfl, rfl, rfl⟩
    refine ⟨_, probs, h1, ?_⟩
    rw [applySym_marker, h3]

/-! ### the loop -/

/-- the test at the top of the loop of `process_mode` -/
def stopTest (mode : Mode) (s : DState) (w : ω) (rc : RC) (rd : Rd) : Except Err Bool :=
  match s.unpackedSize with
  | some n => pure (decide (LzBuf.len w ≥ n))
  | none =>
    match mode with
    | .stream => do
      let e ← rd.isEof
      pure (e && s.partialBuf.isEmpty)
    | .finish => do
      let f ← rc.isFinishedOk rd
      pure (f && s.partialBuf.isEmpty)

theorem readPartialInputBuf_fields {s s' : DState} {rd rd' : Rd}
    (h : s.readPartialInputBuf rd = .ok (s', rd')) :
    s'.unpackedSize = s.unpackedSize ∧ s'.props = s.props := by
  simp only [readPartialInputBuf] at h
  split at h
  · cases h
  · cases h; simp

/-- Finish mode, nothing staged in `partial_input_buf`: one iteration of the loop -/
theorem processLoop_finish_succ {s : DState} (hp : s.partialBuf = []) (fuel : Nat) (w : ω)
    (rc : RC) (rd : Rd) :
    processLoop .finish (fuel + 1) s w rc rd = (do
      let stop ← liftE (stopTest .finish s w rc rd)
      if stop then pure (s, w, rc, rd)
      else do
        liftE rd.fillBuf
        let (st, s, w, rc, rd) ← processNext s w rc rd
        if st = .finished then pure (s, w, rc, rd) else processLoop .finish fuel s w rc rd) := by
  rw [processLoop]
  simp only [hp, stopTest, List.isEmpty_nil, Bool.not_true, Bool.false_eq_true, if_false]
  rfl

/-- the loop of `process_mode` never changes `unpacked_size` nor the properties -/
theorem processLoop_fields {mode : Mode} : ∀ (fuel : Nat) {s : DState} {w : ω} {rc : RC} {rd : Rd}
    {snk snk' : Sink} {s' : DState} {w' : ω} {rc' : RC} {rd' : Rd},
    processLoop mode fuel s w rc rd snk = (snk', .ok (s', w', rc', rd')) →
    s'.unpackedSize = s.unpackedSize ∧ s'.props = s.props := by
  intro fuel
  induction fuel with
  | zero => intro s w rc rd snk snk' s' w' rc' rd' h; simp [processLoop] at h
  | succ fuel ih =>
    intro s w rc rd snk snk' s' w' rc' rd' h
    unfold processLoop at h
    simp only [PM.bind_ok, PM.liftE_ok_iff] at h
    obtain ⟨s1, stop, ⟨hstop, rfl⟩, h⟩ := h
    split at h
    · simp only [PM.pure_ok_iff] at h
      obtain ⟨-, h⟩ := h; cases h; exact ⟨rfl, rfl⟩
    · split at h
      · simp only [PM.bind_ok, PM.liftE_ok_iff] at h
        obtain ⟨s2, ⟨sa, rda⟩, ⟨hr, rfl⟩, h⟩ := h
        have hf := readPartialInputBuf_fields hr
        simp only at h
        split at h
        · simp only [PM.pure_ok_iff] at h
          obtain ⟨-, h⟩ := h; cases h; exact hf
        · simp only [PM.bind_ok] at h
          obtain ⟨s3, ⟨st, sb, wb, rcb, tmp⟩, hn, h⟩ := h
          have hq := processNext_fields hn
          simp only at h
          split at h
          · simp only [PM.pure_ok_iff] at h
            obtain ⟨-, h⟩ := h; cases h
            exact ⟨hq.1.trans hf.1, hq.2.1.trans hf.2⟩
          · have := ih h
            exact ⟨this.1.trans (hq.1.trans hf.1), this.2.trans (hq.2.1.trans hf.2)⟩
      · simp only [PM.bind_ok, PM.liftE_ok_iff] at h
        obtain ⟨s2, -, ⟨-, rfl⟩, h⟩ := h
        split at h
        · simp only [PM.bind_ok, PM.liftE_ok_iff, PM.pure_ok_iff] at h
          obtain ⟨s3, ⟨sa, rda⟩, ⟨hr, rfl⟩, -, h⟩ := h
          cases h
          exact readPartialInputBuf_fields hr
        · simp only [PM.bind_ok] at h
          obtain ⟨s3, ⟨st, sb, wb, rcb, rdb⟩, hn, h⟩ := h
          have hq := processNext_fields hn
          simp only at h
          split at h
          · simp only [PM.pure_ok_iff] at h
            obtain ⟨-, h⟩ := h; cases h
            exact ⟨hq.1, hq.2.1⟩
          · have := ih h
            exact ⟨this.1.trans hq.1, this.2.trans hq.2.1⟩

theorem processLoop_unpackedSize_const {mode : Mode} {fuel : Nat} {s : DState} {w : ω} {rc : RC}
    {rd : Rd} {snk snk' : Sink} {s' : DState} {w' : ω} {rc' : RC} {rd' : Rd}
    (h : processLoop mode fuel s w rc rd snk = (snk', .ok (s', w', rc', rd'))) :
    s'.unpackedSize = s.unpackedSize ∧ s'.props = s.props :=
  processLoop_fields fuel h

/-! ### `processMode` -/

/-- `process_mode` succeeds iff its loop does and, in Finish mode with a size in effect, the
window length equals that size -/
theorem processMode_ok_iff {mode : Mode} {s : DState} {w : ω} {rc : RC} {rd : Rd}
    {snk snk' : Sink} {s' : DState} {w' : ω} {rc' : RC} {rd' : Rd} :
    processMode mode s w rc rd snk = (snk', .ok (s', w', rc', rd')) ↔
      processLoop mode (loopFuel s rd) s w rc rd snk = (snk', .ok (s', w', rc', rd')) ∧
      (∀ n, s.unpackedSize = some n → mode = .finish → LzBuf.len w' = n) := by
  simp only [processMode, PM.bind_ok]
  constructor
  · rintro ⟨s1, ⟨sa, wa, rca, rda⟩, hl, h⟩
    have hf := (processLoop_fields _ hl).1
    simp only at h
    rcases hu : sa.unpackedSize with _ | n
    · simp only [hu, PM.pure_ok_iff] at h
      obtain ⟨rfl, h⟩ := h; cases h
      refine ⟨hl, ?_⟩
      intro m hm
      rw [hf, hm] at hu; cases hu
    · simp only [hu] at h
      by_cases hc : mode = .finish ∧ n ≠ LzBuf.len wa
      · simp [hc] at h
      · simp only [hc, if_false, PM.pure_ok_iff] at h
        obtain ⟨rfl, h⟩ := h; cases h
        refine ⟨hl, ?_⟩
        intro m hm hmode
        rw [hf, hm] at hu; cases hu
        simp only [hmode, true_and, ne_eq, Decidable.not_not] at hc
        exact hc.symm
  · rintro ⟨hl, hsz⟩
    refine ⟨snk', (s', w', rc', rd'), hl, ?_⟩
    have hf := (processLoop_fields _ hl).1
    simp only
    rcases hu : s'.unpackedSize with _ | n
    · rfl
    · simp only
      rw [hf] at hu
      by_cases hc : mode = .finish ∧ n ≠ LzBuf.len w'
      · exact absurd (hsz n hu hc.1) (Ne.symm hc.2)
      · simp only [hc, if_false]; rfl

/-- C08 size rule: Finish mode with a size in effect succeeds only with exactly that many bytes
in the window -/
theorem processMode_finish_size {s : DState} {w : ω} {rc : RC} {rd : Rd}
    {snk snk' : Sink} {s' : DState} {w' : ω} {rc' : RC} {rd' : Rd} {n : Nat}
    (h : processMode .finish s w rc rd snk = (snk', .ok (s', w', rc', rd')))
    (hn : s.unpackedSize = some n) : LzBuf.len w' = n :=
  (processMode_ok_iff.1 h).2 n hn rfl

theorem processMode_fields {mode : Mode} {s : DState} {w : ω} {rc : RC} {rd : Rd}
    {snk snk' : Sink} {s' : DState} {w' : ω} {rc' : RC} {rd' : Rd}
    (h : processMode mode s w rc rd snk = (snk', .ok (s', w', rc', rd'))) :
    s'.unpackedSize = s.unpackedSize ∧ s'.props = s.props :=
  processLoop_fields _ (processMode_ok_iff.1 h).1

/-! ### Finish-mode runs as a relation (nothing staged in `partial_input_buf`) -/

theorem stopTest_some {mode : Mode} {s : DState} {w : ω} {rc : RC} {rd : Rd} {n : Nat}
    (h : s.unpackedSize = some n) : stopTest mode s w rc rd = .ok (decide (n ≤ LzBuf.len w)) := by
  simp [stopTest, h, pure, Except.pure]

theorem stopTest_none_finish {s : DState} {w : ω} {rc : RC} {rd : Rd}
    (h : s.unpackedSize = none) (hp : s.partialBuf = []) :
    stopTest .finish s w rc rd = rc.isFinishedOk rd := by
  simp only [stopTest, h, hp, List.isEmpty_nil, Bool.and_true]
  cases rc.isFinishedOk rd <;> rfl

theorem isFinishedOk_iff {rc : RC} {rd : Rd} :
    rc.isFinishedOk rd = .ok true ↔ rc.code = 0 ∧ rd.rem = [] ∧ rd.bad = false := by
  rcases rd with ⟨rem, bad⟩
  by_cases hc : rc.code = 0 <;> cases rem <;> cases bad <;>
    simp [RC.isFinishedOk, Rd.isEof, hc, pure, Except.pure]

/-- configuration of the loop of `process_mode`: decoder state, window, range coder, reader, sink -/
structure Cfg (ω : Type) where
  s : DState
  w : ω
  rc : RC
  rd : Rd
  snk : Sink

/-- how a successful Finish-mode loop was left -/
inductive Exit where
  /-- top-of-loop test `output.len() >= unpacked_size` -/
  | sizeReached
  /-- top-of-loop test `is_finished_ok()` with no size in effect (finding K1) -/
  | cleanEof
  /-- `process_next` returned `Finished`: the end marker was decoded -/
  | marker
  deriving DecidableEq, Repr

/-- `FinishSteps c k c'`: starting from `c`, the loop performs `k` full iterations (test false,
`fill_buf` ok, `process_next` returns `Continue`) and is then at `c'` -/
inductive FinishSteps : Cfg ω → Nat → Cfg ω → Prop where
  | refl (c : Cfg ω) : FinishSteps c 0 c
  | step {c : Cfg ω} {s1 : DState} {w1 : ω} {rc1 : RC} {rd1 : Rd} {snk1 : Sink} {k : Nat} {c' : Cfg ω} :
      stopTest .finish c.s c.w c.rc c.rd = .ok false →
      c.rd.fillBuf = .ok () →
      processNext c.s c.w c.rc c.rd c.snk = (snk1, .ok (.continue, s1, w1, rc1, rd1)) →
      FinishSteps ⟨s1, w1, rc1, rd1, snk1⟩ k c' →
      FinishSteps c (k + 1) c'

/-- `FinishRun c k e c'`: starting from `c`, the Finish-mode loop calls `process_next` `k` times
and leaves successfully by exit `e` in configuration `c'` -/
inductive FinishRun : Cfg ω → Nat → Exit → Cfg ω → Prop where
  | sizeReached {c : Cfg ω} {n : Nat} :
      c.s.unpackedSize = some n → n ≤ LzBuf.len c.w → FinishRun c 0 .sizeReached c
  | cleanEof {c : Cfg ω} :
      c.s.unpackedSize = none → c.rc.isFinishedOk c.rd = .ok true → FinishRun c 0 .cleanEof c
  | marker {c : Cfg ω} {s' : DState} {w' : ω} {rc' : RC} {rd' : Rd} {snk' : Sink} :
      stopTest .finish c.s c.w c.rc c.rd = .ok false →
      c.rd.fillBuf = .ok () →
      processNext c.s c.w c.rc c.rd c.snk = (snk', .ok (.finished, s', w', rc', rd')) →
      FinishRun c 1 .marker ⟨s', w', rc', rd', snk'⟩
  | step {c : Cfg ω} {s1 : DState} {w1 : ω} {rc1 : RC} {rd1 : Rd} {snk1 : Sink} {k : Nat} {e : Exit}
      {c' : Cfg ω} :
      stopTest .finish c.s c.w c.rc c.rd = .ok false →
      c.rd.fillBuf = .ok () →
      processNext c.s c.w c.rc c.rd c.snk = (snk1, .ok (.continue, s1, w1, rc1, rd1)) →
      FinishRun ⟨s1, w1, rc1, rd1, snk1⟩ k e c' →
      FinishRun c (k + 1) e c'

/-- a successful Finish-mode loop is a `FinishRun` -/
theorem processLoop_finish_run : ∀ (fuel : Nat) {c : Cfg ω} {snk' : Sink} {s' : DState} {w' : ω}
    {rc' : RC} {rd' : Rd}, c.s.partialBuf = [] →
    processLoop .finish fuel c.s c.w c.rc c.rd c.snk = (snk', .ok (s', w', rc', rd')) →
    ∃ k e, k ≤ fuel ∧ FinishRun c k e ⟨s', w', rc', rd', snk'⟩ := by
  intro fuel
  induction fuel with
  | zero => intro c snk' s' w' rc' rd' _ h; simp [processLoop] at h
  | succ fuel ih =>
    intro c snk' s' w' rc' rd' hp h
    rw [processLoop_finish_succ hp] at h
    simp only [PM.bind_ok, PM.liftE_ok_iff] at h
    obtain ⟨s1, stop, ⟨hstop, rfl⟩, h⟩ := h
    cases stop with
    | true =>
      simp only [if_true, PM.pure_ok_iff] at h
      obtain ⟨rfl, h⟩ := h; cases h
      rcases hu : c.s.unpackedSize with _ | n
      · rw [stopTest_none_finish hu hp] at hstop
        exact ⟨0, .cleanEof, by omega, .cleanEof hu hstop⟩
      · rw [stopTest_some hu] at hstop
        have : n ≤ LzBuf.len c.w := by simpa using hstop
        exact ⟨0, .sizeReached, by omega, .sizeReached hu this⟩
    | false =>
      simp only [Bool.false_eq_true, if_false, PM.bind_ok, PM.liftE_ok_iff] at h
      obtain ⟨s2, u, ⟨hfill, rfl⟩, s3, ⟨st, sb, wb, rcb, rdb⟩, hn, h⟩ := h
      simp only at h
      cases st with
      | finished =>
        simp only [if_true, PM.pure_ok_iff] at h
        obtain ⟨rfl, h⟩ := h; cases h
        exact ⟨1, .marker, by omega, .marker hstop hfill hn⟩
      | «continue» =>
        simp only [reduceCtorEq, if_false] at h
        have hpb : sb.partialBuf = [] := (processNext_fields hn).2.2.trans hp
        obtain ⟨k, e, hk, hrun⟩ := ih (c := ⟨sb, wb, rcb, rdb, s3⟩) hpb h
        exact ⟨k + 1, e, by omega, .step hstop hfill hn hrun⟩

/-- `k` full iterations just burn `k` units of fuel -/
theorem FinishSteps.loop_eq {c c' : Cfg ω} {k : Nat} (h : FinishSteps c k c') :
    c.s.partialBuf = [] → ∀ fuel,
    processLoop .finish (fuel + k) c.s c.w c.rc c.rd c.snk =
      processLoop .finish fuel c'.s c'.w c'.rc c'.rd c'.snk := by
  induction h with
  | refl c => intro _ fuel; rfl
  | step hstop hfill hn _ ih =>
    intro hp fuel
    rw [← Nat.add_assoc, processLoop_finish_succ hp]
    simp only [bind_run, hstop, hfill, liftE_ok, hn, Bool.false_eq_true, if_false, reduceCtorEq]
    exact ih ((processNext_fields hn).2.2.trans hp) fuel

theorem FinishSteps.partialBuf {c c' : Cfg ω} {k : Nat} (h : FinishSteps c k c') :
    c.s.partialBuf = [] → c'.s.partialBuf = [] := by
  induction h with
  | refl c => exact id
  | step _ _ hn _ ih => intro hp; exact ih ((processNext_fields hn).2.2.trans hp)

theorem FinishSteps.fields {c c' : Cfg ω} {k : Nat} (h : FinishSteps c k c') :
    c'.s.unpackedSize = c.s.unpackedSize ∧ c'.s.props = c.s.props := by
  induction h with
  | refl c => exact ⟨rfl, rfl⟩
  | step _ _ hn _ ih =>
    have := processNext_fields hn
    exact ⟨ih.1.trans this.1, ih.2.trans this.2.1⟩

/-- every `FinishRun` is realised by the loop, given more fuel than iterations -/
theorem FinishRun.loop_ok {c c' : Cfg ω} {k : Nat} {e : Exit} (h : FinishRun c k e c') :
    c.s.partialBuf = [] → ∀ fuel, k < fuel →
    processLoop .finish fuel c.s c.w c.rc c.rd c.snk = (c'.snk, .ok (c'.s, c'.w, c'.rc, c'.rd)) := by
  induction h with
  | @sizeReached c n hu hlen =>
    intro hp fuel hk
    obtain ⟨f, rfl⟩ : ∃ f, fuel = f + 1 := ⟨fuel - 1, by omega⟩
    rw [processLoop_finish_succ hp]
    simp [bind_run, stopTest_some hu, hlen]
  | @cleanEof c hu hfin =>
    intro hp fuel hk
    obtain ⟨f, rfl⟩ : ∃ f, fuel = f + 1 := ⟨fuel - 1, by omega⟩
    rw [processLoop_finish_succ hp]
    simp [bind_run, stopTest_none_finish hu hp, hfin]
  | marker hstop hfill hn =>
    intro hp fuel hk
    obtain ⟨f, rfl⟩ : ∃ f, fuel = f + 1 := ⟨fuel - 1, by omega⟩
    rw [processLoop_finish_succ hp]
    simp [bind_run, hstop, hfill, hn]
  | step hstop hfill hn _ ih =>
    intro hp fuel hk
    obtain ⟨f, rfl⟩ : ∃ f, fuel = f + 1 := ⟨fuel - 1, by omega⟩
    rw [processLoop_finish_succ hp]
    simp only [bind_run, hstop, hfill, liftE_ok, hn, Bool.false_eq_true, if_false, reduceCtorEq]
    exact ih ((processNext_fields hn).2.2.trans hp) f (by omega)

theorem FinishRun.fields {c c' : Cfg ω} {k : Nat} {e : Exit} (h : FinishRun c k e c') :
    c'.s.unpackedSize = c.s.unpackedSize ∧ c'.s.props = c.s.props := by
  induction h with
  | sizeReached _ _ => exact ⟨rfl, rfl⟩
  | cleanEof _ _ => exact ⟨rfl, rfl⟩
  | marker _ _ hn => have := processNext_fields hn; exact ⟨this.1, this.2.1⟩
  | step _ _ hn _ ih =>
    have := processNext_fields hn
    exact ⟨ih.1.trans this.1, ih.2.trans this.2.1⟩

/-- what each exit guarantees about the final configuration -/
theorem FinishRun.exit_spec {c c' : Cfg ω} {k : Nat} {e : Exit} (h : FinishRun c k e c') :
    match e with
    | .sizeReached => ∃ n, c.s.unpackedSize = some n ∧ n ≤ LzBuf.len c'.w
    | .cleanEof => c.s.unpackedSize = none ∧ c'.rc.isFinishedOk c'.rd = .ok true
    | .marker => 1 ≤ k ∧ c'.rc.isFinishedOk c'.rd = .ok true := by
  induction h with
  | sizeReached hu hlen => exact ⟨_, hu, hlen⟩
  | cleanEof hu hfin => exact ⟨hu, hfin⟩
  | marker _ _ hn =>
    obtain ⟨l, probs, -, hfin, -⟩ := processNext_finished_iff.1 hn
    exact ⟨Nat.le_refl 1, hfin⟩
  | @step c s1 w1 rc1 rd1 snk1 k e c' _ _ hn _ ih =>
    have := (processNext_fields hn).1
    cases e with
    | sizeReached => obtain ⟨n, h1, h2⟩ := ih; exact ⟨n, by rw [← this]; exact h1, h2⟩
    | cleanEof => exact ⟨by rw [← this]; exact ih.1, ih.2⟩
    | marker => exact ⟨by omega, ih.2⟩

theorem stopTest_true_of_exit0 {c c' : Cfg ω} {e : Exit} (h : FinishRun c 0 e c')
    (hp : c.s.partialBuf = []) : stopTest .finish c.s c.w c.rc c.rd = .ok true ∧ c' = c := by
  cases h with
  | sizeReached hu hlen => exact ⟨by rw [stopTest_some hu]; simp [hlen], rfl⟩
  | cleanEof hu hfin => exact ⟨by rw [stopTest_none_finish hu hp]; exact hfin, rfl⟩

/-- the loop is deterministic: a successful run extends every prefix of full iterations -/
theorem FinishSteps.run_split {c c1 : Cfg ω} {k : Nat} (hs : FinishSteps c k c1) :
    ∀ {k' : Nat} {e : Exit} {c' : Cfg ω}, FinishRun c k' e c' → c.s.partialBuf = [] →
    ∃ j, k' = k + j ∧ FinishRun c1 j e c' := by
  induction hs with
  | refl c => intro k' e c' hr _; exact ⟨k', by omega, hr⟩
  | step hstop hfill hn _ ih =>
    intro k' e c' hr hp
    cases hr with
    | sizeReached hu hlen =>
      have := (stopTest_true_of_exit0 (.sizeReached hu hlen) hp).1
      rw [hstop] at this; cases this
    | cleanEof hu hfin =>
      have := (stopTest_true_of_exit0 (.cleanEof hu hfin) hp).1
      rw [hstop] at this; cases this
    | marker _ _ hn' => rw [hn] at hn'; cases hn'
    | step _ _ hn' hr' =>
      rw [hn] at hn'; cases hn'
      obtain ⟨j, hj, hr''⟩ := ih hr' ((processNext_fields hn).2.2.trans hp)
      exact ⟨j, by omega, hr''⟩

theorem FinishSteps.append_run {c c1 : Cfg ω} {k : Nat} (hs : FinishSteps c k c1) :
    ∀ {j : Nat} {e : Exit} {c' : Cfg ω}, FinishRun c1 j e c' → FinishRun c (k + j) e c' := by
  induction hs with
  | refl c => intro j e c' hr; simpa using hr
  | @step _ _ _ _ _ _ k0 _ hstop hfill hn _ ih =>
    intro j e c' hr
    have := FinishRun.step hstop hfill hn (ih hr)
    rwa [show k0 + 1 + j = k0 + j + 1 by omega]

/-- a configuration has at most one successful run -/
theorem FinishRun.unique {c c1 : Cfg ω} {k1 : Nat} {e1 : Exit} (h1 : FinishRun c k1 e1 c1) :
    ∀ {k2 : Nat} {e2 : Exit} {c2 : Cfg ω}, FinishRun c k2 e2 c2 → c.s.partialBuf = [] →
    k1 = k2 ∧ e1 = e2 ∧ c1 = c2 := by
  induction h1 with
  | sizeReached hu hlen =>
    intro k2 e2 c2 h2 hp
    have ht := (stopTest_true_of_exit0 (.sizeReached hu hlen) hp).1
    cases h2 with
    | sizeReached _ _ => exact ⟨rfl, rfl, rfl⟩
    | cleanEof hu' _ => rw [hu] at hu'; cases hu'
    | marker hstop _ _ => rw [ht] at hstop; cases hstop
    | step hstop _ _ _ => rw [ht] at hstop; cases hstop
  | cleanEof hu hfin =>
    intro k2 e2 c2 h2 hp
    have ht := (stopTest_true_of_exit0 (.cleanEof hu hfin) hp).1
    cases h2 with
    | sizeReached hu' _ => rw [hu] at hu'; cases hu'
    | cleanEof _ _ => exact ⟨rfl, rfl, rfl⟩
    | marker hstop _ _ => rw [ht] at hstop; cases hstop
    | step hstop _ _ _ => rw [ht] at hstop; cases hstop
  | marker hstop hfill hn =>
    intro k2 e2 c2 h2 hp
    cases h2 with
    | sizeReached hu hlen =>
      have := (stopTest_true_of_exit0 (.sizeReached hu hlen) hp).1
      rw [hstop] at this; cases this
    | cleanEof hu hfin =>
      have := (stopTest_true_of_exit0 (.cleanEof hu hfin) hp).1
      rw [hstop] at this; cases this
    | marker _ _ hn' => rw [hn] at hn'; cases hn'; exact ⟨rfl, rfl, rfl⟩
    | step _ _ hn' _ => rw [hn] at hn'; cases hn'
  | step hstop hfill hn _ ih =>
    intro k2 e2 c2 h2 hp
    cases h2 with
    | sizeReached hu hlen =>
      have := (stopTest_true_of_exit0 (.sizeReached hu hlen) hp).1
      rw [hstop] at this; cases this
    | cleanEof hu hfin =>
      have := (stopTest_true_of_exit0 (.cleanEof hu hfin) hp).1
      rw [hstop] at this; cases this
    | marker _ _ hn' => rw [hn] at hn'; cases hn'
    | step _ _ hn' h2' =>
      rw [hn] at hn'; cases hn'
      obtain ⟨hk, he, hc⟩ := ih h2' ((processNext_fields hn).2.2.trans hp)
      exact ⟨by omega, he, hc⟩

/-- a successful `process_mode` in Finish mode (nothing staged) is a `FinishRun`; with a size in
effect the final window length equals it -/
theorem processMode_finish_run {c : Cfg ω} {snk' : Sink} {s' : DState} {w' : ω} {rc' : RC} {rd' : Rd}
    (hp : c.s.partialBuf = [])
    (h : processMode .finish c.s c.w c.rc c.rd c.snk = (snk', .ok (s', w', rc', rd'))) :
    ∃ k e, FinishRun c k e ⟨s', w', rc', rd', snk'⟩ ∧
      (∀ n, c.s.unpackedSize = some n → LzBuf.len w' = n) := by
  obtain ⟨hl, hsz⟩ := processMode_ok_iff.1 h
  obtain ⟨k, e, -, hr⟩ := processLoop_finish_run _ hp hl
  exact ⟨k, e, hr, fun n hn => hsz n hn rfl⟩

/-- Finish mode, no size in effect, nothing staged: success means the decoder stopped with
`code = 0` exactly at the (clean) end of the input — through either exit -/
theorem processMode_finish_nosize {s : DState} {w : ω} {rc : RC} {rd : Rd}
    {snk snk' : Sink} {s' : DState} {w' : ω} {rc' : RC} {rd' : Rd}
    (h : processMode .finish s w rc rd snk = (snk', .ok (s', w', rc', rd')))
    (hn : s.unpackedSize = none) (hp : s.partialBuf = []) :
    rc'.code = 0 ∧ rd'.rem = [] ∧ rd'.bad = false := by
  obtain ⟨k, e, hr, -⟩ := processMode_finish_run (c := ⟨s, w, rc, rd, snk⟩) hp h
  have hs := hr.exit_spec
  cases e with
  | sizeReached => obtain ⟨n, h1, -⟩ := hs; rw [hn] at h1; cases h1
  | cleanEof => exact isFinishedOk_iff.1 hs.2
  | marker => exact isFinishedOk_iff.1 hs.2

/-- a run that left through the marker exit: its last iteration decoded the end marker
(`rep0 = 0xFFFF_FFFF`) from a configuration reached by `k - 1` full iterations, found
`is_finished_ok`, and changed neither window nor sink -/
theorem FinishRun.marker_last {c c' : Cfg ω} {k : Nat} {e : Exit} (h : FinishRun c k e c') :
    e = .marker → ∃ j c1 l probs, k = j + 1 ∧ FinishSteps c j c1 ∧
      runDec true (symTree (c1.s.mkCtx c1.w)) c1.s.probs c1.rc c1.rd =
        .ok (.mtch l 0xFFFFFFFF, probs, c'.rc, c'.rd) ∧
      c'.rc.isFinishedOk c'.rd = .ok true ∧ c'.w = c1.w ∧ c'.snk = c1.snk ∧
      c'.s = markerState { c1.s with probs := probs } := by
  induction h with
  | sizeReached _ _ => intro h; cases h
  | cleanEof _ _ => intro h; cases h
  | @marker c s' w' rc' rd' snk' hstop hfill hn =>
    intro _
    obtain ⟨l, probs, h1, h2, h3, h4, h5⟩ := processNext_finished_iff.1 hn
    exact ⟨0, c, l, probs, rfl, .refl c, h1, h2, h4, h3, h5⟩
  | step hstop hfill hn _ ih =>
    intro he
    obtain ⟨j, c1, l, probs, hk, hs, h1⟩ := ih he
    exact ⟨j + 1, c1, l, probs, by omega, .step hstop hfill hn hs, h1⟩

/-! ### executable witnesses for `FinishSteps` / `FinishRun` (used for non-vacuity examples) -/

/-- perform exactly `k` full iterations, if possible -/
def stepsTrace : Nat → Cfg ω → Option (Cfg ω)
  | 0, c => some c
  | k + 1, c =>
    match stopTest .finish c.s c.w c.rc c.rd, c.rd.fillBuf, processNext c.s c.w c.rc c.rd c.snk with
    | .ok false, .ok (), (snk1, .ok (.continue, s1, w1, rc1, rd1)) => stepsTrace k ⟨s1, w1, rc1, rd1, snk1⟩
    | _, _, _ => none

theorem stepsTrace_sound : ∀ (k : Nat) {c c' : Cfg ω}, stepsTrace k c = some c' → FinishSteps c k c' := by
  intro k
  induction k with
  | zero => intro c c' h; simp only [stepsTrace, Option.some.injEq] at h; subst h; exact .refl c
  | succ k ih =>
    intro c c' h
    unfold stepsTrace at h
    split at h
    · rename_i h1 h2 h3
      exact .step h1 h2 h3 (ih h)
    · cases h

/-- run the Finish-mode loop for at most `fuel` iterations, recording the number of
`process_next` calls and the exit -/
def finishTrace : Nat → Cfg ω → Option (Nat × Exit × Cfg ω)
  | 0, _ => none
  | fuel + 1, c =>
    match stopTest .finish c.s c.w c.rc c.rd with
    | .ok true => some (0, if c.s.unpackedSize.isSome then .sizeReached else .cleanEof, c)
    | .ok false =>
      match c.rd.fillBuf, processNext c.s c.w c.rc c.rd c.snk with
      | .ok (), (snk1, .ok (.finished, s1, w1, rc1, rd1)) => some (1, .marker, ⟨s1, w1, rc1, rd1, snk1⟩)
      | .ok (), (snk1, .ok (.continue, s1, w1, rc1, rd1)) =>
        match finishTrace fuel ⟨s1, w1, rc1, rd1, snk1⟩ with
        | some (k, e, c') => some (k + 1, e, c')
        | none => none
      | _, _ => none
    | .error _ => none

theorem finishTrace_sound : ∀ (fuel : Nat) {c c' : Cfg ω} {k : Nat} {e : Exit},
    finishTrace fuel c = some (k, e, c') → c.s.partialBuf = [] → FinishRun c k e c' := by
  intro fuel
  induction fuel with
  | zero => intro c c' k e h; simp [finishTrace] at h
  | succ fuel ih =>
    intro c c' k e h hp
    unfold finishTrace at h
    split at h
    · rename_i hstop
      simp only [Option.some.injEq, Prod.mk.injEq] at h
      obtain ⟨rfl, rfl, rfl⟩ := h
      rcases hu : c.s.unpackedSize with _ | n
      · rw [stopTest_none_finish hu hp] at hstop
        simpa using FinishRun.cleanEof hu hstop
      · rw [stopTest_some hu] at hstop
        have : n ≤ LzBuf.len c.w := by simpa using hstop
        simpa using FinishRun.sizeReached hu this
    · rename_i hstop
      split at h
      · rename_i hfill hn
        simp only [Option.some.injEq, Prod.mk.injEq] at h
        obtain ⟨rfl, rfl, rfl⟩ := h
        exact .marker hstop hfill hn
      · rename_i hfill hn
        split at h
        · rename_i k0 e0 c0 hrec
          simp only [Option.some.injEq, Prod.mk.injEq] at h
          obtain ⟨rfl, rfl, rfl⟩ := h
          exact .step hstop hfill hn (ih hrec ((processNext_fields hn).2.2.trans hp))
        · cases h
      · cases h
    · cases h

/-- in Finish mode a size mismatch after the loop is `LzmaError` -/
theorem processMode_size_mismatch {s : DState} {w : ω} {rc : RC} {rd : Rd}
    {snk snk' : Sink} {s' : DState} {w' : ω} {rc' : RC} {rd' : Rd} {n : Nat}
    (hl : processLoop .finish (loopFuel s rd) s w rc rd snk = (snk', .ok (s', w', rc', rd')))
    (hn : s.unpackedSize = some n) (hne : LzBuf.len w' ≠ n) :
    processMode .finish s w rc rd snk = (snk', .error .lzma) := by
  have hf := (processLoop_fields _ hl).1
  unfold processMode
  generalize loopFuel s rd = fuel at hl ⊢
  rw [bind_run_ok hl]
  simp only [hf, hn]
  simp [Ne.symm hne]

/-- an error of the loop is the error of `process_mode` -/
theorem processMode_loop_error {mode : Mode} {s : DState} {w : ω} {rc : RC} {rd : Rd}
    {snk snk' : Sink} {e : Err}
    (hl : processLoop mode (loopFuel s rd) s w rc rd snk = (snk', .error e)) :
    processMode mode s w rc rd snk = (snk', .error e) := by
  unfold processMode
  generalize loopFuel s rd = fuel at hl ⊢
  rw [bind_run_error hl]

/-- the marker exit leaves the window where the last top-of-loop test saw it: below the size -/
theorem FinishRun.marker_len {c c' : Cfg ω} {k : Nat} {e : Exit} (h : FinishRun c k e c') :
    e = .marker → ∀ n, c.s.unpackedSize = some n → LzBuf.len c'.w < n := by
  induction h with
  | sizeReached _ _ => intro h; cases h
  | cleanEof _ _ => intro h; cases h
  | marker hstop _ hn =>
    intro _ n hu
    obtain ⟨l, probs, -, -, -, hw, -⟩ := processNext_finished_iff.1 hn
    rw [stopTest_some hu] at hstop
    simp only [hw]
    simpa using hstop
  | step _ _ hn _ ih =>
    intro he n hu
    exact ih he n ((processNext_fields hn).1.trans hu)

/-- with a size in effect a successful run can only leave through the size test -/
theorem FinishRun.exit_of_size {c c' : Cfg ω} {k : Nat} {e : Exit} (h : FinishRun c k e c') {n : Nat}
    (hu : c.s.unpackedSize = some n) (hlen : LzBuf.len c'.w = n) : e = .sizeReached := by
  cases e with
  | sizeReached => rfl
  | cleanEof => have := h.exit_spec; simp only at this; rw [hu] at this; cases this.1
  | marker => have := h.marker_len rfl n hu; omega

/-! ### invariants of window and sink along a run -/

theorem applySym_inv {I : ω → Sink → Prop}
    (hlit : ∀ w b snk snk' w', LzBuf.appendLiteral w b snk = (snk', .ok w') → I w snk → I w' snk')
    (hlz : ∀ w l d snk snk' w', LzBuf.appendLz w l d snk = (snk', .ok w') → I w snk → I w' snk')
    {s : DState} {w : ω} {rc : RC} {rd : Rd} {sym : RawSym} {snk snk' : Sink}
    {st : Status} {s' : DState} {w' : ω}
    (h : applySym s w rc rd sym snk = (snk', .ok (st, s', w'))) (hi : I w snk) : I w' snk' := by
  cases sym with
  | lit b =>
    simp only [applySym, PM.bind_ok, PM.pure_ok_iff] at h
    obtain ⟨s1, a, ha, rfl, h⟩ := h
    cases h; exact hlit _ _ _ _ _ ha hi
  | shortRep =>
    simp only [applySym, PM.bind_ok, PM.pure_ok_iff] at h
    obtain ⟨s1, a, ha, rfl, h⟩ := h
    cases h; exact hlz _ _ _ _ _ _ ha hi
  | rep idx len =>
    simp only [applySym, PM.bind_ok, PM.pure_ok_iff] at h
    obtain ⟨s1, a, ha, rfl, h⟩ := h
    cases h; exact hlz _ _ _ _ _ _ ha hi
  | mtch len r0 =>
    by_cases hr : r0 = 0xFFFFFFFF
    · subst hr
      rw [applySym_marker] at h
      rcases hf : rc.isFinishedOk rd with e | b
      · simp [hf] at h
      · cases b <;> simp [hf] at h
        obtain ⟨h1, -, -, h3⟩ := h
        rw [← h1, ← h3]; exact hi
    · simp only [applySym, hr, if_false, PM.bind_ok, PM.pure_ok_iff] at h
      obtain ⟨s1, a, ha, rfl, h⟩ := h
      cases h; exact hlz _ _ _ _ _ _ ha hi

theorem FinishRun.inv {I : ω → Sink → Prop}
    (hlit : ∀ w b snk snk' w', LzBuf.appendLiteral w b snk = (snk', .ok w') → I w snk → I w' snk')
    (hlz : ∀ w l d snk snk' w', LzBuf.appendLz w l d snk = (snk', .ok w') → I w snk → I w' snk')
    {c c' : Cfg ω} {k : Nat} {e : Exit} (h : FinishRun c k e c') : I c.w c.snk → I c'.w c'.snk := by
  induction h with
  | sizeReached _ _ => exact id
  | cleanEof _ _ => exact id
  | marker _ _ hn =>
    intro hi
    obtain ⟨sym, probs, -, ha⟩ := processNext_ok_iff.1 hn
    exact applySym_inv hlit hlz ha hi
  | step _ _ hn _ ih =>
    intro hi
    obtain ⟨sym, probs, -, ha⟩ := processNext_ok_iff.1 hn
    exact ih (applySym_inv hlit hlz ha hi)

theorem new_ok {props : Props} {u : Option Nat} {st : DState} (h : DState.new props u = .ok st) :
    st.partialBuf = [] ∧ st.unpackedSize = u ∧ st.props = props := by
  simp only [DState.new, Props.validate, bind, Except.bind] at h
  split at h
  · cases h
  · cases h; exact ⟨rfl, rfl, rfl⟩

end DState

theorem LzmaDecoder.new_ok {params : LzmaParams} {ml : Option Nat} {dec : LzmaDecoder}
    (h : LzmaDecoder.new params ml = .ok dec) :
    dec.params = params ∧ dec.memlimit = ml.getD USIZE_MAX ∧ dec.state.partialBuf = [] ∧
      dec.state.unpackedSize = params.unpackedSize ∧ dec.state.props = params.props := by
  simp only [LzmaDecoder.new, bind, Except.bind] at h
  split at h
  · cases h
  · split at h
    · cases h
    · rename_i st hst
      cases h
      obtain ⟨h1, h2, h3⟩ := DState.new_ok hst
      exact ⟨rfl, rfl, h1, h2, h3⟩

/-! ### byte count of the circular window on a perfect sink

`CircCount base w snk`: the sink accepts everything (`script = []`) and the bytes already written
plus the unflushed part of the current lap are exactly the `len` bytes produced since the sink
held `base` bytes.  (Only the COUNT; that the bytes are the right ones is `Lemmas/Window.lean`.) -/

namespace PM

theorem writeAll_perfect (bs : Array UInt8) {snk : Sink} (h : snk.script = []) :
    ∃ snk', writeAll bs snk = (snk', .ok ()) ∧ snk'.script = [] ∧
      snk'.out.size = snk.out.size + bs.size := by
  unfold writeAll
  by_cases hb : bs.isEmpty
  · refine ⟨snk, by simp [hb], h, ?_⟩
    have : bs.size = 0 := by simpa [Array.isEmpty] using hb
    omega
  · refine ⟨{ snk with out := snk.out ++ bs, writes := snk.writes + 1, lastFlush := false },
      by simp [hb, h], h, ?_⟩
    simp

def CircCount (base : Nat) (w : Circ) (snk : Sink) : Prop :=
  snk.script = [] ∧ w.cursor ≤ w.buf.size ∧ w.buf.size ≤ w.dictSize ∧ w.cursor < w.dictSize ∧
    snk.out.size + w.cursor = base + w.len

theorem circCount_init (d m : Nat) (hd : 1 ≤ d) {snk : Sink} (h : snk.script = []) :
    CircCount snk.out.size (Circ.fromStream d m) snk := by
  refine ⟨h, ?_, ?_, ?_, ?_⟩ <;> simp [Circ.fromStream] <;> omega

theorem circ_set_ok {w w' : Circ} {i : Nat} {v : UInt8} (h : w.set i v = .ok w') :
    w'.dictSize = w.dictSize ∧ w'.cursor = w.cursor ∧ w'.len = w.len ∧
      w'.buf.size = max w.buf.size (i + 1) := by
  unfold Circ.set at h
  simp only at h
  split at h
  · split at h
    · cases h; refine ⟨rfl, rfl, rfl, ?_⟩
      simp only [Array.size_setIfInBounds, Array.size_append, Array.size_replicate]; omega
    · cases h
  · cases h; refine ⟨rfl, rfl, rfl, ?_⟩
    simp only [Array.size_setIfInBounds]; omega

theorem circCount_appendLiteral {base : Nat} {w w' : Circ} {b : UInt8} {snk snk' : Sink}
    (h : w.appendLiteral b snk = (snk', .ok w')) (hi : CircCount base w snk) :
    CircCount base w' snk' ∧ w'.dictSize = w.dictSize := by
  obtain ⟨hs, h1, h2, h3, h4⟩ := hi
  simp only [Circ.appendLiteral, PM.bind_ok, PM.liftE_ok_iff] at h
  obtain ⟨s1, w1, ⟨hset, rfl⟩, h⟩ := h
  obtain ⟨e1, e2, e3, e4⟩ := circ_set_ok hset
  split at h
  · rename_i hfull
    obtain ⟨s2, hw, hs2, hsz⟩ := writeAll_perfect w1.buf hs
    simp only [PM.bind_ok, PM.pure_ok_iff] at h
    obtain ⟨s3, u, hw', rfl, h⟩ := h
    rw [hw] at hw'; cases hw'
    cases h
    refine ⟨⟨hs2, ?_, ?_, ?_, ?_⟩, e1⟩ <;> simp only <;> omega
  · rename_i hfull
    simp only [PM.pure_ok_iff] at h
    obtain ⟨rfl, h⟩ := h; cases h
    refine ⟨⟨hs, ?_, ?_, ?_, ?_⟩, e1⟩ <;> simp only <;> omega

theorem circCount_copyLoop {base : Nat} : ∀ (n : Nat) {w w' : Circ} {off : Nat} {snk snk' : Sink},
    Circ.copyLoop n w off snk = (snk', .ok w') → CircCount base w snk → CircCount base w' snk' := by
  intro n
  induction n with
  | zero =>
    intro w w' off snk snk' h hi
    simp only [Circ.copyLoop, PM.pure_ok_iff] at h
    obtain ⟨rfl, h⟩ := h; cases h; exact hi
  | succ n ih =>
    intro w w' off snk snk' h hi
    simp only [Circ.copyLoop, PM.bind_ok] at h
    obtain ⟨s1, w1, ha, h⟩ := h
    exact ih h (circCount_appendLiteral ha hi).1

theorem circCount_appendLz {base : Nat} {w w' : Circ} {l d : Nat} {snk snk' : Sink}
    (h : w.appendLz l d snk = (snk', .ok w')) (hi : CircCount base w snk) :
    CircCount base w' snk' := by
  unfold Circ.appendLz at h
  split at h
  · simp at h
  · split at h
    · simp at h
    · simp only [PM.bind_ok, PM.liftE_ok_iff] at h
      obtain ⟨s1, off, ⟨-, rfl⟩, h⟩ := h
      exact circCount_copyLoop _ h hi

/-- `circ_len_counts_output`: on a perfect sink, after `finish` the output grew by exactly
`w.len` bytes (counted from `base`) -/
theorem circCount_finish {base : Nat} {w : Circ} {snk snk' : Sink}
    (h : w.finish snk = (snk', .ok ())) (hi : CircCount base w snk) :
    snk'.out.size = base + w.len ∧ snk'.script = [] := by
  obtain ⟨hs, h1, h2, h3, h4⟩ := hi
  have hflush : ∀ {s s' : Sink}, s.script = [] → flushSink s = (s', .ok ()) →
      s'.out = s.out ∧ s'.script = [] := by
    intro s s' hs hf
    simp only [flushSink, hs] at hf
    cases hf; exact ⟨rfl, rfl⟩
  unfold Circ.finish at h
  split at h
  · rename_i hc
    simp only [PM.bind_ok] at h
    obtain ⟨s1, u, h, hf⟩ := h
    obtain ⟨s2, hw, hs2, hsz⟩ := writeAll_perfect (w.buf.extract 0 w.cursor) hs
    rw [hw] at h; cases h
    obtain ⟨ho, hs'⟩ := hflush hs2 hf
    refine ⟨?_, hs'⟩
    rw [ho, hsz]
    simp only [Array.size_extract]; omega
  · rename_i hc
    obtain ⟨ho, hs'⟩ := hflush hs h
    refine ⟨?_, hs'⟩
    rw [ho]; omega

end PM

/-- the stages of a successful `lzma_decompress_with_options` -/
theorem lzmaDecompress_ok_iff {rd : Rd} {opts : Options} {snk snk' : Sink} {rd' : Rd} :
    lzmaDecompress rd opts snk = (snk', .ok rd') ↔
      ∃ params rd1 dec rc rd2 s' w' rc' snk1,
        readHeader rd opts = .ok (params, rd1) ∧
        LzmaDecoder.new params opts.memlimit = .ok dec ∧
        RC.new rd1 = .ok (rc, rd2) ∧
        dec.state.processMode .finish
          (Circ.fromStream params.dictSize (opts.memlimit.getD USIZE_MAX)) rc rd2 snk =
            (snk1, .ok (s', w', rc', rd')) ∧
        w'.finish snk1 = (snk', .ok ()) := by
  simp only [lzmaDecompress, LzmaDecoder.decompress, PM.bind_ok, PM.liftE_ok_iff, PM.pure_ok_iff]
  constructor
  · rintro ⟨s1, ⟨params, rd1⟩, ⟨hh, rfl⟩, s2, dec, ⟨hd, rfl⟩, s3, ⟨dec', rd3⟩,
      ⟨s4, ⟨rc, rd2⟩, ⟨hrc, rfl⟩, s5, ⟨s', w', rc', rd4⟩, hpm, s6, u, hfin, rfl, hx⟩, rfl, rfl⟩
    cases hx
    obtain ⟨hp, hm, -⟩ := LzmaDecoder.new_ok hd
    rw [hp, hm] at hpm
    refine ⟨params, rd1, dec, rc, rd2, s', w', rc', s5, hh, hd, ?_, hpm, hfin⟩
    rcases hr : RC.new rd1 with e | x
    · simp [hr] at hrc
    · simp only [hr] at hrc; cases hrc; rfl
  · rintro ⟨params, rd1, dec, rc, rd2, s', w', rc', snk1, hh, hd, hrc, hpm, hfin⟩
    obtain ⟨hp, hm, -⟩ := LzmaDecoder.new_ok hd
    rw [← hp, ← hm] at hpm
    exact ⟨snk, (params, rd1), ⟨hh, rfl⟩, snk, dec, ⟨hd, rfl⟩, snk', (_, rd'),
      ⟨snk, (rc, rd2), ⟨by rw [hrc], rfl⟩, snk1, (s', w', rc', rd'), hpm, snk', (), hfin, rfl, rfl⟩,
      rfl, rfl⟩

end Lzma
