/-
  C05 — layer A at the level of the `Stream` object (`write` and `feed` in Header
  state), and the composition of header phase and data phase for a whole list
  of chunks.
-/
import LzmaProofs.Lemmas.StreamEquivHeader
namespace Lzma
namespace StreamEq

open DState Safety

theorem dstate_new_pbuf {p : Props} {u : Option Nat} {d : DState} (h : DState.new p u = .ok d) :
    d.partialBuf = [] := by
  unfold DState.new at h
  cases hv : p.validate with
  | error e => simp [hv, bind, Except.bind] at h
  | ok x =>
    simp only [hv, bind, Except.bind, pure, Except.pure, Except.ok.injEq] at h
    rw [← h]

/-- entering the Data state: the fresh `RunState` satisfies the invariant, nothing
is staged, and the one-shot decoder on the whole input is the one-shot tail from
this `RunState` on the bytes after the `NN` header bytes -/
theorem enter_data {z t : Bytes} {opts : Options} {rs : RunState}
    (h : Stream.readHeader ⟨z, false⟩ opts = .ok (some rs, ⟨t, false⟩)) :
    RInv rs ∧ rs.decoder.partialBuf = [] ∧
      ∀ y snk', Veq (toUnit (lzmaDecompress ⟨z ++ y, false⟩ opts snk')) (rfin rs (t ++ y) snk') := by
  obtain ⟨params, rd1, decoder, rc, h1, h2, h3, hrs⟩ := sreadHeader_some_iff.mp h
  have hsafe := Stream_readHeader_safe ⟨z, false⟩ opts
  rw [h] at hsafe
  obtain ⟨g1, g2, g3⟩ := hsafe rs rfl
  have hdict := (readHeader_dict h1).2
  have hpb : rs.decoder.partialBuf = [] := by rw [hrs]; exact dstate_new_pbuf h2
  have hI : RInv rs := ⟨g1, g3, by rw [hrs]; exact hdict, g2⟩
  refine ⟨hI, hpb, fun y snk' => ?_⟩
  obtain ⟨_, ht, happ⟩ := srh_some h
  simp only [Rd.mk.injEq, and_true] at ht
  have hv := oneshot_veq snk' (happ y)
  rw [← ht] at hv
  have hI' : Inv rs.decoder rs.output ⟨rs.range, rs.code⟩ := hI
  rw [processLoop_eq_PL (t ++ y) snk' hI' (lmu_lt_loopFuel (t ++ y) hI'), ← fin_eq] at hv
  unfold rfin
  rw [clr_of_nil hpb]
  exact hv

/-- the Header-state invariant: everything received so far is staged in `tmp`
and `read_header` still says "need more data" on it -/
def HNone (opts : Options) (P : Bytes) : Prop := ∃ r, Stream.readHeader ⟨P, false⟩ opts = .ok (none, r)

theorem HNone_nil (opts : Options) : HNone opts [] := by
  refine ⟨⟨[], false⟩, ?_⟩
  unfold Stream.readHeader
  rw [readHeader_eq]

/-- Layer A, detailed form: as `stream_header_equiv`, and on entering the Data state
the new `RunState` is the one `read_header` builds from the whole input, nothing is
staged in `partial_input_buf`, at most 8 bytes stay in `tmp`, and what is left of the
input is exactly what follows the `NN` header bytes. -/
theorem stream_header_equiv' {st : Stream} (hs : st.state = some .header)
    (hno : HNone st.options st.tmp) {data : Bytes} (hdne : data ≠ []) (snk : Sink) :
    (∃ e, st.write data snk = (snk, .error e) ∧
      ∀ G snk', IsErr (toUnit (lzmaDecompress ⟨st.tmp ++ data ++ G, false⟩ st.options snk'))) ∨
    (∃ st', st.write data snk = (snk, .ok (st', data.length)) ∧ st'.state = some .header ∧
      st'.tmp = st.tmp ++ data ∧ st'.options = st.options ∧ HNone st.options (st.tmp ++ data)) ∨
    (∃ st' n rs, st.write data snk = (snk, .ok (st', n)) ∧ 0 < n ∧ n ≤ data.length ∧
      DataInv st' rs ∧ st'.options = st.options ∧
      (∀ G snk', Veq (toUnit (lzmaDecompress ⟨st.tmp ++ data ++ G, false⟩ st.options snk'))
        (sfin st' rs (data.drop n ++ G) snk')) ∧
      rs.decoder.partialBuf = [] ∧ st'.tmp.length ≤ 8 ∧
      ∀ G, Stream.readHeader ⟨st.tmp ++ data ++ G, false⟩ st.options =
        .ok (some rs, ⟨st'.tmp ++ data.drop n ++ G, false⟩)) := by
  obtain ⟨r0, hr0⟩ := hno
  have hPlen := srh_none hr0
  have hNN := NN_bounds st.options
  have hdpos : 0 < data.length := List.length_pos_iff.mpr hdne
  unfold Stream.write
  rw [hs]
  simp only
  by_cases ht : st.tmp.length > 0
  · simp only [ht, ↓reduceIte, MAX_TMP_LEN]
    generalize hk : min data.length (18 - st.tmp.length) = k
    have hkpos : 0 < k := by omega
    have hkle : k ≤ data.length := by omega
    have hcat : ∀ G, st.tmp ++ data ++ G = (st.tmp ++ data.take k) ++ (data.drop k ++ G) := by
      intro G
      rw [List.append_assoc, List.append_assoc, ← List.append_assoc (data.take k),
        List.take_append_drop]
    rcases sreadHeader_cases ⟨st.tmp ++ data.take k, false⟩ st.options with
      ⟨rs, rd2, h⟩ | ⟨rd2, h, _⟩ | ⟨e, h, _⟩
    · right; right
      obtain ⟨hlen, rfl, happ⟩ := srh_some h
      obtain ⟨e1, e2, e3⟩ := enter_data h
      refine ⟨{ st with tmp := (st.tmp ++ data.take k).drop (NN st.options), state := some (.data rs) },
        k, rs, ?_, hkpos, hkle, ⟨rfl, e1, .inr e2, .inl (by rw [e2]; decide)⟩, rfl, ?_, e2, ?_, ?_⟩
      · simp only [Rd.ofBytes, h]
      · intro G snk'
        rw [hcat G]
        have := e3 (data.drop k ++ G) snk'
        unfold sfin
        rw [e2, List.append_nil]
        exact this
      · show ((st.tmp ++ data.take k).drop (NN st.options)).length ≤ 8
        rw [List.length_drop, List.length_append, List.length_take]
        omega
      · intro G
        rw [hcat G]
        have := happ (data.drop k ++ G)
        rw [this, List.append_assoc]
    · right; left
      have hl := srh_none h
      rw [List.length_append, List.length_take] at hl
      have hkeq : k = data.length := by omega
      subst hkeq
      rw [List.take_length] at h
      refine ⟨{ st with tmp := st.tmp ++ data, state := some .header }, ?_, rfl, rfl, rfl, ⟨rd2, h⟩⟩
      simp only [Rd.ofBytes, List.take_length, h]
    · left
      refine ⟨e, ?_, fun G snk' => ?_⟩
      · simp only [Rd.ofBytes, h]
      · rw [hcat G]
        exact oneshot_err_of_not_some snk' (srh_err h _)
  · simp only [ht, ↓reduceIte, MAX_TMP_LEN]
    have htmp : st.tmp = [] := List.eq_nil_of_length_eq_zero (by omega)
    rcases sreadHeader_cases ⟨data, false⟩ st.options with ⟨rs, rd2, h⟩ | ⟨rd2, h, _⟩ | ⟨e, h, _⟩
    · right; right
      obtain ⟨hlen, rfl, happ⟩ := srh_some h
      obtain ⟨e1, e2, e3⟩ := enter_data h
      have hn : data.length - (data.drop (NN st.options)).length = NN st.options := by
        rw [List.length_drop]; omega
      refine ⟨{ st with state := some (.data rs) }, NN st.options, rs, ?_, by omega, hlen,
        ⟨rfl, e1, .inr e2, .inl (by rw [e2]; decide)⟩, rfl, ?_, e2, ?_, ?_⟩
      · simp only [Rd.ofBytes, h, hn]
      · intro G snk'
        have := e3 G snk'
        unfold sfin
        show Veq _ (rfin rs (st.tmp ++ rs.decoder.partialBuf ++ (data.drop (NN st.options) ++ G)) snk')
        rw [htmp, e2, List.nil_append, List.nil_append]
        exact this
      · show st.tmp.length ≤ 8
        rw [htmp]; decide
      · intro G
        show Stream.readHeader ⟨st.tmp ++ data ++ G, false⟩ st.options =
          .ok (some rs, ⟨st.tmp ++ data.drop (NN st.options) ++ G, false⟩)
        rw [htmp, List.nil_append, List.nil_append]
        exact happ G
    · right; left
      have hl := srh_none h
      have hmin : min data.length 18 = data.length := by omega
      refine ⟨{ st with tmp := data, state := some .header }, ?_, rfl, by rw [htmp]; rfl, rfl,
        by rw [htmp]; exact ⟨rd2, h⟩⟩
      simp only [Rd.ofBytes, h, hmin, List.take_length]
    · left
      refine ⟨e, ?_, fun G snk' => ?_⟩
      · simp only [Rd.ofBytes, h]
      · rw [htmp, List.nil_append]
        exact oneshot_err_of_not_some snk' (srh_err h _)

/-- **Layer A: one `write` in Header state.**  Either the header is fatally wrong
(then the one-shot decoder fails on every continuation), or everything was staged
and more data is needed, or the stream entered the Data state having accepted `n`
bytes, and the one-shot decoder on the whole input is the one-shot tail of the new
state on the rest. -/
theorem stream_header_equiv {st : Stream} (hs : st.state = some .header)
    (_hopt : st.options.allowIncomplete = false) (hno : HNone st.options st.tmp)
    {data : Bytes} (hdne : data ≠ []) (snk : Sink) :
    (∃ e, st.write data snk = (snk, .error e) ∧
      ∀ G snk', IsErr (toUnit (lzmaDecompress ⟨st.tmp ++ data ++ G, false⟩ st.options snk'))) ∨
    (∃ st', st.write data snk = (snk, .ok (st', data.length)) ∧ st'.state = some .header ∧
      st'.tmp = st.tmp ++ data ∧ st'.options = st.options ∧ HNone st.options (st.tmp ++ data)) ∨
    (∃ st' n rs, st.write data snk = (snk, .ok (st', n)) ∧ 0 < n ∧ n ≤ data.length ∧
      DataInv st' rs ∧ st'.options = st.options ∧
      ∀ G snk', Veq (toUnit (lzmaDecompress ⟨st.tmp ++ data ++ G, false⟩ st.options snk'))
        (sfin st' rs (data.drop n ++ G) snk')) := by
  rcases stream_header_equiv' hs hno hdne snk with h | h | ⟨st', n, rs, h1, h2, h3, h4, h5, h6, _⟩
  · exact .inl h
  · exact .inr (.inl h)
  · exact .inr (.inr ⟨st', n, rs, h1, h2, h3, h4, h5, h6⟩)

/-! ## the `feed` loop in Header state -/

theorem writeS_of_ok {st st' : Stream} {data : Bytes} {snk k : Sink} {n : Nat}
    (h : st.write data snk = (k, .ok (st', n))) : st.writeS data snk = (k, st', .ok n) := by
  unfold Stream.writeS; rw [h]

theorem writeS_of_err {st : Stream} {data : Bytes} {snk k : Sink} {e : Err}
    (h : st.write data snk = (k, .error e)) : st.writeS data snk = (k, st.failed, .error e) := by
  unfold Stream.writeS; rw [h]

/-- what a `feed` started in Header state (with everything so far staged in `tmp`) means -/
def FeedHPost (st : Stream) (data : Bytes) (snk : Sink) (res : Sink × Stream × Except Err Nat) : Prop :=
  match res with
  | (_, _, Except.error _) =>
    ∀ G, IsErr (toUnit (lzmaDecompress ⟨st.tmp ++ data ++ G, false⟩ st.options snk))
  | (k, st', Except.ok _) =>
    st'.options = st.options ∧
    ((k = snk ∧ st'.state = some .header ∧ st'.tmp = st.tmp ++ data ∧ HNone st.options (st.tmp ++ data)) ∨
     (∃ rs', DataInv st' rs' ∧
        ∀ G, Veq (toUnit (lzmaDecompress ⟨st.tmp ++ data ++ G, false⟩ st.options snk)) (sfin st' rs' G k)))

theorem feed_header (hN : Need20) (f : Nat) (st : Stream) (data : Bytes) (acc : Nat) (snk : Sink)
    (res : Sink × Stream × Except Err Nat) (hs : st.state = some .header)
    (hno : HNone st.options st.tmp)
    (hlen : data.length < f) (hfeed : Stream.feed f st data acc snk = res) :
    FeedHPost st data snk res := by
  cases f with
  | zero => omega
  | succ f =>
    rw [Stream.feed] at hfeed
    by_cases hemp : data.isEmpty = true
    · rw [if_pos hemp] at hfeed
      subst hfeed
      have : data = [] := List.isEmpty_iff.mp hemp
      subst this
      refine ⟨rfl, .inl ⟨rfl, hs, by rw [List.append_nil], by rw [List.append_nil]; exact hno⟩⟩
    · rw [if_neg hemp] at hfeed
      have hdne : data ≠ [] := fun h => hemp (by rw [h]; rfl)
      have hdpos : 0 < data.length := List.length_pos_iff.mpr hdne
      rcases stream_header_equiv' hs hno hdne snk with
        ⟨e, hw, herr⟩ | ⟨st', hw, h1, h2, h3, h4⟩ | ⟨st', n, rs, hw, hn0, hnle, hD, ho, hV, _⟩
      · rw [writeS_of_err hw] at hfeed
        simp only at hfeed
        subst hfeed
        exact fun G => herr G snk
      · rw [writeS_of_ok hw] at hfeed
        simp only at hfeed
        rw [if_neg (by omega)] at hfeed
        cases f with
        | zero => omega
        | succ f =>
          rw [Stream.feed, List.drop_length] at hfeed
          simp only [List.isEmpty_nil, if_true] at hfeed
          subst hfeed
          exact ⟨h3, .inl ⟨rfl, h1, h2, h4⟩⟩
      · rw [writeS_of_ok hw] at hfeed
        simp only at hfeed
        rw [if_neg (by omega)] at hfeed
        have hp := feed_data hN f st' rs (data.drop n) (acc + n) snk res hD
          (by rw [List.length_drop]; omega) hfeed
        rcases res with ⟨k, st2, r⟩
        cases r with
        | error e =>
          intro G
          exact (hV G snk).isErr (hp G)
        | ok m =>
          obtain ⟨rs2, hD2, ho2, hV2⟩ := hp
          exact ⟨ho2.trans ho, .inr ⟨rs2, hD2, fun G => (hV G snk).trans (hV2 G)⟩⟩

/-! ## header phase + data phase for a whole chunk list -/

theorem finish_header_err {st : Stream} (hs : st.state = some .header) (ht : st.tmp ≠ []) (snk : Sink) :
    st.finish snk = (snk, .error .lzma) := by
  unfold Stream.finish
  rw [hs]
  have : st.tmp.length > 0 := List.length_pos_iff.mpr ht
  simp [this]

/-- **The stream run from a Header state (depends on `Need20`).** -/
theorem header_run_partial (hN : Need20) : ∀ (cs : List Bytes) (st : Stream) (snk : Sink),
    st.state = some .header → st.options.allowIncomplete = false → HNone st.options st.tmp →
    st.tmp ++ cs.flatten ≠ [] →
    Veq (streamRunFrom st cs snk) (toUnit (lzmaDecompress ⟨st.tmp ++ cs.flatten, false⟩ st.options snk)) := by
  intro cs
  induction cs with
  | nil =>
    intro st snk hs hopt hno hne
    rw [List.flatten_nil, List.append_nil] at hne ⊢
    rw [streamRunFrom_nil, finish_header_err hs hne]
    refine .inl ⟨isErr_mk _ _, oneshot_err_of_not_some snk ?_⟩
    rintro ⟨rs, rd2, h⟩
    obtain ⟨r, hr⟩ := hno
    rw [hr] at h
    simp at h
  | cons c cs ih =>
    intro st snk hs hopt hno hne
    rw [List.flatten_cons, ← List.append_assoc] at hne ⊢
    rcases hf : Stream.feed (c.length + 1) st c 0 snk with ⟨k, st1, r⟩
    have hp := feed_header hN _ st c 0 snk _ hs hno (Nat.lt_succ_self _) hf
    cases r with
    | error e =>
      rw [streamRunFrom_cons_err hf]
      exact .inl ⟨isErr_mk _ _, hp _⟩
    | ok m =>
      rw [streamRunFrom_cons_ok hf]
      obtain ⟨ho, hcase⟩ := hp
      rcases hcase with ⟨rfl, h1, h2, h3⟩ | ⟨rs', hD, hV⟩
      · have := ih st1 k h1 (by rw [ho]; exact hopt) (by rw [ho, h2]; exact h3) (by rw [h2]; exact hne)
        rw [h2, ho] at this
        exact this
      · exact (data_run_partial hN cs st1 rs' k hD (by rw [ho]; exact hopt)).trans (hV _).symm

end StreamEq
end Lzma
