/-
  C05 — layer D at the level of the `Stream` object in Data state: `write`,
  the re-submitting `feed` loop, `finish`, and a whole list of chunks.
-/
import LzmaProofs.Lemmas.StreamEquivData
import LzmaProofs.Lemmas.StreamBasic
namespace Lzma
namespace StreamEq

open DState Safety

/-! ## the driver: a division of the input into `write` calls -/

/-- feed every chunk (each with the re-submitting `feed` loop), stop at the first error -/
def feedAll : List Bytes → Stream → Sink → Sink × Stream × Except Err Unit
  | [], st, snk => (snk, st, .ok ())
  | c :: cs, st, snk =>
    match Stream.feed (c.length + 1) st c 0 snk with
    | (snk', st', .ok _) => feedAll cs st' snk'
    | (snk', st', .error e) => (snk', st', .error e)

/-- feed all chunks, then `finish`; the verdict is `ok` iff no `write` failed and
`finish` succeeded -/
def streamRunFrom (st : Stream) (cs : List Bytes) (snk : Sink) : Sink × Except Err Unit :=
  match feedAll cs st snk with
  | (snk', st', .ok _) => st'.finish snk'
  | (snk', _, .error e) => (snk', .error e)

/-- the streaming decoder run on a chunk list from a fresh `Stream` -/
def streamRun (opts : Options) (cs : List Bytes) (snk : Sink) : Sink × Except Err Unit :=
  streamRunFrom (Stream.newWithOptions opts) cs snk

theorem streamRunFrom_nil (st : Stream) (snk : Sink) : streamRunFrom st [] snk = st.finish snk := rfl

theorem streamRunFrom_cons_ok {st st1 : Stream} {c : Bytes} {cs : List Bytes} {snk k : Sink} {m : Nat}
    (h : Stream.feed (c.length + 1) st c 0 snk = (k, st1, .ok m)) :
    streamRunFrom st (c :: cs) snk = streamRunFrom st1 cs k := by
  unfold streamRunFrom
  rw [feedAll, h]

theorem streamRunFrom_cons_err {st st1 : Stream} {c : Bytes} {cs : List Bytes} {snk k : Sink} {e : Err}
    (h : Stream.feed (c.length + 1) st c 0 snk = (k, st1, .error e)) :
    streamRunFrom st (c :: cs) snk = (k, .error e) := by
  unfold streamRunFrom
  rw [feedAll, h]

/-! ## `finish` in Data state -/

theorem finish_generic (pm : M (DState × Circ × RC × Rd)) (snk : Sink) :
    (do let __x ← pm
        let out ← (pure __x.2.fst : M Circ)
        Circ.finish out : M Unit) snk =
    (do let (_, out, _, _) ← pm
        Circ.finish out : M Unit) snk := by
  rw [bind_run, bind_run]
  generalize pm snk = res
  rcases res with ⟨k, r⟩
  cases r with
  | error e => rfl
  | ok y => obtain ⟨s1, w1, rc1, rd1⟩ := y; rfl

theorem finish_data_eq {st : Stream} {rs : RunState} (hs : st.state = some (.data rs))
    (ho : st.options.allowIncomplete = false) (snk : Sink) :
    st.finish snk = finK (processLoop .finish (loopFuel rs.decoder ⟨st.tmp, false⟩) rs.decoder rs.output
      ⟨rs.range, rs.code⟩ ⟨st.tmp, false⟩ snk) := by
  unfold Stream.finish
  rw [hs]
  simp only [ho, Bool.not_false, if_true]
  exact (finish_generic _ snk).trans (processMode_finish_then snk)

/-- the invariant of a `Stream` in Data state -/
structure DataInv (st : Stream) (rs : RunState) : Prop where
  state : st.state = some (.data rs)
  inv : RInv rs
  excl : st.tmp = [] ∨ rs.decoder.partialBuf = []
  pb : rs.decoder.partialBuf.length < 20 ∨ StopNow rs.decoder rs.output

/-- the one-shot tail of a stream in Data state followed by the future input `G`:
the logical remaining input is `tmp ++ partialBuf ++ G` -/
def sfin (st : Stream) (rs : RunState) (G : Bytes) : M Unit :=
  rfin rs (st.tmp ++ rs.decoder.partialBuf ++ G)

theorem rfin_stopNow {rs : RunState} (hI : RInv rs) (h : StopNow rs.decoder rs.output)
    (R R' : Bytes) (snk : Sink) : rfin rs R snk = rfin rs R' snk :=
  fin_stopNow (clr_inv hI) h R R' snk

theorem finish_data {st : Stream} {rs : RunState} (hD : DataInv st rs)
    (ho : st.options.allowIncomplete = false) (snk : Sink) :
    st.finish snk = sfin st rs [] snk := by
  rw [finish_data_eq hD.state ho]
  have hI : Inv rs.decoder rs.output ⟨rs.range, rs.code⟩ := hD.inv
  rcases hD.excl with h | h
  · rw [h, finish_buf_sim _ _ _ _ snk hI (lmu_lt_loopFuel [] hI)]
    unfold sfin rfin
    rw [h, List.nil_append, List.append_nil]
  · rw [processLoop_eq_PL st.tmp snk hI (lmu_lt_loopFuel st.tmp hI), ← fin_eq]
    unfold sfin rfin
    rw [h, List.append_nil, List.append_nil, clr_of_nil h]

/-! ## `write` in Data state -/

theorem tmp_run_ok (hN : Need20) {st : Stream} {rs rs1 : RunState} {rdx : Rd} {snk k1 : Sink}
    (hD : DataInv st rs) (ht : st.tmp.length > 0)
    (h5 : Stream.readData rs (Rd.ofBytes st.tmp) snk = (k1, .ok (rs1, rdx))) :
    RInv rs1 ∧ (rs1.decoder.partialBuf.length < 20 ∨ StopNow rs1.decoder rs1.output) ∧
      ∀ F, Veq (rfin rs (st.tmp ++ rs.decoder.partialBuf ++ F) snk)
               (rfin rs1 (rs1.decoder.partialBuf ++ F) k1) := by
  have hpbnil : rs.decoder.partialBuf = [] := by
    rcases hD.excl with h | h
    · rw [h] at ht; simp at ht
    · exact h
  obtain ⟨_, g2, _, g4, g5, g6⟩ := readData_ok hN hD.inv h5
  refine ⟨g2, g5, fun F => ?_⟩
  have := g6 F
  rw [hpbnil, List.nil_append] at this
  rw [hpbnil, List.append_nil]
  rcases g4 with g | g | ⟨g, _⟩
  · rw [g, List.append_nil] at this
    exact this
  · exact this.trans (Veq.of_eq (rfin_stopNow g2 g _ _ _))
  · exact absurd hpbnil g

theorem tmp_run_err (hN : Need20) {st : Stream} {rs : RunState} {snk k1 : Sink} {e : Err}
    (hD : DataInv st rs) (ht : st.tmp.length > 0)
    (h5 : Stream.readData rs (Rd.ofBytes st.tmp) snk = (k1, .error e)) :
    ∀ F, IsErr (rfin rs (st.tmp ++ rs.decoder.partialBuf ++ F) snk) := by
  have hpbnil : rs.decoder.partialBuf = [] := by
    rcases hD.excl with h | h
    · rw [h] at ht; simp at ht
    · exact h
  intro F
  have := readData_err hN hD.inv h5 F
  rw [hpbnil, List.nil_append] at this
  rw [hpbnil, List.append_nil]
  exact this

theorem phase2_ok (hN : Need20) {rs1 rs2 : RunState} {data : Bytes} {rd2 : Rd} {k1 k2 : Sink}
    (hI1 : RInv rs1) (hpb1 : rs1.decoder.partialBuf.length < 20 ∨ StopNow rs1.decoder rs1.output)
    (h3 : Stream.readData rs1 (Rd.ofBytes data) k1 = (k2, .ok (rs2, rd2))) :
    RInv rs2 ∧ (rs2.decoder.partialBuf.length < 20 ∨ StopNow rs2.decoder rs2.output) ∧
      (data.length - rd2.rem.length = 0 → data ≠ [] → StopNow rs2.decoder rs2.output) ∧
      ∀ G, Veq (rfin rs1 (rs1.decoder.partialBuf ++ (data ++ G)) k1)
        (rfin rs2 (rs2.decoder.partialBuf ++ (data.drop (data.length - rd2.rem.length) ++ G)) k2) := by
  obtain ⟨_, g2, g3, g4, g5, g6⟩ := readData_ok hN hI1 h3
  have hle := g3.length_le
  refine ⟨g2, g5, ?_, fun G => ?_⟩
  · intro hn hdne
    have hpos : 0 < data.length := List.length_pos_iff.mpr hdne
    rcases g4 with g | g | ⟨_, g'⟩
    · rw [g] at hn; simp at hn; exact absurd hn hdne
    · exact g
    · rcases g' with g' | g'
      · omega
      · rcases hpb1 with hp | hp
        · omega
        · obtain ⟨m, hm1, hm2⟩ := hp
          have := Stream.readData_size_reached rs1 (Rd.ofBytes data) k1 m hm1 hm2
          rw [this] at h3
          simp only [Prod.mk.injEq, Except.ok.injEq] at h3
          rw [← h3.2.1]
          exact ⟨m, hm1, hm2⟩
  · have hdrop : data.drop (data.length - rd2.rem.length) = rd2.rem :=
      (List.suffix_iff_eq_drop.mp g3).symm
    rw [hdrop, ← List.append_assoc, ← List.append_assoc]
    exact g6 G

theorem write_data_ok (hN : Need20) {st st' : Stream} {rs : RunState} {data : Bytes} {snk k : Sink} {n : Nat}
    (hD : DataInv st rs) (h : st.write data snk = (k, .ok (st', n))) :
    ∃ rs', DataInv st' rs' ∧ st'.tmp = [] ∧ st'.options = st.options ∧ n ≤ data.length ∧
      (n = 0 → data ≠ [] → StopNow rs'.decoder rs'.output) ∧
      ∀ G, Veq (sfin st rs (data ++ G) snk) (sfin st' rs' (data.drop n ++ G) k) := by
  unfold Stream.write at h
  rw [hD.state] at h
  simp only at h
  by_cases ht : st.tmp.length > 0
  · rw [if_pos ht] at h
    obtain ⟨x, k1, h5, h2⟩ := bind_eq_ok h
    obtain ⟨rs1, rdx⟩ := x
    obtain ⟨rs1', k1', h6, h2⟩ := bind_eq_ok h2
    simp only [pure_run, Prod.mk.injEq, Except.ok.injEq] at h6
    obtain ⟨rfl, rfl⟩ := h6
    obtain ⟨y, k2, h3, h4⟩ := bind_eq_ok h2
    obtain ⟨rs2, rd2⟩ := y
    simp only [pure_run, Prod.mk.injEq, Except.ok.injEq] at h4
    obtain ⟨rfl, rfl, rfl⟩ := h4
    obtain ⟨hI1, hpb1, hV1⟩ := tmp_run_ok hN hD ht h5
    obtain ⟨g2, g5, g0, gV⟩ := phase2_ok hN hI1 hpb1 h3
    refine ⟨rs2, ⟨rfl, g2, .inl rfl, g5⟩, rfl, rfl, Nat.sub_le _ _, g0, fun G => ?_⟩
    refine (hV1 (data ++ G)).trans ?_
    show Veq _ (rfin rs2 ([] ++ rs2.decoder.partialBuf ++ (data.drop (data.length - rd2.rem.length) ++ G)) k2)
    rw [List.nil_append]
    exact gV G
  · rw [if_neg ht] at h
    obtain ⟨rs1', k1', h6, h2⟩ := bind_eq_ok h
    simp only [pure_run, Prod.mk.injEq, Except.ok.injEq] at h6
    obtain ⟨rfl, rfl⟩ := h6
    obtain ⟨y, k2, h3, h4⟩ := bind_eq_ok h2
    obtain ⟨rs2, rd2⟩ := y
    simp only [pure_run, Prod.mk.injEq, Except.ok.injEq] at h4
    obtain ⟨rfl, rfl, rfl⟩ := h4
    have htmp : st.tmp = [] := List.eq_nil_of_length_eq_zero (by omega)
    obtain ⟨g2, g5, g0, gV⟩ := phase2_ok hN hD.inv hD.pb h3
    refine ⟨rs2, ⟨rfl, g2, .inl rfl, g5⟩, rfl, rfl, Nat.sub_le _ _, g0, fun G => ?_⟩
    show Veq (rfin rs (st.tmp ++ rs.decoder.partialBuf ++ (data ++ G)) snk)
      (rfin rs2 ([] ++ rs2.decoder.partialBuf ++ (data.drop (data.length - rd2.rem.length) ++ G)) k2)
    rw [htmp, List.nil_append, List.nil_append]
    exact gV G

theorem write_data_err (hN : Need20) {st : Stream} {rs : RunState} {data : Bytes} {snk k : Sink} {e : Err}
    (hD : DataInv st rs) (h : st.write data snk = (k, .error e)) :
    ∀ G, IsErr (sfin st rs (data ++ G) snk) := by
  unfold Stream.write at h
  rw [hD.state] at h
  simp only at h
  intro G
  by_cases ht : st.tmp.length > 0
  · rw [if_pos ht] at h
    rcases bind_eq_err h with h5 | ⟨x, k1, h5, h2⟩
    · exact tmp_run_err hN hD ht h5 (data ++ G)
    · obtain ⟨rs1, rdx⟩ := x
      obtain ⟨hI1, _, hV1⟩ := tmp_run_ok hN hD ht h5
      refine (hV1 (data ++ G)).isErr ?_
      rcases bind_eq_err h2 with h6 | ⟨rs1', k1', h6, h2⟩
      · simp [pure_run] at h6
      · simp only [pure_run, Prod.mk.injEq, Except.ok.injEq] at h6
        obtain ⟨rfl, rfl⟩ := h6
        rcases bind_eq_err h2 with h3 | ⟨y, k2, _, h4⟩
        · have := readData_err hN hI1 h3 G
          rw [List.append_assoc] at this
          exact this
        · simp [pure_run] at h4
  · rw [if_neg ht] at h
    have htmp : st.tmp = [] := List.eq_nil_of_length_eq_zero (by omega)
    rcases bind_eq_err h with h6 | ⟨rs1', k1', h6, h2⟩
    · simp [pure_run] at h6
    · simp only [pure_run, Prod.mk.injEq, Except.ok.injEq] at h6
      obtain ⟨rfl, rfl⟩ := h6
      rcases bind_eq_err h2 with h3 | ⟨y, k2, _, h4⟩
      · have := readData_err hN hD.inv h3 G
        show IsErr (rfin rs (st.tmp ++ rs.decoder.partialBuf ++ (data ++ G)) snk)
        rw [htmp, List.nil_append, ← List.append_assoc]
        exact this
      · simp [pure_run] at h4

/-! ## the `feed` loop in Data state -/

theorem writeS_ok {st st' : Stream} {data : Bytes} {snk k : Sink} {n : Nat}
    (h : st.writeS data snk = (k, st', .ok n)) : st.write data snk = (k, .ok (st', n)) := by
  unfold Stream.writeS at h
  generalize st.write data snk = res at h
  rcases res with ⟨k', r⟩
  cases r with
  | error e => simp at h
  | ok y =>
    obtain ⟨st1, n1⟩ := y
    simp only [Prod.mk.injEq, Except.ok.injEq] at h
    obtain ⟨rfl, rfl, rfl⟩ := h
    rfl

theorem writeS_err {st st' : Stream} {data : Bytes} {snk k : Sink} {e : Err}
    (h : st.writeS data snk = (k, st', .error e)) : st.write data snk = (k, .error e) := by
  unfold Stream.writeS at h
  generalize st.write data snk = res at h
  rcases res with ⟨k', r⟩
  cases r with
  | error e' =>
    simp only [Prod.mk.injEq, Except.error.injEq] at h
    obtain ⟨rfl, _, rfl⟩ := h
    rfl
  | ok y =>
    obtain ⟨st1, n1⟩ := y
    simp at h

/-- what a `feed` result means for the one-shot tail -/
def FeedPost (st : Stream) (rs : RunState) (data : Bytes) (snk : Sink)
    (res : Sink × Stream × Except Err Nat) : Prop :=
  match res with
  | (_, _, Except.error _) => ∀ G, IsErr (sfin st rs (data ++ G) snk)
  | (k, st', Except.ok _) =>
    ∃ rs', DataInv st' rs' ∧ st'.options = st.options ∧
      ∀ G, Veq (sfin st rs (data ++ G) snk) (sfin st' rs' G k)

theorem feed_data (hN : Need20) : ∀ (f : Nat) (st : Stream) (rs : RunState) (data : Bytes) (acc : Nat)
    (snk : Sink) (res : Sink × Stream × Except Err Nat), DataInv st rs → data.length < f →
    Stream.feed f st data acc snk = res → FeedPost st rs data snk res := by
  intro f
  induction f with
  | zero => intro st rs data acc snk res _ h; omega
  | succ f ih =>
    intro st rs data acc snk res hD hlen hfeed
    rw [Stream.feed] at hfeed
    by_cases hemp : data.isEmpty = true
    · rw [if_pos hemp] at hfeed
      subst hfeed
      have : data = [] := List.isEmpty_iff.mp hemp
      subst this
      exact ⟨rs, hD, rfl, fun G => Veq.refl _⟩
    · rw [if_neg hemp] at hfeed
      have hdne : data ≠ [] := fun h => hemp (by rw [h]; rfl)
      rcases hw : st.writeS data snk with ⟨k1, st1, r⟩
      rw [hw] at hfeed
      cases r with
      | error e =>
        simp only at hfeed
        subst hfeed
        exact write_data_err hN hD (writeS_err hw)
      | ok n =>
        simp only at hfeed
        obtain ⟨rs1, hD1, htmp1, hopt1, hnle, hn0, hV⟩ := write_data_ok hN hD (writeS_ok hw)
        by_cases hn : n = 0
        · rw [if_pos hn] at hfeed
          subst hfeed
          refine ⟨rs1, hD1, hopt1, fun G => ?_⟩
          refine (hV G).trans (Veq.of_eq ?_)
          exact rfin_stopNow hD1.inv (hn0 hn hdne) _ _ _
        · rw [if_neg hn] at hfeed
          have hlen' : (data.drop n).length < f := by
            rw [List.length_drop]; omega
          have := ih st1 rs1 (data.drop n) (acc + n) k1 res hD1 hlen' hfeed
          rcases res with ⟨k2, st2, r2⟩
          cases r2 with
          | error e =>
            intro G
            exact (hV G).isErr (this G)
          | ok m =>
            obtain ⟨rs2, hD2, hopt2, hV2⟩ := this
            exact ⟨rs2, hD2, hopt2.trans hopt1, fun G => (hV G).trans (hV2 G)⟩

/-! ## a whole list of chunks from a Data state -/

/-- **Data phase (depends on `Need20`).**  From a stream in Data state, feeding
any list of chunks and finishing has the same verdict and result as the one-shot
tail on `tmp ++ partialBuf ++ chunks.flatten`. -/
theorem data_run_partial (hN : Need20) : ∀ (cs : List Bytes) (st : Stream) (rs : RunState) (snk : Sink),
    DataInv st rs → st.options.allowIncomplete = false →
    Veq (streamRunFrom st cs snk) (sfin st rs cs.flatten snk) := by
  intro cs
  induction cs with
  | nil =>
    intro st rs snk hD ho
    rw [streamRunFrom_nil, finish_data hD ho]
    exact Veq.refl _
  | cons c cs ih =>
    intro st rs snk hD ho
    rcases hf : Stream.feed (c.length + 1) st c 0 snk with ⟨k, st1, r⟩
    have hp := feed_data hN _ st rs c 0 snk _ hD (Nat.lt_succ_self _) hf
    cases r with
    | error e =>
      rw [streamRunFrom_cons_err hf]
      exact .inl ⟨isErr_mk _ _, by rw [List.flatten_cons]; exact hp _⟩
    | ok m =>
      rw [streamRunFrom_cons_ok hf]
      obtain ⟨rs1, hD1, ho1, hV⟩ := hp
      rw [List.flatten_cons]
      exact (ih st1 rs1 k hD1 (by rw [ho1]; exact ho)).trans (hV _).symm

end StreamEq
end Lzma
