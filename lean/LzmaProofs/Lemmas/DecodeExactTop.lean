/-
  End-to-end exactness, part 5: from a Finish-mode run of the symbol loop to the result of
  `lzmaDecompress` on a reference-encoded `.lzma` file: header, `LzmaDecoder::new`,
  `RangeDecoder::new`, fuel, `finish`.
-/
import LzmaProofs.Lemmas.DecodeExact
import LzmaProofs.Lemmas.Header
import LzmaProofs.Lemmas.SafetyLzma
namespace Lzma
open DState REnc

/-! ## the header written by `lzmaHeader` -/

theorem top_leVal_leBytes : ∀ (k n : Nat), n < 256 ^ k → leVal (leBytes k n) = n
  | 0, n, h => by simp at h; subst h; rfl
  | k+1, n, h => by
    have hk : n / 256 < 256 ^ k := by
      rw [Nat.pow_succ] at h
      exact Nat.div_lt_of_lt_mul (by rwa [Nat.mul_comm] at h)
    simp only [leBytes, leVal, top_leVal_leBytes k (n / 256) hk, UInt8.toNat_ofNat']
    omega

theorem top_leBytes_length (k n : Nat) : (leBytes k n).length = k := by
  induction k generalizing n with
  | zero => rfl
  | succ k ih => simp [leBytes, ih]

/-- the size in effect for a header size field -/
def sizeOfField (field : Nat) : Option Nat := if field = 0xFFFFFFFFFFFFFFFF then none else some field

/-- `read_header` on `lzmaHeader props D (some field)` returns exactly `props`, `max D 4096` and
the size field, and stands right behind the 13 header bytes -/
theorem readHeader_lzmaHeader {props : Props} (hp : Safety.PropsOk props) {D : Nat} (hD : D < 2 ^ 32)
    {field : Nat} (hf : field < 2 ^ 64) (rest : Bytes) {opts : Options}
    (hopt : opts.unpackedSize = .readFromHeader) :
    readHeader (Rd.ofBytes (lzmaHeader props D (some field) ++ rest)) opts =
      .ok ({ props := props, dictSize := max D 4096, unpackedSize := sizeOfField field },
           { rem := rest }) := by
  obtain ⟨hlc, hlp, hpb⟩ := hp
  rw [readHeader_eq]
  have hrem : (Rd.ofBytes (lzmaHeader props D (some field) ++ rest)).rem =
      UInt8.ofNat (props.lc + 9 * (props.lp + 5 * props.pb)) ::
        (leBytes 4 D ++ (leBytes 8 field ++ rest)) := by
    simp [Rd.ofBytes, lzmaHeader, List.append_assoc]
  have hb : (UInt8.ofNat (props.lc + 9 * (props.lp + 5 * props.pb))).toNat =
      props.lc + 9 * (props.lp + 5 * props.pb) := by
    rw [UInt8.toNat_ofNat']; omega
  have hl4 := top_leBytes_length 4 D
  have hl8 := top_leBytes_length 8 field
  rw [hrem]
  simp only [hb, hopt, hdrLen]
  rw [if_neg (by omega), if_neg (by simp [hl4, hl8]; omega)]
  have e1 : (leBytes 4 D ++ (leBytes 8 field ++ rest)).take 4 = leBytes 4 D := List.take_left' hl4
  have e2 : ((leBytes 4 D ++ (leBytes 8 field ++ rest)).drop 4).take 8 = leBytes 8 field := by
    rw [List.drop_left' hl4]; exact List.take_left' hl8
  have e3 : (UInt8.ofNat (props.lc + 9 * (props.lp + 5 * props.pb)) ::
      (leBytes 4 D ++ (leBytes 8 field ++ rest))).drop 13 = rest := by
    rw [show (13 : Nat) = 12 + 1 by rfl, List.drop_succ_cons, ← List.append_assoc]
    exact List.drop_left' (by simp [hl4, hl8])
  have hprops : ({ lc := (props.lc + 9 * (props.lp + 5 * props.pb)) % 9,
                   lp := (props.lc + 9 * (props.lp + 5 * props.pb)) / 9 % 5,
                   pb := (props.lc + 9 * (props.lp + 5 * props.pb)) / 45 } : Props) = props := by
    rcases props with ⟨lc, lp, pb⟩
    simp only at hlc hlp hpb ⊢
    congr 1 <;> omega
  simp only [hdrParams, hb, e1, e2, e3, hprops, effSize, top_leVal_leBytes 4 D (by simpa using hD),
    top_leVal_leBytes 8 field (by simpa using hf), sizeOfField, Rd.ofBytes]

/-! ## `LzmaDecoder::new` -/

/-- the decoder state `DecoderState::new` builds -/
def freshState (props : Props) (u : Option Nat) : DState :=
  { props := props, unpackedSize := u, probs := Probs.init (1 <<< (props.lc + props.lp)) }

theorem lzmaDecoder_new_eq {props : Props} (hp : Safety.PropsOk props) {dict : Nat} (hd : dict ≠ 0)
    (u : Option Nat) (ml : Option Nat) :
    LzmaDecoder.new { props := props, dictSize := dict, unpackedSize := u } ml =
      .ok { params := { props := props, dictSize := dict, unpackedSize := u },
            memlimit := ml.getD USIZE_MAX, state := freshState props u } := by
  simp [LzmaDecoder.new, DState.new, Safety.validate_ok hp, hd, bind, Except.bind, freshState,
    pure, Except.pure]

/-- the fresh decoder state is coupled with the fresh encoder state -/
theorem decEnc_fresh {props : Props} (hp : Safety.PropsOk props) (u : Option Nat) {d m : Nat}
    (hd : 0 < d) {s0 : Sink} (hs : s0.Perfect) :
    DecEnc (circModel d m s0) (freshState props u) (Circ.fromStream d m) s0 (EncSt.new props) where
  probs := rfl
  props := rfl
  state := rfl
  rep0 := rfl
  rep1 := rfl
  rep2 := rfl
  rep3 := rfl
  lc := hp.1
  litsz := by simp [EncSt.new, Probs.init]
  pok := probsOk_init _
  win := circModel_init m hd hs
  mb := by intro h; exact absurd h (by show ¬ (0 : Nat) ≥ 7; omega)

/-! ## assembling `lzmaDecompress` -/

/-- From a Finish-mode run of the symbol loop to the result of `lzma_decompress`: if, on the
stream `lzmaHeader props D (some field) ++ rest`, the symbol loop started after
`RangeDecoder::new` has a successful run `FinishRun … c'` that ends with the window representing
the history `H` (and of the size in effect, if any), then `lzma_decompress` succeeds, returns the
reader of `c'`, and the sink has received exactly `H` and was flushed last. -/
theorem lzmaDecompress_of_run {props : Props} (hp : Safety.PropsOk props) {D : Nat} (hD : D < 2 ^ 32)
    {field : Nat} (hf : field < 2 ^ 64) {rest : Bytes} {opts : Options}
    (hopt : opts.unpackedSize = .readFromHeader) {snk0 : Sink}
    {rc : RC} {rd2 : Rd} (hrc : RC.new { rem := rest } = .ok (rc, rd2))
    {k : Nat} {x : Exit} {c' : Cfg Circ}
    (hrun : FinishRun ⟨freshState props (sizeOfField field),
      Circ.fromStream (max D 4096) (opts.memlimit.getD USIZE_MAX), rc, rd2, snk0⟩ k x c')
    (hsz : ∀ n, sizeOfField field = some n → c'.w.len = n) {H : Bytes}
    (hrep : (circModel (max D 4096) (opts.memlimit.getD USIZE_MAX) snk0).Rep c'.w H c'.snk) :
    ∃ snk, lzmaDecompress (Rd.ofBytes (lzmaHeader props D (some field) ++ rest)) opts snk0 =
        (snk, .ok c'.rd) ∧
      snk.out = snk0.out ++ H.toArray ∧ snk.lastFlush = true ∧ snk.Perfect := by
  have hdict : 0 < max D 4096 := by omega
  obtain ⟨hci, hcd, -, hcp, hco⟩ := hrep
  obtain ⟨snk, hfin, hperf, hout, hlf⟩ := Circ.finish_spec (s0 := snk0) hci hcp (by rw [hcd]; exact hco)
  refine ⟨snk, ?_, hout, hlf, hperf⟩
  refine lzmaDecompress_ok_iff.2 ⟨_, _, _, rc, rd2, c'.s, c'.w, c'.rc, c'.snk,
    readHeader_lzmaHeader hp hD hf rest hopt,
    lzmaDecoder_new_eq hp (by omega) _ _, hrc, ?_, hfin⟩
  refine processMode_ok_iff.2 ⟨?_, ?_⟩
  · have hrci : Safety.RCInv rc := by
      have := Safety.RC_new_safe { rem := rest }
      rw [hrc] at this
      exact this.1
    have hsi : Safety.DStateInv (freshState props (sizeOfField field)) := by
      have := Safety.DState_new_safe hp (sizeOfField field)
      simp only [DState.new, Safety.validate_ok hp, bind, Except.bind, pure, Except.pure] at this
      exact this.1
    have hw : Safety.LzBufSafe.inv (Circ.fromStream (max D 4096) (opts.memlimit.getD USIZE_MAX)) :=
      Safety.CircSafe_fromStream hdict
    have hne := Safety.processLoop_terminates .finish
      (loopFuel (freshState props (sizeOfField field)) rd2) rd2 hsi hw hrci
      (Safety.loopFuel_suffices rd2 hrci) snk0
    exact hrun.loop_ok_of_ne_fuel rfl _ hne
  · intro n hn _
    exact hsz n hn

/-- the error counterpart: if the symbol loop performs `k` full iterations and the next
`process_next` fails with `x`, `lzma_decompress` fails with `x` and leaves the sink as it was at
that moment (no `finish`, no flush) -/
theorem lzmaDecompress_of_steps_error {props : Props} (hp : Safety.PropsOk props) {D : Nat}
    (hD : D < 2 ^ 32) {field : Nat} (hf : field < 2 ^ 64) {rest : Bytes} {opts : Options}
    (hopt : opts.unpackedSize = .readFromHeader) {snk0 : Sink}
    {rc : RC} {rd2 : Rd} (hrc : RC.new { rem := rest } = .ok (rc, rd2))
    {k : Nat} {c1 : Cfg Circ}
    (hsteps : FinishSteps ⟨freshState props (sizeOfField field),
      Circ.fromStream (max D 4096) (opts.memlimit.getD USIZE_MAX), rc, rd2, snk0⟩ k c1)
    (hstop : stopTest .finish c1.s c1.w c1.rc c1.rd = .ok false) (hfill : c1.rd.fillBuf = .ok ())
    {snk1 : Sink} {x : Err}
    (hnext : processNext c1.s c1.w c1.rc c1.rd c1.snk = (snk1, .error x)) :
    lzmaDecompress (Rd.ofBytes (lzmaHeader props D (some field) ++ rest)) opts snk0 =
      (snk1, .error x) := by
  have hdict : 0 < max D 4096 := by omega
  have hrci : Safety.RCInv rc := by
    have := Safety.RC_new_safe { rem := rest }
    rw [hrc] at this
    exact this.1
  have hsi : Safety.DStateInv (freshState props (sizeOfField field)) := by
    have := Safety.DState_new_safe hp (sizeOfField field)
    simp only [DState.new, Safety.validate_ok hp, bind, Except.bind, pure, Except.pure] at this
    exact this.1
  have hw : Safety.LzBufSafe.inv (Circ.fromStream (max D 4096) (opts.memlimit.getD USIZE_MAX)) :=
    Safety.CircSafe_fromStream hdict
  have hne := Safety.processLoop_terminates .finish
    (loopFuel (freshState props (sizeOfField field)) rd2) rd2 hsi hw hrci
    (Safety.loopFuel_suffices rd2 hrci) snk0
  have hloop := hsteps.loop_err_of_ne_fuel rfl hstop hfill hnext _ hne
  have hmode := processMode_loop_error hloop
  have h1 : (liftE (readHeader (Rd.ofBytes (lzmaHeader props D (some field) ++ rest)) opts) : M _) snk0 =
      (snk0, .ok ((⟨props, max D 4096, sizeOfField field⟩ : LzmaParams), (⟨rest, false⟩ : Rd))) := by
    rw [readHeader_lzmaHeader hp hD hf rest hopt]; rfl
  have h2 : (liftE (LzmaDecoder.new (⟨props, max D 4096, sizeOfField field⟩ : LzmaParams)
        opts.memlimit) : M _) snk0 =
      (snk0, .ok (⟨⟨props, max D 4096, sizeOfField field⟩, opts.memlimit.getD USIZE_MAX,
        freshState props (sizeOfField field)⟩ : LzmaDecoder)) := by
    rw [lzmaDecoder_new_eq hp (Nat.ne_of_gt hdict)]; rfl
  have h3 : LzmaDecoder.decompress (⟨⟨props, max D 4096, sizeOfField field⟩,
        opts.memlimit.getD USIZE_MAX, freshState props (sizeOfField field)⟩ : LzmaDecoder)
        ⟨rest, false⟩ snk0 = (snk1, .error x) := by
    unfold LzmaDecoder.decompress
    dsimp only
    rw [hrc]
    have h0 : (liftE (match (Except.ok (rc, rd2) : Except Err (RC × Rd)) with
        | .ok x => .ok x
        | .error _ => .error .lzma) : M (RC × Rd)) snk0 = (snk0, .ok (rc, rd2)) := rfl
    rw [bind_run_ok h0]
    exact bind_run_error hmode
  unfold lzmaDecompress
  rw [bind_run_ok h1]
  dsimp only
  rw [bind_run_ok h2]
  exact bind_run_error h3

/-! ## the declared dictionary size only matters through the guards -/

theorem SpecSt.step_dict_indep {d d' : Nat} {st : SpecSt} {sym : Sym} {r r' : SpecSt × Bool}
    (h : SpecSt.step d st sym = some r) (h' : SpecSt.step d' st sym = some r') : r = r' := by
  cases sym with
  | lit b => simp only [SpecSt.step] at h h'; rw [h] at h'; exact Option.some.inj h'
  | eos => simp only [SpecSt.step] at h h'; rw [h] at h'; exact Option.some.inj h'
  | mtch dist len =>
    simp only [SpecSt.step] at h h'
    split at h
    · cases h
    · split at h'
      · cases h'
      · rw [h] at h'; exact Option.some.inj h'
  | shortRep =>
    simp only [SpecSt.step] at h h'
    split at h
    · cases h
    · split at h'
      · cases h'
      · rw [h] at h'; exact Option.some.inj h'
  | rep idx len =>
    simp only [SpecSt.step] at h h'
    split at h
    · cases h
    · rename_i hg
      rw [if_neg hg] at h'
      have hidx : idx = 0 ∨ idx = 1 ∨ idx = 2 ∨ idx = 3 := by omega
      rcases hidx with rfl | rfl | rfl | rfl <;>
      · simp only at h h'
        split at h
        · cases h
        · split at h'
          · cases h'
          · rw [h] at h'; exact Option.some.inj h'

theorem SpecSt.run_dict_indep {d d' : Nat} : ∀ (prog : List Sym) (st : SpecSt) (r r' : SpecSt × Bool),
    SpecSt.run d st prog = some r → SpecSt.run d' st prog = some r' → r = r'
  | [], st, r, r', h, h' => by
    simp only [SpecSt.run] at h h'; rw [h] at h'; exact Option.some.inj h'
  | sym :: rest, st, r, r', h, h' => by
    simp only [SpecSt.run] at h h'
    split at h
    · cases h
    · rename_i st1 hs
      split at h'
      · cases h'
      · rename_i st2 hs'
        cases SpecSt.step_dict_indep hs hs'
        rw [h] at h'; exact Option.some.inj h'
      · rename_i st2 hs'
        cases SpecSt.step_dict_indep hs hs'
    · rename_i st1 hs
      split at h'
      · cases h'
      · rename_i st2 hs'
        cases SpecSt.step_dict_indep hs hs'
      · rename_i st2 hs'
        cases SpecSt.step_dict_indep hs hs'
        exact SpecSt.run_dict_indep rest st1 r r' h h'

theorem progEvents_dict_indep {d d' : Nat} (props : Props) : ∀ (prog : List Sym) (spec : SpecSt)
    (r r' : SpecSt × Bool), SpecSt.run d spec prog = some r → SpecSt.run d' spec prog = some r' →
    progEvents d props spec prog = progEvents d' props spec prog
  | [], _, _, _, _, _ => rfl
  | sym :: rest, spec, r, r', h, h' => by
    simp only [SpecSt.run] at h h'
    simp only [progEvents]
    split at h
    · cases h
    · rename_i st1 hs
      split at h'
      · cases h'
      · rename_i st2 hs'
        cases SpecSt.step_dict_indep hs hs'
        split at h
        · rename_i hr
          have : rest = [] := by simpa using hr
          subst this; rfl
        · cases h
      · rename_i st2 hs'
        cases SpecSt.step_dict_indep hs hs'
    · rename_i st1 hs
      split at h'
      · cases h'
      · rename_i st2 hs'
        cases SpecSt.step_dict_indep hs hs'
      · rename_i st2 hs'
        cases SpecSt.step_dict_indep hs hs'
        rw [nextSpec_of_step hs, nextSpec_of_step hs']
        rw [progEvents_dict_indep props rest st1 r r' h h']

/-- the reference encoder produces the same bytes for every dictionary size under which the
program is well-formed -/
theorem encodeSyms_dict_indep {d d' : Nat} {props : Props} (hp : Safety.PropsOk props)
    {prog : List Sym} {r r' : SpecSt × Bool}
    (h : SpecSt.run d {} prog = some r) (h' : SpecSt.run d' {} prog = some r') :
    encodeSyms props d prog = encodeSyms props d' prog := by
  obtain ⟨st, b⟩ := r
  obtain ⟨snkF, probsF, eF, snkB, e2, henc, hfin⟩ :=
    encodeProg_total hp d prog (run_rawOk prog {} st b h) {} rfl
  rw [encodeSyms_eq henc hfin]
  rw [progEvents_dict_indep props prog {} _ _ h h'] at henc
  rw [encodeSyms_eq henc hfin]

end Lzma
