/-
  Lemmas for C14 (reset ≈ new): the table-size invariant `DState.WF`, its
  preservation by the decoding loop, `resetState = new`, and the facts about
  `LzmaDecoder` / `Lzma2Decoder` needed for "reset then decompress".
-/
import LzmaProofs.Lemmas.Monad
namespace Lzma

/-! ## generic `M` helpers (local to this file) -/

namespace RS

theorem bind_ok {m : M α} {f : α → M β} {s s' : Sink} {b : β} :
    (m >>= f) s = (s', .ok b) ↔ ∃ s1 a, m s = (s1, .ok a) ∧ f a s1 = (s', .ok b) := by
  rw [bind_run]
  rcases h : m s with ⟨s1, e | a⟩
  · simp
  · constructor
    · intro h'; exact ⟨s1, a, rfl, h'⟩
    · rintro ⟨s2, a2, h1, h'⟩
      cases h1; exact h'

theorem liftE_ok_iff {e : Except Err α} {s s' : Sink} {a : α} :
    (liftE e : M α) s = (s', .ok a) ↔ e = .ok a ∧ s' = s := by
  cases e <;> simp [liftE_ok, liftE_error]
  constructor <;> rintro ⟨h1, h2⟩ <;> subst h1 <;> subst h2 <;> exact ⟨rfl, rfl⟩

theorem pure_ok_iff {a b : α} {s s' : Sink} :
    (pure a : M α) s = (s', .ok b) ↔ s' = s ∧ b = a := by
  simp [pure_run, eq_comm]

theorem throwM_ok_iff {e : Err} {b : α} {s s' : Sink} :
    (throwM e : M α) s = (s', .ok b) ↔ False := by
  simp [throwM_run]

/-- two computations that share their first step agree (under an observation `F`) if their
continuations do -/
theorem bind_congr_post {γ : Type} (F : Sink × Except Err β → γ) {m : M α} {f g : α → M β}
    {s : Sink} (h : ∀ a s', F (f a s') = F (g a s')) : F ((m >>= f) s) = F ((m >>= g) s) := by
  rw [bind_run, bind_run]
  rcases m s with ⟨s1, e | a⟩
  · rfl
  · exact h a s1

theorem pure_bind_M {α β : Type} (a : α) (f : α → M β) : (pure a >>= f) = f a := rfl

theorem liftE_map_bind {α β γ : Type} (x : Except Err α) (g : α → β) (f : β → M γ) :
    (liftE (x.map g) >>= f) = (liftE x >>= fun a => f (g a)) := by
  cases x <;> rfl

/-- partial-correctness postcondition of an `M` computation -/
def Post (m : M α) (Q : α → Prop) : Prop := ∀ s s' a, m s = (s', .ok a) → Q a

theorem Post_bind {m : M α} {f : α → M β} {Q : β → Prop}
    (h : ∀ a s s', m s = (s', .ok a) → Post (f a) Q) : Post (m >>= f) Q := by
  intro s s' b hb
  obtain ⟨s1, a, h1, h2⟩ := bind_ok.1 hb
  exact h a s s1 h1 s1 s' b h2

theorem Post_pure {a : α} {Q : α → Prop} (h : Q a) : Post (pure a : M α) Q := by
  intro s s' b hb
  obtain ⟨-, rfl⟩ := pure_ok_iff.1 hb
  exact h

theorem Post_throwM {e : Err} {Q : α → Prop} : Post (throwM e : M α) Q := by
  intro s s' b hb; simp at hb

theorem Post_throwM_bind {e : Err} {f : α → M β} {Q : β → Prop} : Post (throwM e >>= f) Q := by
  intro s s' b hb
  obtain ⟨s1, a, h1, h2⟩ := bind_ok.1 hb
  simp at h1
theorem Post_ite {c : Prop} [Decidable c] {a b : M α} {Q : α → Prop}
    (h1 : c → Post a Q) (h2 : ¬c → Post b Q) : Post (if c then a else b) Q := by
  split
  · exact h1 ‹_›
  · exact h2 ‹_›

end RS

/-! ## the table-size invariant -/

/-- the three arrays of a `LenDecoder` have their allocated sizes -/
structure LenProbs.Sized (l : LenProbs) : Prop where
  low : l.low.size = 128
  mid : l.mid.size = 128
  high : l.high.size = 256

/-- every probability table has its allocated size -/
structure Probs.Sized (p : Probs) : Prop where
  lit : p.lit.size = p.litRows * 0x300
  posSlot : p.posSlot.size = 256
  align : p.align.size = 16
  posDec : p.posDec.size = 115
  isMatch : p.isMatch.size = 192
  isRep : p.isRep.size = 12
  isRepG0 : p.isRepG0.size = 12
  isRepG1 : p.isRepG1.size = 12
  isRepG2 : p.isRepG2.size = 12
  isRep0Long : p.isRep0Long.size = 192
  len : p.len.Sized
  repLen : p.repLen.Sized

/-- well-formedness of a `DecoderState`: all tables have their allocated sizes and the
literal table has `1 << (lc + lp)` rows -/
structure DState.WF (s : DState) : Prop where
  sized : s.probs.Sized
  rows : s.probs.litRows = 1 <<< (s.props.lc + s.props.lp)

theorem LenProbs.Sized.default : ({} : LenProbs).Sized :=
  ⟨Array.size_replicate, Array.size_replicate, Array.size_replicate⟩

theorem LenProbs.Sized.set {l : LenProbs} (h : l.Sized) (i : PIdx) (v : Nat) : (l.set i v).Sized := by
  cases i <;> simp only [LenProbs.set] <;> first | exact h | (constructor <;> simp [h.low, h.mid, h.high])

theorem Probs.Sized.init (rows : Nat) : (Probs.init rows).Sized := by
  constructor <;> first | exact Array.size_replicate | exact LenProbs.Sized.default

theorem Probs.set_litRows (p : Probs) (i : PIdx) (v : Nat) : (p.set i v).litRows = p.litRows := by
  cases i <;> simp only [Probs.set, Probs.setLen] <;> (try split) <;> rfl

theorem Probs.Sized.set {p : Probs} (h : p.Sized) (i : PIdx) (v : Nat) : (p.set i v).Sized := by
  have hl := h.len
  have hr := h.repLen
  cases i <;> simp only [Probs.set, Probs.setLen] <;> (try split) <;>
    (constructor <;> simp [h.lit, h.posSlot, h.align, h.posDec, h.isMatch, h.isRep, h.isRepG0,
      h.isRepG1, h.isRepG2, h.isRep0Long, hl, hr, LenProbs.Sized.set])

/-! ## `runDec` preserves any predicate closed under `ProbStore.set` -/

theorem runDec_inv {σ ι α : Type} [ProbStore σ ι] (P : σ → Prop)
    (hset : ∀ s i v, P s → P (ProbStore.set s i v)) (update : Bool) :
    ∀ (c : Coder ι α) (s : σ) (rc : RC) (rd : Rd) (a : α) (s' : σ) (rc' : RC) (rd' : Rd),
      runDec update c s rc rd = .ok (a, s', rc', rd') → P s → P s' := by
  intro c
  induction c with
  | ret a =>
    intro s rc rd a' s' rc' rd' h hp
    simp only [runDec, Except.ok.injEq, Prod.mk.injEq] at h
    obtain ⟨-, rfl, -⟩ := h; exact hp
  | fail e => intro s rc rd a' s' rc' rd' h; simp [runDec] at h
  | bit i k ih =>
    intro s rc rd a' s' rc' rd' h hp
    simp only [runDec] at h
    split at h
    · cases h
    · split at h
      · cases h
      · refine ih _ _ _ _ _ _ _ _ h ?_
        split
        · exact hset _ _ _ hp
        · exact hp
  | direct k ih =>
    intro s rc rd a' s' rc' rd' h hp
    simp only [runDec] at h
    split at h
    · cases h
    · exact ih _ _ _ _ _ _ _ _ h hp

namespace DState
variable {ω : Type} [LzBuf ω]

theorem new_WF {p : Props} {u : Option Nat} {s : DState} (h : DState.new p u = .ok s) : s.WF := by
  unfold DState.new at h
  cases hv : p.validate with
  | error e => simp [hv, bind, Except.bind] at h
  | ok x =>
    simp only [hv, bind, Except.bind, pure, Except.pure, Except.ok.injEq] at h
    subst h
    exact ⟨Probs.Sized.init _, rfl⟩

theorem new_eq {p : Props} {u : Option Nat} {s : DState} (h : DState.new p u = .ok s) :
    s = { props := p, unpackedSize := u, probs := Probs.init (1 <<< (p.lc + p.lp)) } ∧
    p.validate = .ok () := by
  unfold DState.new at h
  cases hv : p.validate with
  | error e => simp [hv, bind, Except.bind] at h
  | ok x =>
    simp only [hv, bind, Except.bind, pure, Except.pure, Except.ok.injEq] at h
    exact ⟨h.symm, rfl⟩

theorem new_of_valid {p : Props} (u : Option Nat) (hv : p.validate = .ok ()) :
    DState.new p u =
      .ok { props := p, unpackedSize := u, probs := Probs.init (1 <<< (p.lc + p.lp)) } := by
  unfold DState.new
  simp only [hv, bind, Except.bind, pure, Except.pure]

theorem new_of_invalid {p : Props} (u : Option Nat) {e : Err} (hv : p.validate = .error e) :
    DState.new p u = .error e := by
  unfold DState.new
  simp only [hv, bind, Except.bind]

/-- `reset_state` on a well-formed state produces exactly the fresh state (both branches),
except that `partial_input_buf` is kept -/
theorem resetState_eq {s : DState} (hwf : s.WF) {p : Props} (hv : p.validate = .ok ()) :
    s.resetState p =
      .ok { props := p, unpackedSize := s.unpackedSize, probs := Probs.init (1 <<< (p.lc + p.lp)),
            partialBuf := s.partialBuf } := by
  unfold DState.resetState
  simp only [hv, bind, Except.bind, pure, Except.pure, Except.ok.injEq]
  by_cases hc : s.props.lc + s.props.lp = p.lc + p.lp
  · simp only [hc, if_true, Probs.init]
    rw [hwf.sized.lit, hwf.rows, hc]
  · simp only [hc, if_false, Probs.init]

theorem resetState_of_invalid (s : DState) {p : Props} {e : Err} (hv : p.validate = .error e) :
    s.resetState p = .error e := by
  unfold DState.resetState
  simp only [hv, bind, Except.bind]

/-! ### the decoding loop preserves `WF`, `props`, `unpackedSize` -/

theorem applySym_keeps {s : DState} {w : ω} {rc : RC} {rd : Rd} {sym : RawSym} {snk snk' : Sink}
    {st : Status} {s' : DState} {w' : ω}
    (h : applySym s w rc rd sym snk = (snk', .ok (st, s', w'))) :
    s'.probs = s.probs ∧ s'.props = s.props ∧ s'.unpackedSize = s.unpackedSize ∧
      s'.partialBuf = s.partialBuf := by
  cases sym with
  | lit b =>
    simp only [applySym, RS.bind_ok, RS.pure_ok_iff] at h
    obtain ⟨s1, a, -, -, h⟩ := h
    cases h; simp
  | shortRep =>
    simp only [applySym, RS.bind_ok, RS.pure_ok_iff] at h
    obtain ⟨s1, a, -, -, h⟩ := h
    cases h; simp
  | rep idx len =>
    simp only [applySym, RS.bind_ok, RS.pure_ok_iff] at h
    obtain ⟨s1, a, -, -, h⟩ := h
    cases h
    split <;> simp
  | mtch len r0 =>
    simp only [applySym] at h
    split at h
    · simp only [RS.bind_ok, RS.liftE_ok_iff] at h
      obtain ⟨s1, a, -, h⟩ := h
      split at h
      · simp only [RS.pure_ok_iff] at h
        obtain ⟨-, h⟩ := h
        cases h; simp
      · simp at h
    · simp only [RS.bind_ok, RS.pure_ok_iff] at h
      obtain ⟨s1, a, -, -, h⟩ := h
      cases h; simp

theorem WF.of_eq {s s' : DState} (h : s.WF) (h1 : s'.probs = s.probs) (h2 : s'.props = s.props) :
    s'.WF := by
  constructor
  · rw [h1]; exact h.sized
  · rw [h1, h2]; exact h.rows

theorem processNext_inv {s : DState} {w : ω} {rc : RC} {rd : Rd} {snk snk' : Sink}
    {st : Status} {s' : DState} {w' : ω} {rc' : RC} {rd' : Rd}
    (h : processNext s w rc rd snk = (snk', .ok (st, s', w', rc', rd'))) (hwf : s.WF) :
    s'.WF ∧ s'.props = s.props ∧ s'.unpackedSize = s.unpackedSize ∧
      s'.partialBuf = s.partialBuf := by
  simp only [processNext, RS.bind_ok, RS.liftE_ok_iff, RS.pure_ok_iff] at h
  obtain ⟨s1, ⟨sym, probs, rc1, rd1⟩, ⟨h1, rfl⟩, s2, ⟨st2, s2', w2⟩, h2, rfl, h3⟩ := h
  cases h3
  have hp : probs.Sized ∧ probs.litRows = s.probs.litRows :=
    runDec_inv (σ := Probs) (fun q => q.Sized ∧ q.litRows = s.probs.litRows)
      (fun q i v hq => ⟨hq.1.set i v, (Probs.set_litRows q i v).trans hq.2⟩) true
      _ _ _ _ _ _ _ _ h1 ⟨hwf.sized, rfl⟩
  obtain ⟨e1, e2, e3, e4⟩ := applySym_keeps (s := { s with probs := probs }) h2
  refine ⟨⟨?_, ?_⟩, e2, e3, e4⟩
  · rw [e1]; exact hp.1
  · rw [e1, e2]; exact hp.2.trans hwf.rows

theorem readPartialInputBuf_keeps {s s' : DState} {rd rd' : Rd}
    (h : s.readPartialInputBuf rd = .ok (s', rd')) :
    s'.probs = s.probs ∧ s'.props = s.props ∧ s'.unpackedSize = s.unpackedSize := by
  simp only [readPartialInputBuf] at h
  split at h
  · cases h
  · cases h; simp

/-- the loop of `process_mode` preserves `WF`, never changes `props` nor `unpacked_size`,
and in Finish mode never stages anything in `partial_input_buf` -/
theorem processLoop_inv {mode : Mode} : ∀ (fuel : Nat) {s : DState} {w : ω} {rc : RC} {rd : Rd}
    {snk snk' : Sink} {s' : DState} {w' : ω} {rc' : RC} {rd' : Rd},
    processLoop mode fuel s w rc rd snk = (snk', .ok (s', w', rc', rd')) → s.WF →
    s'.WF ∧ s'.props = s.props ∧ s'.unpackedSize = s.unpackedSize ∧
      (mode = .finish → s.partialBuf = [] → s'.partialBuf = []) := by
  intro fuel
  induction fuel with
  | zero => intro s w rc rd snk snk' s' w' rc' rd' h; simp [processLoop] at h
  | succ fuel ih =>
    intro s w rc rd snk snk' s' w' rc' rd' h hwf
    unfold processLoop at h
    simp only [RS.bind_ok, RS.liftE_ok_iff] at h
    obtain ⟨s1, stop, ⟨hstop, rfl⟩, h⟩ := h
    split at h
    · simp only [RS.pure_ok_iff] at h
      obtain ⟨-, h⟩ := h; cases h; exact ⟨hwf, rfl, rfl, fun _ hp => hp⟩
    · split at h
      · rename_i hne
        simp only [RS.bind_ok, RS.liftE_ok_iff] at h
        obtain ⟨s2, ⟨sa, rda⟩, ⟨hr, rfl⟩, h⟩ := h
        obtain ⟨f1, f2, f3⟩ := readPartialInputBuf_keeps hr
        have hwfa : sa.WF := hwf.of_eq f1 f2
        have hvac : ∀ {q : Prop}, s.partialBuf = [] → q := by
          intro q hp; rw [hp] at hne; simp at hne
        simp only at h
        split at h
        · simp only [RS.pure_ok_iff] at h
          obtain ⟨-, h⟩ := h; cases h
          exact ⟨hwfa, f2, f3, fun _ hp => hvac hp⟩
        · simp only [RS.bind_ok] at h
          obtain ⟨s3, ⟨st, sb, wb, rcb, tmp⟩, hn, h⟩ := h
          obtain ⟨g0, g1, g2, -⟩ := processNext_inv hn hwfa
          simp only at h
          split at h
          · simp only [RS.pure_ok_iff] at h
            obtain ⟨-, h⟩ := h; cases h
            exact ⟨g0.of_eq rfl rfl, g1.trans f2, g2.trans f3, fun _ hp => hvac hp⟩
          · obtain ⟨i0, i1, i2, -⟩ := ih h (g0.of_eq rfl rfl)
            exact ⟨i0, i1.trans (g1.trans f2), i2.trans (g2.trans f3), fun _ hp => hvac hp⟩
      · rename_i hemp
        have hemp' : s.partialBuf = [] := by
          cases hs : s.partialBuf with
          | nil => rfl
          | cons a l => rw [hs] at hemp; simp at hemp
        simp only [RS.bind_ok, RS.liftE_ok_iff] at h
        obtain ⟨s2, -, ⟨-, rfl⟩, h⟩ := h
        split at h
        · rename_i hcond
          simp only [RS.bind_ok, RS.liftE_ok_iff, RS.pure_ok_iff] at h
          obtain ⟨s3, ⟨sa, rda⟩, ⟨hr, rfl⟩, -, h⟩ := h
          cases h
          obtain ⟨f1, f2, f3⟩ := readPartialInputBuf_keeps hr
          refine ⟨hwf.of_eq f1 f2, f2, f3, ?_⟩
          intro hm; rw [hm] at hcond; exact absurd hcond.1 (by decide)
        · simp only [RS.bind_ok] at h
          obtain ⟨s3, ⟨st, sb, wb, rcb, rdb⟩, hn, h⟩ := h
          obtain ⟨g0, g1, g2, g3⟩ := processNext_inv hn hwf
          simp only at h
          split at h
          · simp only [RS.pure_ok_iff] at h
            obtain ⟨-, h⟩ := h; cases h
            exact ⟨g0, g1, g2, fun _ hp => g3.trans hp⟩
          · obtain ⟨i0, i1, i2, i3⟩ := ih h g0
            exact ⟨i0, i1.trans g1, i2.trans g2, fun hm hp => i3 hm (g3.trans hp)⟩

theorem processMode_inv {mode : Mode} {s : DState} {w : ω} {rc : RC} {rd : Rd}
    {snk snk' : Sink} {s' : DState} {w' : ω} {rc' : RC} {rd' : Rd}
    (h : processMode mode s w rc rd snk = (snk', .ok (s', w', rc', rd'))) (hwf : s.WF) :
    s'.WF ∧ s'.props = s.props ∧ s'.unpackedSize = s.unpackedSize ∧
      (mode = .finish → s.partialBuf = [] → s'.partialBuf = []) := by
  simp only [processMode, RS.bind_ok] at h
  obtain ⟨s1, ⟨sa, wa, rca, rda⟩, hl, h⟩ := h
  have hi := processLoop_inv _ hl hwf
  simp only at h
  rcases hu : sa.unpackedSize with _ | n
  · simp only [hu, RS.pure_ok_iff] at h
    obtain ⟨-, h⟩ := h; cases h; exact hi
  · simp only [hu] at h
    split at h
    · simp at h
    · simp only [RS.pure_ok_iff] at h
      obtain ⟨-, h⟩ := h; cases h; exact hi

theorem WF.setUnpackedSize {s : DState} (h : s.WF) (u : Option Nat) : (s.setUnpackedSize u).WF :=
  h.of_eq rfl rfl

theorem fresh_WF (p : Props) (u : Option Nat) (pb : Bytes) :
    ({ props := p, unpackedSize := u, probs := Probs.init (1 <<< (p.lc + p.lp)),
       partialBuf := pb } : DState).WF :=
  ⟨Probs.Sized.init _, rfl⟩

end DState

/-! ## `LzmaDecoder` -/

namespace LzmaDecoder

/-- forget the `params.unpacked_size` field of the decoder object: it is only read by `new`
(`reset`/`decompress` use the size stored in the `DecoderState`) -/
def forgetSize (d : LzmaDecoder) : LzmaDecoder :=
  { d with params := { d.params with unpackedSize := none } }

/-- a `decompress` result up to `forgetSize` of the returned decoder object -/
def forgetRes : Sink × Except Err (LzmaDecoder × Rd) → Sink × Except Err (LzmaDecoder × Rd)
  | (s, .ok (d, rd)) => (s, .ok (d.forgetSize, rd))
  | (s, .error e) => (s, .error e)

/-- the invariant of a usable raw decoder object -/
structure Inv (d : LzmaDecoder) : Prop where
  wf : d.state.WF
  partialBuf : d.state.partialBuf = []
  props : d.state.props = d.params.props
  dict : d.params.dictSize ≠ 0

theorem decompress_forget {d1 d2 : LzmaDecoder} (h : d1.forgetSize = d2.forgetSize) (y : Rd)
    (snk : Sink) : forgetRes (d1.decompress y snk) = forgetRes (d2.decompress y snk) := by
  obtain ⟨⟨pr1, ds1, u1⟩, m1, st1⟩ := d1
  obtain ⟨⟨pr2, ds2, u2⟩, m2, st2⟩ := d2
  simp only [forgetSize, LzmaDecoder.mk.injEq, LzmaParams.mk.injEq] at h
  obtain ⟨⟨rfl, rfl, -⟩, rfl, rfl⟩ := h
  unfold decompress
  dsimp only
  refine RS.bind_congr_post forgetRes ?_
  rintro ⟨rc, rd⟩ s1
  refine RS.bind_congr_post forgetRes ?_
  rintro ⟨st, w, rc', rd'⟩ s2
  refine RS.bind_congr_post forgetRes ?_
  rintro u s3
  rfl

theorem new_ok_iff {params : LzmaParams} {ml : Option Nat} {d : LzmaDecoder} :
    LzmaDecoder.new params ml = .ok d ↔
      params.dictSize ≠ 0 ∧ params.props.validate = .ok () ∧
      d = { params := params, memlimit := ml.getD USIZE_MAX,
            state := { props := params.props, unpackedSize := params.unpackedSize,
                       probs := Probs.init (1 <<< (params.props.lc + params.props.lp)) } } := by
  unfold LzmaDecoder.new
  by_cases hd : params.dictSize = 0
  · simp [hd, bind, Except.bind, throw, throwThe, MonadExceptOf.throw]
  · cases hv : params.props.validate with
    | error e =>
      simp [hd, DState.new_of_invalid _ hv, bind, Except.bind]
    | ok x =>
      simp only [hd, if_false, DState.new_of_valid _ hv, bind, Except.bind, pure, Except.pure,
        Except.ok.injEq, ne_eq, not_false_eq_true, true_and]
      exact eq_comm

theorem reset_ok_iff {d d' : LzmaDecoder} (hwf : d.state.WF) {r : Option (Option Nat)} :
    d.reset r = .ok d' ↔
      d.params.props.validate = .ok () ∧
      d' = { d with state :=
              { props := d.params.props, unpackedSize := r.getD d.state.unpackedSize,
                probs := Probs.init (1 <<< (d.params.props.lc + d.params.props.lp)),
                partialBuf := d.state.partialBuf } } := by
  unfold LzmaDecoder.reset
  cases hv : d.params.props.validate with
  | error e =>
    simp [DState.resetState_of_invalid _ hv, bind, Except.bind]
  | ok x =>
    simp only [DState.resetState_eq hwf hv, bind, Except.bind, pure, Except.pure,
      Except.ok.injEq, true_and]
    cases r <;> exact eq_comm

theorem new_inv {params : LzmaParams} {ml : Option Nat} {d : LzmaDecoder}
    (h : LzmaDecoder.new params ml = .ok d) : d.Inv := by
  obtain ⟨h1, -, rfl⟩ := new_ok_iff.1 h
  exact ⟨DState.fresh_WF _ _ [], rfl, rfl, h1⟩

theorem reset_inv {d d' : LzmaDecoder} (hd : d.Inv) {r : Option (Option Nat)}
    (h : d.reset r = .ok d') : d'.Inv := by
  obtain ⟨-, rfl⟩ := (reset_ok_iff hd.wf).1 h
  exact ⟨DState.fresh_WF _ _ _, hd.partialBuf, rfl, hd.dict⟩

theorem decompress_inv {d d' : LzmaDecoder} (hd : d.Inv) {y y' : Rd} {snk snk' : Sink}
    (h : d.decompress y snk = (snk', .ok (d', y'))) : d'.Inv := by
  simp only [decompress, RS.bind_ok, RS.pure_ok_iff] at h
  obtain ⟨s1, ⟨rc, rd⟩, -, s2, ⟨st, w, rc', rd'⟩, h2, s3, u, -, -, h4⟩ := h
  simp only [Prod.mk.injEq] at h4
  obtain ⟨rfl, -⟩ := h4
  obtain ⟨i0, i1, -, i3⟩ := DState.processMode_inv h2 hd.wf
  exact ⟨i0, i3 rfl hd.partialBuf, i1.trans hd.props, hd.dict⟩

/-- the outcome of "obtain a decoder, then `decompress`", up to `forgetSize` -/
def thenDecompress (x : Except Err LzmaDecoder) (y : Rd) (snk : Sink) :
    Sink × Except Err (LzmaDecoder × Rd) :=
  match x with
  | .error e => (snk, .error e)
  | .ok d => forgetRes (d.decompress y snk)

theorem reset_vs_new (d : LzmaDecoder) (hd : d.Inv) (r : Option (Option Nat)) :
    (d.reset r).map forgetSize =
      (LzmaDecoder.new { d.params with unpackedSize := r.getD d.state.unpackedSize }
        (some d.memlimit)).map forgetSize := by
  cases hv : d.params.props.validate with
  | error e =>
    have h1 : d.reset r = .error e := by
      unfold LzmaDecoder.reset
      simp [DState.resetState_of_invalid _ hv, bind, Except.bind]
    have h2 : LzmaDecoder.new { d.params with unpackedSize := r.getD d.state.unpackedSize }
        (some d.memlimit) = .error e := by
      unfold LzmaDecoder.new
      simp [hd.dict, DState.new_of_invalid _ hv, bind, Except.bind]
    rw [h1, h2]
  | ok x =>
    have h1 := (reset_ok_iff hd.wf (r := r)).2 ⟨hv, rfl⟩
    have h2 := (new_ok_iff (params := { d.params with unpackedSize := r.getD d.state.unpackedSize })
      (ml := some d.memlimit)).2 ⟨hd.dict, hv, rfl⟩
    rw [h1, h2]
    simp only [Except.map, forgetSize, hd.partialBuf, Option.getD_some]

end LzmaDecoder

/-! ## `Lzma2Decoder` -/

theorem DState.resetState_setUnpackedSize (s : DState) (u : Option Nat) (np : Props) :
    (s.setUnpackedSize u).resetState np = (s.resetState np).map (·.setUnpackedSize u) := by
  unfold DState.resetState
  cases np.validate <;> rfl

namespace Lzma2Decoder

/-- forget the size stored in the `DecoderState` (LZMA2 sets it afresh for every LZMA chunk) -/
def norm (d : Lzma2Decoder) : Lzma2Decoder := { lzmaState := d.lzmaState.setUnpackedSize none }

theorem norm_norm (d : Lzma2Decoder) : norm (norm d) = norm d := rfl

/-- `parse_lzma` never reads a stale `unpacked_size` -/
theorem parseLzma_norm (d : Lzma2Decoder) (accum : Accum) (rd : Rd) (status : Nat) :
    d.parseLzma accum rd status = (norm d).parseLzma accum rd status := by
  unfold parseLzma
  simp only [norm, DState.resetState_setUnpackedSize, RS.liftE_map_bind, RS.pure_bind_M]
  simp only [DState.setUnpackedSize]

/-- a `chunkLoop` result up to `norm` of the returned decoder -/
def forgetL : Sink × Except Err (Lzma2Decoder × Accum × Rd) →
    Sink × Except Err (Lzma2Decoder × Accum × Rd)
  | (s, .ok (d, a, r)) => (s, .ok (norm d, a, r))
  | (s, .error e) => (s, .error e)

/-- a `decompress` result up to `norm` of the returned decoder -/
def forgetRes : Sink × Except Err (Lzma2Decoder × Rd) → Sink × Except Err (Lzma2Decoder × Rd)
  | (s, .ok (d, r)) => (s, .ok (norm d, r))
  | (s, .error e) => (s, .error e)

theorem chunkLoop_norm : ∀ (fuel : Nat) (d : Lzma2Decoder) (accum : Accum) (rd : Rd) (snk : Sink),
    forgetL (chunkLoop fuel d accum rd snk) = forgetL (chunkLoop fuel (norm d) accum rd snk) := by
  intro fuel
  induction fuel with
  | zero => intros; rfl
  | succ fuel ih =>
    intro d accum rd snk
    unfold chunkLoop
    refine RS.bind_congr_post forgetL ?_
    rintro ⟨status, rd1⟩ s1
    dsimp only
    split
    · rfl
    · split
      · refine RS.bind_congr_post forgetL ?_
        rintro ⟨a, r⟩ s2
        exact ih d a r s2
      · split
        · refine RS.bind_congr_post forgetL ?_
          rintro ⟨a, r⟩ s2
          exact ih d a r s2
        · rw [parseLzma_norm d]

theorem bind_forgetL {β γ : Type} (F : Sink × Except Err β → γ)
    {m1 m2 : M (Lzma2Decoder × Accum × Rd)} {f : Lzma2Decoder × Accum × Rd → M β} {s : Sink}
    (h : forgetL (m1 s) = forgetL (m2 s))
    (hf : ∀ d a r s', F (f (d, a, r) s') = F (f (norm d, a, r) s')) :
    F ((m1 >>= f) s) = F ((m2 >>= f) s) := by
  rw [bind_run, bind_run]
  generalize m1 s = x1 at h ⊢
  generalize m2 s = x2 at h ⊢
  rcases x1 with ⟨s1, e1 | ⟨d1, a1, r1⟩⟩ <;> rcases x2 with ⟨s2, e2 | ⟨d2, a2, r2⟩⟩ <;>
    simp only [forgetL, Prod.mk.injEq, Except.error.injEq, Except.ok.injEq, reduceCtorEq,
      and_false] at h
  · obtain ⟨rfl, rfl⟩ := h; rfl
  · obtain ⟨rfl, hd, rfl, rfl⟩ := h
    dsimp only
    rw [hf d1, hf d2, hd]

theorem decompress_norm (d : Lzma2Decoder) (y : Rd) (snk : Sink) :
    forgetRes (d.decompress y snk) = forgetRes ((norm d).decompress y snk) := by
  unfold decompress
  refine bind_forgetL forgetRes (chunkLoop_norm _ d _ y snk) ?_
  intro d' a r s'
  dsimp only
  refine RS.bind_congr_post forgetRes ?_
  intro u s2
  rfl

/-- `lzma2_ignores_stale_size`: two decoders that differ only in `lzma_state.unpacked_size`
behave identically (same sink, same verdict, same reader, same returned decoder up to that field) -/
theorem decompress_eqv {d1 d2 : Lzma2Decoder} (h : norm d1 = norm d2) (y : Rd) (snk : Sink) :
    forgetRes (d1.decompress y snk) = forgetRes (d2.decompress y snk) := by
  rw [decompress_norm d1, decompress_norm d2, h]

/-- the invariant of a usable LZMA2 decoder object -/
structure Inv (d : Lzma2Decoder) : Prop where
  wf : d.lzmaState.WF
  partialBuf : d.lzmaState.partialBuf = []

theorem zeroProps_valid : zeroProps.validate = .ok () := rfl

theorem new_eq_fresh : Lzma2Decoder.new =
    .ok { lzmaState := { props := zeroProps, unpackedSize := none, probs := Probs.init 1 } } := by
  unfold Lzma2Decoder.new
  rw [DState.new_of_valid none zeroProps_valid]
  rfl

theorem reset_eq_fresh {d : Lzma2Decoder} (hd : d.Inv) : d.reset =
    .ok { lzmaState := { props := zeroProps, unpackedSize := d.lzmaState.unpackedSize,
                         probs := Probs.init 1 } } := by
  unfold Lzma2Decoder.reset
  rw [DState.resetState_eq hd.wf zeroProps_valid, hd.partialBuf]
  rfl

/-! ### the LZMA2 decoder invariant is preserved -/

section
open RS

theorem Post_bind_pm {ω β : Type} [LzBuf ω] {st : DState} {w : ω} {rc : RC} {rd : Rd}
    {f : DState × ω × RC × Rd → M β} {Q : β → Prop}
    (h : ∀ x : DState × ω × RC × Rd, (st.WF → st.partialBuf = [] → Inv { lzmaState := x.1 }) →
      Post (f x) Q) :
    Post (DState.processMode .finish st w rc rd >>= f) Q := by
  refine Post_bind ?_
  rintro ⟨x1, x2, x3, x4⟩ s s' hx
  refine h _ ?_
  intro hwf hpb
  obtain ⟨i0, -, -, i3⟩ := DState.processMode_inv hx hwf
  exact ⟨i0, i3 rfl hpb⟩

theorem Post_bind_reset {β : Type} {d : Lzma2Decoder} (hd : d.Inv) {np : Props}
    {f : DState → M β} {Q : β → Prop}
    (h : ∀ st : DState, st.WF → st.partialBuf = [] → Post (f st) Q) :
    Post (liftE (d.lzmaState.resetState np) >>= f) Q := by
  refine Post_bind ?_
  intro st s s' hr
  obtain ⟨hr, -⟩ := liftE_ok_iff.1 hr
  cases hv : np.validate with
  | error e => rw [DState.resetState_of_invalid _ hv] at hr; cases hr
  | ok y =>
    rw [DState.resetState_eq hd.wf hv, hd.partialBuf] at hr
    cases hr
    exact h _ (DState.fresh_WF _ _ _) rfl

theorem Post_bind' {m : M α} {f : α → M β} {Q : β → Prop}
    (h : ∀ a, Post (f a) Q) : Post (m >>= f) Q :=
  Post_bind fun a _ _ _ => h a

theorem parseLzma_inv (d : Lzma2Decoder) (hd : d.Inv) (accum : Accum) (rd : Rd) (status : Nat) :
    Post (d.parseLzma accum rd status) (fun r => r.1.Inv) := by
  unfold parseLzma
  simp only [RS.pure_bind_M]
  repeat' first
    | exact Post_throwM_bind
    | (refine Post_ite (fun _ => ?_) (fun _ => ?_))
    | (refine Post_bind_pm ?_; intro _ _)
    | (refine Post_bind_reset hd ?_; intro _ _ _)
    | (refine Post_bind' ?_; intro _)
    | (refine Post_pure ?_)
  all_goals first
    | exact (by assumption : _ → _ → Inv _) (DState.WF.setUnpackedSize (by assumption) _) (by assumption)
    | exact (by assumption : _ → _ → Inv _) (DState.WF.setUnpackedSize hd.wf _) hd.partialBuf

theorem chunkLoop_inv : ∀ (fuel : Nat) (d : Lzma2Decoder), d.Inv → ∀ (accum : Accum) (rd : Rd),
    Post (chunkLoop fuel d accum rd) (fun r => r.1.Inv) := by
  intro fuel
  induction fuel with
  | zero => intro d hd accum rd; exact Post_throwM
  | succ fuel ih =>
    intro d hd accum rd
    unfold chunkLoop
    refine Post_bind' ?_
    rintro ⟨status, rd1⟩
    dsimp only
    refine Post_ite (fun _ => Post_pure hd) (fun _ => ?_)
    refine Post_ite (fun _ => ?_) (fun _ => ?_)
    · refine Post_bind' ?_
      rintro ⟨a, r⟩
      exact ih d hd a r
    · refine Post_ite (fun _ => ?_) (fun _ => ?_)
      · refine Post_bind' ?_
        rintro ⟨a, r⟩
        exact ih d hd a r
      · refine Post_bind ?_
        rintro ⟨d', a, r⟩ s s' h
        exact ih d' (parseLzma_inv d hd _ _ _ s s' _ h) a r

theorem decompress_inv (d : Lzma2Decoder) (hd : d.Inv) (y : Rd) :
    Post (d.decompress y) (fun r => r.1.Inv) := by
  unfold decompress
  refine Post_bind ?_
  rintro ⟨d', a, r⟩ s s' h
  have hd' : d'.Inv := chunkLoop_inv _ d hd _ _ s s' _ h
  refine Post_bind' ?_
  intro _
  exact Post_pure hd'
end

end Lzma2Decoder

end Lzma
