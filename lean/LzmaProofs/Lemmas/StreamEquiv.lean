/-
  C05 (stream = one-shot) — layer B: prefix stability of the bit decoder.

  A computation of the range decoder on the flat reader `⟨a, false⟩` that
  succeeds, succeeds identically on every extension `⟨a ++ b, false⟩` (the unread
  tail just grows by `b`); a computation that fails with anything but `eof` fails
  identically on every extension.  Lifted from `normalize` to `runDec` and then
  to `processNext`, where the end-marker check (`is_finished_ok` on the LOCAL
  reader) is the only place at which the reader's end is observable.
-/
import LzmaProofs.Lemmas.SymLayerNoDup
import LzmaProofs.Lemmas.SafetyLoop
namespace Lzma
namespace StreamEq

open DState

/-! ## `normalize`, `get_bit`, `decode_bit` -/

theorem normalize_ok_app {rc rc' : RC} {a : Bytes} {rd' : Rd}
    (h : RC.normalize rc ⟨a, false⟩ = .ok (rc', rd')) :
    rd'.bad = false ∧ rd'.rem <:+ a ∧
      ∀ b, RC.normalize rc ⟨a ++ b, false⟩ = .ok (rc', ⟨rd'.rem ++ b, false⟩) := by
  unfold RC.normalize at h ⊢
  split at h
  · cases a with
    | nil => simp [Rd.readU8, Rd.endErr, bind, Except.bind] at h
    | cons x r =>
      simp only [Rd.readU8, bind, Except.bind, pure, Except.pure, Except.ok.injEq, Prod.mk.injEq] at h
      obtain ⟨rfl, rfl⟩ := h
      refine ⟨rfl, List.suffix_cons x r, fun b => ?_⟩
      rename_i hlt
      simp [Rd.readU8, bind, Except.bind, pure, Except.pure, hlt]
  · simp only [pure, Except.pure, Except.ok.injEq, Prod.mk.injEq] at h
    obtain ⟨rfl, rfl⟩ := h
    rename_i hlt
    refine ⟨rfl, List.suffix_refl a, fun b => ?_⟩
    simp [hlt, pure, Except.pure]

theorem normalize_err_eof {rc : RC} {a : Bytes} {e : Err}
    (h : RC.normalize rc ⟨a, false⟩ = .error e) : e = .eof := by
  unfold RC.normalize at h
  split at h
  · cases a with
    | nil => simp [Rd.readU8, Rd.endErr, bind, Except.bind] at h; exact h.symm
    | cons x r => simp [Rd.readU8, bind, Except.bind, pure, Except.pure] at h
  · simp [pure, Except.pure] at h

theorem getBit_ok_app {rc rc' : RC} {a : Bytes} {rd' : Rd} {bit : Bool}
    (h : RC.getBit rc ⟨a, false⟩ = .ok (bit, rc', rd')) :
    rd'.bad = false ∧ rd'.rem <:+ a ∧
      ∀ b, RC.getBit rc ⟨a ++ b, false⟩ = .ok (bit, rc', ⟨rd'.rem ++ b, false⟩) := by
  unfold RC.getBit at h ⊢
  simp only [bind, Except.bind, pure, Except.pure] at h ⊢
  split at h
  · cases h
  · rename_i x hn
    obtain ⟨rc1, rd1⟩ := x
    simp only [Except.ok.injEq, Prod.mk.injEq] at h
    obtain ⟨rfl, rfl, rfl⟩ := h
    obtain ⟨h1, h2, h3⟩ := normalize_ok_app hn
    refine ⟨h1, h2, fun b => ?_⟩
    rw [h3 b]

theorem getBit_err_eof {rc : RC} {a : Bytes} {e : Err}
    (h : RC.getBit rc ⟨a, false⟩ = .error e) : e = .eof := by
  unfold RC.getBit at h
  simp only [bind, Except.bind, pure, Except.pure] at h
  split at h
  · rename_i e' hn
    cases h
    exact normalize_err_eof hn
  · cases h

/-- the reader-independent part of `decode_bit`: the bit, the new probability and
the coder state before `normalize` -/
def decPre (update : Bool) (p : Nat) (rc : RC) : Except Err (Bool × Nat × RC) := do
  let bound ← mulChk U32 "decode_bit: bound overflow" (rc.range >>> 11) p
  if rc.code < bound then do
    let p' ← if update then do
        let d ← subChk "decode_bit: 0x800 - prob" 0x800 p
        addChk U16 "decode_bit: prob += overflow" p (d >>> 5)
      else pure p
    pure (false, p', { range := bound, code := rc.code })
  else do
    let p' := if update then p - (p >>> 5) else p
    let code ← subChk "decode_bit: code -= bound" rc.code bound
    let range ← subChk "decode_bit: range -= bound" rc.range bound
    pure (true, p', { range := range, code := code })

theorem decodeBit_factor (u : Bool) (p : Nat) (rc : RC) (rd : Rd) :
    RC.decodeBit u p rc rd =
      match decPre u p rc with
      | .error e => .error e
      | .ok (bit, p', rc0) =>
        match RC.normalize rc0 rd with
        | .error e => .error e
        | .ok (rc', rd') => .ok (bit, p', rc', rd') := by
  unfold RC.decodeBit decPre
  cases hm : mulChk U32 "decode_bit: bound overflow" (rc.range >>> 11) p with
  | error e => rfl
  | ok bound =>
    simp only [exc_ok_bind, exc_pure]
    by_cases hlt : rc.code < bound
    · simp only [hlt, if_true]
      cases u
      · simp only [Bool.false_eq_true, if_false, exc_ok_bind]
        cases RC.normalize { range := bound, code := rc.code } rd <;> rfl
      · simp only [if_true]
        cases subChk "decode_bit: 0x800 - prob" 0x800 p with
        | error e => rfl
        | ok d =>
          simp only [exc_ok_bind]
          cases addChk U16 "decode_bit: prob += overflow" p (d >>> 5) with
          | error e => rfl
          | ok p' =>
            simp only [exc_ok_bind]
            cases RC.normalize { range := bound, code := rc.code } rd <;> rfl
    · simp only [hlt, if_false]
      cases subChk "decode_bit: code -= bound" rc.code bound with
      | error e => rfl
      | ok code =>
        simp only [exc_ok_bind]
        cases subChk "decode_bit: range -= bound" rc.range bound with
        | error e => rfl
        | ok range =>
          simp only [exc_ok_bind]
          cases RC.normalize { range := range, code := code } rd <;> rfl

theorem decodeBit_ok_app {u : Bool} {p p' : Nat} {rc rc' : RC} {a : Bytes} {rd' : Rd} {bit : Bool}
    (h : RC.decodeBit u p rc ⟨a, false⟩ = .ok (bit, p', rc', rd')) :
    rd'.bad = false ∧ rd'.rem <:+ a ∧
      ∀ b, RC.decodeBit u p rc ⟨a ++ b, false⟩ = .ok (bit, p', rc', ⟨rd'.rem ++ b, false⟩) := by
  rw [decodeBit_factor] at h
  cases hp : decPre u p rc with
  | error e => rw [hp] at h; cases h
  | ok x =>
    obtain ⟨bit0, p0, rc0⟩ := x
    rw [hp] at h
    simp only at h
    cases hn : RC.normalize rc0 ⟨a, false⟩ with
    | error e => rw [hn] at h; cases h
    | ok y =>
      obtain ⟨rc1, rd1⟩ := y
      rw [hn] at h
      simp only [Except.ok.injEq, Prod.mk.injEq] at h
      obtain ⟨rfl, rfl, rfl, rfl⟩ := h
      obtain ⟨h1, h2, h3⟩ := normalize_ok_app hn
      refine ⟨h1, h2, fun b => ?_⟩
      rw [decodeBit_factor, hp]
      simp only [h3 b]

theorem decodeBit_err_app {u : Bool} {p : Nat} {rc : RC} {a : Bytes} {e : Err}
    (h : RC.decodeBit u p rc ⟨a, false⟩ = .error e) :
    e = .eof ∨ ∀ b, RC.decodeBit u p rc ⟨a ++ b, false⟩ = .error e := by
  rw [decodeBit_factor] at h
  cases hp : decPre u p rc with
  | error e' =>
    rw [hp] at h
    cases h
    right; intro b
    rw [decodeBit_factor, hp]
  | ok x =>
    obtain ⟨bit0, p0, rc0⟩ := x
    rw [hp] at h
    simp only at h
    cases hn : RC.normalize rc0 ⟨a, false⟩ with
    | error e' =>
      rw [hn] at h; cases h
      exact .inl (normalize_err_eof hn)
    | ok y => rw [hn] at h; cases h

/-! ## `runDec` -/

theorem runDec_ok_app [ProbStore σ ι] (u : Bool) (t : Coder ι α) :
    ∀ (s : σ) (rc : RC) (a : Bytes) (x : α) (s' : σ) (rc' : RC) (rd' : Rd),
    runDec u t s rc ⟨a, false⟩ = .ok (x, s', rc', rd') →
    rd'.bad = false ∧ rd'.rem <:+ a ∧
      ∀ b, runDec u t s rc ⟨a ++ b, false⟩ = .ok (x, s', rc', ⟨rd'.rem ++ b, false⟩) := by
  induction t with
  | ret v =>
    intro s rc a x s' rc' rd' h
    simp only [runDec, Except.ok.injEq, Prod.mk.injEq] at h
    obtain ⟨rfl, rfl, rfl, rfl⟩ := h
    exact ⟨rfl, List.suffix_refl a, fun b => rfl⟩
  | fail e => intro s rc a x s' rc' rd' h; simp [runDec] at h
  | bit i k ih =>
    intro s rc a x s' rc' rd' h
    simp only [runDec] at h ⊢
    cases hg : ProbStore.get s i with
    | error e => rw [hg] at h; cases h
    | ok p =>
      rw [hg] at h; simp only at h ⊢
      cases hd : RC.decodeBit u p rc ⟨a, false⟩ with
      | error e => rw [hd] at h; cases h
      | ok y =>
        obtain ⟨bit, p', rc1, rd1⟩ := y
        rw [hd] at h; simp only at h
        obtain ⟨hb1, hs1, he1⟩ := decodeBit_ok_app hd
        obtain ⟨a1, _⟩ := rd1
        simp only at hb1 hs1 he1
        subst hb1
        obtain ⟨h1, h2, h3⟩ := ih bit _ rc1 a1 x s' rc' rd' h
        refine ⟨h1, h2.trans hs1, fun b => ?_⟩
        rw [he1 b]
        exact h3 b
  | direct k ih =>
    intro s rc a x s' rc' rd' h
    simp only [runDec] at h ⊢
    cases hd : RC.getBit rc ⟨a, false⟩ with
    | error e => rw [hd] at h; cases h
    | ok y =>
      obtain ⟨bit, rc1, rd1⟩ := y
      rw [hd] at h; simp only at h
      obtain ⟨hb1, hs1, he1⟩ := getBit_ok_app hd
      obtain ⟨a1, _⟩ := rd1
      simp only at hb1 hs1 he1
      subst hb1
      obtain ⟨h1, h2, h3⟩ := ih bit s rc1 a1 x s' rc' rd' h
      refine ⟨h1, h2.trans hs1, fun b => ?_⟩
      rw [he1 b]
      exact h3 b

theorem runDec_err_app [ProbStore σ ι] (u : Bool) (t : Coder ι α) :
    ∀ (s : σ) (rc : RC) (a : Bytes) (e : Err),
    runDec u t s rc ⟨a, false⟩ = .error e →
    e = .eof ∨ ∀ b, runDec u t s rc ⟨a ++ b, false⟩ = .error e := by
  induction t with
  | ret v => intro s rc a e h; simp [runDec] at h
  | fail e' =>
    intro s rc a e h
    simp only [runDec, Except.error.injEq] at h
    subst h
    exact .inr (fun b => rfl)
  | bit i k ih =>
    intro s rc a e h
    simp only [runDec] at h ⊢
    cases hg : ProbStore.get s i with
    | error e' =>
      rw [hg] at h; simp only [Except.error.injEq] at h; subst h
      exact .inr (fun b => rfl)
    | ok p =>
      rw [hg] at h; simp only at h ⊢
      cases hd : RC.decodeBit u p rc ⟨a, false⟩ with
      | error e' =>
        rw [hd] at h; simp only [Except.error.injEq] at h; subst h
        rcases decodeBit_err_app hd with h1 | h1
        · exact .inl h1
        · right; intro b; rw [h1 b]
      | ok y =>
        obtain ⟨bit, p', rc1, rd1⟩ := y
        rw [hd] at h; simp only at h
        obtain ⟨hb1, hs1, he1⟩ := decodeBit_ok_app hd
        obtain ⟨a1, _⟩ := rd1
        simp only at hb1 hs1 he1
        subst hb1
        rcases ih bit _ rc1 a1 e h with h1 | h1
        · exact .inl h1
        · right; intro b; rw [he1 b]; exact h1 b
  | direct k ih =>
    intro s rc a e h
    simp only [runDec] at h ⊢
    cases hd : RC.getBit rc ⟨a, false⟩ with
    | error e' =>
      rw [hd] at h; simp only [Except.error.injEq] at h; subst h
      exact .inl (getBit_err_eof hd)
    | ok y =>
      obtain ⟨bit, rc1, rd1⟩ := y
      rw [hd] at h; simp only at h
      obtain ⟨hb1, hs1, he1⟩ := getBit_ok_app hd
      obtain ⟨a1, _⟩ := rd1
      simp only at hb1 hs1 he1
      subst hb1
      rcases ih bit s rc1 a1 e h with h1 | h1
      · exact .inl h1
      · right; intro b; rw [he1 b]; exact h1 b

end StreamEq
end Lzma
