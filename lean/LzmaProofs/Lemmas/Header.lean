/-
  Functional specification of `readHeader` (`LzmaParams::read_header`).
-/
import LzmaProofs.Lemmas.Monad
namespace Lzma

/-- number of header bytes `read_header` consumes for a given option form -/
def hdrLen (u : UnpackedSizeOpt) : Nat :=
  match u with
  | .useProvided _ => 5
  | _ => 13

/-- the unpacked size in effect, given the option and the LE value of the 8-byte size field -/
def effSize (u : UnpackedSizeOpt) (field : Nat) : Option Nat :=
  match u with
  | .readFromHeader => if field = 0xFFFFFFFFFFFFFFFF then none else some field
  | .readHeaderButUseProvided x => x
  | .useProvided x => x

/-- the parameters `read_header` returns on a long enough header `b :: rest` with `b < 225` -/
def hdrParams (u : UnpackedSizeOpt) (b : UInt8) (rest : Bytes) : LzmaParams :=
  { props := { lc := b.toNat % 9, lp := b.toNat / 9 % 5, pb := b.toNat / 45 }
    dictSize := max (leVal (rest.take 4)) 4096
    unpackedSize := effSize u (leVal ((rest.drop 4).take 8)) }

/-- complete functional description of `readHeader` -/
theorem readHeader_eq (rd : Rd) (opts : Options) :
    readHeader rd opts =
      match rd.rem with
      | [] => .error .headerTooShort
      | b :: rest =>
        if b.toNat ≥ 225 then .error .lzma
        else if rest.length + 1 < hdrLen opts.unpackedSize then .error .headerTooShort
        else .ok (hdrParams opts.unpackedSize b rest,
                  { rd with rem := rd.rem.drop (hdrLen opts.unpackedSize) }) := by
  rcases rd with ⟨rem, bad⟩
  cases rem with
  | nil => simp [readHeader, Rd.readU8, hdrErr, bind, Except.bind]
  | cons b rest =>
    by_cases hb : b.toNat ≥ 225
    · simp [readHeader, Rd.readU8, hdrErr, bind, Except.bind, hb, throw, throwThe, MonadExceptOf.throw]
    · rcases opts with ⟨u, ml, ai⟩
      cases u <;>
      simp [readHeader, Rd.readU8, hdrErr, bind, Except.bind, hb, Rd.readU32LE, Rd.readU64LE, Rd.readExact, hdrLen, hdrParams, effSize, pure, Except.pure]
      all_goals
        by_cases h4 : 4 ≤ rest.length
        · by_cases h8 : 12 ≤ rest.length
          · have h8' : 8 ≤ rest.length - 4 := by omega
            have : ¬ rest.length + 1 < 13 := by omega
            have : ¬ rest.length + 1 < 5 := by omega
            simp [*, Nat.div_div_eq_div_mul, Nat.max_def]
            try (split <;> split <;> first | rfl | omega)
          · have h8' : ¬ 8 ≤ rest.length - 4 := by omega
            have : rest.length + 1 < 13 := by omega
            have : ¬ rest.length + 1 < 5 := by omega
            simp [*, Nat.div_div_eq_div_mul, Nat.max_def]
            try (split <;> split <;> first | rfl | omega)
        · have : rest.length + 1 < 13 := by omega
          have : rest.length + 1 < 5 := by omega
          simp [*]

end Lzma
