/-
  C07 — layer 5: `DecoderState`: `mkCtx`, `applySym`, `processNext`,
  `processLoop`, `processMode` are safe (no panic, no fuel exhaustion) for any
  window with a `LzBufSafe` instance.
-/
import LzmaProofs.Lemmas.SafetySym
import LzmaProofs.Lemmas.SafetyWindow
namespace Lzma
namespace Safety

/-- invariant of `DecoderState` -/
structure DStateInv (s : DState) : Prop where
  probs : ProbsInv s.probs
  state : s.state < 12
  lc : s.props.lc ≤ 8
  lp : s.props.lp ≤ 4
  pb : s.props.pb ≤ 4
  rows : s.probs.litRows = 1 <<< (s.props.lc + s.props.lp)
  pbuf : s.partialBuf.length ≤ 20

theorem DStateInv.of_eq {s s' : DState} (hs : DStateInv s) (h1 : s'.probs = s.probs)
    (h2 : s'.state < 12) (h3 : s'.props = s.props) (h4 : s'.partialBuf.length ≤ 20) :
    DStateInv s' :=
  ⟨h1 ▸ hs.probs, h2, h3 ▸ hs.lc, h3 ▸ hs.lp, h3 ▸ hs.pb, by rw [h1, h3]; exact hs.rows, h4⟩

def PropsOk (p : Props) : Prop := p.lc ≤ 8 ∧ p.lp ≤ 4 ∧ p.pb ≤ 4

instance (p : Props) : Decidable (PropsOk p) := by unfold PropsOk; infer_instance

theorem validate_ok {p : Props} (h : PropsOk p) : p.validate = .ok () := by
  unfold Props.validate; unfold PropsOk at h; rw [if_pos h]; rfl

theorem DState_new_safe {props : Props} (h : PropsOk props) (u : Option Nat) :
    ESafe (fun s => DStateInv s ∧ s.partialBuf = [] ∧ s.unpackedSize = u ∧ s.props = props)
      (DState.new props u) := by
  unfold DState.new
  rw [validate_ok h]
  exact ⟨⟨ProbsInv_init _, (by show (0:Nat) < 12; omega), h.1, h.2.1, h.2.2, rfl, by simp⟩, rfl, rfl, rfl⟩

theorem resetState_safe {s : DState} (hs : DStateInv s) {np : Props} (h : PropsOk np) :
    ESafe (fun s' => DStateInv s' ∧ s'.partialBuf = s.partialBuf ∧ s'.unpackedSize = s.unpackedSize ∧
        s'.props = np)
      (s.resetState np) := by
  unfold DState.resetState
  rw [validate_ok h]
  simp only [ok_bind]
  refine ESafe_pure.mpr ⟨⟨?_, (by show (0:Nat) < 12; omega), h.1, h.2.1, h.2.2, ?_, hs.pbuf⟩, rfl, rfl, rfl⟩
  · show ProbsInv { lit := _, litRows := _ }
    split
    · exact ProbsInv_fresh _ _ hs.probs.lit.1
    · exact ProbsInv_fresh _ _ rfl
  · split
    · rename_i heq
      show s.probs.litRows = _
      rw [hs.rows, heq]
    · rfl

theorem setUnpackedSize_inv {s : DState} (hs : DStateInv s) (u : Option Nat) :
    DStateInv (s.setUnpackedSize u) :=
  hs.of_eq rfl hs.state rfl hs.pbuf

section generic
variable {ω : Type} [LzBuf ω] [LzBufSafe ω]

theorem litRow_bound {len prev lc lp : Nat} (hlc : lc ≤ 8) (hprev : prev < 256) :
    ((len &&& ((1 <<< lp) - 1)) <<< lc) + (prev >>> (8 - lc)) < 2 ^ (lc + lp) := by
  have ha : len &&& ((1 <<< lp) - 1) ≤ (1 <<< lp) - 1 := Nat.and_le_right
  rw [Nat.shiftLeft_eq, Nat.one_mul] at ha
  have hpos : 0 < 2 ^ lp := Nat.pos_of_ne_zero (by simp)
  have ha' : (len &&& ((1 <<< lp) - 1)) + 1 ≤ 2 ^ lp := by
    rw [Nat.shiftLeft_eq, Nat.one_mul]; omega
  have hq : prev >>> (8 - lc) < 2 ^ lc := by
    rw [Nat.shiftRight_eq_div_pow]
    apply Nat.div_lt_of_lt_mul
    rw [← Nat.pow_add]
    have : 8 - lc + lc = 8 := by omega
    rw [this]; exact hprev
  rw [Nat.shiftLeft_eq (len &&& _)]
  have h1 := Nat.mul_le_mul_right (2 ^ lc) ha'
  rw [Nat.add_mul, Nat.one_mul, ← Nat.pow_add, Nat.add_comm lp lc] at h1
  omega

theorem mkCtx_ok {s : DState} {w : ω} (hs : DStateInv s) (hw : LzBufSafe.inv w) :
    CtxOk s.probs.litRows (s.mkCtx w) := by
  refine ⟨hs.state, ?_, ?_, ?_⟩
  · show LzBuf.len w &&& ((1 <<< s.props.pb) - 1) < 16
    have h1 : LzBuf.len w &&& ((1 <<< s.props.pb) - 1) ≤ (1 <<< s.props.pb) - 1 := Nat.and_le_right
    have h2 : 2 ^ s.props.pb ≤ 2 ^ 4 := Nat.pow_le_pow_right (by omega) hs.pb
    rw [Nat.shiftLeft_eq, Nat.one_mul] at h1 ⊢
    omega
  · show ESafe _ (do
      let prev ← LzBuf.lastOr w 0
      let sh ← subChk "decode_literal: 8 - lc" 8 s.props.lc
      let row := ((LzBuf.len w &&& ((1 <<< s.props.lp) - 1)) <<< s.props.lc) + (prev.toNat >>> sh)
      if row * 0x300 + 0x300 ≤ s.probs.lit.size then pure row else oob)
    refine (LzBufSafe.lastOr_safe w 0 hw).bind ?_
    intro prev _
    rw [subChk_safe hs.lc]
    simp only [ok_bind]
    have hb := litRow_bound (len := LzBuf.len w) (lp := s.props.lp) hs.lc prev.toNat_lt
    have hsz := hs.probs.lit.1
    rw [hs.rows, Nat.shiftLeft_eq, Nat.one_mul] at hsz
    rw [hs.rows, Nat.shiftLeft_eq, Nat.one_mul]
    generalize 2 ^ (s.props.lc + s.props.lp) = X at *
    split
    · exact hb
    · rename_i hne
      exact absurd (by rw [hsz]; omega) hne
  · show ESafe _ (do
      let b ← LzBuf.lastN w (s.rep0 + 1)
      pure b.toNat)
    refine (LzBufSafe.lastN_safe w _ hw (by omega)).bind ?_
    intro _ _; trivial

theorem isFinishedOk_safe (rc : RC) (rd : Rd) : ESafe (fun _ => True) (rc.isFinishedOk rd) := by
  unfold RC.isFinishedOk
  split
  · exact isEof_safe rd
  · trivial

/-- `applySym` keeps the invariants and touches neither `partialBuf` nor `unpackedSize`. -/
theorem applySym_safe {s : DState} {w : ω} (rc : RC) (rd : Rd) (sym : RawSym)
    (hs : DStateInv s) (hw : LzBufSafe.inv w) :
    MSafe (fun x => DStateInv x.2.1 ∧ LzBufSafe.inv x.2.2 ∧ x.2.1.partialBuf = s.partialBuf ∧
        x.2.1.unpackedSize = s.unpackedSize)
      (DState.applySym s w rc rd sym) := by
  cases sym with
  | lit byte =>
    simp only [DState.applySym]
    refine MSafe.bind (LzBufSafe.appendLiteral_safe w _ hw) ?_
    intro w' hw'
    refine MSafe_pure.mpr ?_
    refine ⟨hs.of_eq rfl ?_ rfl hs.pbuf, hw', rfl, rfl⟩
    have := hs.state
    show (if s.state < 4 then 0 else if s.state < 10 then s.state - 3 else s.state - 6) < 12
    split
    · omega
    · split <;> omega
  | shortRep =>
    simp only [DState.applySym]
    refine MSafe.bind (LzBufSafe.appendLz_safe w _ _ hw (by omega)) ?_
    intro w' hw'
    refine MSafe_pure.mpr ?_
    refine ⟨hs.of_eq rfl ?_ rfl hs.pbuf, hw', rfl, rfl⟩
    show (if s.state < 7 then 9 else 11) < 12
    split <;> omega
  | rep idx len =>
    simp only [DState.applySym]
    refine MSafe.bind (LzBufSafe.appendLz_safe w _ _ hw (by omega)) ?_
    intro w' hw'
    refine MSafe_pure.mpr ?_
    have hst : ∀ x : Nat, (if x < 7 then 8 else 11) < 12 := by intro x; split <;> omega
    refine ⟨?_, hw', ?_, ?_⟩
    · split <;> exact hs.of_eq rfl (hst _) rfl hs.pbuf
    · split <;> rfl
    · split <;> rfl
  | mtch len r0 =>
    simp only [DState.applySym]
    have hst : ∀ x : Nat, (if x < 7 then 7 else 10) < 12 := by intro x; split <;> omega
    split
    · refine MSafe.bind (MSafe.liftE (isFinishedOk_safe rc rd)) ?_
      intro fin _
      split
      · refine MSafe_pure.mpr ?_
        exact ⟨hs.of_eq rfl (hst _) rfl hs.pbuf, hw, rfl, rfl⟩
      · simp
    · refine MSafe.bind (LzBufSafe.appendLz_safe w _ _ hw (by omega)) ?_
      intro w' hw'
      refine MSafe_pure.mpr ?_
      exact ⟨hs.of_eq rfl (hst _) rfl hs.pbuf, hw', rfl, rfl⟩

/-- One symbol: safe, keeps all invariants, and strictly decreases `mu`. -/
theorem processNext_safe {s : DState} {w : ω} {rc : RC} (rd : Rd)
    (hs : DStateInv s) (hw : LzBufSafe.inv w) (hrc : RCInv rc) :
    MSafe (fun x => DStateInv x.2.1 ∧ LzBufSafe.inv x.2.2.1 ∧ RCInv x.2.2.2.1 ∧
        x.2.2.2.2.rem.length ≤ rd.rem.length ∧ mu x.2.2.2.2 x.2.2.2.1 < mu rd rc ∧
        x.2.1.partialBuf = s.partialBuf ∧ x.2.1.unpackedSize = s.unpackedSize)
      (DState.processNext s w rc rd) := by
  unfold DState.processNext
  have hctx := symTree_safe (mkCtx_ok hs hw)
  obtain ⟨i, k, hk⟩ := symTree_isBit (s.mkCtx w)
  rw [hk] at hctx ⊢
  refine MSafe.bind (MSafe.liftE (runDec_bit_lt true i k s.probs rc rd hs.probs hctx hrc)) ?_
  rintro ⟨sym, probs, rc', rd'⟩ ⟨_, hp, hrows, hrc', hlen, hmu⟩
  have hs' : DStateInv { s with probs := probs } :=
    ⟨hp, hs.state, hs.lc, hs.lp, hs.pb, by rw [hrows]; exact hs.rows, hs.pbuf⟩
  refine MSafe.bind (applySym_safe rc' rd' sym hs' hw) ?_
  rintro ⟨st, s2, w2⟩ ⟨h1, h2, h3, h4⟩
  refine MSafe_pure.mpr ?_
  exact ⟨h1, h2, hrc', hlen, hmu, h3, h4⟩

/-- the dry run never matters for safety: it is a `Bool` -/
theorem readPartialInputBuf_safe {s : DState} (rd : Rd) (hs : DStateInv s) :
    ESafe (fun x => DStateInv x.1 ∧
        x.2.rem.length + x.1.partialBuf.length = rd.rem.length + s.partialBuf.length ∧
        x.2.rem.length ≤ rd.rem.length ∧ x.1.unpackedSize = s.unpackedSize)
      (s.readPartialInputBuf rd) := by
  unfold DState.readPartialInputBuf
  simp only
  split
  · rfl
  · have := hs.pbuf
    simp only [DState.MAX_REQUIRED_INPUT]
    refine ESafe_ok.mpr ⟨hs.of_eq rfl hs.state rfl ?_, ?_, ?_, rfl⟩
    · simp; omega
    · simp; omega
    · simp

omit [LzBufSafe ω] in
theorem stop_safe (mode : DState.Mode) (s : DState) (w : ω) (rc : RC) (rd : Rd) :
    ESafe (fun _ => True) (match s.unpackedSize with
      | some n => pure (decide (LzBuf.len w ≥ n))
      | none =>
        match mode with
        | .stream => do
          let e ← rd.isEof
          pure (e && s.partialBuf.isEmpty)
        | .finish => do
          let f ← rc.isFinishedOk rd
          pure (f && s.partialBuf.isEmpty)) := by
  split
  · trivial
  · split
    · exact (isEof_safe rd).bind (fun _ _ => trivial)
    · exact (isFinishedOk_safe rc rd).bind (fun _ _ => trivial)

theorem fuel_step {x b c r r' F K : Nat}
    (h1 : c * K + r' < b * K + r)
    (h2 : (x + b) * K + r < F + 1) : (x + c) * K + r' < F := by
  rw [Nat.add_mul] at *
  omega

/-- The symbol loop with enough fuel: the fuel bounds the measure
`(reader bytes + staged bytes) * 2^32 + range`. -/
theorem processLoop_safe (mode : DState.Mode) : ∀ (fuel : Nat) (s : DState) (w : ω) (rc : RC) (rd : Rd),
    DStateInv s → LzBufSafe.inv w → RCInv rc →
    (rd.rem.length + s.partialBuf.length) * 4294967296 + rc.range < fuel →
    MSafe (fun x => DStateInv x.1 ∧ LzBufSafe.inv x.2.1 ∧ RCInv x.2.2.1 ∧
        x.2.2.2.rem.length ≤ rd.rem.length ∧ x.1.unpackedSize = s.unpackedSize)
      (DState.processLoop mode fuel s w rc rd) := by
  intro fuel
  induction fuel with
  | zero => intro s w rc rd _ _ _ hf; omega
  | succ fuel ih =>
    intro s w rc rd hs hw hrc hf
    unfold DState.processLoop
    refine MSafe.bind (MSafe.liftE (stop_safe mode s w rc rd)) ?_
    intro stop _
    split
    · refine MSafe_pure.mpr ?_
      exact ⟨hs, hw, hrc, Nat.le_refl _, rfl⟩
    · split
      · -- staged input
        refine MSafe.bind (MSafe.liftE (readPartialInputBuf_safe rd hs)) ?_
        rintro ⟨s1, rd1⟩ ⟨hs1, htot, hle, hu1⟩
        dsimp only
        split
        · refine MSafe_pure.mpr ?_
          exact ⟨hs1, hw, hrc, hle, hu1⟩
        · refine MSafe.bind (processNext_safe (Rd.ofBytes s1.partialBuf) hs1 hw hrc) ?_
          rintro ⟨st, s2, w2, rc2, tmp⟩ ⟨hs2, hw2, hrc2, hl2, hm2, hpb2, hu2⟩
          dsimp only at hs2 hw2 hrc2 hl2 hm2 hpb2 hu2 ⊢
          have hl2' : tmp.rem.length ≤ s1.partialBuf.length := hl2
          have hs3 : DStateInv { s2 with partialBuf := tmp.rem } :=
            hs2.of_eq rfl hs2.state rfl (Nat.le_trans hl2' hs1.pbuf)
          split
          · refine MSafe_pure.mpr ?_
            exact ⟨hs3, hw2, hrc2, hle, by rw [← hu1, ← hu2]⟩
          · have hm2' : tmp.rem.length * 4294967296 + rc2.range <
                s1.partialBuf.length * 4294967296 + rc.range := hm2
            have := ih { s2 with partialBuf := tmp.rem } w2 rc2 rd1 hs3 hw2 hrc2 (by
              show (rd1.rem.length + tmp.rem.length) * 4294967296 + rc2.range < fuel
              rw [← htot] at hf
              exact fuel_step hm2' hf)
            refine this.mono ?_
            rintro ⟨a, b, c, d⟩ ⟨h1, h2, h3, h4, h5⟩
            exact ⟨h1, h2, h3, Nat.le_trans h4 hle, by rw [h5, ← hu1, ← hu2]⟩
      · -- direct input
        refine MSafe.bind (MSafe.liftE (fillBuf_safe rd)) ?_
        intro _ _
        split
        · refine MSafe.bind (MSafe.liftE (readPartialInputBuf_safe rd hs)) ?_
          rintro ⟨s1, rd1⟩ ⟨hs1, _, hle, hu1⟩
          refine MSafe_pure.mpr ?_
          exact ⟨hs1, hw, hrc, hle, hu1⟩
        · refine MSafe.bind (processNext_safe rd hs hw hrc) ?_
          rintro ⟨st, s2, w2, rc2, rd2⟩ ⟨hs2, hw2, hrc2, hl2, hm2, hpb2, hu2⟩
          dsimp only at hs2 hw2 hrc2 hl2 hm2 hpb2 hu2 ⊢
          split
          · refine MSafe_pure.mpr ?_
            exact ⟨hs2, hw2, hrc2, hl2, hu2⟩
          · have hm2' : rd2.rem.length * 4294967296 + rc2.range <
                rd.rem.length * 4294967296 + rc.range := hm2
            have := ih s2 w2 rc2 rd2 hs2 hw2 hrc2 (by
              rw [hpb2, Nat.add_comm rd2.rem.length]
              rw [Nat.add_comm rd.rem.length] at hf
              exact fuel_step hm2' hf)
            refine this.mono ?_
            rintro ⟨a, b, c, d⟩ ⟨h1, h2, h3, h4, h5⟩
            exact ⟨h1, h2, h3, Nat.le_trans h4 hl2, by rw [h5, hu2]⟩

/-- `process_mode` with the model's `loopFuel` -/
theorem processMode_safe (mode : DState.Mode) {s : DState} {w : ω} {rc : RC} (rd : Rd)
    (hs : DStateInv s) (hw : LzBufSafe.inv w) (hrc : RCInv rc) :
    MSafe (fun x => DStateInv x.1 ∧ LzBufSafe.inv x.2.1 ∧ RCInv x.2.2.1 ∧
        x.2.2.2.rem.length ≤ rd.rem.length)
      (DState.processMode mode s w rc rd) := by
  unfold DState.processMode
  refine MSafe.bind (processLoop_safe mode (DState.loopFuel s rd) s w rc rd hs hw hrc ?_) ?_
  · have := hrc.2.1
    simp only [DState.loopFuel, U32]
    omega
  · rintro ⟨s1, w1, rc1, rd1⟩ ⟨h1, h2, h3, h4, _⟩
    dsimp only
    split
    · split
      · simp
      · refine MSafe_pure.mpr ?_; exact ⟨h1, h2, h3, h4⟩
    · refine MSafe_pure.mpr ?_; exact ⟨h1, h2, h3, h4⟩

theorem processLoop_no_panic (mode : DState.Mode) (fuel : Nat) {s : DState} {w : ω} {rc : RC} (rd : Rd)
    (hs : DStateInv s) (hw : LzBufSafe.inv w) (hrc : RCInv rc)
    (hf : (rd.rem.length + s.partialBuf.length) * 4294967296 + rc.range < fuel) (snk : Sink)
    (what : String) : (DState.processLoop mode fuel s w rc rd snk).2 ≠ .error (.panic what) :=
  (processLoop_safe mode fuel s w rc rd hs hw hrc hf snk).ne_panic what

theorem processLoop_terminates (mode : DState.Mode) (fuel : Nat) {s : DState} {w : ω} {rc : RC} (rd : Rd)
    (hs : DStateInv s) (hw : LzBufSafe.inv w) (hrc : RCInv rc)
    (hf : (rd.rem.length + s.partialBuf.length) * 4294967296 + rc.range < fuel) (snk : Sink) :
    (DState.processLoop mode fuel s w rc rd snk).2 ≠ .error .fuel :=
  (processLoop_safe mode fuel s w rc rd hs hw hrc hf snk).ne_fuel

/-- the model's `loopFuel` always suffices -/
theorem loopFuel_suffices {s : DState} {rc : RC} (rd : Rd) (hrc : RCInv rc) :
    (rd.rem.length + s.partialBuf.length) * 4294967296 + rc.range < DState.loopFuel s rd := by
  have := hrc.2.1
  simp only [DState.loopFuel, U32]
  omega

end generic

end Safety
end Lzma
