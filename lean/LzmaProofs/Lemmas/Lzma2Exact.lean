/-
  C02, exactness — part 1: a format-level SPEC of LZMA2 chunk sequences (`SChunk`: reference
  encoder `encode2`, meaning `expand2`, well-formedness `WF2`) and the per-chunk payload lemma:
  the range-coded payload the reference encoder produces for a symbol program from ANY coupled
  coder state (adapted probabilities, any `state`/`rep`s, non-empty history) is decoded by
  `process_mode(Finish)` on the accumulating window exactly, ending with `code = 0` at the end of
  the payload.
-/
import LzmaProofs.Lemmas.DecodeExact
import LzmaProofs.Lemmas.Lzma2
import LzmaProofs.Lemmas.SafetyLzma2
namespace Lzma
namespace L2E
open DState REnc L2

/-! ## the specification -/

/-- distances are limited by the history only (`LzAccumBuffer` does not know the dictionary
size); the format caps them at `2^32 - 1` -/
def dictLim : Nat := 0xFFFFFFFF

/-- one LZMA2 chunk at the format level -/
inductive SChunk where
  /-- uncompressed chunk, with (control 1) or without (control 2) dictionary reset -/
  | raw (resetDict : Bool) (data : Bytes)
  /-- LZMA chunk.  `cls`: 0 nothing, 1 state reset, 2 state reset + new properties,
  3 state reset + new properties + dictionary reset.  `props` only matters for `cls ≥ 2`. -/
  | lzma (cls : Nat) (props : Props) (prog : List Sym)
  deriving Repr, Inhabited

/-- the coder state a compressed chunk of class `cls` starts its program in: `cls = 0` continues,
a state reset zeroes `state`/`rep`s, a dictionary reset also empties the history -/
def startSpec (cls : Nat) (sp : SpecSt) : SpecSt :=
  if cls = 0 then sp else if cls = 3 then {} else { hist := sp.hist }

/-- the properties in force in a compressed chunk -/
def propsInForce (cls : Nat) (new cur : Props) : Props := if cls ≥ 2 then new else cur

/-- the encoder state a compressed chunk starts in (fresh probabilities after a state reset) -/
def startEnc (cls : Nat) (props : Props) (es : EncSt) : EncSt :=
  if cls = 0 then es
  else { EncSt.new (propsInForce cls props es.props) with spec := startSpec cls es.spec }

/-- the history after an uncompressed chunk -/
def rawAfter (rd : Bool) (data : Bytes) (sp : SpecSt) : SpecSt :=
  { sp with hist := (if rd then #[] else sp.hist) ++ data.toArray }

/-- the payload of a compressed chunk: reference encoding of the program from the current coder
state with a FRESH range encoder, then the 5-byte flush.  Returns the sink holding the payload
and the coder state after the program. -/
def encPayload (es0 : EncSt) (prog : List Sym) : Sink × Except Err EncSt :=
  (do
    let (s, e) ← encodeProg dictLim prog es0 {}
    let _ ← e.finish
    pure s : M EncSt) {}

/-- the LZMA2 properties byte -/
def propsByte (p : Props) : UInt8 := UInt8.ofNat (p.lc + 9 * (p.lp + 5 * p.pb))

/-- reference encoder for one chunk: its bytes and the coder state after it -/
def encChunk (es : EncSt) : SChunk → Bytes × EncSt
  | .raw rd data =>
    ((if rd then 1 else 2) :: (beBytes 2 (data.length - 1) ++ data),
      { es with spec := rawAfter rd data es.spec })
  | .lzma cls props prog =>
    match encPayload (startEnc cls props es) prog with
    | (snk, .ok es') =>
      let payload := snk.out.toList
      let u := es'.spec.hist.size - (startEnc cls props es).spec.hist.size
      (UInt8.ofNat (0x80 + cls * 32 + ((u - 1) >>> 16)) ::
        (beBytes 2 ((u - 1) % 65536) ++ (beBytes 2 (payload.length - 1) ++
          ((if cls ≥ 2 then [propsByte props] else []) ++ payload))), es')
    | (_, .error _) => ([], es)

/-- reference encoder for a chunk sequence (without the end byte `0x00`) -/
def encode2Aux : EncSt → List SChunk → Bytes
  | _, [] => []
  | es, c :: cs => (encChunk es c).1 ++ encode2Aux (encChunk es c).2 cs

/-- the decoder starts with properties `lc = lp = pb = 0` (`Lzma2Decoder::new`) -/
def encode2 (cs : List SChunk) : Bytes := encode2Aux (EncSt.new { lc := 0, lp := 0, pb := 0 }) cs

/-- meaning of one chunk in coder state `sp` (history since the last dictionary reset): the new
state and the bytes the chunk produces -/
def SChunk.sem (sp : SpecSt) : SChunk → Option (SpecSt × Bytes)
  | .raw rd data => some (rawAfter rd data sp, data)
  | .lzma cls _ prog =>
    match SpecSt.run dictLim (startSpec cls sp) prog with
    | some (sp', false) => some (sp', sp'.hist.toList.drop (startSpec cls sp).hist.size)
    | _ => none

def expand2Aux : SpecSt → List SChunk → Option Bytes
  | _, [] => some []
  | sp, c :: cs =>
    match c.sem sp with
    | none => none
    | some (sp', out) => (expand2Aux sp' cs).map (out ++ ·)

/-- the bytes a chunk sequence denotes -/
def expand2 (cs : List SChunk) : Option Bytes := expand2Aux {} cs

/-- the result of running a chunk's program in the spec: it is well-formed and produces 1 .. 2^21
bytes; the window (`base` bytes before the chunk) stays below `usize::MAX`, the memory limit of
the accumulating window -/
def ProgOk (base : Nat) : Option (SpecSt × Bool) → Prop
  | some (sp', _) =>
    1 ≤ sp'.hist.size - base ∧ sp'.hist.size - base ≤ 2097152 ∧ sp'.hist.size ≤ USIZE_MAX
  | none => False

instance (base : Nat) (o : Option (SpecSt × Bool)) : Decidable (ProgOk base o) := by
  cases o with
  | none => exact isFalse id
  | some r => unfold ProgOk; infer_instance

/-- after a match the last distance lies inside the history -/
def MbOk (sp : SpecSt) : Prop := sp.state ≥ 7 → sp.rep0 + 1 ≤ sp.hist.size

instance (sp : SpecSt) : Decidable (MbOk sp) := by unfold MbOk; infer_instance

/-- well-formedness of one chunk in the encoder state `es` it starts in -/
def SChunk.WF (es : EncSt) : SChunk → Prop
  | .raw _ data => 1 ≤ data.length ∧ data.length ≤ 65536
  | .lzma cls props prog =>
    cls ≤ 3 ∧
    (startEnc cls props es).props.lc + (startEnc cls props es).props.lp ≤ 4 ∧
    (startEnc cls props es).props.pb ≤ 4 ∧
    Sym.eos ∉ prog ∧
    -- a chunk that continues the coder state after a match: the last distance lies in the history
    -- (automatic unless an uncompressed chunk reset the dictionary since the last compressed
    -- chunk, see `wf2s_imp`; without it lzma-rs fails, see `C02.carry_after_raw_reset_fails`)
    (cls = 0 → MbOk es.spec) ∧
    ProgOk (startSpec cls es.spec).hist.size (SpecSt.run dictLim (startSpec cls es.spec) prog) ∧
    -- the payload as produced fits the 16-bit packed-size field
    (encPayload (startEnc cls props es) prog).1.out.size ≤ 65536

instance (es : EncSt) (c : SChunk) : Decidable (c.WF es) := by
  cases c with
  | raw rd data => unfold SChunk.WF; infer_instance
  | lzma cls props prog => unfold SChunk.WF; infer_instance

def WF2Aux : EncSt → List SChunk → Prop
  | _, [] => True
  | es, c :: cs => c.WF es ∧ WF2Aux (encChunk es c).2 cs

/-- well-formedness of a chunk sequence for the lzma-rs decoder.  NOT required: that the first
chunk resets the dictionary, that a chunk after a dictionary reset sets new properties. -/
def WF2 (cs : List SChunk) : Prop := WF2Aux (EncSt.new { lc := 0, lp := 0, pb := 0 }) cs

instance decWF2Aux : (es : EncSt) → (cs : List SChunk) → Decidable (WF2Aux es cs)
  | _, [] => isTrue trivial
  | es, c :: cs =>
    have := decWF2Aux (encChunk es c).2 cs
    inferInstanceAs (Decidable (c.WF es ∧ WF2Aux (encChunk es c).2 cs))

instance (cs : List SChunk) : Decidable (WF2 cs) := decWF2Aux _ cs

/-! ### a purely syntactic variant of the coupling clause -/

/-- `SChunk.WF` with the clause `cls = 0 → MbOk es.spec` replaced by a flag: a class-0 chunk is
only allowed while `carryOk` -/
def SChunk.WFs (carryOk : Bool) (es : EncSt) : SChunk → Prop
  | .raw _ data => 1 ≤ data.length ∧ data.length ≤ 65536
  | .lzma cls props prog =>
    cls ≤ 3 ∧
    (startEnc cls props es).props.lc + (startEnc cls props es).props.lp ≤ 4 ∧
    (startEnc cls props es).props.pb ≤ 4 ∧
    Sym.eos ∉ prog ∧
    (cls = 0 → carryOk = true) ∧
    ProgOk (startSpec cls es.spec).hist.size (SpecSt.run dictLim (startSpec cls es.spec) prog) ∧
    (encPayload (startEnc cls props es) prog).1.out.size ≤ 65536

instance (b : Bool) (es : EncSt) (c : SChunk) : Decidable (c.WFs b es) := by
  cases c with
  | raw rd data => unfold SChunk.WFs; infer_instance
  | lzma cls props prog => unfold SChunk.WFs; infer_instance

/-- the flag after a chunk: an uncompressed chunk with dictionary reset forbids carrying the coder
state on; any compressed chunk allows it again -/
def carryAfter (carryOk : Bool) : SChunk → Bool
  | .raw rd _ => carryOk && !rd
  | .lzma _ _ _ => true

def WF2sAux : Bool → EncSt → List SChunk → Prop
  | _, _, [] => True
  | b, es, c :: cs => c.WFs b es ∧ WF2sAux (carryAfter b c) (encChunk es c).2 cs

/-- syntactic well-formedness: as `WF2`, but "a chunk that continues the coder state does not
follow an uncompressed chunk with dictionary reset unless a compressed chunk lies in between" -/
def WF2s (cs : List SChunk) : Prop := WF2sAux true (EncSt.new { lc := 0, lp := 0, pb := 0 }) cs

instance decWF2sAux : (b : Bool) → (es : EncSt) → (cs : List SChunk) → Decidable (WF2sAux b es cs)
  | _, _, [] => isTrue trivial
  | b, es, c :: cs =>
    have := decWF2sAux (carryAfter b c) (encChunk es c).2 cs
    inferInstanceAs (Decidable (c.WFs b es ∧ WF2sAux (carryAfter b c) (encChunk es c).2 cs))

instance (cs : List SChunk) : Decidable (WF2s cs) := decWF2sAux _ _ cs

/-- what a chunk guarantees about `MbOk` afterwards -/
def MbAfter (sp sp' : SpecSt) : SChunk → Prop
  | .raw rd _ => rd = false → MbOk sp → MbOk sp'
  | .lzma _ _ _ => MbOk sp'

/-! ## small facts about the definitions -/

theorem startSpec_zero (sp : SpecSt) : startSpec 0 sp = sp := rfl

theorem startSpec_state {cls : Nat} (h : cls ≠ 0) (sp : SpecSt) : (startSpec cls sp).state = 0 := by
  unfold startSpec; rw [if_neg h]; split <;> rfl

theorem startSpec_reps {cls : Nat} (h : cls ≠ 0) (sp : SpecSt) :
    (startSpec cls sp).rep0 = 0 ∧ (startSpec cls sp).rep1 = 0 ∧ (startSpec cls sp).rep2 = 0 ∧
    (startSpec cls sp).rep3 = 0 := by
  unfold startSpec; rw [if_neg h]; split <;> exact ⟨rfl, rfl, rfl, rfl⟩

theorem startSpec_hist (cls : Nat) (sp : SpecSt) :
    (startSpec cls sp).hist = if cls = 3 then #[] else sp.hist := by
  unfold startSpec
  by_cases h0 : cls = 0
  · subst h0; rfl
  · rw [if_neg h0]; split <;> rfl

theorem startEnc_spec (cls : Nat) (props : Props) (es : EncSt) :
    (startEnc cls props es).spec = startSpec cls es.spec := by
  unfold startEnc; split
  · rename_i h; subst h; rfl
  · rfl

/-- after a full reset (`cls = 3`) the chunk starts like a `.lzma` stream … -/
theorem startEnc_three (props : Props) (es : EncSt) : startEnc 3 props es = EncSt.new props := rfl

/-- … and its payload is exactly the reference `.lzma` payload `encodeSyms` of `LzmaSpec` -/
theorem encPayload_fresh (props : Props) (prog : List Sym) :
    (encPayload (EncSt.new props) prog).1.out.toList = encodeSyms props dictLim prog := by
  unfold encPayload encodeSyms
  simp only [bind_run]
  rcases encodeProg dictLim prog (EncSt.new props) {} {} with ⟨s1, x | ⟨s, e⟩⟩
  · rfl
  · simp only
    rcases e.finish s1 with ⟨s2, x | e2⟩ <;> rfl

/-! ## coupling between the decoder state and the encoder state, between chunks -/

/-- `DecEnc` without the window: what survives from chunk to chunk -/
structure Coupled (st : DState) (es : EncSt) : Prop where
  probs : st.probs = es.probs
  props : st.props = es.props
  state : st.state = es.spec.state
  rep0 : st.rep0 = es.spec.rep0
  rep1 : st.rep1 = es.spec.rep1
  rep2 : st.rep2 = es.spec.rep2
  rep3 : st.rep3 = es.spec.rep3
  dinv : Safety.DStateInv st
  pbuf : st.partialBuf = []
  pok : ProbsOk es.probs
  lclp : es.props.lc + es.props.lp ≤ 4
  lim : es.spec.state ≥ 7 → es.spec.rep0 + 1 ≤ dictLim

theorem Coupled.propsOk {st : DState} {es : EncSt} (h : Coupled st es) : Safety.PropsOk es.props :=
  ⟨by have := h.lclp; omega, by have := h.lclp; omega, h.props ▸ h.dinv.pb⟩

theorem Coupled.litsz {st : DState} {es : EncSt} (h : Coupled st es) :
    es.probs.lit.size = (1 <<< (es.props.lc + es.props.lp)) * 0x300 := by
  rw [← h.probs, ← h.props, ← h.dinv.rows]
  exact h.dinv.probs.lit.1

/-- the reference encoder does not fail from a coupled state -/
theorem Coupled.encode_total {st : DState} {es : EncSt} (h : Coupled st es) {prog : List Sym}
    {sp' : SpecSt} {b : Bool} (hrun : SpecSt.run dictLim es.spec prog = some (sp', b)) :
    ∃ snkF probsF eF snkB e2,
      encodeEvents (progEvents dictLim es.props es.spec prog) es.probs {} {} =
        (snkF, .ok (probsF, eF)) ∧
      eF.finish snkF = (snkB, .ok e2) := by
  refine encodeEvents_total _ es.probs {} {} rfl eok_fresh h.pok ?_
  intro i bit hm
  have hst : es.spec.state < 12 := by rw [← h.state]; exact h.dinv.state
  have hv := progEvents_valid (dict := dictLim) h.propsOk prog es.spec hst
    (run_rawOk prog _ _ _ hrun) i bit hm
  have hinv : Safety.ProbsInv es.probs := h.probs ▸ h.dinv.probs
  have hrows : es.probs.litRows = 1 <<< (es.props.lc + es.props.lp) := by
    rw [← h.probs, ← h.props]; exact h.dinv.rows
  rw [← hrows] at hv
  obtain ⟨v, hg, -⟩ := Safety.Probs.get_safe hinv hv
  exact ⟨v, hg⟩

/-- `encPayload` in terms of the flattened events -/
theorem encPayload_eq {es : EncSt} {prog : List Sym} {sp' : SpecSt} {b : Bool}
    (hrun : SpecSt.run dictLim es.spec prog = some (sp', b))
    {snkF snkB : Sink} {probsF : Probs} {eF e2 : REnc}
    (henc : encodeEvents (progEvents dictLim es.props es.spec prog) es.probs {} {} =
      (snkF, .ok (probsF, eF)))
    (hfin : eF.finish snkF = (snkB, .ok e2)) :
    encPayload es prog = (snkB, .ok { es with probs := probsF, spec := sp' }) := by
  unfold encPayload
  rw [bind_run, encodeProg_eq, henc]
  simp only [bind_run, hfin, pure_run, progSpec_of_run prog _ _ _ hrun]

/-! ## the symbol loop with any sufficient fuel -/

/-- a successful Finish-mode run is what the loop computes with any sufficient fuel, and the
decoder state keeps its invariant -/
theorem finishRun_loop {c c' : Cfg Accum} {n : Nat} {x : Exit} (h : FinishRun c n x c')
    (hp : c.s.partialBuf = []) (hs : Safety.DStateInv c.s) (hw : Safety.AccumInv c.w)
    (hrc : Safety.RCInv c.rc) (fuel : Nat)
    (hf : (c.rd.rem.length + c.s.partialBuf.length) * 4294967296 + c.rc.range < fuel) :
    processLoop .finish fuel c.s c.w c.rc c.rd c.snk = (c'.snk, .ok (c'.s, c'.w, c'.rc, c'.rd)) ∧
      Safety.DStateInv c'.s := by
  have hsafe := Safety.processLoop_safe .finish fuel c.s c.w c.rc c.rd hs hw hrc hf c.snk
  have hloop := h.loop_ok_of_ne_fuel hp fuel hsafe.ne_fuel
  refine ⟨hloop, ?_⟩
  rw [hloop] at hsafe
  exact hsafe.1

/-! ## the payload of one compressed chunk -/

/-- **One payload.**  From ANY coupled coder state `st0`/`es0`, with the accumulating window
holding the history `es0.spec.hist`, for every program (no end marker) that is well-formed from
there: the reference encoder produces a payload (at least the 5 flush bytes), `RangeDecoder::new`
accepts it, and `process_mode(Finish)` with the size in effect set to the length the history
reaches decodes exactly the program: the window then holds the spec's history, the range decoder
ends with `code = 0` and the payload reader is exhausted, the sink is untouched, and the coder
states are coupled again. -/
theorem payload_exec {st0 : DState} {es0 : EncSt} {a0 : Accum} (k0 : Sink) {prog : List Sym}
    {sp' : SpecSt} (hc : Coupled st0 es0) (ha : AccumInv a0 es0.spec.hist.toList)
    (hm : a0.memlimit = USIZE_MAX) (hmb : MbOk es0.spec)
    (hrun : SpecSt.run dictLim es0.spec prog = some (sp', false))
    (hfit : sp'.hist.size ≤ USIZE_MAX) :
    ∃ snkB probsF, encPayload es0 prog = (snkB, .ok { es0 with probs := probsF, spec := sp' }) ∧
      5 ≤ snkB.out.toList.length ∧
      ∃ rc tk st1 a1 rc1 tk1, RC.new (Rd.ofBytes snkB.out.toList) = .ok (rc, tk) ∧
        (st0.setUnpackedSize (some sp'.hist.size)).processMode .finish a0 rc tk k0 =
          (k0, .ok (st1, a1, rc1, tk1)) ∧
        rc1.code = 0 ∧ tk1.rem = [] ∧ tk1.bad = false ∧
        Coupled st1 { es0 with probs := probsF, spec := sp' } ∧
        AccumInv a1 sp'.hist.toList ∧ a1.memlimit = USIZE_MAX ∧ MbOk sp' := by
  -- the encoder
  obtain ⟨snkF, probsF, eF, snkB, e2, henc, hfin⟩ := hc.encode_total hrun
  have hpay := encPayload_eq hrun henc hfin
  obtain ⟨P, hP, hinit⟩ := rc_roundtrip_init (snk0 := {}) rfl hc.pok henc hfin
  have hP' : snkB.out.toList = P := by simpa using hP
  have hcount := encoder_byte_count (snk0 := {}) rfl hc.pok henc hfin
  obtain ⟨rc, tk, hnew, hbad, hsim⟩ := hinit [] false
  rw [List.append_nil] at hnew
  refine ⟨snkB, probsF, hpay, by rw [hcount]; simp, ?_⟩
  -- the symbol loop
  have hde : DecEnc (accumModel USIZE_MAX dictLim k0) (st0.setUnpackedSize (some sp'.hist.size))
      a0 k0 es0 :=
    { probs := hc.probs, props := hc.props, state := hc.state, rep0 := hc.rep0, rep1 := hc.rep1,
      rep2 := hc.rep2, rep3 := hc.rep3, lc := by have := hc.lclp; omega, litsz := hc.litsz,
      pok := hc.pok, win := ⟨ha, hm, rfl⟩, mb := fun h => ⟨hmb h, hc.lim h⟩ }
  have henc' : encodeEvents (progEvents dictLim es0.props es0.spec prog ++ []) es0.probs {} {} =
      (snkF, .ok (probsF, eF)) := by rw [List.append_nil]; exact henc
  obtain ⟨s', w', k', probs', e', esnk', rc', rd', hsteps, hinv', hs', hsim', hencE, hbad', hpb', hu'⟩ :=
    decode_prog (M := accumModel USIZE_MAX dictLim k0) (dict := dictLim) (Nat.le_refl _) hfin []
      prog (st0.setUnpackedSize (some sp'.hist.size)) a0 k0 es0 {} {} rc tk sp' hde hrun hfit hc.pbuf
      hbad (.inl ⟨sp'.hist.size, rfl, Nat.le_refl _⟩) rfl hsim henc'
  obtain ⟨hrem, hcode, hprobs⟩ := rc_roundtrip_final hs' hinv'.pok hsim' hencE hfin
  subst hprobs
  obtain ⟨hacc', hmem', hk'⟩ := hinv'.win
  subst hk'
  have hlen : w'.len = sp'.hist.size := by rw [hacc'.2, Array.length_toList]
  have hexit : FinishRun (⟨s', w', rc', rd', k'⟩ : Cfg Accum) 0 .sizeReached ⟨s', w', rc', rd', k'⟩ :=
    .sizeReached (n := sp'.hist.size) (by show s'.unpackedSize = _; rw [hu']; rfl)
      (by show sp'.hist.size ≤ w'.len; omega)
  have hrunAll := hsteps.append_run hexit
  -- fuel and invariants
  have hrci : Safety.RCInv rc := by
    have := Safety.RC_new_safe { rem := P, bad := false }
    rw [hnew] at this
    exact this.1
  have hsi : Safety.DStateInv (st0.setUnpackedSize (some sp'.hist.size)) :=
    Safety.setUnpackedSize_inv hc.dinv _
  have hw : Safety.AccumInv a0 := by
    show a0.buf.size = a0.len
    rw [ha.2, ← Array.length_toList, ha.1]
  obtain ⟨hloop, hsi'⟩ := finishRun_loop hrunAll hc.pbuf hsi hw hrci
    (loopFuel (st0.setUnpackedSize (some sp'.hist.size)) tk) (Safety.loopFuel_suffices tk hrci)
  have hmode : (st0.setUnpackedSize (some sp'.hist.size)).processMode .finish a0 rc tk k' =
      (k', .ok (s', w', rc', rd')) := by
    refine processMode_ok_iff.2 ⟨hloop, ?_⟩
    intro n hn _
    cases hn
    exact hlen
  refine ⟨rc, tk, s', w', rc', rd', by rw [hP']; exact hnew, hmode, hcode, hrem, hbad', ?_, hacc',
    hmem', fun h => (hinv'.mb h).1⟩
  exact
    { probs := hinv'.probs, props := hinv'.props, state := hinv'.state, rep0 := hinv'.rep0,
      rep1 := hinv'.rep1, rep2 := hinv'.rep2, rep3 := hinv'.rep3, dinv := hsi', pbuf := hpb',
      pok := hinv'.pok, lclp := hc.lclp, lim := fun h => (hinv'.mb h).2 }

end L2E
end Lzma
