/-
  Lemmas about the LZ windows of `LzmaModel/Window.lean`
  (`Circ` = Rust `LzCircularBuffer`, `Accum` = Rust `LzAccumBuffer`).

  Ghost state: the *history* `H : Bytes` = every byte appended so far.
  `CircInv w H` ties the concrete circular window to `H`; all operations are
  then characterised as functions of `H` alone (plus `dictSize`/`memlimit`).
  Properties C09/C10 (`LzmaProofs/Props/C09.lean`, `C10.lean`) are restatements
  of the theorems proved here.
-/
import LzmaProofs.Lemmas.Monad
namespace Lzma

/-! ## Arithmetic with a variable modulus -/

theorem mod_ne_of_lt_lt {p L d : Nat} (h1 : p < L) (h2 : L < p + d) : p % d ≠ L % d := by
  intro h
  have := Nat.sub_mod_eq_zero_of_mod_eq h.symm
  rw [Nat.mod_eq_of_lt (by omega)] at this
  omega

theorem succ_mod_eq {L d : Nat} (hd : 0 < d) :
    (L + 1) % d = if L % d + 1 = d then 0 else L % d + 1 := by
  have h := Nat.div_add_mod L d
  have hlt := Nat.mod_lt L hd
  split
  · next he =>
    have : L + 1 = d * (L / d + 1) := by rw [Nat.mul_add]; omega
    rw [this]; simp
  · next hne =>
    have : L + 1 = d * (L / d) + (L % d + 1) := by omega
    rw [this, Nat.mul_add_mod, Nat.mod_eq_of_lt (by omega)]

theorem succ_div_eq {L d : Nat} (hd : 0 < d) :
    (L + 1) / d = L / d + if L % d + 1 = d then 1 else 0 := by
  rw [Nat.succ_div]
  have := succ_mod_eq (L := L) hd
  have hlt := Nat.mod_lt L hd
  congr 1
  by_cases he : L % d + 1 = d
  · rw [if_pos he] at this; rw [if_pos he, if_pos (Nat.dvd_of_mod_eq_zero this)]
  · rw [if_neg he] at this
    rw [if_neg he, if_neg]
    intro hdvd
    have := Nat.mod_eq_zero_of_dvd hdvd
    omega

/-- the read offset computed by `lastN`/`appendLz` is the residue of the absolute position -/
theorem offset_eq {L d dist : Nat} (h1 : dist ≤ d) (h2 : dist ≤ L) :
    (d + L % d - dist) % d = (L - dist) % d := by
  have h := Nat.div_add_mod L d
  have e : L - dist + d = d * (L / d) + (d + L % d - dist) := by omega
  rw [← Nat.add_mod_right (L - dist) d, e, Nat.mul_add_mod]

theorem base_add_mod {base d i : Nat} (hb : d ∣ base) (hi : i < d) : (base + i) % d = i := by
  obtain ⟨k, rfl⟩ := hb
  rw [Nat.mul_add_mod, Nat.mod_eq_of_lt hi]

/-- number of bytes already handed to the sink by full-lap flushes -/
def flushedLen (d L : Nat) : Nat := L - L % d

theorem flushedLen_eq (d L : Nat) : flushedLen d L = d * (L / d) := by
  have := Nat.div_add_mod L d
  unfold flushedLen; omega

theorem dvd_flushedLen (d L : Nat) : d ∣ flushedLen d L := ⟨L / d, flushedLen_eq d L⟩

theorem flushedLen_le (d L : Nat) : flushedLen d L ≤ L := by unfold flushedLen; omega

theorem flushedLen_mono {d L L' : Nat} (h : L ≤ L') : flushedLen d L ≤ flushedLen d L' := by
  rw [flushedLen_eq, flushedLen_eq]
  exact Nat.mul_le_mul_left d (Nat.div_le_div_right h)

theorem flushedLen_succ {d L : Nat} (hd : 0 < d) :
    flushedLen d (L + 1) = if (L + 1) % d = 0 then L + 1 else flushedLen d L := by
  have hm := succ_mod_eq (L := L) hd
  have hlt := Nat.mod_lt L hd
  unfold flushedLen
  by_cases he : L % d + 1 = d
  · rw [if_pos he] at hm; rw [if_pos hm, hm]; rfl
  · rw [if_neg he] at hm; rw [if_neg (by omega), hm]; omega

/-! ## Definitions -/

/-- The format's meaning of a match `(dist, len)`: append, `len` times, the byte at distance
`dist` from the current end (overlap allowed).  Meaningful for `1 ≤ dist ≤ H.length`. -/
def lzCopy (H : Bytes) (dist : Nat) : Nat → Bytes
  | 0 => []
  | n+1 =>
    let x := H[H.length - dist]?.getD 0
    x :: lzCopy (H ++ [x]) dist n

/-- every raw call on the sink accepts everything -/
def Sink.Perfect (s : Sink) : Prop := s.script = []

instance (s : Sink) : Decidable s.Perfect := inferInstanceAs (Decidable (s.script = []))

/-- content of the cells: every one of the last `d` positions of the history sits in the cell
given by its residue -/
def Cells (buf : Array UInt8) (d : Nat) (H : Bytes) : Prop :=
  ∀ p, p < H.length → H.length ≤ p + d → buf[p % d]? = H[p]?

/-- The concrete circular window `w` represents the history `H`. -/
structure CircInv (w : Circ) (H : Bytes) : Prop where
  dict_pos : 0 < w.dictSize
  len_eq : w.len = H.length
  cursor_eq : w.cursor = H.length % w.dictSize
  size_eq : w.buf.size = min H.length w.dictSize
  size_le : w.buf.size ≤ w.memlimit
  cells : Cells w.buf w.dictSize H

/-- the last position `p < L` with `p % d = i` (for `i < min L d`) -/
def lastPos (L d i : Nat) : Nat :=
  if i < L % d then L - L % d + i else L - L % d - d + i

/-- The sink after the window went from history `H` to the longer history `H'`:
one raw `write` per completed lap, carrying exactly the bytes of that lap. -/
def Sink.after (s : Sink) (d : Nat) (H H' : Bytes) : Sink :=
  { s with
    out := s.out ++ ((H'.take (flushedLen d H'.length)).drop (flushedLen d H.length)).toArray
    writes := s.writes + (H'.length / d - H.length / d)
    lastFlush := s.lastFlush && decide (H'.length / d = H.length / d) }

/-- window operations issued by the symbol decoder -/
inductive WinOp where
  | lit (b : UInt8)
  | lz (len dist : Nat)
  deriving Repr, DecidableEq

/-- bytes an operation produces when it is accepted -/
def WinOp.outLen : WinOp → Nat
  | .lit _ => 1
  | .lz len _ => len

def Circ.runOps : List WinOp → Circ → M Circ
  | [], w => pure w
  | .lit b :: r, w => do
    let w ← w.appendLiteral b
    runOps r w
  | .lz len dist :: r, w => do
    let w ← w.appendLz len dist
    runOps r w

/-- ideal semantics on plain lists: the only way to fail is a match reaching outside the
produced history or the dictionary -/
def idealOps (d : Nat) : List WinOp → Bytes → Option Bytes
  | [], H => some H
  | .lit b :: r, H => idealOps d r (H ++ [b])
  | .lz len dist :: r, H =>
    if 1 ≤ dist ∧ dist ≤ min H.length d then idealOps d r (H ++ lzCopy H dist len) else none

/-- the history produced up to the end, or up to the first op `idealOps` rejects -/
def idealPrefix (d : Nat) : List WinOp → Bytes → Bytes
  | [], H => H
  | .lit b :: r, H => idealPrefix d r (H ++ [b])
  | .lz len dist :: r, H =>
    if 1 ≤ dist ∧ dist ≤ min H.length d then idealPrefix d r (H ++ lzCopy H dist len) else H

/-- IdealWin semantics with the memory limit: an op that produces at least one byte also needs
`min (new length) d ≤ m`.  Returns the history reached (at the end, or just before the first
rejected op) and whether every op was accepted. -/
def idealRunM (d m : Nat) : List WinOp → Bytes → Bytes × Bool
  | [], H => (H, true)
  | .lit b :: r, H =>
    if min (H.length + 1) d ≤ m then idealRunM d m r (H ++ [b]) else (H, false)
  | .lz len dist :: r, H =>
    if 1 ≤ dist ∧ dist ≤ min H.length d ∧ (len = 0 ∨ min (H.length + len) d ≤ m) then
      idealRunM d m r (H ++ lzCopy H dist len)
    else (H, false)

/-- the symbol decoder only issues matches with `dist = rep0 + 1 ≥ 1` -/
def WinOp.Valid : WinOp → Prop
  | .lit _ => True
  | .lz _ dist => 1 ≤ dist

instance : DecidablePred WinOp.Valid := fun op => by
  cases op <;> simp only [WinOp.Valid] <;> infer_instance

/-- The accumulating window `w` represents the history `H` since the last `reset`. -/
def AccumInv (w : Accum) (H : Bytes) : Prop := w.buf.toList = H ∧ w.len = H.length

/-! ## `lzCopy` -/

@[simp] theorem lzCopy_zero (H : Bytes) (dist : Nat) : lzCopy H dist 0 = [] := rfl

theorem lzCopy_succ (H : Bytes) (dist n : Nat) :
    lzCopy H dist (n + 1) =
      H[H.length - dist]?.getD 0 :: lzCopy (H ++ [H[H.length - dist]?.getD 0]) dist n := rfl

@[simp] theorem length_lzCopy (H : Bytes) (dist n : Nat) : (lzCopy H dist n).length = n := by
  induction n generalizing H with
  | zero => rfl
  | succ n ih => simp [lzCopy_succ, ih]

theorem append_lzCopy_succ (H : Bytes) (dist n : Nat) :
    H ++ lzCopy H dist (n + 1) =
      (H ++ [H[H.length - dist]?.getD 0]) ++ lzCopy (H ++ [H[H.length - dist]?.getD 0]) dist n := by
  simp [lzCopy_succ]

/-- closed form: a copy repeats the last `dist` bytes of the history periodically -/
theorem getElem?_lzCopy {H : Bytes} {dist n i : Nat} (h1 : 1 ≤ dist) (h2 : dist ≤ H.length)
    (hi : i < n) : (lzCopy H dist n)[i]? = H[H.length - dist + i % dist]? := by
  induction n generalizing H i with
  | zero => omega
  | succ n ih =>
    rw [lzCopy_succ]
    have hx : H[H.length - dist]?.getD 0 = H[H.length - dist]'(by omega) := by
      rw [List.getElem?_eq_getElem (by omega)]; rfl
    cases i with
    | zero => simp [Nat.zero_mod]; rw [List.getElem?_eq_getElem (by omega)]; rfl
    | succ i =>
      rw [List.getElem?_cons_succ, ih (by simp; omega) (by omega)]
      have hlt := Nat.mod_lt i (show 0 < dist by omega)
      have hm := succ_mod_eq (L := i) (show 0 < dist by omega)
      simp only [List.length_append, List.length_cons, List.length_nil]
      by_cases he : i % dist + 1 = dist
      · rw [if_pos he] at hm
        rw [hm, List.getElem?_append_right (by omega)]
        have : H.length + (0 + 1) - dist + i % dist - H.length = 0 := by omega
        rw [this, Nat.add_zero, hx]; simp
      · rw [if_neg he] at hm
        rw [hm, List.getElem?_append_left (by omega)]
        congr 1; omega

/-! ## Cells -/

theorem Cells.snoc {buf buf' : Array UInt8} {d : Nat} {H : Bytes} {b : UInt8} (hc : Cells buf d H)
    (hb : ∀ j, buf'[j]? = if j = H.length % d then some b else buf[j]?) :
    Cells buf' d (H ++ [b]) := by
  intro p hp hw
  simp only [List.length_append, List.length_cons, List.length_nil] at hp hw
  rw [hb]
  by_cases hpl : p = H.length
  · subst hpl; simp
  · rw [if_neg (mod_ne_of_lt_lt (by omega) (by omega)), hc p (by omega) (by omega),
      List.getElem?_append_left (by omega)]

/-- the cells `0 .. k-1` hold the bytes from the last lap boundary `base` on -/
theorem Cells.window {buf : Array UInt8} {d : Nat} {H : Bytes} {base : Nat}
    (hc : Cells buf d H) (hb : d ∣ base) (h1 : base ≤ H.length) (h2 : H.length ≤ base + d) :
    buf.toList.take (H.length - base) = H.drop base := by
  apply List.ext_getElem?
  intro i
  rw [List.getElem?_take, List.getElem?_drop]
  by_cases hi : i < H.length - base
  · rw [if_pos hi, Array.getElem?_toList, ← hc (base + i) (by omega) (by omega),
      base_add_mod hb (by omega)]
  · rw [if_neg hi, List.getElem?_eq_none (by omega)]

/-! ## `Circ`: construction, `set`, `appendLiteral` -/

theorem Circ.fromStream_inv {d : Nat} (m : Nat) (hd : 0 < d) : CircInv (Circ.fromStream d m) [] where
  dict_pos := hd
  len_eq := rfl
  cursor_eq := by simp [Circ.fromStream]
  size_eq := by simp [Circ.fromStream]
  size_le := by simp [Circ.fromStream]
  cells := by intro p hp; simp at hp

theorem CircInv.cursor_lt {w : Circ} {H : Bytes} (h : CircInv w H) : w.cursor < w.dictSize := by
  rw [h.cursor_eq]; exact Nat.mod_lt _ h.dict_pos

/-- below one lap the cursor is the length; from one lap on the buffer is full -/
theorem CircInv.cases {w : Circ} {H : Bytes} (h : CircInv w H) :
    (H.length < w.dictSize ∧ w.cursor = H.length ∧ w.buf.size = H.length) ∨
    (w.dictSize ≤ H.length ∧ w.buf.size = w.dictSize) := by
  have h1 := h.cursor_eq
  have h2 := h.size_eq
  by_cases hl : H.length < w.dictSize
  · left; rw [Nat.mod_eq_of_lt hl] at h1; omega
  · right; omega

theorem Circ.set_ok {w : Circ} {H : Bytes} (b : UInt8) (h : CircInv w H)
    (hm : min (H.length + 1) w.dictSize ≤ w.memlimit) :
    ∃ buf', w.set w.cursor b = .ok { w with buf := buf' } ∧
      buf'.size = min (H.length + 1) w.dictSize ∧
      ∀ j, buf'[j]? = if j = w.cursor then some b else w.buf[j]? := by
  have hc := h.cursor_lt
  unfold Circ.set
  rcases h.cases with ⟨hl, hcur, hsz⟩ | ⟨hl, hsz⟩
  · simp only [show w.buf.size < w.cursor + 1 by omega, if_true,
      show w.cursor + 1 ≤ w.memlimit by omega]
    refine ⟨_, rfl, ?_, ?_⟩
    · simp; omega
    · intro j
      rw [Array.getElem?_setIfInBounds, Array.getElem?_append, Array.getElem?_replicate]
      simp only [Array.size_append, Array.size_replicate]
      by_cases hj : j = w.cursor
      · subst hj; simp; omega
      · have : ¬ w.cursor = j := fun e => hj e.symm
        simp only [if_neg hj, if_neg this]
        by_cases hj2 : j < w.buf.size
        · simp [hj2]
        · rw [if_neg hj2, if_neg (by omega), Array.getElem?_eq_none (by omega)]
  · simp only [show ¬ w.buf.size < w.cursor + 1 by omega, if_false]
    refine ⟨_, rfl, ?_, ?_⟩
    · simp; omega
    · intro j
      rw [Array.getElem?_setIfInBounds]
      by_cases hj : j = w.cursor
      · subst hj; simp; omega
      · have : ¬ w.cursor = j := fun e => hj e.symm
        simp only [if_neg hj, if_neg this]

theorem Circ.set_fail {w : Circ} {H : Bytes} (b : UInt8) (h : CircInv w H)
    (hm : ¬ min (H.length + 1) w.dictSize ≤ w.memlimit) :
    w.set w.cursor b = .error .lzma := by
  have hc := h.cursor_lt
  unfold Circ.set
  rcases h.cases with ⟨hl, hcur, hsz⟩ | ⟨hl, hsz⟩
  · simp only [show w.buf.size < w.cursor + 1 by omega, if_true,
      show ¬ w.cursor + 1 ≤ w.memlimit by omega, if_false]
  · have := h.size_le; omega

theorem Sink.ext' {s t : Sink} (h1 : s.out = t.out) (h2 : s.script = t.script)
    (h3 : s.writes = t.writes) (h4 : s.flushes = t.flushes) (h5 : s.lastFlush = t.lastFlush) :
    s = t := by
  cases s; cases t; simp_all

theorem Sink.after_perfect {s : Sink} {d : Nat} {H H' : Bytes} (h : s.Perfect) :
    (s.after d H H').Perfect := h

/-- one appended byte: the sink changes iff a lap is completed, and then receives that lap -/
theorem Sink.after_snoc (s : Sink) {d : Nat} (hd : 0 < d) (H : Bytes) (b : UInt8) :
    s.after d H (H ++ [b]) =
      if (H.length + 1) % d = 0 then
        { s with out := s.out ++ ((H ++ [b]).drop (H.length + 1 - d)).toArray,
                 writes := s.writes + 1, lastFlush := false }
      else s := by
  have hm := succ_mod_eq (L := H.length) hd
  have hdv := succ_div_eq (L := H.length) hd
  have hf := flushedLen_succ (L := H.length) hd
  have hlt := Nat.mod_lt H.length hd
  unfold Sink.after
  simp only [List.length_append, List.length_cons, List.length_nil, Nat.zero_add]
  by_cases he : H.length % d + 1 = d
  · rw [if_pos he] at hm hdv
    rw [if_pos hm] at hf
    rw [if_pos hm, hf, hdv]
    apply Sink.ext' <;> simp
    rw [List.take_of_length_le (by simp)]
    have : flushedLen d H.length = H.length + 1 - d := by unfold flushedLen; omega
    rw [this]
  · rw [if_neg he] at hm hdv
    rw [if_neg (by omega)] at hf
    rw [if_neg (by omega), hf, hdv]
    apply Sink.ext' <;> simp

theorem Circ.appendLiteral_ok {w : Circ} {H : Bytes} {s : Sink} (b : UInt8) (h : CircInv w H)
    (hs : s.Perfect) (hm : min (H.length + 1) w.dictSize ≤ w.memlimit) :
    ∃ w', w.appendLiteral b s = (s.after w.dictSize H (H ++ [b]), .ok w') ∧
      CircInv w' (H ++ [b]) ∧ w'.dictSize = w.dictSize ∧ w'.memlimit = w.memlimit := by
  obtain ⟨buf', hset, hsz, hget⟩ := Circ.set_ok b h hm
  have hd := h.dict_pos
  have hcells : Cells buf' w.dictSize (H ++ [b]) :=
    h.cells.snoc (by rw [← h.cursor_eq]; exact hget)
  have hmod := succ_mod_eq (L := H.length) hd
  have hcl := h.cursor_lt
  rw [Sink.after_snoc s hd]
  unfold Circ.appendLiteral
  rw [hset]
  by_cases he : w.cursor + 1 = w.dictSize
  · have he' : H.length % w.dictSize + 1 = w.dictSize := by rw [← h.cursor_eq]; exact he
    rw [if_pos he'] at hmod
    have hfull : buf'.size = w.dictSize := by
      rw [hsz]
      have := Nat.mod_le H.length w.dictSize
      omega
    have hwin := hcells.window (base := H.length + 1 - w.dictSize)
      (by
        have := dvd_flushedLen w.dictSize (H.length + 1)
        unfold flushedLen at this
        rw [hmod] at this
        have hle := Nat.mod_le H.length w.dictSize
        obtain ⟨k, hk⟩ := this
        exact ⟨k - 1, by rw [Nat.mul_sub, ← hk]; omega⟩)
      (by simp) (by simp; have := Nat.mod_le H.length w.dictSize; omega)
    have hlist : buf'.toList = (H ++ [b]).drop (H.length + 1 - w.dictSize) := by
      rw [← hwin, List.take_of_length_le]
      simp; have := Nat.mod_le H.length w.dictSize; omega
    refine ⟨{ w with buf := buf', cursor := 0, len := w.len + 1 }, ?_, ?_, rfl, rfl⟩
    · simp only [bind_run, liftE_ok, he, if_true, if_pos hmod]
      have hne : buf'.isEmpty = false := by
        rw [Array.isEmpty_eq_false_iff]; intro h0; rw [h0] at hfull; simp at hfull; omega
      have hs' : s.script = [] := hs
      simp [writeAll, hne, hs', ← hlist]
    · exact {
        dict_pos := hd
        len_eq := by simp [h.len_eq]
        cursor_eq := by simp [hmod]
        size_eq := by simpa using hsz
        size_le := by simp only [hsz]; simpa using hm
        cells := hcells }
  · have he' : ¬ H.length % w.dictSize + 1 = w.dictSize := by rw [← h.cursor_eq]; exact he
    rw [if_neg he'] at hmod
    refine ⟨{ w with buf := buf', cursor := w.cursor + 1, len := w.len + 1 }, ?_, ?_, rfl, rfl⟩
    · simp only [bind_run, liftE_ok, he, if_false, pure_run]
      rw [if_neg (by omega)]
    · exact {
        dict_pos := hd
        len_eq := by simp [h.len_eq]
        cursor_eq := by simp [hmod, h.cursor_eq]
        size_eq := by simpa using hsz
        size_le := by simp only [hsz]; simpa using hm
        cells := hcells }

theorem Circ.appendLiteral_fail {w : Circ} {H : Bytes} (s : Sink) (b : UInt8) (h : CircInv w H)
    (hm : ¬ min (H.length + 1) w.dictSize ≤ w.memlimit) :
    w.appendLiteral b s = (s, .error .lzma) := by
  unfold Circ.appendLiteral
  rw [Circ.set_fail b h hm]
  rfl

/-! ## Reads: `offsetOf`, `get`, `lastN`, `lastOr` -/

/-- For a distance passing the guard, the offset is computed without panic, is in bounds of the
allocated buffer, and the cell holds the byte of the history at that distance: neither the
`unwrap_or(&0)` default nor a stale cell of an earlier lap is observed. -/
theorem Circ.offsetOf_get {w : Circ} {H : Bytes} {dist : Nat} (h : CircInv w H) (h1 : 1 ≤ dist)
    (h2 : dist ≤ w.dictSize) (h3 : dist ≤ H.length) :
    w.offsetOf dist = .ok ((H.length - dist) % w.dictSize) ∧
      (H.length - dist) % w.dictSize < w.buf.size ∧
      w.buf[(H.length - dist) % w.dictSize]? = some (H[H.length - dist]'(by omega)) := by
  have hd := h.dict_pos
  have hcell := h.cells (H.length - dist) (by omega) (by omega)
  rw [List.getElem?_eq_getElem (by omega)] at hcell
  refine ⟨?_, ?_, hcell⟩
  · unfold Circ.offsetOf subChk
    rw [if_pos (by omega)]
    simp only [bind, Except.bind, if_neg (Nat.ne_of_gt hd)]
    rw [h.cursor_eq, offset_eq h2 h3]; rfl
  · by_cases hlt : (H.length - dist) % w.dictSize < w.buf.size
    · exact hlt
    · rw [Array.getElem?_eq_none (by omega)] at hcell
      cases hcell

theorem Circ.get_eq {w : Circ} {H : Bytes} {dist : Nat} (h : CircInv w H) (h1 : 1 ≤ dist)
    (h2 : dist ≤ w.dictSize) (h3 : dist ≤ H.length) :
    w.get ((H.length - dist) % w.dictSize) = H[H.length - dist]'(by omega) := by
  unfold Circ.get
  rw [(Circ.offsetOf_get h h1 h2 h3).2.2]; rfl

theorem Circ.lastN_spec {w : Circ} {H : Bytes} {dist : Nat} (h : CircInv w H) (h1 : 1 ≤ dist) :
    w.lastN dist =
      if hg : dist ≤ w.dictSize ∧ dist ≤ H.length then .ok (H[H.length - dist]'(by omega))
      else .error .lzma := by
  unfold Circ.lastN
  rw [h.len_eq]
  by_cases h2 : dist > w.dictSize
  · rw [if_pos h2, dif_neg (by omega)]
  · rw [if_neg h2]
    by_cases h3 : dist > H.length
    · rw [if_pos h3, dif_neg (by omega)]
    · rw [if_neg h3, dif_pos ⟨by omega, by omega⟩,
        (Circ.offsetOf_get h h1 (by omega) (by omega)).1]
      simp only [bind, Except.bind]
      rw [Circ.get_eq h h1 (by omega) (by omega)]; rfl

theorem Circ.lastOr_spec {w : Circ} {H : Bytes} (b : UInt8) (h : CircInv w H) :
    w.lastOr b = .ok (H.getLast?.getD b) := by
  unfold Circ.lastOr
  rw [h.len_eq]
  by_cases h0 : H.length = 0
  · rw [if_pos h0]
    have : H = [] := List.eq_nil_of_length_eq_zero h0
    subst this; rfl
  · have hd := h.dict_pos
    rw [if_neg h0, (Circ.offsetOf_get h (Nat.le_refl 1) hd (by omega)).1]
    simp only [bind, Except.bind]
    rw [Circ.get_eq h (Nat.le_refl 1) hd (by omega), List.getLast?_eq_getElem?,
      List.getElem?_eq_getElem (by omega)]; rfl

/-- `dist = 0` is NOT rejected by the window (the symbol decoder never issues it: it always
passes `rep0 + 1`): the cell under the cursor is read, i.e. the byte `dictSize` back if a full
lap has been produced, and the `unwrap_or(&0)` default otherwise. -/
theorem Circ.lastN_zero {w : Circ} {H : Bytes} (h : CircInv w H) :
    w.lastN 0 = .ok (if w.dictSize ≤ H.length then H[H.length - w.dictSize]?.getD 0 else 0) := by
  have hd := h.dict_pos
  unfold Circ.lastN Circ.offsetOf subChk Circ.get
  simp only [Nat.not_lt_zero, gt_iff_lt, if_false, Nat.zero_le, if_true, bind, Except.bind,
    Nat.sub_zero, if_neg (Nat.ne_of_gt hd), Nat.add_mod_left, pure, Except.pure]
  rw [Nat.mod_eq_of_lt h.cursor_lt]
  rcases h.cases with ⟨hl, hcur, hsz⟩ | ⟨hl, hsz⟩
  · rw [if_neg (by omega), Array.getElem?_eq_none (by omega)]; rfl
  · rw [if_pos hl]
    have := h.cells (H.length - w.dictSize) (by omega) (by omega)
    have e : (H.length - w.dictSize) % w.dictSize = H.length % w.dictSize := by
      conv => rhs; rw [show H.length = H.length - w.dictSize + w.dictSize by omega]
      rw [Nat.add_mod_right]
    rw [e, ← h.cursor_eq] at this
    rw [this]

/-! ## Composition of sink effects -/

theorem slice_append {α : Type} (X : List α) {a b c : Nat} (hab : a ≤ b) (hbc : b ≤ c)
    (hc : c ≤ X.length) :
    (X.take b).drop a ++ (X.take c).drop b = (X.take c).drop a := by
  have h1 : X.take b = (X.take c).take b := by rw [List.take_take, Nat.min_eq_left hbc]
  rw [h1]
  conv => rhs; rw [← List.take_append_drop b (X.take c)]
  rw [List.drop_append_of_le_length]
  simp; omega

theorem Sink.after_trans (s : Sink) (d : Nat) (H X Y : Bytes) :
    (s.after d H (H ++ X)).after d (H ++ X) (H ++ X ++ Y) = s.after d H (H ++ X ++ Y) := by
  have hm1 : H.length / d ≤ (H.length + X.length) / d := Nat.div_le_div_right (by omega)
  have hm2 : (H.length + X.length) / d ≤ (H.length + X.length + Y.length) / d :=
    Nat.div_le_div_right (by omega)
  have hf1 : flushedLen d H.length ≤ flushedLen d (H ++ X).length := flushedLen_mono (by simp)
  have hf2 : flushedLen d (H ++ X).length ≤ flushedLen d (H ++ X ++ Y).length :=
    flushedLen_mono (by simp)
  have hf3 := flushedLen_le d (H ++ X ++ Y).length
  have hf4 := flushedLen_le d (H ++ X).length
  apply Sink.ext'
  · simp only [Sink.after, Array.append_assoc]
    congr 1
    rw [List.append_toArray]
    congr 1
    rw [← slice_append (H ++ X ++ Y) hf1 hf2 hf3]
    congr 2
    rw [List.take_append_of_le_length (l₂ := Y) hf4]
  · rfl
  · simp only [Sink.after, List.length_append]; omega
  · rfl
  · simp only [Sink.after, Bool.and_assoc, List.length_append]
    congr 1
    by_cases e1 : (H.length + X.length) / d = H.length / d <;>
      by_cases e2 : (H.length + X.length + Y.length) / d = (H.length + X.length) / d <;>
      by_cases e3 : (H.length + X.length + Y.length) / d = H.length / d <;>
      simp only [e1, e2, e3, decide_true, decide_false, Bool.and_self, Bool.and_true,
        Bool.and_false] <;> omega

theorem Sink.after_self (s : Sink) (d : Nat) (H : Bytes) : s.after d H H = s := by
  apply Sink.ext' <;> simp [Sink.after]

/-- below one lap nothing reaches the sink -/
theorem Sink.after_of_lt (s : Sink) {d : Nat} {H H' : Bytes} (h1 : H.length ≤ H'.length)
    (h : H'.length < d) : s.after d H H' = s := by
  have e1 : H'.length / d = 0 := Nat.div_eq_of_lt h
  have e2 : H.length / d = 0 := Nat.div_eq_of_lt (by omega)
  apply Sink.ext' <;> simp [Sink.after, e1, e2, flushedLen_eq]

/-! ## The copy loop and `appendLz` -/

theorem Circ.copyLoop_ok {dist : Nat} (n : Nat) {w : Circ} {H : Bytes} {s : Sink}
    (h : CircInv w H) (hs : s.Perfect) (h1 : 1 ≤ dist) (h2 : dist ≤ w.dictSize)
    (h3 : dist ≤ H.length) (hm : n = 0 ∨ min (H.length + n) w.dictSize ≤ w.memlimit) :
    ∃ w', Circ.copyLoop n w ((H.length - dist) % w.dictSize) s =
        (s.after w.dictSize H (H ++ lzCopy H dist n), .ok w') ∧
      CircInv w' (H ++ lzCopy H dist n) ∧ w'.dictSize = w.dictSize ∧
      w'.memlimit = w.memlimit := by
  induction n generalizing w H s with
  | zero =>
    refine ⟨w, ?_, by simpa using h, rfl, rfl⟩
    simp [Circ.copyLoop, Sink.after_self]
  | succ n ih =>
    have hx : H[H.length - dist]?.getD 0 = H[H.length - dist]'(by omega) := by
      rw [List.getElem?_eq_getElem (by omega)]; rfl
    have hm' : min (H.length + (n + 1)) w.dictSize ≤ w.memlimit := by omega
    obtain ⟨w1, hr1, hi1, hd1, hm1⟩ :=
      Circ.appendLiteral_ok (s := s) (H[H.length - dist]'(by omega)) h hs (by omega)
    have hlen : (H ++ [H[H.length - dist]'(by omega)]).length = H.length + 1 := by simp
    obtain ⟨w2, hr2, hi2, hd2, hm2⟩ :=
      ih (w := w1) (H := H ++ [H[H.length - dist]'(by omega)])
        (s := s.after w.dictSize H (H ++ [H[H.length - dist]'(by omega)])) hi1
        (Sink.after_perfect hs) (by omega) (by rw [hlen]; omega)
        (by rw [hlen, hd1, hm1]; right; omega)
    refine ⟨w2, ?_, ?_, by omega, by omega⟩
    · rw [Circ.copyLoop]
      simp only [bind_run, Circ.get_eq h h1 h2 h3, hr1]
      have hoff : (if (H.length - dist) % w.dictSize + 1 = w1.dictSize then 0
            else (H.length - dist) % w.dictSize + 1) = (H.length + 1 - dist) % w1.dictSize := by
        rw [hd1, show H.length + 1 - dist = (H.length - dist) + 1 by omega,
          succ_mod_eq h.dict_pos]
      rw [hoff]
      rw [hlen] at hr2
      rw [hr2, hd1, append_lzCopy_succ, hx, Sink.after_trans]
    · rw [append_lzCopy_succ, hx]; exact hi2

theorem Circ.copyLoop_fail {dist : Nat} (n : Nat) {w : Circ} {H : Bytes} {s : Sink}
    (h : CircInv w H) (hs : s.Perfect) (h1 : 1 ≤ dist) (h2 : dist ≤ w.dictSize)
    (h3 : dist ≤ H.length) (hm : ¬ (n = 0 ∨ min (H.length + n) w.dictSize ≤ w.memlimit)) :
    Circ.copyLoop n w ((H.length - dist) % w.dictSize) s = (s, .error .lzma) := by
  induction n generalizing w H with
  | zero => omega
  | succ n ih =>
    rw [Circ.copyLoop]
    by_cases hm1 : min (H.length + 1) w.dictSize ≤ w.memlimit
    · obtain ⟨w1, hr1, hi1, hd1, hmm1⟩ :=
        Circ.appendLiteral_ok (s := s) (H[H.length - dist]'(by omega)) h hs hm1
      have hlen : (H ++ [H[H.length - dist]'(by omega)]).length = H.length + 1 := by simp
      rw [Sink.after_of_lt s (by simp) (by rw [hlen]; omega)] at hr1
      simp only [bind_run, Circ.get_eq h h1 h2 h3, hr1]
      have hoff : (if (H.length - dist) % w.dictSize + 1 = w1.dictSize then 0
            else (H.length - dist) % w.dictSize + 1) = (H.length + 1 - dist) % w1.dictSize := by
        rw [hd1, show H.length + 1 - dist = (H.length - dist) + 1 by omega,
          succ_mod_eq h.dict_pos]
      rw [hoff]
      have := ih (w := w1) (H := H ++ [H[H.length - dist]'(by omega)]) hi1 (by omega)
        (by rw [hlen]; omega) (by rw [hlen, hd1, hmm1]; omega)
      rw [hlen] at this
      exact this
    · simp only [bind_run, Circ.appendLiteral_fail s _ h hm1]

/-- Complete characterisation of `append_lz` for `dist ≥ 1`. -/
theorem Circ.appendLz_spec {w : Circ} {H : Bytes} {s : Sink} (len : Nat) {dist : Nat}
    (h : CircInv w H) (hs : s.Perfect) (h1 : 1 ≤ dist) :
    if dist ≤ w.dictSize ∧ dist ≤ H.length ∧
        (len = 0 ∨ min (H.length + len) w.dictSize ≤ w.memlimit) then
      ∃ w', w.appendLz len dist s =
          (s.after w.dictSize H (H ++ lzCopy H dist len), .ok w') ∧
        CircInv w' (H ++ lzCopy H dist len) ∧ w'.dictSize = w.dictSize ∧
        w'.memlimit = w.memlimit
    else w.appendLz len dist s = (s, .error .lzma) := by
  unfold Circ.appendLz
  rw [h.len_eq]
  by_cases h2 : dist > w.dictSize
  · rw [if_neg (by omega), if_pos h2]; rfl
  · rw [if_neg h2]
    by_cases h3 : dist > H.length
    · rw [if_neg (by omega), if_pos h3]; rfl
    · rw [if_neg h3]
      simp only [bind_run, (Circ.offsetOf_get h h1 (by omega) (by omega)).1, liftE_ok]
      by_cases hm : len = 0 ∨ min (H.length + len) w.dictSize ≤ w.memlimit
      · rw [if_pos ⟨by omega, by omega, hm⟩]
        exact Circ.copyLoop_ok len h hs h1 (by omega) (by omega) hm
      · rw [if_neg (by omega)]
        exact Circ.copyLoop_fail len h hs h1 (by omega) (by omega) hm

/-! ## `finish` -/

theorem writeAll_perfect {s : Sink} (hs : s.Perfect) {bs : Array UInt8} (hne : bs.isEmpty = false) :
    writeAll bs s =
      ({ s with out := s.out ++ bs, writes := s.writes + 1, lastFlush := false }, .ok ()) := by
  have hs' : s.script = [] := hs
  simp [writeAll, hne, hs']

theorem flushSink_perfect {s : Sink} (hs : s.Perfect) :
    flushSink s = ({ s with flushes := s.flushes + 1, lastFlush := true }, .ok ()) := by
  have hs' : s.script = [] := hs
  simp [flushSink, hs']

theorem Circ.finish_spec {w : Circ} {H : Bytes} {s0 s : Sink} (h : CircInv w H) (hs : s.Perfect)
    (hout : s.out = s0.out ++ (H.take (flushedLen w.dictSize H.length)).toArray) :
    ∃ s', w.finish s = (s', .ok ()) ∧ s'.Perfect ∧ s'.out = s0.out ++ H.toArray ∧
      s'.lastFlush = true := by
  have hs' : s.script = [] := hs
  have hwin := h.cells.window (dvd_flushedLen w.dictSize H.length) (flushedLen_le _ _)
    (by have := Nat.mod_lt H.length h.dict_pos; unfold flushedLen; omega)
  have hk : H.length - flushedLen w.dictSize H.length = w.cursor := by
    rw [h.cursor_eq]; unfold flushedLen; have := Nat.mod_le H.length w.dictSize; omega
  rw [hk] at hwin
  have hcb : w.cursor ≤ w.buf.size := by
    rcases h.cases with ⟨hl, hcur, hsz⟩ | ⟨hl, hsz⟩
    · omega
    · have := h.cursor_lt; omega
  unfold Circ.finish
  by_cases hc : w.cursor > 0
  · have hne : (w.buf.extract 0 w.cursor).isEmpty = false := by
      rw [Array.isEmpty_eq_false_iff]; intro h0
      have : (w.buf.extract 0 w.cursor).size = 0 := by rw [h0]; rfl
      rw [Array.size_extract] at this; omega
    have hex : w.buf.extract 0 w.cursor = (H.drop (flushedLen w.dictSize H.length)).toArray := by
      rw [← hwin]; apply Array.ext'; simp
    rw [if_pos hc, if_pos hcb, bind_run, writeAll_perfect hs hne]
    have hf := flushSink_perfect (s := { s with out := s.out ++ w.buf.extract 0 w.cursor,
                                                writes := s.writes + 1, lastFlush := false }) hs'
    refine ⟨_, hf, hs', ?_, rfl⟩
    simp only [hex, hout, Array.append_assoc, List.append_toArray, List.take_append_drop]
  · have hc0 : w.cursor = 0 := by omega
    rw [if_neg hc]
    refine ⟨_, flushSink_perfect hs, hs', ?_, rfl⟩
    simp only [hout]
    rw [List.take_of_length_le]
    have := flushedLen_le w.dictSize H.length; omega

/-! ## The window is a function of the history -/

theorem lastPos_spec {L d i : Nat} (hd : 0 < d) (hi : i < min L d) :
    lastPos L d i < L ∧ L ≤ lastPos L d i + d ∧ lastPos L d i % d = i := by
  have hdm := Nat.div_add_mod L d
  have hc := Nat.mod_lt L hd
  unfold lastPos
  by_cases h : i < L % d
  · rw [if_pos h]
    refine ⟨by omega, by omega, ?_⟩
    exact base_add_mod (dvd_flushedLen d L) (by omega)
  · rw [if_neg h]
    have hL : d ≤ L := by
      by_cases hl : L < d
      · rw [Nat.mod_eq_of_lt hl] at h; omega
      · omega
    obtain ⟨k, hk⟩ : ∃ k, L / d = k + 1 := ⟨L / d - 1, by have := Nat.div_pos hL hd; omega⟩
    rw [hk, Nat.mul_succ] at hdm
    refine ⟨by omega, by omega, ?_⟩
    have e : L - L % d - d + i = d * k + i := by omega
    rw [e]
    exact base_add_mod ⟨k, rfl⟩ (by omega)

/-- `lastPos` really is the last position with that residue -/
theorem lastPos_last {L d i q : Nat} (hd : 0 < d) (hi : i < min L d) (hq : q < L)
    (hqi : q % d = i) : q ≤ lastPos L d i := by
  obtain ⟨h1, h2, h3⟩ := lastPos_spec hd hi
  by_cases hle : q ≤ lastPos L d i
  · exact hle
  · exact absurd (h3.trans hqi.symm) (mod_ne_of_lt_lt (by omega) (by omega))

/-- the per-cell form of the invariant: cell `i` holds the byte of `H` at the LAST position
`p < H.length` with `p % dictSize = i` -/
theorem CircInv.cell {w : Circ} {H : Bytes} (h : CircInv w H) {i : Nat} (hi : i < w.buf.size) :
    w.buf[i]? = H[lastPos H.length w.dictSize i]? := by
  obtain ⟨h1, h2, h3⟩ := lastPos_spec h.dict_pos (by rw [← h.size_eq]; exact hi)
  rw [← h.cells _ h1 h2, h3]

/-- conversely the per-cell form implies `Cells`: the two formulations of the content clause are
equivalent -/
theorem cells_of_lastPos {buf : Array UInt8} {d : Nat} {H : Bytes} (hd : 0 < d)
    (hc : ∀ i, i < min H.length d → buf[i]? = H[lastPos H.length d i]?) : Cells buf d H := by
  intro p hp hw
  have hi : p % d < min H.length d := by
    have := Nat.mod_lt p hd
    have := Nat.mod_le p d
    omega
  obtain ⟨h1, h2, h3⟩ := lastPos_spec hd hi
  rw [hc _ hi]
  by_cases hlt : lastPos H.length d (p % d) < p
  · exact absurd h3 (mod_ne_of_lt_lt hlt (by omega))
  · by_cases hgt : p < lastPos H.length d (p % d)
    · exact absurd h3.symm (mod_ne_of_lt_lt hgt (by omega))
    · rw [show lastPos H.length d (p % d) = p by omega]

theorem CircInv.ext {w w' : Circ} {H : Bytes} (h : CircInv w H) (h' : CircInv w' H)
    (hd : w.dictSize = w'.dictSize) (hm : w.memlimit = w'.memlimit) : w = w' := by
  have hbuf : w.buf = w'.buf := by
    apply Array.ext_getElem?
    intro i
    have hs : w.buf.size = w'.buf.size := by rw [h.size_eq, h'.size_eq, hd]
    by_cases hi : i < w.buf.size
    · rw [h.cell hi, h'.cell (by omega), hd]
    · rw [Array.getElem?_eq_none (by omega), Array.getElem?_eq_none (by omega)]
  have hc : w.cursor = w'.cursor := by rw [h.cursor_eq, h'.cursor_eq, hd]
  have hl : w.len = w'.len := by rw [h.len_eq, h'.len_eq]
  cases w; cases w'; simp_all

/-- changing the memory limit preserves the invariant as long as the allocation still fits -/
theorem CircInv.withMemlimit {w : Circ} {H : Bytes} (h : CircInv w H) {m : Nat}
    (hm : min H.length w.dictSize ≤ m) : CircInv { w with memlimit := m } H where
  dict_pos := h.dict_pos
  len_eq := h.len_eq
  cursor_eq := h.cursor_eq
  size_eq := h.size_eq
  size_le := by have := h.size_eq; simp only; omega
  cells := h.cells

/-! ## Operation sequences -/

theorem Sink.after_trans' (s : Sink) (d : Nat) {H H' H'' : Bytes} (h1 : H <+: H') (h2 : H' <+: H'') :
    (s.after d H H').after d H' H'' = s.after d H H'' := by
  obtain ⟨X, rfl⟩ := h1
  obtain ⟨Y, rfl⟩ := h2
  exact Sink.after_trans s d H X Y

theorem idealRunM_prefix (d m : Nat) (ops : List WinOp) (H : Bytes) :
    H <+: (idealRunM d m ops H).1 := by
  induction ops generalizing H with
  | nil => exact List.prefix_refl H
  | cons op r ih =>
    cases op with
    | lit b =>
      simp only [idealRunM]
      split
      · exact (List.prefix_append H [b]).trans (ih _)
      · exact List.prefix_refl H
    | lz len dist =>
      simp only [idealRunM]
      split
      · exact (List.prefix_append H _).trans (ih _)
      · exact List.prefix_refl H

theorem idealPrefix_prefix (d : Nat) (ops : List WinOp) (H : Bytes) :
    H <+: idealPrefix d ops H := by
  induction ops generalizing H with
  | nil => exact List.prefix_refl H
  | cons op r ih =>
    cases op with
    | lit b => exact (List.prefix_append H [b]).trans (ih _)
    | lz len dist =>
      simp only [idealPrefix]
      split
      · exact (List.prefix_append H _).trans (ih _)
      · exact List.prefix_refl H

theorem idealOps_prefix {d : Nat} {ops : List WinOp} {H H' : Bytes}
    (h : idealOps d ops H = some H') : H <+: H' := by
  induction ops generalizing H with
  | nil => simp only [idealOps, Option.some.injEq] at h; exact h ▸ List.prefix_refl H
  | cons op r ih =>
    cases op with
    | lit b => exact (List.prefix_append H [b]).trans (ih h)
    | lz len dist =>
      simp only [idealOps] at h
      split at h
      · exact (List.prefix_append H _).trans (ih h)
      · cases h

theorem idealOps_eq_some_idealPrefix {d : Nat} {ops : List WinOp} {H H' : Bytes}
    (h : idealOps d ops H = some H') : idealPrefix d ops H = H' := by
  induction ops generalizing H with
  | nil => simpa [idealOps, idealPrefix] using h
  | cons op r ih =>
    cases op with
    | lit b => exact ih h
    | lz len dist =>
      simp only [idealOps] at h
      simp only [idealPrefix]
      split at h
      · next hg => rw [if_pos hg]; exact ih h
      · cases h

/-- Complete characterisation of a run of window operations: result, window and sink are
functions of the history, `dictSize`, `memlimit` and the op list alone. -/
theorem Circ.runOps_spec (ops : List WinOp) {w : Circ} {H : Bytes} {s : Sink} (h : CircInv w H)
    (hs : s.Perfect) (hv : ∀ op ∈ ops, op.Valid) :
    if (idealRunM w.dictSize w.memlimit ops H).2 = true then
      ∃ w', Circ.runOps ops w s =
          (s.after w.dictSize H (idealRunM w.dictSize w.memlimit ops H).1, .ok w') ∧
        CircInv w' (idealRunM w.dictSize w.memlimit ops H).1 ∧ w'.dictSize = w.dictSize ∧
        w'.memlimit = w.memlimit
    else
      Circ.runOps ops w s =
        (s.after w.dictSize H (idealRunM w.dictSize w.memlimit ops H).1, .error .lzma) := by
  induction ops generalizing w H s with
  | nil =>
    simp only [idealRunM, if_true, Circ.runOps, pure_run, Sink.after_self]
    exact ⟨w, rfl, h, rfl, rfl⟩
  | cons op r ih =>
    have hvr : ∀ op ∈ r, op.Valid := fun o ho => hv o (List.mem_cons_of_mem _ ho)
    cases op with
    | lit b =>
      simp only [idealRunM, Circ.runOps]
      by_cases hm : min (H.length + 1) w.dictSize ≤ w.memlimit
      · obtain ⟨w1, hr1, hi1, hd1, hm1⟩ := Circ.appendLiteral_ok (s := s) b h hs hm
        have := ih (s := s.after w.dictSize H (H ++ [b])) hi1 (Sink.after_perfect hs) hvr
        rw [hd1, hm1] at this
        simp only [if_pos hm, bind_run, hr1]
        rw [Sink.after_trans' s _ (List.prefix_append H [b]) (idealRunM_prefix _ _ _ _)] at this
        split
        · next hok =>
          rw [if_pos hok] at this
          obtain ⟨w', e1, e2, e3, e4⟩ := this
          exact ⟨w', e1, e2, by omega, by omega⟩
        · next hok => rw [if_neg hok] at this; exact this
      · simp only [if_neg hm, bind_run, Circ.appendLiteral_fail s b h hm, Sink.after_self]
        simp
    | lz len dist =>
      have h1 : 1 ≤ dist := hv (.lz len dist) List.mem_cons_self
      have hsp := Circ.appendLz_spec (s := s) len h hs h1
      simp only [idealRunM, Circ.runOps]
      by_cases hg : dist ≤ w.dictSize ∧ dist ≤ H.length ∧
          (len = 0 ∨ min (H.length + len) w.dictSize ≤ w.memlimit)
      · rw [if_pos hg] at hsp
        obtain ⟨w1, hr1, hi1, hd1, hm1⟩ := hsp
        have hg' : 1 ≤ dist ∧ dist ≤ min H.length w.dictSize ∧
            (len = 0 ∨ min (H.length + len) w.dictSize ≤ w.memlimit) :=
          ⟨h1, by omega, hg.2.2⟩
        have := ih (s := s.after w.dictSize H (H ++ lzCopy H dist len)) hi1
          (Sink.after_perfect hs) hvr
        rw [hd1, hm1] at this
        simp only [if_pos hg', bind_run, hr1]
        rw [Sink.after_trans' s _ (List.prefix_append H _) (idealRunM_prefix _ _ _ _)] at this
        split
        · next hok =>
          rw [if_pos hok] at this
          obtain ⟨w', e1, e2, e3, e4⟩ := this
          exact ⟨w', e1, e2, by omega, by omega⟩
        · next hok => rw [if_neg hok] at this; exact this
      · rw [if_neg hg] at hsp
        have hg' : ¬ (1 ≤ dist ∧ dist ≤ min H.length w.dictSize ∧
            (len = 0 ∨ min (H.length + len) w.dictSize ≤ w.memlimit)) := by
          intro hh; exact hg ⟨by omega, by omega, hh.2.2⟩
        simp only [if_neg hg', bind_run, hsp, Sink.after_self]
        simp

theorem Circ.runOps_ok {ops : List WinOp} {w : Circ} {H H' : Bytes} {s : Sink} (h : CircInv w H)
    (hs : s.Perfect) (hv : ∀ op ∈ ops, op.Valid)
    (hr : idealRunM w.dictSize w.memlimit ops H = (H', true)) :
    ∃ w', Circ.runOps ops w s = (s.after w.dictSize H H', .ok w') ∧ CircInv w' H' ∧
      w'.dictSize = w.dictSize ∧ w'.memlimit = w.memlimit := by
  have := Circ.runOps_spec ops h hs hv
  rw [hr] at this
  simpa using this

theorem Circ.runOps_err {ops : List WinOp} {w : Circ} {H Hp : Bytes} {s : Sink} (h : CircInv w H)
    (hs : s.Perfect) (hv : ∀ op ∈ ops, op.Valid)
    (hr : idealRunM w.dictSize w.memlimit ops H = (Hp, false)) :
    Circ.runOps ops w s = (s.after w.dictSize H Hp, .error .lzma) := by
  have := Circ.runOps_spec ops h hs hv
  rw [hr] at this
  simpa using this

theorem Circ.runOps_fromStream_ok {ops : List WinOp} {d m : Nat} {H' : Bytes} {s : Sink}
    (hd : 0 < d) (hs : s.Perfect) (hv : ∀ op ∈ ops, op.Valid)
    (hr : idealRunM d m ops [] = (H', true)) :
    ∃ w', Circ.runOps ops (Circ.fromStream d m) s = (s.after d [] H', .ok w') ∧ CircInv w' H' ∧
      w'.dictSize = d ∧ w'.memlimit = m :=
  Circ.runOps_ok (Circ.fromStream_inv m hd) hs hv hr

theorem Circ.runOps_fromStream_err {ops : List WinOp} {d m : Nat} {Hp : Bytes} {s : Sink}
    (hd : 0 < d) (hs : s.Perfect) (hv : ∀ op ∈ ops, op.Valid)
    (hr : idealRunM d m ops [] = (Hp, false)) :
    Circ.runOps ops (Circ.fromStream d m) s = (s.after d [] Hp, .error .lzma) :=
  Circ.runOps_err (Circ.fromStream_inv m hd) hs hv hr

/-- accepted by the limited semantics iff accepted by the ideal one and the final allocation
`min H'.length d` fits the limit -/
theorem idealRunM_eq_true_iff {d m : Nat} {ops : List WinOp} {H H' : Bytes}
    (h0 : min H.length d ≤ m) :
    idealRunM d m ops H = (H', true) ↔ idealOps d ops H = some H' ∧ min H'.length d ≤ m := by
  induction ops generalizing H with
  | nil =>
    simp only [idealRunM, idealOps, Prod.mk.injEq, and_true, Option.some.injEq]
    constructor
    · intro e; exact ⟨e, e ▸ h0⟩
    · intro e; exact e.1
  | cons op r ih =>
    cases op with
    | lit b =>
      simp only [idealRunM, idealOps]
      by_cases hm : min (H.length + 1) d ≤ m
      · rw [if_pos hm]; exact ih (by simpa using hm)
      · rw [if_neg hm]
        constructor
        · intro e; simp at e
        · intro ⟨e1, e2⟩
          have := (idealOps_prefix e1).length_le
          simp only [List.length_append, List.length_cons, List.length_nil] at this
          omega
    | lz len dist =>
      simp only [idealRunM, idealOps]
      by_cases hg : 1 ≤ dist ∧ dist ≤ min H.length d
      · rw [if_pos hg]
        by_cases hm : len = 0 ∨ min (H.length + len) d ≤ m
        · rw [if_pos ⟨hg.1, hg.2, hm⟩]
          exact ih (by simp only [List.length_append, length_lzCopy]; omega)
        · rw [if_neg (fun hh => hm hh.2.2)]
          constructor
          · intro e; simp at e
          · intro ⟨e1, e2⟩
            have := (idealOps_prefix e1).length_le
            simp only [List.length_append, length_lzCopy] at this
            omega
      · rw [if_neg hg, if_neg (fun hh => hg ⟨hh.1, hh.2.1⟩)]
        simp

/-- with enough memory the limited semantics is the ideal one -/
theorem idealRunM_of_le {d m : Nat} {ops : List WinOp} {H : Bytes}
    (hm : min (idealPrefix d ops H).length d ≤ m) :
    idealRunM d m ops H = (idealPrefix d ops H, (idealOps d ops H).isSome) := by
  induction ops generalizing H with
  | nil => rfl
  | cons op r ih =>
    cases op with
    | lit b =>
      simp only [idealRunM, idealOps, idealPrefix] at hm ⊢
      have := (idealPrefix_prefix d r (H ++ [b])).length_le
      simp only [List.length_append, List.length_cons, List.length_nil] at this
      rw [if_pos (by omega)]
      exact ih hm
    | lz len dist =>
      simp only [idealRunM, idealOps, idealPrefix] at hm ⊢
      by_cases hg : 1 ≤ dist ∧ dist ≤ min H.length d
      · rw [if_pos hg] at hm ⊢
        have := (idealPrefix_prefix d r (H ++ lzCopy H dist len)).length_le
        simp only [List.length_append, length_lzCopy] at this
        rw [if_pos ⟨hg.1, hg.2, by omega⟩, if_pos hg]
        exact ih hm
      · rw [if_neg hg, if_neg (fun hh => hg ⟨hh.1, hh.2.1⟩), if_neg hg]; rfl

/-- without enough memory the run stops, before the first lap is complete, at the first op
whose output would make `min d produced` exceed the limit -/
theorem idealRunM_of_not_le {d m : Nat} {ops : List WinOp} {H : Bytes}
    (h0 : min H.length d ≤ m) (hm : ¬ min (idealPrefix d ops H).length d ≤ m) :
    (idealRunM d m ops H).2 = false ∧ (idealRunM d m ops H).1.length < d ∧
      min (idealRunM d m ops H).1.length d ≤ m := by
  induction ops generalizing H with
  | nil => simp only [idealPrefix] at hm; omega
  | cons op r ih =>
    cases op with
    | lit b =>
      simp only [idealRunM, idealPrefix] at hm ⊢
      by_cases hc : min (H.length + 1) d ≤ m
      · rw [if_pos hc]; exact ih (by simpa using hc) hm
      · rw [if_neg hc]; exact ⟨rfl, by simp only; omega, h0⟩
    | lz len dist =>
      simp only [idealRunM, idealPrefix] at hm ⊢
      by_cases hg : 1 ≤ dist ∧ dist ≤ min H.length d
      · rw [if_pos hg] at hm
        by_cases hc : len = 0 ∨ min (H.length + len) d ≤ m
        · rw [if_pos ⟨hg.1, hg.2, hc⟩]
          exact ih (by simp only [List.length_append, length_lzCopy]; omega) hm
        · rw [if_neg (fun hh => hc hh.2.2)]; exact ⟨rfl, by simp only; omega, h0⟩
      · rw [if_neg hg] at hm; omega

theorem idealRunM_fst_prefix_idealPrefix (d m : Nat) (ops : List WinOp) (H : Bytes) :
    (idealRunM d m ops H).1 <+: idealPrefix d ops H := by
  induction ops generalizing H with
  | nil => exact List.prefix_refl H
  | cons op r ih =>
    cases op with
    | lit b =>
      simp only [idealRunM, idealPrefix]
      split
      · exact ih _
      · exact (List.prefix_append H [b]).trans (idealPrefix_prefix d r _)
    | lz len dist =>
      simp only [idealRunM, idealPrefix]
      by_cases hg : 1 ≤ dist ∧ dist ≤ min H.length d
      · rw [if_pos hg]
        split
        · exact ih _
        · exact (List.prefix_append H _).trans (idealPrefix_prefix d r _)
      · rw [if_neg hg, if_neg (fun hh => hg ⟨hh.1, hh.2.1⟩)]
        exact List.prefix_refl H

/-- the whole life of a window: build, run the ops, `finish` -/
def Circ.runAll (ops : List WinOp) (d m : Nat) : M Unit := do
  let w ← Circ.runOps ops (Circ.fromStream d m)
  w.finish

theorem Sink.after_nil_out (s : Sink) (d : Nat) (H : Bytes) :
    (s.after d [] H).out = s.out ++ (H.take (flushedLen d H.length)).toArray := by
  simp [Sink.after, flushedLen]

/-- success: the sink receives exactly the ideal history, then a flush -/
theorem Circ.runAll_ok {ops : List WinOp} {d m : Nat} {s0 : Sink} {H' : Bytes} (hd : 0 < d)
    (hs : s0.Perfect) (hv : ∀ op ∈ ops, op.Valid) (hi : idealOps d ops [] = some H')
    (hm : min H'.length d ≤ m) :
    ∃ s', Circ.runAll ops d m s0 = (s', .ok ()) ∧ s'.Perfect ∧ s'.out = s0.out ++ H'.toArray ∧
      s'.lastFlush = true := by
  have hr : idealRunM d m ops [] = (H', true) :=
    (idealRunM_eq_true_iff (by simp)).2 ⟨hi, hm⟩
  obtain ⟨w', e1, e2, e3, e4⟩ := Circ.runOps_fromStream_ok (s := s0) hd hs hv hr
  have hf := Circ.finish_spec (s0 := s0) e2 (Sink.after_perfect (d := d) (H := []) (H' := H') hs)
    (by rw [e3]; exact Sink.after_nil_out s0 d H')
  obtain ⟨s', f1, f2, f3, f4⟩ := hf
  refine ⟨s', ?_, f2, f3, f4⟩
  unfold Circ.runAll
  rw [bind_run, e1]
  exact f1

/-- failure: the run is an `lzma` error and the sink holds a prefix of the ideal history
produced before the offending op (namely its completed laps) -/
theorem Circ.runAll_error {ops : List WinOp} {d m : Nat} {s0 : Sink} (hd : 0 < d)
    (hs : s0.Perfect) (hv : ∀ op ∈ ops, op.Valid)
    (hi : ¬ ∃ H', idealOps d ops [] = some H' ∧ min H'.length d ≤ m) :
    ∃ s' Hp, Circ.runAll ops d m s0 = (s', .error .lzma) ∧ s'.Perfect ∧
      s'.out = s0.out ++ Hp.toArray ∧ Hp <+: idealPrefix d ops [] := by
  have hf : idealRunM d m ops [] = ((idealRunM d m ops []).1, false) := by
    cases hb : (idealRunM d m ops []).2
    · rw [← hb]
    · exfalso; apply hi
      refine ⟨(idealRunM d m ops []).1, (idealRunM_eq_true_iff (m := m) (by simp)).1 ?_⟩
      rw [← hb]
  have hsp := Circ.runOps_fromStream_err (s := s0) hd hs hv hf
  refine ⟨_, ((idealRunM d m ops []).1.take (flushedLen d (idealRunM d m ops []).1.length)), ?_,
    Sink.after_perfect hs, Sink.after_nil_out s0 d _, ?_⟩
  · unfold Circ.runAll
    rw [bind_run, hsp]
  · exact (List.take_prefix _ _).trans (idealRunM_fst_prefix_idealPrefix d m ops [])

theorem toArray_append_cancel {a : Array UInt8} {X Y : Bytes}
    (h : a ++ X.toArray = a ++ Y.toArray) : X = Y := by
  have := congrArg Array.toList h
  simpa using this

/-- C09.6: the output is a function of the op sequence alone -/
theorem Circ.refines_ideal {ops : List WinOp} {d m : Nat} {s0 : Sink} (hd : 0 < d)
    (hs : s0.Perfect) (hv : ∀ op ∈ ops, op.Valid) (H' : Bytes) :
    (∃ s', Circ.runAll ops d m s0 = (s', .ok ()) ∧ s'.out = s0.out ++ H'.toArray) ↔
      (idealOps d ops [] = some H' ∧ min H'.length d ≤ m) := by
  constructor
  · intro ⟨s', hr, ho⟩
    by_cases hi : ∃ H'', idealOps d ops [] = some H'' ∧ min H''.length d ≤ m
    · obtain ⟨H'', h1, h2⟩ := hi
      obtain ⟨s'', e1, _, e3, _⟩ := Circ.runAll_ok hd hs hv h1 h2
      rw [hr] at e1
      injection e1 with e1 _
      subst e1
      rw [ho] at e3
      rw [toArray_append_cancel e3]
      exact ⟨h1, h2⟩
    · obtain ⟨s'', Hp, e1, _⟩ := Circ.runAll_error hd hs hv hi
      rw [hr] at e1
      injection e1 with _ e2
      cases e2
  · intro ⟨h1, h2⟩
    obtain ⟨s', e1, _, e3, _⟩ := Circ.runAll_ok hd hs hv h1 h2
    exact ⟨s', e1, e3⟩

/-! ## The memory limit (C10) -/

theorem Circ.set_size_le {w w' : Circ} {i : Nat} {v : UInt8} (h : w.set i v = .ok w')
    (hb : w.buf.size ≤ w.memlimit) :
    w'.buf.size ≤ w'.memlimit ∧ w'.memlimit = w.memlimit ∧ w'.dictSize = w.dictSize := by
  simp only [Circ.set] at h
  split at h
  · split at h
    · injection h with h; subst h; simp; omega
    · cases h
  · injection h with h; subst h; simpa using hb

/-- `buf.len() ≤ memlimit` is preserved by `append_literal` for EVERY sink behaviour -/
theorem Circ.appendLiteral_size_le {w w' : Circ} {b : UInt8} {s s' : Sink}
    (h : w.appendLiteral b s = (s', .ok w')) (hb : w.buf.size ≤ w.memlimit) :
    w'.buf.size ≤ w'.memlimit ∧ w'.memlimit = w.memlimit ∧ w'.dictSize = w.dictSize := by
  unfold Circ.appendLiteral at h
  cases hset : w.set w.cursor b with
  | error e => rw [hset] at h; simp [bind_run] at h
  | ok w1 =>
    have h1 := Circ.set_size_le hset hb
    rw [hset] at h
    simp only [bind_run, liftE_ok] at h
    split at h
    · simp only [bind_run] at h
      split at h
      · simp only [pure_run, Prod.mk.injEq, Except.ok.injEq] at h
        rw [← h.2]; exact h1
      · simp at h
    · simp only [pure_run, Prod.mk.injEq, Except.ok.injEq] at h
      rw [← h.2]; exact h1

theorem Circ.copyLoop_size_le {n : Nat} {w w' : Circ} {off : Nat} {s s' : Sink}
    (h : Circ.copyLoop n w off s = (s', .ok w')) (hb : w.buf.size ≤ w.memlimit) :
    w'.buf.size ≤ w'.memlimit ∧ w'.memlimit = w.memlimit ∧ w'.dictSize = w.dictSize := by
  induction n generalizing w off s with
  | zero =>
    simp only [Circ.copyLoop, pure_run, Prod.mk.injEq, Except.ok.injEq] at h
    rw [← h.2]; exact ⟨hb, rfl, rfl⟩
  | succ n ih =>
    rw [Circ.copyLoop] at h
    simp only [bind_run] at h
    split at h
    · next s1 w1 hr1 =>
      have h1 := Circ.appendLiteral_size_le hr1 hb
      have h2 := ih h h1.1
      exact ⟨h2.1, by omega, by omega⟩
    · simp at h

theorem Circ.appendLz_size_le {w w' : Circ} {len dist : Nat} {s s' : Sink}
    (h : w.appendLz len dist s = (s', .ok w')) (hb : w.buf.size ≤ w.memlimit) :
    w'.buf.size ≤ w'.memlimit ∧ w'.memlimit = w.memlimit ∧ w'.dictSize = w.dictSize := by
  unfold Circ.appendLz at h
  split at h
  · simp at h
  · split at h
    · simp at h
    · simp only [bind_run] at h
      split at h
      · next s1 off hr1 => exact Circ.copyLoop_size_le h hb
      · simp at h

/-- C10 `buf_le_memlimit`: after every op of every sequence, whatever the sink does and whatever
the distances are, the allocation respects the limit -/
theorem Circ.runOps_size_le {ops : List WinOp} {w w' : Circ} {s s' : Sink}
    (h : Circ.runOps ops w s = (s', .ok w')) (hb : w.buf.size ≤ w.memlimit) :
    w'.buf.size ≤ w'.memlimit ∧ w'.memlimit = w.memlimit ∧ w'.dictSize = w.dictSize := by
  induction ops generalizing w s with
  | nil =>
    simp only [Circ.runOps, pure_run, Prod.mk.injEq, Except.ok.injEq] at h
    rw [← h.2]; exact ⟨hb, rfl, rfl⟩
  | cons op r ih =>
    cases op with
    | lit b =>
      simp only [Circ.runOps, bind_run] at h
      split at h
      · next s1 w1 hr1 =>
        have h1 := Circ.appendLiteral_size_le hr1 hb
        have h2 := ih h h1.1
        exact ⟨h2.1, by omega, by omega⟩
      · simp at h
    | lz len dist =>
      simp only [Circ.runOps, bind_run] at h
      split at h
      · next s1 w1 hr1 =>
        have h1 := Circ.appendLz_size_le hr1 hb
        have h2 := ih h h1.1
        exact ⟨h2.1, by omega, by omega⟩
      · simp at h

theorem Circ.runOps_append (a b : List WinOp) (w : Circ) :
    Circ.runOps (a ++ b) w = (Circ.runOps a w >>= Circ.runOps b) := by
  induction a generalizing w with
  | nil => funext s; simp [Circ.runOps, bind_run]
  | cons op r ih =>
    funext s
    cases op <;>
    · simp only [List.cons_append, Circ.runOps, bind_run, ih]
      split <;> rfl

/-- C10 `memlimit_exact`, enough memory: the limit is invisible -/
theorem Circ.memlimit_exact_of_le {ops : List WinOp} {d m m' : Nat} {s0 : Sink} (hd : 0 < d)
    (hs : s0.Perfect) (hv : ∀ op ∈ ops, op.Valid)
    (hm : min (idealPrefix d ops []).length d ≤ m)
    (hm' : min (idealPrefix d ops []).length d ≤ m') :
    Circ.runOps ops (Circ.fromStream d m) s0 =
      ((Circ.runOps ops (Circ.fromStream d m') s0).1,
       (Circ.runOps ops (Circ.fromStream d m') s0).2.map fun w => { w with memlimit := m }) := by
  cases hok : (idealOps d ops []).isSome
  · rw [Circ.runOps_fromStream_err hd hs hv (hok ▸ idealRunM_of_le hm),
      Circ.runOps_fromStream_err hd hs hv (hok ▸ idealRunM_of_le hm')]
    rfl
  · obtain ⟨w1, e1, i1, d1, m1⟩ :=
      Circ.runOps_fromStream_ok (s := s0) hd hs hv (hok ▸ idealRunM_of_le hm)
    obtain ⟨w2, e2, i2, d2, m2⟩ :=
      Circ.runOps_fromStream_ok (s := s0) hd hs hv (hok ▸ idealRunM_of_le hm')
    rw [e1, e2]
    simp only [Except.map, Prod.mk.injEq, Except.ok.injEq, true_and]
    apply CircInv.ext i1 (i2.withMemlimit (by rw [d2]; exact hm))
    · simp only [d1, d2]
    · simp only [m1]

/-- C10 `memlimit_exact`, not enough memory: `lzma` error, nothing written -/
theorem Circ.memlimit_exact_of_not_le {ops : List WinOp} {d m : Nat} {s0 : Sink} (hd : 0 < d)
    (hs : s0.Perfect) (hv : ∀ op ∈ ops, op.Valid)
    (hm : ¬ min (idealPrefix d ops []).length d ≤ m) :
    Circ.runOps ops (Circ.fromStream d m) s0 = (s0, .error .lzma) := by
  obtain ⟨f1, f2, _⟩ := idealRunM_of_not_le (H := []) (by simp) hm
  have h1 := Circ.runOps_fromStream_err (s := s0) hd hs hv
    (Hp := (idealRunM d m ops []).1) (by rw [← f1])
  rw [Sink.after_of_lt s0 (by simp) f2] at h1
  exact h1

/-- C10: the run fails exactly at the first op that would make `min d produced` exceed the
limit: everything before it is accepted, the sink is untouched -/
theorem Circ.memlimit_fails_at {pre post : List WinOp} {op : WinOp} {d m : Nat} {s0 : Sink}
    {Hp : Bytes} (hd : 0 < d) (hs : s0.Perfect) (hv : ∀ o ∈ pre ++ op :: post, o.Valid)
    (hpre : idealOps d pre [] = some Hp) (hfit : min Hp.length d ≤ m)
    (hop : ∀ len dist, op = .lz len dist → dist ≤ min Hp.length d)
    (hover : ¬ min (Hp.length + op.outLen) d ≤ m) :
    (∃ w, Circ.runOps pre (Circ.fromStream d m) s0 = (s0, .ok w) ∧ CircInv w Hp) ∧
      Circ.runOps (pre ++ op :: post) (Circ.fromStream d m) s0 = (s0, .error .lzma) := by
  have hvpre : ∀ o ∈ pre, o.Valid := fun o ho => hv o (List.mem_append_left _ ho)
  have hvop : op.Valid := hv op (List.mem_append_right _ List.mem_cons_self)
  obtain ⟨w, e1, i1, d1, m1⟩ := Circ.runOps_fromStream_ok (s := s0) hd hs hvpre
    ((idealRunM_eq_true_iff (m := m) (by simp)).2 ⟨hpre, hfit⟩)
  have hlt : Hp.length < d := by
    cases op <;> simp only [WinOp.outLen] at hover <;> omega
  rw [Sink.after_of_lt s0 (by simp) hlt] at e1
  refine ⟨⟨w, e1, i1⟩, ?_⟩
  rw [Circ.runOps_append, bind_run, e1]
  cases op with
  | lit b =>
    simp only [WinOp.outLen] at hover
    simp only [Circ.runOps, bind_run,
      Circ.appendLiteral_fail s0 b i1 (by rw [d1, m1]; exact hover)]
  | lz len dist =>
    simp only [WinOp.outLen] at hover
    have hsp := Circ.appendLz_spec (s := s0) len i1 hs hvop
    have := hop len dist rfl
    rw [if_neg (by rw [d1, m1]; omega)] at hsp
    simp only [Circ.runOps, bind_run, hsp]

/-! ## `get` without the `unwrap_or(&0)` default (C09.5) -/

/-- `get` as plain indexing `self.buf[index]` (would panic out of range) -/
def Circ.getStrict (w : Circ) (index : Nat) : Except Err UInt8 :=
  match w.buf[index]? with
  | some b => .ok b
  | none => .error (.panic "lzbuffer: get out of range")

def Circ.lastOrStrict (w : Circ) (lit : UInt8) : Except Err UInt8 :=
  if w.len = 0 then pure lit
  else do
    let off ← w.offsetOf 1
    w.getStrict off

def Circ.lastNStrict (w : Circ) (dist : Nat) : Except Err UInt8 :=
  if dist > w.dictSize then .error .lzma
  else if dist > w.len then .error .lzma
  else do
    let off ← w.offsetOf dist
    w.getStrict off

def Circ.copyLoopStrict : Nat → Circ → Nat → M Circ
  | 0, w, _ => pure w
  | n+1, w, offset => do
    let x ← liftE (w.getStrict offset)
    let w ← w.appendLiteral x
    let offset := offset + 1
    let offset := if offset = w.dictSize then 0 else offset
    copyLoopStrict n w offset

def Circ.appendLzStrict (w : Circ) (len dist : Nat) : M Circ :=
  if dist > w.dictSize then throwM .lzma
  else if dist > w.len then throwM .lzma
  else do
    let offset ← liftE (w.offsetOf dist)
    Circ.copyLoopStrict len w offset

theorem Circ.getStrict_eq {w : Circ} {H : Bytes} {dist : Nat} (h : CircInv w H) (h1 : 1 ≤ dist)
    (h2 : dist ≤ w.dictSize) (h3 : dist ≤ H.length) :
    w.getStrict ((H.length - dist) % w.dictSize) = .ok (w.get ((H.length - dist) % w.dictSize)) := by
  unfold Circ.getStrict Circ.get
  rw [(Circ.offsetOf_get h h1 h2 h3).2.2]; rfl

theorem Circ.lastNStrict_eq {w : Circ} {H : Bytes} {dist : Nat} (h : CircInv w H) (h1 : 1 ≤ dist) :
    w.lastNStrict dist = w.lastN dist := by
  unfold Circ.lastNStrict Circ.lastN
  rw [h.len_eq]
  by_cases h2 : dist > w.dictSize
  · rw [if_pos h2, if_pos h2]
  · rw [if_neg h2, if_neg h2]
    by_cases h3 : dist > H.length
    · rw [if_pos h3, if_pos h3]
    · rw [if_neg h3, if_neg h3, (Circ.offsetOf_get h h1 (by omega) (by omega)).1]
      simp only [bind, Except.bind]
      rw [Circ.getStrict_eq h h1 (by omega) (by omega)]; rfl

theorem Circ.lastOrStrict_eq {w : Circ} {H : Bytes} (b : UInt8) (h : CircInv w H) :
    w.lastOrStrict b = w.lastOr b := by
  unfold Circ.lastOrStrict Circ.lastOr
  rw [h.len_eq]
  by_cases h0 : H.length = 0
  · rw [if_pos h0, if_pos h0]
  · have hd := h.dict_pos
    rw [if_neg h0, if_neg h0, (Circ.offsetOf_get h (Nat.le_refl 1) hd (by omega)).1]
    simp only [bind, Except.bind]
    rw [Circ.getStrict_eq h (Nat.le_refl 1) hd (by omega)]; rfl

theorem Circ.copyLoopStrict_eq {dist : Nat} (n : Nat) {w : Circ} {H : Bytes} {s : Sink}
    (h : CircInv w H) (hs : s.Perfect) (h1 : 1 ≤ dist) (h2 : dist ≤ w.dictSize)
    (h3 : dist ≤ H.length) :
    Circ.copyLoopStrict n w ((H.length - dist) % w.dictSize) s =
      Circ.copyLoop n w ((H.length - dist) % w.dictSize) s := by
  induction n generalizing w H s with
  | zero => rfl
  | succ n ih =>
    rw [Circ.copyLoop, Circ.copyLoopStrict]
    simp only [bind_run, Circ.getStrict_eq h h1 h2 h3, liftE_ok]
    by_cases hm1 : min (H.length + 1) w.dictSize ≤ w.memlimit
    · obtain ⟨w1, hr1, hi1, hd1, hmm1⟩ :=
        Circ.appendLiteral_ok (s := s) (H[H.length - dist]'(by omega)) h hs hm1
      have hlen : (H ++ [H[H.length - dist]'(by omega)]).length = H.length + 1 := by simp
      simp only [Circ.get_eq h h1 h2 h3, hr1]
      have hoff : (if (H.length - dist) % w.dictSize + 1 = w1.dictSize then 0
            else (H.length - dist) % w.dictSize + 1) = (H.length + 1 - dist) % w1.dictSize := by
        rw [hd1, show H.length + 1 - dist = (H.length - dist) + 1 by omega,
          succ_mod_eq h.dict_pos]
      rw [hoff]
      have := ih (w := w1) (H := H ++ [H[H.length - dist]'(by omega)])
        (s := s.after w.dictSize H (H ++ [H[H.length - dist]'(by omega)])) hi1
        (Sink.after_perfect hs) (by omega) (by rw [hlen]; omega)
      rw [hlen] at this
      exact this
    · simp only [Circ.get_eq h h1 h2 h3, Circ.appendLiteral_fail s _ h hm1]

/-- Replacing `unwrap_or(&0)` by a panicking index changes nothing: no read of `append_lz`
ever leaves the allocated buffer (for `dist ≥ 1`). -/
theorem Circ.appendLzStrict_eq {w : Circ} {H : Bytes} {s : Sink} (len : Nat) {dist : Nat}
    (h : CircInv w H) (hs : s.Perfect) (h1 : 1 ≤ dist) :
    w.appendLzStrict len dist s = w.appendLz len dist s := by
  unfold Circ.appendLzStrict Circ.appendLz
  rw [h.len_eq]
  by_cases h2 : dist > w.dictSize
  · rw [if_pos h2, if_pos h2]
  · rw [if_neg h2, if_neg h2]
    by_cases h3 : dist > H.length
    · rw [if_pos h3, if_pos h3]
    · rw [if_neg h3, if_neg h3]
      simp only [bind_run, (Circ.offsetOf_get h h1 (by omega) (by omega)).1, liftE_ok]
      exact Circ.copyLoopStrict_eq len h hs h1 (by omega) (by omega)

/-! ## `LzAccumBuffer` -/

theorem Accum.fromStream_inv (m : Nat) : AccumInv (Accum.fromStream m) [] := ⟨rfl, rfl⟩

theorem AccumInv.size_eq {w : Accum} {H : Bytes} (h : AccumInv w H) : w.buf.size = H.length := by
  rw [← h.1]; simp

theorem AccumInv.getElem? {w : Accum} {H : Bytes} (h : AccumInv w H) (i : Nat) :
    w.buf[i]? = H[i]? := by
  rw [← h.1, Array.getElem?_toList]

theorem Accum.lastOr_spec {w : Accum} {H : Bytes} (b : UInt8) (h : AccumInv w H) :
    w.lastOr b = .ok (H.getLast?.getD b) := by
  unfold Accum.lastOr
  rw [h.size_eq]
  by_cases h0 : H.length = 0
  · rw [if_pos h0]
    have : H = [] := List.eq_nil_of_length_eq_zero h0
    subst this; rfl
  · rw [if_neg h0, h.getElem?, List.getLast?_eq_getElem?, List.getElem?_eq_getElem (by omega)]
    rfl

theorem Accum.lastN_spec {w : Accum} {H : Bytes} {dist : Nat} (h : AccumInv w H) (h1 : 1 ≤ dist) :
    w.lastN dist =
      if hg : dist ≤ H.length then .ok (H[H.length - dist]'(by omega)) else .error .lzma := by
  unfold Accum.lastN
  rw [h.size_eq]
  by_cases h2 : dist > H.length
  · rw [if_pos h2, dif_neg (by omega)]
  · rw [if_neg h2, dif_pos (by omega), h.getElem?, List.getElem?_eq_getElem (by omega)]
    rfl

/-- `dist = 0` on the accumulating window is an index-out-of-bounds panic in Rust
(`self.buf[buf_len - 0]`); unreachable from the decoder, which passes `rep0 + 1`. -/
theorem Accum.lastN_zero {w : Accum} :
    w.lastN 0 = .error (.panic "lzbuffer: index out of bounds") := by
  unfold Accum.lastN
  simp

theorem Accum.appendLiteral_spec {w : Accum} {H : Bytes} (b : UInt8) (s : Sink)
    (h : AccumInv w H) :
    w.appendLiteral b s =
      if H.length + 1 ≤ w.memlimit then
        (s, .ok { w with buf := w.buf.push b, len := w.len + 1 })
      else (s, .error .lzma) := by
  unfold Accum.appendLiteral
  simp only [h.2]
  by_cases hm : H.length + 1 > w.memlimit
  · rw [if_pos hm, if_neg (by omega)]; rfl
  · rw [if_neg hm, if_pos (by omega)]; rfl

theorem Accum.appendLiteral_inv {w : Accum} {H : Bytes} (b : UInt8) (h : AccumInv w H) :
    AccumInv { w with buf := w.buf.push b, len := w.len + 1 } (H ++ [b]) := by
  refine ⟨?_, ?_⟩
  · simp [h.1]
  · simp [h.2]

theorem Accum.copyLoop_spec (n : Nat) {buf : Array UInt8} {H : Bytes} {dist : Nat}
    (hb : buf.toList = H) (h1 : 1 ≤ dist) (h2 : dist ≤ H.length) :
    Accum.copyLoop n buf (H.length - dist) = .ok (buf ++ (lzCopy H dist n).toArray) := by
  induction n generalizing buf H with
  | zero => simp [Accum.copyLoop]; rfl
  | succ n ih =>
    have hx : H[H.length - dist]?.getD 0 = H[H.length - dist]'(by omega) := by
      rw [List.getElem?_eq_getElem (by omega)]; rfl
    have hget : buf[H.length - dist]? = some (H[H.length - dist]'(by omega)) := by
      rw [← Array.getElem?_toList, hb, List.getElem?_eq_getElem (by omega)]
    rw [Accum.copyLoop, hget]
    simp only
    have := ih (buf := buf.push (H[H.length - dist]'(by omega)))
      (H := H ++ [H[H.length - dist]'(by omega)]) (by simp [hb]) (by simp; omega)
    simp only [List.length_append, List.length_cons, List.length_nil] at this
    rw [show H.length + (0 + 1) - dist = H.length - dist + 1 by omega] at this
    rw [this, lzCopy_succ, hx]
    congr 1
    apply Array.ext'
    simp

/-- `append_lz` on the accumulating window: guard `dist ≤ H.length` only; NO memory-limit
check (mirror of the Rust), no sink interaction, no panic for `dist ≥ 1`. -/
theorem Accum.appendLz_spec {w : Accum} {H : Bytes} (len : Nat) {dist : Nat} (s : Sink)
    (h : AccumInv w H) (h1 : 1 ≤ dist) :
    w.appendLz len dist s =
      if dist ≤ H.length then
        (s, .ok { w with buf := w.buf ++ (lzCopy H dist len).toArray, len := w.len + len })
      else (s, .error .lzma) := by
  unfold Accum.appendLz
  rw [h.size_eq]
  by_cases h2 : dist > H.length
  · rw [if_pos h2, if_neg (by omega)]; rfl
  · rw [if_neg h2, if_pos (by omega)]
    simp only [bind_run, Accum.copyLoop_spec len h.1 h1 (by omega), liftE_ok, pure_run]

theorem Accum.appendLz_inv {w : Accum} {H : Bytes} (len dist : Nat) (h : AccumInv w H) :
    AccumInv { w with buf := w.buf ++ (lzCopy H dist len).toArray, len := w.len + len }
      (H ++ lzCopy H dist len) := by
  refine ⟨?_, ?_⟩
  · simp [h.1]
  · simp [h.2]

/-- `dist = 0`, `len ≥ 1` on the accumulating window: index-out-of-bounds panic (as in Rust) -/
theorem Accum.appendLz_zero {w : Accum} (n : Nat) (s : Sink) :
    w.appendLz (n + 1) 0 s = (s, .error (.panic "lzbuffer: index out of bounds")) := by
  unfold Accum.appendLz
  simp [bind_run, Accum.copyLoop]

theorem Accum.appendBytes_inv {w : Accum} {H : Bytes} (bs : Bytes) (h : AccumInv w H) :
    AccumInv (w.appendBytes bs) (H ++ bs) := by
  refine ⟨?_, ?_⟩
  · simp [Accum.appendBytes, h.1]
  · simp [Accum.appendBytes, h.2]

theorem writeAll_perfect' {s : Sink} (hs : s.Perfect) (bs : Array UInt8) :
    ∃ s', writeAll bs s = (s', .ok ()) ∧ s'.Perfect ∧ s'.out = s.out ++ bs ∧
      s'.flushes = s.flushes := by
  by_cases hne : bs.isEmpty = true
  · refine ⟨s, by simp [writeAll, hne], hs, ?_, rfl⟩
    have : bs = #[] := by simpa using hne
    simp [this]
  · rw [writeAll_perfect hs (by simpa using hne)]
    exact ⟨_, rfl, hs, rfl, rfl⟩

theorem Accum.reset_spec {w : Accum} {H : Bytes} {s : Sink} (h : AccumInv w H) (hs : s.Perfect) :
    ∃ s', w.reset s = (s', .ok { w with buf := #[], len := 0 }) ∧ s'.Perfect ∧
      s'.out = s.out ++ H.toArray ∧ AccumInv { w with buf := #[], len := 0 } [] := by
  obtain ⟨s', e1, e2, e3, _⟩ := writeAll_perfect' hs w.buf
  refine ⟨s', ?_, e2, ?_, ⟨rfl, rfl⟩⟩
  · unfold Accum.reset
    rw [bind_run, e1]; rfl
  · rw [e3, ← h.1]

theorem Accum.finish_spec {w : Accum} {H : Bytes} {s : Sink} (h : AccumInv w H) (hs : s.Perfect) :
    ∃ s', w.finish s = (s', .ok ()) ∧ s'.Perfect ∧ s'.out = s.out ++ H.toArray ∧
      s'.lastFlush = true := by
  obtain ⟨s1, e1, e2, e3, _⟩ := writeAll_perfect' hs w.buf
  refine ⟨{ s1 with flushes := s1.flushes + 1, lastFlush := true }, ?_, e2, ?_, rfl⟩
  · unfold Accum.finish
    rw [bind_run, e1]
    exact flushSink_perfect e2
  · show s1.out = _
    rw [e3, ← h.1]

/-- The accumulating window does NOT keep `buf.len() ≤ memlimit`: only `append_literal`
checks (and it checks `len`, the byte count since the last reset). -/
theorem Accum.appendLz_ignores_memlimit :
    ∃ (w w' : Accum) (s : Sink), w.buf.size ≤ w.memlimit ∧ AccumInv w [7] ∧
      w.appendLz 5 1 s = (s, .ok w') ∧ w'.memlimit < w'.buf.size :=
  ⟨{ buf := #[7], memlimit := 2, len := 1 }, _, {}, by decide, ⟨rfl, rfl⟩,
    by rw [Accum.appendLz_spec 5 {} ⟨rfl, rfl⟩ (by decide)]; rfl, by decide⟩

/-! ## The sink relation -/

/-- "the sink holds everything except the unflushed part of the current lap" is maintained -/
theorem Sink.after_out_rel {s0 s : Sink} {d : Nat} {H H' : Bytes} (hp : H <+: H')
    (hout : s.out = s0.out ++ (H.take (flushedLen d H.length)).toArray) :
    (s.after d H H').out = s0.out ++ (H'.take (flushedLen d H'.length)).toArray := by
  have h1 := flushedLen_le d H.length
  have h2 : flushedLen d H.length ≤ flushedLen d H'.length := flushedLen_mono hp.length_le
  have h3 := flushedLen_le d H'.length
  obtain ⟨X, rfl⟩ := hp
  simp only [Sink.after, hout, Array.append_assoc, List.append_toArray]
  congr 2
  rw [← List.take_append_of_le_length (l₂ := X) h1]
  have : List.take (flushedLen d H.length) (H ++ X) =
      (List.take (flushedLen d (H ++ X).length) (H ++ X)).take (flushedLen d H.length) := by
    rw [List.take_take, Nat.min_eq_left h2]
  rw [this, List.take_append_drop]

/-! ## Stretch: the ideal window as an `LzBuf` instance -/

/-- The ideal window: the history as a plain list, a dictionary limit and a memory limit.
Its sink effect is the closed form `Sink.after` (so it models perfect sinks only). -/
structure IdealWin where
  hist : Bytes := []
  dictSize : Nat
  memlimit : Nat

namespace IdealWin

def lastOr (w : IdealWin) (lit : UInt8) : Except Err UInt8 := .ok (w.hist.getLast?.getD lit)

def lastN (w : IdealWin) (dist : Nat) : Except Err UInt8 :=
  if dist ≤ w.dictSize ∧ dist ≤ w.hist.length then .ok (w.hist[w.hist.length - dist]?.getD 0)
  else .error .lzma

def push (w : IdealWin) (X : Bytes) : M IdealWin := fun s =>
  (s.after w.dictSize w.hist (w.hist ++ X), .ok { w with hist := w.hist ++ X })

def appendLiteral (w : IdealWin) (b : UInt8) : M IdealWin :=
  if min (w.hist.length + 1) w.dictSize ≤ w.memlimit then w.push [b] else throwM .lzma

def appendLz (w : IdealWin) (len dist : Nat) : M IdealWin :=
  if dist ≤ w.dictSize ∧ dist ≤ w.hist.length ∧
      (len = 0 ∨ min (w.hist.length + len) w.dictSize ≤ w.memlimit) then
    w.push (lzCopy w.hist dist len)
  else throwM .lzma

instance : LzBuf IdealWin where
  len w := w.hist.length
  lastOr := lastOr
  lastN := lastN
  appendLiteral := appendLiteral
  appendLz := appendLz

end IdealWin

/-- the concrete window represents the ideal one -/
def WinSim (w : Circ) (i : IdealWin) : Prop :=
  CircInv w i.hist ∧ w.dictSize = i.dictSize ∧ w.memlimit = i.memlimit

/-- same sink, same error, related windows -/
def WinSimM (r1 : Sink × Except Err Circ) (r2 : Sink × Except Err IdealWin) : Prop :=
  r1.1 = r2.1 ∧
    match r1.2, r2.2 with
    | .ok w, .ok i => WinSim w i
    | .error e1, .error e2 => e1 = e2
    | _, _ => False

theorem WinSim.len {w : Circ} {i : IdealWin} (h : WinSim w i) : LzBuf.len w = LzBuf.len i := h.1.len_eq

theorem WinSim.lastOr {w : Circ} {i : IdealWin} (h : WinSim w i) (b : UInt8) :
    LzBuf.lastOr w b = LzBuf.lastOr i b := Circ.lastOr_spec b h.1

theorem WinSim.lastN {w : Circ} {i : IdealWin} (h : WinSim w i) {dist : Nat} (h1 : 1 ≤ dist) :
    LzBuf.lastN w dist = LzBuf.lastN i dist := by
  show w.lastN dist = i.lastN dist
  rw [Circ.lastN_spec h.1 h1, IdealWin.lastN, ← h.2.1]
  by_cases hg : dist ≤ w.dictSize ∧ dist ≤ i.hist.length
  · rw [dif_pos hg, if_pos hg, List.getElem?_eq_getElem (by omega)]; rfl
  · rw [dif_neg hg, if_neg hg]

theorem WinSim.appendLiteral {w : Circ} {i : IdealWin} (h : WinSim w i) (b : UInt8) {s : Sink}
    (hs : s.Perfect) :
    WinSimM (LzBuf.appendLiteral w b s) (LzBuf.appendLiteral i b s) ∧
      (LzBuf.appendLiteral w b s).1.Perfect := by
  show WinSimM (w.appendLiteral b s) (i.appendLiteral b s) ∧ (w.appendLiteral b s).1.Perfect
  obtain ⟨hi, hd, hm⟩ := h
  unfold IdealWin.appendLiteral
  rw [← hd, ← hm]
  by_cases hg : min (i.hist.length + 1) w.dictSize ≤ w.memlimit
  · obtain ⟨w', e1, e2, e3, e4⟩ := Circ.appendLiteral_ok (s := s) b hi hs hg
    rw [if_pos hg, e1]
    refine ⟨⟨by simp only [IdealWin.push, hd], ?_⟩, Sink.after_perfect hs⟩
    exact ⟨e2, by simp only; omega, by simp only; omega⟩
  · rw [if_neg hg, Circ.appendLiteral_fail s b hi hg]
    exact ⟨⟨rfl, rfl⟩, hs⟩

theorem WinSim.appendLz {w : Circ} {i : IdealWin} (h : WinSim w i) (len : Nat) {dist : Nat}
    (h1 : 1 ≤ dist) {s : Sink} (hs : s.Perfect) :
    WinSimM (LzBuf.appendLz w len dist s) (LzBuf.appendLz i len dist s) ∧
      (LzBuf.appendLz w len dist s).1.Perfect := by
  show WinSimM (w.appendLz len dist s) (i.appendLz len dist s) ∧ (w.appendLz len dist s).1.Perfect
  obtain ⟨hi, hd, hm⟩ := h
  have hsp := Circ.appendLz_spec (s := s) len hi hs h1
  unfold IdealWin.appendLz
  rw [← hd, ← hm]
  by_cases hg : dist ≤ w.dictSize ∧ dist ≤ i.hist.length ∧
      (len = 0 ∨ min (i.hist.length + len) w.dictSize ≤ w.memlimit)
  · rw [if_pos hg] at hsp
    obtain ⟨w', e1, e2, e3, e4⟩ := hsp
    rw [if_pos hg, e1]
    refine ⟨⟨by simp only [IdealWin.push, hd], ?_⟩, Sink.after_perfect hs⟩
    exact ⟨e2, by simp only; omega, by simp only; omega⟩
  · rw [if_neg hg] at hsp
    rw [if_neg hg, hsp]
    exact ⟨⟨rfl, rfl⟩, hs⟩

theorem WinSim.fromStream {d : Nat} (m : Nat) (hd : 0 < d) :
    WinSim (Circ.fromStream d m) { dictSize := d, memlimit := m } :=
  ⟨Circ.fromStream_inv m hd, rfl, rfl⟩

/-! ## `dist = 0` on the circular window (not issued by the decoder) -/

/-- what `append_lz(len, 0)` appends: the byte `d` back, with zeros before the start of the
stream — i.e. distance `d` on the history extended to the left by `d` zero bytes -/
def lzCopyZ (d : Nat) (H : Bytes) : Nat → Bytes
  | 0 => []
  | n+1 =>
    let x := if d ≤ H.length then H[H.length - d]?.getD 0 else 0
    x :: lzCopyZ d (H ++ [x]) n

@[simp] theorem length_lzCopyZ (d : Nat) (H : Bytes) (n : Nat) : (lzCopyZ d H n).length = n := by
  induction n generalizing H with
  | zero => rfl
  | succ n ih => simp [lzCopyZ, ih]

theorem Circ.get_cursor {w : Circ} {H : Bytes} (h : CircInv w H) :
    w.get w.cursor = if w.dictSize ≤ H.length then H[H.length - w.dictSize]?.getD 0 else 0 := by
  unfold Circ.get
  rcases h.cases with ⟨hl, hcur, hsz⟩ | ⟨hl, hsz⟩
  · rw [if_neg (by omega), Array.getElem?_eq_none (by omega)]; rfl
  · rw [if_pos hl]
    have := h.cells (H.length - w.dictSize) (by have := h.dict_pos; omega) (by omega)
    have e : (H.length - w.dictSize) % w.dictSize = H.length % w.dictSize := by
      conv => rhs; rw [show H.length = H.length - w.dictSize + w.dictSize by omega]
      rw [Nat.add_mod_right]
    rw [e, ← h.cursor_eq] at this
    rw [this]

theorem Circ.copyLoop_zero (n : Nat) {w : Circ} {H : Bytes} {s : Sink} (h : CircInv w H)
    (hs : s.Perfect) :
    if n = 0 ∨ min (H.length + n) w.dictSize ≤ w.memlimit then
      ∃ w', Circ.copyLoop n w w.cursor s =
          (s.after w.dictSize H (H ++ lzCopyZ w.dictSize H n), .ok w') ∧
        CircInv w' (H ++ lzCopyZ w.dictSize H n) ∧ w'.dictSize = w.dictSize ∧
        w'.memlimit = w.memlimit
    else Circ.copyLoop n w w.cursor s = (s, .error .lzma) := by
  induction n generalizing w H s with
  | zero =>
    rw [if_pos (Or.inl rfl)]
    refine ⟨w, ?_, by simpa [lzCopyZ] using h, rfl, rfl⟩
    simp [Circ.copyLoop, lzCopyZ, Sink.after_self]
  | succ n ih =>
    rw [Circ.copyLoop]
    simp only [bind_run, Circ.get_cursor h]
    generalize hx : (if w.dictSize ≤ H.length then H[H.length - w.dictSize]?.getD 0 else 0) = x
    have hz : lzCopyZ w.dictSize H (n + 1) = x :: lzCopyZ w.dictSize (H ++ [x]) n := by
      rw [← hx]; rfl
    by_cases hm1 : min (H.length + 1) w.dictSize ≤ w.memlimit
    · obtain ⟨w1, hr1, hi1, hd1, hmm1⟩ := Circ.appendLiteral_ok (s := s) x h hs hm1
      have hoff : (if w.cursor + 1 = w1.dictSize then 0 else w.cursor + 1) = w1.cursor := by
        rw [hi1.cursor_eq, hd1, h.cursor_eq]
        simp only [List.length_append, List.length_cons, List.length_nil, Nat.zero_add]
        rw [succ_mod_eq h.dict_pos]
      have := ih (w := w1) (H := H ++ [x]) (s := s.after w.dictSize H (H ++ [x])) hi1
        (Sink.after_perfect hs)
      simp only [hr1, hoff]
      simp only [List.length_append, List.length_cons, List.length_nil, Nat.zero_add, hd1,
        hmm1] at this
      by_cases hg : n + 1 = 0 ∨ min (H.length + (n + 1)) w.dictSize ≤ w.memlimit
      · rw [if_pos hg]
        rw [if_pos (by omega)] at this
        obtain ⟨w2, e1, e2, e3, e4⟩ := this
        refine ⟨w2, ?_, ?_, by omega, by omega⟩
        · rw [e1, hz, Sink.after_trans' s _ (List.prefix_append H [x]) (List.prefix_append _ _)]
          simp
        · rw [hz]; simpa using e2
      · rw [if_neg hg]
        rw [if_neg (by omega)] at this
        rw [this, Sink.after_of_lt s (by simp) (by simp; omega)]
    · rw [if_neg (by omega)]
      simp only [Circ.appendLiteral_fail s _ h hm1]

/-- `append_lz(len, 0)`: never rejected by the distance guard; reads the cell under the cursor -/
theorem Circ.appendLz_zero {w : Circ} {H : Bytes} {s : Sink} (len : Nat) (h : CircInv w H)
    (hs : s.Perfect) :
    if len = 0 ∨ min (H.length + len) w.dictSize ≤ w.memlimit then
      ∃ w', w.appendLz len 0 s =
          (s.after w.dictSize H (H ++ lzCopyZ w.dictSize H len), .ok w') ∧
        CircInv w' (H ++ lzCopyZ w.dictSize H len) ∧ w'.dictSize = w.dictSize ∧
        w'.memlimit = w.memlimit
    else w.appendLz len 0 s = (s, .error .lzma) := by
  have hd := h.dict_pos
  have hoff : w.offsetOf 0 = .ok w.cursor := by
    unfold Circ.offsetOf subChk
    simp only [Nat.zero_le, if_true, bind, Except.bind, Nat.sub_zero, if_neg (Nat.ne_of_gt hd),
      Nat.add_mod_left, Nat.mod_eq_of_lt h.cursor_lt]
    rfl
  have : w.appendLz len 0 s = Circ.copyLoop len w w.cursor s := by
    unfold Circ.appendLz
    simp only [gt_iff_lt, Nat.not_lt_zero, if_false, bind_run, hoff, liftE_ok]
  rw [this]
  exact Circ.copyLoop_zero len h hs

/-! ## Decidable equality of results (for the concrete `example`s; explicit names to avoid
clashes with instances other proof files may derive) -/

instance Window.decEqSink : DecidableEq Sink := fun a b =>
  decidable_of_iff (a.out = b.out ∧ a.script = b.script ∧ a.writes = b.writes ∧
      a.flushes = b.flushes ∧ a.lastFlush = b.lastFlush)
    ⟨fun ⟨h1, h2, h3, h4, h5⟩ => Sink.ext' h1 h2 h3 h4 h5, fun h => h ▸ ⟨rfl, rfl, rfl, rfl, rfl⟩⟩

instance Window.decEqCirc : DecidableEq Circ := fun a b =>
  decidable_of_iff (a.buf = b.buf ∧ a.dictSize = b.dictSize ∧ a.memlimit = b.memlimit ∧
      a.cursor = b.cursor ∧ a.len = b.len)
    ⟨fun h => by cases a; cases b; simp_all, fun h => h ▸ ⟨rfl, rfl, rfl, rfl, rfl⟩⟩

instance Window.decEqAccum : DecidableEq Accum := fun a b =>
  decidable_of_iff (a.buf = b.buf ∧ a.memlimit = b.memlimit ∧ a.len = b.len)
    ⟨fun h => by cases a; cases b; simp_all, fun h => h ▸ ⟨rfl, rfl, rfl⟩⟩

instance Window.decEqExcept {α : Type} [DecidableEq α] : DecidableEq (Except Err α)
  | .ok a, .ok b => if h : a = b then isTrue (h ▸ rfl) else isFalse (fun e => h (Except.ok.inj e))
  | .error a, .error b =>
    if h : a = b then isTrue (h ▸ rfl) else isFalse (fun e => h (Except.error.inj e))
  | .ok _, .error _ => isFalse nofun
  | .error _, .ok _ => isFalse nofun

end Lzma
