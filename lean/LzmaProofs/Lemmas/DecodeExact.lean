/-
  End-to-end exactness, part 4: one symbol (`decode_bits`, `decode_step`) and a whole program
  (`decode_prog`) of the reference encoder are decoded by `processNext` / the Finish-mode loop,
  from ANY coupled starting state (`DecEnc`) and any window model; plus the glue for the top-level
  theorems (reader length, fuel, the end marker).
-/
import LzmaProofs.Lemmas.DecodeExactEnc
import LzmaProofs.Lemmas.ProcessMode
namespace Lzma
open DState REnc

variable {ω : Type} [LzBuf ω]

/-! ## `runDec` never resizes the literal table -/

theorem Probs.set_lit_size (p : Probs) (i : PIdx) (v : Nat) : (p.set i v).lit.size = p.lit.size := by
  cases i <;> simp [Probs.set, Probs.setLen] <;> split <;> rfl

theorem runDec_lit_size {α : Type} (t : Coder PIdx α) : ∀ (p : Probs) (rc : RC) (rd : Rd) (a : α)
    (p' : Probs) (rc' : RC) (rd' : Rd), runDec true t p rc rd = .ok (a, p', rc', rd') →
    p'.lit.size = p.lit.size := by
  induction t with
  | ret a0 => intro p rc rd a p' rc' rd' h; simp only [runDec] at h; cases h; rfl
  | fail x => intro p rc rd a p' rc' rd' h; simp [runDec] at h
  | bit i k ih =>
    intro p rc rd a p' rc' rd' h
    simp only [runDec] at h
    split at h
    · cases h
    · split at h
      · cases h
      · have := ih _ _ _ _ _ _ _ _ h
        rw [this]
        exact Probs.set_lit_size p i _
  | direct k ih =>
    intro p rc rd a p' rc' rd' h
    simp only [runDec] at h
    split at h
    · cases h
    · exact ih _ _ _ _ _ _ _ _ h

/-! ## one symbol -/

section step
variable {M : WinModel ω} {T : Bytes} {snkF snkB : Sink} {probsF : Probs} {eF e2 : REnc}

/-- **The bits of one symbol.**  In a coupled state, if the encoder goes on with the events of
the raw symbol `raw` (well-formed; the end marker included), the decoder's `symTree` run returns
`raw`, adapts the probabilities as the encoder does and stays in simulation. -/
theorem decode_bits (hfin : eF.finish snkF = (snkB, .ok e2))
    {s : DState} {w : ω} {k : Sink} {es : EncSt} (hinv : DecEnc M s w k es)
    {raw : RawSym} (hwf : raw.WF) {e : REnc} {esnk : Sink} {rc : RC} {rd : Rd} {restEvs : List Ev}
    (hs : esnk.script = []) (hsim : RcSim snkB.out.toList T e esnk.out.toList rc rd)
    (henc : encodeEvents (rawSymEvents es.ctx raw ++ restEvs) es.probs e esnk =
      (snkF, .ok (probsF, eF))) :
    ∃ probs' e' esnk' rc' rd',
      runDec true (symTree (s.mkCtx w)) s.probs rc rd = .ok (raw, probs', rc', rd') ∧
      esnk'.script = [] ∧ ProbsOk probs' ∧ probs'.lit.size = es.probs.lit.size ∧
      RcSim snkB.out.toList T e' esnk'.out.toList rc' rd' ∧
      encodeEvents restEvs probs' e' esnk' = (snkF, .ok (probsF, eF)) ∧ rd'.bad = rd.bad := by
  have hrun := sym_roundtrip_lemma (s.mkCtx w) es.ctx raw (hinv.ctx raw) hwf restEvs
  obtain ⟨probs', e', esnk', rc', rd', hd, hs', hp', hsim', henc', hbad, -⟩ :=
    runDec_sim (T := T) hfin (symTree (s.mkCtx w)) _ restEvs raw es.probs e esnk rc rd hs hinv.pok
      hsim hrun henc
  rw [← hinv.probs] at hd
  refine ⟨probs', e', esnk', rc', rd', hd, hs', hp', ?_, hsim', henc', hbad⟩
  rw [← hinv.probs]
  exact runDec_lit_size _ _ _ _ _ _ _ _ hd

/-- **One symbol.**  In a coupled state, if `sym` is well-formed in the spec (`SpecSt.step`
succeeds, no end marker) and the encoder goes on with its events, then `process_next` returns
`Continue` and the coupling holds for the spec's next state. -/
theorem decode_step (hfin : eF.finish snkF = (snkB, .ok e2))
    {s : DState} {w : ω} {k : Sink} {es : EncSt} (hinv : DecEnc M s w k es)
    {dict : Nat} (hdict : dict ≤ M.lim) {sym : Sym} {spec' : SpecSt}
    (hstep : SpecSt.step dict es.spec sym = some (spec', false)) (hfit : M.Fits spec'.hist.size)
    {e : REnc} {esnk : Sink} {rc : RC} {rd : Rd} {restEvs : List Ev}
    (hs : esnk.script = []) (hsim : RcSim snkB.out.toList T e esnk.out.toList rc rd)
    (henc : encodeEvents (rawSymEvents es.ctx sym.toRaw ++ restEvs) es.probs e esnk =
      (snkF, .ok (probsF, eF))) :
    ∃ s' w' k' probs' e' esnk' rc' rd',
      processNext s w rc rd k = (k', .ok (.continue, s', w', rc', rd')) ∧
      DecEnc M s' w' k' { es with probs := probs', spec := spec' } ∧
      esnk'.script = [] ∧ RcSim snkB.out.toList T e' esnk'.out.toList rc' rd' ∧
      encodeEvents restEvs probs' e' esnk' = (snkF, .ok (probsF, eF)) ∧ rd'.bad = rd.bad := by
  obtain ⟨probs', e', esnk', rc', rd', hd, hs', hp', hsz, hsim', henc', hbad⟩ :=
    decode_bits hfin hinv (Sym.toRaw_wf hstep) hs hsim henc
  have hinv' := hinv.withProbs hp' hsz
  obtain ⟨s', w', k', happ, hinv''⟩ := hinv'.apply_step hdict (sym := sym) hstep hfit rc' rd'
  exact ⟨s', w', k', probs', e', esnk', rc', rd', processNext_ok_iff.2 ⟨_, probs', hd, happ⟩,
    hinv'', hs', hsim', henc', hbad⟩

/-- in simulation, the reader holds one byte per normalisation shift still to come, plus `T` -/
theorem RcSim.rem_length (hfin : eF.finish snkF = (snkB, .ok e2))
    {evs : List Ev} {probs : Probs} {e : REnc} {esnk : Sink} {rc : RC} {rd : Rd}
    (hs : esnk.script = []) (hp : ProbsOk probs)
    (hsim : RcSim snkB.out.toList T e esnk.out.toList rc rd)
    (henc : encodeEvents evs probs e esnk = (snkF, .ok (probsF, eF))) :
    rd.rem.length = normCount evs probs e + T.length := by
  obtain ⟨-, -, -, -, hl, -⟩ := encode_future evs probs e esnk snkF snkB probsF eF e2 hs hsim.ok hp henc hfin
  have hen := encode_en evs probs e esnk snkF probsF eF hs hsim.ok hp henc
  have hr := hsim.rem
  have hlen := hsim.len
  rw [hr, List.length_append, List.length_drop]
  omega

end step

/-! ## spec facts: every symbol produces output -/

theorem SpecSt.step_grows {dict : Nat} {st st' : SpecSt} {sym : Sym}
    (h : SpecSt.step dict st sym = some (st', false)) : st.hist.size < st'.hist.size := by
  cases sym with
  | eos => simp [SpecSt.step] at h
  | lit b =>
    simp only [SpecSt.step, Option.some.injEq, Prod.mk.injEq, and_true] at h
    subst h; simp
  | mtch dist len =>
    simp only [SpecSt.step] at h
    split at h
    · cases h
    · obtain ⟨h', hc, hs'⟩ := Option.map_eq_some_iff.1 h
      simp only [Prod.mk.injEq, and_true] at hs'
      subst hs'
      obtain ⟨-, hh⟩ := SpecSt.copy_spec _ _ _ _ hc
      have : h'.size = st.hist.size + len := by rw [← Array.length_toList, hh]; simp
      simp only [this]; omega
  | shortRep =>
    simp only [SpecSt.step] at h
    split at h
    · cases h
    · obtain ⟨h', hc, hs'⟩ := Option.map_eq_some_iff.1 h
      simp only [Prod.mk.injEq, and_true] at hs'
      subst hs'
      obtain ⟨-, hh⟩ := SpecSt.copy_spec _ _ _ _ hc
      have : h'.size = st.hist.size + 1 := by rw [← Array.length_toList, hh]; simp
      simp only [this]; omega
  | rep idx len =>
    simp only [SpecSt.step] at h
    split at h
    · cases h
    · rename_i hg
      have hidx : idx = 0 ∨ idx = 1 ∨ idx = 2 ∨ idx = 3 := by omega
      rcases hidx with rfl | rfl | rfl | rfl <;>
      · simp only at h
        split at h
        · cases h
        · obtain ⟨h', hc, hs'⟩ := Option.map_eq_some_iff.1 h
          simp only [Prod.mk.injEq, and_true] at hs'
          subst hs'
          obtain ⟨-, hh⟩ := SpecSt.copy_spec _ _ _ _ hc
          have : h'.size = st.hist.size + len := by rw [← Array.length_toList, hh]; simp
          simp only [this]; omega

theorem SpecSt.run_mono {dict : Nat} : ∀ (prog : List Sym) (st st' : SpecSt),
    SpecSt.run dict st prog = some (st', false) → st.hist.size ≤ st'.hist.size
  | [], st, st', h => by
    simp only [SpecSt.run, Option.some.injEq, Prod.mk.injEq, and_true] at h
    subst h; exact Nat.le_refl _
  | sym :: rest, st, st', h => by
    simp only [SpecSt.run] at h
    split at h
    · cases h
    · split at h <;> cases h
    · rename_i st1 hs
      have := SpecSt.step_grows hs
      have := SpecSt.run_mono rest st1 st' h
      omega

/-- the first step of a successful run without end marker -/
theorem SpecSt.run_cons {dict : Nat} {sym : Sym} {rest : List Sym} {st st' : SpecSt}
    (h : SpecSt.run dict st (sym :: rest) = some (st', false)) :
    ∃ st1, SpecSt.step dict st sym = some (st1, false) ∧ SpecSt.run dict st1 rest = some (st', false) := by
  simp only [SpecSt.run] at h
  split at h
  · cases h
  · split at h <;> cases h
  · rename_i st1 hs
    exact ⟨st1, hs, h⟩

/-- only the end marker sets the end flag -/
theorem SpecSt.step_flag {dict : Nat} {st st' : SpecSt} {sym : Sym}
    (h : SpecSt.step dict st sym = some (st', true)) : sym = .eos := by
  cases sym with
  | eos => rfl
  | lit b => simp [SpecSt.step] at h
  | mtch dist len =>
    simp only [SpecSt.step] at h
    split at h
    · cases h
    · obtain ⟨_, _, h2⟩ := Option.map_eq_some_iff.1 h; cases h2
  | shortRep =>
    simp only [SpecSt.step] at h
    split at h
    · cases h
    · obtain ⟨_, _, h2⟩ := Option.map_eq_some_iff.1 h; cases h2
  | rep idx len =>
    simp only [SpecSt.step] at h
    split at h
    · cases h
    · rename_i hg
      have hidx : idx = 0 ∨ idx = 1 ∨ idx = 2 ∨ idx = 3 := by omega
      rcases hidx with rfl | rfl | rfl | rfl <;>
      · simp only at h
        split at h
        · cases h
        · obtain ⟨_, _, h2⟩ := Option.map_eq_some_iff.1 h; cases h2

/-- a program without end marker never ends with the end flag -/
theorem SpecSt.run_flag {dict : Nat} : ∀ (prog : List Sym) (s0 st : SpecSt) (b : Bool),
    Sym.eos ∉ prog → SpecSt.run dict s0 prog = some (st, b) → b = false
  | [], s0, st, b, _, h => by
    simp only [SpecSt.run, Option.some.injEq, Prod.mk.injEq] at h; exact h.2.symm
  | sym :: rest, s0, st, b, hn, h => by
    simp only [SpecSt.run] at h
    split at h
    · cases h
    · rename_i st1 hs
      have := SpecSt.step_flag hs
      subst this
      exact absurd List.mem_cons_self hn
    · rename_i st1 hs
      exact SpecSt.run_flag rest st1 st b (fun hm => hn (List.mem_cons_of_mem _ hm)) h

/-! ## the loop tests -/

theorem isFinishedOk_of_rem {rc : RC} {rd : Rd} (h : rd.rem ≠ []) : rc.isFinishedOk rd = .ok false := by
  unfold RC.isFinishedOk Rd.isEof
  split
  · cases hr : rd.rem with
    | nil => exact absurd hr h
    | cons b r => simp
  · rfl

theorem fillBuf_of_good {rd : Rd} (h : rd.bad = false) : rd.fillBuf = .ok () := by
  simp [Rd.fillBuf, h]

/-! ## a whole program -/

/-- **A whole program.**  From ANY coupled state (`DecEnc`: adapted probabilities, any `state`,
`rep`s and history), if `prog` (no end marker) is well-formed in the spec from there and the
encoder goes on with its events followed by `restEvs`, the Finish-mode loop performs
`prog.length` full iterations — provided its top-of-loop test cannot fire early: either a size
is in effect that the program does not exceed, or no size is in effect and the reader cannot
run dry (`T ≠ []`, or what follows forces a read, e.g. an end marker). -/
theorem decode_prog {M : WinModel ω} {dict : Nat} (hdict : dict ≤ M.lim) {T : Bytes}
    {snkF snkB : Sink} {probsF : Probs} {eF e2 : REnc} (hfin : eF.finish snkF = (snkB, .ok e2))
    (restEvs : List Ev) :
    ∀ (prog : List Sym) (s : DState) (w : ω) (k : Sink) (es : EncSt) (e : REnc) (esnk : Sink)
      (rc : RC) (rd : Rd) (st' : SpecSt),
    DecEnc M s w k es → SpecSt.run dict es.spec prog = some (st', false) →
    M.Fits st'.hist.size → s.partialBuf = [] → rd.bad = false →
    ((∃ n, s.unpackedSize = some n ∧ st'.hist.size ≤ n) ∨
      (s.unpackedSize = none ∧ (T ≠ [] ∨ ForcesRead restEvs))) →
    esnk.script = [] → RcSim snkB.out.toList T e esnk.out.toList rc rd →
    encodeEvents (progEvents dict es.props es.spec prog ++ restEvs) es.probs e esnk =
      (snkF, .ok (probsF, eF)) →
    ∃ s' w' k' probs' e' esnk' rc' rd',
      FinishSteps ⟨s, w, rc, rd, k⟩ prog.length ⟨s', w', rc', rd', k'⟩ ∧
      DecEnc M s' w' k' { es with probs := probs', spec := st' } ∧
      esnk'.script = [] ∧ RcSim snkB.out.toList T e' esnk'.out.toList rc' rd' ∧
      encodeEvents restEvs probs' e' esnk' = (snkF, .ok (probsF, eF)) ∧ rd'.bad = false ∧
      s'.partialBuf = [] ∧ s'.unpackedSize = s.unpackedSize
  | [], s, w, k, es, e, esnk, rc, rd, st', hinv, hrun, _, hpb, hbad, _, hs, hsim, henc => by
    simp only [SpecSt.run, Option.some.injEq, Prod.mk.injEq, and_true] at hrun
    subst hrun
    exact ⟨s, w, k, es.probs, e, esnk, rc, rd, .refl _, hinv, hs, hsim, henc, hbad, hpb, rfl⟩
  | sym :: rest, s, w, k, es, e, esnk, rc, rd, st', hinv, hrun, hfit, hpb, hbad, hmode, hs, hsim, henc => by
    obtain ⟨st1, hstep, hrun1⟩ := SpecSt.run_cons hrun
    have hgrow := SpecSt.step_grows hstep
    have hmono := SpecSt.run_mono rest st1 st' hrun1
    have hlen : LzBuf.len w = es.spec.hist.size := by rw [M.len hinv.win, Array.length_toList]
    -- the events of this symbol come first
    have hev : progEvents dict es.props es.spec (sym :: rest) ++ restEvs =
        rawSymEvents es.ctx sym.toRaw ++ (progEvents dict es.props st1 rest ++ restEvs) := by
      simp only [progEvents, nextSpec_of_step hstep, List.append_assoc, EncSt.ctx_eq]
    rw [hev] at henc
    -- the top-of-loop test does not fire
    have hstop : stopTest .finish s w rc rd = .ok false := by
      rcases hmode with ⟨n, hu, hn⟩ | ⟨hu, hne⟩
      · rw [stopTest_some hu, hlen]
        have : ¬ n ≤ es.spec.hist.size := by omega
        simp [this]
      · rw [stopTest_none_finish hu hpb]
        apply isFinishedOk_of_rem
        have hl := RcSim.rem_length hfin hs hinv.pok hsim henc
        rcases hne with hT | hF
        · intro h0
          have : T.length = 0 := by rw [h0] at hl; simp at hl; omega
          exact hT (List.eq_nil_of_length_eq_zero this)
        · have hfr : ForcesRead (rawSymEvents es.ctx sym.toRaw ++
              (progEvents dict es.props st1 rest ++ restEvs)) := by
            rw [← List.append_assoc]
            exact ForcesRead.append_left _ hF
          have := hfr _ _ _ _ _ hs hsim.ok hinv.pok henc
          intro h0
          rw [h0] at hl; simp at hl; omega
    obtain ⟨s1, w1, k1, probs1, e1, esnk1, rc1, rd1, hnext, hinv1, hs1, hsim1, henc1, hbad1⟩ :=
      decode_step hfin hinv hdict hstep (M.fits_mono hmono hfit) hs hsim henc
    obtain ⟨hu1, -, hpb1⟩ := processNext_fields hnext
    have hmode1 : (∃ n, s1.unpackedSize = some n ∧ st'.hist.size ≤ n) ∨
        (s1.unpackedSize = none ∧ (T ≠ [] ∨ ForcesRead restEvs)) := by rw [hu1]; exact hmode
    obtain ⟨s', w', k', probs', e', esnk', rc', rd', hsteps, hinv', hs', hsim', henc', hbad', hpb', hu'⟩ :=
      decode_prog hdict hfin restEvs rest s1 w1 k1 { es with probs := probs1, spec := st1 } e1 esnk1
        rc1 rd1 st' hinv1 hrun1 hfit (hpb1.trans hpb) (hbad1.trans hbad) hmode1 hs1 hsim1 henc1
    exact ⟨s', w', k', probs', e', esnk', rc', rd',
      .step hstop (fillBuf_of_good hbad) hnext hsteps, hinv', hs', hsim', henc', hbad', hpb',
      hu'.trans hu1⟩

/-! ## the end marker -/

/-- **The end marker.**  In a coupled state, if the encoder's last events are those of the end
marker and nothing follows the payload (`T = []`, clean reader), `process_next` returns
`Finished`, leaving window and sink alone and the reader empty. -/
theorem decode_marker {M : WinModel ω} {snkF snkB : Sink} {probsF : Probs} {eF e2 : REnc}
    (hfin : eF.finish snkF = (snkB, .ok e2))
    {s : DState} {w : ω} {k : Sink} {es : EncSt} (hinv : DecEnc M s w k es)
    {e : REnc} {esnk : Sink} {rc : RC} {rd : Rd}
    (hs : esnk.script = []) (hbad : rd.bad = false)
    (hsim : RcSim snkB.out.toList [] e esnk.out.toList rc rd)
    (henc : encodeEvents (rawSymEvents es.ctx (Sym.eos).toRaw) es.probs e esnk =
      (snkF, .ok (probsF, eF))) :
    ∃ s' rc', processNext s w rc rd k = (k, .ok (.finished, s', w, rc', { rem := [], bad := false })) ∧
      s'.partialBuf = s.partialBuf ∧ s'.unpackedSize = s.unpackedSize := by
  have henc0 : encodeEvents (rawSymEvents es.ctx (Sym.eos).toRaw ++ []) es.probs e esnk =
      (snkF, .ok (probsF, eF)) := by rw [List.append_nil]; exact henc
  obtain ⟨probs', e', esnk', rc', rd', hd, hs', hp', -, hsim', henc', hbad'⟩ :=
    decode_bits hfin hinv (raw := (Sym.eos).toRaw) (by decide) hs hsim henc0
  obtain ⟨hrem, hcode, -⟩ := rc_roundtrip_final hs' hp' hsim' henc' hfin
  have hrd : rd' = { rem := [], bad := false } := by
    rcases rd' with ⟨r, b⟩
    simp only at hrem hbad'
    rw [hrem, hbad', hbad]
  subst hrd
  have hfinok : rc'.isFinishedOk { rem := [], bad := false } = .ok true :=
    isFinishedOk_iff.2 ⟨hcode, rfl, rfl⟩
  have hnext := (processNext_finished_iff (snk := k) (snk' := k)).2 ⟨0, probs', hd, hfinok, rfl, rfl, rfl⟩
  obtain ⟨h1, -, h3⟩ := processNext_fields hnext
  exact ⟨_, rc', hnext, h3, h1⟩

/-! ## fuel -/

/-- a `FinishRun` is what the loop computes with ANY fuel that does not run out (so the
termination theorem `processLoop_terminates` supplies the fuel bound) -/
theorem DState.FinishRun.loop_ok_of_ne_fuel {c c' : Cfg ω} {k : Nat} {x : Exit} (h : FinishRun c k x c') :
    c.s.partialBuf = [] → ∀ fuel,
    (processLoop .finish fuel c.s c.w c.rc c.rd c.snk).2 ≠ .error .fuel →
    processLoop .finish fuel c.s c.w c.rc c.rd c.snk = (c'.snk, .ok (c'.s, c'.w, c'.rc, c'.rd)) := by
  induction h with
  | @sizeReached c n hu hlen =>
    intro hp fuel hne
    cases fuel with
    | zero => exact absurd rfl hne
    | succ f =>
      rw [processLoop_finish_succ hp]
      simp [bind_run, stopTest_some hu, hlen]
  | @cleanEof c hu hfin =>
    intro hp fuel hne
    cases fuel with
    | zero => exact absurd rfl hne
    | succ f =>
      rw [processLoop_finish_succ hp]
      simp [bind_run, stopTest_none_finish hu hp, hfin]
  | marker hstop hfill hn =>
    intro hp fuel hne
    cases fuel with
    | zero => exact absurd rfl hne
    | succ f =>
      rw [processLoop_finish_succ hp]
      simp [bind_run, hstop, hfill, hn]
  | step hstop hfill hn _ ih =>
    intro hp fuel hne
    cases fuel with
    | zero => exact absurd rfl hne
    | succ f =>
      rw [processLoop_finish_succ hp] at hne ⊢
      simp only [bind_run, hstop, hfill, liftE_ok, hn, Bool.false_eq_true, if_false,
        reduceCtorEq] at hne ⊢
      exact ih ((processNext_fields hn).2.2.trans hp) f hne

/-- a prefix of full iterations followed by a failing `process_next`: with ANY fuel that does
not run out the loop returns that error and the sink of that moment -/
theorem DState.FinishSteps.loop_err_of_ne_fuel {c c1 : Cfg ω} {k : Nat} (h : FinishSteps c k c1) :
    c.s.partialBuf = [] → ∀ {snk1 : Sink} {x : Err},
    stopTest .finish c1.s c1.w c1.rc c1.rd = .ok false → c1.rd.fillBuf = .ok () →
    processNext c1.s c1.w c1.rc c1.rd c1.snk = (snk1, .error x) → ∀ fuel,
    (processLoop .finish fuel c.s c.w c.rc c.rd c.snk).2 ≠ .error .fuel →
    processLoop .finish fuel c.s c.w c.rc c.rd c.snk = (snk1, .error x) := by
  induction h with
  | refl c =>
    intro hp snk1 x hstop hfill hn fuel hne
    cases fuel with
    | zero => exact absurd rfl hne
    | succ f =>
      rw [processLoop_finish_succ hp]
      simp [bind_run, hstop, hfill, hn]
  | step hstop hfill hn _ ih =>
    intro hp snk1 x hstop1 hfill1 hn1 fuel hne
    cases fuel with
    | zero => exact absurd rfl hne
    | succ f =>
      rw [processLoop_finish_succ hp] at hne ⊢
      simp only [bind_run, hstop, hfill, liftE_ok, hn, Bool.false_eq_true, if_false,
        reduceCtorEq] at hne ⊢
      exact ih ((processNext_fields hn).2.2.trans hp) hstop1 hfill1 hn1 f hne

/-! ## a copy that reaches outside the window -/

/-- the distance-minus-one a `rep idx` symbol selects -/
def SpecSt.repSel (st : SpecSt) : Nat → Nat
  | 0 => st.rep0
  | 1 => st.rep1
  | 2 => st.rep2
  | _ => st.rep3

/-- `sym` is a syntactically valid copy whose distance exceeds `min (history) (dictionary)` -/
def Sym.OutOfWindow (dict : Nat) (st : SpecSt) : Sym → Prop
  | .mtch d l => 2 ≤ l ∧ l ≤ 273 ∧ 1 ≤ d ∧ d ≤ 0xFFFFFFFF ∧ d > min st.hist.size dict
  | .shortRep => st.rep0 + 1 > min st.hist.size dict
  | .rep i l => i ≤ 3 ∧ 2 ≤ l ∧ l ≤ 273 ∧ st.repSel i + 1 > min st.hist.size dict
  | _ => False

instance (dict : Nat) (st : SpecSt) : DecidablePred (Sym.OutOfWindow dict st) := fun s => by
  cases s <;> simp only [Sym.OutOfWindow] <;> infer_instance

theorem Sym.OutOfWindow.rawOk {dict : Nat} {st : SpecSt} {sym : Sym} (h : sym.OutOfWindow dict st) :
    sym.toRaw.WF := by
  cases sym with
  | lit b => exact absurd h id
  | eos => exact absurd h id
  | shortRep => trivial
  | mtch d l =>
    obtain ⟨h1, h2, h3, h4, -⟩ := h
    show l - 2 < 272 ∧ d - 1 < 2 ^ 32
    omega
  | rep i l =>
    obtain ⟨h1, h2, h3, -⟩ := h
    show i ≤ 3 ∧ l - 2 < 272
    omega

/-- such a symbol is ill-formed in the spec: the program has no meaning -/
theorem Sym.OutOfWindow.step_none {dict : Nat} {st : SpecSt} {sym : Sym} (h : sym.OutOfWindow dict st) :
    SpecSt.step dict st sym = none := by
  cases sym with
  | lit b => exact absurd h id
  | eos => exact absurd h id
  | mtch d l =>
    obtain ⟨h1, h2, h3, h4, h5⟩ := h
    simp only [SpecSt.step]
    split
    · rfl
    · rename_i hg
      obtain ⟨n, rfl⟩ : ∃ n, l = n + 1 := ⟨l - 1, by omega⟩
      rw [(SpecSt.copy_eq_none_iff n d st.hist).2 (by omega)]
      rfl
  | shortRep =>
    have h5 : st.rep0 + 1 > min st.hist.size dict := h
    simp only [SpecSt.step]
    split
    · rfl
    · rename_i hg
      rw [(SpecSt.copy_eq_none_iff 0 (st.rep0 + 1) st.hist).2 (by omega)]
      rfl
  | rep i l =>
    obtain ⟨h1, h2, h3, h5⟩ := h
    simp only [SpecSt.step]
    rw [if_neg (by omega)]
    obtain ⟨n, rfl⟩ : ∃ n, l = n + 1 := ⟨l - 1, by omega⟩
    have hidx : i = 0 ∨ i = 1 ∨ i = 2 ∨ i = 3 := by omega
    rcases hidx with rfl | rfl | rfl | rfl <;>
    · simp only [SpecSt.repSel] at h5
      simp only
      split
      · rfl
      · rename_i hg
        rw [(SpecSt.copy_eq_none_iff n _ st.hist).2 (by omega)]
        rfl

/-- the decoder's effects for such a symbol on the circular window: `append_lz` refuses the
distance with `LzmaError` and nothing reaches the sink -/
theorem applySym_outOfWindow {d m : Nat} {s0 : Sink} {s : DState} {w : Circ} {k : Sink} {es : EncSt}
    (hinv : DecEnc (circModel d m s0) s w k es) {sym : Sym} (hb : sym.OutOfWindow d es.spec)
    (rc : RC) (rd : Rd) : applySym s w rc rd sym.toRaw k = (k, .error .lzma) := by
  obtain ⟨hci, hd, -, hp, -⟩ := hinv.win
  have hlen : es.spec.hist.toList.length = es.spec.hist.size := Array.length_toList
  have key : ∀ (len dist : Nat), 1 ≤ dist → dist > min es.spec.hist.size d →
      LzBuf.appendLz w len dist k = (k, .error .lzma) := by
    intro len dist h1 h2
    have := Circ.appendLz_spec (s := k) len (dist := dist) hci hp h1
    rw [if_neg (by rw [hd, hlen]; omega)] at this
    exact this
  cases sym with
  | lit b => exact absurd hb id
  | eos => exact absurd hb id
  | mtch dist l =>
    obtain ⟨h1, h2, h3, h4, h5⟩ := hb
    have e2 : dist - 1 + 1 = dist := by omega
    have e3 : ¬ dist - 1 = 0xFFFFFFFF := by omega
    simp only [Sym.toRaw, applySym, e3, if_false, bind_run, e2, key _ dist h3 h5]
  | shortRep =>
    have h5 : es.spec.rep0 + 1 > min es.spec.hist.size d := hb
    simp only [Sym.toRaw, applySym, bind_run, hinv.rep0, key _ _ (by omega) h5]
  | rep i l =>
    obtain ⟨h1, h2, h3, h5⟩ := hb
    have hidx : i = 0 ∨ i = 1 ∨ i = 2 ∨ i = 3 := by omega
    rcases hidx with rfl | rfl | rfl | rfl <;>
    · simp only [SpecSt.repSel] at h5
      simp only [Sym.toRaw, applySym, bind_run, hinv.rep0, hinv.rep1, hinv.rep2, hinv.rep3,
        key _ _ (by omega) h5]

/-- **One out-of-window symbol**: its bits are decoded, then `process_next` fails with
`LzmaError`, the sink untouched. -/
theorem decode_bad_step {d m : Nat} {s0 : Sink} {T : Bytes} {snkF snkB : Sink} {probsF : Probs}
    {eF e2 : REnc} (hfin : eF.finish snkF = (snkB, .ok e2))
    {s : DState} {w : Circ} {k : Sink} {es : EncSt} (hinv : DecEnc (circModel d m s0) s w k es)
    {sym : Sym} (hb : sym.OutOfWindow d es.spec)
    {e : REnc} {esnk : Sink} {rc : RC} {rd : Rd} {restEvs : List Ev}
    (hs : esnk.script = []) (hsim : RcSim snkB.out.toList T e esnk.out.toList rc rd)
    (henc : encodeEvents (rawSymEvents es.ctx sym.toRaw ++ restEvs) es.probs e esnk =
      (snkF, .ok (probsF, eF))) :
    processNext s w rc rd k = (k, .error .lzma) := by
  obtain ⟨probs', e', esnk', rc', rd', hd, hs', hp', hsz, -, -, -⟩ :=
    decode_bits hfin hinv hb.rawOk hs hsim henc
  have hinv' := hinv.withProbs hp' hsz
  have happ := applySym_outOfWindow hinv' (sym := sym) hb rc' rd'
  simp only [processNext, bind_run, hd, liftE_ok, happ]

end Lzma
