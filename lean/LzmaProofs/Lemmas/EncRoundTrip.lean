/-
  Encoder round trip, helper lemmas (agent `encrt`).

  `Lemmas/DecodeExactTop.lean` assembles `lzmaDecompress` from a Finish-mode run of the symbol
  loop for the 13-byte header read with `UnpackedSize::ReadFromHeader`.  Here the same assembly
  is done for ANY header/option pair, abstracted as "`read_header` on `hdr ++ rest` returns
  `props`, `dict`, the size in effect `u`, and stands at `rest`" (`HeaderReads`), and instantiated
  for the two remaining option kinds:
    * `UseProvided(x)` on the 5-byte header (`lzmaHeader props D none`),
    * `ReadHeaderButUseProvided(x)` on the 13-byte header whose size field is ignored.
  Then the two end-to-end exactness theorems (`decode_exact_sized_of_header`,
  `decode_exact_marker_of_header`) are proved for any such header; the decoding core
  (`decode_prog`, `decode_marker`, `rc_roundtrip_*`) is used unchanged.
-/
import LzmaProofs.Lemmas.DecodeExactTop
namespace Lzma.EncRT
open Lzma DState REnc

/-! ## the header, for the three option kinds -/

/-- `read_header` with options `opts` on `hdr ++ rest` (any `rest`) returns `props`, `dict`,
the size in effect `u`, and stands right behind `hdr` -/
def HeaderReads (hdr : Bytes) (opts : Options) (props : Props) (dict : Nat) (u : Option Nat) : Prop :=
  ∀ rest : Bytes, readHeader (Rd.ofBytes (hdr ++ rest)) opts =
    .ok ({ props := props, dictSize := dict, unpackedSize := u }, { rem := rest })

/-- 13-byte header, `ReadFromHeader` (restates `readHeader_lzmaHeader`) -/
theorem headerReads_fromHeader {props : Props} (hp : Safety.PropsOk props) {D : Nat} (hD : D < 2 ^ 32)
    {field : Nat} (hf : field < 2 ^ 64) {opts : Options} (hopt : opts.unpackedSize = .readFromHeader) :
    HeaderReads (lzmaHeader props D (some field)) opts props (max D 4096) (sizeOfField field) :=
  fun rest => readHeader_lzmaHeader hp hD hf rest hopt

theorem props_byte {props : Props} (hp : Safety.PropsOk props) :
    (UInt8.ofNat (props.lc + 9 * (props.lp + 5 * props.pb))).toNat =
      props.lc + 9 * (props.lp + 5 * props.pb) ∧
    ({ lc := (props.lc + 9 * (props.lp + 5 * props.pb)) % 9,
       lp := (props.lc + 9 * (props.lp + 5 * props.pb)) / 9 % 5,
       pb := (props.lc + 9 * (props.lp + 5 * props.pb)) / 45 } : Props) = props := by
  obtain ⟨hlc, hlp, hpb⟩ := hp
  constructor
  · rw [UInt8.toNat_ofNat']; omega
  · rcases props with ⟨lc, lp, pb⟩
    simp only at hlc hlp hpb ⊢
    congr 1 <;> omega

/-- 5-byte header (no size field), `UseProvided(x)`: the size in effect is `x` -/
theorem headerReads_provided {props : Props} (hp : Safety.PropsOk props) {D : Nat} (hD : D < 2 ^ 32)
    {opts : Options} {x : Option Nat} (hopt : opts.unpackedSize = .useProvided x) :
    HeaderReads (lzmaHeader props D none) opts props (max D 4096) x := by
  intro rest
  obtain ⟨hb, hprops⟩ := props_byte hp
  obtain ⟨hlc, hlp, hpb⟩ := hp
  rw [readHeader_eq]
  have hrem : (Rd.ofBytes (lzmaHeader props D none ++ rest)).rem =
      UInt8.ofNat (props.lc + 9 * (props.lp + 5 * props.pb)) :: (leBytes 4 D ++ rest) := by
    simp [Rd.ofBytes, lzmaHeader]
  have hl4 := top_leBytes_length 4 D
  rw [hrem]
  simp only [hb, hopt, hdrLen]
  rw [if_neg (by omega), if_neg (by simp [hl4])]
  have e1 : (leBytes 4 D ++ rest).take 4 = leBytes 4 D := List.take_left' hl4
  have e3 : (UInt8.ofNat (props.lc + 9 * (props.lp + 5 * props.pb)) ::
      (leBytes 4 D ++ rest)).drop 5 = rest := by
    rw [show (5 : Nat) = 4 + 1 by rfl, List.drop_succ_cons]
    exact List.drop_left' hl4
  simp only [hdrParams, hb, e1, e3, hprops, effSize, top_leVal_leBytes 4 D (by simpa using hD),
    Rd.ofBytes]

/-- 13-byte header, `ReadHeaderButUseProvided(x)`: the size field (any value) is skipped and the
size in effect is `x` -/
theorem headerReads_ignored {props : Props} (hp : Safety.PropsOk props) {D : Nat} (hD : D < 2 ^ 32)
    (field : Nat) {opts : Options} {x : Option Nat}
    (hopt : opts.unpackedSize = .readHeaderButUseProvided x) :
    HeaderReads (lzmaHeader props D (some field)) opts props (max D 4096) x := by
  intro rest
  obtain ⟨hb, hprops⟩ := props_byte hp
  obtain ⟨hlc, hlp, hpb⟩ := hp
  rw [readHeader_eq]
  have hrem : (Rd.ofBytes (lzmaHeader props D (some field) ++ rest)).rem =
      UInt8.ofNat (props.lc + 9 * (props.lp + 5 * props.pb)) ::
        (leBytes 4 D ++ (leBytes 8 field ++ rest)) := by
    simp [Rd.ofBytes, lzmaHeader, List.append_assoc]
  have hl4 := top_leBytes_length 4 D
  have hl8 := top_leBytes_length 8 field
  rw [hrem]
  simp only [hb, hopt, hdrLen]
  rw [if_neg (by omega), if_neg (by simp [hl4, hl8]; omega)]
  have e1 : (leBytes 4 D ++ (leBytes 8 field ++ rest)).take 4 = leBytes 4 D := List.take_left' hl4
  have e3 : (UInt8.ofNat (props.lc + 9 * (props.lp + 5 * props.pb)) ::
      (leBytes 4 D ++ (leBytes 8 field ++ rest))).drop 13 = rest := by
    rw [show (13 : Nat) = 12 + 1 by rfl, List.drop_succ_cons, ← List.append_assoc]
    exact List.drop_left' (by simp [hl4, hl8])
  simp only [hdrParams, hb, e1, e3, hprops, effSize, top_leVal_leBytes 4 D (by simpa using hD),
    Rd.ofBytes]

/-! ## assembling `lzmaDecompress`, any header -/

/-- `lzmaDecompress_of_run` for any header/option pair (`HeaderReads`). -/
theorem lzmaDecompress_of_run_gen {props : Props} (hp : Safety.PropsOk props) {dict : Nat}
    (hdict : 0 < dict) {u : Option Nat} {hdr rest : Bytes} {opts : Options}
    (hhdr : HeaderReads hdr opts props dict u) {snk0 : Sink}
    {rc : RC} {rd2 : Rd} (hrc : RC.new { rem := rest } = .ok (rc, rd2))
    {k : Nat} {x : Exit} {c' : Cfg Circ}
    (hrun : FinishRun ⟨freshState props u,
      Circ.fromStream dict (opts.memlimit.getD USIZE_MAX), rc, rd2, snk0⟩ k x c')
    (hsz : ∀ n, u = some n → c'.w.len = n) {H : Bytes}
    (hrep : (circModel dict (opts.memlimit.getD USIZE_MAX) snk0).Rep c'.w H c'.snk) :
    ∃ snk, lzmaDecompress (Rd.ofBytes (hdr ++ rest)) opts snk0 = (snk, .ok c'.rd) ∧
      snk.out = snk0.out ++ H.toArray ∧ snk.lastFlush = true ∧ snk.Perfect := by
  obtain ⟨hci, hcd, -, hcp, hco⟩ := hrep
  obtain ⟨snk, hfin, hperf, hout, hlf⟩ := Circ.finish_spec (s0 := snk0) hci hcp (by rw [hcd]; exact hco)
  refine ⟨snk, ?_, hout, hlf, hperf⟩
  refine lzmaDecompress_ok_iff.2 ⟨_, _, _, rc, rd2, c'.s, c'.w, c'.rc, c'.snk,
    hhdr rest, lzmaDecoder_new_eq hp (by omega) _ _, hrc, ?_, hfin⟩
  refine processMode_ok_iff.2 ⟨?_, ?_⟩
  · have hrci : Safety.RCInv rc := by
      have := Safety.RC_new_safe { rem := rest }
      rw [hrc] at this
      exact this.1
    have hsi : Safety.DStateInv (freshState props u) := by
      have := Safety.DState_new_safe hp u
      simp only [DState.new, Safety.validate_ok hp, bind, Except.bind, pure, Except.pure] at this
      exact this.1
    have hw : Safety.LzBufSafe.inv (Circ.fromStream dict (opts.memlimit.getD USIZE_MAX)) :=
      Safety.CircSafe_fromStream hdict
    have hne := Safety.processLoop_terminates .finish
      (loopFuel (freshState props u) rd2) rd2 hsi hw hrci
      (Safety.loopFuel_suffices rd2 hrci) snk0
    exact hrun.loop_ok_of_ne_fuel rfl _ hne
  · intro n hn _
    exact hsz n hn

/-! ## end-to-end exactness, any header -/

/-- **End-to-end exactness with a size in effect, any header/option pair.**  If `read_header`
on `hdr` yields `props`, dictionary size `dict` and the size in effect `some (size of the
program's output)`, then `lzma_decompress` on `hdr ++ encodeSyms props dict prog ++ T` succeeds,
delivers exactly the program's meaning, flushes, and leaves the reader at `T`. -/
theorem decode_exact_sized_of_header {props : Props} (hpo : Safety.PropsOk props) {dict : Nat}
    (hdict : 0 < dict) (prog : List Sym) (st : SpecSt)
    (hrun : SpecSt.run dict {} prog = some (st, false)) (T : Bytes) {hdr : Bytes} {opts : Options}
    (hhdr : HeaderReads hdr opts props dict (some st.hist.size))
    (hmem : min st.hist.size dict ≤ opts.memlimit.getD USIZE_MAX)
    (snk0 : Sink) (hs0 : snk0.script = []) :
    ∃ snk, lzmaDecompress (Rd.ofBytes (hdr ++ encodeSyms props dict prog ++ T)) opts snk0 =
        (snk, .ok { rem := T }) ∧
      snk.out = snk0.out ++ st.hist ∧ snk.lastFlush = true := by
  obtain ⟨snkF, probsF, eF, snkB, e2, henc, hfin⟩ :=
    encodeProg_total hpo dict prog (run_rawOk prog {} st false hrun) {} rfl
  have hsyms := encodeSyms_eq henc hfin
  obtain ⟨P, hP, hinit⟩ := rc_roundtrip_init (snk0 := {}) rfl (probsOk_init _) henc hfin
  have hP' : snkB.out.toList = P := by simpa using hP
  obtain ⟨rc, rd2, hnew, hbad, hsim⟩ := hinit T false
  have henc' : encodeEvents (progEvents dict (EncSt.new props).props (EncSt.new props).spec prog ++ [])
      (EncSt.new props).probs {} {} = (snkF, .ok (probsF, eF)) := by
    rw [List.append_nil]; exact henc
  obtain ⟨s', w', k', probs', e', esnk', rc', rd', hsteps, hinv', hs', hsim', hencE, hbad', hpb', hu'⟩ :=
    decode_prog (M := circModel dict (opts.memlimit.getD USIZE_MAX) snk0) (Nat.le_refl _)
      hfin [] prog (freshState props (some st.hist.size)) _ snk0 (EncSt.new props) {} {} rc rd2
      st (decEnc_fresh hpo _ hdict hs0) hrun hmem rfl hbad
      (.inl ⟨st.hist.size, rfl, Nat.le_refl _⟩) rfl hsim henc'
  obtain ⟨hrem, -, -⟩ := rc_roundtrip_final hs' hinv'.pok hsim' hencE hfin
  have hrd : rd' = { rem := T } := by
    rcases rd' with ⟨r, b⟩
    simp only at hrem hbad'
    rw [hrem, hbad']
  have hlen : w'.len = st.hist.size := by
    have := (circModel dict (opts.memlimit.getD USIZE_MAX) snk0).len hinv'.win
    rw [Array.length_toList] at this
    exact this
  have hexit : FinishRun (⟨s', w', rc', rd', k'⟩ : Cfg Circ) 0 .sizeReached ⟨s', w', rc', rd', k'⟩ :=
    .sizeReached (n := st.hist.size) (by show s'.unpackedSize = _; rw [hu']; rfl)
      (by show st.hist.size ≤ w'.len; omega)
  have hrunAll := hsteps.append_run hexit
  obtain ⟨snk, hres, hout, hlf, -⟩ := lzmaDecompress_of_run_gen hpo hdict hhdr hnew hrunAll
    (by intro n hn; cases hn; exact hlen) hinv'.win
  refine ⟨snk, ?_, by simpa using hout, hlf⟩
  rw [List.append_assoc, hsyms, hP', hres, hrd]

/-- **End-to-end exactness with the end marker, any header/option pair.**  If `read_header` on
`hdr` yields `props`, `dict` and NO size in effect, then `lzma_decompress` on
`hdr ++ encodeSyms props dict (prog ++ [eos])` succeeds, delivers exactly the program's meaning,
flushes, and consumes the whole input. -/
theorem decode_exact_marker_of_header {props : Props} (hpo : Safety.PropsOk props) {dict : Nat}
    (hdict : 0 < dict) (prog : List Sym) (st : SpecSt)
    (hrun : SpecSt.run dict {} prog = some (st, false)) {hdr : Bytes} {opts : Options}
    (hhdr : HeaderReads hdr opts props dict none)
    (hmem : min st.hist.size dict ≤ opts.memlimit.getD USIZE_MAX)
    (snk0 : Sink) (hs0 : snk0.script = []) :
    ∃ snk, lzmaDecompress (Rd.ofBytes (hdr ++ encodeSyms props dict (prog ++ [.eos]))) opts snk0 =
        (snk, .ok { rem := [] }) ∧
      snk.out = snk0.out ++ st.hist ∧ snk.lastFlush = true := by
  have hwf : ∀ s ∈ prog ++ [Sym.eos], Sym.RawOk s := by
    intro s hs
    rcases List.mem_append.1 hs with h | h
    · exact run_rawOk prog {} st false hrun s h
    · simp only [List.mem_cons, List.not_mem_nil, or_false] at h
      subst h; decide
  obtain ⟨snkF, probsF, eF, snkB, e2, henc, hfin⟩ :=
    encodeProg_total hpo dict (prog ++ [.eos]) hwf {} rfl
  have hsyms := encodeSyms_eq henc hfin
  obtain ⟨P, hP, hinit⟩ := rc_roundtrip_init (snk0 := {}) rfl (probsOk_init _) henc hfin
  have hP' : snkB.out.toList = P := by simpa using hP
  obtain ⟨rc, rd2, hnew, hbad, hsim⟩ := hinit [] false
  rw [List.append_nil] at hnew
  have hev : progEvents dict props {} (prog ++ [.eos]) =
      progEvents dict props {} prog ++ (rawSymEvents (ctxOf props st) (Sym.eos).toRaw ++ []) := by
    rw [progEvents_append, progSpec_of_run prog {} st false hrun]
    simp [progEvents]
  rw [hev] at henc
  have hfr : ForcesRead (rawSymEvents (ctxOf props st) (Sym.eos).toRaw ++ []) :=
    forcesRead_marker _ _
  obtain ⟨s', w', k', probs', e', esnk', rc', rd', hsteps, hinv', hs', hsim', hencE, hbad', hpb', hu'⟩ :=
    decode_prog (M := circModel dict (opts.memlimit.getD USIZE_MAX) snk0) (Nat.le_refl _)
      hfin _ prog (freshState props none) _ snk0 (EncSt.new props) {} {}
      rc rd2 st (decEnc_fresh hpo _ hdict hs0) hrun hmem rfl hbad
      (.inr ⟨rfl, .inr hfr⟩) rfl hsim henc
  have hun : s'.unpackedSize = none := hu'
  have hstop : stopTest .finish s' w' rc' rd' = .ok false := by
    rw [stopTest_none_finish hun hpb']
    apply isFinishedOk_of_rem
    have hl := RcSim.rem_length hfin hs' hinv'.pok hsim' hencE
    have := hfr _ _ _ _ _ hs' hsim'.ok hinv'.pok hencE
    intro h0
    rw [h0, List.length_nil] at hl
    omega
  rw [List.append_nil] at hencE
  obtain ⟨s'', rc'', hnext, -, -⟩ := decode_marker hfin hinv' hs' hbad' hsim' hencE
  have hexit : FinishRun (⟨s', w', rc', rd', k'⟩ : Cfg Circ) 1 .marker
      ⟨s'', w', rc'', { rem := [], bad := false }, k'⟩ :=
    .marker hstop (fillBuf_of_good hbad') hnext
  have hrunAll := hsteps.append_run hexit
  obtain ⟨snk, hres, hout, hlf, -⟩ := lzmaDecompress_of_run_gen hpo hdict hhdr hnew hrunAll
    (by intro n hn; cases hn) hinv'.win
  refine ⟨snk, ?_, by simpa using hout, hlf⟩
  rw [hsyms, hP', hres]

end Lzma.EncRT
