/-
  End-to-end exactness, part 1: the spec's `copy` in closed form (`lzCopy`), an abstract
  interface `WinModel` for "the window `w` represents the history `H`" (so that the symbol-level
  lemmas serve the circular window of `.lzma` and the accumulating window of LZMA2 alike), and its
  instances for `Circ` and `Accum`.
-/
import LzmaProofs.Lemmas.Window
import LzmaSpec.Sym
namespace Lzma

/-! ## `SpecSt.copy` is `lzCopy` -/

theorem SpecSt.copy_spec : ∀ (n dist : Nat) (h h' : Array UInt8), SpecSt.copy n dist h = some h' →
    (n = 0 ∨ (1 ≤ dist ∧ dist ≤ h.size)) ∧ h'.toList = h.toList ++ lzCopy h.toList dist n
  | 0, dist, h, h', hc => by
    simp only [SpecSt.copy, Option.some.injEq] at hc
    subst hc
    simp
  | n+1, dist, h, h', hc => by
    rw [SpecSt.copy] at hc
    split at hc
    · cases hc
    · rename_i hg
      have hg' : 1 ≤ dist ∧ dist ≤ h.size := by omega
      have hlt : h.size - dist < h.size := by omega
      rw [Array.getElem?_eq_getElem hlt] at hc
      simp only at hc
      obtain ⟨-, ih⟩ := SpecSt.copy_spec n dist _ _ hc
      refine ⟨.inr hg', ?_⟩
      rw [ih, lzCopy_succ]
      have hx : h.toList[h.toList.length - dist]?.getD 0 = h[h.size - dist] := by
        simp [hlt]
      rw [hx]
      simp

/-- `copy` fails exactly when the distance is zero or reaches before the start of the history -/
theorem SpecSt.copy_eq_none_iff (n dist : Nat) (h : Array UInt8) :
    SpecSt.copy (n + 1) dist h = none ↔ dist = 0 ∨ dist > h.size := by
  induction n generalizing h with
  | zero =>
    rw [SpecSt.copy]
    by_cases hg : dist = 0 ∨ dist > h.size
    · simp [hg]
    · have hlt : h.size - dist < h.size := by omega
      rw [if_neg hg, Array.getElem?_eq_getElem hlt]
      simp [SpecSt.copy, hg]
  | succ n ih =>
    rw [SpecSt.copy]
    by_cases hg : dist = 0 ∨ dist > h.size
    · simp [hg]
    · have hlt : h.size - dist < h.size := by omega
      rw [if_neg hg, Array.getElem?_eq_getElem hlt]
      simp only
      rw [ih]
      simp only [Array.size_push]
      constructor
      · intro h1; omega
      · intro h1; exact absurd h1 hg

/-! ## abstract window model -/

/-- "The window `w`, together with the sink `k`, represents the history `H`": what the symbol
decoder needs from a window.  `lim` bounds the distances the window accepts, `Fits L` says that
a history of length `L` passes the memory limit. -/
structure WinModel (ω : Type) [LzBuf ω] where
  Rep : ω → Bytes → Sink → Prop
  lim : Nat
  Fits : Nat → Prop
  fits_mono : ∀ {a b : Nat}, a ≤ b → Fits b → Fits a
  len : ∀ {w H k}, Rep w H k → LzBuf.len w = H.length
  lastOr : ∀ {w H k} (b : UInt8), Rep w H k → LzBuf.lastOr w b = .ok (H.getLast?.getD b)
  lastN : ∀ {w H k} {d : Nat}, Rep w H k → (h1 : 1 ≤ d) → d ≤ lim → (hd : d ≤ H.length) →
    LzBuf.lastN w d = .ok (H[H.length - d]'(by omega))
  appendLiteral : ∀ {w H k} (b : UInt8), Rep w H k → Fits (H.length + 1) →
    ∃ w' k', LzBuf.appendLiteral w b k = (k', .ok w') ∧ Rep w' (H ++ [b]) k'
  appendLz : ∀ {w H k} (n : Nat) {d : Nat}, Rep w H k → 1 ≤ d → d ≤ lim → d ≤ H.length →
    Fits (H.length + n) →
    ∃ w' k', LzBuf.appendLz w n d k = (k', .ok w') ∧ Rep w' (H ++ lzCopy H d n) k'

/-- the circular window with dictionary size `d` and memory limit `m` over a perfect sink that
held `s0.out` when the window was created: the sink holds everything except the unflushed part
of the current lap -/
def circModel (d m : Nat) (s0 : Sink) : WinModel Circ where
  Rep w H k := CircInv w H ∧ w.dictSize = d ∧ w.memlimit = m ∧ k.Perfect ∧
    k.out = s0.out ++ (H.take (flushedLen d H.length)).toArray
  lim := d
  Fits L := min L d ≤ m
  fits_mono := by intro a b hab h; omega
  len := by intro w H k h; exact h.1.len_eq
  lastOr := by intro w H k b h; exact Circ.lastOr_spec b h.1
  lastN := by
    intro w H k dist h h1 h2 h3
    obtain ⟨hi, hd, -⟩ := h
    show w.lastN dist = _
    rw [Circ.lastN_spec hi h1, dif_pos ⟨by omega, h3⟩]
  appendLiteral := by
    intro w H k b h hf
    obtain ⟨hi, hd, hm, hp, ho⟩ := h
    obtain ⟨w', h1, h2, h3, h4⟩ := Circ.appendLiteral_ok (s := k) b hi hp (by rw [hd, hm]; exact hf)
    refine ⟨w', _, h1, h2, h3.trans hd, h4.trans hm, Sink.after_perfect hp, ?_⟩
    rw [hd]
    exact Sink.after_out_rel (List.prefix_append H [b]) ho
  appendLz := by
    intro w H k n dist h h1 h2 h3 hf
    obtain ⟨hi, hd, hm, hp, ho⟩ := h
    have := Circ.appendLz_spec (s := k) n (dist := dist) hi hp h1
    rw [if_pos ⟨by omega, h3, .inr (by rw [hd, hm]; exact hf)⟩] at this
    obtain ⟨w', e1, e2, e3, e4⟩ := this
    refine ⟨w', _, e1, e2, e3.trans hd, e4.trans hm, Sink.after_perfect hp, ?_⟩
    rw [hd]
    exact Sink.after_out_rel (List.prefix_append H _) ho

theorem circModel_init {d : Nat} (m : Nat) (hd : 0 < d) {s0 : Sink} (hs : s0.Perfect) :
    (circModel d m s0).Rep (Circ.fromStream d m) [] s0 :=
  ⟨Circ.fromStream_inv m hd, rfl, rfl, hs, by simp [flushedLen]⟩

/-- the accumulating window (LZMA2) with memory limit `m`: the sink is not touched by the symbol
decoder, distances are only limited by the history (`lim` is a free parameter: the declared
dictionary size is not enforced by `LzAccumBuffer`) -/
def accumModel (m lim : Nat) (s0 : Sink) : WinModel Accum where
  Rep w H k := AccumInv w H ∧ w.memlimit = m ∧ k = s0
  lim := lim
  Fits L := L ≤ m
  fits_mono := by intro a b hab h; omega
  len := by intro w H k h; exact h.1.2
  lastOr := by intro w H k b h; exact Accum.lastOr_spec b h.1
  lastN := by
    intro w H k dist h h1 _ h3
    show w.lastN dist = _
    rw [Accum.lastN_spec h.1 h1, dif_pos h3]
  appendLiteral := by
    intro w H k b h hf
    obtain ⟨hi, hm, rfl⟩ := h
    have h1 := Accum.appendLiteral_spec b k hi
    rw [if_pos (by rw [hm]; exact hf)] at h1
    exact ⟨_, _, h1, Accum.appendLiteral_inv b hi, hm, rfl⟩
  appendLz := by
    intro w H k n dist h h1 _ h3 _
    obtain ⟨hi, hm, rfl⟩ := h
    have e := Accum.appendLz_spec n (dist := dist) k hi h1
    rw [if_pos h3] at e
    exact ⟨_, _, e, Accum.appendLz_inv n dist hi, hm, rfl⟩

end Lzma
