/-
  C05 (L3) — the bit counts of the paths of the LZMA symbol tree and the closed
  numeric inequality: no symbol needs more than 20 input bytes.
-/
import LzmaProofs.Lemmas.Need20
import LzmaProofs.Lemmas.SafetySym
namespace Lzma
namespace Need20
open Safety

abbrev T {α : Type} : α → Prop := fun _ => True

theorem subChk_noEnd {what : String} {a b : Nat} {e : Err} (h : subChk what a b = .error e) : NoEnd e := by
  unfold subChk at h
  split at h
  · cases h
  · cases h; exact NoEnd_panic _

/-- a `BitBound` tree that is also `TreeSafe` returns only values in the `TreeSafe` postcondition -/
theorem BitBound.of_treeSafe {α : Type} {R : Nat} {Q : α → Prop} {a b : Nat} {t : Coder PIdx α}
    (h : BitBound T a b t) (hs : TreeSafe R Q t) : BitBound Q a b t := by
  induction h with
  | ret _ => exact .ret hs
  | fail he => exact .fail he
  | bit _ ih => exact .bit (fun c => ih c (hs.2 c))
  | direct _ ih => exact .direct (fun c => ih c (hs c))

/-! ## generic trees -/

theorem bitTreeAux_bb {ι : Type} (mk : Nat → ι) : ∀ n tmp, BitBound T n 0 (bitTreeAux mk n tmp)
  | 0, _ => .ret trivial
  | n + 1, _ => .bit (fun _ => bitTreeAux_bb mk n _)

theorem bitTree_bb {ι : Type} (mk : Nat → ι) (n : Nat) : BitBound T n 0 (bitTree mk n) := by
  unfold bitTree
  exact BitBound.bind (a2 := 0) (b2 := 0) (bitTreeAux_bb mk n 1)
    (fun tmp _ => BitBound_ofExcept (fun _ _ => trivial) (fun e he => subChk_noEnd he))

theorem revBitTreeAux_bb {ι : Type} (mk : Nat → ι) (offset : Nat) :
    ∀ n i tmp result, BitBound T n 0 (revBitTreeAux mk offset n i tmp result)
  | 0, _, _, _ => .ret trivial
  | n + 1, _, _, _ => .bit (fun _ => revBitTreeAux_bb mk offset n _ _ _)

theorem revBitTree_bb {ι : Type} (mk : Nat → ι) (offset n : Nat) :
    BitBound T n 0 (revBitTree mk offset n) := revBitTreeAux_bb mk offset n 0 1 0

theorem directBits_bb {ι : Type} : ∀ n acc, BitBound T 0 n (directBits n acc : Coder ι Nat)
  | 0, _ => .ret trivial
  | n + 1, _ => .direct (fun _ => directBits_bb n _)

/-! ## length, literal -/

/-- `LenDecoder::decode`: at most `2 + 8` probability bits -/
theorem lenTree_bb (rep : Bool) (ps : Nat) : BitBound T 10 0 (lenTree rep ps) := by
  unfold lenTree
  refine .bit (a := 9) (fun c => ?_)
  cases c
  · exact (bitTree_bb _ 3).mono (by omega) (by omega) (fun _ h => h)
  · refine .bit (a := 8) (fun c => ?_)
    cases c
    · exact ((bitTree_bb _ 3).map (fun _ _ => trivial)).mono (by omega) (by omega) (fun _ h => h)
    · exact (bitTree_bb _ 8).map (fun _ _ => trivial)

theorem litPlain_bb (row : Nat) : ∀ fuel result, BitBound T fuel 0 (litPlain row fuel result) := by
  intro fuel
  induction fuel with
  | zero =>
    intro result
    simp only [litPlain]
    split
    · exact .fail NoEnd_fuel
    · exact .ret trivial
  | succ f ih =>
    intro result
    simp only [litPlain]
    split
    · exact .bit (fun _ => ih _)
    · exact .ret trivial

theorem litMatched_bb (row : Nat) :
    ∀ fuel mb result, BitBound T fuel 0 (litMatched row fuel mb result) := by
  intro fuel
  induction fuel with
  | zero =>
    intro mb result
    simp only [litMatched]
    split
    · exact .fail NoEnd_fuel
    · exact .ret trivial
  | succ f ih =>
    intro mb result
    simp only [litMatched]
    split
    · refine .bit (fun b => ?_)
      show BitBound T f 0 (if _ then _ else _)
      split
      · exact litPlain_bb row f _
      · exact ih _ _
    · exact .ret trivial

/-! ## distance: the only place where the two kinds of bits trade off -/

/-- the part of `decode_distance` after the slot -/
def distRest (posSlot : Nat) : Coder PIdx Nat :=
  if posSlot < 4 then .ret posSlot
  else
    let numDirectBits := (posSlot >>> 1) - 1
    let result := (2 ^^^ (posSlot &&& 1)) <<< numDirectBits
    if posSlot < 14 then
      match subChk "decode_distance: result - pos_slot" result posSlot with
      | .error e => .fail e
      | .ok off => (revBitTree .posDec off numDirectBits).map (result + ·)
    else
      (directBits (numDirectBits - 4) 0).bind fun d =>
        (revBitTree .align 0 4).map fun a => result + (d <<< 4) + a

theorem distTree_eq (length : Nat) :
    distTree length = (bitTree (.posSlot (if length > 3 then 3 else length)) 6).bind distRest := rfl

/-- slots 4..13: up to 5 more probability bits, no direct bit -/
theorem distRest_bb_low {s : Nat} (h : s < 14) : BitBound T 5 0 (distRest s) := by
  unfold distRest
  by_cases h4 : s < 4
  · simp only [h4, if_true]; exact .ret trivial
  · simp only [h4, h, if_false, if_true]
    split
    · rename_i e he; exact .fail (subChk_noEnd he)
    · refine ((revBitTree_bb _ _ _).map (fun _ _ => trivial)).mono ?_ (Nat.le_refl _) (fun _ h => h)
      have : s >>> 1 = s / 2 := by simp [Nat.shiftRight_eq_div_pow]
      omega

/-- slots 14..63: up to 26 direct bits and 4 probability bits -/
theorem distRest_bb_high {s : Nat} (h : ¬ s < 14) (h64 : s < 64) : BitBound T 4 26 (distRest s) := by
  unfold distRest
  have h4 : ¬ s < 4 := by omega
  simp only [h4, h, if_false]
  have hd : (s >>> 1) - 1 - 4 ≤ 26 := by
    have : s >>> 1 = s / 2 := by simp [Nat.shiftRight_eq_div_pow]
    omega
  have := BitBound.bind (Q' := T) (a2 := 4) (b2 := 0) (directBits_bb (ι := PIdx) ((s >>> 1) - 1 - 4) 0)
    (fun d _ => (revBitTree_bb PIdx.align 0 4).map (f := fun a => (2 ^^^ (s &&& 1)) <<< ((s >>> 1) - 1) + (d <<< 4) + a)
      (fun _ _ => trivial))
  exact this.mono (by omega) (by omega) (fun _ h => h)

/-- the slot: 6 probability bits, value `< 64` -/
theorem posSlot_bb (ls : Nat) (hls : ls < 4) : BitBound (fun s => s < 64) 6 0 (bitTree (PIdx.posSlot ls) 6) :=
  (bitTree_bb (PIdx.posSlot ls) 6).of_treeSafe (R := 0)
    (bitTree_safe (.posSlot ls) 6 (fun _ ht => ⟨hls, ht⟩))

/-! ## the symbol tree -/

theorem Coder.bind_assoc {ι α β γ : Type} (t : Coder ι α) (f : α → Coder ι β) (g : β → Coder ι γ) :
    (t.bind f).bind g = t.bind (fun x => (f x).bind g) := by
  induction t with
  | ret a => rfl
  | fail e => rfl
  | bit i k ih => simp only [Coder.bind]; congr 1; funext b; exact ih b
  | direct k ih => simp only [Coder.bind]; congr 1; funext b; exact ih b

/-- The bit counts of the path prefixes of the symbol decoder: at most 22
probability bits together with at most 26 direct bits (a match with
`pos_slot ≥ 14`), or at most 23 probability bits and no direct bit (a match with
`pos_slot ∈ {12, 13}`: `is_match`, `is_rep`, `choice`, `choice2`, 8 length bits,
6 slot bits, 5 reverse-tree bits). -/
def SymP (a b : Nat) : Prop := (a ≤ 22 ∧ b ≤ 26) ∨ (a ≤ 23 ∧ b = 0)

/-- the window/state reads of the context do not fail with an end-of-data error
(in the model they fail with `.lzma` or a panic only) -/
structure CtxNoEnd (c : Ctx) : Prop where
  litRow : ∀ e, c.litRow = .error e → NoEnd e
  matchByte : ∀ e, c.matchByte = .error e → NoEnd e

/-- `decode_literal`: 8 probability bits -/
theorem litTree_bb {c : Ctx} (h : CtxNoEnd c) (row : Nat) :
    BitBound T 8 0
      ((if c.state ≥ 7 then
          match c.matchByte with
          | .error e => .fail e
          | .ok mb => litMatched row 8 mb 1
        else litPlain row 8 1).bind fun result =>
          match subChk "decode_literal: result - 0x100" result 0x100 with
          | .error e => (.fail e : Coder PIdx RawSym)
          | .ok v => .ret (.lit (v % 256))) := by
  refine BitBound.bind (Q := T) (a := 8) (b := 0) (a2 := 0) (b2 := 0) ?_ ?_
  · split
    · cases hm : c.matchByte with
      | error e => exact .fail (h.matchByte e hm)
      | ok mb => exact litMatched_bb row 8 mb 1
    · exact litPlain_bb row 8 1
  · intro result _
    split
    · rename_i e he; exact .fail (subChk_noEnd he)
    · exact .ret trivial

/-- the repeated-match branch (after `is_match`, `is_rep`): at most `3 + 10` probability bits -/
theorem repTree_bb (c : Ctx) :
    BitBound T 13 0
      (.bit (.isRepG0 c.state) fun b =>
        if !b then
          .bit (.isRep0Long ((c.state <<< 4) + c.posState)) fun b =>
            if !b then .ret .shortRep
            else (lenTree true c.posState).map (.rep 0)
        else
          .bit (.isRepG1 c.state) fun b =>
            if !b then (lenTree true c.posState).map (.rep 1)
            else .bit (.isRepG2 c.state) fun b =>
              if !b then (lenTree true c.posState).map (.rep 2)
              else (lenTree true c.posState).map (.rep 3) : Coder PIdx RawSym) := by
  have hl : ∀ i, BitBound T 10 0 ((lenTree true c.posState).map (RawSym.rep i)) :=
    fun i => (lenTree_bb true c.posState).map (fun _ _ => trivial)
  refine .bit (a := 12) (fun b => ?_)
  cases b
  · simp only [Bool.not_false, if_true]
    refine BitBound.mono (.bit (a := 10) (b := 0) (fun b => ?_)) (by omega) (by omega) (fun _ h => h)
    cases b
    · exact .ret trivial
    · exact hl 0
  · simp only [Bool.not_true, Bool.false_eq_true, if_false]
    refine .bit (a := 11) (fun b => ?_)
    cases b
    · exact (hl 1).mono (by omega) (by omega) (fun _ h => h)
    · simp only [Bool.not_true, Bool.false_eq_true, if_false]
      refine .bit (a := 10) (fun b => ?_)
      cases b
      · exact hl 2
      · exact hl 3

/-- the new-match branch (after `is_match`, `is_rep`), checked from the counts `(2, 0)` -/
theorem matchTree_pb (c : Ctx) :
    PathBound T (fun a b => SymP (a + 1 + 1) b)
      ((lenTree false c.posState).bind fun len => (distTree len).map (RawSym.mtch len)) := by
  refine PathBound.bind (lenTree_bb false c.posState) ?_ ?_
  · intro a' b' ha hb; unfold SymP; omega
  · intro len a' b' _ ha hb
    have hls : (if len > 3 then 3 else len) < 4 := by split <;> omega
    rw [distTree_eq]
    unfold Coder.map
    rw [Coder.bind_assoc]
    refine PathBound.bind (posSlot_bb _ hls) ?_ ?_
    · intro a'' b'' ha'' hb''; unfold SymP; omega
    · intro s a'' b'' hs ha'' hb''
      by_cases h14 : s < 14
      · refine ((distRest_bb_low h14).map (f := RawSym.mtch len) (Q' := T) (fun _ _ => trivial)).pathBound ?_
        intro a3 b3 ha3 hb3; unfold SymP; omega
      · refine ((distRest_bb_high h14 hs).map (f := RawSym.mtch len) (Q' := T) (fun _ _ => trivial)).pathBound ?_
        intro a3 b3 ha3 hb3; unfold SymP; omega

/-- **the paths of the symbol tree** -/
theorem symTree_pathBound {c : Ctx} (h : CtxNoEnd c) : PathBound T SymP (symTree c) := by
  unfold symTree
  refine .bit (by unfold SymP; omega) (fun b => ?_)
  cases b
  · simp only [Bool.not_false, if_true]
    cases hr : c.litRow with
    | error e => exact .fail (by unfold SymP; omega) (h.litRow e hr)
    | ok row =>
      refine (litTree_bb h row).pathBound ?_
      intro a' b' ha hb; unfold SymP; omega
  · simp only [Bool.not_true, Bool.false_eq_true, if_false]
    refine .bit (by unfold SymP; omega) (fun b => ?_)
    cases b
    · simp only [Bool.false_eq_true, if_false]
      exact matchTree_pb c
    · simp only [if_true]
      refine (repTree_bb c).pathBound ?_
      intro a' b' ha hb; unfold SymP; omega

/-! ## the closed numeric facts -/

/-- 21 bytes are impossible for 22 probability bits and 26 direct bits -/
theorem need20_num : 2 ^ 32 * D 22 26 ≤ 256 ^ (20 + 1) * 2 ^ 24 * W 22 26 := by
  unfold W D; decide +kernel

/-- … but the same argument does not exclude 20 bytes (the margin is below one bit) -/
theorem need20_num_tight : ¬ 2 ^ 32 * D 22 26 ≤ 256 ^ (19 + 1) * 2 ^ 24 * W 22 26 := by
  unfold W D; decide +kernel

/-- the 23-probability-bit path is cheaper than the `(22, 26)` path -/
theorem dom_23_0 : W 22 26 * D 23 0 ≤ W 23 0 * D 22 26 := by
  unfold W D; decide +kernel

theorem dom_trans {w1 d1 w2 d2 w3 d3 : Nat} (hd : 0 < d2) (h12 : w1 * d2 ≤ w2 * d1)
    (h23 : w2 * d3 ≤ w3 * d2) : w1 * d3 ≤ w3 * d1 := by
  apply Nat.le_of_mul_le_mul_right (c := d2) _ hd
  have e1 : w1 * d3 * d2 = (w1 * d2) * d3 := by ac_rfl
  have e2 : w2 * d1 * d3 = (w2 * d3) * d1 := by ac_rfl
  have e3 : w3 * d1 * d2 = (w3 * d2) * d1 := by ac_rfl
  rw [e1, e3]
  exact Nat.le_trans (Nat.mul_le_mul_right _ h12) (e2 ▸ Nat.mul_le_mul_right _ h23)

/-- `(22, 26)` dominates every path prefix of the symbol tree -/
theorem symP_dom : ∀ a' b', SymP a' b' → W 22 26 * D a' b' ≤ W a' b' * D 22 26 := by
  intro a' b' h
  rcases h with ⟨ha, hb⟩ | ⟨ha, rfl⟩
  · exact W_D_mono' ha hb
  · exact dom_trans (D_pos 23 0) dom_23_0
      (W_D_mono' (a' := a') (b' := 0) (a := 23) (b := 0) ha (Nat.le_refl _))

/-! ## `symTree` is not `BitBound 22 26`: the `pos_slot = 12` path has 23 probability bits -/

/-- number of probability bits along the path chosen by the given bits -/
def probsOn {ι α : Type} : Coder ι α → List Bool → Nat
  | .bit _ k, c :: cs => probsOn (k c) cs + 1
  | .direct k, c :: cs => probsOn (k c) cs
  | _, _ => 0

theorem BitBound.probsOn_le {ι α : Type} {Q : α → Prop} {a b : Nat} {t : Coder ι α}
    (h : BitBound Q a b t) : ∀ cs, probsOn t cs ≤ a := by
  induction h with
  | ret _ => intro cs; simp [probsOn]
  | fail _ => intro cs; simp [probsOn]
  | bit _ ih =>
    intro cs
    cases cs with
    | nil => simp [probsOn]
    | cons c cs => simp only [probsOn]; exact Nat.succ_le_succ (ih c cs)
  | direct _ ih =>
    intro cs
    cases cs with
    | nil => simp [probsOn]
    | cons c cs => simp only [probsOn]; exact ih c cs

/-- `is_match = 1, is_rep = 0, choice = 1, choice2 = 1`, 8 length bits, slot
`001100₂ = 12`, 5 reverse-tree bits -/
def path23 : List Bool :=
  [true, false, true, true] ++ List.replicate 8 false ++
    [false, false, true, true, false, false] ++ List.replicate 5 false

theorem symTree_probsOn_path23 (c : Ctx) : probsOn (symTree c) path23 = 23 := by
  rfl

theorem symTree_not_bitBound_22 (c : Ctx) (Q : RawSym → Prop) (b : Nat) :
    ¬ BitBound Q 22 b (symTree c) := by
  intro h
  have := h.probsOn_le path23
  rw [symTree_probsOn_path23] at this
  omega

/-! ## the contexts the decoder builds satisfy `CtxNoEnd` -/

/-- errors of a checked computation are not end-of-data errors -/
def ENoEnd {α : Type} (x : Except Err α) : Prop := ∀ e, x = .error e → NoEnd e

theorem ENoEnd_ok {α : Type} (a : α) : ENoEnd (.ok a : Except Err α) := by
  intro e h; cases h

theorem ENoEnd_pure {α : Type} (a : α) : ENoEnd (pure a : Except Err α) := ENoEnd_ok a

theorem ENoEnd_error {α : Type} {e : Err} (h : NoEnd e) : ENoEnd (.error e : Except Err α) := by
  intro e' h'; cases h'; exact h

theorem ENoEnd.bind {α β : Type} {x : Except Err α} {f : α → Except Err β} (hx : ENoEnd x)
    (hf : ∀ a, ENoEnd (f a)) : ENoEnd (x >>= f) := by
  cases x with
  | ok a => exact hf a
  | error e => exact ENoEnd_error (hx e rfl)

theorem ENoEnd_subChk (what : String) (a b : Nat) : ENoEnd (subChk what a b) :=
  fun _ h => subChk_noEnd h

theorem mkCtx_noEnd {ω : Type} [LzBuf ω] (s : DState) (w : ω)
    (h1 : ENoEnd (LzBuf.lastOr w 0)) (h2 : ∀ n, ENoEnd (LzBuf.lastN w n)) :
    CtxNoEnd (s.mkCtx w) := by
  constructor
  · show ENoEnd (s.mkCtx w).litRow
    unfold DState.mkCtx
    refine h1.bind (fun prev => (ENoEnd_subChk _ _ _).bind (fun sh => ?_))
    simp only
    split
    · exact ENoEnd_pure _
    · exact ENoEnd_error (NoEnd_panic _)
  · show ENoEnd (s.mkCtx w).matchByte
    unfold DState.mkCtx
    exact (h2 _).bind (fun b => ENoEnd_pure _)

theorem Circ.offsetOf_noEnd (w : Circ) (d : Nat) : ENoEnd (w.offsetOf d) := by
  unfold Circ.offsetOf
  refine (ENoEnd_subChk _ _ _).bind (fun a => ?_)
  split
  · exact ENoEnd_error (NoEnd_panic _)
  · exact ENoEnd_pure _

theorem Circ.lastOr_noEnd (w : Circ) (b : UInt8) : ENoEnd (w.lastOr b) := by
  unfold Circ.lastOr
  split
  · exact ENoEnd_pure _
  · exact (Circ.offsetOf_noEnd w 1).bind (fun _ => ENoEnd_pure _)

theorem Circ.lastN_noEnd (w : Circ) (n : Nat) : ENoEnd (w.lastN n) := by
  unfold Circ.lastN
  split
  · exact ENoEnd_error NoEnd_lzma
  · split
    · exact ENoEnd_error NoEnd_lzma
    · exact (Circ.offsetOf_noEnd w n).bind (fun _ => ENoEnd_pure _)

theorem Accum.lastOr_noEnd (w : Accum) (b : UInt8) : ENoEnd (w.lastOr b) := by
  unfold Accum.lastOr
  split
  · exact ENoEnd_pure _
  · split
    · exact ENoEnd_pure _
    · exact ENoEnd_error (NoEnd_panic _)

theorem Accum.lastN_noEnd (w : Accum) (n : Nat) : ENoEnd (w.lastN n) := by
  unfold Accum.lastN
  split
  · exact ENoEnd_error NoEnd_lzma
  · split
    · exact ENoEnd_pure _
    · exact ENoEnd_error (NoEnd_panic _)

/-- the contexts of the LZMA decoder over the circular window (`.lzma`, `.xz`, stream) -/
theorem mkCtx_noEnd_circ (s : DState) (w : Circ) : CtxNoEnd (s.mkCtx w) :=
  mkCtx_noEnd s w (Circ.lastOr_noEnd w 0) (Circ.lastN_noEnd w)

/-- the contexts of the LZMA2 decoder over the accumulating window -/
theorem mkCtx_noEnd_accum (s : DState) (w : Accum) : CtxNoEnd (s.mkCtx w) :=
  mkCtx_noEnd s w (Accum.lastOr_noEnd w 0) (Accum.lastN_noEnd w)

end Need20
end Lzma
