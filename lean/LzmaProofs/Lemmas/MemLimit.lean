/-
  Lifting the memory-limit theorems of the circular window (C10) to the symbol decoder
  (`applySym`, `processNext`, `processLoop`, `processMode`, both modes), to
  `LzmaDecoder.decompress`, `lzmaDecompress` and to the streaming decoder (`Stream.write`,
  `feed`, `finish`, whole sessions `Stream.runStream`).

  Method.  The symbol decoder observes the window only through `len`, `lastOr`, `lastN` — none of
  which reads the `memlimit` field — and through the success/failure of `appendLiteral`/`appendLz`.
  A REFERENCE run uses a "roomy" window `W` (`dictSize ≤ memlimit`: it can never hit its limit);
  the LIMITED run uses `W.withLimit m`, the same window with limit `m`.  `LimRel` says how the
  limited run is determined by the reference run:
    * reference `ok`, final allocation `buf.size = min dictSize produced ≤ m`
        ⇒ limited run: identical result (same sink, same state, window `withLimit m`);
    * reference `ok`, final allocation `> m` ⇒ limited run: `Err lzma`, its sink a prefix;
    * reference error ⇒ limited run: the identical error and sink, or `Err lzma` earlier
      (sink a prefix) — the latter only if `m < dictSize`.
-/
import LzmaProofs.Lemmas.Window
import LzmaProofs.Lemmas.ProcessMode
import LzmaProofs.Lemmas.Sink
import LzmaProofs.Lemmas.Header
import LzmaProofs.Lemmas.StreamBasic
namespace Lzma

/-! ## the same window under another limit -/

/-- the window with its `memlimit` field replaced -/
def Circ.withLimit (w : Circ) (m : Nat) : Circ := { w with memlimit := m }

@[simp] theorem Circ.withLimit_memlimit (w : Circ) (m : Nat) : (w.withLimit m).memlimit = m := rfl
@[simp] theorem Circ.withLimit_dictSize (w : Circ) (m : Nat) : (w.withLimit m).dictSize = w.dictSize := rfl
@[simp] theorem Circ.withLimit_buf (w : Circ) (m : Nat) : (w.withLimit m).buf = w.buf := rfl
@[simp] theorem Circ.withLimit_len (w : Circ) (m : Nat) : (w.withLimit m).len = w.len := rfl
@[simp] theorem Circ.withLimit_cursor (w : Circ) (m : Nat) : (w.withLimit m).cursor = w.cursor := rfl
@[simp] theorem Circ.withLimit_withLimit (w : Circ) (a b : Nat) :
    (w.withLimit a).withLimit b = w.withLimit b := rfl
theorem Circ.withLimit_self (w : Circ) : w.withLimit w.memlimit = w := rfl

theorem Circ.fromStream_withLimit (d M m : Nat) :
    (Circ.fromStream d M).withLimit m = Circ.fromStream d m := rfl

/-- none of the read operations looks at the limit -/
@[simp] theorem Circ.lzbuf_len_withLimit (w : Circ) (m : Nat) :
    LzBuf.len (w.withLimit m) = LzBuf.len w := rfl
@[simp] theorem Circ.lzbuf_lastOr_withLimit (w : Circ) (m : Nat) (b : UInt8) :
    LzBuf.lastOr (w.withLimit m) b = LzBuf.lastOr w b := rfl
@[simp] theorem Circ.lzbuf_lastN_withLimit (w : Circ) (m : Nat) (dist : Nat) :
    LzBuf.lastN (w.withLimit m) dist = LzBuf.lastN w dist := rfl
@[simp] theorem Circ.finish_withLimit (w : Circ) (m : Nat) : (w.withLimit m).finish = w.finish := rfl

@[simp] theorem DState.mkCtx_withLimit (s : DState) (w : Circ) (m : Nat) :
    s.mkCtx (w.withLimit m) = s.mkCtx w := rfl

@[simp] theorem DState.tryProcessNext_withLimit (s : DState) (w : Circ) (m : Nat) (buf : Bytes)
    (rc : RC) : s.tryProcessNext (w.withLimit m) buf rc = s.tryProcessNext w buf rc := rfl

theorem CircInv.withLimit {w : Circ} {H : Bytes} (h : CircInv w H) {m : Nat}
    (hm : min H.length w.dictSize ≤ m) : CircInv (w.withLimit m) H := h.withMemlimit hm

/-- two windows representing the same history with the same dictionary size differ at most in
the limit -/
theorem CircInv.eq_withLimit {w W : Circ} {H : Bytes} (h : CircInv w H) (hW : CircInv W H)
    (hd : w.dictSize = W.dictSize) : w = W.withLimit w.memlimit :=
  CircInv.ext h (hW.withLimit (by rw [← hd, ← h.size_eq]; exact h.size_le)) hd rfl

/-! ## single window operations -/

/-- one window operation -/
def Circ.runOp : WinOp → Circ → M Circ
  | .lit b, w => w.appendLiteral b
  | .lz len dist, w => w.appendLz len dist

/-- the bytes an accepted operation appends to the history `H` -/
def WinOp.out (H : Bytes) : WinOp → Bytes
  | .lit b => [b]
  | .lz len dist => lzCopy H dist len

/-- the distance guard of `append_lz` -/
def WinOp.InWindow (d : Nat) (H : Bytes) : WinOp → Prop
  | .lit _ => True
  | .lz _ dist => dist ≤ d ∧ dist ≤ H.length

instance (d : Nat) (H : Bytes) (op : WinOp) : Decidable (op.InWindow d H) := by
  cases op <;> simp only [WinOp.InWindow] <;> infer_instance

/-- complete description of one operation on a window representing `H` (perfect sink): it is
accepted iff the distance guard holds and the allocation `min dictSize (new length)` fits the
limit; otherwise `Err lzma` with an untouched sink -/
theorem Circ.runOp_spec {w : Circ} {H : Bytes} {s : Sink} (op : WinOp) (h : CircInv w H)
    (hs : s.Perfect) (hv : op.Valid) :
    (op.InWindow w.dictSize H ∧ min (H.length + (op.out H).length) w.dictSize ≤ w.memlimit →
      ∃ w', Circ.runOp op w s = (s.after w.dictSize H (H ++ op.out H), .ok w') ∧
        CircInv w' (H ++ op.out H) ∧ w'.dictSize = w.dictSize ∧ w'.memlimit = w.memlimit) ∧
    (¬ (op.InWindow w.dictSize H ∧ min (H.length + (op.out H).length) w.dictSize ≤ w.memlimit) →
      Circ.runOp op w s = (s, .error .lzma)) := by
  cases op with
  | lit b =>
    simp only [WinOp.InWindow, WinOp.out, Circ.runOp, true_and, List.length_singleton]
    exact ⟨fun hm => Circ.appendLiteral_ok b h hs hm, fun hm => Circ.appendLiteral_fail s b h hm⟩
  | lz len dist =>
    have hsp := Circ.appendLz_spec (s := s) len h hs hv
    have hsz : min H.length w.dictSize ≤ w.memlimit := by rw [← h.size_eq]; exact h.size_le
    simp only [WinOp.InWindow, WinOp.out, Circ.runOp, length_lzCopy]
    constructor
    · rintro ⟨⟨h1, h2⟩, h3⟩
      rw [if_pos ⟨h1, h2, Or.inr h3⟩] at hsp
      exact hsp
    · intro hn
      rw [if_neg] at hsp
      · exact hsp
      · rintro ⟨h1, h2, h3 | h3⟩
        · subst h3; exact hn ⟨⟨h1, h2⟩, by simpa using hsz⟩
        · exact hn ⟨⟨h1, h2⟩, h3⟩

/-! ## the relation between the limited run and the reference run -/

/-- the limited run `L` stopped with `Err lzma` because of its limit `m < d`, having delivered a
prefix of what the reference run delivered (`snkR`) -/
def LimitHit (m d : Nat) (snkR : Sink) (L : Sink × Except Err α) : Prop :=
  m < d ∧ L.2 = .error .lzma ∧ APre L.1.out snkR.out

/-- `LimRel m d M H snk win lim R L`: `R` is the result of a reference run that started on sink
`snk` with a roomy window (`dictSize = d ≤ memlimit = M`) representing `H`; `L` is the result of
the same computation on the window with limit `m`.  `win` extracts the window of a result,
`lim` replaces its limit by `m`. -/
structure LimRel (m d M : Nat) (H : Bytes) (snk : Sink) (win : α → Circ) (lim : α → α)
    (R L : Sink × Except Err α) : Prop where
  /-- the reference run keeps the window invariant, extends the history, and the sink received
  exactly the completed laps -/
  ref : ∀ a, R.2 = .ok a → ∃ H1, H <+: H1 ∧ CircInv (win a) H1 ∧ (win a).dictSize = d ∧
    (win a).memlimit = M ∧ R.1 = snk.after d H H1
  /-- enough memory: identical behaviour -/
  same : min H.length d ≤ m → ∀ a, R.2 = .ok a → (win a).buf.size ≤ m → L = (R.1, .ok (lim a))
  /-- not enough memory: `Err lzma` -/
  hit : min H.length d ≤ m → ∀ a, R.2 = .ok a → ¬ (win a).buf.size ≤ m → LimitHit m d R.1 L
  /-- errors are preserved (or pre-empted by the limit) -/
  err : min H.length d ≤ m → ∀ e, R.2 = .error e → L = R ∨ LimitHit m d R.1 L

theorem LimRel.of_error {m d M : Nat} {H : Bytes} {snk : Sink} {win : α → Circ} {lim : α → α}
    (s1 : Sink) (e : Err) : LimRel m d M H snk win lim (s1, .error e) (s1, .error e) where
  ref := by intro a ha; cases ha
  same := by intro _ a ha; cases ha
  hit := by intro _ a ha; cases ha
  err := by intro _ _ _; exact Or.inl rfl

theorem LimRel.ret {m d M : Nat} {H : Bytes} {snk : Sink} {win : α → Circ} {lim : α → α} (a : α)
    (h : CircInv (win a) H) (hd : (win a).dictSize = d) (hM : (win a).memlimit = M) :
    LimRel m d M H snk win lim (snk, .ok a) (snk, .ok (lim a)) where
  ref := by
    intro b hb; cases hb
    exact ⟨H, List.prefix_refl H, h, hd, hM, (Sink.after_self snk d H).symm⟩
  same := by intro _ b hb _; cases hb; rfl
  hit := by
    intro hfit b hb hn; cases hb
    exact absurd (by rw [h.size_eq, hd]; exact hfit) hn
  err := by intro _ e he; cases he

theorem LimRel.bind {mR mL : M α} {fR fL : α → M β} {win1 : α → Circ} {lim1 : α → α}
    {win2 : β → Circ} {lim2 : β → β} {m d M : Nat} {H : Bytes} {snk : Sink}
    (h1 : LimRel m d M H snk win1 lim1 (mR snk) (mL snk))
    (h2 : ∀ a H1, H <+: H1 → CircInv (win1 a) H1 → (win1 a).dictSize = d → (win1 a).memlimit = M →
      LimRel m d M H1 (snk.after d H H1) win2 lim2 (fR a (snk.after d H H1))
        (fL (lim1 a) (snk.after d H H1)))
    (hmono : ∀ a, Mono (fR a)) :
    LimRel m d M H snk win2 lim2 ((mR >>= fR) snk) ((mL >>= fL) snk) := by
  rcases hR : mR snk with ⟨s1, e | a⟩
  · rw [bind_run_error hR]
    have herr : min H.length d ≤ m → (mL >>= fL) snk = (s1, .error e) ∨
        LimitHit m d s1 ((mL >>= fL) snk) := by
      intro hfit
      rcases h1.err hfit e (by rw [hR]) with hL | ⟨hlt, hl2, hpre⟩
      · rw [hR] at hL
        exact Or.inl (bind_run_error hL)
      · have hL : mL snk = ((mL snk).1, .error .lzma) := Prod.ext rfl hl2
        rw [hR] at hpre
        exact Or.inr (by rw [bind_run_error hL]; exact ⟨hlt, rfl, hpre⟩)
    exact {
      ref := by intro b hb; cases hb
      same := by intro _ b hb; cases hb
      hit := by intro _ b hb; cases hb
      err := by intro hfit e' _; exact herr hfit }
  · rw [bind_run_ok hR]
    obtain ⟨H1, hp, hi, hd, hM, hs1⟩ := h1.ref a (by rw [hR])
    rw [hR] at hs1
    simp only at hs1
    subst hs1
    have h2' := h2 a H1 hp hi hd hM
    have href : ∀ b, (fR a (snk.after d H H1)).2 = .ok b → ∃ H2, H <+: H2 ∧ H1 <+: H2 ∧
        CircInv (win2 b) H2 ∧ (win2 b).dictSize = d ∧ (win2 b).memlimit = M ∧
        (fR a (snk.after d H H1)).1 = snk.after d H H2 := by
      intro b hb
      obtain ⟨H2, hp2, hi2, hd2, hM2, hs2⟩ := h2'.ref b hb
      exact ⟨H2, hp.trans hp2, hp2, hi2, hd2, hM2, by rw [hs2, Sink.after_trans' _ _ hp hp2]⟩
    by_cases hb1 : (win1 a).buf.size ≤ m
    · have hfit1 : min H1.length d ≤ m := by rw [← hd, ← hi.size_eq]; exact hb1
      exact {
        ref := by
          intro b hb
          obtain ⟨H2, hp2, -, hi2, hd2, hM2, hs2⟩ := href b hb
          exact ⟨H2, hp2, hi2, hd2, hM2, hs2⟩
        same := by
          intro hfit b hb hsz
          have hL := h1.same hfit a (by rw [hR]) hb1
          rw [hR] at hL
          rw [bind_run_ok hL]
          exact h2'.same hfit1 b hb hsz
        hit := by
          intro hfit b hb hsz
          have hL := h1.same hfit a (by rw [hR]) hb1
          rw [hR] at hL
          rw [bind_run_ok hL]
          exact h2'.hit hfit1 b hb hsz
        err := by
          intro hfit e he
          have hL := h1.same hfit a (by rw [hR]) hb1
          rw [hR] at hL
          rw [bind_run_ok hL]
          exact h2'.err hfit1 e he }
    · have hhit : min H.length d ≤ m → LimitHit m d (fR a (snk.after d H H1)).1 ((mL >>= fL) snk) := by
        intro hfit
        obtain ⟨hlt, hl2, hpre⟩ := h1.hit hfit a (by rw [hR]) hb1
        have hL : mL snk = ((mL snk).1, .error .lzma) := Prod.ext rfl hl2
        rw [hR] at hpre
        rw [bind_run_error hL]
        exact ⟨hlt, rfl, hpre.trans (hmono a _)⟩
      exact {
        ref := by
          intro b hb
          obtain ⟨H2, hp2, -, hi2, hd2, hM2, hs2⟩ := href b hb
          exact ⟨H2, hp2, hi2, hd2, hM2, hs2⟩
        same := by
          intro hfit b hb hsz
          obtain ⟨H2, -, hp12, hi2, hd2, -, -⟩ := href b hb
          have := hp12.length_le
          rw [hi.size_eq, hd] at hb1
          rw [hi2.size_eq, hd2] at hsz
          omega
        hit := by intro hfit b hb _; exact hhit hfit
        err := by intro hfit e _; exact Or.inr (hhit hfit) }

/-- post-processing of the result that keeps the window -/
theorem LimRel.map {mR mL : M α} {g : α → β} {win1 : α → Circ} {lim1 : α → α}
    {win2 : β → Circ} {lim2 : β → β} {m d M : Nat} {H : Bytes} {snk : Sink}
    (h1 : LimRel m d M H snk win1 lim1 (mR snk) (mL snk))
    (hw : ∀ a, win2 (g a) = win1 a) (hl : ∀ a, lim2 (g a) = g (lim1 a)) :
    LimRel m d M H snk win2 lim2 ((mR >>= fun a => pure (g a)) snk)
      ((mL >>= fun a => pure (g a)) snk) := by
  refine LimRel.bind h1 ?_ (fun a => (OM.pure (g a)).mono)
  intro a H1 _ hi hd hM
  rw [pure_run, pure_run, ← hl]
  exact LimRel.ret (g a) (by rw [hw]; exact hi) (by rw [hw]; exact hd) (by rw [hw]; exact hM)

/-- the same with different post-processing on the two sides -/
theorem LimRel.map2 {mR mL : M α} {gR gL : α → β} {win1 : α → Circ} {lim1 : α → α}
    {win2 : β → Circ} {lim2 : β → β} {m d M : Nat} {H : Bytes} {snk : Sink}
    (h1 : LimRel m d M H snk win1 lim1 (mR snk) (mL snk))
    (hw : ∀ a, win2 (gR a) = win1 a) (hl : ∀ a, lim2 (gR a) = gL (lim1 a)) :
    LimRel m d M H snk win2 lim2 ((mR >>= fun a => pure (gR a)) snk)
      ((mL >>= fun a => pure (gL a)) snk) := by
  refine LimRel.bind h1 ?_ (fun a => (OM.pure (gR a)).mono)
  intro a H1 _ hi hd hM
  rw [pure_run, pure_run, ← hl]
  exact LimRel.ret (gR a) (by rw [hw]; exact hi) (by rw [hw]; exact hd) (by rw [hw]; exact hM)

/-! ## one window operation under two limits -/

theorem Circ.runOp_lim {W : Circ} {H : Bytes} {snk : Sink} {d M : Nat} (m : Nat) (op : WinOp)
    (h : CircInv W H) (hs : snk.Perfect) (hv : op.Valid) (hd : W.dictSize = d)
    (hM : W.memlimit = M) (hdM : d ≤ M) :
    LimRel m d M H snk id (fun w => w.withLimit m) (Circ.runOp op W snk)
      (Circ.runOp op (W.withLimit m) snk) := by
  obtain ⟨hok, hfail⟩ := Circ.runOp_spec (s := snk) op h hs hv
  by_cases hin : op.InWindow W.dictSize H
  · -- accepted by the reference window
    obtain ⟨W1, hR, hi1, hd1, hM1⟩ := hok ⟨hin, by omega⟩
    rw [hR]
    have hpre : H <+: H ++ op.out H := List.prefix_append _ _
    have hsz1 : W1.buf.size = min (H.length + (op.out H).length) d := by
      rw [hi1.size_eq, hd1, hd, List.length_append]
    have hL : min H.length d ≤ m →
        (W1.buf.size ≤ m → Circ.runOp op (W.withLimit m) snk =
          (snk.after W.dictSize H (H ++ op.out H), .ok (W1.withLimit m))) ∧
        (¬ W1.buf.size ≤ m → Circ.runOp op (W.withLimit m) snk = (snk, .error .lzma)) := by
      intro hfit
      have hiL : CircInv (W.withLimit m) H := h.withLimit (by rw [hd]; exact hfit)
      obtain ⟨hokL, hfailL⟩ := Circ.runOp_spec (s := snk) op hiL hs hv
      simp only [Circ.withLimit_dictSize, Circ.withLimit_memlimit] at hokL hfailL
      constructor
      · intro hle
        obtain ⟨w1, hRL, hiL1, hdL1, hML1⟩ := hokL ⟨hin, by rw [hd]; omega⟩
        rw [hRL]
        have := CircInv.eq_withLimit hiL1 hi1 (by rw [hdL1, hd1])
        rw [hML1] at this
        rw [this]
      · intro hnle
        exact hfailL (fun hh => hnle (by rw [hd] at hh; omega))
    exact {
      ref := by
        intro a ha; cases ha
        exact ⟨_, hpre, hi1, hd1.trans hd, hM1.trans hM, by rw [hd]⟩
      same := by intro hfit a ha hle; cases ha; exact (hL hfit).1 hle
      hit := by
        intro hfit a ha hnle; cases ha
        rw [(hL hfit).2 hnle]
        have hle : W1.buf.size ≤ d := by rw [hsz1]; exact Nat.min_le_right _ _
        have hnle' : ¬ W1.buf.size ≤ m := hnle
        refine ⟨by omega, rfl, ?_⟩
        exact APre.append _ _
      err := by intro _ e he; cases he }
  · -- rejected by the distance guard: same for both
    rw [hfail (fun hh => hin hh.1)]
    have hL : min H.length d ≤ m → Circ.runOp op (W.withLimit m) snk = (snk, .error .lzma) := by
      intro hfit
      have hiL : CircInv (W.withLimit m) H := h.withLimit (by rw [hd]; exact hfit)
      exact (Circ.runOp_spec (s := snk) op hiL hs hv).2 (fun hh => hin hh.1)
    exact {
      ref := by intro a ha; cases ha
      same := by intro _ a ha; cases ha
      hit := by intro _ a ha; cases ha
      err := by intro hfit e _; exact Or.inl (hL hfit) }

/-! ## `applySym` -/

namespace DState

/-- what `applySym` does with the window: nothing (end marker: the result does not depend on the
window, which is passed through), or exactly one window operation -/
inductive SymAct where
  | const (r : Except Err (Status × DState))
  | op (st : Status) (s' : DState) (o : WinOp)

def symAct (s : DState) (rc : RC) (rd : Rd) : RawSym → SymAct
  | .lit byte =>
    .op .continue
      { s with state := if s.state < 4 then 0 else if s.state < 10 then s.state - 3 else s.state - 6 }
      (.lit (UInt8.ofNat byte))
  | .shortRep => .op .continue { s with state := if s.state < 7 then 9 else 11 } (.lz 1 (s.rep0 + 1))
  | .rep idx len =>
    let s := match idx with
      | 0 => s
      | 1 => { s with rep0 := s.rep1, rep1 := s.rep0 }
      | 2 => { s with rep0 := s.rep2, rep1 := s.rep0, rep2 := s.rep1 }
      | _ => { s with rep0 := s.rep3, rep1 := s.rep0, rep2 := s.rep1, rep3 := s.rep2 }
    let s := { s with state := if s.state < 7 then 8 else 11 }
    .op .continue s (.lz (len + 2) (s.rep0 + 1))
  | .mtch len r0 =>
    let s := { s with rep3 := s.rep2, rep2 := s.rep1, rep1 := s.rep0, rep0 := r0,
                      state := if s.state < 7 then 7 else 10 }
    if r0 = 0xFFFFFFFF then
      .const (match rc.isFinishedOk rd with
        | .ok true => .ok (.finished, s)
        | .ok false => .error .lzma
        | .error e => .error e)
    else .op .continue s (.lz (len + 2) (s.rep0 + 1))

theorem applySym_eq (s : DState) (w : Circ) (rc : RC) (rd : Rd) (sym : RawSym) :
    applySym s w rc rd sym =
      match symAct s rc rd sym with
      | .const r => fun snk => (snk, r.map fun x => (x.1, x.2, w))
      | .op st s' o => Circ.runOp o w >>= fun w' => pure (st, s', w') := by
  cases sym with
  | lit b => rfl
  | shortRep => rfl
  | rep idx len => rfl
  | mtch len r0 =>
    by_cases hr : r0 = 0xFFFFFFFF
    · subst hr
      funext snk
      rw [applySym_marker]
      simp only [symAct, if_true]
      rcases rc.isFinishedOk rd with e | b
      · rfl
      · cases b <;> rfl
    · simp only [symAct, applySym, if_neg hr]
      rfl

theorem symAct_valid {s : DState} {rc : RC} {rd : Rd} {sym : RawSym} {st : Status} {s' : DState}
    {o : WinOp} (h : symAct s rc rd sym = .op st s' o) : o.Valid := by
  cases sym with
  | lit b => simp only [symAct, SymAct.op.injEq] at h; rw [← h.2.2]; trivial
  | shortRep =>
    simp only [symAct, SymAct.op.injEq] at h; rw [← h.2.2]; simp [WinOp.Valid]
  | rep idx len =>
    simp only [symAct, SymAct.op.injEq] at h; rw [← h.2.2]; simp [WinOp.Valid]
  | mtch len r0 =>
    simp only [symAct] at h
    split at h
    · cases h
    · simp only [SymAct.op.injEq] at h; rw [← h.2.2]; simp [WinOp.Valid]

theorem applySym_lim {W : Circ} {H : Bytes} {snk : Sink} {d M : Nat} (m : Nat) (s : DState)
    (rc : RC) (rd : Rd) (sym : RawSym)
    (h : CircInv W H) (hs : snk.Perfect) (hd : W.dictSize = d) (hM : W.memlimit = M) (hdM : d ≤ M) :
    LimRel m d M H snk (fun a : Status × DState × Circ => a.2.2)
      (fun a => (a.1, a.2.1, a.2.2.withLimit m))
      (applySym s W rc rd sym snk) (applySym s (W.withLimit m) rc rd sym snk) := by
  rw [applySym_eq, applySym_eq]
  rcases hact : symAct s rc rd sym with r | ⟨st, s', o⟩
  · simp only
    rcases r with e | x
    · exact LimRel.of_error snk e
    · exact LimRel.ret (win := fun a : Status × DState × Circ => a.2.2) (x.1, x.2, W) h hd hM
  · simp only
    exact LimRel.map (g := fun w' => (st, s', w'))
      (Circ.runOp_lim m o h hs (symAct_valid hact) hd hM hdM) (fun _ => rfl) (fun _ => rfl)

/-! ## `processNext` -/

theorem processNext_lim {W : Circ} {H : Bytes} {snk : Sink} {d M : Nat} (m : Nat) (s : DState)
    (rc : RC) (rd : Rd)
    (h : CircInv W H) (hs : snk.Perfect) (hd : W.dictSize = d) (hM : W.memlimit = M) (hdM : d ≤ M) :
    LimRel m d M H snk (fun a : Status × DState × Circ × RC × Rd => a.2.2.1)
      (fun a => (a.1, a.2.1, a.2.2.1.withLimit m, a.2.2.2))
      (processNext s W rc rd snk) (processNext s (W.withLimit m) rc rd snk) := by
  unfold processNext
  rw [mkCtx_withLimit]
  rcases runDec true (symTree (s.mkCtx W)) s.probs rc rd with e | ⟨sym, probs, rc1, rd1⟩
  · exact LimRel.of_error snk e
  · simp only [bind_run, liftE_ok]
    exact LimRel.map (g := fun x : Status × DState × Circ => (x.1, x.2.1, x.2.2, rc1, rd1))
      (applySym_lim m { s with probs := probs } rc1 rd1 sym h hs hd hM hdM)
      (fun _ => rfl) (fun _ => rfl)

/-! ## the loop of `process_mode` -/

section
variable {ω : Type} [LzBuf ω]

/-- the top-of-loop test as a function of the window length -/
def stopVal (mode : Mode) (s : DState) (len : Nat) (rc : RC) (rd : Rd) : Except Err Bool :=
  match s.unpackedSize with
  | some n => pure (decide (len ≥ n))
  | none =>
    match mode with
    | .stream => do
      let e ← rd.isEof
      pure (e && s.partialBuf.isEmpty)
    | .finish => do
      let f ← rc.isFinishedOk rd
      pure (f && s.partialBuf.isEmpty)

/-- what one iteration of the loop of `process_mode` does before it calls `process_next` -/
inductive LoopPre where
  | err (e : Err)
  | ret (s : DState) (rd : Rd)
  | next (s : DState) (rdN : Rd) (staged : Bool) (rd : Rd)

def loopPre (mode : Mode) (s : DState) (len : Nat) (tryN : DState → Bytes → Bool) (rc : RC)
    (rd : Rd) : LoopPre :=
  match stopVal mode s len rc rd with
  | .error e => .err e
  | .ok true => .ret s rd
  | .ok false =>
    if !s.partialBuf.isEmpty then
      match s.readPartialInputBuf rd with
      | .error e => .err e
      | .ok (s, rd) =>
        if mode = .stream ∧ s.partialBuf.length < MAX_REQUIRED_INPUT ∧ !(tryN s s.partialBuf) then
          .ret s rd
        else .next s (Rd.ofBytes s.partialBuf) true rd
    else
      match rd.fillBuf with
      | .error e => .err e
      | .ok () =>
        if mode = .stream ∧ rd.rem.length < MAX_REQUIRED_INPUT ∧ !(tryN s rd.rem) then
          match s.readPartialInputBuf rd with
          | .error e => .err e
          | .ok (s, rd) => .ret s rd
        else .next s rd false rd

/-- what the iteration does with the result of `process_next` -/
def loopPost (mode : Mode) (fuel : Nat) (staged : Bool) (rd : Rd)
    (x : Status × DState × ω × RC × Rd) : M (DState × ω × RC × Rd) :=
  let s := if staged then { x.2.1 with partialBuf := x.2.2.2.2.rem } else x.2.1
  let rd := if staged then rd else x.2.2.2.2
  if x.1 = .finished then pure (s, x.2.2.1, x.2.2.2.1, rd)
  else processLoop mode fuel s x.2.2.1 x.2.2.2.1 rd

theorem processLoop_succ_eq (mode : Mode) (fuel : Nat) (s : DState) (w : ω) (rc : RC) (rd : Rd) :
    processLoop mode (fuel + 1) s w rc rd =
      match loopPre mode s (LzBuf.len w) (fun s b => s.tryProcessNext w b rc) rc rd with
      | .err e => throwM e
      | .ret s rd => pure (s, w, rc, rd)
      | .next s rdN staged rd => processNext s w rc rdN >>= loopPost mode fuel staged rd := by
  conv => lhs; unfold processLoop
  funext snk
  unfold loopPre
  show (liftE (stopVal mode s (LzBuf.len w) rc rd) >>= _) snk = _
  rcases stopVal mode s (LzBuf.len w) rc rd with e | b
  · rfl
  · cases b
    · simp only [bind_run, liftE_ok, Bool.false_eq_true, if_false]
      by_cases hp : (!s.partialBuf.isEmpty) = true
      · simp only [hp, if_true]
        rcases s.readPartialInputBuf rd with e | ⟨s2, rd2⟩
        · rfl
        · simp only [bind_run, liftE_ok]
          split
          · rfl
          · rfl
      · simp only [hp]
        rcases rd.fillBuf with e | u
        · rfl
        · by_cases hc : mode = Mode.stream ∧ rd.rem.length < MAX_REQUIRED_INPUT ∧
              (!s.tryProcessNext w rd.rem rc) = true
          · simp only [if_pos hc]
            rcases s.readPartialInputBuf rd with e | ⟨s2, rd2⟩
            · rfl
            · rfl
          · simp only [if_neg hc]
            rfl
    · rfl

theorem loopPost_mono [OMBuf ω] (mode : Mode) (fuel : Nat) (staged : Bool) (rd : Rd)
    (x : Status × DState × ω × RC × Rd) : Mono (loopPost mode fuel staged rd x) := by
  unfold loopPost
  simp only
  split
  · exact (OM.pure _).mono
  · exact (OM.processLoop _ _ _ _ _ _).mono

/-- the loop of `process_mode` (either mode) under limit `m` against the roomy reference -/
theorem processLoop_lim (mode : Mode) (m : Nat) : ∀ (fuel : Nat) {W : Circ} {H : Bytes} {snk : Sink}
    {d M : Nat} (s : DState) (rc : RC) (rd : Rd),
    CircInv W H → snk.Perfect → W.dictSize = d → W.memlimit = M → d ≤ M →
    LimRel m d M H snk (fun a : DState × Circ × RC × Rd => a.2.1)
      (fun a => (a.1, a.2.1.withLimit m, a.2.2))
      (processLoop mode fuel s W rc rd snk) (processLoop mode fuel s (W.withLimit m) rc rd snk) := by
  intro fuel
  induction fuel with
  | zero =>
    intro W H snk d M s rc rd _ _ _ _ _
    exact LimRel.of_error snk .fuel
  | succ fuel ih =>
    intro W H snk d M s rc rd h hs hd hM hdM
    rw [processLoop_succ_eq, processLoop_succ_eq]
    simp only [Circ.lzbuf_len_withLimit, tryProcessNext_withLimit]
    rcases loopPre mode s (LzBuf.len W) (fun s b => s.tryProcessNext W b rc) rc rd with
      e | ⟨s2, rd2⟩ | ⟨s2, rdN, staged, rd2⟩
    · exact LimRel.of_error snk e
    · exact LimRel.ret (win := fun a : DState × Circ × RC × Rd => a.2.1) (s2, W, rc, rd2) h hd hM
    · simp only
      refine LimRel.bind (processNext_lim m s2 rc rdN h hs hd hM hdM) ?_
        (fun a => loopPost_mono mode fuel staged rd2 a)
      intro a H1 hp hi hd1 hM1
      unfold loopPost
      simp only
      by_cases hf : a.1 = .finished
      · simp only [if_pos hf]
        exact LimRel.ret (win := fun a : DState × Circ × RC × Rd => a.2.1) _ hi hd1 hM1
      · simp only [if_neg hf]
        exact ih _ _ _ hi (Sink.after_perfect hs) hd1 hM1 hdM


end

end DState

/-! ## `process_mode` and the raw decoder -/

namespace DState

theorem processMode_lim (mode : Mode) (m : Nat) {W : Circ} {H : Bytes} {snk : Sink} {d M : Nat}
    (s : DState) (rc : RC) (rd : Rd)
    (h : CircInv W H) (hs : snk.Perfect) (hd : W.dictSize = d) (hM : W.memlimit = M) (hdM : d ≤ M) :
    LimRel m d M H snk (fun a : DState × Circ × RC × Rd => a.2.1)
      (fun a => (a.1, a.2.1.withLimit m, a.2.2))
      (processMode mode s W rc rd snk) (processMode mode s (W.withLimit m) rc rd snk) := by
  unfold processMode
  generalize loopFuel s rd = fuel
  refine LimRel.bind (processLoop_lim mode m fuel s rc rd h hs hd hM hdM) ?_ ?_
  · rintro ⟨s1, w1, rc1, rd1⟩ H1 hp hi hd1 hM1
    dsimp only at hi hd1 hM1 ⊢
    rcases s1.unpackedSize with _ | n
    · exact LimRel.ret (win := fun a : DState × Circ × RC × Rd => a.2.1) (s1, w1, rc1, rd1) hi hd1 hM1
    · dsimp only
      by_cases hc : mode = Mode.finish ∧ n ≠ LzBuf.len w1
      · have hc' : mode = Mode.finish ∧ n ≠ LzBuf.len (w1.withLimit m) := hc
        rw [if_pos hc, if_pos hc']
        exact LimRel.of_error _ .lzma
      · have hc' : ¬ (mode = Mode.finish ∧ n ≠ LzBuf.len (w1.withLimit m)) := hc
        rw [if_neg hc, if_neg hc']
        exact LimRel.ret (win := fun a : DState × Circ × RC × Rd => a.2.1) (s1, w1, rc1, rd1) hi hd1 hM1
  · rintro ⟨s1, w1, rc1, rd1⟩
    simp only
    split
    · split
      · exact (OM.throw _).mono
      · exact (OM.pure _).mono
    · exact (OM.pure _).mono

end DState

/-- the raw decoder with another limit -/
def LzmaDecoder.withLimit (dec : LzmaDecoder) (m : Nat) : LzmaDecoder := { dec with memlimit := m }

theorem LzmaDecoder.decompress_err_rc {dec : LzmaDecoder} {rd : Rd} {snk : Sink} {e : Err}
    (hrc : RC.new rd = .error e) : dec.decompress rd snk = (snk, .error .lzma) := by
  unfold LzmaDecoder.decompress
  rw [bind_run_error (s' := snk) (e := .lzma) (by rw [hrc]; rfl)]

theorem LzmaDecoder.decompress_err_pm {dec : LzmaDecoder} {rd rd1 : Rd} {snk s1 : Sink} {rc : RC}
    {e : Err} (hrc : RC.new rd = .ok (rc, rd1))
    (hpm : dec.state.processMode .finish (Circ.fromStream dec.params.dictSize dec.memlimit) rc rd1 snk =
      (s1, .error e)) : dec.decompress rd snk = (s1, .error e) := by
  unfold LzmaDecoder.decompress
  rw [bind_run_ok (s' := snk) (a := (rc, rd1)) (by rw [hrc]; rfl)]
  exact bind_run_error hpm

theorem LzmaDecoder.decompress_ok_of {dec : LzmaDecoder} {rd rd1 rd2 : Rd} {snk s1 s2 : Sink}
    {rc rc1 : RC} {st : DState} {W1 : Circ} (hrc : RC.new rd = .ok (rc, rd1))
    (hpm : dec.state.processMode .finish (Circ.fromStream dec.params.dictSize dec.memlimit) rc rd1 snk =
      (s1, .ok (st, W1, rc1, rd2)))
    (hfin : W1.finish s1 = (s2, .ok ())) :
    dec.decompress rd snk = (s2, .ok ({ dec with state := st }, rd2)) := by
  unfold LzmaDecoder.decompress
  rw [bind_run_ok (s' := snk) (a := (rc, rd1)) (by rw [hrc]; rfl)]
  dsimp only
  rw [bind_run_ok hpm]
  dsimp only
  rw [bind_run_ok hfin]
  rfl

/-- `LzmaDecoder::decompress` under limit `m` against a roomy reference decoder
(`dictSize ≤ memlimit`), on a perfect sink: the reference run delivers some `H1`; the limited run
is identical if `min |H1| dictSize ≤ m` and fails with `Err lzma` otherwise; a reference error is
reproduced or pre-empted by the limit. -/
theorem LzmaDecoder.decompress_lim (dec : LzmaDecoder) (m : Nat) (rd : Rd) {snk : Sink}
    (hs : snk.Perfect) (hd : 0 < dec.params.dictSize) (hdM : dec.params.dictSize ≤ dec.memlimit) :
    (∀ snk' d' rd', dec.decompress rd snk = (snk', .ok (d', rd')) →
      ∃ H1 : Bytes, snk'.out = snk.out ++ H1.toArray ∧ snk'.Perfect ∧
        (min H1.length dec.params.dictSize ≤ m →
          (dec.withLimit m).decompress rd snk = (snk', .ok (d'.withLimit m, rd'))) ∧
        (¬ min H1.length dec.params.dictSize ≤ m →
          LimitHit m dec.params.dictSize snk' ((dec.withLimit m).decompress rd snk))) ∧
    (∀ snk' e, dec.decompress rd snk = (snk', .error e) →
      (dec.withLimit m).decompress rd snk = (snk', .error e) ∨
        LimitHit m dec.params.dictSize snk' ((dec.withLimit m).decompress rd snk)) := by
  rcases hrc : RC.new rd with e | ⟨rc, rd1⟩
  · rw [LzmaDecoder.decompress_err_rc hrc, LzmaDecoder.decompress_err_rc hrc]
    constructor
    · intro snk' d' rd' h; cases h
    · intro snk' e' h; exact Or.inl h
  · have hrel := DState.processMode_lim .finish m (d := dec.params.dictSize) (M := dec.memlimit)
      dec.state rc rd1 (Circ.fromStream_inv dec.memlimit hd) hs rfl rfl hdM
    rw [Circ.fromStream_withLimit] at hrel
    have hfit : min ([] : Bytes).length dec.params.dictSize ≤ m := by simp
    rcases hR : dec.state.processMode .finish (Circ.fromStream dec.params.dictSize dec.memlimit) rc rd1 snk
      with ⟨s1, e | ⟨st, W1, rc1, rd2⟩⟩
    · rw [hR] at hrel
      rw [LzmaDecoder.decompress_err_pm hrc hR]
      constructor
      · intro snk' d' rd' h; cases h
      · intro snk' e' h
        cases h
        rcases hrel.err hfit e rfl with hL | ⟨hlt, hl2, hpre⟩
        · exact Or.inl (LzmaDecoder.decompress_err_pm (dec := dec.withLimit m) hrc hL)
        · have hL : dec.state.processMode .finish (Circ.fromStream dec.params.dictSize m) rc rd1 snk =
              (_, .error .lzma) := Prod.ext rfl hl2
          rw [LzmaDecoder.decompress_err_pm (dec := dec.withLimit m) hrc hL]
          exact Or.inr ⟨hlt, rfl, hpre⟩
    · rw [hR] at hrel
      obtain ⟨H1, -, hi, hd1, hM1, hs1⟩ := hrel.ref _ rfl
      dsimp only at hi hd1 hM1 hs1
      have hs1p : s1.Perfect := by rw [hs1]; exact Sink.after_perfect hs
      obtain ⟨s', hfin, hs'p, hs'o, -⟩ := Circ.finish_spec (s0 := snk) hi hs1p
        (by rw [hs1, hd1]; simp [Sink.after, flushedLen])
      have hsz : W1.buf.size = min H1.length dec.params.dictSize := by rw [hi.size_eq, hd1]
      rw [LzmaDecoder.decompress_ok_of hrc hR hfin]
      constructor
      · intro snk' d' rd' h
        cases h
        refine ⟨H1, hs'o, hs'p, ?_, ?_⟩
        · intro hle
          have hL := hrel.same hfit _ rfl (by dsimp only; rw [hsz]; exact hle)
          exact LzmaDecoder.decompress_ok_of (dec := dec.withLimit m) hrc hL hfin
        · intro hnle
          obtain ⟨hlt, hl2, hpre⟩ := hrel.hit hfit _ rfl (by dsimp only; rw [hsz]; exact hnle)
          have hL : dec.state.processMode .finish (Circ.fromStream dec.params.dictSize m) rc rd1 snk =
              (_, .error .lzma) := Prod.ext rfl hl2
          rw [LzmaDecoder.decompress_err_pm (dec := dec.withLimit m) hrc hL]
          refine ⟨hlt, rfl, hpre.trans ?_⟩
          have := (OM.circ_finish W1).mono s1
          rw [hfin] at this
          exact this
      · intro snk' e h; cases h



namespace DState

/-! ## the allocation never exceeds the limit (any sink, any mode) -/

/-- allocation within the limit; limit and dictionary size as given -/
def BufOK (m d : Nat) (w : Circ) : Prop := w.buf.size ≤ m ∧ w.memlimit = m ∧ w.dictSize = d

theorem BufOK.fromStream (d m : Nat) : BufOK m d (Circ.fromStream d m) := ⟨by simp [Circ.fromStream], rfl, rfl⟩

theorem BufOK.appendLiteral {m d : Nat} {w w' : Circ} {b : UInt8} {s s' : Sink}
    (h : w.appendLiteral b s = (s', .ok w')) (hi : BufOK m d w) : BufOK m d w' := by
  obtain ⟨h1, h2, h3⟩ := hi
  have := Circ.appendLiteral_size_le h (by omega)
  exact ⟨by omega, by omega, by omega⟩

theorem BufOK.appendLz {m d : Nat} {w w' : Circ} {l dist : Nat} {s s' : Sink}
    (h : w.appendLz l dist s = (s', .ok w')) (hi : BufOK m d w) : BufOK m d w' := by
  obtain ⟨h1, h2, h3⟩ := hi
  have := Circ.appendLz_size_le h (by omega)
  exact ⟨by omega, by omega, by omega⟩

theorem processNext_bufOK {m d : Nat} {s : DState} {w : Circ} {rc : RC} {rd : Rd} {snk snk' : Sink}
    {st : Status} {s' : DState} {w' : Circ} {rc' : RC} {rd' : Rd}
    (h : processNext s w rc rd snk = (snk', .ok (st, s', w', rc', rd'))) (hi : BufOK m d w) :
    BufOK m d w' := by
  obtain ⟨sym, probs, -, ha⟩ := processNext_ok_iff.1 h
  exact applySym_inv (I := fun w _ => BufOK m d w)
    (fun w b snk snk' w' h hi => BufOK.appendLiteral h hi)
    (fun w l dd snk snk' w' h hi => BufOK.appendLz h hi) ha hi

/-- every configuration a Finish-mode run passes through keeps `buf.len() ≤ memlimit` -/
theorem FinishSteps.bufOK {m d : Nat} {c c' : Cfg Circ} {k : Nat} (h : FinishSteps c k c') :
    BufOK m d c.w → BufOK m d c'.w := by
  induction h with
  | refl c => exact id
  | step _ _ hn _ ih => intro hi; exact ih (processNext_bufOK hn hi)

/-- the loop of `process_mode` (either mode, any sink) returns a window within its limit -/
theorem processLoop_bufOK {mode : Mode} {m d : Nat} : ∀ (fuel : Nat) {s : DState} {w : Circ} {rc : RC}
    {rd : Rd} {snk snk' : Sink} {s' : DState} {w' : Circ} {rc' : RC} {rd' : Rd},
    processLoop mode fuel s w rc rd snk = (snk', .ok (s', w', rc', rd')) → BufOK m d w →
    BufOK m d w' := by
  intro fuel
  induction fuel with
  | zero => intro s w rc rd snk snk' s' w' rc' rd' h; simp [processLoop] at h
  | succ fuel ih =>
    intro s w rc rd snk snk' s' w' rc' rd' h hi
    rw [processLoop_succ_eq] at h
    generalize loopPre mode s (LzBuf.len w) (fun s b => s.tryProcessNext w b rc) rc rd = pre at h
    rcases pre with e | ⟨s2, rd2⟩ | ⟨s2, rdN, staged, rd2⟩
    · simp at h
    · simp only [pure_run, Prod.mk.injEq, Except.ok.injEq] at h
      obtain ⟨-, -, h, -⟩ := h
      rw [← h]; exact hi
    · simp only [PM.bind_ok] at h
      obtain ⟨s1, ⟨st, sa, wa, rca, rda⟩, hn, h⟩ := h
      have hi1 := processNext_bufOK hn hi
      unfold loopPost at h
      simp only at h
      split at h
      · simp only [pure_run, Prod.mk.injEq, Except.ok.injEq] at h
        obtain ⟨-, -, h, -⟩ := h
        rw [← h]; exact hi1
      · exact ih h hi1

theorem processMode_bufOK {mode : Mode} {m d : Nat} {s : DState} {w : Circ} {rc : RC}
    {rd : Rd} {snk snk' : Sink} {s' : DState} {w' : Circ} {rc' : RC} {rd' : Rd}
    (h : processMode mode s w rc rd snk = (snk', .ok (s', w', rc', rd'))) (hi : BufOK m d w) :
    BufOK m d w' :=
  processLoop_bufOK _ (processMode_ok_iff.1 h).1 hi

end DState


/-! ## the one-shot decoder -/

theorem readHeader_memlimit (rd : Rd) (opts : Options) (ml : Option Nat) :
    readHeader rd { opts with memlimit := ml } = readHeader rd opts := rfl

theorem LzmaDecoder.new_memlimit (params : LzmaParams) (ml ml' : Option Nat) :
    LzmaDecoder.new params ml' =
      (LzmaDecoder.new params ml).map (·.withLimit (ml'.getD USIZE_MAX)) := by
  unfold LzmaDecoder.new
  by_cases h0 : params.dictSize = 0
  · simp [h0, bind, Except.bind, throw, throwThe, MonadExceptOf.throw, Except.map]
  · rcases DState.new params.props params.unpackedSize with e | st
    · simp [h0, bind, Except.bind, Except.map]
    · simp [h0, bind, Except.bind, Except.map, pure, Except.pure, LzmaDecoder.withLimit]

/-- the stages of `lzma_decompress_with_options` -/
theorem lzmaDecompress_eq (rd : Rd) (opts : Options) (snk : Sink) :
    lzmaDecompress rd opts snk =
      match readHeader rd opts with
      | .error e => (snk, .error e)
      | .ok (params, rd1) =>
        match LzmaDecoder.new params opts.memlimit with
        | .error e => (snk, .error e)
        | .ok dec => ((dec.decompress rd1 snk).1, (dec.decompress rd1 snk).2.map (·.2)) := by
  unfold lzmaDecompress
  rcases readHeader rd opts with e | ⟨params, rd1⟩
  · exact bind_run_error (liftE_error e snk)
  · rw [bind_run_ok (liftE_ok (params, rd1) snk)]
    dsimp only
    rcases LzmaDecoder.new params opts.memlimit with e | dec
    · exact bind_run_error (liftE_error e snk)
    · rw [bind_run_ok (liftE_ok dec snk)]
      dsimp only
      rcases hdec : dec.decompress rd1 snk with ⟨s1, e | ⟨d', rd'⟩⟩
      · exact bind_run_error hdec
      · rw [bind_run_ok hdec]; rfl

theorem leVal_lt_pow (bs : Bytes) : leVal bs < 256 ^ bs.length := by
  induction bs with
  | nil => simp [leVal]
  | cons b r ih =>
    have := b.toNat_lt
    simp only [leVal, List.length_cons, Nat.pow_succ]
    omega

/-- the dictionary size in effect for a `.lzma` header: the LE field of bytes 1..4, at least 4096 -/
def headerDict (rd : Rd) : Nat := max (leVal ((rd.rem.drop 1).take 4)) 4096

theorem headerDict_bounds (rd : Rd) : 4096 ≤ headerDict rd ∧ headerDict rd ≤ USIZE_MAX := by
  have h := leVal_lt_pow ((rd.rem.drop 1).take 4)
  have hl : ((rd.rem.drop 1).take 4).length ≤ 4 := by simp; omega
  have : 256 ^ ((rd.rem.drop 1).take 4).length ≤ 256 ^ 4 := Nat.pow_le_pow_right (by decide) hl
  unfold headerDict USIZE_MAX U64
  omega

theorem readHeader_headerDict {rd rd1 : Rd} {opts : Options} {params : LzmaParams}
    (h : readHeader rd opts = .ok (params, rd1)) : params.dictSize = headerDict rd := by
  rw [readHeader_eq] at h
  rcases rd with ⟨_ | ⟨b, rest⟩, bad⟩
  · cases h
  · simp only at h
    split at h
    · cases h
    · split at h
      · cases h
      · cases h; simp [hdrParams, headerDict]

/-- `lzma_decompress_with_options` with `memlimit = Some(m)` against `memlimit = None`, on a
perfect sink -/
theorem lzmaDecompress_lim (rd : Rd) (opts : Options) (m : Nat) {snk : Sink} (hs : snk.Perfect) :
    (∀ snk' rd', lzmaDecompress rd { opts with memlimit := none } snk = (snk', .ok rd') →
      ∃ H1 : Bytes, snk'.out = snk.out ++ H1.toArray ∧ snk'.Perfect ∧
        (min H1.length (headerDict rd) ≤ m →
          lzmaDecompress rd { opts with memlimit := some m } snk = (snk', .ok rd')) ∧
        (¬ min H1.length (headerDict rd) ≤ m →
          LimitHit m (headerDict rd) snk'
            (lzmaDecompress rd { opts with memlimit := some m } snk))) ∧
    (∀ snk' e, lzmaDecompress rd { opts with memlimit := none } snk = (snk', .error e) →
      lzmaDecompress rd { opts with memlimit := some m } snk = (snk', .error e) ∨
        LimitHit m (headerDict rd) snk'
          (lzmaDecompress rd { opts with memlimit := some m } snk)) := by
  rw [lzmaDecompress_eq rd { opts with memlimit := none },
    lzmaDecompress_eq rd { opts with memlimit := some m }, readHeader_memlimit rd opts none,
    readHeader_memlimit rd opts (some m)]
  rcases hh : readHeader rd opts with e | ⟨params, rd1⟩
  · dsimp only
    exact ⟨fun _ _ h => (by cases h), fun _ _ h => Or.inl h⟩
  · dsimp only
    rw [LzmaDecoder.new_memlimit params none (some m)]
    rcases hn : LzmaDecoder.new params none with e | dec
    · dsimp only [Except.map]
      exact ⟨fun _ _ h => (by cases h), fun _ _ h => Or.inl h⟩
    · dsimp only [Except.map, Option.getD]
      obtain ⟨hp, hm, -⟩ := LzmaDecoder.new_ok hn
      have hdict : dec.params.dictSize = headerDict rd := by rw [hp]; exact readHeader_headerDict hh
      have hb := headerDict_bounds rd
      have hlim := LzmaDecoder.decompress_lim dec m rd1 hs (by omega)
        (by rw [hm, hdict]; exact hb.2)
      rw [hdict] at hlim
      obtain ⟨hok, herr⟩ := hlim
      rcases hR : dec.decompress rd1 snk with ⟨s1, e | ⟨d', rd'⟩⟩
      · constructor
        · intro _ _ h; cases h
        · intro snk' e' h
          cases h
          rcases herr _ _ hR with hL | ⟨hlt, hl2, hpre⟩
          · rw [hL]; exact Or.inl rfl
          · exact Or.inr ⟨hlt, by dsimp only; rw [hl2], hpre⟩
      · constructor
        · intro snk' rd'' h
          cases h
          obtain ⟨H1, ho, hp', hsame, hhit⟩ := hok _ _ _ hR
          refine ⟨H1, ho, hp', ?_, ?_⟩
          · intro hle; rw [hsame hle]
          · intro hnle
            obtain ⟨hlt, hl2, hpre⟩ := hhit hnle
            exact ⟨hlt, by dsimp only; rw [hl2], hpre⟩
        · intro _ _ h; cases h



/-! ## the streaming decoder -/

def RunState.withLimit (rs : RunState) (m : Nat) : RunState :=
  { rs with output := rs.output.withLimit m }

def StreamState.withLimit : StreamState → Nat → StreamState
  | .header, _ => .header
  | .data rs, m => .data (rs.withLimit m)

/-- the stream as it would be had it been created with `memlimit = Some(m)` -/
def Stream.withLimit (st : Stream) (m : Nat) : Stream :=
  { st with state := st.state.map (·.withLimit m), options := { st.options with memlimit := some m } }

namespace Stream

theorem newWithOptions_withLimit (opts : Options) (m : Nat) :
    (newWithOptions opts).withLimit m = newWithOptions { opts with memlimit := some m } := rfl

theorem failed_withLimit (st : Stream) (m : Nat) : st.failed.withLimit m = (st.withLimit m).failed := rfl

/-- `Stream::read_header` does not depend on the limit except for the window it creates -/
theorem readHeader_withLimit (rd : Rd) (opts : Options) (m : Nat) :
    readHeader rd { opts with memlimit := some m } =
      (readHeader rd opts).map fun x => (x.1.map (·.withLimit m), x.2) := by
  unfold readHeader
  rw [readHeader_memlimit]
  rcases Lzma.readHeader rd opts with e | ⟨params, rd'⟩
  · cases e <;> rfl
  · dsimp only
    rcases DState.new params.props params.unpackedSize with e | dec
    · rfl
    · dsimp only
      rcases RC.new rd' with e | ⟨rc, rd''⟩
      · rfl
      · rfl

/-- a header parsed by the stream: the window is fresh, its dictionary size is a `usize ≥ 4096` -/
theorem readHeader_some {rd rd'' : Rd} {opts : Options} {rs : RunState}
    (h : readHeader rd opts = .ok (some rs, rd'')) :
    ∃ d, rs.output = Circ.fromStream d (opts.memlimit.getD USIZE_MAX) ∧ 1 ≤ d ∧ d ≤ USIZE_MAX := by
  unfold readHeader at h
  rcases hh : Lzma.readHeader rd opts with e | ⟨params, rd'⟩
  · rw [hh] at h; cases e <;> cases h
  · rw [hh] at h
    dsimp only at h
    rcases hn : DState.new params.props params.unpackedSize with e | dec
    · rw [hn] at h; cases h
    · rw [hn] at h
      dsimp only at h
      rcases hr : RC.new rd' with e | ⟨rc, rd2⟩
      · rw [hr] at h; cases h
      · rw [hr] at h
        dsimp only at h
        cases h
        have hb := headerDict_bounds rd
        rw [← readHeader_headerDict hh] at hb
        exact ⟨params.dictSize, rfl, by omega, hb.2⟩

/-- `write` in the `Header` state: a pure function of the stream and the data -/
def hdrWrite (st : Stream) (data : Bytes) : Except Err (Stream × Nat) :=
  if st.tmp.length > 0 then
    match readHeader (Rd.ofBytes (st.tmp ++ data.take (min data.length (MAX_TMP_LEN - st.tmp.length))))
        st.options with
    | .error e => .error e
    | .ok (some rs, rd') =>
      .ok ({ st with tmp := rd'.rem, state := some (.data rs) },
        min data.length (MAX_TMP_LEN - st.tmp.length))
    | .ok (none, _) =>
      .ok ({ st with tmp := st.tmp ++ data.take (min data.length (MAX_TMP_LEN - st.tmp.length)),
                     state := some .header },
        min data.length (MAX_TMP_LEN - st.tmp.length))
  else
    match readHeader (Rd.ofBytes data) st.options with
    | .error e => .error e
    | .ok (some rs, rd') => .ok ({ st with state := some (.data rs) }, data.length - rd'.rem.length)
    | .ok (none, _) =>
      .ok ({ st with tmp := data.take (min data.length MAX_TMP_LEN), state := some .header },
        min data.length MAX_TMP_LEN)

theorem write_header_eq (st : Stream) (data : Bytes) (snk : Sink) (h : st.state = some .header) :
    st.write data snk = (snk, hdrWrite st data) := by
  unfold write hdrWrite
  rw [h]
  dsimp only
  by_cases hh : st.tmp.length > 0
  · simp only [hh, ↓reduceIte]
    split <;> (rename_i heq; simp only [heq])
  · simp only [hh, ↓reduceIte]
    split <;> (rename_i heq; simp only [heq])

theorem hdrWrite_withLimit (st : Stream) (data : Bytes) (m : Nat) :
    hdrWrite (st.withLimit m) data =
      (hdrWrite st data).map fun x => (x.1.withLimit m, x.2) := by
  unfold hdrWrite
  have ht : (st.withLimit m).tmp = st.tmp := rfl
  have ho : (st.withLimit m).options = { st.options with memlimit := some m } := rfl
  rw [ht, ho]
  by_cases hh : st.tmp.length > 0
  · simp only [hh, ↓reduceIte, readHeader_withLimit]
    rcases readHeader (Rd.ofBytes (st.tmp ++ data.take (min data.length (MAX_TMP_LEN - st.tmp.length))))
        st.options with e | ⟨_ | rs, rd'⟩ <;> rfl
  · simp only [hh, ↓reduceIte, readHeader_withLimit]
    rcases readHeader (Rd.ofBytes data) st.options with e | ⟨_ | rs, rd'⟩ <;> rfl

/-- what a successful `write` in the `Header` state leaves behind -/
theorem hdrWrite_ok {st st' : Stream} {data : Bytes} {k : Nat} (h : hdrWrite st data = .ok (st', k)) :
    st'.options = st.options ∧
      (st'.state = some .header ∨
        ∃ rs d, st'.state = some (.data rs) ∧
          rs.output = Circ.fromStream d (st.options.memlimit.getD USIZE_MAX) ∧ 1 ≤ d ∧ d ≤ USIZE_MAX) := by
  unfold hdrWrite at h
  split at h
  · split at h
    · cases h
    · rename_i rs rd' hr
      cases h
      obtain ⟨d, h1, h2, h3⟩ := readHeader_some hr
      exact ⟨rfl, Or.inr ⟨rs, d, rfl, h1, h2, h3⟩⟩
    · cases h; exact ⟨rfl, Or.inl rfl⟩
  · split at h
    · cases h
    · rename_i rs rd' hr
      cases h
      obtain ⟨d, h1, h2, h3⟩ := readHeader_some hr
      exact ⟨rfl, Or.inr ⟨rs, d, rfl, h1, h2, h3⟩⟩
    · cases h; exact ⟨rfl, Or.inl rfl⟩

/-- the window of a stream in the `Data` state (a junk default otherwise) -/
def winD (st : Stream) : Circ :=
  match st.state with
  | some (.data rs) => rs.output
  | _ => default

theorem readData_lim {rs : RunState} {H : Bytes} {snk : Sink} {d M : Nat} (m : Nat) (rd : Rd)
    (h : CircInv rs.output H) (hs : snk.Perfect) (hd : rs.output.dictSize = d)
    (hM : rs.output.memlimit = M) (hdM : d ≤ M) :
    LimRel m d M H snk (fun a : RunState × Rd => a.1.output) (fun a => (a.1.withLimit m, a.2))
      (readData rs rd snk) (readData (rs.withLimit m) rd snk) := by
  unfold readData
  exact LimRel.map2
    (gR := fun x : DState × Circ × RC × Rd =>
      (({ decoder := x.1, range := x.2.2.1.range, code := x.2.2.1.code, output := x.2.1 } : RunState),
        x.2.2.2))
    (DState.processMode_lim .stream m rs.decoder { range := rs.range, code := rs.code } rd h hs hd hM hdM)
    (fun _ => rfl) (fun _ => rfl)

theorem readData_mono (rs : RunState) (rd : Rd) : Mono (readData rs rd) := (OM.streamReadData rs rd).mono

/-- the second half of `write` in the `Data` state -/
theorem write_tail_lim {st : Stream} {rs : RunState} {H : Bytes} {snk : Sink} {d M : Nat} (m : Nat)
    (data : Bytes) (h : CircInv rs.output H) (hs : snk.Perfect) (hd : rs.output.dictSize = d)
    (hM : rs.output.memlimit = M) (hdM : d ≤ M) :
    LimRel m d M H snk (fun a : Stream × Nat => a.1.winD) (fun a => (a.1.withLimit m, a.2))
      ((readData rs (Rd.ofBytes data) >>= fun x =>
        pure (({ st with tmp := [], state := some (.data x.1) } : Stream),
          data.length - x.2.rem.length)) snk)
      ((readData (rs.withLimit m) (Rd.ofBytes data) >>= fun x =>
        pure (({ st.withLimit m with tmp := [], state := some (.data x.1) } : Stream),
          data.length - x.2.rem.length)) snk) :=
  LimRel.map2
    (gR := fun x : RunState × Rd =>
      (({ st with tmp := [], state := some (.data x.1) } : Stream), data.length - x.2.rem.length))
    (gL := fun x : RunState × Rd =>
      (({ st.withLimit m with tmp := [], state := some (.data x.1) } : Stream),
        data.length - x.2.rem.length))
    (readData_lim m (Rd.ofBytes data) h hs hd hM hdM)
    (fun _ => rfl) (fun _ => rfl)

/-- `write` in the `Data` state under limit `m` against the roomy reference -/
theorem write_data_lim {st : Stream} {rs : RunState} {H : Bytes} {snk : Sink} {d M : Nat} (m : Nat)
    (data : Bytes) (hst : st.state = some (.data rs))
    (h : CircInv rs.output H) (hs : snk.Perfect) (hd : rs.output.dictSize = d)
    (hM : rs.output.memlimit = M) (hdM : d ≤ M) :
    LimRel m d M H snk (fun a : Stream × Nat => a.1.winD) (fun a => (a.1.withLimit m, a.2))
      (st.write data snk) ((st.withLimit m).write data snk) := by
  have hstL : (st.withLimit m).state = some (.data (rs.withLimit m)) := by
    simp only [Stream.withLimit, hst]; rfl
  have htL : (st.withLimit m).tmp = st.tmp := rfl
  unfold write
  rw [hst, hstL, htL]
  dsimp only
  by_cases ht : st.tmp.length > 0
  · simp only [ht, ↓reduceIte]
    refine LimRel.bind (readData_lim m (Rd.ofBytes st.tmp) h hs hd hM hdM) ?_ ?_
    · intro a H1 hp hi1 hd1 hM1
      rw [bind_run_ok (m := pure a.1) (pure_run _ _),
        bind_run_ok (m := pure (a.1.withLimit m, a.2).1) (pure_run _ _)]
      exact write_tail_lim m data hi1 (Sink.after_perfect hs) hd1 hM1 hdM
    · intro a
      exact Mono.bind (OM.pure _).mono fun _ =>
        Mono.bind (readData_mono _ _) (fun _ => (OM.pure _).mono)
  · simp only [ht, ↓reduceIte]
    rw [bind_run_ok (m := pure rs) (pure_run _ _),
      bind_run_ok (m := pure (rs.withLimit m)) (pure_run _ _)]
    exact write_tail_lim m data h hs hd hM hdM


/-- a successful `write` in the `Data` state only replaces the run state and empties `tmp` -/
theorem write_data_shape {st st' : Stream} {rs : RunState} {data : Bytes} {snk snk' : Sink} {n : Nat}
    (hst : st.state = some (.data rs)) (h : st.write data snk = (snk', .ok (st', n))) :
    ∃ rs', st' = { st with tmp := [], state := some (.data rs') } := by
  unfold write at h
  rw [hst] at h
  dsimp only at h
  split at h
  · rcases hm : readData rs (Rd.ofBytes st.tmp) snk with ⟨s1, (e | ⟨rs2, rd2⟩)⟩
    · rw [bind_run_error hm] at h; simp at h
    · rw [bind_run_ok hm] at h
      dsimp only at h
      rw [bind_run_ok (m := pure _) rfl] at h
      rcases hm2 : readData rs2 (Rd.ofBytes data) s1 with ⟨s2, (e | ⟨rs3, rd3⟩)⟩
      · rw [bind_run_error hm2] at h; simp at h
      · rw [bind_run_ok hm2] at h
        simp only [pure_run, Prod.mk.injEq, Except.ok.injEq] at h
        exact ⟨rs3, by rw [← h.2.1]⟩
  · rw [bind_run_ok (m := pure _) rfl] at h
    rcases hm2 : readData rs (Rd.ofBytes data) snk with ⟨s2, (e | ⟨rs3, rd3⟩)⟩
    · rw [bind_run_error hm2] at h; simp at h
    · rw [bind_run_ok hm2] at h
      simp only [pure_run, Prod.mk.injEq, Except.ok.injEq] at h
      exact ⟨rs3, by rw [← h.2.1]⟩

/-! ### simulation of whole stream runs -/

/-- bytes of history the stream holds -/
def need (st : Stream) : Nat :=
  match st.state with
  | some (.data rs) => rs.output.buf.size
  | _ => 0

/-- dictionary size of the stream's window (`0` before the header has been parsed) -/
def dict (st : Stream) : Nat :=
  match st.state with
  | some (.data rs) => rs.output.dictSize
  | _ => 0

/-- invariant of the unlimited reference stream; ghost data: `base` = the sink before the first
byte was written, `H` = everything decoded so far, `snk` = the current sink -/
structure Inv (st : Stream) (base snk : Sink) (H : Bytes) : Prop where
  opt : st.options.memlimit = none
  perfect : base.Perfect
  data : ∀ rs, st.state = some (.data rs) → CircInv rs.output H ∧
    rs.output.dictSize ≤ rs.output.memlimit ∧ snk = base.after rs.output.dictSize [] H
  other : (∀ rs, st.state ≠ some (.data rs)) → H = [] ∧ snk = base

theorem Inv.snk_perfect {st : Stream} {base snk : Sink} {H : Bytes} (h : st.Inv base snk H) :
    snk.Perfect := by
  rcases hst : st.state with _ | _ | rs
  · rw [(h.other (by rw [hst]; intro rs hh; cases hh)).2]; exact h.perfect
  · rw [(h.other (by rw [hst]; intro rs hh; cases hh)).2]; exact h.perfect
  · rw [(h.data rs hst).2.2]; exact Sink.after_perfect h.perfect

theorem Inv.need_eq {st : Stream} {base snk : Sink} {H : Bytes} (h : st.Inv base snk H) :
    st.need = min H.length st.dict := by
  unfold need dict
  rcases hst : st.state with _ | _ | rs
  · rw [(h.other (by rw [hst]; intro rs hh; cases hh)).1]; rfl
  · rw [(h.other (by rw [hst]; intro rs hh; cases hh)).1]; rfl
  · exact (h.data rs hst).1.size_eq

theorem Inv.new (opts : Options) (hopt : opts.memlimit = none) {base : Sink} (hb : base.Perfect) :
    (newWithOptions opts).Inv base base [] where
  opt := hopt
  perfect := hb
  data := by intro rs h; cases h
  other := fun _ => ⟨rfl, rfl⟩

/-- the limited run died of its limit: `Err lzma`, having delivered a prefix -/
def SHit {β : Type} (R L : Sink × Stream × Except Err β) : Prop :=
  L.2.2 = .error .lzma ∧ APre L.1.out R.1.out

/-- `SRel m base st H R L`: `R` is the result (sink, stream, verdict) of some calls on the
reference stream `st` (which has produced `H`), `L` the result of the same calls on
`st.withLimit m`, both started on the same sink -/
structure SRel {β : Type} (m : Nat) (base : Sink) (st : Stream) (H : Bytes)
    (R L : Sink × Stream × Except Err β) : Prop where
  ref : ∀ b, R.2.2 = .ok b → st.need ≤ R.2.1.need ∧ ∃ H1, H <+: H1 ∧ R.2.1.Inv base R.1 H1
  same : st.need ≤ m → ∀ b, R.2.2 = .ok b → R.2.1.need ≤ m → L = (R.1, R.2.1.withLimit m, .ok b)
  hit : st.need ≤ m → ∀ b, R.2.2 = .ok b → ¬ R.2.1.need ≤ m → SHit R L
  err : st.need ≤ m → ∀ e, R.2.2 = .error e → L = (R.1, R.2.1.withLimit m, .error e) ∨ SHit R L

theorem SRel.ret {β : Type} {m : Nat} {base snk : Sink} {st : Stream} {H : Bytes} (b : β)
    (h : st.Inv base snk H) : SRel m base st H (snk, st, .ok b) (snk, st.withLimit m, .ok b) where
  ref := by intro b' hb; exact ⟨Nat.le_refl _, H, List.prefix_refl H, h⟩
  same := by intro _ b' hb _; cases hb; rfl
  hit := by intro hfit b' hb hn; exact absurd hfit hn
  err := by intro _ e he; cases he

theorem SRel.of_ok_zero {β : Type} {m : Nat} {base snk1 : Sink} {st st1 : Stream} {H H1 : Bytes} (b : β)
    (hz : st1.need = 0) (hz0 : st.need = 0) (hp : H <+: H1) (h1 : st1.Inv base snk1 H1) :
    SRel m base st H (snk1, st1, .ok b) (snk1, st1.withLimit m, .ok b) where
  ref := by intro b' hb; exact ⟨by dsimp only; omega, H1, hp, h1⟩
  same := by intro _ b' hb _; cases hb; rfl
  hit := by intro _ b' hb hn; exact absurd (by dsimp only; omega) hn
  err := by intro _ e he; cases he

theorem writeS_of_ok {st st' : Stream} {data : Bytes} {snk s1 : Sink} {n : Nat}
    (h : st.write data snk = (s1, .ok (st', n))) : st.writeS data snk = (s1, st', .ok n) := by
  unfold writeS; rw [h]

theorem writeS_of_err {st : Stream} {data : Bytes} {snk s1 : Sink} {e : Err}
    (h : st.write data snk = (s1, .error e)) : st.writeS data snk = (s1, st.failed, .error e) := by
  unfold writeS; rw [h]

/-- one `write` call (as a transition of the stream object) under limit `m` -/
theorem writeS_srel (m : Nat) (data : Bytes) {st : Stream} {base snk : Sink} {H : Bytes}
    (h : st.Inv base snk H) :
    SRel m base st H (st.writeS data snk) ((st.withLimit m).writeS data snk) := by
  rcases hst : st.state with _ | _ | rs
  · have hL : (st.withLimit m).state = none := by simp [Stream.withLimit, hst]
    rw [writeS_none st data snk hst, writeS_none _ data snk hL]
    exact SRel.ret 0 h
  · have hL : (st.withLimit m).state = some .header := by simp [Stream.withLimit, hst]; rfl
    have hnd : ∀ rs, st.state ≠ some (.data rs) := by rw [hst]; intro rs hh; cases hh
    obtain ⟨hH, hsnk⟩ := h.other hnd
    subst hH hsnk
    have hWL := write_header_eq (st.withLimit m) data snk hL
    rw [hdrWrite_withLimit] at hWL
    rcases hw : hdrWrite st data with e | ⟨st', k⟩
    · have hW := write_header_eq st data snk hst
      rw [hw] at hW hWL
      rw [writeS_of_err hW, writeS_of_err hWL]
      exact {
        ref := by intro b hb; cases hb
        same := by intro _ b hb; cases hb
        hit := by intro _ b hb; cases hb
        err := by intro _ e' he; cases he; exact Or.inl rfl }
    · have hW := write_header_eq st data snk hst
      rw [hw] at hW hWL
      rw [writeS_of_ok hW, writeS_of_ok hWL]
      obtain ⟨hopt, hstate⟩ := hdrWrite_ok hw
      have hz0 : st.need = 0 := by unfold need; rw [hst]
      rcases hstate with hh | ⟨rs, d, hrs, hout, hd1, hd2⟩
      · refine SRel.of_ok_zero k (by unfold need; rw [hh]) hz0 (List.prefix_refl _) ?_
        exact {
          opt := by rw [hopt]; exact h.opt
          perfect := h.perfect
          data := by intro rs hrs; rw [hh] at hrs; cases hrs
          other := fun _ => ⟨rfl, rfl⟩ }
      · rw [h.opt] at hout
        refine SRel.of_ok_zero k (by unfold need; rw [hrs]; dsimp only; rw [hout]; rfl) hz0 (List.prefix_refl _) ?_
        exact {
          opt := by rw [hopt]; exact h.opt
          perfect := h.perfect
          data := by
            intro rs' hrs'
            rw [hrs] at hrs'
            cases hrs'
            rw [hout]
            exact ⟨Circ.fromStream_inv _ (by omega), hd2, (Sink.after_self _ _ _).symm⟩
          other := by intro hn; exact absurd hrs (hn rs) }
  · obtain ⟨hi, hroomy, hsnk⟩ := h.data rs hst
    have hsp := h.snk_perfect
    have hrel := write_data_lim m data hst hi hsp rfl rfl hroomy
    have hneed : st.need = min H.length rs.output.dictSize := by
      rw [h.need_eq]; unfold dict; rw [hst]
    rcases hW : st.write data snk with ⟨s1, e | ⟨st', n⟩⟩
    · rw [hW] at hrel
      rw [writeS_of_err hW]
      exact {
        ref := by intro b hb; cases hb
        same := by intro _ b hb; cases hb
        hit := by intro _ b hb; cases hb
        err := by
          intro hfit e' he
          cases he
          rcases hrel.err (by omega) e rfl with hL | ⟨-, hl2, hpre⟩
          · rw [writeS_of_err hL]; exact Or.inl rfl
          · have hL : (st.withLimit m).write data snk = (_, .error .lzma) := Prod.ext rfl hl2
            rw [writeS_of_err hL]
            exact Or.inr ⟨rfl, hpre⟩ }
    · rw [hW] at hrel
      rw [writeS_of_ok hW]
      obtain ⟨rs', hshape⟩ := write_data_shape hst hW
      have hst' : st'.state = some (.data rs') := by rw [hshape]
      have hwin : st'.winD = rs'.output := by unfold winD; rw [hst']
      obtain ⟨H1, hp, hi1, hd1, hM1, hs1⟩ := hrel.ref _ rfl
      dsimp only at hi1 hd1 hM1 hs1
      rw [hwin] at hi1 hd1 hM1
      have hneed' : st'.need = min H1.length rs.output.dictSize := by
        unfold need; rw [hst']; dsimp only; rw [hi1.size_eq, hd1]
      have hinv' : st'.Inv base s1 H1 := {
        opt := by rw [hshape]; exact h.opt
        perfect := h.perfect
        data := by
          intro rs'' hrs''
          rw [hst'] at hrs''
          cases hrs''
          refine ⟨hi1, by omega, ?_⟩
          rw [hs1, hsnk, hd1, Sink.after_trans' _ _ (List.nil_prefix) hp]
        other := by intro hn; exact absurd hst' (hn rs') }
      have hlen := hp.length_le
      exact {
        ref := by intro b hb; exact ⟨by dsimp only; omega, H1, hp, hinv'⟩
        same := by
          intro hfit b hb hle
          cases hb
          have hL := hrel.same (by omega) _ rfl
            (by dsimp only; rw [hwin, hi1.size_eq, hd1]; dsimp only at hle; omega)
          rw [writeS_of_ok hL]
        hit := by
          intro hfit b hb hnle
          obtain ⟨-, hl2, hpre⟩ := hrel.hit (by omega) _ rfl
            (by dsimp only; rw [hwin, hi1.size_eq, hd1]; dsimp only at hnle; omega)
          have hL : (st.withLimit m).write data snk = (_, .error .lzma) := Prod.ext rfl hl2
          rw [writeS_of_err hL]
          exact ⟨rfl, hpre⟩
        err := by intro _ e he; cases he }

/-- sequencing of calls on the stream object: stop at the first error -/
def seqS {β γ : Type} (x : Sink × Stream × Except Err β)
    (k : β → Stream → Sink → Sink × Stream × Except Err γ) : Sink × Stream × Except Err γ :=
  match x with
  | (s, t, .error e) => (s, t, .error e)
  | (s, t, .ok n) => k n t s

theorem SRel.seq {β γ : Type} {m : Nat} {base : Sink} {st : Stream} {H : Bytes}
    {R L : Sink × Stream × Except Err β}
    {k : β → Stream → Sink → Sink × Stream × Except Err γ}
    (h1 : SRel m base st H R L)
    (h2 : ∀ n H1, H <+: H1 → R.2.2 = .ok n → R.2.1.Inv base R.1 H1 →
      SRel m base R.2.1 H1 (k n R.2.1 R.1) (k n (R.2.1.withLimit m) R.1))
    (hmono : ∀ n t s, APre s.out (k n t s).1.out) :
    SRel m base st H (seqS R k) (seqS L k) := by
  obtain ⟨s1, t1, r⟩ := R
  obtain ⟨l1, l2, l3⟩ := L
  cases r with
  | error e =>
    exact {
      ref := by intro b hb; cases hb
      same := by intro _ b hb; cases hb
      hit := by intro _ b hb; cases hb
      err := by
        intro hfit e' he
        cases he
        rcases h1.err hfit e rfl with hL | ⟨hl2, hpre⟩
        · cases hL; exact Or.inl rfl
        · dsimp only at hl2 hpre
          subst hl2
          exact Or.inr ⟨rfl, hpre⟩ }
  | ok n =>
    obtain ⟨hn1, H1, hp, hinv⟩ := h1.ref n rfl
    dsimp only at hn1 hinv
    have h2' := h2 n H1 hp rfl hinv
    dsimp only at h2'
    have href : ∀ b, (k n t1 s1).2.2 = .ok b → t1.need ≤ (k n t1 s1).2.1.need ∧
        ∃ H2, H <+: H2 ∧ (k n t1 s1).2.1.Inv base (k n t1 s1).1 H2 := by
      intro b hb
      obtain ⟨hn2, H2, hp2, hinv2⟩ := h2'.ref b hb
      exact ⟨hn2, H2, hp.trans hp2, hinv2⟩
    by_cases hb1 : t1.need ≤ m
    · exact {
        ref := by
          intro b hb
          obtain ⟨hn2, H2, hp2, hinv2⟩ := href b hb
          exact ⟨Nat.le_trans hn1 hn2, H2, hp2, hinv2⟩
        same := by
          intro hfit b hb hle
          have hL := h1.same hfit n rfl hb1
          cases hL
          exact h2'.same hb1 b hb hle
        hit := by
          intro hfit b hb hnle
          have hL := h1.same hfit n rfl hb1
          cases hL
          exact h2'.hit hb1 b hb hnle
        err := by
          intro hfit e he
          have hL := h1.same hfit n rfl hb1
          cases hL
          exact h2'.err hb1 e he }
    · have hhit : st.need ≤ m → SHit (seqS (s1, t1, Except.ok n) k) (seqS (l1, l2, l3) k) := by
        intro hfit
        obtain ⟨hl2, hpre⟩ := h1.hit hfit n rfl hb1
        dsimp only at hl2 hpre
        subst hl2
        exact ⟨rfl, hpre.trans (hmono n t1 s1)⟩
      exact {
        ref := by
          intro b hb
          obtain ⟨hn2, H2, hp2, hinv2⟩ := href b hb
          exact ⟨Nat.le_trans hn1 hn2, H2, hp2, hinv2⟩
        same := by
          intro hfit b hb hle
          obtain ⟨hn2, -⟩ := href b hb
          exact absurd (Nat.le_trans hn2 hle) hb1
        hit := by intro hfit b _ _; exact hhit hfit
        err := by intro hfit e _; exact Or.inr (hhit hfit) }

theorem seqS_mono {β γ : Type} {x : Sink × Stream × Except Err β}
    {k : β → Stream → Sink → Sink × Stream × Except Err γ} {snk : Sink}
    (hx : APre snk.out x.1.out) (hk : ∀ n t s, APre s.out (k n t s).1.out) :
    APre snk.out (seqS x k).1.out := by
  obtain ⟨s, t, e | n⟩ := x
  · exact hx
  · exact hx.trans (hk n t s)

theorem writeS_mono (st : Stream) (data : Bytes) (snk : Sink) :
    APre snk.out (st.writeS data snk).1.out := by
  have h := (OM.streamWrite st data).mono snk
  unfold writeS
  rcases hw : st.write data snk with ⟨s1, e | ⟨st', n⟩⟩ <;> rw [hw] at h <;> exact h

theorem feed_succ (fuel : Nat) (st : Stream) (data : Bytes) (acc : Nat) (snk : Sink) :
    feed (fuel + 1) st data acc snk =
      if data.isEmpty then (snk, st, .ok acc)
      else seqS (st.writeS data snk) fun n st' snk' =>
        if n = 0 then (snk', st', .ok acc) else feed fuel st' (data.drop n) (acc + n) snk' := by
  rw [feed]
  split
  · rfl
  · rcases st.writeS data snk with ⟨s, t, e | n⟩ <;> rfl

theorem feed_mono : ∀ (fuel : Nat) (st : Stream) (data : Bytes) (acc : Nat) (snk : Sink),
    APre snk.out (feed fuel st data acc snk).1.out := by
  intro fuel
  induction fuel with
  | zero => intro st data acc snk; exact APre.refl _
  | succ fuel ih =>
    intro st data acc snk
    rw [feed_succ]
    split
    · exact APre.refl _
    · refine seqS_mono (writeS_mono st data snk) ?_
      intro n t s
      split
      · exact APre.refl _
      · exact ih _ _ _ _

/-- the re-submitting feeding loop under limit `m` -/
theorem feed_srel (m : Nat) : ∀ (fuel : Nat) (data : Bytes) (acc : Nat) {st : Stream} {base snk : Sink}
    {H : Bytes}, st.Inv base snk H →
    SRel m base st H (feed fuel st data acc snk) (feed fuel (st.withLimit m) data acc snk) := by
  intro fuel
  induction fuel with
  | zero => intro data acc st base snk H h; exact SRel.ret acc h
  | succ fuel ih =>
    intro data acc st base snk H h
    rw [feed_succ, feed_succ]
    by_cases hd : data.isEmpty
    · simp only [hd, if_true]; exact SRel.ret acc h
    · simp only [hd]
      refine SRel.seq (writeS_srel m data h) ?_ ?_
      · intro n H1 hp hn hinv
        by_cases h0 : n = 0
        · simp only [h0, if_true]; exact SRel.ret acc hinv
        · simp only [h0, if_false]; exact ih _ _ hinv
      · intro n t s
        split
        · exact APre.refl _
        · exact feed_mono _ _ _ _ _

/-- feed the chunks one after the other, each with the re-submitting loop `feed`; stop at the
first `Err`; report the number of bytes accepted per chunk -/
def feedChunks (fuel : Nat) : List Bytes → Stream → Sink → Sink × Stream × Except Err (List Nat)
  | [], st, snk => (snk, st, .ok [])
  | c :: cs, st, snk =>
    seqS (st.feed fuel c 0 snk) fun n st' snk' =>
      seqS (feedChunks fuel cs st' snk') fun ns st'' snk'' => (snk'', st'', .ok (n :: ns))

theorem feedChunks_mono (fuel : Nat) : ∀ (cs : List Bytes) (st : Stream) (snk : Sink),
    APre snk.out (feedChunks fuel cs st snk).1.out := by
  intro cs
  induction cs with
  | nil => intro st snk; exact APre.refl _
  | cons c cs ih =>
    intro st snk
    unfold feedChunks
    refine seqS_mono (feed_mono fuel st c 0 snk) ?_
    intro n t s
    exact seqS_mono (ih t s) (fun _ _ _ => APre.refl _)

theorem feedChunks_srel (m fuel : Nat) : ∀ (cs : List Bytes) {st : Stream} {base snk : Sink} {H : Bytes},
    st.Inv base snk H →
    SRel m base st H (feedChunks fuel cs st snk) (feedChunks fuel cs (st.withLimit m) snk) := by
  intro cs
  induction cs with
  | nil => intro st base snk H h; exact SRel.ret [] h
  | cons c cs ih =>
    intro st base snk H h
    unfold feedChunks
    refine SRel.seq (feed_srel m fuel c 0 h) ?_ ?_
    · intro n H1 hp hn hinv
      refine SRel.seq (ih hinv) ?_ ?_
      · intro ns H2 hp2 hns hinv2
        exact SRel.ret (n :: ns) hinv2
      · intro ns t s; exact APre.refl _
    · intro n t s
      exact seqS_mono (feedChunks_mono fuel cs t s) (fun _ _ _ => APre.refl _)

/-- a computation that ends with `finish` on the window it produced -/
theorem finish_tail {α : Type} {mR mL : M α} {fR fL : α → M Unit} {win : α → Circ} {lim : α → α}
    {m d M : Nat} {H : Bytes} {base snk : Sink}
    (hrel : LimRel m d M H snk win lim (mR snk) (mL snk))
    (hfR : ∀ a s, fR a s = (win a).finish s) (hfL : ∀ a s, fL (lim a) s = (win a).finish s)
    (hfit : min H.length d ≤ m) (hbase : base.Perfect) (hsnk : snk = base.after d [] H) :
    (∀ snkF, (mR >>= fR) snk = (snkF, .ok ()) →
      ∃ H1, H <+: H1 ∧ snkF.out = base.out ++ H1.toArray ∧ snkF.Perfect ∧
        (min H1.length d ≤ m → (mL >>= fL) snk = (snkF, .ok ())) ∧
        (¬ min H1.length d ≤ m → ((mL >>= fL) snk).2 = .error .lzma ∧
          APre ((mL >>= fL) snk).1.out snkF.out)) ∧
    (∀ snkF e, (mR >>= fR) snk = (snkF, .error e) →
      (mL >>= fL) snk = (snkF, .error e) ∨
        (((mL >>= fL) snk).2 = .error .lzma ∧ APre ((mL >>= fL) snk).1.out snkF.out)) := by
  rcases hR : mR snk with ⟨s1, e | a⟩
  · rw [hR] at hrel
    rw [bind_run_error hR]
    constructor
    · intro snkF h; cases h
    · intro snkF e' h
      cases h
      rcases hrel.err hfit e rfl with hL | ⟨-, hl2, hpre⟩
      · exact Or.inl (bind_run_error hL)
      · have hL : mL snk = (_, .error .lzma) := Prod.ext rfl hl2
        rw [bind_run_error hL]
        exact Or.inr ⟨rfl, hpre⟩
  · rw [hR] at hrel
    rw [bind_run_ok hR, hfR]
    obtain ⟨H1, hp, hi, hd1, hM1, hs1⟩ := hrel.ref a rfl
    dsimp only at hs1
    have hs1' : s1 = base.after d [] H1 := by
      rw [hs1, hsnk, Sink.after_trans' _ _ List.nil_prefix hp]
    have hs1p : s1.Perfect := by rw [hs1']; exact Sink.after_perfect hbase
    obtain ⟨s', hfin, hs'p, hs'o, -⟩ := Circ.finish_spec (s0 := base) hi hs1p
      (by rw [hs1', hd1]; simp [Sink.after, flushedLen])
    have hsz : (win a).buf.size = min H1.length d := by rw [hi.size_eq, hd1]
    rw [hfin]
    constructor
    · intro snkF h
      cases h
      refine ⟨H1, hp, hs'o, hs'p, ?_, ?_⟩
      · intro hle
        have hL := hrel.same hfit a rfl (by rw [hsz]; exact hle)
        rw [bind_run_ok hL, hfL, hfin]
      · intro hnle
        obtain ⟨-, hl2, hpre⟩ := hrel.hit hfit a rfl (by rw [hsz]; exact hnle)
        have hL : mL snk = (_, .error .lzma) := Prod.ext rfl hl2
        rw [bind_run_error hL]
        refine ⟨rfl, hpre.trans ?_⟩
        have := (OM.circ_finish (win a)).mono s1
        rw [hfin] at this
        exact this
    · intro snkF e h; cases h

/-- `Stream::finish` under limit `m` -/
theorem finish_lim (m : Nat) {st : Stream} {base snk : Sink} {H : Bytes} (h : st.Inv base snk H)
    (hfit : st.need ≤ m) :
    (∀ snkF, st.finish snk = (snkF, .ok ()) →
      ∃ H1, H <+: H1 ∧ snkF.out = base.out ++ H1.toArray ∧ snkF.Perfect ∧
        (min H1.length st.dict ≤ m → (st.withLimit m).finish snk = (snkF, .ok ())) ∧
        (¬ min H1.length st.dict ≤ m → ((st.withLimit m).finish snk).2 = .error .lzma ∧
          APre ((st.withLimit m).finish snk).1.out snkF.out)) ∧
    (∀ snkF e, st.finish snk = (snkF, .error e) →
      (st.withLimit m).finish snk = (snkF, .error e) ∨
        (((st.withLimit m).finish snk).2 = .error .lzma ∧
          APre ((st.withLimit m).finish snk).1.out snkF.out)) := by
  rcases hst : st.state with _ | _ | rs
  · have hL : (st.withLimit m).state = none := by simp [Stream.withLimit, hst]
    rw [finish_none st snk hst, finish_none _ snk hL]
    exact ⟨fun _ hh => (by cases hh), fun _ _ hh => Or.inl hh⟩
  · have hL : (st.withLimit m).state = some .header := by simp [Stream.withLimit, hst]; rfl
    have hnd : ∀ rs, st.state ≠ some (.data rs) := by rw [hst]; intro rs hh; cases hh
    obtain ⟨hH, hsnk⟩ := h.other hnd
    subst hH hsnk
    have e : (st.withLimit m).finish snk = st.finish snk := by
      unfold finish; rw [hst, hL]; rfl
    rw [e]
    constructor
    · intro snkF hf
      have hsf : snkF = snk := by
        unfold finish at hf
        rw [hst] at hf
        dsimp only at hf
        split at hf
        · cases hf
        · cases hf; rfl
      subst hsf
      exact ⟨[], List.prefix_refl _, by simp, h.perfect, fun _ => hf, fun hn => absurd (by simp) hn⟩
    · intro snkF e' hf; exact Or.inl hf
  · obtain ⟨hi, hroomy, hsnk⟩ := h.data rs hst
    have hL : (st.withLimit m).state = some (.data (rs.withLimit m)) := by
      simp only [Stream.withLimit, hst]; rfl
    have hoL : (st.withLimit m).options.allowIncomplete = st.options.allowIncomplete := rfl
    have htL : (st.withLimit m).tmp = st.tmp := rfl
    have hneed : st.need = min H.length rs.output.dictSize := by
      rw [h.need_eq]; unfold dict; rw [hst]
    have hdict : st.dict = rs.output.dictSize := by unfold dict; rw [hst]
    rw [hdict]
    unfold finish
    rw [hst, hL, hoL, htL]
    dsimp only
    by_cases hai : (!st.options.allowIncomplete) = true
    · simp only [hai, if_true]
      exact finish_tail (win := fun a : DState × Circ × RC × Rd => a.2.1)
        (lim := fun a => (a.1, a.2.1.withLimit m, a.2.2))
        (DState.processMode_lim .finish m rs.decoder { range := rs.range, code := rs.code }
          (Rd.ofBytes st.tmp) hi h.snk_perfect rfl rfl hroomy)
        (fun a s => bind_run_ok (pure_run _ _))
        (fun a s => (bind_run_ok (a := a.2.1.withLimit m) (pure_run _ _)).trans rfl)
        (by omega) h.perfect hsnk
    · simp only [hai]
      exact finish_tail (mR := pure rs.output) (mL := pure (rs.output.withLimit m))
        (win := fun a : Circ => a) (lim := fun a => a.withLimit m)
        (LimRel.ret (win := fun a : Circ => a) rs.output hi rfl rfl)
        (fun a s => rfl) (fun a s => rfl) (by omega) h.perfect hsnk

/-- what a successful `finish` of the reference stream delivers: everything decoded -/
theorem finish_ref {st : Stream} {base snk snkF : Sink} {H : Bytes} (h : st.Inv base snk H)
    (hf : st.finish snk = (snkF, .ok ())) :
    ∃ H1, H <+: H1 ∧ snkF.out = base.out ++ H1.toArray ∧ snkF.Perfect := by
  obtain ⟨H1, hp, ho, hpf, -⟩ := (finish_lim st.need h (Nat.le_refl _)).1 snkF hf
  exact ⟨H1, hp, ho, hpf⟩

/-- a complete streaming session: create the stream, feed the chunks (re-submitting what a
`write` did not accept), `finish`; the result is the sink and the per-chunk accepted counts,
or the first error -/
def runStream (fuel : Nat) (opts : Options) (chunks : List Bytes) (snk : Sink) :
    Sink × Except Err (List Nat) :=
  match feedChunks fuel chunks (newWithOptions opts) snk with
  | (snk', st', .ok ns) =>
    match st'.finish snk' with
    | (s, .ok ()) => (s, .ok ns)
    | (s, .error e) => (s, .error e)
  | (snk', _, .error e) => (snk', .error e)

theorem runStream_of_feed_err {fuel : Nat} {opts : Options} {chunks : List Bytes} {snk s : Sink}
    {t : Stream} {e : Err} (h : feedChunks fuel chunks (newWithOptions opts) snk = (s, t, .error e)) :
    runStream fuel opts chunks snk = (s, .error e) := by
  unfold runStream; rw [h]

theorem runStream_of_feed_ok {fuel : Nat} {opts : Options} {chunks : List Bytes} {snk s : Sink}
    {t : Stream} {ns : List Nat} (h : feedChunks fuel chunks (newWithOptions opts) snk = (s, t, .ok ns)) :
    runStream fuel opts chunks snk =
      ((t.finish s).1, (t.finish s).2.map fun _ => ns) := by
  unfold runStream; rw [h]
  dsimp only
  rcases t.finish s with ⟨s2, e | u⟩ <;> rfl

/-- a whole streaming session with `memlimit = Some(m)` against `memlimit = None` (perfect sink) -/
theorem runStream_lim (m fuel : Nat) (opts : Options) (chunks : List Bytes) {snk : Sink}
    (hs : snk.Perfect) :
    (∀ snkU ns, runStream fuel { opts with memlimit := none } chunks snk = (snkU, .ok ns) →
      ∃ snkF stF, feedChunks fuel chunks (newWithOptions { opts with memlimit := none }) snk =
          (snkF, stF, .ok ns) ∧
        (min stF.dict (snkU.out.size - snk.out.size) ≤ m →
          runStream fuel { opts with memlimit := some m } chunks snk = (snkU, .ok ns)) ∧
        (¬ min stF.dict (snkU.out.size - snk.out.size) ≤ m →
          (runStream fuel { opts with memlimit := some m } chunks snk).2 = .error .lzma ∧
          APre (runStream fuel { opts with memlimit := some m } chunks snk).1.out snkU.out)) ∧
    (∀ snkU e, runStream fuel { opts with memlimit := none } chunks snk = (snkU, .error e) →
      runStream fuel { opts with memlimit := some m } chunks snk = (snkU, .error e) ∨
        ((runStream fuel { opts with memlimit := some m } chunks snk).2 = .error .lzma ∧
          APre (runStream fuel { opts with memlimit := some m } chunks snk).1.out snkU.out)) := by
  have hinv0 : (newWithOptions { opts with memlimit := none }).Inv snk snk [] := Inv.new _ rfl hs
  have hrel := feedChunks_srel m fuel chunks hinv0
  have hnew : (newWithOptions { opts with memlimit := none }).withLimit m =
      newWithOptions { opts with memlimit := some m } := rfl
  rw [hnew] at hrel
  have hfit0 : (newWithOptions { opts with memlimit := none }).need ≤ m := Nat.zero_le _
  rcases hF : feedChunks fuel chunks (newWithOptions { opts with memlimit := none }) snk with
    ⟨snkF, stF, e | ns⟩
  · rw [hF] at hrel
    rw [runStream_of_feed_err hF]
    constructor
    · intro snkU ns h; cases h
    · intro snkU e' h
      cases h
      rcases hrel.err hfit0 e rfl with hL | ⟨hl2, hpre⟩
      · rw [runStream_of_feed_err hL]; exact Or.inl rfl
      · rcases hL : feedChunks fuel chunks (newWithOptions { opts with memlimit := some m }) snk with
          ⟨l1, l2, l3⟩
        rw [hL] at hl2 hpre
        dsimp only at hl2 hpre
        subst hl2
        rw [runStream_of_feed_err hL]
        exact Or.inr ⟨rfl, hpre⟩
  · rw [hF] at hrel
    rw [runStream_of_feed_ok hF]
    obtain ⟨-, H1, -, hinvF⟩ := hrel.ref ns rfl
    dsimp only at hinvF
    have hfmono := (OM.streamFinish stF).mono snkF
    by_cases hb : stF.need ≤ m
    · have hL := hrel.same hfit0 ns rfl hb
      dsimp only at hL
      rw [runStream_of_feed_ok hL]
      obtain ⟨hok, herr⟩ := finish_lim m hinvF hb
      rcases hfin : stF.finish snkF with ⟨s2, e | u⟩
      · constructor
        · intro snkU ns' h; cases h
        · intro snkU e' h
          cases h
          rcases herr _ _ hfin with hLf | ⟨hl2, hpre⟩
          · rw [hLf]; exact Or.inl rfl
          · exact Or.inr ⟨by dsimp only; rw [hl2]; rfl, hpre⟩
      · dsimp only [Except.map]
        constructor
        · intro snkU ns' h
          cases h
          obtain ⟨H2, -, ho, -, hsame, hhit⟩ := hok _ hfin
          have hlen : H2.length = s2.out.size - snk.out.size := by rw [ho]; simp
          refine ⟨snkF, stF, rfl, ?_, ?_⟩
          · intro hle
            rw [hsame (by rw [hlen]; omega)]
          · intro hnle
            obtain ⟨hl2, hpre⟩ := hhit (by rw [hlen]; omega)
            exact ⟨by rw [hl2], hpre⟩
        · intro snkU e' h; cases h
    · obtain ⟨hl2, hpre⟩ := hrel.hit hfit0 ns rfl hb
      rcases hL : feedChunks fuel chunks (newWithOptions { opts with memlimit := some m }) snk with
        ⟨l1, l2, l3⟩
      rw [hL] at hl2 hpre
      dsimp only at hl2 hpre
      subst hl2
      rw [runStream_of_feed_err hL]
      rcases hfin : stF.finish snkF with ⟨s2, e | u⟩
      · rw [hfin] at hfmono
        constructor
        · intro snkU ns' h; cases h
        · intro snkU e' h
          cases h
          exact Or.inr ⟨rfl, hpre.trans hfmono⟩
      · rw [hfin] at hfmono
        dsimp only [Except.map]
        constructor
        · intro snkU ns' h
          cases h
          obtain ⟨H2, hp2, ho, -⟩ := finish_ref hinvF hfin
          have hlen : H2.length = s2.out.size - snk.out.size := by rw [ho]; simp
          have hneed := hinvF.need_eq
          have := hp2.length_le
          refine ⟨snkF, stF, rfl, ?_, ?_⟩
          · intro hle; omega
          · intro _; exact ⟨rfl, hpre.trans hfmono⟩
        · intro snkU e' h; cases h

/-! ### the stream never holds more than its limit (any sink, any calls) -/

/-- a stream created with `memlimit = Some(m)` whose window (if any) is within the limit -/
def BufOKS (m : Nat) (st : Stream) : Prop :=
  st.options.memlimit = some m ∧
    ∀ rs, st.state = some (.data rs) → rs.output.buf.size ≤ m ∧ rs.output.memlimit = m

theorem BufOKS.new (opts : Options) (m : Nat) :
    BufOKS m (newWithOptions { opts with memlimit := some m }) :=
  ⟨rfl, by intro rs h; cases h⟩

theorem readData_bufOK {m d : Nat} {rs rs' : RunState} {rd rd' : Rd} {snk snk' : Sink}
    (h : readData rs rd snk = (snk', .ok (rs', rd'))) (hi : DState.BufOK m d rs.output) :
    DState.BufOK m d rs'.output := by
  unfold readData at h
  simp only [PM.bind_ok, PM.pure_ok_iff] at h
  obtain ⟨s1, ⟨dec, out, rc, rd1⟩, hpm, -, h⟩ := h
  cases h
  exact DState.processMode_bufOK hpm hi

theorem write_bufOK {m : Nat} {st st' : Stream} {data : Bytes} {snk snk' : Sink} {n : Nat}
    (hb : BufOKS m st) (h : st.write data snk = (snk', .ok (st', n))) : BufOKS m st' := by
  obtain ⟨hopt, hdata⟩ := hb
  rcases hst : st.state with _ | _ | rs
  · rw [write_none st data snk hst] at h
    cases h; exact ⟨hopt, hdata⟩
  · rw [write_header_eq st data snk hst] at h
    simp only [Prod.mk.injEq] at h
    obtain ⟨ho, hstate⟩ := hdrWrite_ok h.2
    refine ⟨by rw [ho]; exact hopt, ?_⟩
    intro rs hrs
    rcases hstate with hh | ⟨rs', d, hrs', hout, -, -⟩
    · rw [hh] at hrs; cases hrs
    · rw [hrs'] at hrs; cases hrs
      rw [hout, hopt]
      exact ⟨by simp [Circ.fromStream], rfl⟩
  · obtain ⟨hsz, hml⟩ := hdata rs hst
    have hi : DState.BufOK m rs.output.dictSize rs.output := ⟨hsz, hml, rfl⟩
    have key : ∃ rs', st' = { st with tmp := [], state := some (.data rs') } ∧
        DState.BufOK m rs.output.dictSize rs'.output := by
      unfold write at h
      rw [hst] at h
      dsimp only at h
      split at h
      · rcases hm : readData rs (Rd.ofBytes st.tmp) snk with ⟨s1, (e | ⟨rs2, rd2⟩)⟩
        · rw [bind_run_error hm] at h; simp at h
        · rw [bind_run_ok hm] at h
          dsimp only at h
          rw [bind_run_ok (m := pure _) rfl] at h
          rcases hm2 : readData rs2 (Rd.ofBytes data) s1 with ⟨s2, (e | ⟨rs3, rd3⟩)⟩
          · rw [bind_run_error hm2] at h; simp at h
          · rw [bind_run_ok hm2] at h
            simp only [pure_run, Prod.mk.injEq, Except.ok.injEq] at h
            exact ⟨rs3, by rw [← h.2.1], readData_bufOK hm2 (readData_bufOK hm hi)⟩
      · rw [bind_run_ok (m := pure _) rfl] at h
        rcases hm2 : readData rs (Rd.ofBytes data) snk with ⟨s2, (e | ⟨rs3, rd3⟩)⟩
        · rw [bind_run_error hm2] at h; simp at h
        · rw [bind_run_ok hm2] at h
          simp only [pure_run, Prod.mk.injEq, Except.ok.injEq] at h
          exact ⟨rs3, by rw [← h.2.1], readData_bufOK hm2 hi⟩
    obtain ⟨rs', hshape, hi'⟩ := key
    refine ⟨by rw [hshape]; exact hopt, ?_⟩
    intro rs'' hrs''
    rw [hshape] at hrs''
    cases hrs''
    exact ⟨hi'.1, hi'.2.1⟩

theorem writeS_bufOK {m : Nat} {st : Stream} (hb : BufOKS m st) (data : Bytes) (snk : Sink) :
    BufOKS m (st.writeS data snk).2.1 := by
  rcases hw : st.write data snk with ⟨s1, e | ⟨st', n⟩⟩
  · rw [writeS_of_err hw]
    exact ⟨hb.1, by intro rs h; cases h⟩
  · rw [writeS_of_ok hw]
    exact write_bufOK hb hw

/-- after ANY sequence of `write` / `flush` calls, on any sink -/
theorem runCalls_bufOK {m : Nat} : ∀ (cs : List Call) {st : Stream} (snk : Sink), BufOKS m st →
    BufOKS m (runCalls cs st snk).2.1 := by
  intro cs
  induction cs with
  | nil => intro st snk hb; exact hb
  | cons c cs ih =>
    intro st snk hb
    simp only [runCalls]
    have h1 : BufOKS m (stepCall c st snk).2.1 := by
      cases c with
      | write data => exact writeS_bufOK hb data snk
      | flush => simp only [stepCall]; rw [flushS_state]; exact hb
    rcases hs : stepCall c st snk with ⟨snk1, st1, r⟩
    rw [hs] at h1
    have h2 := ih snk1 h1
    rcases hr : runCalls cs st1 snk1 with ⟨snk2, st2, rs⟩
    rw [hr] at h2
    exact h2

end Stream

end Lzma
