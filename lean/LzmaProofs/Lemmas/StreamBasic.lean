/-
  Basic facts about `Stream` (C16): the call language, the latching of the
  `none` state, the "size reached" fixpoint of `processMode .stream`.
-/
import LzmaProofs.Lemmas.Monad
namespace Lzma

theorem StreamBasic.liftE_pure_run {α : Type} (a : α) (s : Sink) :
    (liftE (pure a : Except Err α) : M α) s = (s, .ok a) := rfl

/-! ## `processLoop` stops at once when the unpacked size is reached -/

theorem DState.processLoop_size_reached {ω : Type} [LzBuf ω] (mode : DState.Mode) (fuel : Nat)
    (s : DState) (w : ω) (rc : RC) (rd : Rd) (snk : Sink) (n : Nat)
    (hn : s.unpackedSize = some n) (hlen : LzBuf.len w ≥ n) :
    DState.processLoop mode (fuel + 1) s w rc rd snk = (snk, .ok (s, w, rc, rd)) := by
  unfold DState.processLoop
  simp [hn, hlen, bind_run, StreamBasic.liftE_pure_run]

theorem DState.loopFuel_succ (s : DState) (rd : Rd) :
    ∃ k, DState.loopFuel s rd = k + 1 := ⟨_, rfl⟩

theorem DState.processMode_stream_size_reached {ω : Type} [LzBuf ω]
    (s : DState) (w : ω) (rc : RC) (rd : Rd) (snk : Sink) (n : Nat)
    (hn : s.unpackedSize = some n) (hlen : LzBuf.len w ≥ n) :
    DState.processMode .stream s w rc rd snk = (snk, .ok (s, w, rc, rd)) := by
  unfold DState.processMode
  obtain ⟨k, hk⟩ := DState.loopFuel_succ s rd
  rw [hk, bind_run, DState.processLoop_size_reached _ _ _ _ _ _ _ n hn hlen]
  simp [hn]

namespace Stream

theorem readData_size_reached (rs : RunState) (rd : Rd) (snk : Sink) (n : Nat)
    (hn : rs.decoder.unpackedSize = some n) (hlen : rs.output.len ≥ n) :
    readData rs rd snk = (snk, .ok (rs, rd)) := by
  unfold readData
  have hlen' : LzBuf.len rs.output ≥ n := hlen
  exact (bind_run_ok (DState.processMode_stream_size_reached (ω := Circ) rs.decoder rs.output
    _ _ _ n hn hlen')).trans rfl

theorem write_size_reached (st : Stream) (rs : RunState) (data : Bytes) (snk : Sink) (n : Nat)
    (hst : st.state = some (.data rs))
    (hn : rs.decoder.unpackedSize = some n) (hlen : rs.output.len ≥ n) :
    st.write data snk = (snk, .ok ({ st with tmp := [], state := some (.data rs) }, 0)) := by
  unfold write
  simp only [hst]
  split
  · refine (bind_run_ok (readData_size_reached rs _ snk n hn hlen)).trans ?_
    refine (bind_run_ok (m := pure _) rfl).trans ?_
    refine (bind_run_ok (readData_size_reached rs _ snk n hn hlen)).trans ?_
    simp [Rd.ofBytes]
  · refine (bind_run_ok (m := pure _) rfl).trans ?_
    refine (bind_run_ok (readData_size_reached rs _ snk n hn hlen)).trans ?_
    simp [Rd.ofBytes]

/-! ## the `none` state latches -/

theorem write_none (st : Stream) (data : Bytes) (snk : Sink) (h : st.state = none) :
    st.write data snk = (snk, .ok (st, 0)) := by
  unfold write; rw [h]; rfl

theorem writeS_none (st : Stream) (data : Bytes) (snk : Sink) (h : st.state = none) :
    st.writeS data snk = (snk, st, .ok 0) := by
  unfold writeS; rw [write_none st data snk h]

theorem flush_none (st : Stream) (snk : Sink) (h : st.state = none) :
    st.flush snk = (snk, .ok ()) := by
  unfold flush; rw [h]; rfl

theorem finish_none (st : Stream) (snk : Sink) (h : st.state = none) :
    st.finish snk = (snk, .error .lzma) := by
  unfold finish; rw [h]; rfl

theorem writeS_error_state {st st' : Stream} {data : Bytes} {snk snk' : Sink} {e : Err}
    (h : st.writeS data snk = (snk', st', .error e)) : st'.state = none ∧ st' = st.failed := by
  unfold writeS at h
  split at h
  · simp at h
  · simp only [Prod.mk.injEq] at h
    obtain ⟨-, h2, -⟩ := h
    subst h2
    exact ⟨rfl, rfl⟩

/-! ## the `header` state never touches the sink -/

theorem write_header_sink (st : Stream) (data : Bytes) (snk : Sink) (h : st.state = some .header) :
    (st.write data snk).1 = snk := by
  unfold write; rw [h]; dsimp only
  by_cases hh : st.tmp.length > 0
  · simp only [hh, ↓reduceIte]; split <;> rfl
  · simp only [hh, ↓reduceIte]; split <;> rfl

theorem writeS_header_sink (st : Stream) (data : Bytes) (snk : Sink) (h : st.state = some .header) :
    (st.writeS data snk).1 = snk := by
  have := write_header_sink st data snk h
  unfold writeS
  split <;> simp_all

theorem flush_header (st : Stream) (snk : Sink) (h : st.state = some .header) :
    st.flush snk = (snk, .ok ()) := by
  unfold flush; rw [h]; rfl

/-- a successful `write` in the `data` state stays in the `data` state -/
theorem write_data_state {st st' : Stream} {rs : RunState} {data : Bytes} {snk snk' : Sink} {n : Nat}
    (hst : st.state = some (.data rs)) (h : st.write data snk = (snk', .ok (st', n))) :
    ∃ rs', st'.state = some (.data rs') := by
  unfold write at h
  rw [hst] at h
  dsimp only at h
  split at h
  · rcases hm : readData rs (Rd.ofBytes st.tmp) snk with ⟨s1, (e | ⟨rs2, rd2⟩)⟩
    · rw [bind_run_error hm] at h; simp at h
    · rw [bind_run_ok hm] at h
      dsimp only at h
      rw [bind_run_ok (m := pure _) rfl] at h
      rcases hm2 : readData rs2 (Rd.ofBytes data) s1 with ⟨s2, (e | ⟨rs3, rd3⟩)⟩
      · rw [bind_run_error hm2] at h; simp at h
      · rw [bind_run_ok hm2] at h
        simp only [pure_run, Prod.mk.injEq, Except.ok.injEq] at h
        exact ⟨rs3, by rw [← h.2.1]⟩
  · rw [bind_run_ok (m := pure _) rfl] at h
    rcases hm2 : readData rs (Rd.ofBytes data) snk with ⟨s2, (e | ⟨rs3, rd3⟩)⟩
    · rw [bind_run_error hm2] at h; simp at h
    · rw [bind_run_ok hm2] at h
      simp only [pure_run, Prod.mk.injEq, Except.ok.injEq] at h
      exact ⟨rs3, by rw [← h.2.1]⟩

/-! ## the call language -/

/-- one call on the `Write` interface of a `Stream` -/
inductive Call where
  | write (data : Bytes)
  | flush
  deriving Repr, Inhabited

/-- `<Stream as Write>::flush` as a transition (the stream object is not changed);
reports `ok 0` or the error -/
def flushS (st : Stream) (snk : Sink) : Sink × Stream × Except Err Nat :=
  match st.flush snk with
  | (snk', .ok _) => (snk', st, .ok 0)
  | (snk', .error e) => (snk', st, .error e)

def stepCall (c : Call) (st : Stream) (snk : Sink) : Sink × Stream × Except Err Nat :=
  match c with
  | .write data => st.writeS data snk
  | .flush => st.flushS snk

/-- run a sequence of calls; the results of the calls in order -/
def runCalls : List Call → Stream → Sink → Sink × Stream × List (Except Err Nat)
  | [], st, snk => (snk, st, [])
  | c :: cs, st, snk =>
    match stepCall c st snk with
    | (snk1, st1, r) =>
      match runCalls cs st1 snk1 with
      | (snk2, st2, rs) => (snk2, st2, r :: rs)

theorem runCalls_append (cs ds : List Call) (st : Stream) (snk : Sink) :
    runCalls (cs ++ ds) st snk =
      match runCalls cs st snk with
      | (snk1, st1, rs) =>
        match runCalls ds st1 snk1 with
        | (snk2, st2, rs') => (snk2, st2, rs ++ rs') := by
  induction cs generalizing st snk with
  | nil => simp [runCalls]
  | cons c cs ih => simp [runCalls, ih]

theorem stepCall_none (c : Call) (st : Stream) (snk : Sink) (h : st.state = none) :
    stepCall c st snk = (snk, st, .ok 0) := by
  cases c with
  | write data => exact writeS_none st data snk h
  | flush => simp [stepCall, flushS, flush_none st snk h]

theorem runCalls_none (cs : List Call) (st : Stream) (snk : Sink) (h : st.state = none) :
    runCalls cs st snk = (snk, st, cs.map fun _ => .ok 0) := by
  induction cs with
  | nil => rfl
  | cons c cs ih => simp [runCalls, stepCall_none c st snk h, ih]

theorem flushS_state (st : Stream) (snk : Sink) : (st.flushS snk).2.1 = st := by
  unfold flushS; split <;> rfl

/-- `header` can only be reached from `header`, and such a step leaves the sink alone -/
theorem stepCall_to_header {c : Call} {st st' : Stream} {snk snk' : Sink} {r : Except Err Nat}
    (h : stepCall c st snk = (snk', st', r)) (hst' : st'.state = some .header) :
    st.state = some .header ∧ snk' = snk := by
  have hst : st.state = some .header := by
    cases c with
    | flush =>
      have := flushS_state st snk
      simp only [stepCall] at h
      rw [h] at this; simp only at this; rw [← this]; exact hst'
    | write data =>
      simp only [stepCall] at h
      unfold writeS at h
      split at h
      · rename_i snk1 st1 n hw
        simp only [Prod.mk.injEq] at h
        obtain ⟨-, rfl, -⟩ := h
        match hs : st.state with
        | none =>
          rw [write_none st data snk hs] at hw
          simp only [Prod.mk.injEq, Except.ok.injEq] at hw
          rw [← hw.2.1, hs] at hst'; cases hst'
        | some .header => rfl
        | some (.data rs) =>
          obtain ⟨rs', hrs'⟩ := write_data_state hs hw
          rw [hrs'] at hst'; cases hst'
      · simp only [Prod.mk.injEq] at h
        obtain ⟨-, rfl, -⟩ := h
        cases hst'
  refine ⟨hst, ?_⟩
  cases c with
  | flush =>
    simp only [stepCall, flushS, flush_header st snk hst, Prod.mk.injEq] at h
    exact h.1.symm
  | write data =>
    have := writeS_header_sink st data snk hst
    simp only [stepCall] at h
    rw [h] at this; exact this

theorem runCalls_to_header {cs : List Call} {st st' : Stream} {snk snk' : Sink}
    {rs : List (Except Err Nat)}
    (h : runCalls cs st snk = (snk', st', rs)) (hst' : st'.state = some .header) :
    st.state = some .header ∧ snk' = snk := by
  induction cs generalizing st snk rs with
  | nil =>
    simp only [runCalls, Prod.mk.injEq] at h
    obtain ⟨rfl, rfl, -⟩ := h
    exact ⟨hst', rfl⟩
  | cons c cs ih =>
    simp only [runCalls] at h
    rcases h1 : stepCall c st snk with ⟨snk1, st1, r⟩
    rcases h2 : runCalls cs st1 snk1 with ⟨snk2, st2, rs2⟩
    rw [h1] at h; dsimp only at h; rw [h2] at h
    simp only [Prod.mk.injEq] at h
    obtain ⟨rfl, rfl, -⟩ := h
    obtain ⟨hs1, rfl⟩ := ih h2
    exact stepCall_to_header h1 hs1

end Stream

end Lzma
