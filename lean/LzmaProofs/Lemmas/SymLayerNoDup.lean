/-
  Symbol layer, part 3: no probability index occurs twice on a root-to-leaf
  path of `symTree`; consequently the dry run (`update = false`) reads exactly
  the same bits as the real run.
-/
import LzmaProofs.Lemmas.SymLayer
namespace Lzma

/-! ## the predicates -/

namespace Coder

/-- no index of `seen` and no index twice on any root-to-leaf path -/
def NoDupAux : Coder ι α → (ι → Prop) → Prop
  | .ret _, _ => True
  | .fail _, _ => True
  | .bit i k, seen => ¬ seen i ∧ ∀ b, NoDupAux (k b) (fun j => j = i ∨ seen j)
  | .direct k, seen => ∀ b, NoDupAux (k b) seen

/-- on every root-to-leaf path of the tree no probability index occurs twice -/
def NoDup (t : Coder ι α) : Prop := NoDupAux t (fun _ => False)

/-- every probability index of the tree satisfies `P` -/
def IdxIn (P : ι → Prop) : Coder ι α → Prop
  | .ret _ => True
  | .fail _ => True
  | .bit i k => P i ∧ ∀ b, IdxIn P (k b)
  | .direct k => ∀ b, IdxIn P (k b)

theorem NoDupAux.mono {t : Coder ι α} {seen seen' : ι → Prop} (h : ∀ j, seen' j → seen j)
    (ht : NoDupAux t seen) : NoDupAux t seen' := by
  induction t generalizing seen seen' with
  | ret a => trivial
  | fail e => trivial
  | bit i k ih =>
    refine ⟨fun hi => ht.1 (h _ hi), fun b => ih b ?_ (ht.2 b)⟩
    intro j hj
    rcases hj with hj | hj
    · exact .inl hj
    · exact .inr (h _ hj)
  | direct k ih => exact fun b => ih b h (ht b)

theorem IdxIn.mono {t : Coder ι α} {P Q : ι → Prop} (h : ∀ j, P j → Q j) (ht : IdxIn P t) :
    IdxIn Q t := by
  induction t with
  | ret a => trivial
  | fail e => trivial
  | bit i k ih => exact ⟨h _ ht.1, fun b => ih b (ht.2 b)⟩
  | direct k ih => exact fun b => ih b (ht b)

/-- indices disjoint from the tree's own may be added to `seen` -/
theorem NoDupAux.add {t : Coder ι α} {P extra seen : ι → Prop} (hP : IdxIn P t)
    (hd : ∀ j, P j → ¬ extra j) (ht : NoDupAux t seen) :
    NoDupAux t (fun j => extra j ∨ seen j) := by
  induction t generalizing seen with
  | ret a => trivial
  | fail e => trivial
  | bit i k ih =>
    refine ⟨fun hi => ?_, fun b => ?_⟩
    · rcases hi with hi | hi
      · exact hd _ hP.1 hi
      · exact ht.1 hi
    · refine NoDupAux.mono ?_ (ih b (hP.2 b) (ht.2 b))
      intro j hj
      rcases hj with hj | hj | hj
      · exact .inr (.inl hj)
      · exact .inl hj
      · exact .inr (.inr hj)
  | direct k ih => exact fun b => ih b (hP b) (ht b)

theorem NoDup.of_disjoint {t : Coder ι α} {P seen : ι → Prop} (ht : NoDup t) (hP : IdxIn P t)
    (hd : ∀ j, P j → ¬ seen j) : NoDupAux t seen :=
  NoDupAux.mono (fun _ hj => .inl hj) (NoDupAux.add hP hd ht)

theorem NoDupAux.bind {t : Coder ι α} {f : α → Coder ι β} {P seen : ι → Prop}
    (ht : NoDupAux t seen) (hP : IdxIn P t) (hf : ∀ a, NoDupAux (f a) (fun j => P j ∨ seen j)) :
    NoDupAux (t.bind f) seen := by
  induction t generalizing seen with
  | ret a => exact NoDupAux.mono (fun _ hj => .inr hj) (hf a)
  | fail e => trivial
  | bit i k ih =>
    refine ⟨ht.1, fun b => ih b (ht.2 b) (hP.2 b) fun a => NoDupAux.mono ?_ (hf a)⟩
    intro j hj
    rcases hj with hj | hj | hj
    · exact .inl hj
    · exact .inl (hj ▸ hP.1)
    · exact .inr hj
  | direct k ih => exact fun b => ih b (ht b) (hP b) hf

theorem NoDupAux.map {t : Coder ι α} {g : α → β} {seen : ι → Prop} (ht : NoDupAux t seen) :
    NoDupAux (t.map g) seen := by
  induction t generalizing seen with
  | ret a => trivial
  | fail e => trivial
  | bit i k ih => exact ⟨ht.1, fun b => ih b (ht.2 b)⟩
  | direct k ih => exact fun b => ih b (ht b)

theorem IdxIn.bind {t : Coder ι α} {f : α → Coder ι β} {P : ι → Prop}
    (ht : IdxIn P t) (hf : ∀ a, IdxIn P (f a)) : IdxIn P (t.bind f) := by
  induction t with
  | ret a => exact hf a
  | fail e => trivial
  | bit i k ih => exact ⟨ht.1, fun b => ih b (ht.2 b)⟩
  | direct k ih => exact fun b => ih b (ht b)

theorem IdxIn.map {t : Coder ι α} {g : α → β} {P : ι → Prop} (ht : IdxIn P t) :
    IdxIn P (t.map g) :=
  IdxIn.bind ht fun _ => trivial

theorem IdxIn.ofExcept {P : ι → Prop} (x : Except Err α) : IdxIn P (Coder.ofExcept x : Coder ι α) := by
  cases x <;> trivial

theorem NoDupAux.ofExcept {seen : ι → Prop} (x : Except Err α) :
    NoDupAux (Coder.ofExcept x : Coder ι α) seen := by
  cases x <;> trivial

end Coder

open Coder

/-! ## the dry run reads the same bits -/

/-- what `runDec`'s correctness needs of a probability store: writing a
readable cell does not disturb any other cell.  (For `Probs` the premise
`get s i = .ok w` matters: `Probs.set` is not bounds-checked per table row, so
an out-of-range `.posSlot 0 64` would alias `.posSlot 1 0`; `runDec` only ever
writes a cell it has just read.) -/
class LawfulProbStore (σ : Type) (ι : outParam Type) [ProbStore σ ι] : Prop where
  get_set_ne : ∀ (s : σ) (i j : ι) (v w : Nat), ProbStore.get s i = .ok w → j ≠ i →
    ProbStore.get (ProbStore.set s i v) j = ProbStore.get s j

theorem exc_ok_bind {α β : Type} (a : α) (f : α → Except Err β) : (Except.ok a >>= f) = f a := rfl
theorem exc_error_bind {α β : Type} (e : Err) (f : α → Except Err β) :
    ((Except.error e : Except Err α) >>= f) = .error e := rfl
theorem exc_pure {α : Type} (a : α) : (pure a : Except Err α) = .ok a := rfl

/-- for a probability `p ≤ 0x800` the bit, the coder state, the reader and the
error (if any) of `decode_bit` do not depend on `update` -/
theorem decodeBit_update_irrelevant (p : Nat) (hp : p ≤ 0x800) (rc : RC) (rd : Rd) :
    (RC.decodeBit false p rc rd).map (fun r => (r.1, r.2.2)) =
    (RC.decodeBit true p rc rd).map (fun r => (r.1, r.2.2)) := by
  have hsub : subChk "decode_bit: 0x800 - prob" 0x800 p = .ok (0x800 - p) := by simp [subChk, hp]
  have hadd : addChk U16 "decode_bit: prob += overflow" p ((0x800 - p) >>> 5)
      = .ok (p + (0x800 - p) >>> 5) := by
    have : p + (0x800 - p) >>> 5 < U16 := by
      rw [Nat.shiftRight_eq_div_pow]; simp [U16]; omega
    simp [addChk, this]
  unfold RC.decodeBit
  cases hm : mulChk U32 "decode_bit: bound overflow" (rc.range >>> 11) p with
  | error e => rfl
  | ok bound =>
    simp only [exc_ok_bind, exc_pure]
    by_cases hlt : rc.code < bound
    · simp only [hlt, if_true, hsub, hadd, Bool.false_eq_true, if_false, exc_ok_bind]
      cases RC.normalize { range := bound, code := rc.code } rd <;> rfl
    · simp only [hlt, if_false]
      cases subChk "decode_bit: code -= bound" rc.code bound with
      | error e => rfl
      | ok code =>
        cases subChk "decode_bit: range -= bound" rc.range bound with
        | error e => rfl
        | ok range =>
          simp only [exc_ok_bind]
          cases RC.normalize { range := range, code := code } rd <;> rfl

/-- forget the probability store of a `runDec` result -/
def dropStore {α σ : Type} (r : α × σ × RC × Rd) : α × RC × Rd := (r.1, r.2.2)

/-- generalised statement: the `update = true` run may start from any store that
agrees with `s` outside the indices already `seen` -/
theorem runDec_update_irrelevant_aux [ProbStore σ ι] [LawfulProbStore σ ι]
    (t : Coder ι α) (seen : ι → Prop) (ht : t.NoDupAux seen) (s s' : σ)
    (hb : ∀ i v, ProbStore.get s i = .ok v → v ≤ 0x800)
    (hs : ∀ j, ¬ seen j → ProbStore.get s' j = ProbStore.get s j) (rc : RC) (rd : Rd) :
    (runDec false t s rc rd).map dropStore = (runDec true t s' rc rd).map dropStore := by
  induction t generalizing seen s' rc rd with
  | ret a => rfl
  | fail e => rfl
  | bit i k ih =>
    simp only [runDec]
    rw [hs i ht.1]
    cases hg : ProbStore.get s i with
    | error e => rfl
    | ok p =>
      simp only []
      have hp := hb i p hg
      have hd := decodeBit_update_irrelevant p hp rc rd
      cases hF : RC.decodeBit false p rc rd with
      | error e =>
        cases hT : RC.decodeBit true p rc rd with
        | error e' => rw [hF, hT] at hd; simpa [Except.map] using hd
        | ok r => rw [hF, hT] at hd; simp [Except.map] at hd
      | ok r =>
        cases hT : RC.decodeBit true p rc rd with
        | error e' => rw [hF, hT] at hd; simp [Except.map] at hd
        | ok r' =>
          rw [hF, hT] at hd
          simp only [Except.map, Except.ok.injEq, Prod.mk.injEq] at hd
          obtain ⟨b, q, rc1, rd1⟩ := r
          obtain ⟨b', q', rc1', rd1'⟩ := r'
          simp only [Prod.mk.injEq] at hd
          obtain ⟨rfl, rfl, rfl⟩ := hd
          simp only [Bool.false_eq_true, if_false, if_true]
          refine ih b _ (ht.2 b) _ ?_ rc1 rd1
          intro j hj
          have hji : j ≠ i := fun h => hj (.inl h)
          have hjs : ¬ seen j := fun h => hj (.inr h)
          rw [LawfulProbStore.get_set_ne s' i j q' p (by rw [hs i ht.1, hg]) hji]
          exact hs j hjs
  | direct k ih =>
    simp only [runDec]
    cases RC.getBit rc rd with
    | error e => rfl
    | ok r =>
      obtain ⟨b, rc1, rd1⟩ := r
      exact ih b seen (ht b) s' hs rc1 rd1

/-- without any bound on `p`: when the real `decode_bit` succeeds, the dry one
succeeds with the same bit, coder state and reader -/
theorem decodeBit_true_ok {p : Nat} {rc : RC} {rd : Rd} {r : Bool × Nat × RC × Rd}
    (h : RC.decodeBit true p rc rd = .ok r) :
    RC.decodeBit false p rc rd = .ok (r.1, p, r.2.2) := by
  unfold RC.decodeBit at h ⊢
  cases hm : mulChk U32 "decode_bit: bound overflow" (rc.range >>> 11) p with
  | error e => rw [hm] at h; cases h
  | ok bound =>
    rw [hm] at h
    simp only [exc_ok_bind, exc_pure] at h ⊢
    by_cases hlt : rc.code < bound
    · simp only [hlt, if_true, Bool.false_eq_true, if_false] at h ⊢
      cases hs : subChk "decode_bit: 0x800 - prob" 0x800 p with
      | error e => rw [hs] at h; cases h
      | ok d =>
        rw [hs] at h; simp only [exc_ok_bind] at h
        cases ha : addChk U16 "decode_bit: prob += overflow" p (d >>> 5) with
        | error e => rw [ha] at h; cases h
        | ok p' =>
          rw [ha] at h; simp only [exc_ok_bind] at h
          cases hn : RC.normalize { range := bound, code := rc.code } rd with
          | error e => rw [hn] at h; cases h
          | ok x => rw [hn] at h; simp only [exc_ok_bind] at h ⊢; cases h; rfl
    · simp only [hlt, if_false] at h ⊢
      cases hc : subChk "decode_bit: code -= bound" rc.code bound with
      | error e => rw [hc] at h; cases h
      | ok code =>
        rw [hc] at h; simp only [exc_ok_bind] at h ⊢
        cases hr : subChk "decode_bit: range -= bound" rc.range bound with
        | error e => rw [hr] at h; cases h
        | ok range =>
          rw [hr] at h; simp only [exc_ok_bind] at h ⊢
          cases hn : RC.normalize { range := range, code := code } rd with
          | error e => rw [hn] at h; cases h
          | ok x => rw [hn] at h; simp only [exc_ok_bind] at h ⊢; cases h; rfl

theorem runDec_true_ok_aux [ProbStore σ ι] [LawfulProbStore σ ι]
    (t : Coder ι α) (seen : ι → Prop) (ht : t.NoDupAux seen) (s s' : σ)
    (hs : ∀ j, ¬ seen j → ProbStore.get s' j = ProbStore.get s j) (rc : RC) (rd : Rd)
    {r : α × σ × RC × Rd} (h : runDec true t s' rc rd = .ok r) :
    runDec false t s rc rd = .ok (r.1, s, r.2.2) := by
  induction t generalizing seen s' rc rd with
  | ret a => simp only [runDec] at h ⊢; cases h; rfl
  | fail e => simp only [runDec] at h; cases h
  | bit i k ih =>
    simp only [runDec] at h ⊢
    rw [hs i ht.1] at h
    cases hg : ProbStore.get s i with
    | error e => rw [hg] at h; cases h
    | ok p =>
      rw [hg] at h; simp only [] at h ⊢
      cases hT : RC.decodeBit true p rc rd with
      | error e => rw [hT] at h; cases h
      | ok x =>
        rw [hT] at h
        rw [decodeBit_true_ok hT]
        obtain ⟨b, q, rc1, rd1⟩ := x
        simp only [Bool.false_eq_true, if_false, if_true] at h ⊢
        refine ih b _ (ht.2 b) _ ?_ rc1 rd1 h
        intro j hj
        have hji : j ≠ i := fun h => hj (.inl h)
        have hjs : ¬ seen j := fun h => hj (.inr h)
        rw [LawfulProbStore.get_set_ne s' i j q p (by rw [hs i ht.1, hg]) hji]
        exact hs j hjs
  | direct k ih =>
    simp only [runDec] at h ⊢
    cases hG : RC.getBit rc rd with
    | error e => rw [hG] at h; cases h
    | ok x =>
      rw [hG] at h
      obtain ⟨b, rc1, rd1⟩ := x
      exact ih b seen (ht b) s' hs rc1 rd1 h

/-! ## `Probs` is a lawful store -/

theorem arrGet_set_ne' (a : Array Nat) (i j v : Nat) (h : i ≠ j) :
    arrGet (a.setIfInBounds i v) j = arrGet a j := by
  simp [arrGet, Array.getElem?_setIfInBounds_ne h]

/-- writing a readable cell of `Probs` leaves every other cell alone (cells of
different tables never alias; within one table the bounds checks of `get` make
the flattened indices distinct) -/
theorem Probs.get_set_ne (p : Probs) (i j : PIdx) (v w : Nat) (hi : p.get i = .ok w)
    (hne : j ≠ i) : (p.set i v).get j = p.get j := by
  rcases i with ⟨r, c⟩ | ⟨ls, t⟩ | t | k | k | k | k | k | k | k | ri | ri | ⟨ri, ps, t⟩ | ⟨ri, ps, t⟩ | ⟨ri, t⟩ <;>
  rcases j with ⟨r', c'⟩ | ⟨ls', t'⟩ | t' | k' | k' | k' | k' | k' | k' | k' | rj | rj | ⟨rj, ps', t'⟩ | ⟨rj, ps', t'⟩ | ⟨rj, t'⟩
  all_goals try cases ri
  all_goals try cases rj
  all_goals
    simp only [Probs.get, Probs.set, Probs.setLen, LenProbs.get, LenProbs.set, oob, ne_eq,
      PIdx.lit.injEq, PIdx.posSlot.injEq, PIdx.align.injEq, PIdx.posDec.injEq, PIdx.isMatch.injEq,
      PIdx.isRep.injEq, PIdx.isRepG0.injEq, PIdx.isRepG1.injEq, PIdx.isRepG2.injEq,
      PIdx.isRep0Long.injEq, PIdx.lenChoice.injEq, PIdx.lenChoice2.injEq, PIdx.lenLow.injEq,
      PIdx.lenMid.injEq, PIdx.lenHigh.injEq, Array.size_setIfInBounds, if_true, if_false,
      Bool.false_eq_true, true_and, not_true_eq_false] at hi hne ⊢
  all_goals try rfl
  all_goals first
    | exact arrGet_set_ne' _ _ _ _ (fun h => hne h.symm)
    | (split at hi
       · split
         · exact arrGet_set_ne' _ _ _ _ (by omega)
         · rfl
       · cases hi)

instance : LawfulProbStore Probs PIdx := ⟨Probs.get_set_ne⟩

/-- the unguarded law is false for `Probs`: `set` flattens `(row, t)` without the
bounds check that `get` applies -/
theorem Probs.get_set_ne_needs_readable :
    ∃ (p : Probs) (i j : PIdx) (v : Nat), j ≠ i ∧ (p.set i v).get j = .ok 7 ∧ p.get j = .ok 0x400 :=
  ⟨Probs.init 1, .posSlot 0 64, .posSlot 1 0, 7, by decide,
    by simp [Probs.get, Probs.set, Probs.init, arrGet], by simp [Probs.get, Probs.init, arrGet]⟩

/-! ## the generic trees have no duplicate index -/

theorem bitTreeAux_idxIn (mk : Nat → ι) (n tmp : Nat) :
    IdxIn (fun j => ∃ t, j = mk t) (bitTreeAux mk n tmp) := by
  induction n generalizing tmp with
  | zero => trivial
  | succ n ih => exact ⟨⟨tmp, rfl⟩, fun b => ih _⟩

theorem bitTreeAux_nodup (mk : Nat → ι) (inj : ∀ a b, mk a = mk b → a = b) (n tmp : Nat)
    (h1 : 1 ≤ tmp) (seen : ι → Prop) (hs : ∀ t, tmp ≤ t → ¬ seen (mk t)) :
    NoDupAux (bitTreeAux mk n tmp) seen := by
  induction n generalizing tmp seen with
  | zero => trivial
  | succ n ih =>
    refine ⟨hs tmp (Nat.le_refl _), fun b => ih _ (by omega) _ ?_⟩
    intro t ht hseen
    rcases hseen with h | h
    · have := inj _ _ h; omega
    · exact hs t (by omega) h

theorem bitTree_idxIn (mk : Nat → ι) (n : Nat) : IdxIn (fun j => ∃ t, j = mk t) (bitTree mk n) :=
  IdxIn.bind (bitTreeAux_idxIn mk n 1) fun _ => IdxIn.ofExcept _

theorem bitTree_nodup (mk : Nat → ι) (inj : ∀ a b, mk a = mk b → a = b) (n : Nat) :
    NoDup (bitTree mk n) :=
  NoDupAux.bind (P := fun j => ∃ t, j = mk t)
    (bitTreeAux_nodup mk inj n 1 (Nat.le_refl _) _ (fun _ _ h => h)) (bitTreeAux_idxIn mk n 1)
    fun _ => NoDupAux.ofExcept _

theorem revBitTreeAux_idxIn (mk : Nat → ι) (off n i tmp res : Nat) :
    IdxIn (fun j => ∃ t, j = mk t) (revBitTreeAux mk off n i tmp res) := by
  induction n generalizing i tmp res with
  | zero => trivial
  | succ n ih => exact ⟨⟨_, rfl⟩, fun b => ih _ _ _⟩

theorem revBitTreeAux_nodup (mk : Nat → ι) (inj : ∀ a b, mk a = mk b → a = b) (off n i tmp res : Nat)
    (h1 : 1 ≤ tmp) (seen : ι → Prop) (hs : ∀ t, tmp ≤ t → ¬ seen (mk (off + t))) :
    NoDupAux (revBitTreeAux mk off n i tmp res) seen := by
  induction n generalizing i tmp res seen with
  | zero => trivial
  | succ n ih =>
    refine ⟨hs tmp (Nat.le_refl _), fun b => ih _ _ _ (by omega) _ ?_⟩
    intro t ht hseen
    rcases hseen with h | h
    · have := inj _ _ h; omega
    · exact hs t (by omega) h

theorem revBitTree_idxIn (mk : Nat → ι) (off n : Nat) :
    IdxIn (fun j => ∃ t, j = mk t) (revBitTree mk off n) := revBitTreeAux_idxIn mk off n 0 1 0

theorem revBitTree_nodup (mk : Nat → ι) (inj : ∀ a b, mk a = mk b → a = b) (off n : Nat) :
    NoDup (revBitTree mk off n) :=
  revBitTreeAux_nodup mk inj off n 0 1 0 (Nat.le_refl _) _ (fun _ _ h => h)

theorem directBits_idxIn (P : ι → Prop) (n acc : Nat) : IdxIn P (directBits n acc : Coder ι Nat) := by
  induction n generalizing acc with
  | zero => trivial
  | succ n ih => exact fun b => ih _

theorem directBits_nodup (seen : ι → Prop) (n acc : Nat) :
    NoDupAux (directBits n acc : Coder ι Nat) seen := by
  induction n generalizing acc with
  | zero => trivial
  | succ n ih => exact fun b => ih _

/-! ## the LZMA trees -/

/-- which table an index addresses -/
def PIdx.tag : PIdx → Nat
  | .lit .. => 0 | .posSlot .. => 1 | .align .. => 2 | .posDec .. => 3 | .isMatch .. => 4
  | .isRep .. => 5 | .isRepG0 .. => 6 | .isRepG1 .. => 7 | .isRepG2 .. => 8 | .isRep0Long .. => 9
  | .lenChoice .. => 10 | .lenChoice2 .. => 11 | .lenLow .. => 12 | .lenMid .. => 13 | .lenHigh .. => 14

theorem lenTree_idxIn (rep : Bool) (ps : Nat) :
    IdxIn (fun j => 10 ≤ j.tag ∧ j.tag ≤ 14) (lenTree rep ps) := by
  unfold lenTree
  refine ⟨by simp [PIdx.tag], fun b => ?_⟩
  cases b
  · exact IdxIn.mono (by rintro j ⟨t, rfl⟩; simp [PIdx.tag]) (bitTree_idxIn _ 3)
  · refine ⟨by simp [PIdx.tag], fun b => ?_⟩
    cases b
    · exact IdxIn.map (IdxIn.mono (by rintro j ⟨t, rfl⟩; simp [PIdx.tag]) (bitTree_idxIn _ 3))
    · exact IdxIn.map (IdxIn.mono (by rintro j ⟨t, rfl⟩; simp [PIdx.tag]) (bitTree_idxIn _ 8))

theorem lenTree_nodup (rep : Bool) (ps : Nat) : NoDup (lenTree rep ps) := by
  unfold lenTree
  refine ⟨fun h => h, fun b => ?_⟩
  cases b
  · exact NoDup.of_disjoint (bitTree_nodup _ (by intro a b h; cases h; rfl) 3) (bitTree_idxIn _ 3)
      (by rintro j ⟨t, rfl⟩ h; simp at h)
  · refine ⟨by simp, fun b => ?_⟩
    cases b
    · exact NoDupAux.map (NoDup.of_disjoint (bitTree_nodup _ (by intro a b h; cases h; rfl) 3)
        (bitTree_idxIn _ 3) (by rintro j ⟨t, rfl⟩ h; simp at h))
    · exact NoDupAux.map (NoDup.of_disjoint (bitTree_nodup _ (by intro a b h; cases h; rfl) 8)
        (bitTree_idxIn _ 8) (by rintro j ⟨t, rfl⟩ h; simp at h))

theorem distTree_idxIn (l : Nat) : IdxIn (fun j => 1 ≤ j.tag ∧ j.tag ≤ 3) (distTree l) := by
  unfold distTree
  refine IdxIn.bind (IdxIn.mono (by rintro j ⟨t, rfl⟩; simp [PIdx.tag]) (bitTree_idxIn _ 6)) fun a => ?_
  by_cases h4 : a < 4
  · simp only [h4, if_true]; trivial
  · simp only [h4, if_false]
    by_cases h14 : a < 14
    · simp only [h14, if_true]
      split
      · trivial
      · exact IdxIn.map (IdxIn.mono (by rintro j ⟨t, rfl⟩; simp [PIdx.tag]) (revBitTree_idxIn _ _ _))
    · simp only [h14, if_false]
      exact IdxIn.bind (directBits_idxIn _ _ _) fun _ =>
        IdxIn.map (IdxIn.mono (by rintro j ⟨t, rfl⟩; simp [PIdx.tag]) (revBitTree_idxIn _ _ _))

theorem distTree_nodup (l : Nat) : NoDup (distTree l) := by
  unfold distTree
  refine NoDupAux.bind (bitTree_nodup _ (by intro a b h; cases h; rfl) 6) (bitTree_idxIn _ 6) fun a => ?_
  by_cases h4 : a < 4
  · simp only [h4, if_true]; trivial
  · simp only [h4, if_false]
    by_cases h14 : a < 14
    · simp only [h14, if_true]
      split
      · trivial
      · exact NoDupAux.map (NoDup.of_disjoint (revBitTree_nodup _ (by intro a b h; cases h; rfl) _ _)
          (revBitTree_idxIn _ _ _) (by rintro j ⟨t, rfl⟩ h; simp at h))
    · simp only [h14, if_false]
      exact NoDupAux.bind (P := fun _ => False) (directBits_nodup _ _ _) (directBits_idxIn _ _ _) fun _ =>
        NoDupAux.map (NoDup.of_disjoint (revBitTree_nodup _ (by intro a b h; cases h; rfl) _ _)
          (revBitTree_idxIn _ _ _) (by rintro j ⟨t, rfl⟩ h; simp at h))

theorem litPlain_nodup (row fuel result : Nat) (h1 : 1 ≤ result) (seen : PIdx → Prop)
    (hs : ∀ t, result ≤ t → t < 256 → ¬ seen (.lit row t)) :
    NoDupAux (litPlain row fuel result) seen := by
  induction fuel generalizing result seen with
  | zero => unfold litPlain; split <;> trivial
  | succ f ih =>
    unfold litPlain
    split
    · rename_i hlt
      refine ⟨hs result (Nat.le_refl _) hlt, fun b => ih _ (by omega) _ ?_⟩
      intro t ht ht256 hseen
      rcases hseen with h | h
      · cases h; omega
      · exact hs t (by omega) ht256 h
    · trivial

/-- in the matched loop the indices are `0x100 + result` or `0x200 + result` with
`result < 0x100` strictly increasing, all `≥ 0x100`; the plain loop that follows
only uses indices `< 0x100` -/
theorem litMatched_nodup (row fuel mb result : Nat) (h1 : 1 ≤ result) (seen : PIdx → Prop)
    (hs : ∀ t, seen (.lit row t) →
      256 ≤ t ∧ (t < 256 + result ∨ (512 ≤ t ∧ t < 512 + result))) :
    NoDupAux (litMatched row fuel mb result) seen := by
  induction fuel generalizing mb result seen with
  | zero => unfold litMatched; split <;> trivial
  | succ f ih =>
    unfold litMatched
    split
    · rename_i hlt
      simp only []
      have hbit : (mb >>> 7) &&& 1 = 0 ∨ (mb >>> 7) &&& 1 = 1 := by
        rw [Nat.and_one_is_mod]; omega
      have hidx : ((1 + ((mb >>> 7) &&& 1)) <<< 8) + result = 256 + result ∨
          ((1 + ((mb >>> 7) &&& 1)) <<< 8) + result = 512 + result := by
        rcases hbit with h | h <;> rw [h] <;> simp [Nat.shiftLeft_eq]
      refine ⟨fun hseen => ?_, fun b => ?_⟩
      · have := hs _ hseen
        omega
      · have hseen' : ∀ t, (PIdx.lit row t = PIdx.lit row (((1 + ((mb >>> 7) &&& 1)) <<< 8) + result)
            ∨ seen (.lit row t)) →
            256 ≤ t ∧ (t < 256 + (2 * result + b.toNat) ∨ (512 ≤ t ∧ t < 512 + (2 * result + b.toNat))) := by
          intro t ht
          rcases ht with ht | ht
          · injection ht with _ ht
            omega
          · have := hs t ht; omega
        dsimp only
        split
        · exact litPlain_nodup row f _ (by omega) _ fun t _ ht256 hseen => by
            have := hseen' t hseen; omega
        · exact ih _ _ (by omega) _ hseen'
    · trivial

theorem Coder.IdxIn.all (t : Coder ι α) : IdxIn (fun _ => True) t := by
  induction t with
  | ret a => trivial
  | fail e => trivial
  | bit i k ih => exact ⟨trivial, ih⟩
  | direct k ih => exact ih

/-- `lenTree` below a path that only used the `is*` tables -/
theorem lenTree_nodup_after (rep : Bool) (ps : Nat) (seen : PIdx → Prop)
    (hs : ∀ j, seen j → 4 ≤ j.tag ∧ j.tag ≤ 9) : NoDupAux (lenTree rep ps) seen :=
  NoDup.of_disjoint (lenTree_nodup rep ps) (lenTree_idxIn rep ps) fun j hj h => by
    have := hs j h; omega

theorem symTree_nodup_lemma (c : Ctx) : NoDup (symTree c) := by
  unfold symTree
  refine ⟨fun h => h, fun b => ?_⟩
  cases b
  · -- literal
    simp only [Bool.not_false, if_true]
    split
    · trivial
    · rename_i row _
      refine NoDupAux.bind (P := fun _ => True) ?_ (IdxIn.all _) fun a => ?_
      · split
        · split
          · trivial
          · exact litMatched_nodup row 8 _ 1 (Nat.le_refl _) _ (by intro t h; simp at h)
        · exact litPlain_nodup row 8 1 (Nat.le_refl _) _ (by intro t _ _ h; simp at h)
      · split <;> trivial
  · simp only [Bool.not_true, Bool.false_eq_true, if_false]
    refine ⟨by simp, fun b => ?_⟩
    cases b
    · -- match: length then distance
      simp only [Bool.false_eq_true, if_false]
      refine NoDupAux.bind (lenTree_nodup_after false _ _ ?_) (lenTree_idxIn false _) fun len => ?_
      · rintro j (rfl | rfl | h) <;> simp [PIdx.tag] at *
      · refine NoDupAux.map (NoDup.of_disjoint (distTree_nodup len) (distTree_idxIn len) ?_)
        rintro j hj (h | rfl | rfl | h)
        · omega
        · simp [PIdx.tag] at hj
        · simp [PIdx.tag] at hj
        · exact h
    · -- rep family
      simp only [if_true]
      refine ⟨by simp, fun b => ?_⟩
      cases b
      · simp only [Bool.not_false, if_true]
        refine ⟨by simp, fun b => ?_⟩
        cases b
        · trivial
        · refine NoDupAux.map (lenTree_nodup_after true _ _ ?_)
          rintro j (rfl | rfl | rfl | rfl | h) <;> simp [PIdx.tag] at *
      · simp only [Bool.not_true, Bool.false_eq_true, if_false]
        refine ⟨by simp, fun b => ?_⟩
        cases b
        · refine NoDupAux.map (lenTree_nodup_after true _ _ ?_)
          rintro j (rfl | rfl | rfl | rfl | h) <;> simp [PIdx.tag] at *
        · simp only [Bool.not_true, Bool.false_eq_true, if_false]
          refine ⟨by simp, fun b => ?_⟩
          cases b <;> simp only [Bool.not_true, Bool.not_false, Bool.false_eq_true, if_false, if_true]
          · refine NoDupAux.map (lenTree_nodup_after true _ _ ?_)
            rintro j (rfl | rfl | rfl | rfl | rfl | h) <;> simp [PIdx.tag] at *
          · refine NoDupAux.map (lenTree_nodup_after true _ _ ?_)
            rintro j (rfl | rfl | rfl | rfl | rfl | h) <;> simp [PIdx.tag] at *

/-! ## fresh tables satisfy the probability bound -/

theorem arrGet_replicate {n i x v : Nat} (h : arrGet (Array.replicate n x) i = .ok v) : v = x := by
  unfold arrGet at h
  split at h
  · rename_i w hw
    rw [Array.getElem?_replicate] at hw
    split at hw
    · cases hw; cases h; rfl
    · cases hw
  · cases h

theorem ite_arrGet_replicate {c : Prop} [Decidable c] {n i x v : Nat} {e : Err}
    (h : (if c then arrGet (Array.replicate n x) i else .error e) = .ok v) : v = x := by
  by_cases hc : c
  · rw [if_pos hc] at h; exact arrGet_replicate h
  · rw [if_neg hc] at h; cases h

theorem Probs.init_get (k : Nat) (i : PIdx) (v : Nat) (h : (Probs.init k).get i = .ok v) :
    v = 0x400 := by
  rcases i with ⟨r, c⟩ | ⟨ls, t⟩ | t | k | k | k | k | k | k | k | ri | ri | ⟨ri, ps, t⟩ | ⟨ri, ps, t⟩ | ⟨ri, t⟩
  all_goals try cases ri
  all_goals
    simp only [Probs.get, Probs.init, LenProbs.get, oob, if_true, if_false, Bool.false_eq_true] at h
  all_goals first
    | exact arrGet_replicate h
    | (cases h; rfl)
    | exact ite_arrGet_replicate h

/-! ## `NoDup` in terms of paths -/

/-- the probability index of an event -/
def Ev.idx? : Ev → Option PIdx
  | .pbit i _ => some i
  | .dbit _ => none

theorem Coder.NoDupAux.path {t : Coder PIdx α} {seen : PIdx → Prop} (ht : NoDupAux t seen)
    {evs rest : List Ev} {a : α} (h : runEv t evs = some (a, rest)) :
    ∃ used, evs = used ++ rest ∧ (used.filterMap Ev.idx?).Nodup ∧
      ∀ i ∈ used.filterMap Ev.idx?, ¬ seen i := by
  induction t generalizing seen evs with
  | ret a' => simp at h; exact ⟨[], by simp [h.2]⟩
  | fail e => simp at h
  | bit i k ih =>
    cases evs with
    | nil => simp [runEv] at h
    | cons ev rest' =>
      cases ev with
      | pbit j b =>
        by_cases hij : i = j
        · subst hij; simp at h
          obtain ⟨u, hu, hnd, hns⟩ := ih b (ht.2 b) h
          refine ⟨.pbit i b :: u, by simp [hu], ?_, ?_⟩
          · simp only [List.filterMap_cons, Ev.idx?, List.nodup_cons]
            exact ⟨fun hm => hns i hm (.inl rfl), hnd⟩
          · intro x hx
            simp only [List.filterMap_cons, Ev.idx?, List.mem_cons] at hx
            rcases hx with rfl | hx
            · exact ht.1
            · exact fun hs => hns x hx (.inr hs)
        · simp [runEv, hij] at h
      | dbit b => simp [runEv] at h
  | direct k ih =>
    cases evs with
    | nil => simp [runEv] at h
    | cons ev rest' =>
      cases ev with
      | pbit j b => simp [runEv] at h
      | dbit b =>
        simp at h
        obtain ⟨u, hu, hnd, hns⟩ := ih b (ht b) h
        have hf : (Ev.dbit b :: u).filterMap Ev.idx? = u.filterMap Ev.idx? := by
          simp [List.filterMap_cons, Ev.idx?]
        exact ⟨.dbit b :: u, by simp [hu], by rw [hf]; exact hnd, by rw [hf]; exact hns⟩

end Lzma
