/-
  The simulation invariant between range encoder and range decoder, and the
  one-event simulation lemmas.

  `B` is the complete byte string the encoder will have produced after its
  final flush, `T` arbitrary trailing bytes.  `FutN B V N r` ("the future of
  the state `(V, N, r)` is `B`") says that the first `N + 4` bytes of `B`,
  read as a big-endian integer, lie in `[V, V + r)`.
-/
import LzmaProofs.Lemmas.RcDec
namespace Lzma
open RcArith
open REnc

/-- the first `N + 4` bytes of `B` denote a value in the interval `[V, V + r)` -/
def FutN (B : Bytes) (V N r : Nat) : Prop :=
  N + 4 ≤ B.length ∧ V ≤ beVal (B.take (N + 4)) ∧ beVal (B.take (N + 4)) < V + r

theorem FutN.shift {B : Bytes} {V N r : Nat} (h : FutN B (256 * V) (N + 1) (256 * r)) :
    FutN B V N r := by
  obtain ⟨h1, h2, h3⟩ := h
  have ht := beVal_take_succ B (N + 4) (by omega)
  have hb := (B[N + 4]'(by omega)).toNat_lt
  rw [show N + 1 + 4 = N + 4 + 1 by omega] at h2 h3
  exact ⟨by omega, by omega, by omega⟩

theorem FutN.upd {B : Bytes} {V N r δ r' : Nat} (h : FutN B (V + δ) N r') (hn : δ + r' ≤ r) :
    FutN B V N r := by
  obtain ⟨h1, h2, h3⟩ := h
  exact ⟨h1, by omega, by omega⟩

/-- The simulation invariant: the decoder holds the same `range`, has consumed
exactly four bytes more than the encoder has produced (emitted or pending),
and its `code` is the distance of the consumed value from the encoder's `low`. -/
structure RcSim (B T : Bytes) (e : REnc) (out : Bytes) (rc : RC) (rd : Rd) : Prop where
  ok : EOk e
  range : rc.range = e.range
  len : EN e out + 4 ≤ B.length
  rem : rd.rem = B.drop (EN e out + 4) ++ T
  code : beVal (B.take (EN e out + 4)) = EV e out + rc.code

/-- the future of a narrowed state from the future of its normalisation -/
theorem fut_norm1 {B : Bytes} (m : REnc) (out : Bytes) (hi : EInv m m.range) (hlo : 65536 ≤ m.range)
    (hhi : m.range < 4294967296)
    (hfut : FutN B (EV (norm1 m).1 (out ++ (norm1 m).2)) (EN (norm1 m).1 (out ++ (norm1 m).2))
      (norm1 m).1.range) :
    FutN B (EV m out) (EN m out) m.range := by
  obtain ⟨_, h2⟩ := norm1_spec m out hi hlo hhi
  by_cases h : m.range < 16777216
  · rw [if_pos h] at h2
    obtain ⟨a, b, c⟩ := h2
    rw [a, b, c] at hfut
    exact hfut.shift
  · rw [if_neg h] at h2
    obtain ⟨a, b⟩ := h2
    rw [a, b, List.append_nil] at hfut
    exact hfut

/-- decoder normalisation follows encoder normalisation -/
theorem sim_norm {B T : Bytes} (m : REnc) (out : Bytes) (c : Nat) (rd : Rd)
    (hi : EInv m m.range) (hlo : 65536 ≤ m.range) (hhi : m.range < 4294967296)
    (hlen : EN m out + 4 ≤ B.length) (hrem : rd.rem = B.drop (EN m out + 4) ++ T)
    (hcode : beVal (B.take (EN m out + 4)) = EV m out + c)
    (hfut : FutN B (EV (norm1 m).1 (out ++ (norm1 m).2)) (EN (norm1 m).1 (out ++ (norm1 m).2))
      (norm1 m).1.range) :
    ∃ rc' rd', RC.normalize { range := m.range, code := c } rd = .ok (rc', rd') ∧
      rd'.bad = rd.bad ∧ RcSim B T (norm1 m).1 (out ++ (norm1 m).2) rc' rd' := by
  have hfm := fut_norm1 m out hi hlo hhi hfut
  obtain ⟨hok, h2⟩ := norm1_spec m out hi hlo hhi
  by_cases h : m.range < 16777216
  · rw [if_pos h] at h2
    obtain ⟨a, b, r⟩ := h2
    have hl5 : EN m out + 4 < B.length := by
      have := hfut.1; omega
    have hc : c < 16777216 := by
      have := hfm.2.2; omega
    have hrem' : rd.rem = B[EN m out + 4] :: (B.drop (EN m out + 4 + 1) ++ T) := by
      rw [hrem, List.drop_eq_getElem_cons hl5]; rfl
    refine ⟨_, _, RC.normalize_lt { range := m.range, code := c } rd _ _ h hc hrem', rfl, ?_⟩
    refine ⟨hok, by simp [r]; omega, by omega, ?_, ?_⟩
    · simp [b]
    · rw [a, b, beVal_take_succ B _ hl5, hcode]
      simp; omega
  · rw [if_neg h] at h2
    obtain ⟨a, b⟩ := h2
    refine ⟨_, _, RC.normalize_ge { range := m.range, code := c } rd (by simp; omega), rfl, ?_⟩
    rw [b, List.append_nil, a]
    rw [a] at hok
    exact ⟨hok, rfl, hlen, hrem, hcode⟩

/-- generic one-event simulation: the encoder narrows to `m` (adding `δ` to `low`)
and normalises; a decoder that subtracts `δ` from `code`, takes `m.range` and
normalises stays in simulation.  Also: `δ ≤ code < δ + m.range`, which decides
the decoder's comparison. -/
theorem sim_upd {B T : Bytes} {e m : REnc} {out : Bytes} {rc : RC} {rd : Rd} {δ : Nat}
    (h : RcSim B T e out rc rd) (hu : Upd e m δ)
    (hfut : FutN B (EV (norm1 m).1 (out ++ (norm1 m).2)) (EN (norm1 m).1 (out ++ (norm1 m).2))
      (norm1 m).1.range) :
    δ ≤ rc.code ∧ rc.code < δ + m.range ∧
    ∃ rc' rd', RC.normalize { range := m.range, code := rc.code - δ } rd = .ok (rc', rd') ∧
      rd'.bad = rd.bad ∧ RcSim B T (norm1 m).1 (out ++ (norm1 m).2) rc' rd' := by
  have hi := hu.einv h.ok
  have hhi : m.range < 4294967296 := by have := hu.nest; have := h.ok.hi; omega
  obtain ⟨hv, hn⟩ := hu.ev out
  have hfm := fut_norm1 m out hi hu.lo hhi hfut
  obtain ⟨_, f2, f3⟩ := hfm
  have hcode := h.code
  rw [hn, hv] at f2 f3
  rw [hcode] at f2 f3
  refine ⟨by omega, by omega, ?_⟩
  apply sim_norm m out (rc.code - δ) rd hi hu.lo hhi
  · rw [hn]; exact h.len
  · rw [hn]; exact h.rem
  · rw [hn, hv, hcode]; omega
  · exact hfut

/-- one `pbit` event -/
theorem sim_pbit {B T : Bytes} {e : REnc} {out : Bytes} {rc : RC} {rd : Rd} (p : Nat) (b : Bool)
    (h : RcSim B T e out rc rd) (hp : ProbOk p)
    (hfut : FutN B (EV (stepBit e p b).1 (out ++ (stepBit e p b).2))
      (EN (stepBit e p b).1 (out ++ (stepBit e p b).2)) (stepBit e p b).1.range) :
    ∃ rc' rd', RC.decodeBit true p rc rd = .ok (b, updP p b, rc', rd') ∧ rd'.bad = rd.bad ∧
      RcSim B T (stepBit e p b).1 (out ++ (stepBit e p b).2) rc' rd' := by
  have hu := midBit_upd e p b h.ok hp
  obtain ⟨hb1, hb2⟩ := bound_facts h.ok.lo h.ok.hi hp
  obtain ⟨h1, h2, rc', rd', hn, hbad, hsim⟩ := sim_upd h hu hfut
  refine ⟨rc', rd', ?_, hbad, hsim⟩
  have hr := h.range
  have hhi := h.ok.hi
  rw [← hr] at hb1 hb2 hhi
  cases b
  · simp only [midBit, Bool.false_eq_true, if_false] at hn h1 h2
    rw [← hr] at hn h2
    simp only [Nat.sub_zero, Nat.zero_add] at hn h2
    rw [RC.decodeBit_false true p rc rd _ (by omega) (by have := hp.2; omega) h2 hn]
    rfl
  · simp only [midBit, if_true] at hn h1 h2
    rw [← hr] at hn h1
    rw [RC.decodeBit_true true p rc rd _ (by omega) h1 (by omega) hn]
    rfl

/-- one `dbit` event -/
theorem sim_dbit {B T : Bytes} {e : REnc} {out : Bytes} {rc : RC} {rd : Rd} (b : Bool)
    (h : RcSim B T e out rc rd)
    (hfut : FutN B (EV (stepDirect e b).1 (out ++ (stepDirect e b).2))
      (EN (stepDirect e b).1 (out ++ (stepDirect e b).2)) (stepDirect e b).1.range) :
    ∃ rc' rd', RC.getBit rc rd = .ok (b, rc', rd') ∧ rd'.bad = rd.bad ∧
      RcSim B T (stepDirect e b).1 (out ++ (stepDirect e b).2) rc' rd' := by
  have hu := midDirect_upd e b h.ok
  obtain ⟨h1, h2, rc', rd', hn, hbad, hsim⟩ := sim_upd h hu hfut
  refine ⟨rc', rd', ?_, hbad, hsim⟩
  have hr := h.range
  rw [RC.getBit_eq]
  cases b
  · simp only [midDirect, Bool.false_eq_true, if_false] at hn h1 h2
    rw [← hr] at hn h2
    simp only [Nat.sub_zero, Nat.zero_add] at hn h2
    have hlt : ¬ rc.range >>> 1 ≤ rc.code := by omega
    simp only [hlt, if_false, hn]
    simp [Except.map]
  · simp only [midDirect, if_true] at hn h1 h2
    rw [← hr] at hn h1
    simp only [h1, if_true, hn]
    simp [Except.map]

end Lzma
