/-
  C07 — layer 4: the two windows never panic.

  `LzBufSafe ω` packages what the symbol loop needs from a window: an invariant
  kept by the appending operations under which no operation returns a bad error.
  `lastN`/`appendLz` are only ever called with `dist = rep0 + 1 ≥ 1`; with
  `dist = 0` the accumulating window WOULD panic in the model (`buf[size]`), so
  `0 < dist` is a hypothesis.
-/
import LzmaProofs.Lemmas.Safety
namespace Lzma
namespace Safety

class LzBufSafe (ω : Type) [LzBuf ω] where
  inv : ω → Prop
  lastOr_safe : ∀ (w : ω) (b : UInt8), inv w → ESafe (fun _ => True) (LzBuf.lastOr w b)
  lastN_safe : ∀ (w : ω) (d : Nat), inv w → 0 < d → ESafe (fun _ => True) (LzBuf.lastN w d)
  appendLiteral_safe : ∀ (w : ω) (b : UInt8), inv w → MSafe inv (LzBuf.appendLiteral w b)
  appendLz_safe : ∀ (w : ω) (l d : Nat), inv w → 0 < d → MSafe inv (LzBuf.appendLz w l d)

/-! ## circular window -/

/-- invariant of `LzCircularBuffer`: a non-zero dictionary size, the cursor inside the
allocated part of the buffer and inside the dictionary, and the memory bounds: the lazily
grown buffer never exceeds the dictionary size, the number of bytes produced, or the
memory limit -/
def CircSafe (w : Circ) : Prop :=
  0 < w.dictSize ∧ w.cursor ≤ w.buf.size ∧ w.cursor < w.dictSize ∧ w.buf.size ≤ w.dictSize ∧
    w.buf.size ≤ w.len ∧ w.buf.size ≤ w.memlimit

theorem CircSafe_fromStream {d m : Nat} (h : 0 < d) : CircSafe (Circ.fromStream d m) :=
  ⟨h, Nat.le_refl _, h, Nat.zero_le _, Nat.zero_le _, Nat.zero_le _⟩

theorem Circ.set_safe (w : Circ) (idx : Nat) (v : UInt8) :
    ESafe (fun w' => w'.dictSize = w.dictSize ∧ w'.cursor = w.cursor ∧ w'.len = w.len ∧
        w'.memlimit = w.memlimit ∧ idx < w'.buf.size ∧
        (w'.buf.size = w.buf.size ∨ (w'.buf.size = idx + 1 ∧ idx + 1 ≤ w.memlimit)))
      (w.set idx v) := by
  unfold Circ.set
  simp only
  split
  · split
    · simp; omega
    · simp
  · simp; omega

theorem Circ.offsetOf_safe (w : Circ) (dist : Nat) (h : CircSafe w) (hd : dist ≤ w.dictSize) :
    ESafe (fun _ => True) (w.offsetOf dist) := by
  unfold Circ.offsetOf
  rw [subChk_safe (by omega)]
  simp only [ok_bind]
  have : w.dictSize ≠ 0 := by have := h.1; omega
  simp [this]

theorem Circ.lastOr_safe (w : Circ) (b : UInt8) (h : CircSafe w) :
    ESafe (fun _ => True) (w.lastOr b) := by
  unfold Circ.lastOr
  split
  · trivial
  · refine (Circ.offsetOf_safe w 1 h h.1).bind ?_
    intro _ _; trivial

theorem Circ.lastN_safe (w : Circ) (d : Nat) (h : CircSafe w) :
    ESafe (fun _ => True) (w.lastN d) := by
  unfold Circ.lastN
  split
  · simp
  · split
    · simp
    · refine (Circ.offsetOf_safe w d h (by omega)).bind ?_
      intro _ _; trivial

theorem Circ.appendLiteral_safe (w : Circ) (b : UInt8) (h : CircSafe w) :
    MSafe (fun w' => CircSafe w' ∧ w'.dictSize = w.dictSize ∧ w'.memlimit = w.memlimit ∧
        w'.len = w.len + 1) (w.appendLiteral b) := by
  unfold Circ.appendLiteral
  refine MSafe.bind (MSafe.liftE (Circ.set_safe w w.cursor b)) ?_
  rintro w1 ⟨h1, h2, h3, h4, h5, h6⟩
  obtain ⟨g1, g2, g3, g4, g5, g6⟩ := h
  simp only
  split
  · refine MSafe.bind (writeAll_safe _) ?_
    intro _ _
    refine MSafe_pure.mpr ⟨⟨?_, ?_, ?_, ?_, ?_, ?_⟩, h1, h4, ?_⟩ <;> dsimp only <;> omega
  · refine MSafe_pure.mpr ⟨⟨?_, ?_, ?_, ?_, ?_, ?_⟩, h1, h4, ?_⟩ <;> dsimp only <;> omega

theorem Circ.copyLoop_safe : ∀ (n : Nat) (w : Circ) (off : Nat), CircSafe w →
    MSafe CircSafe (Circ.copyLoop n w off)
  | 0, w, off, h => by simp [Circ.copyLoop, h]
  | n+1, w, off, h => by
    simp only [Circ.copyLoop]
    refine MSafe.bind (Circ.appendLiteral_safe w _ h) ?_
    intro w1 ⟨h1, _⟩
    exact Circ.copyLoop_safe n w1 _ h1

theorem Circ.appendLz_safe (w : Circ) (l d : Nat) (h : CircSafe w) :
    MSafe CircSafe (w.appendLz l d) := by
  unfold Circ.appendLz
  split
  · simp
  · split
    · simp
    · refine MSafe.bind (MSafe.liftE (Circ.offsetOf_safe w d h (by omega))) ?_
      intro off _
      exact Circ.copyLoop_safe l w off h

theorem Circ.finish_safe (w : Circ) (h : CircSafe w) : MSafe (fun _ => True) w.finish := by
  unfold Circ.finish
  simp only
  split
  · split
    · exact MSafe.bind (writeAll_safe _) (fun _ _ => flushSink_safe)
    · exact absurd h.2.1 (by assumption)
  · exact flushSink_safe

instance : LzBufSafe Circ where
  inv := CircSafe
  lastOr_safe w b h := Circ.lastOr_safe w b h
  lastN_safe w d h _ := Circ.lastN_safe w d h
  appendLiteral_safe w b h := (Circ.appendLiteral_safe w b h).mono (fun _ h => h.1)
  appendLz_safe w l d h _ := Circ.appendLz_safe w l d h

/-! ## accumulating window -/

theorem Accum.lastOr_safe (w : Accum) (b : UInt8) : ESafe (fun _ => True) (w.lastOr b) := by
  unfold Accum.lastOr
  split
  · trivial
  · rename_i h
    have : w.buf.size - 1 < w.buf.size := by omega
    simp [this]

theorem Accum.lastN_safe (w : Accum) (d : Nat) (hd : 0 < d) : ESafe (fun _ => True) (w.lastN d) := by
  unfold Accum.lastN
  split
  · simp
  · rename_i h
    have : w.buf.size - d < w.buf.size := by omega
    simp [this]

/-- invariant of `LzAccumBuffer`: the buffer holds exactly the bytes produced since the
last `reset` -/
def AccumInv (w : Accum) : Prop := w.buf.size = w.len

theorem AccumInv_fromStream (m : Nat) : AccumInv (Accum.fromStream m) := rfl

theorem AccumInv_appendBytes {w : Accum} (h : AccumInv w) (bs : Bytes) : AccumInv (w.appendBytes bs) := by
  unfold AccumInv Accum.appendBytes at *
  simp; omega

theorem Accum.appendLiteral_safe (w : Accum) (b : UInt8) (h : AccumInv w) :
    MSafe AccumInv (w.appendLiteral b) := by
  unfold Accum.appendLiteral
  simp only
  split
  · simp
  · refine MSafe_pure.mpr ?_
    unfold AccumInv at *
    simp; omega

theorem Accum.copyLoop_safe : ∀ (n : Nat) (buf : Array UInt8) (off : Nat), off < buf.size →
    ESafe (fun b => b.size = buf.size + n) (Accum.copyLoop n buf off)
  | 0, _, _, _ => rfl
  | n+1, buf, off, h => by
    simp only [Accum.copyLoop]
    have : buf[off]? = some buf[off] := by simp [h]
    rw [this]
    refine (Accum.copyLoop_safe n _ _ (by simp; omega)).mono ?_
    intro b hb
    simp at hb
    omega

theorem Accum.appendLz_safe (w : Accum) (l d : Nat) (hd : 0 < d) (h : AccumInv w) :
    MSafe AccumInv (w.appendLz l d) := by
  unfold Accum.appendLz
  split
  · simp
  · refine MSafe.bind (MSafe.liftE (Accum.copyLoop_safe l w.buf _ (by omega))) ?_
    intro b hb
    refine MSafe_pure.mpr ?_
    unfold AccumInv at *
    dsimp only
    omega

theorem Accum.reset_safe (w : Accum) : MSafe AccumInv w.reset := by
  unfold Accum.reset
  refine MSafe.bind (writeAll_safe _) ?_
  intro _ _
  exact MSafe_pure.mpr rfl

theorem Accum.finish_safe (w : Accum) : MSafe (fun _ => True) w.finish := by
  unfold Accum.finish
  exact MSafe.bind (writeAll_safe _) (fun _ _ => flushSink_safe)

instance : LzBufSafe Accum where
  inv := AccumInv
  lastOr_safe w b _ := Accum.lastOr_safe w b
  lastN_safe w d _ hd := Accum.lastN_safe w d hd
  appendLiteral_safe w b h := Accum.appendLiteral_safe w b h
  appendLz_safe w l d h hd := Accum.appendLz_safe w l d hd h

/-- with `dist = 0` the accumulating window's `last_n` indexes `buf[len]`: a panic.
(The decoder never does this: it passes `rep0 + 1`.) -/
example : (Accum.fromStream 10).lastN 0 = .error (.panic "lzbuffer: index out of bounds") := by
  rfl

end Safety
end Lzma
