/-
  C07 — layer 3: every tree of the symbol decoder is `TreeSafe`.
-/
import LzmaProofs.Lemmas.SafetyTree
namespace Lzma
namespace Safety

theorem toNat_le_one (b : Bool) : b.toNat ≤ 1 := by cases b <;> simp

/-! ## generic trees -/

theorem bitTreeAux_safe {R : Nat} (mk : Nat → PIdx) :
    ∀ n k tmp, 2 ^ k ≤ tmp → tmp < 2 ^ (k + 1) → (∀ t, t < 2 ^ (k + n) → IdxValid R (mk t)) →
      TreeSafe R (fun r => 2 ^ (k + n) ≤ r ∧ r < 2 ^ (k + n + 1)) (bitTreeAux mk n tmp) := by
  intro n
  induction n with
  | zero => intro k tmp h1 h2 _; exact ⟨h1, h2⟩
  | succ n ih =>
    intro k tmp h1 h2 hv
    have hle : 2 ^ (k + 1) ≤ 2 ^ (k + (n + 1)) := Nat.pow_le_pow_right (by omega) (by omega)
    refine ⟨hv tmp (by omega), fun b => ?_⟩
    have hb := toNat_le_one b
    have e : k + 1 + n = k + (n + 1) := by omega
    have := ih (k + 1) (2 * tmp + b.toNat) (by rw [Nat.pow_succ]; omega)
      (by rw [Nat.pow_succ 2 (k + 1)]; omega) (by rw [e]; exact hv)
    rw [e] at this
    exact this

theorem bitTree_safe {R : Nat} (mk : Nat → PIdx) (n : Nat)
    (hv : ∀ t, t < 2 ^ n → IdxValid R (mk t)) :
    TreeSafe R (fun r => r < 2 ^ n) (bitTree mk n) := by
  unfold bitTree
  have := bitTreeAux_safe (R := R) mk n 0 1 (by simp) (by simp) (by simpa using hv)
  refine this.bind ?_
  intro tmp ⟨h1, h2⟩
  simp only [Nat.zero_add] at h1 h2
  apply TreeSafe_ofExcept
  rw [Nat.shiftLeft_eq, Nat.one_mul, subChk_safe h1]
  simp only [ESafe_ok]
  rw [Nat.pow_succ] at h2
  omega

theorem revBitTreeAux_safe {R : Nat} (mk : Nat → PIdx) (offset : Nat) :
    ∀ n k i tmp result, 2 ^ k ≤ tmp → tmp < 2 ^ (k + 1) →
      (∀ t, t < 2 ^ (k + n) → IdxValid R (mk (offset + t))) →
      TreeSafe R (fun _ => True) (revBitTreeAux mk offset n i tmp result) := by
  intro n
  induction n with
  | zero => intro k i tmp result _ _ _; trivial
  | succ n ih =>
    intro k i tmp result h1 h2 hv
    have hle : 2 ^ (k + 1) ≤ 2 ^ (k + (n + 1)) := Nat.pow_le_pow_right (by omega) (by omega)
    refine ⟨hv tmp (by omega), fun b => ?_⟩
    have hb := toNat_le_one b
    have e : k + 1 + n = k + (n + 1) := by omega
    exact ih (k + 1) _ (2 * tmp + b.toNat) _ (by rw [Nat.pow_succ]; omega)
      (by rw [Nat.pow_succ 2 (k + 1)]; omega) (by rw [e]; exact hv)

theorem revBitTree_safe {R : Nat} (mk : Nat → PIdx) (offset n : Nat)
    (hv : ∀ t, t < 2 ^ n → IdxValid R (mk (offset + t))) :
    TreeSafe R (fun _ => True) (revBitTree mk offset n) :=
  revBitTreeAux_safe mk offset n 0 0 1 0 (by simp) (by simp) (by simpa using hv)

theorem directBits_safe {R : Nat} : ∀ n acc, TreeSafe R (fun _ => True) (directBits n acc : Coder PIdx Nat)
  | 0, _ => trivial
  | n+1, _ => fun _ => directBits_safe n _

/-! ## length, literal, distance -/

theorem lenTree_safe {R : Nat} (rep : Bool) {ps : Nat} (hps : ps < 16) :
    TreeSafe R (fun _ => True) (lenTree rep ps) := by
  unfold lenTree
  refine ⟨trivial, fun b => ?_⟩
  cases b
  · exact (bitTree_safe (.lenLow rep ps) 3 (fun t ht => ⟨hps, ht⟩)).mono (fun _ _ => trivial)
  · refine ⟨trivial, fun b => ?_⟩
    cases b
    · exact (bitTree_safe (.lenMid rep ps) 3 (fun t ht => ⟨hps, ht⟩)).map (fun _ _ => trivial)
    · exact (bitTree_safe (.lenHigh rep) 8 (fun t ht => ht)).map (fun _ _ => trivial)

theorem litPlain_safe {R row : Nat} (hrow : row < R) :
    ∀ fuel result, 256 ≤ result * 2 ^ fuel →
      TreeSafe R (fun x => 256 ≤ x) (litPlain row fuel result) := by
  intro fuel
  induction fuel with
  | zero =>
    intro result h
    have : ¬ result < 256 := by simpa using h
    simp only [litPlain, this, if_false]
    exact Nat.le_of_not_lt this
  | succ f ih =>
    intro result h
    simp only [litPlain]
    split
    · rename_i hlt
      refine ⟨⟨hrow, by omega⟩, fun b => ih _ ?_⟩
      rw [Nat.pow_succ] at h
      have : result * (2 ^ f * 2) = 2 * result * 2 ^ f := by
        rw [Nat.mul_comm (2 ^ f) 2, ← Nat.mul_assoc, Nat.mul_comm result 2]
      rw [this] at h
      exact Nat.le_trans h (Nat.mul_le_mul_right _ (by omega))
    · rename_i hge
      exact Nat.le_of_not_lt hge

theorem litMatched_safe {R row : Nat} (hrow : row < R) :
    ∀ fuel mb result, 256 ≤ result * 2 ^ fuel →
      TreeSafe R (fun x => 256 ≤ x) (litMatched row fuel mb result) := by
  intro fuel
  induction fuel with
  | zero =>
    intro mb result h
    have : ¬ result < 256 := by simpa using h
    simp only [litMatched, this, if_false]
    exact Nat.le_of_not_lt this
  | succ f ih =>
    intro mb result h
    simp only [litMatched]
    split
    · rename_i hlt
      have hstep : ∀ b : Bool, 256 ≤ (2 * result + b.toNat) * 2 ^ f := by
        intro b
        rw [Nat.pow_succ] at h
        have : result * (2 ^ f * 2) = 2 * result * 2 ^ f := by
          rw [Nat.mul_comm (2 ^ f) 2, ← Nat.mul_assoc, Nat.mul_comm result 2]
        rw [this] at h
        exact Nat.le_trans h (Nat.mul_le_mul_right _ (by omega))
      have hmb : (mb >>> 7) &&& 1 ≤ 1 := Nat.and_le_right
      refine ⟨⟨hrow, ?_⟩, fun b => ?_⟩
      · rw [Nat.shiftLeft_eq]; omega
      · show TreeSafe R _ (if _ then _ else _)
        split
        · exact litPlain_safe hrow _ _ (hstep b)
        · exact ih _ _ (hstep b)
    · rename_i hge
      exact Nat.le_of_not_lt hge

/-- the `posDec` window of slots 4..13 -/
theorem posDec_window : ∀ s, s < 14 → 4 ≤ s →
    s ≤ (2 ^^^ (s &&& 1)) <<< ((s >>> 1) - 1) ∧
      (2 ^^^ (s &&& 1)) <<< ((s >>> 1) - 1) - s + 2 ^ ((s >>> 1) - 1) ≤ 115 := by
  decide

theorem distTree_safe {R : Nat} (length : Nat) : TreeSafe R (fun _ => True) (distTree length) := by
  unfold distTree
  have hls : (if length > 3 then 3 else length) < 4 := by split <;> omega
  refine (bitTree_safe (.posSlot (if length > 3 then 3 else length)) 6 (fun t ht => ⟨hls, ht⟩)).bind ?_
  intro s hs
  split
  · trivial
  · rename_i h4
    simp only
    split
    · rename_i h14
      obtain ⟨w1, w2⟩ := posDec_window s h14 (by omega)
      rw [subChk_safe w1]
      simp only
      refine (revBitTree_safe .posDec _ _ ?_).map (fun _ _ => trivial)
      intro t ht
      show _ < 115
      omega
    · refine (directBits_safe _ _).bind (fun d _ => ?_)
      refine (revBitTree_safe .align 0 4 ?_).map (fun _ _ => trivial)
      intro t ht
      show 0 + t < 16
      omega

/-! ## the symbol tree -/

/-- what `symTree` needs from its context -/
structure CtxOk (R : Nat) (c : Ctx) : Prop where
  state : c.state < 12
  posState : c.posState < 16
  litRow : ESafe (fun row => row < R) c.litRow
  matchByte : ESafe (fun _ => True) c.matchByte

theorem symTree_safe {R : Nat} {c : Ctx} (h : CtxOk R c) : TreeSafe R (fun _ => True) (symTree c) := by
  obtain ⟨hst, hps, hrow, hmb⟩ := h
  unfold symTree
  have hidx : (c.state <<< 4) + c.posState < 192 := by rw [Nat.shiftLeft_eq]; omega
  refine ⟨hidx, fun b => ?_⟩
  cases b
  · -- literal
    simp only [Bool.not_false, if_true]
    cases hr : c.litRow with
    | error e => rw [hr] at hrow; exact hrow
    | ok row =>
      rw [hr] at hrow
      have hrow : row < R := hrow
      simp only
      have ht : TreeSafe R (fun x => 256 ≤ x)
          (if c.state ≥ 7 then
            match c.matchByte with
            | .error e => .fail e
            | .ok mb => litMatched row 8 mb 1
          else litPlain row 8 1) := by
        split
        · cases hm : c.matchByte with
          | error e => rw [hm] at hmb; exact hmb
          | ok mb => exact litMatched_safe hrow 8 mb 1 (by decide)
        · exact litPlain_safe hrow 8 1 (by decide)
      refine ht.bind ?_
      intro result hres
      rw [subChk_safe hres]
      trivial
  · simp only [Bool.not_true, Bool.false_eq_true, if_false]
    refine ⟨hst, fun b => ?_⟩
    cases b
    · simp only [Bool.false_eq_true, if_false]
      refine (lenTree_safe false hps).bind (fun len _ => ?_)
      exact (distTree_safe len).map (fun _ _ => trivial)
    · simp only [if_true]
      refine ⟨hst, fun b => ?_⟩
      cases b
      · simp only [Bool.not_false, if_true]
        refine ⟨hidx, fun b => ?_⟩
        cases b
        · trivial
        · exact (lenTree_safe true hps).map (fun _ _ => trivial)
      · simp only [Bool.not_true, Bool.false_eq_true, if_false]
        refine ⟨hst, fun b => ?_⟩
        cases b
        · exact (lenTree_safe true hps).map (fun _ _ => trivial)
        · refine ⟨hst, fun b => ?_⟩
          cases b
          · exact (lenTree_safe true hps).map (fun _ _ => trivial)
          · exact (lenTree_safe true hps).map (fun _ _ => trivial)

/-- `symTree` starts with a probability bit (so it strictly decreases the measure). -/
theorem symTree_isBit (c : Ctx) : ∃ i k, symTree c = .bit i k := ⟨_, _, rfl⟩

end Safety
end Lzma
