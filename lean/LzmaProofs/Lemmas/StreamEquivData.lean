/-
  C05 — layer D, data phase at the level of `read_data`, `Stream::write` (Data
  state), the re-submitting `feed` loop and `Stream::finish`.
-/
import LzmaProofs.Lemmas.StreamEquivSim
namespace Lzma
namespace StreamEq

open DState Safety

/-! ## decomposing binds relationally (no `match` on big-fuel loops) -/

theorem bind_eq_ok {α β : Type} {m : M α} {f : α → M β} {snk k : Sink} {b : β}
    (h : (m >>= f) snk = (k, .ok b)) : ∃ a k', m snk = (k', .ok a) ∧ f a k' = (k, .ok b) := by
  rw [bind_run] at h
  generalize m snk = res at h
  rcases res with ⟨k', r⟩
  cases r with
  | error e => simp at h
  | ok a => exact ⟨a, k', rfl, h⟩

theorem bind_eq_err {α β : Type} {m : M α} {f : α → M β} {snk k : Sink} {e : Err}
    (h : (m >>= f) snk = (k, .error e)) :
    m snk = (k, .error e) ∨ ∃ a k', m snk = (k', .ok a) ∧ f a k' = (k, .error e) := by
  rw [bind_run] at h
  generalize m snk = res at h
  rcases res with ⟨k', r⟩
  cases r with
  | error e' =>
    simp only [Prod.mk.injEq, Except.error.injEq] at h
    left; rw [h.1, h.2]
  | ok a => exact .inr ⟨a, k', rfl, h⟩

/-! ## `process_mode(Partial)` = the `.stream` loop -/

theorem processMode_stream_ok {s : DState} {w : Circ} {rc : RC} {rd : Rd} {snk k : Sink}
    {x : DState × Circ × RC × Rd}
    (h : processMode .stream s w rc rd snk = (k, .ok x)) :
    processLoop .stream (loopFuel s rd) s w rc rd snk = (k, .ok x) := by
  unfold processMode at h
  obtain ⟨y, k', h1, h2⟩ := bind_eq_ok h
  obtain ⟨s1, w1, rc1, rd1⟩ := y
  rw [h1]
  simp only at h2
  cases hu : s1.unpackedSize with
  | some m =>
    simp only [hu, reduceCtorEq, false_and, if_false, pure_run] at h2
    rw [h2]
  | none =>
    simp only [hu, pure_run] at h2
    rw [h2]

theorem processMode_stream_err {s : DState} {w : Circ} {rc : RC} {rd : Rd} {snk k : Sink} {e : Err}
    (h : processMode .stream s w rc rd snk = (k, .error e)) :
    processLoop .stream (loopFuel s rd) s w rc rd snk = (k, .error e) := by
  unfold processMode at h
  rcases bind_eq_err h with h1 | ⟨y, k', h1, h2⟩
  · exact h1
  · obtain ⟨s1, w1, rc1, rd1⟩ := y
    simp only at h2
    cases hu : s1.unpackedSize with
    | some m => simp [hu, pure_run] at h2
    | none => simp [hu, pure_run] at h2

/-! ## `read_data` -/

/-- invariant of a `RunState` -/
def RInv (rs : RunState) : Prop := Inv rs.decoder rs.output ⟨rs.range, rs.code⟩

/-- one-shot tail from a `RunState` on the remaining input `R` -/
def rfin (rs : RunState) (R : Bytes) : M Unit :=
  fin (clr rs.decoder) rs.output ⟨rs.range, rs.code⟩ R

theorem readData_err (hN : Need20) {rs : RunState} {a : Bytes} {snk k : Sink} {e : Err} (hI : RInv rs)
    (h : Stream.readData rs ⟨a, false⟩ snk = (k, .error e)) :
    ∀ F, IsErr (rfin rs (rs.decoder.partialBuf ++ a ++ F) snk) := by
  unfold Stream.readData at h
  rcases bind_eq_err h with h1 | ⟨y, k', _, h2⟩
  · have h3 := processMode_stream_err h1
    have hs := stream_loop_sim_partial hN _ _ _ _ a snk hI (lmu_lt_loopFuel a hI)
    rw [h3] at hs
    exact hs
  · obtain ⟨s1, w1, rc1, rd1⟩ := y
    simp [pure_run] at h2

theorem readData_ok (hN : Need20) {rs rs' : RunState} {a : Bytes} {rd' : Rd} {snk k : Sink} (hI : RInv rs)
    (h : Stream.readData rs ⟨a, false⟩ snk = (k, .ok (rs', rd'))) :
    rd'.bad = false ∧ RInv rs' ∧ rd'.rem <:+ a ∧
      Tail rs.decoder a rs'.decoder rs'.output rd'.rem ∧
      (rs'.decoder.partialBuf.length < 20 ∨ StopNow rs'.decoder rs'.output) ∧
      ∀ F, Veq (rfin rs (rs.decoder.partialBuf ++ a ++ F) snk)
               (rfin rs' (rs'.decoder.partialBuf ++ rd'.rem ++ F) k) := by
  unfold Stream.readData at h
  obtain ⟨y, k', h1, h2⟩ := bind_eq_ok h
  obtain ⟨s1, w1, rc1, rd1⟩ := y
  simp only [pure_run, Prod.mk.injEq, Except.ok.injEq] at h2
  obtain ⟨rfl, rfl, rfl⟩ := h2
  have h3 := processMode_stream_ok h1
  have hs := stream_loop_sim_partial hN _ _ _ _ a snk hI (lmu_lt_loopFuel a hI)
  rw [h3] at hs
  obtain ⟨g1, g2, _, g4, g5, g6, g7⟩ := hs
  exact ⟨g1, g2, g4, g5, g6, g7⟩

/-! ## `Stream::finish` in Data state: the `.finish` loop started with staged bytes -/

theorem clr_of_nil {s : DState} (h : s.partialBuf = []) : clr s = s := by
  cases s
  simp only [clr] at h ⊢
  subst h
  rfl

theorem finish_buf_sim : ∀ (n : Nat) (s : DState) (w : Circ) (rc : RC) (snk : Sink),
    Inv s w rc → lmu s rc [] < n →
    finK (processLoop .finish n s w rc ⟨[], false⟩ snk) = fin (clr s) w rc s.partialBuf snk := by
  intro n
  induction n with
  | zero => intro s w rc snk _ h; omega
  | succ n ih =>
    intro s w rc snk hI hn
    by_cases hpb : s.partialBuf = []
    · rw [processLoop_eq_PL [] snk hI hn, hpb, clr_of_nil hpb, fin_eq]
    · rw [processLoop_succ]
      have hne : s.partialBuf.isEmpty = false := by cases hp : s.partialBuf <;> simp_all
      cases hs : stopB .finish s w rc [] with
      | true =>
        rw [LB_stop snk hs, finK_ok]
        have : stopB .finish (clr s) w rc s.partialBuf = true := by
          rw [stopB_finish_clr]
          unfold stopB at hs
          cases hu : s.unpackedSize with
          | some m => rw [hu] at hs; exact hs
          | none => rw [hu] at hs; simp [hne] at hs
        rw [fin_stop snk (clr_inv hI) this]
        rfl
      | false =>
        obtain ⟨pb1, a1, hr, hcat, _, _, hI1, hsuf1, _, _, hlen⟩ := readPartial_facts [] hI
        have ha1 : a1 = [] := List.eq_nil_of_length_eq_zero (by have := hsuf1.length_le; simpa using this)
        subst ha1
        have hpb1 : pb1 = s.partialBuf := by simpa using hcat.symm
        subst hpb1
        have hstop : stopB .finish (clr s) w rc s.partialBuf = false := by
          rw [stopB_finish_clr]
          unfold stopB at hs
          cases hu : s.unpackedSize with
          | some m => rw [hu] at hs; exact hs
          | none => simp [hne]
        rw [LB_buf_next snk hs hpb hr (by simp)]
        show finK (pnTail (processLoop .finish n) ⟨[], false⟩ true
          (processNext { s with partialBuf := s.partialBuf } w rc ⟨s.partialBuf, false⟩ snk)) = _
        rw [processNext_pbuf]
        rcases hp : processNext s w rc ⟨s.partialBuf, false⟩ snk with ⟨k, r⟩
        cases r with
        | error e =>
          rw [setPB_err, pnTail_err, finK_err]
          exact (fin_next_err (clr_inv hI) rfl hstop (by rw [processNext_clr, hp, setPB_err])).symm
        | ok y =>
          obtain ⟨st, s', w', rc', rd'⟩ := y
          obtain ⟨hI', hbad, hsuf, hmu, _, _⟩ := processNext_inv hI hp
          obtain ⟨l, _⟩ := rd'
          simp only at hbad hsuf hmu
          subst hbad
          rw [setPB_ok]
          cases st with
          | finished =>
            rw [pnTail_fin_buf, finK_ok]
            exact (fin_next_fin (s' := clr s') (clr_inv hI) rfl hstop
              (by rw [processNext_clr, hp, setPB_ok]; rfl)).symm
          | «continue» =>
            rw [pnTail_cont_buf]
            have hle : l.length ≤ s.partialBuf.length := hsuf.length_le
            have hpl := hI.ds.pbuf
            have hI2 : Inv { s' with partialBuf := l } w' rc' := setpb_inv hI' (by omega)
            have := ih { s' with partialBuf := l } w' rc' k hI2 (by
              simp only [lmu, List.length_nil, Nat.zero_add] at hn ⊢
              generalize 4294967296 = K at *
              omega)
            rw [show finK (processLoop .finish n
                { ({ s' with partialBuf := s.partialBuf } : DState) with partialBuf := l } w' rc' ⟨[], false⟩ k) = _
              from this]
            exact (fin_next_cont (s' := clr s') (clr_inv hI) rfl hstop
              (by rw [processNext_clr, hp, setPB_ok]; rfl)).symm

/-- `process_mode(Finish)` followed by `output.finish()` is `finK` of the loop
(stated for an arbitrary loop computation `m`) -/
theorem pm_finish_generic (m : M (DState × Circ × RC × Rd)) (snk : Sink) :
    (do let (_, out, _, _) ← (do
          let (s, w, rc, rd) ← m
          match s.unpackedSize with
          | some n =>
            if Mode.finish = Mode.finish ∧ n ≠ LzBuf.len w then throwM .lzma else pure (s, w, rc, rd)
          | none => pure (s, w, rc, rd) : M (DState × Circ × RC × Rd))
        Circ.finish out : M Unit) snk = finK (m snk) := by
  rw [bind_run, bind_run]
  generalize m snk = res
  rcases res with ⟨k, r⟩
  cases r with
  | error e => rfl
  | ok y =>
    obtain ⟨s1, w1, rc1, rd1⟩ := y
    simp only [finK_ok, postOf]
    have hl : LzBuf.len w1 = w1.len := rfl
    cases s1.unpackedSize with
    | none => rfl
    | some n =>
      simp only [true_and, hl]
      by_cases hm : n = w1.len
      · simp [hm]
      · simp [hm]

theorem processMode_finish_then {s : DState} {w : Circ} {rc : RC} {rd : Rd} (snk : Sink) :
    (do let (_, out, _, _) ← processMode .finish s w rc rd
        Circ.finish out : M Unit) snk = finK (processLoop .finish (loopFuel s rd) s w rc rd snk) :=
  pm_finish_generic (processLoop .finish (loopFuel s rd) s w rc rd) snk

end StreamEq
end Lzma
