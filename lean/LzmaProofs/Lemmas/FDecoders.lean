/-
  Lemmas for C13 (whole decoders): the reader-generic decoders of
  `LzmaModel/FDecoders.lean` are the model decoders at `ρ := Rd`, and run on
  related readers they produce related results.
-/
import Lean.Elab.Tactic
import LzmaModel.FDecoders
import LzmaProofs.Lemmas.FReader
import LzmaProofs.Lemmas.Monad
namespace Lzma
namespace FD

open Lean Meta Elab Tactic in
/-- delta-unfold every `match` auxiliary definition occurring in the goal (the
generic functions get their own copies of the matchers of the model functions;
the elaborator's `rfl` does not see through two different stuck matchers) -/
elab "delta_matchers" : tactic => do
  let g ← getMainGoal
  let t ← instantiateMVars (← g.getType)
  let env ← getEnv
  let names := t.getUsedConstants.filter fun n =>
    (Lean.Meta.Match.Extension.getMatcherInfo? env n).isSome
  let t' ← Meta.deltaExpand t (fun n => names.contains n)
  let g' ← g.replaceTargetDefEq t'
  replaceMainGoal [g']

/-- `rfl`, if necessary after unfolding the matchers -/
macro "grfl" : tactic => `(tactic| first | rfl | (delta_matchers; rfl))

/-! ## the generic functions at `Rd` are the model functions -/

section atRd
variable {ω : Type} [LzBuf ω]

theorem content_Rd (rd : Rd) : DecSrc.content rd = rd.rem := by grfl
theorem fillBufOk_Rd (rd : Rd) : DecSrc.fillBufOk rd = rd.fillBuf := by grfl
theorem read_Rd (rd : Rd) (n : Nat) : DecSrc.read rd n = rd.readRaw n := by grfl
theorem readExact_Rd (rd : Rd) (n : Nat) : DecSrc.readExact rd n = rd.readExact n := by grfl
theorem readU16BE_Rd (rd : Rd) : DecSrc.readU16BE rd = rd.readU16BE := by grfl
theorem readU32LE_Rd (rd : Rd) : DecSrc.readU32LE rd = rd.readU32LE := by grfl
theorem readU64LE_Rd (rd : Rd) : DecSrc.readU64LE rd = rd.readU64LE := by grfl
theorem readTag_Rd (rd : Rd) (t : Bytes) : DecSrc.readTag rd t = rd.readTag t := by grfl
theorem flushZeroPadding_Rd (rd : Rd) : DecSrc.flushZeroPadding rd = rd.flushZeroPadding := by grfl
theorem take_Rd (rd : Rd) (n : Nat) : DecSrc.take rd n = rd.split n := by grfl
theorem unsplit_Rd (rd i : Rd) (r : Bytes) : DecSrc.unsplit rd i r = rd.unsplit i r := by grfl
theorem readU8_Rd (rd : Rd) : ByteSrc.readU8 rd = rd.readU8 := by grfl
theorem readU32BE_Rd (rd : Rd) : ByteSrc.readU32BE rd = rd.readU32BE := by grfl
theorem isEof_Rd (rd : Rd) : ByteSrc.isEof rd = rd.isEof := by grfl

theorem applySymG_Rd (s : DState) (w : ω) (rc : RC) (rd : Rd) (sym : RawSym) :
    DState.applySymG s w rc rd sym = DState.applySym s w rc rd sym := by
  cases sym <;> grfl

theorem processNextG_Rd (s : DState) (w : ω) (rc : RC) (rd : Rd) :
    DState.processNextG s w rc rd = DState.processNext s w rc rd := by
  unfold DState.processNextG DState.processNext
  simp only [runDecG_Rd, applySymG_Rd]

theorem readPartialInputBufG_Rd (s : DState) (rd : Rd) :
    DState.readPartialInputBufG s rd = DState.readPartialInputBuf s rd := by
  unfold DState.readPartialInputBufG DState.readPartialInputBuf
  rw [read_Rd]
  unfold Rd.readRaw
  by_cases h : DState.MAX_REQUIRED_INPUT - s.partialBuf.length > 0 ∧ rd.rem.isEmpty ∧ rd.bad
  · simp only [h, and_self, if_true]
  · simp only [h, if_false]

theorem processLoopG_Rd (fuel : Nat) (s : DState) (w : ω) (rc : RC) (rd : Rd) :
    DState.processLoopG fuel s w rc rd = DState.processLoop .finish fuel s w rc rd := by
  induction fuel generalizing s w rc rd with
  | zero => grfl
  | succ fuel ih =>
    unfold DState.processLoopG DState.processLoop
    simp only [ih, processNextG_Rd, readPartialInputBufG_Rd, fillBufOk_Rd, RC.isFinishedOkG_Rd,
      reduceCtorEq, false_and, if_false]
    grfl

theorem loopFuelG_Rd (s : DState) (rd : Rd) : DState.loopFuelG s rd = DState.loopFuel s rd := by grfl

theorem processModeG_Rd (s : DState) (w : ω) (rc : RC) (rd : Rd) :
    DState.processModeG s w rc rd = DState.processMode .finish s w rc rd := by
  unfold DState.processModeG DState.processMode
  simp only [processLoopG_Rd, loopFuelG_Rd, true_and]
  grfl

theorem readHeaderG_Rd (rd : Rd) (opts : Options) : readHeaderG rd opts = readHeader rd opts := by grfl

theorem LzmaDecoder.decompressG_Rd (d : LzmaDecoder) (rd : Rd) :
    d.decompressG rd = d.decompress rd := by
  unfold LzmaDecoder.decompressG LzmaDecoder.decompress
  simp only [processModeG_Rd, RC.newG_Rd]
  grfl

theorem lzmaDecompressG_Rd (rd : Rd) (opts : Options) :
    lzmaDecompressG rd opts = lzmaDecompress rd opts := by
  unfold lzmaDecompressG lzmaDecompress
  simp only [LzmaDecoder.decompressG_Rd, readHeaderG_Rd]

theorem parseUncompressedG_Rd (accum : Accum) (rd : Rd) (r : Bool) :
    Lzma2Decoder.parseUncompressedG accum rd r = Lzma2Decoder.parseUncompressed accum rd r := by grfl

theorem parseLzmaG_Rd (d : Lzma2Decoder) (accum : Accum) (rd : Rd) (status : Nat) :
    d.parseLzmaG accum rd status = d.parseLzma accum rd status := by
  unfold Lzma2Decoder.parseLzmaG Lzma2Decoder.parseLzma
  simp only [processModeG_Rd, RC.newG_Rd, RC.isFinishedOkG_Rd]
  grfl

theorem chunkLoopG_Rd (fuel : Nat) (d : Lzma2Decoder) (accum : Accum) (rd : Rd) :
    Lzma2Decoder.chunkLoopG fuel d accum rd = Lzma2Decoder.chunkLoop fuel d accum rd := by
  induction fuel generalizing d accum rd with
  | zero => grfl
  | succ fuel ih =>
    unfold Lzma2Decoder.chunkLoopG Lzma2Decoder.chunkLoop
    simp only [ih, parseLzmaG_Rd, parseUncompressedG_Rd]
    grfl

theorem Lzma2Decoder.decompressG_Rd (d : Lzma2Decoder) (rd : Rd) :
    d.decompressG rd = d.decompress rd := by
  unfold Lzma2Decoder.decompressG Lzma2Decoder.decompress
  simp only [chunkLoopG_Rd]
  grfl

theorem lzma2DecompressG_Rd (rd : Rd) : lzma2DecompressG rd = lzma2Decompress rd := by
  unfold lzma2DecompressG lzma2Decompress
  simp only [Lzma2Decoder.decompressG_Rd]

theorem parseStreamHeaderG_Rd (rd : Rd) : parseStreamHeaderG rd = parseStreamHeader rd := by grfl

theorem getMultibyteAuxG_Rd (fuel i result : Nat) (acc : Bytes) (rd : Rd) :
    getMultibyteAuxG fuel i result acc rd = getMultibyteAux fuel i result acc rd := by
  induction fuel generalizing i result acc rd with
  | zero => grfl
  | succ fuel ih =>
    unfold getMultibyteAuxG getMultibyteAux
    simp only [ih]
    grfl

theorem getMultibyteG_Rd (rd : Rd) : getMultibyteG rd = getMultibyte rd :=
  getMultibyteAuxG_Rd 9 0 0 [] rd

theorem readZeroBytesG_Rd (n : Nat) (acc : Bytes) (rd : Rd) :
    readZeroBytesG n acc rd = readZeroBytes n acc rd := by
  induction n generalizing acc rd with
  | zero => grfl
  | succ n ih =>
    unfold readZeroBytesG readZeroBytes
    simp only [ih]
    grfl

theorem checkRecordsG_Rd (rs : List Record) (dig : Bytes) (rd : Rd) :
    checkRecordsG rs dig rd = checkRecords rs dig rd := by
  induction rs generalizing dig rd with
  | nil => grfl
  | cons r rs ih =>
    unfold checkRecordsG checkRecords
    simp only [ih, getMultibyteG_Rd]

theorem checkIndexG_Rd (start : Nat) (rs : List Record) (rd : Rd) :
    checkIndexG start rs rd = checkIndex start rs rd := by
  unfold checkIndexG checkIndex
  simp only [checkRecordsG_Rd, getMultibyteG_Rd, readZeroBytesG_Rd]
  grfl

theorem readFiltersG_Rd (n hs : Nat) (acc : List Filter) (rd : Rd) :
    readFiltersG n hs acc rd = readFilters n hs acc rd := by
  induction n generalizing acc rd with
  | zero => grfl
  | succ n ih =>
    unfold readFiltersG readFilters
    simp only [ih, getMultibyteG_Rd]
    grfl

theorem readBlockHeaderG_Rd (rd : Rd) (hs : Nat) : readBlockHeaderG rd hs = readBlockHeader rd hs := by
  unfold readBlockHeaderG readBlockHeader
  simp only [readFiltersG_Rd, getMultibyteG_Rd]
  grfl

theorem decodeFilterG_Rd (rd : Rd) (f : Filter) : decodeFilterG rd f = decodeFilter rd f := by
  unfold decodeFilterG decodeFilter
  simp only [Lzma2Decoder.decompressG_Rd]
  grfl

theorem validateBlockCheckG_Rd (rd : Rd) (buf : Bytes) (c : CheckMethod) :
    validateBlockCheckG rd buf c = validateBlockCheck rd buf c := by
  cases c <;> grfl

theorem readBlockG_Rd (start : Nat) (rd : Rd) (check : CheckMethod) (hs : UInt8) :
    readBlockG start rd check hs = readBlock start rd check hs := by
  unfold readBlockG readBlock
  simp only [readBlockHeaderG_Rd, decodeFilterG_Rd, readZeroBytesG_Rd, validateBlockCheckG_Rd]
  grfl

theorem blockLoopG_Rd (check : CheckMethod) (fuel : Nat) (rs : List Record) (rd : Rd) :
    blockLoopG check fuel rs rd = blockLoop check fuel rs rd := by
  induction fuel generalizing rs rd with
  | zero => grfl
  | succ fuel ih =>
    unfold blockLoopG blockLoop
    simp only [ih, readBlockG_Rd, checkIndexG_Rd]
    grfl

theorem xzDecompressG_Rd (rd : Rd) : xzDecompressG rd = xzDecompress rd := by
  unfold xzDecompressG xzDecompress
  simp only [blockLoopG_Rd, parseStreamHeaderG_Rd]
  grfl

end atRd
/-- at the fragmented reader, the generic `get_multibyte` is `FRd.getMultibyte` -/
theorem getMultibyteAuxG_FRd (fuel i result : Nat) (acc : Bytes) (fr : FRd) :
    getMultibyteAuxG fuel i result acc fr = FRd.getMultibyteAux fuel i result acc fr := by
  induction fuel generalizing i result acc fr with
  | zero => rfl
  | succ fuel ih =>
    unfold getMultibyteAuxG FRd.getMultibyteAux
    simp only [ih]
    grfl

theorem getMultibyteG_FRd (fr : FRd) : getMultibyteG fr = fr.getMultibyte :=
  getMultibyteAuxG_FRd 9 0 0 [] fr

/-! ## relating two `M` computations -/

/-- same resulting sink; results related as by `RelE` -/
def RelM (R : α → β → Prop) (x : M α) (y : M β) : Prop :=
  ∀ s, (x s).1 = (y s).1 ∧ RelE R (x s).2 (y s).2

theorem RelM.pure {R : α → β → Prop} {a : α} {b : β} (h : R a b) :
    RelM R (pure a : M α) (pure b : M β) := fun _ => ⟨rfl, h⟩

theorem RelM.throwM {R : α → β → Prop} (e : Err) : RelM R (throwM e : M α) (throwM e : M β) :=
  fun _ => ⟨rfl, rfl⟩

theorem RelM.liftE {R : α → β → Prop} {x : Except Err α} {y : Except Err β} (h : RelE R x y) :
    RelM R (liftE x) (liftE y) := by
  intro s
  cases x <;> cases y <;> first | exact ⟨rfl, h⟩ | exact h.elim

theorem RelM.bind {R : α → β → Prop} {S : γ → δ → Prop} {x : M α} {y : M β}
    {f : α → M γ} {g : β → M δ} (hxy : RelM R x y) (hfg : ∀ a b, R a b → RelM S (f a) (g b)) :
    RelM S (x >>= f) (y >>= g) := by
  intro s
  obtain ⟨h1, h2⟩ := hxy s
  rw [bind_run, bind_run]
  rcases hx : x s with ⟨s1, r1⟩
  rcases hy : y s with ⟨s2, r2⟩
  rw [hx, hy] at h1 h2
  simp only at h1 h2
  subst h1
  cases r1 <;> cases r2
  · exact ⟨rfl, h2⟩
  · exact h2.elim
  · exact h2.elim
  · exact hfg _ _ h2 s1

theorem RelM.throw_bind {S : γ → δ → Prop} (e : Err) {f : α → M γ} {g : β → M δ} :
    RelM S (Lzma.throwM e >>= f) (Lzma.throwM e >>= g) := fun _ => ⟨rfl, rfl⟩

theorem RelM.ite {R : α → β → Prop} {c : Prop} [Decidable c] {x x' : M α} {y y' : M β}
    (ht : RelM R x y) (he : RelM R x' y') : RelM R (if c then x else x') (if c then y else y') := by
  split <;> assumption

theorem RelM.mono {R R' : α → β → Prop} {x : M α} {y : M β} (h : RelM R x y)
    (hR : ∀ a b, R a b → R' a b) : RelM R' x y := fun s => ⟨(h s).1, (h s).2.mono hR⟩

/-- a reader-independent computation is related to itself -/
theorem RelM.refl (x : M α) : RelM (· = ·) x x := fun _ => ⟨rfl, RelE.refl_eq _⟩

theorem RelE.ite {R : α → β → Prop} {c : Prop} [Decidable c] {x x' : Except Err α}
    {y y' : Except Err β} (ht : RelE R x y) (he : RelE R x' y') :
    RelE R (if c then x else x') (if c then y else y') := by
  split <;> assumption

theorem RelE.throw_bind {S : γ → δ → Prop} (e : Err) {f : α → Except Err γ} {g : β → Except Err δ} :
    RelE S ((throw e : Except Err α) >>= f) ((throw e : Except Err β) >>= g) := rfl

/-- a reader-independent computation is related to itself, with what is known about its result -/
theorem RelE.refl_of {P : α → Prop} (x : Except Err α) (h : ∀ a, x = .ok a → P a) :
    RelE (fun a b => a = b ∧ P a) x x := by
  cases x with
  | error e => rfl
  | ok a => exact ⟨rfl, h a rfl⟩

/-- two results related to a common third one are related to each other -/
theorem RelM.join {R : α → γ → Prop} {R' : β → γ → Prop} {T : α → β → Prop}
    {x : M α} {y : M β} {z : M γ}
    (h1 : RelM R x z) (h2 : RelM R' y z) (hT : ∀ a b c, R a c → R' b c → T a b) :
    RelM T x y := fun s =>
  ⟨(h1 s).1.trans (h2 s).1.symm, RelE.join (h1 s).2 (h2 s).2 hT⟩

/-! ## related readers -/

/-- the operations of two readers map `S`-related readers to related results
(`T` relates what `take` leaves behind) -/
structure DecSrcRel {ρ₁ ρ₂ : Type} [ByteSrc ρ₁] [ByteSrc ρ₂] [DecSrc ρ₁] [DecSrc ρ₂]
    (S : ρ₁ → ρ₂ → Prop) (T : DecSrc.Rest ρ₁ → DecSrc.Rest ρ₂ → Prop) : Prop
    extends ByteSrcRel S where
  content : ∀ a b, S a b → DecSrc.content a = DecSrc.content b
  fillBufOk : ∀ a b, S a b → RelE (fun _ _ => True) (DecSrc.fillBufOk a) (DecSrc.fillBufOk b)
  readExact : ∀ a b n, S a b → RelE (RelV S) (DecSrc.readExact a n) (DecSrc.readExact b n)
  readU16BE : ∀ a b, S a b → RelE (RelV S) (DecSrc.readU16BE a) (DecSrc.readU16BE b)
  readU32LE : ∀ a b, S a b → RelE (RelV S) (DecSrc.readU32LE a) (DecSrc.readU32LE b)
  readU64LE : ∀ a b, S a b → RelE (RelV S) (DecSrc.readU64LE a) (DecSrc.readU64LE b)
  readTag : ∀ a b t, S a b → RelE (RelV S) (DecSrc.readTag a t) (DecSrc.readTag b t)
  /-- the verdict always agrees; the remaining readers only when it is `true` -/
  flushZeroPadding : ∀ a b, S a b →
    RelE (fun x y => x.1 = y.1 ∧ (x.1 = true → S x.2 y.2))
      (DecSrc.flushZeroPadding a) (DecSrc.flushZeroPadding b)
  take : ∀ a b n, S a b → S (DecSrc.take a n).1 (DecSrc.take b n).1 ∧
    T (DecSrc.take a n).2 (DecSrc.take b n).2
  unsplit : ∀ a b ia ib ra rb, S a b → S ia ib → T ra rb →
    S (DecSrc.unsplit a ia ra) (DecSrc.unsplit b ib rb)

/-- the fragmented and the flat reader are related readers -/
theorem FRd.decSrcRel :
    DecSrcRel FRd.Sim (fun (ra : List Bytes) (rb : Bytes) => (∀ f ∈ ra, f ≠ []) ∧ ra.flatten = rb) where
  toByteSrcRel := FRd.byteSrcRel
  content := fun _ _ h => h.rem.symm
  fillBufOk := fun a b h => by
    have := FRd.fillBuf_sim h
    show RelE _ (FRd.fillBufOk a) (Rd.fillBuf b)
    unfold FRd.fillBufOk
    revert this
    cases a.fillBuf <;> cases b.fillBuf <;> simp [RelE]
  readExact := fun _ _ n h => FRd.readExact_sim h n
  readU16BE := fun _ _ h => FRd.readU16BE_sim h
  readU32LE := fun _ _ h => FRd.readU32LE_sim h
  readU64LE := fun _ _ h => FRd.readU64LE_sim h
  readTag := fun _ _ t h => FRd.readTag_sim h t
  flushZeroPadding := fun a b h => by
    refine (FRd.flushZeroPadding_sim h).mono ?_
    rintro x y ⟨h1, h2, _, h4, _⟩
    exact ⟨h1, fun ht => ⟨h2, h4 ht⟩⟩
  take := fun a b n h => by
    obtain ⟨h1, h2, h3⟩ := FRd.take_sim h n
    exact ⟨h1, h3, h2⟩
  unsplit := fun a b ia ib ra rb h hi hr => by
    obtain ⟨hr1, hr2⟩ := hr
    subst hr2
    exact FRd.unsplit_sim h hi hr1

/-! ## the decoders on related readers -/

theorem hdrErr_rel {R : α → β → Prop} {x : Except Err α} {y : Except Err β} (h : RelE R x y) :
    RelE R (hdrErr x) (hdrErr y) := by
  cases x <;> cases y <;> first | exact h | exact rfl

theorem lzErr_rel {R : α → β → Prop} {x : Except Err α} {y : Except Err β} (h : RelE R x y) :
    RelE R (lzErr x) (lzErr y) := by
  cases x <;> cases y <;> first | exact h | exact rfl

theorem DState.new_partialBuf {props : Props} {u : Option Nat} {st : DState}
    (h : DState.new props u = .ok st) : st.partialBuf = [] := by
  simp only [DState.new, Props.validate, bind, Except.bind] at h
  split at h
  · cases h
  · cases h; rfl

theorem DState.resetState_partialBuf {s s' : DState} {p : Props}
    (h : s.resetState p = .ok s') : s'.partialBuf = s.partialBuf := by
  simp only [DState.resetState, Props.validate, bind, Except.bind] at h
  split at h
  · cases h
  · cases h; rfl

theorem LzmaDecoder.new_partialBuf {params : LzmaParams} {ml : Option Nat} {dec : LzmaDecoder}
    (h : LzmaDecoder.new params ml = .ok dec) : dec.state.partialBuf = [] := by
  simp only [LzmaDecoder.new, bind, Except.bind] at h
  split at h
  · cases h
  · split at h
    · cases h
    · rename_i st hst
      cases h
      exact DState.new_partialBuf hst

theorem Lzma2Decoder.new_partialBuf {d : Lzma2Decoder} (h : Lzma2Decoder.new = .ok d) :
    d.lzmaState.partialBuf = [] := by
  simp only [Lzma2Decoder.new, bind, Except.bind] at h
  split at h
  · cases h
  · rename_i st hst
    cases h
    exact DState.new_partialBuf hst

section rel
variable {ρ₁ ρ₂ : Type} [ByteSrc ρ₁] [ByteSrc ρ₂] {S : ρ₁ → ρ₂ → Prop}
variable {ω : Type} [LzBuf ω]

/-- same status / state / window; `partial_input_buf` untouched -/
theorem applySymG_rel (hS : ByteSrcRel S) (s : DState) (w : ω) (rc : RC) {a : ρ₁} {b : ρ₂}
    (h : S a b) (sym : RawSym) :
    RelM (fun x y => x = y ∧ x.2.1.partialBuf = s.partialBuf)
      (DState.applySymG s w rc a sym) (DState.applySymG s w rc b sym) := by
  cases sym with
  | lit byte =>
    unfold DState.applySymG
    refine RelM.bind (RelM.refl _) ?_
    rintro w' _ rfl
    exact RelM.pure ⟨rfl, rfl⟩
  | shortRep =>
    unfold DState.applySymG
    refine RelM.bind (RelM.refl _) ?_
    rintro w' _ rfl
    exact RelM.pure ⟨rfl, rfl⟩
  | rep idx len =>
    unfold DState.applySymG
    refine RelM.bind (RelM.refl _) ?_
    rintro w' _ rfl
    refine RelM.pure ⟨rfl, ?_⟩
    dsimp only
    split <;> rfl
  | mtch len r0 =>
    unfold DState.applySymG
    refine RelM.ite ?_ ?_
    · refine RelM.bind (RelM.liftE (RC.isFinishedOkG_rel hS rc h)) ?_
      rintro fin _ rfl
      exact RelM.ite (RelM.pure ⟨rfl, rfl⟩) (RelM.throwM _)
    · refine RelM.bind (RelM.refl _) ?_
      rintro w' _ rfl
      exact RelM.pure ⟨rfl, rfl⟩

/-- result relation of one `process_next` -/
def NextRel (S : ρ₁ → ρ₂ → Prop) (s : DState) (x : DState.Status × DState × ω × RC × ρ₁)
    (y : DState.Status × DState × ω × RC × ρ₂) : Prop :=
  x.1 = y.1 ∧ x.2.1 = y.2.1 ∧ x.2.2.1 = y.2.2.1 ∧ x.2.2.2.1 = y.2.2.2.1 ∧
    S x.2.2.2.2 y.2.2.2.2 ∧ x.2.1.partialBuf = s.partialBuf

theorem processNextG_rel (hS : ByteSrcRel S) (s : DState) (w : ω) (rc : RC) {a : ρ₁} {b : ρ₂}
    (h : S a b) :
    RelM (NextRel S s) (DState.processNextG s w rc a) (DState.processNextG s w rc b) := by
  unfold DState.processNextG
  refine RelM.bind (RelM.liftE (runDecG_rel hS true _ _ rc h)) ?_
  rintro ⟨sym, probs, rc1, a1⟩ ⟨sym', probs', rc1', b1⟩ ⟨e1, e2, e3, h1⟩
  dsimp only at e1 e2 e3 h1 ⊢
  subst e1 e2 e3
  refine RelM.bind (applySymG_rel hS _ w rc1 h1 sym) ?_
  rintro ⟨st, s', w'⟩ _ ⟨rfl, hp⟩
  exact RelM.pure ⟨rfl, rfl, rfl, rfl, h1, hp⟩

variable [DecSrc ρ₁] [DecSrc ρ₂] {T : DecSrc.Rest ρ₁ → DecSrc.Rest ρ₂ → Prop}

/-- result relation of the loop: same state / window / coder, related readers,
and still nothing staged in `partial_input_buf` -/
def LoopRel (S : ρ₁ → ρ₂ → Prop) (x : DState × ω × RC × ρ₁) (y : DState × ω × RC × ρ₂) : Prop :=
  x.1 = y.1 ∧ x.2.1 = y.2.1 ∧ x.2.2.1 = y.2.2.1 ∧ S x.2.2.2 y.2.2.2 ∧ x.1.partialBuf = []

theorem processLoopG_rel (hD : DecSrcRel S T) (fuel : Nat) (s : DState) (hp : s.partialBuf = [])
    (w : ω) (rc : RC) {a : ρ₁} {b : ρ₂} (h : S a b) :
    RelM (LoopRel S) (DState.processLoopG fuel s w rc a) (DState.processLoopG fuel s w rc b) := by
  induction fuel generalizing s w rc a b with
  | zero => exact RelM.throwM _
  | succ fuel ih =>
    unfold DState.processLoopG
    refine RelM.bind (R := (· = ·)) (RelM.liftE ?_) ?_
    · cases s.unpackedSize with
      | some n => exact RelE.refl_eq _
      | none =>
        refine RelE.bind (RC.isFinishedOkG_rel hD.toByteSrcRel rc h) ?_
        rintro f _ rfl
        exact rfl
    · rintro stop _ rfl
      refine RelM.ite (RelM.pure ⟨rfl, rfl, rfl, h, hp⟩) ?_
      simp only [hp, List.isEmpty_nil, Bool.not_true, Bool.false_eq_true, if_false]
      refine RelM.bind (RelM.liftE (hD.fillBufOk _ _ h)) ?_
      rintro _ _ _
      refine RelM.bind (processNextG_rel hD.toByteSrcRel s w rc h) ?_
      rintro ⟨st, s', w', rc', a'⟩ ⟨st', s'', w'', rc'', b'⟩ ⟨e1, e2, e3, e4, h', hp'⟩
      dsimp only at e1 e2 e3 e4 h' hp' ⊢
      subst e1 e2 e3 e4
      exact RelM.ite (RelM.pure ⟨rfl, rfl, rfl, h', hp'.trans hp⟩) (ih _ (hp'.trans hp) _ _ h')

theorem loopFuelG_rel (hD : DecSrcRel S T) (s : DState) {a : ρ₁} {b : ρ₂} (h : S a b) :
    DState.loopFuelG s a = DState.loopFuelG s b := by
  unfold DState.loopFuelG
  rw [hD.content _ _ h]

theorem processModeG_rel (hD : DecSrcRel S T) (s : DState) (hp : s.partialBuf = [])
    (w : ω) (rc : RC) {a : ρ₁} {b : ρ₂} (h : S a b) :
    RelM (LoopRel S) (DState.processModeG s w rc a) (DState.processModeG s w rc b) := by
  unfold DState.processModeG
  rw [loopFuelG_rel hD s h]
  refine RelM.bind (processLoopG_rel hD _ s hp w rc h) ?_
  rintro ⟨s', w', rc', a'⟩ ⟨s'', w'', rc'', b'⟩ ⟨e1, e2, e3, h', hp'⟩
  dsimp only at e1 e2 e3 h' hp' ⊢
  subst e1 e2 e3
  cases s'.unpackedSize with
  | none => exact RelM.pure ⟨rfl, rfl, rfl, h', hp'⟩
  | some n => exact RelM.ite (RelM.throwM _) (RelM.pure ⟨rfl, rfl, rfl, h', hp'⟩)

/-! ### `.lzma` -/

theorem readHeaderG_rel (hD : DecSrcRel S T) (opts : Options) {a : ρ₁} {b : ρ₂} (h : S a b) :
    RelE (RelV S) (readHeaderG a opts) (readHeaderG b opts) := by
  unfold readHeaderG
  refine RelE.bind (hdrErr_rel (hD.readU8 _ _ h)) ?_
  rintro ⟨p, a1⟩ ⟨_, b1⟩ ⟨rfl, h1⟩
  refine RelE.ite (RelE.throw_bind _) ?_
  refine RelE.bind (hdrErr_rel (hD.readU32LE _ _ h1)) ?_
  rintro ⟨dp, a2⟩ ⟨_, b2⟩ ⟨rfl, h2⟩
  cases opts.unpackedSize with
  | readFromHeader =>
    refine RelE.bind (hdrErr_rel (hD.readU64LE _ _ h2)) ?_
    rintro ⟨u, a3⟩ ⟨_, b3⟩ ⟨rfl, h3⟩
    exact ⟨rfl, h3⟩
  | readHeaderButUseProvided x =>
    refine RelE.bind (hdrErr_rel (hD.readU64LE _ _ h2)) ?_
    rintro ⟨u, a3⟩ ⟨_, b3⟩ ⟨_, h3⟩
    exact ⟨rfl, h3⟩
  | useProvided x => exact ⟨rfl, h2⟩

theorem LzmaDecoder.decompressG_rel (hD : DecSrcRel S T) (d : LzmaDecoder)
    (hp : d.state.partialBuf = []) {a : ρ₁} {b : ρ₂} (h : S a b) :
    RelM (RelV S) (d.decompressG a) (d.decompressG b) := by
  unfold LzmaDecoder.decompressG
  have hn := RC.newG_rel hD.toByteSrcRel h
  refine RelM.bind (R := RelV S) (RelM.liftE ?_) ?_
  · revert hn
    cases RC.newG a <;> cases RC.newG b <;> intro hn <;> first | exact hn | exact rfl
  · rintro ⟨rc, a1⟩ ⟨rc', b1⟩ ⟨e1, h1⟩
    dsimp only at e1 h1 ⊢
    subst e1
    refine RelM.bind (processModeG_rel hD d.state hp _ rc h1) ?_
    rintro ⟨s', w', rc', a'⟩ ⟨s'', w'', rc'', b'⟩ ⟨e1, e2, e3, h', hp'⟩
    dsimp only at e1 e2 e3 h' hp' ⊢
    subst e1 e2 e3
    refine RelM.bind (RelM.refl _) ?_
    rintro _ _ _
    exact RelM.pure ⟨rfl, h'⟩

theorem lzmaDecompressG_rel (hD : DecSrcRel S T) (opts : Options) {a : ρ₁} {b : ρ₂} (h : S a b) :
    RelM S (lzmaDecompressG a opts) (lzmaDecompressG b opts) := by
  unfold lzmaDecompressG
  refine RelM.bind (RelM.liftE (readHeaderG_rel hD opts h)) ?_
  rintro ⟨params, a1⟩ ⟨params', b1⟩ ⟨e1, h1⟩
  dsimp only at e1 h1 ⊢
  subst e1
  refine RelM.bind (RelM.liftE (RelE.refl_of _ fun d hd => LzmaDecoder.new_partialBuf hd)) ?_
  rintro dec _ ⟨rfl, hp⟩
  refine RelM.bind (LzmaDecoder.decompressG_rel hD dec hp h1) ?_
  rintro ⟨_, a2⟩ ⟨_, b2⟩ ⟨_, h2⟩
  exact RelM.pure h2

/-! ### LZMA2 -/

theorem parseUncompressedG_rel (hD : DecSrcRel S T) (accum : Accum) (r : Bool) {a : ρ₁} {b : ρ₂}
    (h : S a b) :
    RelM (RelV S) (Lzma2Decoder.parseUncompressedG accum a r)
      (Lzma2Decoder.parseUncompressedG accum b r) := by
  unfold Lzma2Decoder.parseUncompressedG
  refine RelM.bind (RelM.liftE (lzErr_rel (hD.readU16BE _ _ h))) ?_
  rintro ⟨u, a1⟩ ⟨_, b1⟩ ⟨rfl, h1⟩
  -- the `do` notation copies the rest into both branches of `if reset_dict`
  refine RelM.ite (RelM.bind (RelM.refl _) ?_) (RelM.bind (RelM.pure rfl) ?_) <;>
  ( rintro acc _ rfl
    refine RelM.bind (RelM.liftE (lzErr_rel (hD.readExact _ _ _ h1))) ?_
    rintro ⟨buf, a2⟩ ⟨_, b2⟩ ⟨rfl, h2⟩
    exact RelM.pure ⟨rfl, h2⟩ )

/-- result relation of a chunk: same decoder / window, related readers, and
still nothing staged in `partial_input_buf` -/
def ChunkRel (S : ρ₁ → ρ₂ → Prop) (x : Lzma2Decoder × Accum × ρ₁) (y : Lzma2Decoder × Accum × ρ₂) :
    Prop :=
  x.1 = y.1 ∧ x.2.1 = y.2.1 ∧ S x.2.2 y.2.2 ∧ x.1.lzmaState.partialBuf = []

/-- same decoder state (nothing staged), related readers -/
def StRel (S : ρ₁ → ρ₂ → Prop) (x : DState × ρ₁) (y : DState × ρ₂) : Prop :=
  x.1 = y.1 ∧ S x.2 y.2 ∧ x.1.partialBuf = []

set_option hygiene false in
/-- the part of `parse_lzma` from `set_unpacked_size` on (the `do` notation copies it
into every branch of the preceding `if`s) -/
local macro "parse_lzma_payload" : tactic => `(tactic| (
  rintro ⟨st, a4⟩ ⟨_, b4⟩ ⟨rfl, h4, hst⟩
  dsimp only at hst ⊢
  obtain ⟨ht1, ht2⟩ := hD.take _ _ (pk + 1) h4
  revert ht1 ht2
  rcases DecSrc.take a4 (pk + 1) with ⟨ta, ra⟩
  rcases DecSrc.take b4 (pk + 1) with ⟨tb, rb⟩
  intro ht1 ht2
  refine RelM.bind (RelM.liftE (lzErr_rel (RC.newG_rel hD.toByteSrcRel ht1))) ?_
  rintro ⟨rc, ta1⟩ ⟨_, tb1⟩ ⟨rfl, h5⟩
  refine RelM.bind (processModeG_rel hD _ (by exact hst) _ rc h5) ?_
  rintro ⟨s', w', rc', ta2⟩ ⟨_, _, _, tb2⟩ ⟨rfl, rfl, rfl, h6, hp'⟩
  refine RelM.bind (RelM.liftE (RC.isFinishedOkG_rel hD.toByteSrcRel rc' h6)) ?_
  rintro fin _ rfl
  refine RelM.ite (RelM.throw_bind _) ?_
  exact RelM.pure ⟨rfl, rfl, hD.unsplit _ _ _ _ _ _ h4 h6 ht2, hp'⟩))

set_option hygiene false in
/-- the part of `parse_lzma` from `reset_state` on -/
local macro "parse_lzma_reset" : tactic => `(tactic| (
  rintro ⟨np, a3⟩ ⟨_, b3⟩ ⟨rfl, h3⟩
  refine RelM.bind (RelM.liftE (RelE.refl_of _ fun s' hs' =>
    (DState.resetState_partialBuf hs').trans hp)) ?_
  rintro st0 _ ⟨rfl, hst0⟩
  refine RelM.bind (RelM.pure (R := StRel S) ⟨rfl, h3, hst0⟩) ?_
  parse_lzma_payload))

theorem parseLzmaG_rel (hD : DecSrcRel S T) (d : Lzma2Decoder) (hp : d.lzmaState.partialBuf = [])
    (accum : Accum) (status : Nat) {a : ρ₁} {b : ρ₂} (h : S a b) :
    RelM (ChunkRel S) (d.parseLzmaG accum a status) (d.parseLzmaG accum b status) := by
  unfold Lzma2Decoder.parseLzmaG
  refine RelM.ite (RelM.throw_bind _) ?_
  refine RelM.bind (RelM.liftE (lzErr_rel (hD.readU16BE _ _ h))) ?_
  rintro ⟨u, a1⟩ ⟨_, b1⟩ ⟨rfl, h1⟩
  refine RelM.bind (RelM.liftE (lzErr_rel (hD.readU16BE _ _ h1))) ?_
  rintro ⟨pk, a2⟩ ⟨_, b2⟩ ⟨rfl, h2⟩
  refine RelM.ite (RelM.bind (RelM.refl _) ?_) (RelM.bind (RelM.pure rfl) ?_) <;>
  ( rintro acc _ rfl
    refine RelM.ite (RelM.ite ?_ ?_) ?_
    · refine RelM.bind (RelM.liftE (lzErr_rel (hD.readU8 _ _ h2))) ?_
      rintro ⟨pb, a3⟩ ⟨_, b3⟩ ⟨rfl, h3⟩
      refine RelM.ite (RelM.throw_bind _) (RelM.ite (RelM.throw_bind _) ?_)
      refine RelM.bind (RelM.pure (R := RelV S) ⟨rfl, h3⟩) ?_
      parse_lzma_reset
    · refine RelM.bind (RelM.pure (R := RelV S) ⟨rfl, h2⟩) ?_
      parse_lzma_reset
    · refine RelM.bind (RelM.pure (R := StRel S) ⟨rfl, h2, hp⟩) ?_
      parse_lzma_payload )

theorem chunkLoopG_rel (hD : DecSrcRel S T) (fuel : Nat) (d : Lzma2Decoder)
    (hp : d.lzmaState.partialBuf = []) (accum : Accum) {a : ρ₁} {b : ρ₂} (h : S a b) :
    RelM (ChunkRel S) (Lzma2Decoder.chunkLoopG fuel d accum a)
      (Lzma2Decoder.chunkLoopG fuel d accum b) := by
  induction fuel generalizing d accum a b with
  | zero => exact RelM.throwM _
  | succ fuel ih =>
    unfold Lzma2Decoder.chunkLoopG
    refine RelM.bind (RelM.liftE (lzErr_rel (hD.readU8 _ _ h))) ?_
    rintro ⟨st, a1⟩ ⟨st', b1⟩ ⟨e1, h1⟩
    dsimp only at e1 h1 ⊢
    subst e1
    refine RelM.ite (RelM.pure ⟨rfl, rfl, h1, hp⟩) ?_
    refine RelM.ite ?_ (RelM.ite ?_ ?_)
    · refine RelM.bind (parseUncompressedG_rel hD accum true h1) ?_
      rintro ⟨acc, a2⟩ ⟨acc', b2⟩ ⟨e2, h2⟩
      dsimp only at e2 h2 ⊢
      subst e2
      exact ih d hp acc h2
    · refine RelM.bind (parseUncompressedG_rel hD accum false h1) ?_
      rintro ⟨acc, a2⟩ ⟨acc', b2⟩ ⟨e2, h2⟩
      dsimp only at e2 h2 ⊢
      subst e2
      exact ih d hp acc h2
    · refine RelM.bind (parseLzmaG_rel hD d hp accum _ h1) ?_
      rintro ⟨d', acc, a2⟩ ⟨d'', acc', b2⟩ ⟨e2, e3, h2, hp'⟩
      dsimp only at e2 e3 h2 hp' ⊢
      subst e2 e3
      exact ih d' hp' acc h2

theorem Lzma2Decoder.decompressG_rel (hD : DecSrcRel S T) (d : Lzma2Decoder)
    (hp : d.lzmaState.partialBuf = []) {a : ρ₁} {b : ρ₂} (h : S a b) :
    RelM (RelV S) (d.decompressG a) (d.decompressG b) := by
  unfold Lzma2Decoder.decompressG
  rw [hD.content _ _ h]
  refine RelM.bind (chunkLoopG_rel hD _ d hp _ h) ?_
  rintro ⟨d', acc, a2⟩ ⟨d'', acc', b2⟩ ⟨e2, e3, h2, hp'⟩
  dsimp only at e2 e3 h2 hp' ⊢
  subst e2 e3
  refine RelM.bind (RelM.refl _) ?_
  rintro _ _ _
  exact RelM.pure ⟨rfl, h2⟩

theorem lzma2DecompressG_rel (hD : DecSrcRel S T) {a : ρ₁} {b : ρ₂} (h : S a b) :
    RelM S (lzma2DecompressG a) (lzma2DecompressG b) := by
  unfold lzma2DecompressG
  refine RelM.bind (RelM.liftE (RelE.refl_of _ fun d hd => Lzma2Decoder.new_partialBuf hd)) ?_
  rintro dec _ ⟨rfl, hp⟩
  refine RelM.bind (Lzma2Decoder.decompressG_rel hD dec hp h) ?_
  rintro ⟨_, a2⟩ ⟨_, b2⟩ ⟨_, h2⟩
  exact RelM.pure h2

/-! ### XZ -/

theorem parseStreamHeaderG_rel (hD : DecSrcRel S T) {a : ρ₁} {b : ρ₂} (h : S a b) :
    RelE (RelV S) (parseStreamHeaderG a) (parseStreamHeaderG b) := by
  unfold parseStreamHeaderG
  refine RelE.bind (hD.readTag _ _ _ h) ?_
  rintro ⟨ok, a1⟩ ⟨_, b1⟩ ⟨rfl, h1⟩
  refine RelE.ite (RelE.throw_bind _) ?_
  refine RelE.bind (hD.readExact _ _ _ h1) ?_
  rintro ⟨fb, a2⟩ ⟨_, b2⟩ ⟨rfl, h2⟩
  refine RelE.bind (hD.readU32LE _ _ h2) ?_
  rintro ⟨crc, a3⟩ ⟨_, b3⟩ ⟨rfl, h3⟩
  refine RelE.ite (RelE.throw_bind _) ?_
  refine RelE.bind (RelE.refl_eq _) ?_
  rintro check _ rfl
  exact ⟨rfl, h3⟩

omit [DecSrc ρ₁] [DecSrc ρ₂] in
theorem getMultibyteAuxG_rel (hS : ByteSrcRel S) (fuel i result : Nat) (acc : Bytes)
    {a : ρ₁} {b : ρ₂} (h : S a b) :
    RelE (RelV (RelV S)) (getMultibyteAuxG fuel i result acc a)
      (getMultibyteAuxG fuel i result acc b) := by
  induction fuel generalizing i result acc a b with
  | zero => exact rfl
  | succ fuel ih =>
    unfold getMultibyteAuxG
    refine RelE.bind (hS.readU8 _ _ h) ?_
    rintro ⟨byte, a1⟩ ⟨_, b1⟩ ⟨rfl, h1⟩
    exact RelE.ite ⟨rfl, rfl, h1⟩ (ih _ _ _ h1)

omit [DecSrc ρ₁] [DecSrc ρ₂] in
theorem getMultibyteG_rel (hS : ByteSrcRel S) {a : ρ₁} {b : ρ₂} (h : S a b) :
    RelE (RelV (RelV S)) (getMultibyteG a) (getMultibyteG b) :=
  getMultibyteAuxG_rel hS 9 0 0 [] h

omit [DecSrc ρ₁] [DecSrc ρ₂] in
theorem readZeroBytesG_rel (hS : ByteSrcRel S) (n : Nat) (acc : Bytes) {a : ρ₁} {b : ρ₂}
    (h : S a b) :
    RelE (RelV S) (readZeroBytesG n acc a) (readZeroBytesG n acc b) := by
  induction n generalizing acc a b with
  | zero => exact ⟨rfl, h⟩
  | succ n ih =>
    unfold readZeroBytesG
    refine RelE.bind (hS.readU8 _ _ h) ?_
    rintro ⟨byte, a1⟩ ⟨_, b1⟩ ⟨rfl, h1⟩
    exact RelE.ite (RelE.throw_bind _) (ih _ h1)

omit [DecSrc ρ₁] [DecSrc ρ₂] in
theorem checkRecordsG_rel (hS : ByteSrcRel S) (rs : List Record) (dig : Bytes) {a : ρ₁} {b : ρ₂}
    (h : S a b) :
    RelE (RelV S) (checkRecordsG rs dig a) (checkRecordsG rs dig b) := by
  induction rs generalizing dig a b with
  | nil => exact ⟨rfl, h⟩
  | cons r rs ih =>
    unfold checkRecordsG
    refine RelE.bind (getMultibyteG_rel hS h) ?_
    rintro ⟨v1, bs1, a1⟩ ⟨_, _, b1⟩ ⟨rfl, rfl, h1⟩
    refine RelE.ite (RelE.throw_bind _) ?_
    refine RelE.bind (getMultibyteG_rel hS h1) ?_
    rintro ⟨v2, bs2, a2⟩ ⟨_, _, b2⟩ ⟨rfl, rfl, h2⟩
    exact RelE.ite (RelE.throw_bind _) (ih _ h2)

theorem checkIndexG_rel (hD : DecSrcRel S T) (start : Nat) (rs : List Record) {a : ρ₁} {b : ρ₂}
    (h : S a b) :
    RelE S (checkIndexG start rs a) (checkIndexG start rs b) := by
  unfold checkIndexG
  refine RelE.bind (getMultibyteG_rel hD.toByteSrcRel h) ?_
  rintro ⟨n, bs, a1⟩ ⟨_, _, b1⟩ ⟨rfl, rfl, h1⟩
  refine RelE.ite (RelE.throw_bind _) ?_
  refine RelE.bind (checkRecordsG_rel hD.toByteSrcRel rs _ h1) ?_
  rintro ⟨dig, a2⟩ ⟨_, b2⟩ ⟨rfl, h2⟩
  dsimp only
  rw [hD.content _ _ h2]
  refine RelE.bind (readZeroBytesG_rel hD.toByteSrcRel _ _ h2) ?_
  rintro ⟨pad, a3⟩ ⟨_, b3⟩ ⟨rfl, h3⟩
  refine RelE.bind (hD.readU32LE _ _ h3) ?_
  rintro ⟨crc, a4⟩ ⟨_, b4⟩ ⟨rfl, h4⟩
  exact RelE.ite (RelE.throw_bind _) h4

theorem readFiltersG_rel (hD : DecSrcRel S T) (n hs : Nat) (acc : List Filter) {a : ρ₁} {b : ρ₂}
    (h : S a b) :
    RelE (RelV S) (readFiltersG n hs acc a) (readFiltersG n hs acc b) := by
  induction n generalizing acc a b with
  | zero => exact ⟨rfl, h⟩
  | succ n ih =>
    unfold readFiltersG
    refine RelE.bind (getMultibyteG_rel hD.toByteSrcRel h) ?_
    rintro ⟨id, bs1, a1⟩ ⟨_, _, b1⟩ ⟨rfl, rfl, h1⟩
    refine RelE.ite (RelE.throw_bind _) ?_
    refine RelE.bind (getMultibyteG_rel hD.toByteSrcRel h1) ?_
    rintro ⟨sz, bs2, a2⟩ ⟨_, _, b2⟩ ⟨rfl, rfl, h2⟩
    refine RelE.ite (RelE.throw_bind _) ?_
    dsimp only
    have hr := hD.readExact _ _ sz h2
    revert hr
    rcases DecSrc.readExact a2 sz with e | ⟨buf, a3⟩ <;>
      rcases DecSrc.readExact b2 sz with e' | ⟨buf', b3⟩ <;> intro hr
    · exact rfl
    · exact hr.elim
    · exact hr.elim
    · obtain ⟨rfl, h3⟩ := hr
      exact ih _ h3

set_option hygiene false in
/-- the part of `read_block_header` from the filter list on -/
local macro "block_header_filters" : tactic => `(tactic| (
  rintro ⟨us, a3⟩ ⟨_, b3⟩ ⟨rfl, h3⟩
  refine RelE.bind (readFiltersG_rel hD _ _ _ h3) ?_
  rintro ⟨fl, a4⟩ ⟨_, b4⟩ ⟨rfl, h4⟩
  refine RelE.bind (hD.flushZeroPadding _ _ h4) ?_
  rintro ⟨ok, a5⟩ ⟨_, b5⟩ ⟨rfl, h5⟩
  cases ok
  · exact rfl
  · exact ⟨rfl, h5 rfl⟩))

set_option hygiene false in
/-- the part of `read_block_header` from the unpacked-size field on -/
local macro "block_header_unpacked" : tactic => `(tactic| (
  rintro ⟨ps, a2⟩ ⟨_, b2⟩ ⟨rfl, h2⟩
  refine RelE.ite ?_ ?_
  · refine RelE.bind (getMultibyteG_rel hD.toByteSrcRel h2) ?_
    rintro ⟨v, bs, a3⟩ ⟨_, _, b3⟩ ⟨rfl, rfl, h3⟩
    refine RelE.bind (R := RelV S) (x := pure _) (y := pure _) ⟨rfl, h3⟩ ?_
    block_header_filters
  · refine RelE.bind (R := RelV S) (x := pure _) (y := pure _) ⟨rfl, h2⟩ ?_
    block_header_filters))

theorem readBlockHeaderG_rel (hD : DecSrcRel S T) (hs : Nat) {a : ρ₁} {b : ρ₂} (h : S a b) :
    RelE (RelV S) (readBlockHeaderG a hs) (readBlockHeaderG b hs) := by
  unfold readBlockHeaderG
  refine RelE.bind (hD.readU8 _ _ h) ?_
  rintro ⟨flags, a1⟩ ⟨_, b1⟩ ⟨rfl, h1⟩
  refine RelE.ite (RelE.throw_bind _) ?_
  refine RelE.ite ?_ ?_
  · refine RelE.bind (getMultibyteG_rel hD.toByteSrcRel h1) ?_
    rintro ⟨v, bs, a2⟩ ⟨_, _, b2⟩ ⟨rfl, rfl, h2⟩
    refine RelE.bind (R := RelV S) (x := pure _) (y := pure _) ⟨rfl, h2⟩ ?_
    block_header_unpacked
  · refine RelE.bind (R := RelV S) (x := pure _) (y := pure _) ⟨rfl, h1⟩ ?_
    block_header_unpacked

theorem decodeFilterG_rel (hD : DecSrcRel S T) (f : Filter) {a : ρ₁} {b : ρ₂} (h : S a b) :
    RelE (RelV S) (decodeFilterG a f) (decodeFilterG b f) := by
  unfold decodeFilterG
  refine RelE.ite (RelE.throw_bind _) ?_
  refine RelE.bind (RelE.refl_of _ fun d hd => Lzma2Decoder.new_partialBuf hd) ?_
  rintro d _ ⟨rfl, hp⟩
  obtain ⟨hs, hr⟩ := Lzma2Decoder.decompressG_rel hD d hp h {}
  revert hs hr
  rcases d.decompressG a {} with ⟨s1, e | ⟨d1, a1⟩⟩ <;>
    rcases d.decompressG b {} with ⟨s2, e' | ⟨d2, b1⟩⟩ <;> intro hs hr
  · exact hr
  · exact hr.elim
  · exact hr.elim
  · dsimp only at hs
    subst hs
    exact ⟨rfl, hr.2⟩

theorem validateBlockCheckG_rel (hD : DecSrcRel S T) (buf : Bytes) (c : CheckMethod)
    {a : ρ₁} {b : ρ₂} (h : S a b) :
    RelE S (validateBlockCheckG a buf c) (validateBlockCheckG b buf c) := by
  cases c with
  | none => exact h
  | crc32 =>
    unfold validateBlockCheckG
    refine RelE.bind (hD.readU32LE _ _ h) ?_
    rintro ⟨crc, a1⟩ ⟨_, b1⟩ ⟨rfl, h1⟩
    exact RelE.ite (RelE.throw_bind _) h1
  | crc64 =>
    unfold validateBlockCheckG
    refine RelE.bind (hD.readU64LE _ _ h) ?_
    rintro ⟨crc, a1⟩ ⟨_, b1⟩ ⟨rfl, h1⟩
    exact RelE.ite (RelE.throw_bind _) h1
  | sha256 => exact rfl

set_option hygiene false in
/-- the part of `read_block` after the unpacked-size check -/
local macro "read_block_tail" : tactic => `(tactic| (
  try dsimp only
  rw [hD.content _ _ h3]
  refine RelM.bind (RelM.liftE (readZeroBytesG_rel hD.toByteSrcRel _ _ h3)) ?_
  rintro ⟨_, a4⟩ ⟨_, b4⟩ ⟨_, h4⟩
  refine RelM.bind (RelM.liftE (validateBlockCheckG_rel hD tmp check h4)) ?_
  rintro a5 b5 h5
  refine RelM.bind (RelM.refl _) ?_
  rintro _ _ _
  try dsimp only
  rw [hD.content _ _ h5]
  refine RelM.bind (RelM.liftE (RelE.refl_eq _)) ?_
  rintro unp _ rfl
  exact RelM.pure ⟨rfl, h5⟩))

theorem readBlockG_rel (hD : DecSrcRel S T) (start : Nat) (check : CheckMethod) (hsb : UInt8)
    {a : ρ₁} {b : ρ₂} (h : S a b) :
    RelM (RelV S) (readBlockG start a check hsb) (readBlockG start b check hsb) := by
  unfold readBlockG
  refine RelM.bind (RelM.liftE (RelE.refl_eq _)) ?_
  rintro hsz _ rfl
  obtain ⟨ht1, ht2⟩ := hD.take _ _ hsz h
  revert ht1 ht2
  rcases DecSrc.take a hsz with ⟨ta, ra⟩
  rcases DecSrc.take b hsz with ⟨tb, rb⟩
  intro ht1 ht2
  dsimp only at ht1 ht2 ⊢
  rw [hD.content _ _ ht1]
  refine RelM.bind (RelM.liftE (readBlockHeaderG_rel hD hsz ht1)) ?_
  rintro ⟨bh, ta1⟩ ⟨_, tb1⟩ ⟨rfl, h1⟩
  refine RelM.bind (RelM.liftE (hD.readU32LE _ _ (hD.unsplit _ _ _ _ _ _ h h1 ht2))) ?_
  rintro ⟨crc, a2⟩ ⟨_, b2⟩ ⟨rfl, h2⟩
  dsimp only at h2
  refine RelM.ite (RelM.throw_bind _) ?_
  refine RelM.bind (R := RelV S) (RelM.liftE ?_) ?_
  · cases bh.filters with
    | nil => exact ⟨rfl, h2⟩
    | cons f fs =>
      try dsimp only
      rw [hD.content _ _ h2]
      refine RelE.bind (decodeFilterG_rel hD f h2) ?_
      rintro ⟨buf, a3⟩ ⟨_, b3⟩ ⟨rfl, h3⟩
      dsimp only at h3 ⊢
      rw [hD.content _ _ h3]
      have tail : RelE (RelV S) (laterFilters fs buf >>= fun buf => pure (buf, a3))
          (laterFilters fs buf >>= fun buf => pure (buf, b3)) := by
        refine RelE.bind (RelE.refl_eq _) ?_
        rintro x _ rfl
        exact ⟨rfl, h3⟩
      cases bh.packedSize with
      | none => exact tail
      | some e => exact RelE.ite (RelE.throw_bind _) tail
  · rintro ⟨tmp, a3⟩ ⟨_, b3⟩ ⟨rfl, h3⟩
    dsimp only at h3
    cases bh.unpackedSize with
    | none => read_block_tail
    | some e =>
      refine RelM.ite (RelM.throw_bind _) ?_
      read_block_tail

theorem blockLoopG_rel (hD : DecSrcRel S T) (check : CheckMethod) (fuel : Nat) (rs : List Record)
    {a : ρ₁} {b : ρ₂} (h : S a b) :
    RelM (RelV S) (blockLoopG check fuel rs a) (blockLoopG check fuel rs b) := by
  induction fuel generalizing rs a b with
  | zero => exact RelM.throwM _
  | succ fuel ih =>
    unfold blockLoopG
    try dsimp only
    rw [hD.content _ _ h]
    refine RelM.bind (RelM.liftE (hD.readU8 _ _ h)) ?_
    rintro ⟨hs, a1⟩ ⟨_, b1⟩ ⟨rfl, h1⟩
    dsimp only at h1
    refine RelM.ite ?_ ?_
    · refine RelM.bind (RelM.liftE (checkIndexG_rel hD _ rs h1)) ?_
      rintro a2 b2 h2
      try dsimp only
      rw [hD.content _ _ h2]
      exact RelM.pure ⟨rfl, h2⟩
    · refine RelM.bind (readBlockG_rel hD _ check hs h1) ?_
      rintro ⟨rec, a2⟩ ⟨_, b2⟩ ⟨rfl, h2⟩
      exact ih _ h2

theorem xzDecompressG_rel (hD : DecSrcRel S T) {a : ρ₁} {b : ρ₂} (h : S a b) :
    RelM S (xzDecompressG a) (xzDecompressG b) := by
  unfold xzDecompressG
  refine RelM.bind (RelM.liftE (parseStreamHeaderG_rel hD h)) ?_
  rintro ⟨check, a1⟩ ⟨_, b1⟩ ⟨rfl, h1⟩
  dsimp only at h1
  refine RelM.ite (RelM.throw_bind _) ?_
  try dsimp only
  rw [hD.content _ _ h1]
  refine RelM.bind (blockLoopG_rel hD check _ [] h1) ?_
  rintro ⟨isz, a2⟩ ⟨_, b2⟩ ⟨rfl, h2⟩
  refine RelM.bind (RelM.liftE (hD.readU32LE _ _ h2)) ?_
  rintro ⟨crc, a3⟩ ⟨_, b3⟩ ⟨rfl, h3⟩
  refine RelM.bind (RelM.liftE (hD.readExact _ _ _ h3)) ?_
  rintro ⟨bs, a4⟩ ⟨_, b4⟩ ⟨rfl, h4⟩
  refine RelM.ite (RelM.throw_bind _) ?_
  refine RelM.bind (RelM.liftE (hD.readExact _ _ _ h4)) ?_
  rintro ⟨fb, a5⟩ ⟨_, b5⟩ ⟨rfl, h5⟩
  refine RelM.bind (RelM.liftE (RelE.refl_eq _)) ?_
  rintro flags _ rfl
  refine RelM.ite (RelM.throw_bind _) ?_
  refine RelM.ite (RelM.throw_bind _) ?_
  refine RelM.bind (RelM.liftE (hD.readTag _ _ _ h5)) ?_
  rintro ⟨ok, a6⟩ ⟨_, b6⟩ ⟨rfl, h6⟩
  refine RelM.ite (RelM.throw_bind _) ?_
  refine RelM.bind (RelM.liftE (hD.isEof _ _ h6)) ?_
  rintro eof _ rfl
  refine RelM.ite (RelM.throw_bind _) ?_
  exact RelM.pure h6

end rel
end FD
end Lzma
