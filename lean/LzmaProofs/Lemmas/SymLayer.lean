/-
  Symbol layer, part 1: `runEv` algebra and the round trips of the generic
  trees (`bitTree`, `revBitTree`, `directBits`), of `lenTree` and of the literal
  trees.  Pure bit-tree combinatorics — no arithmetic coding.
-/
import LzmaSpec.Events
namespace Lzma

/-! ## `runEv` algebra -/

@[simp] theorem runEv_ret (a : α) (evs : List Ev) : runEv (.ret a : Coder PIdx α) evs = some (a, evs) := by
  cases evs <;> rfl

@[simp] theorem runEv_fail (e : Err) (evs : List Ev) : runEv (.fail e : Coder PIdx α) evs = none := by
  cases evs <;> rfl

@[simp] theorem runEv_bit_cons (i : PIdx) (k : Bool → Coder PIdx α) (b : Bool) (rest : List Ev) :
    runEv (.bit i k) (.pbit i b :: rest) = runEv (k b) rest := by
  simp [runEv]

@[simp] theorem runEv_direct_cons (k : Bool → Coder PIdx α) (b : Bool) (rest : List Ev) :
    runEv (.direct k) (.dbit b :: rest) = runEv (k b) rest := by
  simp [runEv]

/-- `runEv` of a sequential composition -/
theorem runEv_bind (t : Coder PIdx α) (f : α → Coder PIdx β) (evs : List Ev) :
    runEv (t.bind f) evs = (runEv t evs).bind (fun p => runEv (f p.1) p.2) := by
  induction t generalizing evs with
  | ret a => simp [Coder.bind]
  | fail e => simp [Coder.bind]
  | bit i k ih =>
    cases evs with
    | nil => simp [Coder.bind, runEv]
    | cons ev rest =>
      cases ev with
      | pbit j b =>
        by_cases h : i = j
        · subst h; simp [Coder.bind, ih]
        · simp [Coder.bind, runEv, h]
      | dbit b => simp [Coder.bind, runEv]
  | direct k ih =>
    cases evs with
    | nil => simp [Coder.bind, runEv]
    | cons ev rest =>
      cases ev with
      | pbit j b => simp [Coder.bind, runEv]
      | dbit b => simp [Coder.bind, ih]

theorem runEv_map (g : α → β) (t : Coder PIdx α) (evs : List Ev) :
    runEv (t.map g) evs = (runEv t evs).map (fun p => (g p.1, p.2)) := by
  rw [Coder.map, runEv_bind]
  cases runEv t evs <;> simp

/-- `runEv_append`-style: if `t` accepts `evs₁` exactly, then `t.bind f` on
`evs₁ ++ evs₂` continues with `f` on `evs₂` -/
theorem runEv_bind_of_eq {t : Coder PIdx α} {f : α → Coder PIdx β} {evs rest : List Ev} {a : α}
    (h : runEv t evs = some (a, rest)) : runEv (t.bind f) evs = runEv (f a) rest := by
  simp [runEv_bind, h]

theorem runEv_map_of_eq {t : Coder PIdx α} {g : α → β} {evs rest : List Ev} {a : α}
    (h : runEv t evs = some (a, rest)) : runEv (t.map g) evs = some (g a, rest) := by
  simp [runEv_map, h]

@[simp] theorem runEv_ofExcept_ok (a : α) (evs : List Ev) :
    runEv (Coder.ofExcept (.ok a) : Coder PIdx α) evs = some (a, evs) := by
  simp [Coder.ofExcept]

/-- accepted events are a prefix: what `runEv` returns as rest is a suffix of the input -/
theorem runEv_suffix {t : Coder PIdx α} {evs rest : List Ev} {a : α}
    (h : runEv t evs = some (a, rest)) : ∃ used, evs = used ++ rest := by
  induction t generalizing evs with
  | ret a' => simp at h; exact ⟨[], by simp [h.2]⟩
  | fail e => simp at h
  | bit i k ih =>
    cases evs with
    | nil => simp [runEv] at h
    | cons ev rest' =>
      cases ev with
      | pbit j b =>
        by_cases hij : i = j
        · subst hij; simp at h
          obtain ⟨u, hu⟩ := ih b h
          exact ⟨.pbit i b :: u, by simp [hu]⟩
        · simp [runEv, hij] at h
      | dbit b => simp [runEv] at h
  | direct k ih =>
    cases evs with
    | nil => simp [runEv] at h
    | cons ev rest' =>
      cases ev with
      | pbit j b => simp [runEv] at h
      | dbit b =>
        simp at h
        obtain ⟨u, hu⟩ := ih b h
        exact ⟨.dbit b :: u, by simp [hu]⟩

/-! ## small arithmetic helpers -/

theorem bit_toNat (x : Nat) (h : x < 2) : (x != 0).toNat = x := by
  have : x = 0 ∨ x = 1 := by omega
  rcases this with h | h <;> subst h <;> rfl

theorem shr_and_one (v n : Nat) : (v >>> n) &&& 1 = v / 2 ^ n % 2 := by
  rw [Nat.shiftRight_eq_div_pow, Nat.and_one_is_mod]

theorem bitAt_toNat (v n : Nat) : (((v >>> n) &&& 1) != 0).toNat = v / 2 ^ n % 2 := by
  rw [shr_and_one]; exact bit_toNat _ (Nat.mod_lt _ (by decide))

/-! ## `parse_bit_tree` -/

theorem bitTreeAux_roundtrip (mk : Nat → PIdx) (n tmp v : Nat) (rest : List Ev) :
    runEv (bitTreeAux mk n tmp) (bitTreeEv mk n tmp v ++ rest) = some (tmp * 2 ^ n + v % 2 ^ n, rest) := by
  induction n generalizing tmp with
  | zero => simp [bitTreeAux, bitTreeEv, Nat.mod_one]
  | succ n ih =>
    simp only [bitTreeAux, bitTreeEv, List.cons_append, runEv_bit_cons]
    rw [bitAt_toNat, shr_and_one, ih]
    congr 2
    rw [Nat.mod_pow_succ (x := v) (b := 2) (k := n), Nat.pow_succ]
    generalize 2 ^ n = P; generalize v / P % 2 = B; generalize v % P = R
    grind

/-- MSB-first emission inverts `parse_bit_tree`; the final `tmp - (1 <<< n)` never underflows -/
theorem bitTree_roundtrip (mk : Nat → PIdx) (n v : Nat) (hv : v < 2 ^ n) (rest : List Ev) :
    runEv (bitTree mk n) (bitTreeEv mk n 1 v ++ rest) = some (v, rest) := by
  rw [bitTree, runEv_bind_of_eq (bitTreeAux_roundtrip mk n 1 v rest)]
  simp [subChk, Nat.shiftLeft_eq, Nat.mod_eq_of_lt hv]

/-! ## `parse_reverse_bit_tree` -/

theorem revBitTreeAux_roundtrip (mk : Nat → PIdx) (off n i tmp res v : Nat) (rest : List Ev) :
    runEv (revBitTreeAux mk off n i tmp res) (revBitTreeEv mk off n tmp v ++ rest)
      = some (res + (v % 2 ^ n) * 2 ^ i, rest) := by
  induction n generalizing i tmp res v with
  | zero => simp [revBitTreeAux, revBitTreeEv, Nat.mod_one]
  | succ n ih =>
    simp only [revBitTreeAux, revBitTreeEv, List.cons_append, runEv_bit_cons]
    rw [Nat.and_one_is_mod, bit_toNat _ (Nat.mod_lt _ (by decide)), ih, Nat.shiftRight_eq_div_pow]
    congr 2
    rw [Nat.pow_succ 2 n, Nat.mul_comm (2 ^ n) 2, Nat.mod_mul (x := v) (a := 2) (b := 2 ^ n)]
    rw [Nat.pow_one, Nat.pow_succ 2 i]
    generalize 2 ^ n = P; generalize v / 2 % P = B; generalize v % 2 = R; generalize 2 ^ i = I
    grind

/-- LSB-first emission inverts `parse_reverse_bit_tree` (any offset) -/
theorem revBitTree_roundtrip (mk : Nat → PIdx) (off n v : Nat) (hv : v < 2 ^ n) (rest : List Ev) :
    runEv (revBitTree mk off n) (revBitTreeEv mk off n 1 v ++ rest) = some (v, rest) := by
  rw [revBitTree, revBitTreeAux_roundtrip]
  simp [Nat.mod_eq_of_lt hv]

/-! ## direct bits -/

theorem directBits_roundtrip_acc (n acc v : Nat) (rest : List Ev) :
    runEv (directBits n acc : Coder PIdx Nat) (directEv n v ++ rest)
      = some (acc * 2 ^ n + v % 2 ^ n, rest) := by
  induction n generalizing acc with
  | zero => simp [directBits, directEv, Nat.mod_one]
  | succ n ih =>
    simp only [directBits, directEv, List.cons_append, runEv_direct_cons]
    rw [bitAt_toNat, ih]
    congr 2
    rw [Nat.mod_pow_succ (x := v) (b := 2) (k := n), Nat.pow_succ]
    generalize 2 ^ n = P; generalize v / P % 2 = B; generalize v % P = R
    grind

theorem directBits_roundtrip (n v : Nat) (hv : v < 2 ^ n) (rest : List Ev) :
    runEv (directBits n 0 : Coder PIdx Nat) (directEv n v ++ rest) = some (v, rest) := by
  rw [directBits_roundtrip_acc]; simp [Nat.mod_eq_of_lt hv]

/-! ## `LenDecoder::decode` -/

/-- all three classes (low 0..7, mid 8..15, high 16..271), every `posState` -/
theorem lenTree_roundtrip (rep : Bool) (ps l : Nat) (hl : l < 272) (rest : List Ev) :
    runEv (lenTree rep ps) (lenEv rep ps l ++ rest) = some (l, rest) := by
  unfold lenTree lenEv
  by_cases h8 : l < 8
  · simp only [h8, if_true, List.cons_append, runEv_bit_cons, Bool.not_false]
    exact bitTree_roundtrip _ 3 l (by simpa using h8) rest
  · by_cases h16 : l < 16
    · simp only [h8, h16, if_true, if_false, List.cons_append, runEv_bit_cons, Bool.not_true,
        Bool.not_false, Bool.false_eq_true]
      rw [runEv_map_of_eq (bitTree_roundtrip _ 3 (l - 8) (by simp; omega) rest)]
      congr 2; omega
    · simp only [h8, h16, if_false, List.cons_append, runEv_bit_cons, Bool.not_true,
        Bool.false_eq_true]
      rw [runEv_map_of_eq (bitTree_roundtrip _ 8 (l - 16) (by simp; omega) rest)]
      congr 2; omega

/-! ## `decode_literal` -/

/-- `2 * (x / 2^(n+1)) + byte-bit n = x / 2^n` for `x = 256 + byte`, `n < 8` -/
theorem lit_step (byte n : Nat) (hn : n < 8) :
    2 * ((256 + byte) / 2 ^ (n + 1)) + byte / 2 ^ n % 2 = (256 + byte) / 2 ^ n := by
  have : n = 0 ∨ n = 1 ∨ n = 2 ∨ n = 3 ∨ n = 4 ∨ n = 5 ∨ n = 6 ∨ n = 7 := by omega
  rcases this with h | h | h | h | h | h | h | h <;> subst h <;> simp <;> omega

theorem lit_lt (byte n : Nat) (hb : byte < 256) : (256 + byte) / 2 ^ (n + 1) < 256 := by
  rw [Nat.div_lt_iff_lt_mul (Nat.pow_pos (by decide))]
  have : 2 ≤ 2 ^ (n + 1) := by
    rw [Nat.pow_succ]; have := Nat.pow_pos (a := 2) (n := n) (by decide); omega
  calc 256 + byte < 256 * 2 := by omega
    _ ≤ 256 * 2 ^ (n + 1) := Nat.mul_le_mul_left _ this

/-- the plain loop, entered with the top `8 - n` bits already decoded; the fuel
is never exhausted -/
theorem litPlain_roundtrip_aux (row byte : Nat) (hb : byte < 256) (n fuel : Nat) (hn : n ≤ 8)
    (hf : n ≤ fuel) (rest : List Ev) :
    runEv (litPlain row fuel ((256 + byte) / 2 ^ n))
        (litPlainEv row byte n ((256 + byte) / 2 ^ n) ++ rest) = some (256 + byte, rest) := by
  induction n generalizing fuel with
  | zero =>
    have h : ¬ (256 + byte < 256) := by omega
    cases fuel <;> simp [litPlain, litPlainEv, h]
  | succ n ih =>
    obtain ⟨f, rfl⟩ : ∃ f, fuel = f + 1 := ⟨fuel - 1, by omega⟩
    have hlt := lit_lt byte n hb
    simp only [litPlain, litPlainEv, hlt, if_true, List.cons_append, runEv_bit_cons]
    rw [bitAt_toNat, shr_and_one, lit_step byte n (by omega)]
    exact ih f (by omega) (by omega)

theorem litPlain_roundtrip (row byte : Nat) (hb : byte < 256) (rest : List Ev) :
    runEv (litPlain row 8 1) (litPlainEv row byte 8 1 ++ rest) = some (256 + byte, rest) := by
  have h := litPlain_roundtrip_aux row byte hb 8 8 (by omega) (by omega) rest
  have h1 : (256 + byte) / 2 ^ 8 = 1 := by simp; omega
  rwa [h1] at h

/-- the matched loop (any match byte, any point of first mismatch) followed by the plain loop -/
theorem litMatched_roundtrip_aux (row byte : Nat) (hb : byte < 256) (n fuel mb : Nat) (hn : n ≤ 8)
    (hf : n ≤ fuel) (rest : List Ev) :
    runEv (litMatched row fuel mb ((256 + byte) / 2 ^ n))
        (litMatchedEv row byte n mb ((256 + byte) / 2 ^ n) ++ rest) = some (256 + byte, rest) := by
  induction n generalizing fuel mb with
  | zero =>
    have h : ¬ (256 + byte < 256) := by omega
    cases fuel <;> simp [litMatched, litMatchedEv, h]
  | succ n ih =>
    obtain ⟨f, rfl⟩ : ∃ f, fuel = f + 1 := ⟨fuel - 1, by omega⟩
    have hlt := lit_lt byte n hb
    simp only [litMatched, litMatchedEv, hlt, if_true, List.cons_append, runEv_bit_cons]
    rw [bitAt_toNat, shr_and_one (v := byte), lit_step byte n (by omega)]
    by_cases hm : ((mb >>> 7 &&& 1) != byte / 2 ^ n % 2) = true
    · simp only [hm, if_true]
      exact litPlain_roundtrip_aux row byte hb n f (by omega) (by omega) rest
    · simp only [hm, if_false, Bool.false_eq_true]
      exact ih f (mb <<< 1) (by omega) (by omega)

theorem litMatched_roundtrip (row byte mb : Nat) (hb : byte < 256) (rest : List Ev) :
    runEv (litMatched row 8 mb 1) (litMatchedEv row byte 8 mb 1 ++ rest) = some (256 + byte, rest) := by
  have h := litMatched_roundtrip_aux row byte hb 8 8 mb (by omega) (by omega) rest
  have h1 : (256 + byte) / 2 ^ 8 = 1 := by simp; omega
  rwa [h1] at h

end Lzma
