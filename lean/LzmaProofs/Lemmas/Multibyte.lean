/-
  XZ multibyte integers (`get_multibyte` / `write_multibyte`) and the padding formula.
-/
import LzmaProofs.Lemmas.Monad
namespace Lzma

/-! ## bit arithmetic -/

theorem Fwd.xor_shiftLeft_of_lt (a x i : Nat) (h : a < 2 ^ i) :
    a ^^^ (x <<< i) = a + x * 2 ^ i := by
  have h2 : a + x * 2 ^ i = x <<< i ||| a := by
    rw [Nat.add_comm, ← Nat.shiftLeft_eq, Nat.shiftLeft_add_eq_or_of_lt h]
  rw [h2]
  apply Nat.eq_of_testBit_eq
  intro j
  simp only [Nat.testBit_xor, Nat.testBit_or, Nat.testBit_shiftLeft]
  by_cases hj : i ≤ j
  · have : a.testBit j = false :=
      Nat.testBit_lt_two_pow (Nat.lt_of_lt_of_le h (Nat.pow_le_pow_right (by omega) hj))
    simp [this, hj]
  · simp [hj]

theorem Fwd.and_7F (n : Nat) : n &&& 0x7F = n % 128 := Nat.and_two_pow_sub_one_eq_mod n 7
theorem Fwd.and_3 (n : Nat) : n &&& 0x03 = n % 4 := Nat.and_two_pow_sub_one_eq_mod n 2

theorem Fwd.and_80_eq_zero_of_lt (n : Nat) (h : n < 128) : n &&& 0x80 = 0 := by
  apply Nat.eq_of_testBit_eq
  intro j
  simp only [Nat.testBit_and, Nat.zero_testBit]
  by_cases hj : j = 7
  · subst hj
    have : n.testBit 7 = false := Nat.testBit_lt_two_pow (by omega)
    simp [this]
  · have : Nat.testBit 0x80 j = false := by
      have h2 : (0x80 : Nat) = 2 ^ 7 := by decide
      rw [h2, Nat.testBit_two_pow]; simp; omega
    simp [this]

theorem Fwd.and_80_ne_zero_of_ge (n : Nat) (h : 128 ≤ n) (h2 : n < 256) : n &&& 0x80 ≠ 0 := by
  intro hc
  have h7 : (n &&& 0x80).testBit 7 = false := by rw [hc]; simp
  rw [Nat.testBit_and] at h7
  have : Nat.testBit 0x80 7 = true := by decide
  rw [this, Bool.and_true] at h7
  have : n.testBit 7 = true := by
    rw [Nat.testBit_eq_decide_div_mod_eq]; simp; omega
  simp_all

/-! ## the padding formula -/

/-- `paddingSize` is the number of bytes to the next multiple of four, for every count. -/
theorem padding_formula (c : Nat) : paddingSize c = (4 - c % 4) % 4 := by
  unfold paddingSize
  rw [Fwd.and_3]
  have hx : (c ^^^ 0x03) % 4 = (c % 4) ^^^ 3 := by
    have := Nat.xor_mod_two_pow (a := c) (b := 3) (n := 2)
    simpa using this
  rw [Nat.add_mod, hx]
  have h4 : c % 4 < 4 := Nat.mod_lt _ (by omega)
  generalize c % 4 = r at *
  have : r = 0 ∨ r = 1 ∨ r = 2 ∨ r = 3 := by omega
  rcases this with h | h | h | h <;> subst h <;> decide

theorem Fwd.paddingSize_lt (c : Nat) : paddingSize c < 4 := by
  rw [padding_formula]; omega

theorem Fwd.add_paddingSize_mod (c : Nat) : (c + paddingSize c) % 4 = 0 := by
  rw [padding_formula]; omega

/-! ## the multibyte encoding -/

/-- the XZ multibyte integer `n` written in exactly `w` bytes: seven bits per byte, least
significant group first, continuation bit `0x80` on every byte but the last. -/
def encodeMb : Nat → Nat → Bytes
  | 0, _ => []
  | w+1, n =>
    if w = 0 then [UInt8.ofNat (n % 128)]
    else UInt8.ofNat (128 + n % 128) :: encodeMb w (n / 128)

/-- the minimal width of `n` -/
def mbWidth (n : Nat) : Nat := if n < 128 then 1 else mbWidth (n / 128) + 1
termination_by n
decreasing_by omega

@[simp] theorem encodeMb_length (w n : Nat) : (encodeMb w n).length = w := by
  induction w generalizing n with
  | zero => simp [encodeMb]
  | succ w ih => unfold encodeMb; split <;> simp_all

theorem encodeMb_one (n : Nat) : encodeMb 1 n = [UInt8.ofNat (n % 128)] := by simp [encodeMb]

theorem mbWidth_pos (n : Nat) : 1 ≤ mbWidth n := by
  unfold mbWidth; split <;> omega

theorem lt_of_mbWidth_le : ∀ (w n : Nat), mbWidth n ≤ w → n < 2 ^ (7 * w)
  | 0, n, h => by have := mbWidth_pos n; omega
  | w+1, n, h => by
    unfold mbWidth at h
    split at h
    · have : 2 ^ 7 ≤ 2 ^ (7 * (w+1)) := Nat.pow_le_pow_right (by omega) (by omega)
      omega
    · have ih := lt_of_mbWidth_le w (n / 128) (by omega)
      have : 2 ^ (7 * (w+1)) = 128 * 2 ^ (7 * w) := by
        rw [show 7 * (w+1) = 7 + 7 * w by omega, Nat.pow_add]
      omega

theorem mbWidth_le_of_lt : ∀ (w n : Nat), 1 ≤ w → n < 2 ^ (7 * w) → mbWidth n ≤ w
  | 0, _, h, _ => by omega
  | w+1, n, _, hn => by
    unfold mbWidth
    split
    · omega
    · rename_i h128
      have hw : 1 ≤ w := by
        rcases Nat.eq_zero_or_pos w with h0 | h0
        · subst h0; simp at hn; omega
        · exact h0
      have : 2 ^ (7 * (w+1)) = 128 * 2 ^ (7 * w) := by
        rw [show 7 * (w+1) = 7 + 7 * w by omega, Nat.pow_add]
      have := mbWidth_le_of_lt w (n / 128) hw (by omega)
      omega

theorem mbWidth_le_nine (n : Nat) (h : n < 2 ^ 63) : mbWidth n ≤ 9 :=
  mbWidth_le_of_lt 9 n (by omega) (by simpa using h)

/-! ## decoding -/

theorem getMultibyteAux_encodeMb (w : Nat) :
    ∀ (fuel i result n : Nat) (acc r : Bytes) (b : Bool),
      1 ≤ w → w ≤ fuel → n < 2 ^ (7 * w) → result < 2 ^ (7 * i) →
      getMultibyteAux fuel i result acc { rem := encodeMb w n ++ r, bad := b }
        = .ok (result + n * 2 ^ (7 * i), acc ++ encodeMb w n, { rem := r, bad := b }) := by
  induction w with
  | zero => intro _ _ _ _ _ _ _ h; omega
  | succ w ih =>
    intro fuel i result n acc r b _ hf hn hr
    obtain ⟨fuel, rfl⟩ : ∃ f, fuel = f + 1 := ⟨fuel - 1, by omega⟩
    have hmod : n % 128 < 128 := Nat.mod_lt _ (by omega)
    by_cases hw : w = 0
    · subst hw
      have hn' : n < 128 := by simpa using hn
      simp only [encodeMb, if_true, getMultibyteAux, Rd.readU8, List.cons_append, List.nil_append]
      have hb : (UInt8.ofNat (n % 128)).toNat = n := by
        simp [UInt8.toNat_ofNat']; omega
      simp only [bind, Except.bind, hb, Fwd.and_7F, Fwd.and_80_eq_zero_of_lt n hn', if_true]
      rw [Nat.mul_comm i 7, Fwd.xor_shiftLeft_of_lt _ _ _ hr, Nat.mod_eq_of_lt hn']
      rfl
    · have hb : (UInt8.ofNat (128 + n % 128)).toNat = 128 + n % 128 := by
        simp [UInt8.toNat_ofNat']; omega
      have hpow : 2 ^ (7 * (w+1)) = 128 * 2 ^ (7 * w) := by
        rw [show 7 * (w+1) = 7 + 7 * w by omega, Nat.pow_add]
      have hpow' : 2 ^ (7 * (i+1)) = 2 ^ (7 * i) * 128 := by
        rw [show 7 * (i+1) = 7 * i + 7 by omega, Nat.pow_add]
      simp only [encodeMb, hw, if_false, getMultibyteAux, Rd.readU8, List.cons_append]
      simp only [bind, Except.bind, hb, Fwd.and_7F,
        Fwd.and_80_ne_zero_of_ge (128 + n % 128) (by omega) (by omega), if_false]
      have h128 : (128 + n % 128) % 128 = n % 128 := by omega
      rw [Nat.mul_comm i 7, Fwd.xor_shiftLeft_of_lt _ _ _ hr, h128]
      have hr' : result + n % 128 * 2 ^ (7 * i) < 2 ^ (7 * (i + 1)) := by
        rw [hpow']
        have : n % 128 * 2 ^ (7 * i) ≤ 127 * 2 ^ (7 * i) := Nat.mul_le_mul_right _ (by omega)
        omega
      rw [ih fuel (i+1) _ (n / 128) _ r b (by omega) (by omega) (by omega) hr']
      have : result + n % 128 * 2 ^ (7 * i) + n / 128 * 2 ^ (7 * (i + 1))
          = result + n * 2 ^ (7 * i) := by
        rw [hpow', Nat.add_assoc]
        congr 1
        generalize 2 ^ (7 * i) = P
        have h := Nat.mod_add_div n 128
        calc n % 128 * P + n / 128 * (P * 128)
            = (n % 128 + 128 * (n / 128)) * P := by
              rw [Nat.add_mul, Nat.mul_comm 128, Nat.mul_assoc, Nat.mul_comm 128 P]
          _ = n * P := by rw [h]
      simp [this]

/-- **Multibyte round trip**: every `n < 2^(7w)` written in `w` bytes (`1 ≤ w ≤ 9`; in
particular non-minimal encodings) is read back exactly, consuming exactly those bytes. -/
theorem multibyte_roundtrip (w n : Nat) (r : Bytes) (b : Bool)
    (hw1 : 1 ≤ w) (hw9 : w ≤ 9) (hn : n < 2 ^ (7 * w)) :
    getMultibyte { rem := encodeMb w n ++ r, bad := b }
      = .ok (n, encodeMb w n, { rem := r, bad := b }) := by
  unfold getMultibyte
  rw [getMultibyteAux_encodeMb w 9 0 0 n [] r b hw1 hw9 hn (by simp)]
  simp

/-! ## the encoder's `write_multibyte` -/

theorem mbWidth_of_lt {n : Nat} (h : n < 128) : mbWidth n = 1 := by
  unfold mbWidth; simp [h]
theorem mbWidth_of_ge {n : Nat} (h : 128 ≤ n) : mbWidth n = mbWidth (n / 128) + 1 := by
  rw [mbWidth]; simp [Nat.not_lt.mpr h]

theorem writeMultibyteAux_eq : ∀ (fuel n : Nat), mbWidth n ≤ fuel →
    writeMultibyteAux fuel n = encodeMb (mbWidth n) n
  | 0, n, h => by have := mbWidth_pos n; omega
  | fuel+1, n, h => by
    unfold writeMultibyteAux
    simp only [Fwd.and_7F, Nat.shiftRight_eq_div_pow]
    have h27 : (2 : Nat) ^ 7 = 128 := by decide
    rw [h27]
    by_cases h128 : n < 128
    · have : n / 128 = 0 := by omega
      simp [this, encodeMb, mbWidth_of_lt h128]
    · have hge : 128 ≤ n := by omega
      have hne : n / 128 ≠ 0 := by omega
      have hor : 0x80 ||| n % 128 = 128 + n % 128 := by
        have := Nat.two_pow_add_eq_or_of_lt (i := 7) (b := n % 128) (by omega) 1
        simpa using this.symm
      have hpos := mbWidth_pos (n / 128)
      have hw : mbWidth (n / 128) ≠ 0 := by omega
      rw [mbWidth_of_ge hge] at h ⊢
      simp only [hne, if_false, hor, encodeMb, hw]
      rw [writeMultibyteAux_eq fuel (n / 128) (by omega)]

/-- the encoder's multibyte integer is the minimal-width encoding -/
theorem multibyteBytes_eq (n : Nat) (h : n < 2 ^ 63) :
    multibyteBytes n = encodeMb (mbWidth n) n :=
  writeMultibyteAux_eq 10 n (by have := mbWidth_le_nine n h; omega)

/-- what `write_multibyte` writes, `get_multibyte` reads back -/
theorem getMultibyte_multibyteBytes (n : Nat) (h : n < 2 ^ 63) (r : Bytes) (b : Bool) :
    getMultibyte { rem := multibyteBytes n ++ r, bad := b }
      = .ok (n, multibyteBytes n, { rem := r, bad := b }) := by
  rw [multibyteBytes_eq n h]
  exact multibyte_roundtrip _ n r b (mbWidth_pos n) (mbWidth_le_nine n h)
    (lt_of_mbWidth_le _ n (Nat.le_refl _))

/-! ## rejection of over-long encodings -/

theorem getMultibyteAux_all_cont : ∀ (l : Bytes) (i result : Nat) (acc r : Bytes) (b : Bool),
    (∀ x ∈ l, x.toNat &&& 0x80 ≠ 0) →
    getMultibyteAux l.length i result acc { rem := l ++ r, bad := b } = .error .xz
  | [], _, _, _, _, _, _ => rfl
  | x :: l, i, result, acc, r, b, h => by
    have hx := h x (by simp)
    simp only [List.length_cons, getMultibyteAux, Rd.readU8, List.cons_append, bind, Except.bind,
      hx, if_false]
    exact getMultibyteAux_all_cont l _ _ _ r b (fun y hy => h y (by simp [hy]))

/-- nine bytes that all carry the continuation bit (so: any encoding of ten or more bytes,
and a nine-byte group whose last byte continues) are rejected with a format error. -/
theorem getMultibyte_reject_long (l r : Bytes) (b : Bool) (hl : l.length = 9)
    (h : ∀ x ∈ l, x.toNat &&& 0x80 ≠ 0) :
    getMultibyte { rem := l ++ r, bad := b } = .error .xz := by
  unfold getMultibyte
  rw [← hl]
  exact getMultibyteAux_all_cont l 0 0 [] r b h

end Lzma
