/-
  C05 — one-shot steps: how the one-shot tail `fin` advances when the stream
  decodes a symbol from a local reader `X` while the one-shot decoder sees
  `X ++ Y`; the 20-byte hypothesis `Need20`; verdict equivalence `Veq`.
-/
import LzmaProofs.Lemmas.StreamEquivFuel
namespace Lzma
namespace StreamEq

open DState Safety

/-- **The 20-byte bound (L3).**  With valid probability tables (`31 ≤ p ≤ 2017`),
a normalised range (`2^24 ≤ range < 2^32`) and at least 20 bytes of input,
decoding one symbol never runs out of input — for every context whose two
precomputed window reads do not themselves report `eof` (they never do: a window
read fails with `lzma` or a panic).  A symbol shrinks `range` by less than 160
bits.  Theorems named `…_partial` take this as an explicit hypothesis; it is
proved in `StreamEquivNeed20.lean` (`need20`). -/
def Need20 : Prop :=
  ∀ (c : Ctx) (p : Probs) (rc : RC) (a : Bytes), c.litRow ≠ .error .eof → c.matchByte ≠ .error .eof →
    ProbsInv p → RCInv rc → 20 ≤ a.length →
    runDec true (symTree c) p rc ⟨a, false⟩ ≠ .error .eof

/-! ## verdict equivalence -/

def IsErr {α : Type} (x : Sink × Except Err α) : Prop := ∃ e, x.2 = .error e

/-- same verdict: both fail, or identical results (sink included) -/
def Veq (x y : Sink × Except Err Unit) : Prop := (IsErr x ∧ IsErr y) ∨ x = y

theorem Veq.refl (x : Sink × Except Err Unit) : Veq x x := .inr (Eq.refl x)
theorem Veq.of_eq {x y : Sink × Except Err Unit} (h : x = y) : Veq x y := .inr h
theorem Veq.symm {x y : Sink × Except Err Unit} (h : Veq x y) : Veq y x := by
  rcases h with ⟨h1, h2⟩ | h
  · exact .inl ⟨h2, h1⟩
  · exact .inr h.symm
theorem Veq.trans {x y z : Sink × Except Err Unit} (h1 : Veq x y) (h2 : Veq y z) : Veq x z := by
  rcases h1 with ⟨a, b⟩ | rfl
  · rcases h2 with ⟨_, d⟩ | rfl
    · exact .inl ⟨a, d⟩
    · exact .inl ⟨a, b⟩
  · exact h2
theorem Veq.isErr {x y : Sink × Except Err Unit} (h : Veq x y) (hy : IsErr y) : IsErr x := by
  rcases h with ⟨a, _⟩ | rfl
  · exact a
  · exact hy
theorem Veq.isErr' {x y : Sink × Except Err Unit} (h : Veq x y) (hx : IsErr x) : IsErr y :=
  h.symm.isErr hx

theorem isErr_mk {α : Type} (k : Sink) (e : Err) : IsErr ((k, .error e) : Sink × Except Err α) := ⟨e, rfl⟩

/-! ## small definitions -/

/-- the decoder state with an empty `partial_input_buf` -/
def clr (s : DState) : DState := { s with partialBuf := [] }

/-- the unpacked size is known and reached: every loop stops at once -/
def StopNow (s : DState) (w : Circ) : Prop := ∃ n, s.unpackedSize = some n ∧ n ≤ w.len

theorem clr_inv {s : DState} {w : Circ} {rc : RC} (h : Inv s w rc) : Inv (clr s) w rc :=
  ⟨h.ds.of_eq rfl h.ds.state rfl (by simp [clr]), h.cw, h.dict, h.rc⟩

theorem setpb_inv {s : DState} {w : Circ} {rc : RC} (h : Inv s w rc) {x : Bytes} (hx : x.length ≤ 20) :
    Inv { s with partialBuf := x } w rc :=
  ⟨h.ds.of_eq rfl h.ds.state rfl hx, h.cw, h.dict, h.rc⟩

theorem stopB_finish_clr (s : DState) (w : Circ) (rc : RC) (R : Bytes) :
    stopB .finish (clr s) w rc R =
      match s.unpackedSize with
      | some n => decide (w.len ≥ n)
      | none => (rc.code == 0 && R.isEmpty) := by
  unfold stopB clr
  cases s.unpackedSize <;> simp

/-- if the stream loop does not stop, the one-shot loop on the concatenated input
does not stop either -/
theorem stop_rel {s : DState} {w : Circ} {rc : RC} {a : Bytes}
    (h : stopB .stream s w rc a = false) (F : Bytes) :
    stopB .finish (clr s) w rc (s.partialBuf ++ a ++ F) = false := by
  rw [stopB_finish_clr]
  unfold stopB at h
  cases hu : s.unpackedSize with
  | some n => rw [hu] at h; exact h
  | none =>
    rw [hu] at h
    simp only at h ⊢
    have : (s.partialBuf ++ a ++ F).isEmpty = false := by
      cases hp : s.partialBuf with
      | cons x r => rfl
      | nil =>
        cases ha : a with
        | cons x r => rfl
        | nil => simp [hp, ha] at h
    rw [this, Bool.and_false]

theorem stopNow_stop {mode : Mode} {s : DState} {w : Circ} (rc : RC) (a : Bytes) (h : StopNow s w) :
    stopB mode s w rc a = true := by
  obtain ⟨n, h1, h2⟩ := h
  unfold stopB
  rw [h1]
  simp [h2]

/-- when the size is reached the remaining input is irrelevant for the one-shot tail -/
theorem fin_stopNow {s : DState} {w : Circ} {rc : RC} (hI : Inv s w rc) (h : StopNow s w)
    (R R' : Bytes) (snk : Sink) : fin s w rc R snk = fin s w rc R' snk := by
  rw [fin_stop snk hI (stopNow_stop rc R h), fin_stop snk hI (stopNow_stop rc R' h)]

theorem processNext_clr (s : DState) (w : Circ) (rc : RC) (rd : Rd) (snk : Sink) :
    processNext (clr s) w rc rd snk = setPB [] (processNext s w rc rd snk) :=
  processNext_pbuf s [] w rc rd snk

/-! ## after the marker -/

theorem processNext_doomed_err {s : DState} {w : Circ} {rc : RC} (hI : Inv s w rc)
    (hcode : rc.code = 0) (hrep : s.rep0 = 0xFFFFFFFF) (hstate : 7 ≤ s.state) (rd : Rd) (snk : Sink) :
    ∃ e, processNext s w rc rd snk = (snk, .error e) := by
  have hr := hI.rc.1
  obtain ⟨e, he⟩ := after_marker_continuation_errs true s w rc rd hcode hrep hstate hI.dict
    (by omega) (fun v hg => by have := (probs_get_pval hI.ds.probs hg).1; omega)
  exact ⟨e, by rw [processNext_eq, he]⟩

/-! ## the one-shot side of a symbol -/

theorem setPB_ok (x : Bytes) (k : Sink) (st : Status) (s' : DState) (w' : Circ) (rc' : RC) (rd' : Rd) :
    setPB x (k, .ok (st, s', w', rc', rd')) = (k, .ok (st, { s' with partialBuf := x }, w', rc', rd')) := rfl

theorem setPB_err (x : Bytes) (k : Sink) (e : Err) : setPB x (k, .error e) = (k, .error e) := rfl

theorem fin_step_err {s : DState} {w : Circ} {rc : RC} {X Y : Bytes} {snk k : Sink} {e : Err}
    (hI : Inv s w rc) (hstop : stopB .finish (clr s) w rc (X ++ Y) = false)
    (h : processNext s w rc ⟨X ++ Y, false⟩ snk = (k, .error e)) :
    fin (clr s) w rc (X ++ Y) snk = (k, .error e) :=
  fin_next_err (clr_inv hI) rfl hstop (by rw [processNext_clr, h, setPB_err])

theorem fin_step_cont {s s' : DState} {w w' : Circ} {rc rc' : RC} {X Y X' : Bytes} {snk k : Sink}
    (hI : Inv s w rc) (hstop : stopB .finish (clr s) w rc (X ++ Y) = false)
    (h : processNext s w rc ⟨X ++ Y, false⟩ snk = (k, .ok (.continue, s', w', rc', ⟨X' ++ Y, false⟩))) :
    fin (clr s) w rc (X ++ Y) snk = fin (clr s') w' rc' (X' ++ Y) k :=
  fin_next_cont (s' := clr s') (clr_inv hI) rfl hstop (by rw [processNext_clr, h, setPB_ok]; rfl)

theorem fin_step_fin {s s' : DState} {w : Circ} {rc rc' : RC} {X Y : Bytes} {snk : Sink}
    (hI : Inv s w rc) (hstop : stopB .finish (clr s) w rc (X ++ Y) = false)
    (h : processNext s w rc ⟨X, false⟩ snk = (snk, .ok (.finished, s', w, rc', ⟨[], false⟩)))
    (hcode : rc'.code = 0) (hrep : s'.rep0 = 0xFFFFFFFF) (hstate : 7 ≤ s'.state)
    (hb : ∀ b, b ≠ [] → processNext s w rc ⟨X ++ b, false⟩ snk = (snk, .error .lzma)) :
    Veq (fin (clr s) w rc (X ++ Y) snk) (fin (clr s') w rc' Y snk) := by
  obtain ⟨hI', _, _, _, _, hus⟩ := processNext_inv hI h
  have hIc' := clr_inv hI'
  have hdoom : ∀ R, ∃ e, processNext (clr s') w rc' ⟨R, false⟩ snk = (snk, .error e) :=
    fun R => processNext_doomed_err hIc' hcode hrep hstate _ snk
  have hstop' := hstop
  rw [stopB_finish_clr] at hstop
  by_cases hY : Y = []
  · subst hY
    rw [List.append_nil] at hstop hstop' ⊢
    have hL : fin (clr s) w rc X snk = postOf s'.unpackedSize w snk :=
      fin_next_fin (s' := clr s') (clr_inv hI) rfl hstop' (by rw [processNext_clr, h, setPB_ok]; rfl)
    rw [hL]
    cases hst : stopB .finish (clr s') w rc' [] with
    | true =>
      rw [fin_stop snk hIc' hst]
      exact .inr rfl
    | false =>
      have hst' := hst
      rw [stopB_finish_clr] at hst
      cases hu : s'.unpackedSize with
      | none => rw [hu] at hst; simp [hcode] at hst
      | some n =>
        rw [hu] at hst
        simp only [decide_eq_false_iff_not, ge_iff_le, Nat.not_le] at hst
        left
        constructor
        · have : n ≠ w.len := by omega
          exact ⟨.lzma, by simp [postOf, this]⟩
        · obtain ⟨e, he⟩ := hdoom []
          rw [fin_next_err hIc' rfl hst' he]
          exact isErr_mk _ _
  · left
    constructor
    · rw [fin_step_err hI hstop' (hb Y hY)]
      exact isErr_mk _ _
    · have hst : stopB .finish (clr s') w rc' Y = false := by
        rw [stopB_finish_clr, hus]
        cases hu : s.unpackedSize with
        | some n => rw [hu] at hstop; exact hstop
        | none =>
          have : Y.isEmpty = false := by cases Y <;> simp_all
          simp [this]
      obtain ⟨e, he⟩ := hdoom Y
      rw [fin_next_err hIc' rfl hst he]
      exact isErr_mk _ _

end StreamEq
end Lzma
