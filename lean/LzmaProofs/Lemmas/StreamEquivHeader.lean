/-
  C05 — layer A: the Header state machine of `Stream` (the 18-byte staging
  buffer), `Stream::read_header` on prefixes, and the link between the one-shot
  `lzma_decompress_with_options` and the fuel-free tail `fin`.
-/
import LzmaProofs.Lemmas.StreamEquivWrite
import LzmaProofs.Lemmas.Header
import LzmaProofs.Lemmas.ProcessMode
import LzmaProofs.Lemmas.SafetyStream
namespace Lzma
namespace StreamEq

open DState Safety

/-- forget the value of a result -/
def toUnit {α : Type} (r : Sink × Except Err α) : Sink × Except Err Unit :=
  (r.1, match r.2 with
    | .ok _ => .ok ()
    | .error e => .error e)

theorem toUnit_ok {α : Type} (k : Sink) (a : α) : toUnit (k, .ok a) = (k, .ok ()) := rfl
theorem toUnit_err {α : Type} (k : Sink) (e : Err) :
    toUnit ((k, .error e) : Sink × Except Err α) = (k, .error e) := rfl

/-! ## the stages of `Stream::read_header` -/

/-- the `RunState` built from the header parameters and the initial range coder -/
def mkRun (opts : Options) (params : LzmaParams) (decoder : DState) (rc : RC) : RunState :=
  { decoder := decoder, range := rc.range, code := rc.code,
    output := Circ.fromStream params.dictSize (opts.memlimit.getD USIZE_MAX) }

theorem sreadHeader_some_iff {rd rd2 : Rd} {opts : Options} {rs : RunState} :
    Stream.readHeader rd opts = .ok (some rs, rd2) ↔
      ∃ params rd1 decoder rc, Lzma.readHeader rd opts = .ok (params, rd1) ∧
        DState.new params.props params.unpackedSize = .ok decoder ∧
        RC.new rd1 = .ok (rc, rd2) ∧ rs = mkRun opts params decoder rc := by
  unfold Stream.readHeader
  constructor
  · intro h
    cases h1 : Lzma.readHeader rd opts with
    | error e => rw [h1] at h; cases e <;> simp at h
    | ok x =>
      obtain ⟨params, rd1⟩ := x
      rw [h1] at h
      simp only at h
      cases h2 : DState.new params.props params.unpackedSize with
      | error e => rw [h2] at h; simp at h
      | ok decoder =>
        rw [h2] at h
        simp only at h
        cases h3 : RC.new rd1 with
        | error e => rw [h3] at h; simp at h
        | ok y =>
          obtain ⟨rc, rd2'⟩ := y
          rw [h3] at h
          simp only [Except.ok.injEq, Prod.mk.injEq, Option.some.injEq] at h
          obtain ⟨rfl, rfl⟩ := h
          exact ⟨params, rd1, decoder, rc, rfl, h2, h3, rfl⟩
  · rintro ⟨params, rd1, decoder, rc, h1, h2, h3, rfl⟩
    rw [h1]
    simp only [h2, h3]
    rfl

/-- `read_header` never fails with a fatal error other than on the first byte; all
other shortages are "need more data" -/
theorem sreadHeader_cases (rd : Rd) (opts : Options) :
    (∃ rs rd2, Stream.readHeader rd opts = .ok (some rs, rd2)) ∨
    (∃ rd2, Stream.readHeader rd opts = .ok (none, rd2) ∧
      ((∃ e, Lzma.readHeader rd opts = .error e) ∨
        ∃ params rd1 e, Lzma.readHeader rd opts = .ok (params, rd1) ∧ RC.new rd1 = .error e)) ∨
    (∃ e, Stream.readHeader rd opts = .error e ∧
      ((Lzma.readHeader rd opts = .error e) ∨
        ∃ params rd1, Lzma.readHeader rd opts = .ok (params, rd1) ∧
          DState.new params.props params.unpackedSize = .error e)) := by
  unfold Stream.readHeader
  cases h1 : Lzma.readHeader rd opts with
  | error e =>
    cases e
    case headerTooShort => exact .inr (.inl ⟨rd, rfl, .inl ⟨_, rfl⟩⟩)
    all_goals exact .inr (.inr ⟨_, rfl, .inl rfl⟩)
  | ok x =>
    obtain ⟨params, rd1⟩ := x
    simp only
    cases h2 : DState.new params.props params.unpackedSize with
    | error e => exact .inr (.inr ⟨e, rfl, .inr ⟨params, rd1, rfl, h2⟩⟩)
    | ok decoder =>
      simp only
      cases h3 : RC.new rd1 with
      | error e => exact .inr (.inl ⟨rd1, rfl, .inr ⟨params, rd1, e, rfl, h3⟩⟩)
      | ok y => obtain ⟨rc, rd2'⟩ := y; exact .inl ⟨_, _, rfl⟩

theorem readHeader_dict {rd rd1 : Rd} {opts : Options} {params : LzmaParams}
    (h : Lzma.readHeader rd opts = .ok (params, rd1)) :
    0 < params.dictSize ∧ params.dictSize < 4294967296 := by
  rw [readHeader_eq] at h
  split at h
  · cases h
  · rename_i b rest _
    split at h
    · cases h
    · split at h
      · cases h
      · simp only [Except.ok.injEq, Prod.mk.injEq] at h
        obtain ⟨rfl, _⟩ := h
        simp only [hdrParams]
        have h1 := leVal_lt (rest.take 4)
        have h2 : (rest.take 4).length ≤ 4 := by simp [List.length_take]; omega
        have h3 : 256 ^ (rest.take 4).length ≤ 256 ^ 4 := Nat.pow_le_pow_right (by omega) h2
        constructor
        · omega
        · have : (256 : Nat) ^ 4 = 4294967296 := by decide
          omega

theorem new_decoder {params : LzmaParams} {ml : Option Nat} {decoder : DState}
    (hd : 0 < params.dictSize) (h2 : DState.new params.props params.unpackedSize = .ok decoder) :
    LzmaDecoder.new params ml = .ok { params := params, memlimit := ml.getD USIZE_MAX, state := decoder } := by
  unfold LzmaDecoder.new
  have : params.dictSize ≠ 0 := by omega
  simp [this, h2, bind, Except.bind, pure, Except.pure]

theorem new_decoder_inv {params : LzmaParams} {ml : Option Nat} {dec : LzmaDecoder}
    (h : LzmaDecoder.new params ml = .ok dec) :
    DState.new params.props params.unpackedSize = .ok dec.state := by
  unfold LzmaDecoder.new at h
  by_cases hz : params.dictSize = 0
  · simp [hz, bind, Except.bind, throw, throwThe, MonadExceptOf.throw] at h
  · cases h2 : DState.new params.props params.unpackedSize with
    | error e => simp [hz, h2, bind, Except.bind, pure, Except.pure] at h
    | ok st =>
      simp [hz, h2, bind, Except.bind, pure, Except.pure] at h
      rw [← h]

/-! ## the one-shot decoder in terms of the loop -/

/-- if the one-shot decoder succeeds, `Stream::read_header` on the same input
reaches the Data state -/
theorem oneshot_ok_header {rd rdF : Rd} {opts : Options} {snk k : Sink}
    (h : lzmaDecompress rd opts snk = (k, .ok rdF)) :
    ∃ rs rd2, Stream.readHeader rd opts = .ok (some rs, rd2) := by
  obtain ⟨params, rd1, dec, rc, rd2, s', w', rc', snk1, hh, hd, hrc, _, _⟩ := lzmaDecompress_ok_iff.mp h
  exact ⟨_, rd2, sreadHeader_some_iff.mpr ⟨params, rd1, dec.state, rc, hh, new_decoder_inv hd, hrc, rfl⟩⟩

/-- **One-shot = tail.**  When `read_header` reaches the Data state on the input,
the one-shot decoder has the verdict and result of the `.finish` loop on the rest
(followed by the size check and `finish`). -/
theorem oneshot_veq {rd rd2 : Rd} {opts : Options} {rs : RunState} (snk : Sink)
    (h : Stream.readHeader rd opts = .ok (some rs, rd2)) :
    Veq (toUnit (lzmaDecompress rd opts snk))
      (finK (processLoop .finish (loopFuel rs.decoder rd2) rs.decoder rs.output
        ⟨rs.range, rs.code⟩ rd2 snk)) := by
  obtain ⟨params, rd1, decoder, rc, h1, h2, h3, rfl⟩ := sreadHeader_some_iff.mp h
  have hdict := readHeader_dict h1
  have hnew := new_decoder (ml := opts.memlimit) hdict.1 h2
  show Veq _ (finK (processLoop .finish (loopFuel decoder rd2) decoder
    (Circ.fromStream params.dictSize (opts.memlimit.getD USIZE_MAX)) rc rd2 snk))
  rcases hres : lzmaDecompress rd opts snk with ⟨k, r⟩
  cases r with
  | ok rdF =>
    obtain ⟨params', rd1', dec, rc', rd2', s', w', rc'', snk1, hh, hd, hrc, hpm, hfin⟩ :=
      lzmaDecompress_ok_iff.mp hres
    rw [h1] at hh
    simp only [Except.ok.injEq, Prod.mk.injEq] at hh
    obtain ⟨rfl, rfl⟩ := hh
    rw [hnew] at hd
    simp only [Except.ok.injEq] at hd
    subst hd
    rw [h3] at hrc
    simp only [Except.ok.injEq, Prod.mk.injEq] at hrc
    obtain ⟨rfl, rfl⟩ := hrc
    obtain ⟨hloop, hsz⟩ := processMode_ok_iff.mp hpm
    have hus := (processLoop_fields _ hloop).1
    rw [show processLoop .finish (loopFuel decoder rd2) decoder
      (Circ.fromStream params.dictSize (opts.memlimit.getD USIZE_MAX)) rc rd2 snk = _ from hloop,
      finK_ok, toUnit_ok]
    refine .inr ?_
    have : postOf s'.unpackedSize w' snk1 = w'.finish snk1 := by
      cases hu : s'.unpackedSize with
      | none => rfl
      | some n =>
        have : w'.len = n := hsz n (by rw [← hus, hu]) rfl
        simp [postOf, this]
    rw [this, hfin]
  | error e =>
    left
    refine ⟨isErr_mk _ _, ?_⟩
    rcases hloop : processLoop .finish (loopFuel decoder rd2) decoder
      (Circ.fromStream params.dictSize (opts.memlimit.getD USIZE_MAX)) rc rd2 snk with ⟨k1, r1⟩
    cases r1 with
    | error e1 => exact isErr_mk _ _
    | ok y =>
      obtain ⟨s', w', rc'', rd3⟩ := y
      rw [finK_ok]
      have hus := (processLoop_fields _ hloop).1
      by_cases hsz : ∀ n, decoder.unpackedSize = some n → w'.len = n
      · have hpost : postOf s'.unpackedSize w' k1 = w'.finish k1 := by
          cases hu : s'.unpackedSize with
          | none => rfl
          | some n =>
            have : w'.len = n := hsz n (by rw [← hus, hu])
            simp [postOf, this]
        rw [hpost]
        rcases hf : w'.finish k1 with ⟨k2, r2⟩
        cases r2 with
        | error e2 => exact isErr_mk _ _
        | ok u =>
          exfalso
          have hpm : processMode .finish decoder
              (Circ.fromStream params.dictSize (opts.memlimit.getD USIZE_MAX)) rc rd2 snk =
              (k1, .ok (s', w', rc'', rd3)) :=
            processMode_ok_iff.mpr ⟨hloop, fun n hn _ => hsz n hn⟩
          have := lzmaDecompress_ok_iff.mpr ⟨params, rd1, _, rc, rd2, s', w', rc'', k1, h1, hnew, h3, hpm, hf⟩
          rw [hres] at this
          simp at this
      · have : ∃ n, decoder.unpackedSize = some n ∧ w'.len ≠ n := by
          refine Classical.byContradiction fun hc => hsz fun n hn => ?_
          exact Classical.byContradiction fun hne => hc ⟨n, hn, hne⟩
        obtain ⟨n, hn, hne⟩ := this
        have hu : s'.unpackedSize = some n := by rw [hus, hn]
        exact ⟨.lzma, by simp [postOf, hu, Ne.symm hne]⟩

/-- if `read_header` does not reach the Data state, the one-shot decoder fails -/
theorem oneshot_err_of_not_some {rd : Rd} {opts : Options} (snk : Sink)
    (h : ¬ ∃ rs rd2, Stream.readHeader rd opts = .ok (some rs, rd2)) :
    IsErr (toUnit (lzmaDecompress rd opts snk)) := by
  rcases hres : lzmaDecompress rd opts snk with ⟨k, r⟩
  cases r with
  | ok rdF => exact absurd (oneshot_ok_header hres) h
  | error e => exact isErr_mk _ _

/-! ## `read_header` on prefixes -/

/-- total number of bytes the Header state needs: header plus the 5 range-coder bytes -/
def NN (opts : Options) : Nat := hdrLen opts.unpackedSize + 5

theorem NN_bounds (opts : Options) : 10 ≤ NN opts ∧ NN opts ≤ 18 := by
  unfold NN hdrLen
  cases opts.unpackedSize <;> simp

theorem rcnew_eq (a : Bytes) :
    RC.new ⟨a, false⟩ = if 5 ≤ a.length then
        .ok ({ range := 0xFFFFFFFF, code := beVal ((a.drop 1).take 4) }, ⟨a.drop 5, false⟩)
      else .error .eof := by
  cases a with
  | nil => simp [RC.new, Rd.readU8, Rd.endErr, bind, Except.bind]
  | cons b0 r =>
    by_cases h4 : 4 ≤ r.length
    · have : 5 ≤ (b0 :: r).length := by simp; omega
      simp [RC.new, Rd.readU8, Rd.readU32BE, Rd.readExact, bind, Except.bind, pure, Except.pure, h4, this]
    · have : ¬ 5 ≤ (b0 :: r).length := by simp; omega
      simp [RC.new, Rd.readU8, Rd.readU32BE, Rd.readExact, Rd.endErr, bind, Except.bind, pure, Except.pure, h4, this]

theorem rcnew_app {a : Bytes} {rc : RC} {rd2 : Rd} (h : RC.new ⟨a, false⟩ = .ok (rc, rd2)) :
    5 ≤ a.length ∧ rd2 = ⟨a.drop 5, false⟩ ∧
      ∀ y, RC.new ⟨a ++ y, false⟩ = .ok (rc, ⟨a.drop 5 ++ y, false⟩) := by
  rw [rcnew_eq] at h
  by_cases h5 : 5 ≤ a.length
  · rw [if_pos h5] at h
    simp only [Except.ok.injEq, Prod.mk.injEq] at h
    obtain ⟨rfl, rfl⟩ := h
    refine ⟨h5, rfl, fun y => ?_⟩
    rw [rcnew_eq, if_pos (by rw [List.length_append]; omega)]
    have h1 : ((a ++ y).drop 1).take 4 = (a.drop 1).take 4 := by
      rw [List.drop_append_of_le_length (by omega), List.take_append_of_le_length (by
        rw [List.length_drop]; omega)]
    rw [h1, List.drop_append_of_le_length h5]
  · rw [if_neg h5] at h; cases h

theorem rcnew_err_len {a : Bytes} {e : Err} (h : RC.new ⟨a, false⟩ = .error e) : a.length < 5 := by
  rw [rcnew_eq] at h
  by_cases h5 : 5 ≤ a.length
  · rw [if_pos h5] at h; cases h
  · omega

theorem hdrParams_app (u : UnpackedSizeOpt) (b : UInt8) (rest y : Bytes)
    (h : hdrLen u ≤ rest.length + 1) : hdrParams u b (rest ++ y) = hdrParams u b rest := by
  unfold hdrParams
  cases u with
  | useProvided x =>
    simp only [hdrLen] at h
    rw [List.take_append_of_le_length (by omega)]
    rfl
  | readFromHeader =>
    simp only [hdrLen] at h
    rw [List.take_append_of_le_length (by omega), List.drop_append_of_le_length (by omega),
      List.take_append_of_le_length (by rw [List.length_drop]; omega)]
  | readHeaderButUseProvided x =>
    simp only [hdrLen] at h
    rw [List.take_append_of_le_length (by omega)]
    rfl

theorem hdrLen_pos (u : UnpackedSizeOpt) : 5 ≤ hdrLen u := by
  unfold hdrLen; cases u <;> simp

theorem lreadHeader_app {x : Bytes} {opts : Options} {params : LzmaParams} {rd1 : Rd}
    (h : Lzma.readHeader ⟨x, false⟩ opts = .ok (params, rd1)) :
    hdrLen opts.unpackedSize ≤ x.length ∧ rd1 = ⟨x.drop (hdrLen opts.unpackedSize), false⟩ ∧
      ∀ y, Lzma.readHeader ⟨x ++ y, false⟩ opts =
        .ok (params, ⟨x.drop (hdrLen opts.unpackedSize) ++ y, false⟩) := by
  rw [readHeader_eq] at h
  cases x with
  | nil => simp at h
  | cons b rest =>
    simp only at h
    by_cases hb : b.toNat ≥ 225
    · rw [if_pos hb] at h; cases h
    · rw [if_neg hb] at h
      by_cases hl : rest.length + 1 < hdrLen opts.unpackedSize
      · rw [if_pos hl] at h; cases h
      · rw [if_neg hl] at h
        simp only [Except.ok.injEq, Prod.mk.injEq] at h
        obtain ⟨rfl, rfl⟩ := h
        have hlen : hdrLen opts.unpackedSize ≤ (b :: rest).length := by simp; omega
        refine ⟨hlen, rfl, fun y => ?_⟩
        rw [readHeader_eq]
        dsimp only [List.cons_append]
        rw [if_neg hb, if_neg (by rw [List.length_append]; omega),
          hdrParams_app _ _ _ _ (by omega)]
        have := List.drop_append_of_le_length (l₂ := y) hlen
        simp only [List.cons_append] at this
        rw [this]

theorem lreadHeader_err {x : Bytes} {opts : Options} {e : Err}
    (h : Lzma.readHeader ⟨x, false⟩ opts = .error e) :
    (e = .headerTooShort ∧ x.length < hdrLen opts.unpackedSize) ∨
    (e = .lzma ∧ ∀ y, Lzma.readHeader ⟨x ++ y, false⟩ opts = .error .lzma) := by
  rw [readHeader_eq] at h
  cases x with
  | nil =>
    simp only [Except.error.injEq] at h
    left
    exact ⟨h.symm, by have := hdrLen_pos opts.unpackedSize; simp; omega⟩
  | cons b rest =>
    simp only at h
    by_cases hb : b.toNat ≥ 225
    · rw [if_pos hb] at h
      simp only [Except.error.injEq] at h
      right
      refine ⟨h.symm, fun y => ?_⟩
      rw [readHeader_eq]
      dsimp only [List.cons_append]
      rw [if_pos hb]
    · rw [if_neg hb] at h
      by_cases hl : rest.length + 1 < hdrLen opts.unpackedSize
      · rw [if_pos hl] at h
        simp only [Except.error.injEq] at h
        left
        exact ⟨h.symm, by simpa using hl⟩
      · rw [if_neg hl] at h; cases h

/-- `read_header` reaching the Data state: it consumed exactly `NN` bytes, and does
the same on every extension of the input -/
theorem srh_some {x : Bytes} {opts : Options} {rs : RunState} {rd2 : Rd}
    (h : Stream.readHeader ⟨x, false⟩ opts = .ok (some rs, rd2)) :
    NN opts ≤ x.length ∧ rd2 = ⟨x.drop (NN opts), false⟩ ∧
      ∀ y, Stream.readHeader ⟨x ++ y, false⟩ opts = .ok (some rs, ⟨x.drop (NN opts) ++ y, false⟩) := by
  obtain ⟨params, rd1, decoder, rc, h1, h2, h3, rfl⟩ := sreadHeader_some_iff.mp h
  obtain ⟨hl1, rfl, ha1⟩ := lreadHeader_app h1
  obtain ⟨hl2, rfl, ha2⟩ := rcnew_app h3
  rw [List.length_drop] at hl2
  have hdd : (x.drop (hdrLen opts.unpackedSize)).drop 5 = x.drop (NN opts) := by
    rw [List.drop_drop]; rfl
  refine ⟨by unfold NN; omega, by rw [hdd], fun y => ?_⟩
  refine sreadHeader_some_iff.mpr ⟨params, _, decoder, rc, ha1 y, h2, ?_, rfl⟩
  rw [ha2 y, hdd]

/-- "need more data" happens only below `NN` bytes -/
theorem srh_none {x : Bytes} {opts : Options} {r : Rd}
    (h : Stream.readHeader ⟨x, false⟩ opts = .ok (none, r)) : x.length < NN opts := by
  rcases sreadHeader_cases ⟨x, false⟩ opts with ⟨rs, rd2, h'⟩ | ⟨rd2, _, h'⟩ | ⟨e, h', _⟩
  · rw [h] at h'; simp at h'
  · rcases h' with ⟨e, he⟩ | ⟨params, rd1, e, h1, h3⟩
    · rcases lreadHeader_err he with ⟨_, hl⟩ | ⟨rfl, hy⟩
      · unfold NN; omega
      · -- a fatal first byte is not "need more data"
        exfalso
        unfold Stream.readHeader at h
        rw [he] at h
        simp at h
    · obtain ⟨hl1, rfl, _⟩ := lreadHeader_app h1
      have := rcnew_err_len h3
      rw [List.length_drop] at this
      unfold NN; omega
  · rw [h] at h'; simp at h'

/-- a fatal header error persists on every extension: the one-shot decoder fails -/
theorem srh_err {x : Bytes} {opts : Options} {e : Err}
    (h : Stream.readHeader ⟨x, false⟩ opts = .error e) (y : Bytes) :
    ¬ ∃ rs rd2, Stream.readHeader ⟨x ++ y, false⟩ opts = .ok (some rs, rd2) := by
  rintro ⟨rs, rd2, hs⟩
  obtain ⟨params, rd1, decoder, rc, h1, h2, _, _⟩ := sreadHeader_some_iff.mp hs
  rcases sreadHeader_cases ⟨x, false⟩ opts with ⟨rs', rd2', h'⟩ | ⟨rd2', h', _⟩ | ⟨e', _, h'⟩
  · rw [h] at h'; simp at h'
  · rw [h] at h'; simp at h'
  · rcases h' with he | ⟨params', rd1', h1', h2'⟩
    · rcases lreadHeader_err he with ⟨rfl, _⟩ | ⟨_, hy⟩
      · unfold Stream.readHeader at h
        rw [he] at h
        simp at h
      · rw [hy y] at h1; cases h1
    · obtain ⟨_, _, ha⟩ := lreadHeader_app h1'
      rw [ha y] at h1
      simp only [Except.ok.injEq, Prod.mk.injEq] at h1
      obtain ⟨rfl, _⟩ := h1
      rw [h2'] at h2; cases h2

end StreamEq
end Lzma
