/-
  C07 (decoders are total) — layer 0: the "safe result" combinators, the reader
  primitives and the range decoder.

  `bad e` = the error is a model panic (`.panic _`) or a loop-bound hit (`.fuel`).
  `ESafe P x` = `x` is `.ok a` with `P a`, or an ordinary (non-`bad`) error.
  `MSafe P m` = the same for every sink.
-/
import LzmaProofs.Lemmas.Monad
namespace Lzma
namespace Safety

/-- the two results C07 excludes -/
def bad : Err → Bool
  | .panic _ => true
  | .fuel => true
  | _ => false

@[simp] theorem bad_io : bad .io = false := rfl
@[simp] theorem bad_eof : bad .eof = false := rfl
@[simp] theorem bad_lzma : bad .lzma = false := rfl
@[simp] theorem bad_xz : bad .xz = false := rfl
@[simp] theorem bad_hts : bad .headerTooShort = false := rfl
@[simp] theorem bad_panic (w : String) : bad (.panic w) = true := rfl
@[simp] theorem bad_fuel : bad .fuel = true := rfl

theorem bad_false_iff (e : Err) : bad e = false ↔ (∀ w, e ≠ .panic w) ∧ e ≠ .fuel := by
  cases e <;> simp [bad]

def ESafe (P : α → Prop) : Except Err α → Prop
  | .ok a => P a
  | .error e => bad e = false

def MSafe (P : α → Prop) (m : M α) : Prop := ∀ s, ESafe P (m s).2

@[simp] theorem ESafe_ok {P : α → Prop} {a : α} : ESafe P (.ok a) ↔ P a := Iff.rfl
@[simp] theorem ESafe_error {P : α → Prop} {e : Err} : ESafe P (.error e : Except Err α) ↔ bad e = false :=
  Iff.rfl
@[simp] theorem ESafe_pure {P : α → Prop} {a : α} : ESafe P (pure a : Except Err α) ↔ P a := Iff.rfl
@[simp] theorem ESafe_throw {P : α → Prop} {e : Err} :
    ESafe P (throw e : Except Err α) ↔ bad e = false := Iff.rfl

theorem ok_bind {a : α} {f : α → Except Err β} : (Except.ok a >>= f) = f a := rfl
theorem pure_bind' {a : α} {f : α → Except Err β} : ((pure a : Except Err α) >>= f) = f a := rfl
theorem error_bind {e : Err} {f : α → Except Err β} : ((Except.error e : Except Err α) >>= f) = .error e := rfl

theorem ESafe_throw_bind {Q : β → Prop} {e : Err} {f : α → Except Err β} (h : bad e = false) :
    ESafe Q ((throw e : Except Err α) >>= f) := h

theorem ESafe.mono {P Q : α → Prop} {x : Except Err α} (h : ESafe P x) (hpq : ∀ a, P a → Q a) :
    ESafe Q x := by
  cases x with
  | ok a => exact hpq a h
  | error e => exact h

theorem ESafe.bind {P : α → Prop} {Q : β → Prop} {x : Except Err α} {f : α → Except Err β}
    (hx : ESafe P x) (hf : ∀ a, P a → ESafe Q (f a)) : ESafe Q (x >>= f) := by
  cases x with
  | ok a => exact hf a hx
  | error e => exact hx

theorem ESafe.and {P Q : α → Prop} {x : Except Err α} (h1 : ESafe P x) (h2 : ESafe Q x) :
    ESafe (fun a => P a ∧ Q a) x := by
  cases x with
  | ok a => exact ⟨h1, h2⟩
  | error e => exact h1

theorem MSafe.mono {P Q : α → Prop} {m : M α} (h : MSafe P m) (hpq : ∀ a, P a → Q a) :
    MSafe Q m := fun s => (h s).mono hpq

theorem MSafe.bind {P : α → Prop} {Q : β → Prop} {m : M α} {f : α → M β}
    (hm : MSafe P m) (hf : ∀ a, P a → MSafe Q (f a)) : MSafe Q (m >>= f) := by
  intro s
  rw [bind_run]
  have h := hm s
  rcases hms : m s with ⟨s', r⟩
  rw [hms] at h
  cases r with
  | ok a => exact hf a h s'
  | error e => exact h

@[simp] theorem MSafe_pure {P : α → Prop} {a : α} : MSafe P (pure a : M α) ↔ P a :=
  ⟨fun h => h default, fun h _ => h⟩
@[simp] theorem MSafe_Mpure {P : α → Prop} {a : α} : MSafe P (M.pure a : M α) ↔ P a :=
  ⟨fun h => h default, fun h _ => h⟩
@[simp] theorem MSafe_throwM {P : α → Prop} {e : Err} : MSafe P (throwM e : M α) ↔ bad e = false :=
  ⟨fun h => h default, fun h _ => h⟩

theorem MSafe.liftE {P : α → Prop} {x : Except Err α} (h : ESafe P x) : MSafe P (liftE x) := by
  cases x with
  | ok a => exact fun _ => h
  | error e => exact fun _ => h

theorem MSafe_liftE_iff {P : α → Prop} {x : Except Err α} : MSafe P (Lzma.liftE x) ↔ ESafe P x := by
  constructor
  · intro h
    cases x with
    | ok a => exact h default
    | error e => exact h default
  · exact MSafe.liftE

theorem liftE_ok' {a : α} {f : α → M β} : (Lzma.liftE (Except.ok a) >>= f) = f a := rfl

theorem M_pure_bind {a : α} {f : α → M β} : ((pure a : M α) >>= f) = f a := rfl

theorem MSafe_throw_bind {Q : β → Prop} {e : Err} {f : α → M β} (h : bad e = false) :
    MSafe Q ((throwM e : M α) >>= f) := fun _ => h

theorem MSafe.of_run {P : α → Prop} {m : M α} (h : ∀ s, ESafe P (m s).2) : MSafe P m := h

theorem ESafe.ne_panic {P : α → Prop} {r : Except Err α} (h : ESafe P r) (w : String) :
    r ≠ .error (.panic w) := by
  intro he; rw [he] at h; exact absurd h (by simp)

theorem ESafe.ne_fuel {P : α → Prop} {r : Except Err α} (h : ESafe P r) : r ≠ .error .fuel := by
  intro he; rw [he] at h; exact absurd h (by simp)

/-! ## sink primitives never fail badly -/

theorem write1_safe (s : Sink) (bs : Bytes) : ESafe (fun _ => True) (s.write1 bs).2 := by
  unfold Sink.write1
  split <;> simp

theorem writeAllList_safe (bs : Bytes) : MSafe (fun _ => True) (writeAllList bs) := by
  intro s
  fun_induction writeAllList bs s with
  | case1 => simp
  | case2 bs s _ s' e h => have := write1_safe s bs; rw [h] at this; simpa using this
  | case3 => simp
  | case4 => simp
  | case5 _ _ _ _ _ _ _ _ ih => exact ih

theorem writeAll_safe (bs : Array UInt8) : MSafe (fun _ => True) (writeAll bs) := by
  intro s
  unfold writeAll
  split
  · simp
  · split
    · simp
    · exact writeAllList_safe _ s

theorem writeBytes_safe (bs : Bytes) : MSafe (fun _ => True) (writeBytes bs) := writeAll_safe _

theorem flushSink_safe : MSafe (fun _ => True) flushSink := by
  intro s
  unfold flushSink
  split <;> simp

/-! ## checked arithmetic -/

theorem subChk_safe {what : String} {a b : Nat} (h : b ≤ a) : subChk what a b = .ok (a - b) := by
  simp [subChk, h]

theorem addChk_safe {what : String} {bound a b : Nat} (h : a + b < bound) :
    addChk bound what a b = .ok (a + b) := by
  simp [addChk, h]

theorem mulChk_safe {what : String} {bound a b : Nat} (h : a * b < bound) :
    mulChk bound what a b = .ok (a * b) := by
  simp [mulChk, h]

/-! ## reader primitives -/

theorem bad_endErr (r : Rd) : bad r.endErr = false := by
  unfold Rd.endErr; split <;> rfl

theorem readU8_safe (r : Rd) :
    ESafe (fun x => x.2.rem.length + 1 = r.rem.length) r.readU8 := by
  unfold Rd.readU8
  split
  · rename_i h; simp [h]
  · simp [bad_endErr]

theorem readExact_safe (r : Rd) (n : Nat) :
    ESafe (fun x => x.2.rem.length + n = r.rem.length ∧ x.1.length = n) (r.readExact n) := by
  unfold Rd.readExact
  split
  · simp; omega
  · simp [bad_endErr]

theorem fillBuf_safe (r : Rd) : ESafe (fun _ => True) r.fillBuf := by
  unfold Rd.fillBuf; split <;> simp

theorem isEof_safe (r : Rd) : ESafe (fun _ => True) r.isEof := by
  unfold Rd.isEof; split
  · split <;> simp
  · simp

theorem leVal_lt : ∀ bs : Bytes, leVal bs < 256 ^ bs.length
  | [] => by simp [leVal]
  | b :: r => by
    have ih := leVal_lt r
    have hb := b.toNat_lt
    simp only [leVal, List.length_cons, Nat.pow_succ]
    omega

theorem beVal_foldl_lt (bs : Bytes) : ∀ acc n, acc < 256 ^ n →
    bs.foldl (fun acc b => acc * 256 + b.toNat) acc < 256 ^ (n + bs.length) := by
  induction bs with
  | nil => intro acc n h; simpa using h
  | cons b r ih =>
    intro acc n h
    have hb := b.toNat_lt
    have := ih (acc * 256 + b.toNat) (n + 1) (by rw [Nat.pow_succ]; omega)
    simpa [List.foldl, Nat.add_assoc, Nat.add_comm 1] using this

theorem beVal_lt (bs : Bytes) : beVal bs < 256 ^ bs.length := by
  have := beVal_foldl_lt bs 0 0 (by simp)
  simpa [beVal] using this

theorem readU16BE_safe (r : Rd) :
    ESafe (fun x => x.2.rem.length + 2 = r.rem.length ∧ x.1 < 65536) r.readU16BE := by
  unfold Rd.readU16BE
  refine (readExact_safe r 2).bind ?_
  rintro ⟨bs, r'⟩ ⟨h1, h2⟩
  have := beVal_lt bs
  rw [h2] at this
  exact ⟨h1, this⟩

theorem readU32BE_safe (r : Rd) :
    ESafe (fun x => x.2.rem.length + 4 = r.rem.length ∧ x.1 < 4294967296) r.readU32BE := by
  unfold Rd.readU32BE
  refine (readExact_safe r 4).bind ?_
  rintro ⟨bs, r'⟩ ⟨h1, h2⟩
  have := beVal_lt bs
  rw [h2] at this
  exact ⟨h1, this⟩

theorem readU32LE_safe (r : Rd) :
    ESafe (fun x => x.2.rem.length + 4 = r.rem.length ∧ x.1 < 4294967296) r.readU32LE := by
  unfold Rd.readU32LE
  refine (readExact_safe r 4).bind ?_
  rintro ⟨bs, r'⟩ ⟨h1, h2⟩
  have := leVal_lt bs
  rw [h2] at this
  exact ⟨h1, this⟩

theorem readU64LE_safe (r : Rd) :
    ESafe (fun x => x.2.rem.length + 8 = r.rem.length ∧ x.1 < 18446744073709551616) r.readU64LE := by
  unfold Rd.readU64LE
  refine (readExact_safe r 8).bind ?_
  rintro ⟨bs, r'⟩ ⟨h1, h2⟩
  have := leVal_lt bs
  rw [h2] at this
  exact ⟨h1, this⟩

theorem readTag_safe (r : Rd) (tag : Bytes) :
    ESafe (fun x => x.2.rem.length + tag.length = r.rem.length) (r.readTag tag) := by
  unfold Rd.readTag
  refine (readExact_safe r tag.length).bind ?_
  rintro ⟨bs, r'⟩ ⟨h1, _⟩
  exact h1

theorem flushZeroPadding_safe (r : Rd) :
    ESafe (fun x => x.2.rem.length ≤ r.rem.length) r.flushZeroPadding := by
  unfold Rd.flushZeroPadding
  split
  · split <;> simp
  · split
    · split <;> simp
    · simp

theorem split_length (r : Rd) (n : Nat) :
    (r.split n).1.rem.length + (r.split n).2.length = r.rem.length := by
  simp [Rd.split]; omega

theorem unsplit_length (r inner : Rd) (rest : Bytes) :
    (r.unsplit inner rest).rem.length = inner.rem.length + rest.length := by
  simp [Rd.unsplit]

end Safety
end Lzma
