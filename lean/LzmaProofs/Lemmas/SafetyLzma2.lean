/-
  C07 — layer 7: LZMA2: `parseUncompressed`, `parseLzma`, `chunkLoop`,
  `Lzma2Decoder.{new, reset, decompress}`, `lzma2Decompress`.
-/
import LzmaProofs.Lemmas.SafetyLzma
namespace Lzma
namespace Safety

/-- invariant of an `Lzma2Decoder` object -/
def Lzma2DecoderInv (d : Lzma2Decoder) : Prop := DStateInv d.lzmaState

theorem zeroProps_ok : PropsOk Lzma2Decoder.zeroProps := by decide

theorem Lzma2Decoder_new_safe : ESafe Lzma2DecoderInv Lzma2Decoder.new := by
  unfold Lzma2Decoder.new
  refine (DState_new_safe zeroProps_ok none).bind ?_
  intro st ⟨hst, _⟩
  exact ESafe_pure.mpr hst

theorem Lzma2Decoder_reset_safe {d : Lzma2Decoder} (hd : Lzma2DecoderInv d) :
    ESafe Lzma2DecoderInv d.reset := by
  unfold Lzma2Decoder.reset
  refine (resetState_safe hd zeroProps_ok).bind ?_
  intro st ⟨hst, _⟩
  exact ESafe_pure.mpr hst

theorem parseUncompressed_safe (accum : Accum) (rd : Rd) (resetDict : Bool) (ha : AccumInv accum) :
    MSafe (fun x => AccumInv x.1 ∧ x.2.rem.length ≤ rd.rem.length)
      (Lzma2Decoder.parseUncompressed accum rd resetDict) := by
  unfold Lzma2Decoder.parseUncompressed
  refine MSafe.bind (MSafe.liftE (lzErr_safe (readU16BE_safe rd))) ?_
  rintro ⟨u, rd1⟩ ⟨h1, _⟩
  dsimp only
  have tail : ∀ accum1 : Accum, AccumInv accum1 →
      MSafe (fun x => AccumInv x.1 ∧ x.2.rem.length ≤ rd.rem.length) (do
      let x ← liftE (lzErr (rd1.readExact (u + 1)))
      pure (accum1.appendBytes x.1, x.2)) := by
    intro accum1 ha1
    refine MSafe.bind (MSafe.liftE (lzErr_safe (readExact_safe rd1 (u + 1)))) ?_
    rintro ⟨buf, rd2⟩ ⟨h2, _⟩
    refine MSafe_pure.mpr ⟨AccumInv_appendBytes ha1 _, ?_⟩
    dsimp only at h1 h2 ⊢; omega
  split
  · exact MSafe.bind (Accum.reset_safe _) (fun a ha1 => tail a ha1)
  · exact tail accum ha

theorem lzma2_props_of_byte {pb : Nat} (h : ¬ pb ≥ 225) :
    PropsOk { lc := pb % 9, lp := pb / 9 % 5, pb := pb / 9 / 5 } := props_of_byte h

theorem parseLzma_safe {d : Lzma2Decoder} (hd : Lzma2DecoderInv d) (accum : Accum) (rd : Rd)
    (status : Nat) (ha : AccumInv accum) :
    MSafe (fun x => Lzma2DecoderInv x.1 ∧ AccumInv x.2.1 ∧ x.2.2.rem.length ≤ rd.rem.length)
      (d.parseLzma accum rd status) := by
  unfold Lzma2Decoder.parseLzma
  extract_lets cls rDict rState rProps jp1
  split
  · exact MSafe_throw_bind rfl
  simp -zeta only [jp1]
  refine MSafe.bind (MSafe.liftE (lzErr_safe (readU16BE_safe rd))) ?_
  rintro ⟨u, rd1⟩ ⟨h1, _⟩
  dsimp -zeta only at h1 ⊢
  extract_lets usz
  refine MSafe.bind (MSafe.liftE (lzErr_safe (readU16BE_safe rd1))) ?_
  rintro ⟨p, rd2⟩ ⟨h2, _⟩
  dsimp -zeta only at h2 ⊢
  extract_lets psz jp2
  have hjp2 : ∀ accum1, AccumInv accum1 → MSafe (fun x => Lzma2DecoderInv x.1 ∧ AccumInv x.2.1 ∧ x.2.2.rem.length ≤ rd.rem.length)
      (jp2 accum1) := by
    intro accum1 ha1
    simp -zeta only [jp2]
    extract_lets jp3 jp5
    have hjp3 : ∀ x : DState × Rd, DStateInv x.1 → x.2.rem.length ≤ rd2.rem.length →
        MSafe (fun x => Lzma2DecoderInv x.1 ∧ AccumInv x.2.1 ∧ x.2.2.rem.length ≤ rd.rem.length) (jp3 x) := by
      rintro ⟨st, rd3⟩ hst h3
      simp -zeta only [jp3]
      extract_lets st'
      have hlen := split_length rd3 psz
      refine MSafe.bind (MSafe.liftE (lzErr_safe (RC_new_safe (rd3.split psz).1))) ?_
      rintro ⟨rc, taken1⟩ ⟨hrc, h4⟩
      refine MSafe.bind (processMode_safe (ω := Accum) .finish taken1 (setUnpackedSize_inv hst _)
        ha1 hrc) ?_
      rintro ⟨st2, accum2, rc2, taken2⟩ ⟨hst2, ha2, _, h5⟩
      refine MSafe.bind (MSafe.liftE (isFinishedOk_safe rc2 taken2)) ?_
      intro fin _
      extract_lets jp4
      have hjp4 : MSafe (fun x => Lzma2DecoderInv x.1 ∧ AccumInv x.2.1 ∧ x.2.2.rem.length ≤ rd.rem.length) (jp4 ()) := by
        refine MSafe_pure.mpr ⟨hst2, ha2, ?_⟩
        dsimp only at h1 h2 h3 h4 h5 ⊢
        rw [unsplit_length]
        omega
      split
      · exact MSafe_throw_bind rfl
      · exact hjp4
    split
    · have hjp5 : ∀ x : Props × Rd, PropsOk x.1 → x.2.rem.length ≤ rd2.rem.length →
          MSafe (fun x => Lzma2DecoderInv x.1 ∧ AccumInv x.2.1 ∧ x.2.2.rem.length ≤ rd.rem.length) (jp5 x) := by
        rintro ⟨np, rd3⟩ hnp h3
        simp -zeta only [jp5]
        refine MSafe.bind (MSafe.liftE (resetState_safe hd hnp)) ?_
        intro st ⟨hst, _⟩
        rw [M_pure_bind]
        exact hjp3 _ hst h3
      split
      · refine MSafe.bind (MSafe.liftE (lzErr_safe (readU8_safe rd2))) ?_
        rintro ⟨props, rd3⟩ h3
        extract_lets pb lc pb' lp pb'' jp7 jp6
        split
        · exact MSafe_throw_bind rfl
        · rename_i hpb
          simp -zeta only [jp6]
          split
          · exact MSafe_throw_bind rfl
          · simp -zeta only [jp7]
            rw [M_pure_bind]
            refine hjp5 _ (props_of_byte hpb) ?_
            dsimp only at h3 ⊢; omega
      · rw [M_pure_bind]
        exact hjp5 _ ⟨hd.lc, hd.lp, hd.pb⟩ (Nat.le_refl _)
    · rw [M_pure_bind]
      exact hjp3 _ hd (Nat.le_refl _)
  split
  · exact MSafe.bind (Accum.reset_safe _) (fun a ha1 => hjp2 a ha1)
  · rw [M_pure_bind]
    exact hjp2 _ ha

theorem chunkLoop_safe : ∀ (fuel : Nat) (d : Lzma2Decoder) (accum : Accum) (rd : Rd),
    Lzma2DecoderInv d → AccumInv accum → rd.rem.length < fuel →
    MSafe (fun x => Lzma2DecoderInv x.1 ∧ AccumInv x.2.1 ∧ x.2.2.rem.length ≤ rd.rem.length)
      (Lzma2Decoder.chunkLoop fuel d accum rd) := by
  intro fuel
  induction fuel with
  | zero => intro d accum rd _ _ hf; omega
  | succ fuel ih =>
    intro d accum rd hd ha hf
    unfold Lzma2Decoder.chunkLoop
    refine MSafe.bind (MSafe.liftE (lzErr_safe (readU8_safe rd))) ?_
    rintro ⟨status, rd1⟩ h1
    dsimp only at h1 ⊢
    split
    · exact MSafe_pure.mpr ⟨hd, ha, by dsimp only; omega⟩
    · split
      · refine MSafe.bind (parseUncompressed_safe accum rd1 true ha) ?_
        rintro ⟨accum1, rd2⟩ ⟨ha1, h2⟩
        dsimp only at h2 ⊢
        refine (ih d accum1 rd2 hd ha1 (by omega)).mono ?_
        rintro ⟨a, b, c⟩ ⟨h3, h3', h4⟩
        exact ⟨h3, h3', by dsimp only at h4 ⊢; omega⟩
      · split
        · refine MSafe.bind (parseUncompressed_safe accum rd1 false ha) ?_
          rintro ⟨accum1, rd2⟩ ⟨ha1, h2⟩
          dsimp only at h2 ⊢
          refine (ih d accum1 rd2 hd ha1 (by omega)).mono ?_
          rintro ⟨a, b, c⟩ ⟨h3, h3', h4⟩
          exact ⟨h3, h3', by dsimp only at h4 ⊢; omega⟩
        · refine MSafe.bind (parseLzma_safe hd accum rd1 _ ha) ?_
          rintro ⟨d1, accum1, rd2⟩ ⟨hd1, ha1, h2⟩
          dsimp only at h2 ⊢
          refine (ih d1 accum1 rd2 hd1 ha1 (by omega)).mono ?_
          rintro ⟨a, b, c⟩ ⟨h3, h3', h4⟩
          exact ⟨h3, h3', by dsimp only at h4 ⊢; omega⟩

theorem Lzma2Decoder_decompress_safe {d : Lzma2Decoder} (hd : Lzma2DecoderInv d) (rd : Rd) :
    MSafe (fun x => Lzma2DecoderInv x.1 ∧ x.2.rem.length ≤ rd.rem.length) (d.decompress rd) := by
  unfold Lzma2Decoder.decompress
  dsimp only
  refine MSafe.bind (chunkLoop_safe _ d _ rd hd (AccumInv_fromStream _) (by omega)) ?_
  rintro ⟨d1, accum1, rd1⟩ ⟨hd1, _, h1⟩
  dsimp only
  refine MSafe.bind (Accum.finish_safe _) ?_
  intro _ _
  exact MSafe_pure.mpr ⟨hd1, h1⟩

theorem lzma2Decompress_safe (rd : Rd) :
    MSafe (fun rd' => rd'.rem.length ≤ rd.rem.length) (lzma2Decompress rd) := by
  unfold lzma2Decompress
  refine MSafe.bind (MSafe.liftE Lzma2Decoder_new_safe) ?_
  intro d hd
  refine MSafe.bind (Lzma2Decoder_decompress_safe hd rd) ?_
  rintro ⟨_, rd1⟩ ⟨_, h1⟩
  exact MSafe_pure.mpr h1

theorem lzma2Decompress_no_panic (rd : Rd) (snk : Sink) (w : String) :
    (lzma2Decompress rd snk).2 ≠ .error (.panic w) :=
  (lzma2Decompress_safe rd snk).ne_panic w

theorem lzma2Decompress_terminates (rd : Rd) (snk : Sink) :
    (lzma2Decompress rd snk).2 ≠ .error .fuel :=
  (lzma2Decompress_safe rd snk).ne_fuel

end Safety
end Lzma
