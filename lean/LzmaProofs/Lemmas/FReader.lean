/-
  Lemmas for C13: the fragmented reader `FRd` against the flat reader `Rd`.
-/
import LzmaModel.FReader
namespace Lzma

/-! ## Relating two `Except Err` results -/

/-- both succeed with related values, or both fail with the same error -/
def RelE (R : α → β → Prop) : Except Err α → Except Err β → Prop
  | .ok a, .ok b => R a b
  | .error e, .error e' => e = e'
  | _, _ => False

@[simp] theorem RelE_ok_ok {R : α → β → Prop} {a b} : RelE R (.ok a) (.ok b) ↔ R a b := Iff.rfl
@[simp] theorem RelE_err_err {R : α → β → Prop} {e e'} :
    RelE R (.error e) (.error e') ↔ e = e' := Iff.rfl
@[simp] theorem RelE_ok_err {R : α → β → Prop} {a e} : RelE R (.ok a) (.error e) ↔ False := Iff.rfl
@[simp] theorem RelE_err_ok {R : α → β → Prop} {b e} : RelE R (.error e) (.ok b) ↔ False := Iff.rfl
@[simp] theorem RelE_pure_pure {R : α → β → Prop} {a b} :
    RelE R (pure a : Except Err α) (pure b : Except Err β) ↔ R a b := Iff.rfl
@[simp] theorem RelE_throw_throw {R : α → β → Prop} {e e' : Err} :
    RelE R (throw e : Except Err α) (throw e' : Except Err β) ↔ e = e' := Iff.rfl

/-- `RelE` spelled out: success on either side is matched by a related success
on the other; errors are the same. -/
theorem RelE_iff {R : α → β → Prop} {x : Except Err α} {y : Except Err β} :
    RelE R x y ↔
      (∀ a, x = .ok a → ∃ b, y = .ok b ∧ R a b) ∧
      (∀ b, y = .ok b → ∃ a, x = .ok a ∧ R a b) ∧
      (∀ e, x = .error e ↔ y = .error e) := by
  cases x with
  | error e => cases y with
    | error e' =>
      simp only [RelE_err_err]
      constructor
      · intro h; subst h; simp
      · intro h; have := (h.2.2 e).1 rfl; cases this; rfl
    | ok b =>
      simp only [RelE_err_ok, false_iff]
      intro h; have := (h.2.2 e).1 rfl; cases this
  | ok a => cases y with
    | error e' =>
      simp only [RelE_ok_err, false_iff]
      intro h; have := (h.2.2 e').2 rfl; cases this
    | ok b =>
      simp only [RelE_ok_ok]
      constructor
      · intro h; simp [h]
      · intro h; obtain ⟨b', hb, hr⟩ := h.1 a rfl; cases hb; exact hr

theorem RelE.mono {R S : α → β → Prop} {x : Except Err α} {y : Except Err β}
    (h : RelE R x y) (hRS : ∀ a b, R a b → S a b) : RelE S x y := by
  cases x <;> cases y <;> simp_all [RelE]

/-- **Lifting lemma** (relational parametricity by hand): related computations
followed by pointwise related continuations are related. -/
theorem RelE.bind {R : α → β → Prop} {S : γ → δ → Prop}
    {x : Except Err α} {y : Except Err β} {f : α → Except Err γ} {g : β → Except Err δ}
    (hxy : RelE R x y) (hfg : ∀ a b, R a b → RelE S (f a) (g b)) :
    RelE S (x >>= f) (y >>= g) := by
  cases x with
  | error e => cases y with
    | error e' => exact hxy
    | ok b => exact hxy.elim
  | ok a => cases y with
    | error e' => exact hxy.elim
    | ok b => exact hfg a b hxy

theorem RelE.map {R : α → β → Prop} {S : γ → δ → Prop}
    {x : Except Err α} {y : Except Err β} {f : α → γ} {g : β → δ}
    (hxy : RelE R x y) (hfg : ∀ a b, R a b → S (f a) (g b)) :
    RelE S (f <$> x) (g <$> y) := by
  cases x with
  | error e => cases y with
    | error e' => exact hxy
    | ok b => exact hxy.elim
  | ok a => cases y with
    | error e' => exact hxy.elim
    | ok b => exact hfg a b hxy

/-- two results related to a common third one are related to each other -/
theorem RelE.join {R : α → γ → Prop} {R' : β → γ → Prop} {T : α → β → Prop}
    {x : Except Err α} {y : Except Err β} {z : Except Err γ}
    (h1 : RelE R x z) (h2 : RelE R' y z) (hT : ∀ a b c, R a c → R' b c → T a b) :
    RelE T x y := by
  cases x with
  | error e => cases z with
    | error e'' => cases y with
      | error e' => exact Eq.trans h1 (Eq.symm h2)
      | ok b => exact h2.elim
    | ok c => exact h1.elim
  | ok a => cases z with
    | error e'' => exact h1.elim
    | ok c => cases y with
      | error e' => exact h2.elim
      | ok b => exact hT a b c h1 h2

/-- a reader-independent computation is related to itself -/
theorem RelE.refl_eq (x : Except Err α) : RelE (· = ·) x x := by
  cases x <;> simp [RelE]

/-- pairs of a value and a reader: same value, related readers -/
def RelV {ρ₁ ρ₂ : Type} (S : ρ₁ → ρ₂ → Prop) (x : α × ρ₁) (y : α × ρ₂) : Prop :=
  x.1 = y.1 ∧ S x.2 y.2

namespace FRd

/-! ## The simulation relation -/

/-- `fr` is a (well-formed) fragmentation of the flat reader `rd` -/
def Sim (fr : FRd) (rd : Rd) : Prop := fr.WF ∧ fr.toRd = rd

/-- same value, related readers -/
abbrev SimV (x : α × FRd) (y : α × Rd) : Prop := RelV Sim x y

theorem Sim.self {fr : FRd} (h : fr.WF) : Sim fr fr.toRd := ⟨h, rfl⟩

theorem Sim.rem {fr : FRd} {rd : Rd} (h : Sim fr rd) : rd.rem = fr.join := by
  rw [← h.2]; rfl
theorem Sim.bad {fr : FRd} {rd : Rd} (h : Sim fr rd) : rd.bad = fr.bad := by
  rw [← h.2]; rfl

/-- related readers have consumed the same number of bytes -/
theorem Sim.length {fr : FRd} {rd : Rd} (h : Sim fr rd) : fr.join.length = rd.rem.length := by
  rw [h.rem]

/-! ## basic computation rules -/

@[simp] theorem join_mk (fs : List Bytes) (b : Bool) : (FRd.mk fs b).join = fs.flatten := rfl
@[simp] theorem toRd_mk (fs : List Bytes) (b : Bool) :
    (FRd.mk fs b).toRd = { rem := fs.flatten, bad := b } := rfl
@[simp] theorem toRd_rem (r : FRd) : r.toRd.rem = r.join := rfl
@[simp] theorem toRd_bad (r : FRd) : r.toRd.bad = r.bad := rfl
@[simp] theorem WF_mk (fs : List Bytes) (b : Bool) : (FRd.mk fs b).WF ↔ ∀ f ∈ fs, f ≠ [] := Iff.rfl
@[simp] theorem endErr_mk (fs : List Bytes) (b : Bool) :
    (FRd.mk fs b).endErr = if b then .io else .eof := rfl

theorem WF_ofFrags (fs : List Bytes) (b : Bool) : (ofFrags fs b).WF := by
  intro f hf
  simp [ofFrags] at hf
  exact hf.2

theorem join_ofFrags (fs : List Bytes) (b : Bool) : (ofFrags fs b).join = fs.flatten := by
  simp only [ofFrags, join]
  induction fs with
  | nil => rfl
  | cons f rest ih =>
    cases f with
    | nil => simpa [List.filter] using ih
    | cons x t => simp [List.filter, ih]

/-- in a well-formed reader the content is empty iff there is no piece left -/
theorem join_eq_nil_iff {r : FRd} (h : r.WF) : r.join = [] ↔ r.frags = [] := by
  cases r with
  | mk fs b =>
    cases fs with
    | nil => simp
    | cons f rest =>
      have := h f (by simp)
      simp [this]

@[simp] theorem fillBuf_nil (b : Bool) :
    (FRd.mk [] b).fillBuf = if b then .error .io else .ok [] := rfl
@[simp] theorem fillBuf_cons (f : Bytes) (rest : List Bytes) (b : Bool) :
    (FRd.mk (f :: rest) b).fillBuf = .ok f := rfl
@[simp] theorem consume_nil (b : Bool) (n : Nat) : (FRd.mk [] b).consume n = FRd.mk [] b := rfl
theorem consume_cons (f : Bytes) (rest : List Bytes) (b : Bool) (n : Nat) :
    (FRd.mk (f :: rest) b).consume n =
      if n < f.length then FRd.mk (f.drop n :: rest) b else FRd.mk rest b := by
  simp only [consume]

/-! ## `fill_buf` / `consume` -/

/-- `fill_buf` fails exactly when the flat one does (end of data on a `bad`
reader), with the same error; otherwise it exposes a prefix of the remaining
bytes, empty exactly at EOF. -/
theorem fillBuf_spec {r : FRd} (h : r.WF) :
    (∀ e, r.fillBuf = .error e ↔ r.toRd.fillBuf = .error e) ∧
    (∀ piece, r.fillBuf = .ok piece →
      r.toRd.fillBuf = .ok () ∧ (∃ t, r.join = piece ++ t) ∧ (piece = [] ↔ r.join = [])) := by
  cases r with
  | mk fs b =>
    cases fs with
    | nil => cases b <;> simp [Rd.fillBuf]
    | cons f rest =>
      have hf : f ≠ [] := h f (by simp)
      simp [Rd.fillBuf, hf]

theorem consume_spec {r : FRd} (h : r.WF) {piece : Bytes} (hp : r.fillBuf = .ok piece)
    {n : Nat} (hn : n ≤ piece.length) :
    (r.consume n).WF ∧ (r.consume n).bad = r.bad ∧ (r.consume n).join = r.join.drop n := by
  cases r with
  | mk fs b =>
    cases fs with
    | nil => cases b <;> simp_all
    | cons f rest =>
      simp only [fillBuf_cons, Except.ok.injEq] at hp
      subst hp
      have hrest : ∀ g ∈ rest, g ≠ [] := fun g hg => h g (by simp [hg])
      rw [consume_cons]
      split
      · rename_i hlt
        refine ⟨?_, rfl, ?_⟩
        · intro g hg
          simp only [List.mem_cons] at hg
          rcases hg with rfl | hg
          · intro h0; simp at h0; omega
          · exact hrest g hg
        · simp [List.drop_append, show n - f.length = 0 by omega]
      · rename_i hge
        have : n = f.length := by omega
        subst this
        exact ⟨hrest, rfl, by simp⟩

/-! ## `read` -/

@[simp] theorem read_nil (b : Bool) (cap : Nat) :
    (FRd.mk [] b).read cap = if b then .error .io else .ok ([], FRd.mk [] b) := by
  cases b <;> simp [read]

theorem read_cons (f : Bytes) (rest : List Bytes) (b : Bool) (cap : Nat) :
    (FRd.mk (f :: rest) b).read cap =
      .ok (f.take cap, (FRd.mk (f :: rest) b).consume (min cap f.length)) := by
  simp [read]

/-- One `read` call: returns a prefix of the remaining bytes no longer than
`cap` and than the current piece, consumes exactly that prefix; returns nothing
only for `cap = 0` or at EOF. -/
theorem read_ok {r : FRd} (h : r.WF) {cap : Nat} {bs : Bytes} {r' : FRd}
    (hr : r.read cap = .ok (bs, r')) :
    r'.WF ∧ r'.bad = r.bad ∧ r.join = bs ++ r'.join ∧ bs.length ≤ cap ∧
    (bs = [] ↔ cap = 0 ∨ r.join = []) := by
  cases r with
  | mk fs b =>
    cases fs with
    | nil =>
      cases b
      · simp only [read_nil] at hr
        cases hr; simp
      · simp at hr
    | cons f rest =>
      have hf : f ≠ [] := h f (by simp)
      rw [read_cons] at hr
      cases hr
      have hc := consume_spec h (piece := f) rfl (n := min cap f.length) (Nat.min_le_right _ _)
      refine ⟨hc.1, hc.2.1, ?_, by simp; omega, ?_⟩
      · rw [hc.2.2]
        simp only [join_mk, List.flatten_cons]
        by_cases hle : cap ≤ f.length
        · rw [Nat.min_eq_left hle, List.drop_append_of_le_length hle, ← List.append_assoc,
            List.take_append_drop]
        · have hle' : f.length ≤ cap := by omega
          rw [Nat.min_eq_right hle', List.take_of_length_le hle', List.drop_append_of_le_length (Nat.le_refl _)]
          simp
      · simp [hf]

/-- `read` fails exactly at the end of a `bad` reader, with an I/O error. -/
theorem read_error {r : FRd} (h : r.WF) {cap : Nat} {e : Err} :
    r.read cap = .error e ↔ (r.join = [] ∧ r.bad = true ∧ e = .io) := by
  cases r with
  | mk fs b =>
    cases fs with
    | nil => cases b <;> simp [eq_comm]
    | cons f rest =>
      have hf : f ≠ [] := h f (by simp)
      simp [read_cons, hf]

/-! ## `read_exact` -/

theorem readExact_zero (r : FRd) : r.readExact 0 = .ok ([], r) := by
  unfold readExact; simp

/-- the exact behaviour of the `read` loop on well-formed pieces -/
theorem readExact_frags (fs : List Bytes) (bad : Bool) (hwf : ∀ f ∈ fs, f ≠ []) (n : Nat) :
    (n ≤ fs.flatten.length →
      ∃ fs', (FRd.mk fs bad).readExact n = .ok (fs.flatten.take n, FRd.mk fs' bad) ∧
        (∀ f ∈ fs', f ≠ []) ∧ fs'.flatten = fs.flatten.drop n) ∧
    (fs.flatten.length < n →
      (FRd.mk fs bad).readExact n = .error (if bad then .io else .eof)) := by
  induction fs generalizing n with
  | nil =>
    constructor
    · intro hn
      have : n = 0 := by simpa using hn
      subst this
      exact ⟨[], by simp [readExact_zero], by simp, by simp⟩
    · intro hn
      have hn0 : n ≠ 0 := by simp at hn; omega
      unfold readExact
      cases bad <;> simp [hn0]
  | cons f rest ih =>
    have hf : f ≠ [] := hwf f (by simp)
    have hrest : ∀ g ∈ rest, g ≠ [] := fun g hg => hwf g (by simp [hg])
    have hflen : 0 < f.length := List.length_pos_iff.mpr hf
    by_cases hn0 : n = 0
    · subst hn0
      exact ⟨fun _ => ⟨f :: rest, by simp [readExact_zero], hwf, by simp⟩, fun h => by omega⟩
    · have htake : (f.take n).isEmpty = false := by
        cases f with
        | nil => exact absurd rfl hf
        | cons x t =>
          cases n with
          | zero => exact absurd rfl hn0
          | succ m => rfl
      by_cases hlt : n < f.length
      · -- the request is served from the current piece
        constructor
        · intro _
          refine ⟨f.drop n :: rest, ?_, ?_, ?_⟩
          · unfold readExact
            simp only [hn0, if_false, read_cons, htake, dite_false, Bool.false_eq_true]
            have hmin : min n f.length = n := by omega
            simp only [hmin, consume_cons, hlt, if_true, List.length_take, Nat.sub_self,
              readExact_zero]
            simp [List.take_append_of_le_length (Nat.le_of_lt hlt)]
          · intro g hg
            simp only [List.mem_cons] at hg
            rcases hg with rfl | hg
            · intro h0; simp at h0; omega
            · exact hrest g hg
          · simp [List.drop_append_of_le_length (Nat.le_of_lt hlt)]
        · intro h; simp at h; omega
      · -- the whole piece is taken, continue with the next one
        have hge : f.length ≤ n := by omega
        have hmin : min n f.length = f.length := by omega
        have hstep_ok : ∀ cs r'', (FRd.mk rest bad).readExact (n - f.length) = .ok (cs, r'') →
            (FRd.mk (f :: rest) bad).readExact n = .ok (f ++ cs, r'') := by
          intro cs r'' hrec
          conv => lhs; unfold readExact
          simp only [hn0, if_false, read_cons, htake, dite_false, Bool.false_eq_true]
          simp only [hmin, consume_cons, Nat.lt_irrefl, if_false,
            List.take_of_length_le hge, hrec]
        have hstep_err : ∀ e, (FRd.mk rest bad).readExact (n - f.length) = .error e →
            (FRd.mk (f :: rest) bad).readExact n = .error e := by
          intro e hrec
          conv => lhs; unfold readExact
          simp only [hn0, if_false, read_cons, htake, dite_false, Bool.false_eq_true]
          simp only [hmin, consume_cons, Nat.lt_irrefl, if_false,
            List.take_of_length_le hge, hrec]
        obtain ⟨ih1, ih2⟩ := ih hrest (n - f.length)
        constructor
        · intro hn
          simp only [List.flatten_cons, List.length_append] at hn
          obtain ⟨fs', h1, h2, h3⟩ := ih1 (by omega)
          refine ⟨fs', ?_, h2, ?_⟩
          · rw [hstep_ok _ _ h1]
            simp [List.take_append, List.take_of_length_le hge]
          · rw [h3]; simp [List.drop_append, List.drop_of_length_le hge]
        · intro hn
          simp only [List.flatten_cons, List.length_append] at hn
          exact hstep_err _ (ih2 (by omega))

/-- `read_exact` on a fragmented reader = `read_exact` on the flat one -/
theorem readExact_sim {fr : FRd} {rd : Rd} (h : Sim fr rd) (n : Nat) :
    RelE SimV (fr.readExact n) (rd.readExact n) := by
  obtain ⟨hwf, rfl⟩ := h
  cases fr with
  | mk fs bad =>
    obtain ⟨h1, h2⟩ := readExact_frags fs bad hwf n
    simp only [Rd.readExact, toRd_mk]
    by_cases hn : n ≤ fs.flatten.length
    · obtain ⟨fs', e1, e2, e3⟩ := h1 hn
      rw [e1]; simp only [hn, if_true, RelE_ok_ok]
      exact ⟨rfl, e2, by simp [e3]⟩
    · rw [h2 (by omega)]
      simp only [hn, if_false, RelE_err_err, Rd.endErr]

/-! ## byteorder reads -/

theorem _root_.Lzma.Rd.readU8_eq_readExact (rd : Rd) :
    rd.readU8 = (do let (bs, r) ← rd.readExact 1; pure (bs.headD 0, r)) := by
  cases rd with
  | mk rem bad =>
    cases rem with
    | nil => simp [Rd.readU8, Rd.readExact, bind, Except.bind]
    | cons x t => simp [Rd.readU8, Rd.readExact, bind, Except.bind, pure, Except.pure]

/-- post-processing the bytes of a `read_exact` the same way on both sides -/
theorem readExact_map_sim {fr : FRd} {rd : Rd} (h : Sim fr rd) (n : Nat) (g : Bytes → β) :
    RelE SimV (do let (bs, r) ← fr.readExact n; pure (g bs, r))
              (do let (bs, r) ← rd.readExact n; pure (g bs, r)) := by
  refine RelE.bind (readExact_sim h n) ?_
  rintro ⟨bs, fr'⟩ ⟨bs', rd'⟩ ⟨hv, hs⟩
  simp only at hv
  subst hv
  exact ⟨rfl, hs⟩

theorem readU8_sim {fr : FRd} {rd : Rd} (h : Sim fr rd) :
    RelE SimV fr.readU8 rd.readU8 := by
  rw [Rd.readU8_eq_readExact]; exact readExact_map_sim h 1 (fun bs => bs.headD 0)
theorem readU16BE_sim {fr : FRd} {rd : Rd} (h : Sim fr rd) :
    RelE SimV fr.readU16BE rd.readU16BE := readExact_map_sim h 2 beVal
theorem readU32BE_sim {fr : FRd} {rd : Rd} (h : Sim fr rd) :
    RelE SimV fr.readU32BE rd.readU32BE := readExact_map_sim h 4 beVal
theorem readU32LE_sim {fr : FRd} {rd : Rd} (h : Sim fr rd) :
    RelE SimV fr.readU32LE rd.readU32LE := readExact_map_sim h 4 leVal
theorem readU64LE_sim {fr : FRd} {rd : Rd} (h : Sim fr rd) :
    RelE SimV fr.readU64LE rd.readU64LE := readExact_map_sim h 8 leVal

/-! ## `decode/util.rs` -/

theorem readTag_sim {fr : FRd} {rd : Rd} (h : Sim fr rd) (tag : Bytes) :
    RelE SimV (fr.readTag tag) (rd.readTag tag) := readExact_map_sim h tag.length (· == tag)

theorem isEof_sim {fr : FRd} {rd : Rd} (h : Sim fr rd) :
    RelE (· = ·) fr.isEof rd.isEof := by
  obtain ⟨hwf, rfl⟩ := h
  cases fr with
  | mk fs b =>
    cases fs with
    | nil => cases b <;> simp [isEof, Rd.isEof, bind, Except.bind, pure, Except.pure]
    | cons f rest =>
      have hf : f ≠ [] := hwf f (by simp)
      simp [isEof, Rd.isEof, bind, Except.bind, pure, Except.pure, hf]

theorem fillBuf_sim {fr : FRd} {rd : Rd} (h : Sim fr rd) :
    RelE (fun piece (_ : Unit) => (∃ t, rd.rem = piece ++ t) ∧ (piece = [] ↔ rd.rem = []))
      fr.fillBuf rd.fillBuf := by
  obtain ⟨hwf, rfl⟩ := h
  cases fr with
  | mk fs b =>
    cases fs with
    | nil => cases b <;> simp [Rd.fillBuf]
    | cons f rest =>
      have hf : f ≠ [] := hwf f (by simp)
      simp [Rd.fillBuf, hf]

theorem consume_sim {fr : FRd} {rd : Rd} (h : Sim fr rd) {piece : Bytes}
    (hp : fr.fillBuf = .ok piece) {n : Nat} (hn : n ≤ piece.length) :
    Sim (fr.consume n) { rd with rem := rd.rem.drop n } := by
  obtain ⟨hwf, rfl⟩ := h
  obtain ⟨h1, h2, h3⟩ := consume_spec hwf hp hn
  exact ⟨h1, by simp [toRd, h2, h3]⟩

/-! ## `flush_zero_padding` -/

theorem flushZeroPadding_nil (b : Bool) :
    (FRd.mk [] b).flushZeroPadding = if b then .error .io else .ok (true, FRd.mk [] b) := by
  rw [flushZeroPadding]
  cases b <;> simp

theorem flushZeroPadding_cons (f : Bytes) (rest : List Bytes) (b : Bool) (hf : f ≠ []) :
    (FRd.mk (f :: rest) b).flushZeroPadding =
      if f.all (· == 0) then (FRd.mk rest b).flushZeroPadding
      else .ok (false, FRd.mk (f :: rest) b) := by
  rw [flushZeroPadding]
  split
  · rename_i e he; simp at he
  · rename_i piece he
    simp only [fillBuf_cons, Except.ok.injEq] at he
    subst he
    simp [hf, consume_cons]

/-- The refill loop on well-formed pieces: if all remaining bytes are zero it
consumes everything and ends like the flat reader; otherwise it answers `false`
having consumed exactly the leading all-zero PIECES. -/
theorem flushZeroPadding_frags (fs : List Bytes) (bad : Bool) (hwf : ∀ f ∈ fs, f ≠ []) :
    (fs.flatten.all (· == 0) = true →
      (FRd.mk fs bad).flushZeroPadding =
        if bad then .error .io else .ok (true, FRd.mk [] bad)) ∧
    (fs.flatten.all (· == 0) = false →
      ∃ pre f rest, fs = pre ++ f :: rest ∧ pre.flatten.all (· == 0) = true ∧
        f.all (· == 0) = false ∧
        (FRd.mk fs bad).flushZeroPadding = .ok (false, FRd.mk (f :: rest) bad)) := by
  induction fs with
  | nil =>
    constructor
    · intro _; exact flushZeroPadding_nil bad
    · intro h; simp at h
  | cons f rest ih =>
    have hf : f ≠ [] := hwf f (by simp)
    have hrest : ∀ g ∈ rest, g ≠ [] := fun g hg => hwf g (by simp [hg])
    obtain ⟨ih1, ih2⟩ := ih hrest
    rw [flushZeroPadding_cons f rest bad hf]
    by_cases hz : f.all (· == 0) = true
    · simp only [hz, if_true]
      constructor
      · intro h
        simp only [List.flatten_cons, List.all_append, hz, Bool.true_and] at h
        exact ih1 h
      · intro h
        simp only [List.flatten_cons, List.all_append, hz, Bool.true_and] at h
        obtain ⟨pre, g, rest', e1, e2, e3, e4⟩ := ih2 h
        exact ⟨f :: pre, g, rest', by simp [e1], by simp [hz, e2], e3, e4⟩
    · have hz' : f.all (· == 0) = false := by simpa using hz
      simp only [hz', Bool.false_eq_true, if_false]
      constructor
      · intro h
        simp only [List.flatten_cons, List.all_append, hz', Bool.false_and] at h
        cases h
      · intro _
        exact ⟨[], f, rest, rfl, rfl, hz', rfl⟩

/-- result relation for `flush_zero_padding`: the verdicts agree; on `true` the
readers agree; on `false` the fragmented reader may additionally have consumed
leading all-zero pieces, so its remainder is a suffix of the flat one (cut after
zero bytes only). -/
def FlushRel (x : Bool × FRd) (y : Bool × Rd) : Prop :=
  x.1 = y.1 ∧ x.2.WF ∧ x.2.bad = y.2.bad ∧
  (x.1 = true → x.2.toRd = y.2) ∧
  (x.1 = false → ∃ zs : Bytes, zs.all (· == 0) = true ∧ y.2.rem = zs ++ x.2.join)

theorem flushZeroPadding_sim {fr : FRd} {rd : Rd} (h : Sim fr rd) :
    RelE FlushRel fr.flushZeroPadding rd.flushZeroPadding := by
  obtain ⟨hwf, rfl⟩ := h
  cases fr with
  | mk fs bad =>
    obtain ⟨h1, h2⟩ := flushZeroPadding_frags fs bad hwf
    simp only [Rd.flushZeroPadding, toRd_mk]
    by_cases hz : fs.flatten.all (· == 0) = true
    case neg =>
      have hz : fs.flatten.all (· == 0) = false := by simpa using hz
      obtain ⟨pre, f, rest, e1, e2, e3, e4⟩ := h2 hz
      have hne : fs.flatten.isEmpty = false := by
        cases hfl : fs.flatten with
        | nil => rw [hfl] at hz; simp at hz
        | cons _ _ => rfl
      rw [e4]
      simp only [hne, hz, Bool.false_eq_true, if_false, RelE_ok_ok]
      refine ⟨rfl, ?_, rfl, by simp, fun _ => ⟨pre.flatten, e2, ?_⟩⟩
      · intro g hg; exact hwf g (by rw [e1]; simp at hg ⊢; right; exact hg)
      · simp [e1]
    case pos =>
      rw [h1 hz]
      simp only [hz]
      cases hfl : fs.flatten with
      | nil =>
        cases bad
        · simp only [List.isEmpty_nil, if_true, Bool.false_eq_true, if_false, RelE_ok_ok]
          exact ⟨rfl, by simp, rfl, by simp, by simp⟩
        · simp
      | cons x t =>
        cases bad
        · simp only [List.isEmpty_cons, Bool.false_eq_true, if_false, if_true, RelE_ok_ok]
          exact ⟨rfl, by simp, rfl, by simp, by simp⟩
        · simp

/-! ## `io::Take` -/

theorem splitFrags_spec (fs : List Bytes) (hwf : ∀ f ∈ fs, f ≠ []) (n : Nat) :
    (splitFrags fs n).1.flatten = fs.flatten.take n ∧
    (splitFrags fs n).2.flatten = fs.flatten.drop n ∧
    (∀ f ∈ (splitFrags fs n).1, f ≠ []) ∧ (∀ f ∈ (splitFrags fs n).2, f ≠ []) := by
  induction fs generalizing n with
  | nil => simp [splitFrags]
  | cons f rest ih =>
    have hf : f ≠ [] := hwf f (by simp)
    have hrest : ∀ g ∈ rest, g ≠ [] := fun g hg => hwf g (by simp [hg])
    have hflen : 0 < f.length := List.length_pos_iff.mpr hf
    unfold splitFrags
    by_cases hn0 : n = 0
    · subst hn0; simp only [if_true]
      exact ⟨by simp, by simp, by simp, hwf⟩
    · simp only [hn0, if_false]
      by_cases hle : f.length ≤ n
      · simp only [hle, if_true]
        obtain ⟨i1, i2, i3, i4⟩ := ih hrest (n - f.length)
        refine ⟨?_, ?_, ?_, i4⟩
        · simp [i1, List.take_append, List.take_of_length_le hle]
        · simp [i2, List.drop_append, List.drop_of_length_le hle]
        · intro g hg
          simp only [List.mem_cons] at hg
          rcases hg with rfl | hg
          · exact hf
          · exact i3 g hg
      · simp only [hle, if_false]
        have hlt : n < f.length := by omega
        refine ⟨?_, ?_, ?_, ?_⟩
        · simp [List.take_append_of_le_length (Nat.le_of_lt hlt)]
        · simp [List.drop_append_of_le_length (Nat.le_of_lt hlt)]
        · intro g hg
          simp only [List.mem_singleton] at hg
          subst hg
          intro h0; simp [hn0, hf] at h0
        · intro g hg
          simp only [List.mem_cons] at hg
          rcases hg with rfl | hg
          · intro h0; simp at h0; omega
          · exact hrest g hg

/-- `take` on a fragmented reader corresponds to `Rd.split` -/
theorem take_sim {fr : FRd} {rd : Rd} (h : Sim fr rd) (n : Nat) :
    Sim (fr.take n).1 (rd.split n).1 ∧
    (fr.take n).2.flatten = (rd.split n).2 ∧ (∀ f ∈ (fr.take n).2, f ≠ []) := by
  obtain ⟨hwf, rfl⟩ := h
  cases fr with
  | mk fs bad =>
    obtain ⟨s1, s2, s3, s4⟩ := splitFrags_spec fs hwf n
    refine ⟨⟨s3, ?_⟩, s2, s4⟩
    simp [take, Rd.split, toRd, join, s1]

/-- giving the unread part back corresponds to `Rd.unsplit` -/
theorem unsplit_sim {fr inner : FRd} {rd innerRd : Rd} (h : Sim fr rd) (hi : Sim inner innerRd)
    {rest : List Bytes} (hrest : ∀ f ∈ rest, f ≠ []) :
    Sim (fr.unsplit inner rest) (rd.unsplit innerRd rest.flatten) := by
  obtain ⟨hwf, rfl⟩ := h
  obtain ⟨hiwf, rfl⟩ := hi
  refine ⟨?_, ?_⟩
  · intro g hg
    simp only [unsplit, List.mem_append] at hg
    rcases hg with hg | hg
    · exact hiwf g hg
    · exact hrest g hg
  · simp [unsplit, Rd.unsplit, toRd, join]

/-! ## `io::Take` as std implements it is the sub-reader of `take` -/

theorem splitFrags_zero (fs : List Bytes) : splitFrags fs 0 = ([], fs) := by
  cases fs <;> simp [splitFrags]

theorem splitFrags_cons_le {f : Bytes} {rest : List Bytes} {n : Nat} (hn : n ≠ 0)
    (hle : f.length ≤ n) :
    splitFrags (f :: rest) n = (f :: (splitFrags rest (n - f.length)).1,
      (splitFrags rest (n - f.length)).2) := by
  simp [splitFrags, hn, hle]

theorem splitFrags_cons_gt {f : Bytes} {rest : List Bytes} {n : Nat} (hn : n ≠ 0)
    (hgt : n < f.length) :
    splitFrags (f :: rest) n = ([f.take n], f.drop n :: rest) := by
  simp [splitFrags, hn, Nat.not_le.mpr hgt]

theorem band_decide_congr {b : Bool} {p q : Prop} [Decidable p] [Decidable q] (h : p ↔ q) :
    (b && decide p) = (b && decide q) := by
  simp [h]

namespace FTake

/-- `Take::fill_buf` exposes what the sub-reader of `take` exposes -/
theorem view_fillBuf (t : FTake) : t.fillBuf = t.view.fillBuf := by
  obtain ⟨⟨fs, bad⟩, limit⟩ := t
  by_cases h0 : limit = 0
  · subst h0
    simp [FTake.fillBuf, view, take, splitFrags_zero, FRd.fillBuf]
  · cases fs with
    | nil =>
      have : 0 < limit := by omega
      cases bad <;> simp [FTake.fillBuf, view, take, splitFrags, h0, FRd.fillBuf, this]
    | cons f rest =>
      by_cases hle : f.length ≤ limit
      · simp [FTake.fillBuf, view, take, splitFrags_cons_le h0 hle, h0, FRd.fillBuf,
          List.take_of_length_le hle]
      · have hgt : limit < f.length := by omega
        simp [FTake.fillBuf, view, take, splitFrags_cons_gt h0 hgt, h0, FRd.fillBuf]

/-- `Take::consume` acts on the view as `consume`; the bytes beyond the limit are untouched -/
theorem view_consume (t : FTake) (h : t.inner.WF) {piece : Bytes} (hp : t.fillBuf = .ok piece)
    {n : Nat} (hn : n ≤ piece.length) :
    (t.consume n).view = t.view.consume n ∧ (t.consume n).inner.WF ∧
    (t.consume n).inner.join.drop (t.consume n).limit = t.inner.join.drop t.limit := by
  obtain ⟨⟨fs, bad⟩, limit⟩ := t
  by_cases h0 : limit = 0
  · subst h0
    simp only [FTake.fillBuf, if_true, Except.ok.injEq] at hp
    subst hp
    have : n = 0 := by simpa using hn
    subst this
    cases fs with
    | nil => exact ⟨rfl, h, rfl⟩
    | cons f rest =>
      have hf : f ≠ [] := h f (by simp)
      have hflen : 0 < f.length := List.length_pos_iff.mpr hf
      refine ⟨?_, ?_, ?_⟩
      · simp [FTake.consume, view, take, splitFrags_zero, FRd.consume, hflen]
      · simpa [FTake.consume, consume_cons, hflen] using h
      · simp [FTake.consume, consume_cons, hflen]
  · cases fs with
    | nil =>
      refine ⟨?_, h, ?_⟩
      · cases bad
        · simp [FTake.consume, view, take, splitFrags, FRd.consume]
        · simp [FTake.fillBuf, h0] at hp
      · simp [FTake.consume]
    | cons f rest =>
      have hf : f ≠ [] := h f (by simp)
      have hflen : 0 < f.length := List.length_pos_iff.mpr hf
      simp only [FTake.fillBuf, h0, if_false, fillBuf_cons, Except.ok.injEq] at hp
      subst hp
      simp only [List.length_take] at hn
      have hnl : min n limit = n := by omega
      have hc := consume_spec h (piece := f) rfl (n := n) (by omega)
      refine ⟨?_, by simpa [FTake.consume, hnl] using hc.1, ?_⟩
      · by_cases hle : f.length ≤ limit
        · -- the whole piece is inside the limit
          by_cases hlt : n < f.length
          · have hne : limit - n ≠ 0 := by omega
            have hle' : (f.drop n).length ≤ limit - n := by simp; omega
            simp only [FTake.consume, hnl, view, take, consume_cons, hlt, if_true,
              splitFrags_cons_le h0 hle, splitFrags_cons_le hne hle', join_mk,
              List.flatten_cons, List.length_append, List.length_drop]
            have e1 : limit - n - (f.length - n) = limit - f.length := by omega
            rw [e1]
            congr 1
            exact band_decide_congr (by omega)
          · have hnf : n = f.length := by omega
            subst hnf
            simp only [FTake.consume, hnl, view, take, consume_cons, Nat.lt_irrefl, if_false,
              splitFrags_cons_le h0 hle, join_mk, List.flatten_cons, List.length_append]
            congr 1
            exact band_decide_congr (by omega)
        · -- the limit cuts the current piece
          have hgt : limit < f.length := by omega
          have hlt : n < f.length := by omega
          have hnl' : n ≤ limit := by omega
          by_cases hne : limit - n = 0
          · have hnl2 : n = limit := by omega
            subst hnl2
            simp only [FTake.consume, hnl, view, take, consume_cons, hlt, if_true, Nat.sub_self,
              splitFrags_zero, splitFrags_cons_gt h0 hgt, List.length_take,
              Nat.min_eq_left (Nat.le_of_lt hgt), Nat.lt_irrefl, if_false, join_mk,
              List.flatten_cons, List.length_append, List.length_drop]
            congr 1
            exact band_decide_congr (by omega)
          · have hgt' : limit - n < (f.drop n).length := by simp; omega
            have hlt2 : n < limit := by omega
            simp only [FTake.consume, hnl, view, take, consume_cons, hlt, if_true,
              splitFrags_cons_gt hne hgt', splitFrags_cons_gt h0 hgt, List.length_take,
              Nat.min_eq_left (Nat.le_of_lt hgt), hlt2, join_mk, List.flatten_cons,
              List.length_append, List.length_drop, List.drop_take]
            congr 1
            exact band_decide_congr (by omega)
      · simp only [FTake.consume, hnl, hc.2.2, join_mk, List.drop_drop]
        congr 1; omega

/-- `Take::read` acts on the view as `read` -/
theorem view_read (t : FTake) (h : t.inner.WF) (cap : Nat) :
    RelE (fun x y => x.1 = y.1 ∧ x.2.view = y.2 ∧ x.2.inner.WF ∧
        x.2.inner.join.drop x.2.limit = t.inner.join.drop t.limit)
      (t.read cap) (t.view.read cap) := by
  unfold FTake.read FRd.read
  rw [← view_fillBuf]
  by_cases h0 : t.limit = 0
  · have hv : t.view.consume 0 = t.view := by
      obtain ⟨⟨fs, bad⟩, limit⟩ := t
      simp only at h0; subst h0
      simp [view, take, splitFrags_zero]
    simp only [h0, if_true, FTake.fillBuf, List.take_nil, List.length_nil, hv, RelE_ok_ok]
    exact ⟨trivial, trivial, h, trivial⟩
  · cases hfb : t.inner.fillBuf with
    | error e => simp [h0, FTake.fillBuf, hfb]
    | ok buf =>
      have hfb' : t.fillBuf = .ok (buf.take t.limit) := by simp [FTake.fillBuf, h0, hfb]
      have hlen : (buf.take (min cap t.limit)).length ≤ (buf.take t.limit).length := by
        simp only [List.length_take]; omega
      have hk : (buf.take (min cap t.limit)).length ≤ t.limit := by
        simp only [List.length_take]; omega
      obtain ⟨c1, c2, c3⟩ := view_consume t h hfb' hlen
      have hrec : ({ inner := t.inner.consume (buf.take (min cap t.limit)).length,
                     limit := t.limit - (buf.take (min cap t.limit)).length } : FTake) =
          t.consume (buf.take (min cap t.limit)).length := by
        simp only [FTake.consume, Nat.min_eq_left hk]
      simp only [h0, if_false, hfb', hrec, RelE_ok_ok, List.take_take]
      exact ⟨trivial, c1, c2, c3⟩

end FTake

/-! ## lifting decoder code: `get_multibyte` -/

theorem getMultibyteAux_sim (fuel i result : Nat) (acc : Bytes) {fr : FRd} {rd : Rd}
    (h : Sim fr rd) :
    RelE (RelV (RelV Sim)) (FRd.getMultibyteAux fuel i result acc fr)
      (Lzma.getMultibyteAux fuel i result acc rd) := by
  induction fuel generalizing i result acc fr rd with
  | zero => simp [FRd.getMultibyteAux, Lzma.getMultibyteAux]
  | succ fuel ih =>
    unfold FRd.getMultibyteAux Lzma.getMultibyteAux
    refine RelE.bind (readU8_sim h) ?_
    rintro ⟨byte, fr'⟩ ⟨byte', rd'⟩ ⟨hv, hs⟩
    simp only at hv hs
    subst hv
    simp only
    split
    · exact ⟨rfl, rfl, hs⟩
    · exact ih _ _ _ hs

theorem getMultibyte_sim {fr : FRd} {rd : Rd} (h : Sim fr rd) :
    RelE (RelV (RelV Sim)) fr.getMultibyte (Lzma.getMultibyte rd) :=
  getMultibyteAux_sim 9 0 0 [] h

end FRd

/-! ## lifting decoder code: the range decoder over an abstract byte source -/

/-- the primitives of two byte sources map `S`-related sources to related results -/
structure ByteSrcRel {ρ₁ ρ₂ : Type} [ByteSrc ρ₁] [ByteSrc ρ₂] (S : ρ₁ → ρ₂ → Prop) : Prop where
  readU8 : ∀ a b, S a b → RelE (RelV S) (ByteSrc.readU8 a) (ByteSrc.readU8 b)
  readU32BE : ∀ a b, S a b → RelE (RelV S) (ByteSrc.readU32BE a) (ByteSrc.readU32BE b)
  isEof : ∀ a b, S a b → RelE (· = ·) (ByteSrc.isEof a) (ByteSrc.isEof b)

/-- the fragmented and the flat reader are related byte sources -/
theorem FRd.byteSrcRel : ByteSrcRel FRd.Sim :=
  ⟨fun _ _ h => FRd.readU8_sim h, fun _ _ h => FRd.readU32BE_sim h, fun _ _ h => FRd.isEof_sim h⟩

/-! the generic functions at `Rd` are the model's functions -/
theorem RC.newG_Rd : RC.newG (ρ := Rd) = RC.new := rfl
theorem RC.normalizeG_Rd : RC.normalizeG (ρ := Rd) = RC.normalize := rfl
theorem RC.getBitG_Rd : RC.getBitG (ρ := Rd) = RC.getBit := rfl
theorem RC.decodeBitG_Rd : RC.decodeBitG (ρ := Rd) = RC.decodeBit := rfl
theorem RC.isFinishedOkG_Rd : RC.isFinishedOkG (ρ := Rd) = RC.isFinishedOk := rfl

theorem runDecG_Rd [ProbStore σ ι] (update : Bool) (c : Coder ι α) (s : σ) (rc : RC) (rd : Rd) :
    runDecG update c s rc rd = runDec update c s rc rd := by
  induction c generalizing s rc rd with
  | ret a => rfl
  | fail e => rfl
  | bit i k ih =>
    simp only [runDecG, runDec, RC.decodeBitG_Rd]
    cases ProbStore.get s i with
    | error e => rfl
    | ok p =>
      simp only []
      cases RC.decodeBit update p rc rd with
      | error e => rfl
      | ok x =>
        obtain ⟨b, p', rc', rd'⟩ := x
        exact ih _ _ _ _
  | direct k ih =>
    simp only [runDecG, runDec, RC.getBitG_Rd]
    cases RC.getBit rc rd with
    | error e => rfl
    | ok x =>
      obtain ⟨b, rc', rd'⟩ := x
      exact ih _ _ _ _

section generic
variable {ρ₁ ρ₂ : Type} [ByteSrc ρ₁] [ByteSrc ρ₂] {S : ρ₁ → ρ₂ → Prop}

theorem RC.newG_rel (hS : ByteSrcRel S) {a : ρ₁} {b : ρ₂} (h : S a b) :
    RelE (RelV S) (RC.newG a) (RC.newG b) := by
  unfold RC.newG
  refine RelE.bind (hS.readU8 a b h) ?_
  rintro ⟨_, a1⟩ ⟨_, b1⟩ ⟨_, h1⟩
  refine RelE.bind (hS.readU32BE a1 b1 h1) ?_
  rintro ⟨c, a2⟩ ⟨c', b2⟩ ⟨hc, h2⟩
  simp only at hc; subst hc
  exact ⟨rfl, h2⟩

theorem RC.normalizeG_rel (hS : ByteSrcRel S) (rc : RC) {a : ρ₁} {b : ρ₂} (h : S a b) :
    RelE (RelV S) (RC.normalizeG rc a) (RC.normalizeG rc b) := by
  unfold RC.normalizeG
  split
  · refine RelE.bind (hS.readU8 a b h) ?_
    rintro ⟨x, a1⟩ ⟨x', b1⟩ ⟨hx, h1⟩
    simp only at hx; subst hx
    exact ⟨rfl, h1⟩
  · exact ⟨rfl, h⟩

theorem RC.getBitG_rel (hS : ByteSrcRel S) (rc : RC) {a : ρ₁} {b : ρ₂} (h : S a b) :
    RelE (RelV (RelV S)) (RC.getBitG rc a) (RC.getBitG rc b) := by
  unfold RC.getBitG
  refine RelE.bind (RC.normalizeG_rel hS _ h) ?_
  rintro ⟨x, a1⟩ ⟨x', b1⟩ ⟨hx, h1⟩
  simp only at hx; subst hx
  exact ⟨rfl, rfl, h1⟩

theorem RC.decodeBitG_rel (hS : ByteSrcRel S) (update : Bool) (p : Nat) (rc : RC)
    {a : ρ₁} {b : ρ₂} (h : S a b) :
    RelE (RelV (RelV (RelV S))) (RC.decodeBitG update p rc a) (RC.decodeBitG update p rc b) := by
  have hn : ∀ rc' (bit : Bool) (p' : Nat),
      RelE (RelV (RelV (RelV S)))
        (do let (rc, rd) ← RC.normalizeG rc' a; pure (bit, p', rc, rd))
        (do let (rc, rd) ← RC.normalizeG rc' b; pure (bit, p', rc, rd)) := by
    intro rc' bit p'
    refine RelE.bind (RC.normalizeG_rel hS rc' h) ?_
    rintro ⟨x, a1⟩ ⟨x', b1⟩ ⟨hx, h1⟩
    simp only at hx; subst hx
    exact ⟨rfl, rfl, rfl, h1⟩
  unfold RC.decodeBitG
  refine RelE.bind (RelE.refl_eq _) ?_
  rintro bound _ rfl
  split
  · cases update
    · exact hn _ _ _
    · simp only [if_true]
      refine RelE.bind (RelE.refl_eq _) ?_
      rintro d _ rfl
      refine RelE.bind (RelE.refl_eq _) ?_
      rintro p' _ rfl
      exact hn _ _ _
  · refine RelE.bind (RelE.refl_eq _) ?_
    rintro code _ rfl
    refine RelE.bind (RelE.refl_eq _) ?_
    rintro range _ rfl
    exact hn _ _ _

theorem RC.isFinishedOkG_rel (hS : ByteSrcRel S) (rc : RC) {a : ρ₁} {b : ρ₂} (h : S a b) :
    RelE (· = ·) (RC.isFinishedOkG rc a) (RC.isFinishedOkG rc b) := by
  unfold RC.isFinishedOkG
  split
  · exact hS.isEof a b h
  · rfl

/-- **Parametricity of the range-decoder interpreter**: run on related byte
sources it produces the same value, store and coder state, and related sources. -/
theorem runDecG_rel [ProbStore σ ι] (hS : ByteSrcRel S) (update : Bool) (c : Coder ι α)
    (s : σ) (rc : RC) {a : ρ₁} {b : ρ₂} (h : S a b) :
    RelE (RelV (RelV (RelV S))) (runDecG update c s rc a) (runDecG update c s rc b) := by
  induction c generalizing s rc a b with
  | ret x => exact ⟨rfl, rfl, rfl, h⟩
  | fail e => exact rfl
  | bit i k ih =>
    simp only [runDecG]
    split
    · exact rfl
    · have hd := RC.decodeBitG_rel hS update ‹Nat› rc h
      revert hd
      generalize RC.decodeBitG update _ rc a = ra
      generalize RC.decodeBitG update _ rc b = rb
      intro hd
      match ra, rb, hd with
      | .error _, .error _, hd => exact hd
      | .ok (bit, p', rc1, a1), .ok (bit', p'', rc2, b1), hd =>
        obtain ⟨h1, h2, h3, h4⟩ := hd
        simp only at h1 h2 h3 h4
        subst h1 h2 h3
        exact ih _ _ _ h4
  | direct k ih =>
    simp only [runDecG]
    have hd := RC.getBitG_rel hS rc h
    revert hd
    generalize RC.getBitG rc a = ra
    generalize RC.getBitG rc b = rb
    intro hd
    match ra, rb, hd with
    | .error _, .error _, hd => exact hd
    | .ok (bit, rc1, a1), .ok (bit', rc2, b1), hd =>
      obtain ⟨h1, h2, h3⟩ := hd
      simp only at h1 h2 h3
      subst h1 h2
      exact ih _ _ _ h3

end generic

/-- `runDecF` on a fragmentation of `rd` corresponds to the model's `runDec` on `rd` -/
theorem runDecF_sim [ProbStore σ ι] (update : Bool) (c : Coder ι α) (s : σ) (rc : RC)
    {fr : FRd} {rd : Rd} (h : FRd.Sim fr rd) :
    RelE (RelV (RelV (RelV FRd.Sim))) (runDecF update c s rc fr) (runDec update c s rc rd) := by
  rw [← runDecG_Rd]
  exact runDecG_rel FRd.byteSrcRel update c s rc h

end Lzma
