/-
  `ProbsOk`: every stored adaptive probability is admissible; preserved by `set`.
-/
import LzmaProofs.Lemmas.RcStep
namespace Lzma
open RcArith

/-- every probability that can be read from the store is admissible -/
def ProbsOk (p : Probs) : Prop := ∀ i v, p.get i = .ok v → ProbOk v

theorem rc_oob_ne_ok {α : Type} {w : α} : (oob : Except Err α) = .ok w → False := by
  simp [oob]

/-- `a'` is `a` with at most one cell overwritten by `v` -/
def AUpd (v : Nat) (a a' : Array Nat) : Prop := a' = a ∨ ∃ k, a' = a.setIfInBounds k v

theorem AUpd.size {v : Nat} {a a' : Array Nat} (h : AUpd v a a') : a'.size = a.size := by
  rcases h with rfl | ⟨k, rfl⟩ <;> simp

theorem AUpd.get {v : Nat} {a a' : Array Nat} (h : AUpd v a a') {m w : Nat}
    (hg : arrGet a' m = .ok w) : w = v ∨ arrGet a m = .ok w := by
  rcases h with rfl | ⟨k, rfl⟩
  · exact .inr hg
  · unfold arrGet at *
    rw [Array.getElem?_setIfInBounds] at hg
    by_cases hk : k = m
    · rw [if_pos hk] at hg
      by_cases hs : k < a.size
      · rw [if_pos hs] at hg
        simp at hg; exact .inl hg.symm
      · rw [if_neg hs] at hg
        exact (rc_oob_ne_ok hg).elim
    · rw [if_neg hk] at hg
      exact .inr hg

theorem rc_arrGet_replicate {n x m w : Nat} (h : arrGet (Array.replicate n x) m = .ok w) : w = x := by
  unfold arrGet at h
  rw [Array.getElem?_replicate] at h
  by_cases hm : m < n
  · rw [if_pos hm] at h; simp at h; exact h.symm
  · rw [if_neg hm] at h; exact (rc_oob_ne_ok h).elim

structure LUpd (v : Nat) (l l' : LenProbs) : Prop where
  choice : l'.choice = l.choice ∨ l'.choice = v
  choice2 : l'.choice2 = l.choice2 ∨ l'.choice2 = v
  low : AUpd v l.low l'.low
  mid : AUpd v l.mid l'.mid
  high : AUpd v l.high l'.high

theorem LUpd.refl (v : Nat) (l : LenProbs) : LUpd v l l :=
  ⟨.inl rfl, .inl rfl, .inl rfl, .inl rfl, .inl rfl⟩

theorem LenProbs.set_upd (l : LenProbs) (i : PIdx) (v : Nat) : LUpd v l (l.set i v) := by
  cases i <;> first
    | exact LUpd.refl v l
    | (refine ⟨?_, ?_, ?_, ?_, ?_⟩ <;>
        first | exact .inl rfl | exact .inr rfl | exact .inr ⟨_, rfl⟩)

theorem LUpd.get {v : Nat} {l l' : LenProbs} (h : LUpd v l l') {j : PIdx} {w : Nat}
    (hg : l'.get j = .ok w) : w = v ∨ l.get j = .ok w := by
  cases j <;> simp only [LenProbs.get] at hg ⊢ <;> try exact (rc_oob_ne_ok hg).elim
  · simp only [Except.ok.injEq] at hg ⊢
    rcases h.choice with e | e <;> omega
  · simp only [Except.ok.injEq] at hg ⊢
    rcases h.choice2 with e | e <;> omega
  · split at hg
    · rename_i hc; rw [if_pos hc]; exact h.low.get hg
    · exact (rc_oob_ne_ok hg).elim
  · split at hg
    · rename_i hc; rw [if_pos hc]; exact h.mid.get hg
    · exact (rc_oob_ne_ok hg).elim
  · exact h.high.get hg

structure PUpd (v : Nat) (p p' : Probs) : Prop where
  lit : AUpd v p.lit p'.lit
  posSlot : AUpd v p.posSlot p'.posSlot
  align : AUpd v p.align p'.align
  posDec : AUpd v p.posDec p'.posDec
  isMatch : AUpd v p.isMatch p'.isMatch
  isRep : AUpd v p.isRep p'.isRep
  isRepG0 : AUpd v p.isRepG0 p'.isRepG0
  isRepG1 : AUpd v p.isRepG1 p'.isRepG1
  isRepG2 : AUpd v p.isRepG2 p'.isRepG2
  isRep0Long : AUpd v p.isRep0Long p'.isRep0Long
  len : LUpd v p.len p'.len
  repLen : LUpd v p.repLen p'.repLen

theorem Probs.setLen_upd (p : Probs) (rep : Bool) (i : PIdx) (v : Nat) : PUpd v p (p.setLen rep i v) := by
  cases rep
  · exact ⟨.inl rfl, .inl rfl, .inl rfl, .inl rfl, .inl rfl, .inl rfl, .inl rfl, .inl rfl, .inl rfl,
      .inl rfl, LenProbs.set_upd _ _ _, LUpd.refl _ _⟩
  · exact ⟨.inl rfl, .inl rfl, .inl rfl, .inl rfl, .inl rfl, .inl rfl, .inl rfl, .inl rfl, .inl rfl,
      .inl rfl, LUpd.refl _ _, LenProbs.set_upd _ _ _⟩

theorem Probs.set_upd (p : Probs) (i : PIdx) (v : Nat) : PUpd v p (p.set i v) := by
  cases i <;> first
    | exact Probs.setLen_upd _ _ _ _
    | (refine ⟨?_, ?_, ?_, ?_, ?_, ?_, ?_, ?_, ?_, ?_, ?_, ?_⟩ <;>
        first | exact .inl rfl | exact .inr ⟨_, rfl⟩ | exact LUpd.refl _ _)

theorem rc_ite_oob_ok {α : Type} {c : Prop} [Decidable c] {x : Except Err α} {w : α}
    (h : (if c then x else oob) = .ok w) : c ∧ x = .ok w := by
  by_cases hc : c
  · rw [if_pos hc] at h; exact ⟨hc, h⟩
  · rw [if_neg hc] at h; exact (rc_oob_ne_ok h).elim

theorem PUpd.get {v : Nat} {p p' : Probs} (h : PUpd v p p') {j : PIdx} {w : Nat}
    (hg : p'.get j = .ok w) : w = v ∨ p.get j = .ok w := by
  cases j <;> simp only [Probs.get] at hg ⊢
  case lit row col =>
    rw [h.lit.size] at hg
    obtain ⟨hc, hg⟩ := rc_ite_oob_ok hg
    rw [if_pos hc]; exact h.lit.get hg
  case posSlot ls t =>
    obtain ⟨hc, hg⟩ := rc_ite_oob_ok hg
    rw [if_pos hc]; exact h.posSlot.get hg
  case align t => exact h.align.get hg
  case posDec t => exact h.posDec.get hg
  case isMatch t => exact h.isMatch.get hg
  case isRep t => exact h.isRep.get hg
  case isRepG0 t => exact h.isRepG0.get hg
  case isRepG1 t => exact h.isRepG1.get hg
  case isRepG2 t => exact h.isRepG2.get hg
  case isRep0Long t => exact h.isRep0Long.get hg
  case lenChoice rep => cases rep; exact h.len.get hg; exact h.repLen.get hg
  case lenChoice2 rep => cases rep; exact h.len.get hg; exact h.repLen.get hg
  case lenLow rep ps t => cases rep; exact h.len.get hg; exact h.repLen.get hg
  case lenMid rep ps t => cases rep; exact h.len.get hg; exact h.repLen.get hg
  case lenHigh rep t => cases rep; exact h.len.get hg; exact h.repLen.get hg

theorem Probs.get_set {p : Probs} {i j : PIdx} {v w : Nat}
    (h : (p.set i v).get j = .ok w) : w = v ∨ p.get j = .ok w :=
  (Probs.set_upd p i v).get h

theorem ProbsOk.set {p : Probs} (h : ProbsOk p) (i : PIdx) {v : Nat} (hv : ProbOk v) :
    ProbsOk (p.set i v) := by
  intro j w hw
  rcases Probs.get_set hw with rfl | h'
  · exact hv
  · exact h j w h'

theorem lenProbs_init_get {j : PIdx} {w : Nat} (hg : ({} : LenProbs).get j = .ok w) : w = 0x400 := by
  cases j <;> simp only [LenProbs.get] at hg
  case lenChoice rep => simp only [Except.ok.injEq] at hg; exact hg.symm
  case lenChoice2 rep => simp only [Except.ok.injEq] at hg; exact hg.symm
  case lenLow rep ps t => exact rc_arrGet_replicate (rc_ite_oob_ok hg).2
  case lenMid rep ps t => exact rc_arrGet_replicate (rc_ite_oob_ok hg).2
  case lenHigh rep t => exact rc_arrGet_replicate hg
  all_goals exact (rc_oob_ne_ok hg).elim

theorem probsOk_init (litRows : Nat) : ProbsOk (Probs.init litRows) := by
  intro j w hg
  have : w = 0x400 := by
    cases j <;> simp only [Probs.get, Probs.init] at hg
    case lit row col => exact rc_arrGet_replicate (rc_ite_oob_ok hg).2
    case posSlot ls t => exact rc_arrGet_replicate (rc_ite_oob_ok hg).2
    case align t => exact rc_arrGet_replicate hg
    case posDec t => exact rc_arrGet_replicate hg
    case isMatch t => exact rc_arrGet_replicate hg
    case isRep t => exact rc_arrGet_replicate hg
    case isRepG0 t => exact rc_arrGet_replicate hg
    case isRepG1 t => exact rc_arrGet_replicate hg
    case isRepG2 t => exact rc_arrGet_replicate hg
    case isRep0Long t => exact rc_arrGet_replicate hg
    case lenChoice rep => cases rep <;> exact lenProbs_init_get hg
    case lenChoice2 rep => cases rep <;> exact lenProbs_init_get hg
    case lenLow rep ps t => cases rep <;> exact lenProbs_init_get hg
    case lenMid rep ps t => cases rep <;> exact lenProbs_init_get hg
    case lenHigh rep t => cases rep <;> exact lenProbs_init_get hg
  rw [this]; exact probOk_init

/-! ## `get` succeeds on the same indices after `set` -/

theorem rc_arrGet_ok_iff {a : Array Nat} {m : Nat} : (∃ w, arrGet a m = .ok w) ↔ m < a.size := by
  unfold arrGet
  constructor
  · rintro ⟨w, h⟩
    by_cases hm : m < a.size
    · exact hm
    · rw [Array.getElem?_eq_none (by omega)] at h
      exact (rc_oob_ne_ok h).elim
  · intro hm
    rw [Array.getElem?_eq_getElem hm]
    exact ⟨_, rfl⟩

theorem AUpd.get_ok {v : Nat} {a a' : Array Nat} (h : AUpd v a a') {m : Nat}
    (hg : ∃ w, arrGet a m = .ok w) : ∃ w, arrGet a' m = .ok w := by
  rw [rc_arrGet_ok_iff] at hg ⊢
  rw [h.size]; exact hg

theorem rc_ite_oob_ok' {α : Type} {c : Prop} [Decidable c] {x : Except Err α}
    (h : ∃ w, (if c then x else oob) = .ok w) : c ∧ ∃ w, x = .ok w := by
  obtain ⟨w, h⟩ := h
  obtain ⟨hc, hx⟩ := rc_ite_oob_ok h
  exact ⟨hc, w, hx⟩

theorem LUpd.get_ok {v : Nat} {l l' : LenProbs} (h : LUpd v l l') {j : PIdx}
    (hg : ∃ w, l.get j = .ok w) : ∃ w, l'.get j = .ok w := by
  cases j <;> simp only [LenProbs.get] at hg ⊢
  case lenChoice rep => exact ⟨_, rfl⟩
  case lenChoice2 rep => exact ⟨_, rfl⟩
  case lenLow rep ps t =>
    obtain ⟨hc, hg⟩ := rc_ite_oob_ok' hg
    rw [if_pos hc]; exact h.low.get_ok hg
  case lenMid rep ps t =>
    obtain ⟨hc, hg⟩ := rc_ite_oob_ok' hg
    rw [if_pos hc]; exact h.mid.get_ok hg
  case lenHigh rep t => exact h.high.get_ok hg
  all_goals exact hg

theorem PUpd.get_ok {v : Nat} {p p' : Probs} (h : PUpd v p p') {j : PIdx}
    (hg : ∃ w, p.get j = .ok w) : ∃ w, p'.get j = .ok w := by
  cases j <;> simp only [Probs.get] at hg ⊢
  case lit row col =>
    rw [h.lit.size]
    obtain ⟨hc, hg⟩ := rc_ite_oob_ok' hg
    rw [if_pos hc]; exact h.lit.get_ok hg
  case posSlot ls t =>
    obtain ⟨hc, hg⟩ := rc_ite_oob_ok' hg
    rw [if_pos hc]; exact h.posSlot.get_ok hg
  case align t => exact h.align.get_ok hg
  case posDec t => exact h.posDec.get_ok hg
  case isMatch t => exact h.isMatch.get_ok hg
  case isRep t => exact h.isRep.get_ok hg
  case isRepG0 t => exact h.isRepG0.get_ok hg
  case isRepG1 t => exact h.isRepG1.get_ok hg
  case isRepG2 t => exact h.isRepG2.get_ok hg
  case isRep0Long t => exact h.isRep0Long.get_ok hg
  case lenChoice rep => cases rep; exact h.len.get_ok hg; exact h.repLen.get_ok hg
  case lenChoice2 rep => cases rep; exact h.len.get_ok hg; exact h.repLen.get_ok hg
  case lenLow rep ps t => cases rep; exact h.len.get_ok hg; exact h.repLen.get_ok hg
  case lenMid rep ps t => cases rep; exact h.len.get_ok hg; exact h.repLen.get_ok hg
  case lenHigh rep t => cases rep; exact h.len.get_ok hg; exact h.repLen.get_ok hg

/-- an index that can be read can still be read after any `set` -/
theorem Probs.get_ok_set {p : Probs} {i j : PIdx} {v : Nat} (h : ∃ w, p.get j = .ok w) :
    ∃ w, (p.set i v).get j = .ok w :=
  (Probs.set_upd p i v).get_ok h

end Lzma
