/-
  C15 (progress of the streaming decoder) — trace-level simulation.

  While the one-shot decoder does not fail on the whole input, every state the
  streaming decoder reaches lies ON the one-shot trace (`FinishSteps` of
  `Lemmas/ProcessMode.lean`): its window and sink are those of the one-shot loop
  after some number `j` of symbols, and what it has not yet looked at is less than
  20 bytes (`MAX_REQUIRED_INPUT`), unless the unpacked size is reached.
-/
import LzmaProofs.Lemmas.StreamEquivMain
import LzmaProofs.Lemmas.StreamEquivNeed20
import LzmaProofs.Lemmas.Window
import LzmaProofs.Lemmas.Sink
namespace Lzma
namespace StreamEq

open DState Safety

/-! ## one-shot configurations and steps -/

/-- the one-shot configuration with decoder state `s` (nothing staged), remaining input `R` -/
def cfg (s : DState) (w : Circ) (rc : RC) (R : Bytes) (snk : Sink) : Cfg Circ :=
  ⟨clr s, w, rc, ⟨R, false⟩, snk⟩

/-- the one-shot loop cannot perform a full iteration from `c` -/
def NoStep (c : Cfg Circ) : Prop := ∀ c', ¬ FinishSteps c 1 c'

theorem steps_trans {a b c : Cfg Circ} {i j : Nat} (h1 : FinishSteps a i b) (h2 : FinishSteps b j c) :
    FinishSteps a (i + j) c := by
  induction h1 with
  | refl _ => simpa using h2
  | @step _ _ _ _ _ _ k _ hstop hfill hn _ ih =>
    have := FinishSteps.step hstop hfill hn (ih h2)
    rwa [show k + 1 + j = k + j + 1 by omega]

theorem stopTest_eq (s : DState) (w : Circ) (rc : RC) (R : Bytes) :
    stopTest .finish s w rc ⟨R, false⟩ = .ok (stopB .finish s w rc R) :=
  stop_eq .finish s w rc R

theorem steps_one {s s1 : DState} {w w1 : Circ} {rc rc1 : RC} {R R1 : Bytes} {snk k : Sink}
    (hstop : stopB .finish (clr s) w rc R = false)
    (h : processNext s w rc ⟨R, false⟩ snk = (k, .ok (.continue, s1, w1, rc1, ⟨R1, false⟩))) :
    FinishSteps (cfg s w rc R snk) 1 (cfg s1 w1 rc1 R1 k) := by
  refine .step ?_ (by simp [cfg, Rd.fillBuf]) ?_ (.refl _)
  · show stopTest .finish (clr s) w rc ⟨R, false⟩ = .ok false
    rw [stopTest_eq, hstop]
  · show processNext (clr s) w rc ⟨R, false⟩ snk = _
    rw [processNext_clr, h, setPB_ok]
    rfl

theorem nostep_stop {s : DState} {w : Circ} {rc : RC} {R : Bytes} (snk : Sink)
    (h : stopB .finish (clr s) w rc R = true) : NoStep (cfg s w rc R snk) := by
  intro c' hs
  cases hs with
  | step hstop _ _ _ =>
    have : stopTest .finish (clr s) w rc ⟨R, false⟩ = .ok false := hstop
    rw [stopTest_eq, h] at this
    cases this

theorem nostep_next {s : DState} {w : Circ} {rc : RC} {R : Bytes} {snk : Sink}
    (h : ∀ k s1 w1 rc1 rd1, processNext (clr s) w rc ⟨R, false⟩ snk ≠ (k, .ok (.continue, s1, w1, rc1, rd1))) :
    NoStep (cfg s w rc R snk) := by
  intro c' hs
  cases hs with
  | step _ _ hn _ => exact h _ _ _ _ _ hn

theorem nostep_stopNow {s : DState} {w : Circ} (rc : RC) (R : Bytes) (snk : Sink) (h : StopNow s w) :
    NoStep (cfg s w rc R snk) :=
  nostep_stop snk (stopNow_stop (s := clr s) rc R h)

/-! ## one run of the `.stream` loop stays on the one-shot trace -/

/-- the trace statement for a result of the `.stream` loop -/
def TracePost (s : DState) (w : Circ) (rc : RC) (a F : Bytes) (snk : Sink)
    (res : Sink × Except Err (DState × Circ × RC × Rd)) : Prop :=
  match res with
  | (_, Except.error _) => False
  | (snk', Except.ok (s', w', rc', rd')) =>
    ∃ j c, FinishSteps (cfg s w rc (s.partialBuf ++ a ++ F) snk) j c ∧ c.w = w' ∧ c.snk = snk' ∧
      (c = cfg s' w' rc' (s'.partialBuf ++ rd'.rem ++ F) snk' ∨
       (NoStep c ∧ s'.partialBuf = [] ∧ rd'.rem ++ F = []))

theorem TracePost_step {s : DState} {w : Circ} {rc : RC} {a F : Bytes} {snk : Sink}
    {s2 : DState} {w2 : Circ} {rc2 : RC} {a2 : Bytes} {k : Sink}
    (res : Sink × Except Err (DState × Circ × RC × Rd)) {i : Nat}
    (hst : FinishSteps (cfg s w rc (s.partialBuf ++ a ++ F) snk) i
      (cfg s2 w2 rc2 (s2.partialBuf ++ a2 ++ F) k))
    (h : TracePost s2 w2 rc2 a2 F k res) : TracePost s w rc a F snk res := by
  rcases res with ⟨k2, r⟩
  cases r with
  | error e => exact h
  | ok y =>
    obtain ⟨s', w', rc', rd'⟩ := y
    obtain ⟨j, c, h1, h2, h3, h4⟩ := h
    exact ⟨i + j, c, steps_trans hst h1, h2, h3, h4⟩

/-- **Trace simulation.**  If the one-shot tail on `partialBuf ++ a ++ F` does not
fail, the `.stream` loop on `a` does not fail either, and the state it returns is a
configuration of the one-shot loop reached from the start configuration by `j` full
iterations — or the end marker was decoded at the very end of the input. -/
theorem stream_loop_trace (hN : Need20) : ∀ (n : Nat) (s : DState) (w : Circ) (rc : RC) (a F : Bytes)
    (snk : Sink), Inv s w rc → lmu s rc a < n →
    ¬ IsErr (fin (clr s) w rc (s.partialBuf ++ a ++ F) snk) →
    TracePost s w rc a F snk (processLoop .stream n s w rc ⟨a, false⟩ snk) := by
  intro n
  induction n with
  | zero => intro s w rc a F snk _ h; omega
  | succ n ih =>
    intro s w rc a F snk hI hn hok
    rw [processLoop_succ]
    cases hs : stopB .stream s w rc a with
    | true =>
      rw [LB_stop snk hs]
      exact ⟨0, _, .refl _, rfl, rfl, .inl rfl⟩
    | false =>
      have hstopF : stopB .finish (clr s) w rc (s.partialBuf ++ a ++ F) = false := stop_rel hs F
      by_cases hpb : s.partialBuf = []
      · by_cases hc : (Mode.stream = Mode.stream ∧ a.length < 20 ∧ tryProcessNext s w a rc = false)
        · rw [LB_direct_ret snk hs hpb hc]
          refine ⟨0, _, .refl _, rfl, rfl, .inl ?_⟩
          show cfg s w rc (s.partialBuf ++ a ++ F) snk = cfg s w rc (a ++ [] ++ F) snk
          rw [hpb, List.nil_append, List.append_nil]
        · rw [LB_direct_next snk hs hpb hc]
          have hne := not_eof hN hI a (fun h => hc ⟨rfl, h⟩)
          rw [hpb, List.nil_append] at hstopF hok
          rcases processNext_cases s w rc a snk with h | ⟨k, e, h⟩ | ⟨k, s', w', rc', a', hsuf, h⟩ |
            ⟨s', rc', h, hc0, hr0, hs7, hb⟩
          · exact absurd h hne
          · exfalso
            apply hok
            rw [fin_step_err hI hstopF (h F)]
            exact isErr_mk _ _
          · have h0 := h []
            rw [List.append_nil, List.append_nil] at h0
            rw [h0, pnTail_cont]
            obtain ⟨hI', _, _, hmu, hpb', hus⟩ := processNext_inv hI h0
            have hpb2 : s'.partialBuf = [] := hpb'.trans hpb
            have hfe := fin_step_cont hI hstopF (h F)
            refine TracePost_step (s2 := s') (a2 := a') (i := 1) _ ?_ (ih s' w' rc' a' F k hI' ?_ ?_)
            · rw [hpb, hpb2, List.nil_append, List.nil_append]
              exact steps_one hstopF (h F)
            · simp only [lmu, hpb2, hpb, List.length_nil, Nat.add_zero] at hn ⊢
              have hmu' : a'.length * 4294967296 + rc'.range < a.length * 4294967296 + rc.range := hmu
              generalize 4294967296 = K at *
              omega
            · rw [hpb2, List.nil_append, ← hfe]
              exact hok
          · rw [h, pnTail_fin]
            obtain ⟨hI', _, _, _, hpb', hus⟩ := processNext_inv hI h
            have hpb2 : s'.partialBuf = [] := hpb'.trans hpb
            have hF : F = [] := by
              refine Classical.byContradiction fun hF => hok ?_
              rw [fin_step_err hI hstopF (hb F hF)]
              exact isErr_mk _ _
            subst hF
            refine ⟨0, _, .refl _, rfl, rfl, .inr ⟨?_, hpb2, rfl⟩⟩
            rw [hpb, List.nil_append]
            refine nostep_next ?_
            intro k s1 w1 rc1 rd1 hcon
            rw [List.append_nil, processNext_clr, h, setPB_ok] at hcon
            cases hcon
      · obtain ⟨pb1, a1, hr, hcat, hl20, ha1, hI1, hsuf1, hlt1, hne1, hlen⟩ := readPartial_facts a hI
        have hcatF : s.partialBuf ++ a ++ F = pb1 ++ (a1 ++ F) := by rw [hcat, List.append_assoc]
        rw [hcatF] at hstopF hok
        by_cases hc : (Mode.stream = Mode.stream ∧ ({ s with partialBuf := pb1 } : DState).partialBuf.length < 20 ∧
            tryProcessNext { s with partialBuf := pb1 } w ({ s with partialBuf := pb1 } : DState).partialBuf rc = false)
        · rw [LB_buf_ret snk hs hpb hr hc]
          have hl : pb1.length < 20 := hc.2.1
          have ha1' := ha1 hl
          subst ha1'
          refine ⟨0, _, .refl _, rfl, rfl, .inl ?_⟩
          show cfg s w rc (s.partialBuf ++ a ++ F) snk = cfg s w rc (pb1 ++ [] ++ F) snk
          rw [hcatF, List.append_nil, List.nil_append]
        · rw [LB_buf_next snk hs hpb hr hc]
          show TracePost s w rc a F snk (pnTail (processLoop .stream n) ⟨a1, false⟩ true
            (processNext { s with partialBuf := pb1 } w rc ⟨pb1, false⟩ snk))
          have hne := not_eof hN hI1 pb1 (fun h => hc ⟨rfl, h⟩)
          rcases processNext_cases { s with partialBuf := pb1 } w rc pb1 snk with h | ⟨k, e, h⟩ |
            ⟨k, s', w', rc', l, hsuf, h⟩ | ⟨s', rc', h, hc0, hr0, hs7, hb⟩
          · exact absurd h hne
          · exfalso
            apply hok
            have := fin_step_err hI1 hstopF (h (a1 ++ F))
            rw [show fin (clr s) w rc (pb1 ++ (a1 ++ F)) snk = _ from this]
            exact isErr_mk _ _
          · have h0 := h []
            rw [List.append_nil, List.append_nil] at h0
            rw [h0, pnTail_cont_buf]
            obtain ⟨hI', _, _, hmu, _, hus⟩ := processNext_inv hI1 h0
            have hle : l.length ≤ pb1.length := hsuf.length_le
            have hI2 : Inv { s' with partialBuf := l } w' rc' := setpb_inv hI' (by omega)
            have hfe := fin_step_cont hI1 hstopF (h (a1 ++ F))
            refine TracePost_step (s2 := { s' with partialBuf := l }) (a2 := a1) (i := 1) _ ?_
              (ih { s' with partialBuf := l } w' rc' a1 F k hI2 ?_ ?_)
            · rw [hcatF]
              show FinishSteps (cfg { s with partialBuf := pb1 } w rc (pb1 ++ (a1 ++ F)) snk) 1
                (cfg s' w' rc' (l ++ a1 ++ F) k)
              rw [List.append_assoc]
              exact steps_one hstopF (h (a1 ++ F))
            · have hmu' : l.length * 4294967296 + rc'.range < pb1.length * 4294967296 + rc.range := hmu
              have : (a1.length + l.length) * 4294967296 + rc'.range <
                  (a.length + s.partialBuf.length) * 4294967296 + rc.range := mu_step hlen hmu'
              simp only [lmu] at hn ⊢
              show (a1.length + l.length) * 4294967296 + rc'.range < n
              generalize 4294967296 = K at *
              omega
            · show ¬ IsErr (fin (clr s') w' rc' (l ++ a1 ++ F) k)
              rw [List.append_assoc]
              have : fin (clr s) w rc (pb1 ++ (a1 ++ F)) snk = fin (clr s') w' rc' (l ++ (a1 ++ F)) k := hfe
              rw [← this]
              exact hok
          · rw [h, pnTail_fin_buf]
            have hF : a1 ++ F = [] := by
              refine Classical.byContradiction fun hF => hok ?_
              have := fin_step_err hI1 hstopF (hb (a1 ++ F) hF)
              rw [show fin (clr s) w rc (pb1 ++ (a1 ++ F)) snk = _ from this]
              exact isErr_mk _ _
            refine ⟨0, _, .refl _, rfl, rfl, .inr ⟨?_, rfl, hF⟩⟩
            rw [hcatF, hF, List.append_nil]
            refine nostep_next (s := { s with partialBuf := pb1 }) ?_
            intro k s1 w1 rc1 rd1 hcon
            rw [processNext_clr, h, setPB_ok] at hcon
            cases hcon

/-! ## `read_data` on the trace -/

/-- the one-shot configuration of a `RunState` with remaining input `R` -/
def rcfg (rs : RunState) (R : Bytes) (k : Sink) : Cfg Circ :=
  cfg rs.decoder rs.output ⟨rs.range, rs.code⟩ R k

theorem readData_trace (hN : Need20) {rs : RunState} {a F : Bytes} {snk : Sink} (hI : RInv rs)
    (hok : ¬ IsErr (rfin rs (rs.decoder.partialBuf ++ a ++ F) snk)) :
    ∃ k rs' a', Stream.readData rs ⟨a, false⟩ snk = (k, .ok (rs', ⟨a', false⟩)) ∧
      ∃ j c, FinishSteps (rcfg rs (rs.decoder.partialBuf ++ a ++ F) snk) j c ∧ c.w = rs'.output ∧ c.snk = k ∧
        (c = rcfg rs' (rs'.decoder.partialBuf ++ a' ++ F) k ∨
         (NoStep c ∧ rs'.decoder.partialBuf = [] ∧ a' ++ F = [])) := by
  rcases hres : Stream.readData rs ⟨a, false⟩ snk with ⟨k, r⟩
  cases r with
  | error e => exact absurd (readData_err hN hI hres F) hok
  | ok y =>
    obtain ⟨rs', rd'⟩ := y
    have hbad := (readData_ok hN hI hres).1
    obtain ⟨a', _⟩ := rd'
    simp only at hbad
    subst hbad
    refine ⟨k, rs', a', rfl, ?_⟩
    unfold Stream.readData at hres
    obtain ⟨y, k', h1, h2⟩ := bind_eq_ok hres
    obtain ⟨s1, w1, rc1, rd1⟩ := y
    simp only [pure_run, Prod.mk.injEq, Except.ok.injEq] at h2
    obtain ⟨rfl, rfl, rfl⟩ := h2
    have h3 := processMode_stream_ok h1
    have ht := stream_loop_trace hN _ _ _ _ a F snk hI (lmu_lt_loopFuel a hI) hok
    rw [h3] at ht
    exact ht

/-! ## the `Stream` object on the trace -/

/-- a stream in Data state whose state lies on the one-shot trace started in `c₀`, with
future input `G`, while the one-shot tail does not fail -/
structure Good (c₀ : Cfg Circ) (st : Stream) (rs : RunState) (k : Sink) (G : Bytes) : Prop where
  inv : DataInv st rs
  ok : ¬ IsErr (sfin st rs G k)
  tmpLen : st.tmp.length ≤ 8
  tr : ∃ j c, FinishSteps c₀ j c ∧ c.w = rs.output ∧ c.snk = k ∧
      ((c.s = clr rs.decoder ∧ c.rc = ⟨rs.range, rs.code⟩ ∧
          (c.rd = ⟨st.tmp ++ rs.decoder.partialBuf ++ G, false⟩ ∨ StopNow rs.decoder rs.output)) ∨
       (NoStep c ∧ st.tmp ++ rs.decoder.partialBuf ++ G = []))

/-- the trace part of `Good`, relative to an arbitrary start -/
def OnTrace (c₁ : Cfg Circ) (rs : RunState) (k : Sink) (R : Bytes) : Prop :=
  ∃ j c, FinishSteps c₁ j c ∧ c.w = rs.output ∧ c.snk = k ∧
    ((c.s = clr rs.decoder ∧ c.rc = ⟨rs.range, rs.code⟩ ∧
        (c.rd = ⟨R, false⟩ ∨ StopNow rs.decoder rs.output)) ∨
     (NoStep c ∧ R = []))

theorem OnTrace.of_run {c₁ : Cfg Circ} {rs' : RunState} {k : Sink} {R : Bytes}
    (h : ∃ j c, FinishSteps c₁ j c ∧ c.w = rs'.output ∧ c.snk = k ∧
      (c = rcfg rs' R k ∨ (NoStep c ∧ rs'.decoder.partialBuf = [] ∧ R = []))) :
    OnTrace c₁ rs' k R := by
  obtain ⟨j, c, h1, h2, h3, h4⟩ := h
  refine ⟨j, c, h1, h2, h3, ?_⟩
  rcases h4 with rfl | ⟨h5, _, h7⟩
  · exact .inl ⟨rfl, rfl, .inl rfl⟩
  · exact .inr ⟨h5, h7⟩

/-- one `write` in Data state, started exactly at a one-shot configuration -/
theorem write_trace (hN : Need20) {st st' : Stream} {rs rs' : RunState} {data G : Bytes} {snk k : Sink}
    {n : Nat} (hD : DataInv st rs) (hdne : data ≠ [])
    (hok : ¬ IsErr (sfin st rs (data ++ G) snk))
    (h : st.write data snk = (k, .ok (st', n))) (hD' : DataInv st' rs') :
    OnTrace (rcfg rs (st.tmp ++ rs.decoder.partialBuf ++ (data ++ G)) snk) rs' k
      (rs'.decoder.partialBuf ++ (data.drop n ++ G)) := by
  have hst' : st'.state = some (.data rs') := hD'.state
  unfold Stream.write at h
  rw [hD.state] at h
  simp only at h
  unfold sfin at hok
  by_cases ht : st.tmp.length > 0
  · rw [if_pos ht] at h
    obtain ⟨x, k1, h5, h2⟩ := bind_eq_ok h
    obtain ⟨rs1, rdx⟩ := x
    obtain ⟨rs1', k1', h6, h2⟩ := bind_eq_ok h2
    simp only [pure_run, Prod.mk.injEq, Except.ok.injEq] at h6
    obtain ⟨rfl, rfl⟩ := h6
    obtain ⟨y, k2, h3, h4⟩ := bind_eq_ok h2
    obtain ⟨rs2, rd2⟩ := y
    simp only [pure_run, Prod.mk.injEq, Except.ok.injEq] at h4
    obtain ⟨rfl, rfl, rfl⟩ := h4
    have : rs2 = rs' := by
      simp only [Option.some.injEq, StreamState.data.injEq] at hst'
      exact hst'
    subst this
    have hpbnil : rs.decoder.partialBuf = [] := by
      rcases hD.excl with h | h
      · rw [h] at ht; simp at ht
      · exact h
    obtain ⟨hI1, hpb1, hV1⟩ := tmp_run_ok hN hD ht h5
    obtain ⟨_, _, g3, g4, _, _⟩ := readData_ok hN hD.inv h5
    have hok1 : ¬ IsErr (rfin rs (rs.decoder.partialBuf ++ st.tmp ++ (data ++ G)) snk) := by
      rw [hpbnil, List.nil_append]; rw [hpbnil, List.append_nil] at hok; exact hok
    obtain ⟨k1', rs1', a', e1, j1, c1, t1, t2, t3, t4⟩ := readData_trace hN (F := data ++ G) hD.inv hok1
    rw [show Stream.readData rs ⟨st.tmp, false⟩ snk = _ from h5] at e1
    simp only [Prod.mk.injEq, Except.ok.injEq] at e1
    obtain ⟨rfl, rfl, rfl⟩ := e1
    rw [hpbnil, List.nil_append] at t1
    rw [hpbnil, List.append_nil]
    have hok2 : ¬ IsErr (rfin rs1 (rs1.decoder.partialBuf ++ data ++ G) k1) := by
      intro he
      have := (hV1 (data ++ G)).isErr (by rw [← List.append_assoc]; exact he)
      exact hok this
    rcases t4 with rfl | ⟨_, _, t7⟩
    · rcases g4 with g | g | ⟨g, _⟩
      · -- tmp fully consumed: second phase from `c1`
        simp only at g
        subst g
        obtain ⟨k2', rs2', a2, e2, j2, c2, u1, u2, u3, u4⟩ := readData_trace hN (F := G) hI1 hok2
        rw [show Stream.readData rs1 ⟨data, false⟩ k1 = _ from h3] at e2
        simp only [Prod.mk.injEq, Except.ok.injEq] at e2
        obtain ⟨rfl, rfl, rfl⟩ := e2
        have hsuf := (readData_ok hN hI1 h3).2.2.1
        have hdrop : data.drop (data.length - a2.length) = a2 :=
          (List.suffix_iff_eq_drop.mp hsuf).symm
        simp only at hdrop ⊢
        rw [hdrop]
        refine OnTrace.of_run ⟨j1 + j2, c2, steps_trans t1 ?_, u2, u3, ?_⟩
        · rw [List.append_nil, ← List.append_assoc]; exact u1
        · rcases u4 with rfl | ⟨u5, u6, u7⟩
          · left; rw [List.append_assoc]
          · right; refine ⟨u5, u6, ?_⟩
            rw [u6, List.nil_append]; exact u7
      · -- size reached during the tmp run: the data run returns at once
        obtain ⟨m, hm1, hm2⟩ := g
        have hsr := Stream.readData_size_reached rs1 (Rd.ofBytes data) k1 m hm1 hm2
        rw [hsr] at h3
        simp only [Prod.mk.injEq, Except.ok.injEq] at h3
        obtain ⟨rfl, rfl, _⟩ := h3
        exact ⟨j1, _, t1, rfl, rfl, .inl ⟨rfl, rfl, .inr ⟨m, hm1, hm2⟩⟩⟩
      · exact absurd hpbnil g
    · exfalso
      apply hdne
      have := (List.append_eq_nil_iff.mp t7).2
      exact (List.append_eq_nil_iff.mp this).1
  · rw [if_neg ht] at h
    obtain ⟨rs1', k1', h6, h2⟩ := bind_eq_ok h
    simp only [pure_run, Prod.mk.injEq, Except.ok.injEq] at h6
    obtain ⟨rfl, rfl⟩ := h6
    obtain ⟨y, k2, h3, h4⟩ := bind_eq_ok h2
    obtain ⟨rs2, rd2⟩ := y
    simp only [pure_run, Prod.mk.injEq, Except.ok.injEq] at h4
    obtain ⟨rfl, rfl, rfl⟩ := h4
    have : rs2 = rs' := by
      simp only [Option.some.injEq, StreamState.data.injEq] at hst'
      exact hst'
    subst this
    have htmp : st.tmp = [] := List.eq_nil_of_length_eq_zero (by omega)
    rw [htmp, List.nil_append] at hok ⊢
    have hok1 : ¬ IsErr (rfin rs (rs.decoder.partialBuf ++ data ++ G) snk) := by
      rw [List.append_assoc]; exact hok
    obtain ⟨k2', rs2', a2, e2, j2, c2, u1, u2, u3, u4⟩ := readData_trace hN (F := G) hD.inv hok1
    rw [show Stream.readData rs ⟨data, false⟩ snk = _ from h3] at e2
    simp only [Prod.mk.injEq, Except.ok.injEq] at e2
    obtain ⟨rfl, rfl, rfl⟩ := e2
    have hsuf := (readData_ok hN hD.inv h3).2.2.1
    have hdrop : data.drop (data.length - a2.length) = a2 :=
      (List.suffix_iff_eq_drop.mp hsuf).symm
    simp only at hdrop ⊢
    rw [hdrop]
    refine OnTrace.of_run ⟨j2, c2, ?_, u2, u3, ?_⟩
    · rw [← List.append_assoc]; exact u1
    · rcases u4 with rfl | ⟨u5, u6, u7⟩
      · left; rw [List.append_assoc]
      · right; refine ⟨u5, u6, ?_⟩
        rw [u6, List.nil_append]; exact u7

theorem cfg_ext {c : Cfg Circ} {s : DState} {w : Circ} {rc : RC} {R : Bytes} {k : Sink}
    (h1 : c.s = clr s) (h2 : c.w = w) (h3 : c.rc = rc) (h4 : c.rd = ⟨R, false⟩) (h5 : c.snk = k) :
    c = cfg s w rc R k := by
  cases c
  simp only at h1 h2 h3 h4 h5
  subst h1 h2 h3 h4 h5
  rfl

/-- `Good` is preserved by one `write` of non-empty data -/
theorem write_good (hN : Need20) {c₀ : Cfg Circ} {st : Stream} {rs : RunState} {data G : Bytes} {snk : Sink}
    (hg : Good c₀ st rs snk (data ++ G)) (hdne : data ≠ []) :
    ∃ k st' n rs', st.write data snk = (k, .ok (st', n)) ∧ st'.options = st.options ∧ n ≤ data.length ∧
      (n = 0 → StopNow rs'.decoder rs'.output) ∧ Good c₀ st' rs' k (data.drop n ++ G) := by
  rcases hw : st.write data snk with ⟨k, r⟩
  cases r with
  | error e => exact absurd (write_data_err hN hg.inv hw G) hg.ok
  | ok y =>
    obtain ⟨st', n⟩ := y
    obtain ⟨rs', hD', htmp', hopt', hnle, hn0, hV⟩ := write_data_ok hN hg.inv hw
    refine ⟨k, st', n, rs', rfl, hopt', hnle, fun h => hn0 h hdne, ⟨hD', ?_, by rw [htmp']; decide, ?_⟩⟩
    · exact fun he => hg.ok ((hV G).isErr he)
    · obtain ⟨j, c, t1, t2, t3, t4⟩ := hg.tr
      rw [htmp', List.nil_append]
      rcases t4 with ⟨t5, t6, t7 | t7⟩ | ⟨_, t7⟩
      · -- the stream is exactly at `c`
        have hc : c = rcfg rs (st.tmp ++ rs.decoder.partialBuf ++ (data ++ G)) snk :=
          cfg_ext t5 t2 t6 t7 t3
        subst hc
        obtain ⟨j', c', u1, u2, u3, u4⟩ := write_trace hN hg.inv hdne hg.ok hw hD'
        exact ⟨j + j', c', steps_trans t1 u1, u2, u3, u4⟩
      · -- size reached: nothing changes
        obtain ⟨m, hm1, hm2⟩ := t7
        have hsr := Stream.write_size_reached st rs data snk m hg.inv.state hm1 hm2
        rw [hsr] at hw
        simp only [Prod.mk.injEq, Except.ok.injEq] at hw
        obtain ⟨rfl, rfl, rfl⟩ := hw
        have : rs = rs' := by
          have := hD'.state
          simp only [Option.some.injEq, StreamState.data.injEq] at this
          exact this
        subst this
        exact ⟨j, c, t1, t2, t3, .inl ⟨t5, t6, .inr ⟨m, hm1, hm2⟩⟩⟩
      · exfalso
        apply hdne
        have := (List.append_eq_nil_iff.mp t7).2
        exact (List.append_eq_nil_iff.mp this).1

/-- `Good` does not depend on the future input once the size is reached -/
theorem Good.stopNow_change {c₀ : Cfg Circ} {st : Stream} {rs : RunState} {k : Sink} {G G' : Bytes}
    (hg : Good c₀ st rs k G) (hs : StopNow rs.decoder rs.output) (hne : G ≠ []) : Good c₀ st rs k G' := by
  refine ⟨hg.inv, ?_, hg.tmpLen, ?_⟩
  · have := hg.ok
    unfold sfin at this ⊢
    rw [rfin_stopNow hg.inv.inv hs _ (st.tmp ++ rs.decoder.partialBuf ++ G)]
    exact this
  · obtain ⟨j, c, t1, t2, t3, t4⟩ := hg.tr
    refine ⟨j, c, t1, t2, t3, ?_⟩
    rcases t4 with ⟨t5, t6, _⟩ | ⟨_, t7⟩
    · exact .inl ⟨t5, t6, .inr hs⟩
    · exact absurd (List.append_eq_nil_iff.mp t7).2 hne

/-- `Good` is preserved by the re-submitting `feed` loop -/
theorem feed_good (hN : Need20) {c₀ : Cfg Circ} : ∀ (f : Nat) (st : Stream) (rs : RunState) (data G : Bytes)
    (acc : Nat) (snk : Sink), Good c₀ st rs snk (data ++ G) → data.length < f →
    ∃ k st' rs' m, Stream.feed f st data acc snk = (k, st', .ok m) ∧ st'.options = st.options ∧
      Good c₀ st' rs' k G := by
  intro f
  induction f with
  | zero => intro st rs data G acc snk _ h; omega
  | succ f ih =>
    intro st rs data G acc snk hg hlen
    rw [Stream.feed]
    by_cases hemp : data.isEmpty = true
    · rw [if_pos hemp]
      have : data = [] := List.isEmpty_iff.mp hemp
      subst this
      exact ⟨snk, st, rs, acc, rfl, rfl, hg⟩
    · rw [if_neg hemp]
      have hdne : data ≠ [] := fun h => hemp (by rw [h]; rfl)
      obtain ⟨k1, st1, n, rs1, hw, ho1, hnle, hn0, hg1⟩ := write_good hN hg hdne
      rw [writeS_of_ok hw]
      simp only
      by_cases hn : n = 0
      · rw [if_pos hn]
        subst hn
        refine ⟨k1, st1, rs1, acc, rfl, ho1, ?_⟩
        refine hg1.stopNow_change (hn0 rfl) ?_
        intro h
        exact hdne (List.append_eq_nil_iff.mp h).1
      · rw [if_neg hn]
        obtain ⟨k2, st2, rs2, m, hf, ho2, hg2⟩ := ih st1 rs1 (data.drop n) G (acc + n) k1 hg1
          (by rw [List.length_drop]; omega)
        exact ⟨k2, st2, rs2, m, hf, ho2.trans ho1, hg2⟩

/-- `Good` along a whole list of chunks -/
theorem chunks_good (hN : Need20) {c₀ : Cfg Circ} : ∀ (cs : List Bytes) (st : Stream) (rs : RunState) (q : Bytes)
    (snk : Sink), Good c₀ st rs snk (cs.flatten ++ q) →
    ∃ k st' rs', feedAll cs st snk = (k, st', .ok ()) ∧ st'.options = st.options ∧ Good c₀ st' rs' k q := by
  intro cs
  induction cs with
  | nil => intro st rs q snk hg; exact ⟨snk, st, rs, rfl, rfl, by simpa using hg⟩
  | cons c cs ih =>
    intro st rs q snk hg
    rw [List.flatten_cons, List.append_assoc] at hg
    obtain ⟨k1, st1, rs1, m, hf, ho1, hg1⟩ := feed_good hN (c.length + 1) st rs c _ 0 snk hg (Nat.lt_succ_self _)
    obtain ⟨k2, st2, rs2, hf2, ho2, hg2⟩ := ih st1 rs1 q k1 hg1
    refine ⟨k2, st2, rs2, ?_, ho2.trans ho1, hg2⟩
    rw [feedAll, hf]
    exact hf2

/-! ## from the Header state onto the trace -/

/-- the one-shot decoder does not fail on `z` (for the sink `snk`) -/
def OneShotOk (opts : Options) (z : Bytes) (snk : Sink) : Prop :=
  ¬ IsErr (toUnit (lzmaDecompress ⟨z, false⟩ opts snk))

theorem feed_header_good (hN : Need20) {rs0 : RunState} {t0 : Bytes} (f : Nat) (st : Stream) (data G : Bytes)
    (acc : Nat) (snk : Sink) (hs : st.state = some .header) (hno : HNone st.options st.tmp)
    (hx : Stream.readHeader ⟨st.tmp ++ data ++ G, false⟩ st.options = .ok (some rs0, ⟨t0, false⟩))
    (hok : OneShotOk st.options (st.tmp ++ data ++ G) snk) (hlen : data.length < f) :
    ∃ k st' m, Stream.feed f st data acc snk = (k, st', .ok m) ∧ st'.options = st.options ∧
      ((k = snk ∧ st'.state = some .header ∧ st'.tmp = st.tmp ++ data ∧ HNone st.options (st.tmp ++ data)) ∨
       (∃ rs', Good (rcfg rs0 t0 snk) st' rs' k G)) := by
  cases f with
  | zero => omega
  | succ f =>
    rw [Stream.feed]
    by_cases hemp : data.isEmpty = true
    · rw [if_pos hemp]
      have : data = [] := List.isEmpty_iff.mp hemp
      subst this
      exact ⟨snk, st, acc, rfl, rfl, .inl ⟨rfl, hs, by rw [List.append_nil], by rw [List.append_nil]; exact hno⟩⟩
    · rw [if_neg hemp]
      have hdne : data ≠ [] := fun h => hemp (by rw [h]; rfl)
      have hdpos : 0 < data.length := List.length_pos_iff.mpr hdne
      rcases stream_header_equiv' hs hno hdne snk with
        ⟨e, hw, herr⟩ | ⟨st', hw, h1, h2, h3, h4⟩ | ⟨st', n, rs, hw, hn0, hnle, hD, ho, hV, hpb, htl, hrh⟩
      · exact absurd (herr G snk) hok
      · rw [writeS_of_ok hw]
        simp only
        rw [if_neg (by omega)]
        cases f with
        | zero => omega
        | succ f =>
          rw [Stream.feed, List.drop_length]
          simp only [List.isEmpty_nil, if_true]
          exact ⟨snk, st', _, rfl, h3, .inl ⟨rfl, h1, h2, h4⟩⟩
      · rw [writeS_of_ok hw]
        simp only
        rw [if_neg (by omega)]
        have hrs := hrh G
        rw [hx] at hrs
        simp only [Except.ok.injEq, Prod.mk.injEq, Option.some.injEq, Rd.mk.injEq, and_true] at hrs
        obtain ⟨rfl, ht0⟩ := hrs
        have hg : Good (rcfg rs0 t0 snk) st' rs0 snk (data.drop n ++ G) := by
          refine ⟨hD, ?_, htl, 0, _, .refl _, rfl, rfl, .inl ⟨rfl, rfl, .inl ?_⟩⟩
          · exact fun he => hok ((hV G snk).isErr he)
          · show (⟨t0, false⟩ : Rd) = _
            rw [ht0, hpb, List.append_nil, List.append_assoc]
        obtain ⟨k2, st2, rs2, m, hf, ho2, hg2⟩ := feed_good hN f st' rs0 (data.drop n) G (acc + n) snk hg
          (by rw [List.length_drop]; omega)
        exact ⟨k2, st2, m, hf, ho2.trans ho, .inr ⟨rs2, hg2⟩⟩

/-- feeding, from a Header state, chunks that together contain the header and the five
coder bytes brings the stream onto the one-shot trace of the whole input `tmp ++ chunks ++ q` -/
theorem header_good (hN : Need20) {rs0 : RunState} {t0 : Bytes} : ∀ (cs : List Bytes) (st : Stream) (q : Bytes)
    (snk : Sink), st.state = some .header → HNone st.options st.tmp →
    Stream.readHeader ⟨st.tmp ++ cs.flatten ++ q, false⟩ st.options = .ok (some rs0, ⟨t0, false⟩) →
    OneShotOk st.options (st.tmp ++ cs.flatten ++ q) snk →
    NN st.options ≤ (st.tmp ++ cs.flatten).length →
    ∃ k st' rs', feedAll cs st snk = (k, st', .ok ()) ∧ st'.options = st.options ∧
      Good (rcfg rs0 t0 snk) st' rs' k q := by
  intro cs
  induction cs with
  | nil =>
    intro st q snk hs hno hx hok hlen
    obtain ⟨r, hr⟩ := hno
    have := srh_none hr
    rw [List.flatten_nil, List.append_nil] at hlen
    omega
  | cons c cs ih =>
    intro st q snk hs hno hx hok hlen
    rw [List.flatten_cons, ← List.append_assoc] at hx hok hlen
    rw [List.append_assoc _ cs.flatten] at hx hok
    obtain ⟨k, st1, m, hf, ho, hcase⟩ := feed_header_good hN (c.length + 1) st c (cs.flatten ++ q) 0 snk hs hno
      hx hok (Nat.lt_succ_self _)
    rcases hcase with ⟨rfl, h1, h2, h3⟩ | ⟨rs', hg⟩
    · obtain ⟨k2, st2, rs2, hf2, ho2, hg2⟩ := ih st1 q k h1 (by rw [ho, h2]; exact h3)
        (by rw [ho, h2, List.append_assoc]; exact hx)
        (by rw [ho, h2, List.append_assoc]; exact hok) (by rw [ho, h2]; exact hlen)
      refine ⟨k2, st2, rs2, ?_, ho2.trans ho, hg2⟩
      rw [feedAll, hf]
      exact hf2
    · obtain ⟨k2, st2, rs2, hf2, ho2, hg2⟩ := chunks_good hN cs st1 rs' q k hg
      refine ⟨k2, st2, rs2, ?_, ho2.trans ho, hg2⟩
      rw [feedAll, hf]
      exact hf2

/-! ## determinism and monotonicity of the one-shot trace -/

theorem steps_split {c a b : Cfg Circ} {i j : Nat} (ha : FinishSteps c i a) (hb : FinishSteps c j b)
    (hji : j ≤ i) : FinishSteps b (i - j) a := by
  induction hb generalizing i with
  | refl _ => simpa using ha
  | @step c0 s1 w1 rc1 rd1 snk1 k c' hstop hfill hn _ ih =>
    cases ha with
    | refl _ => omega
    | @step _ s2 w2 rc2 rd2 snk2 k2 _ _ _ hn' ha' =>
      rw [hn] at hn'
      simp only [Prod.mk.injEq, Except.ok.injEq, true_and] at hn'
      obtain ⟨rfl, rfl, rfl, rfl, rfl⟩ := hn'
      have := ih ha' (by omega)
      rwa [show k2 + 1 - (k + 1) = k2 - k by omega]

theorem steps_first {c a : Cfg Circ} {m : Nat} (h : FinishSteps c (m + 1) a) : ∃ c1, FinishSteps c 1 c1 := by
  cases h with
  | step hstop hfill hn _ => exact ⟨_, .step hstop hfill hn (.refl _)⟩

/-- a configuration from which the loop cannot continue is the last one of every trace -/
theorem nostep_le {c₀ c a : Cfg Circ} {i j : Nat} (hc : NoStep c) (hj : FinishSteps c₀ j c)
    (hi : FinishSteps c₀ i a) : i ≤ j := by
  refine Classical.byContradiction fun hlt => ?_
  have h := steps_split hi hj (by omega)
  obtain ⟨m, hm⟩ : ∃ m, i - j = m + 1 := ⟨i - j - 1, by omega⟩
  rw [hm] at h
  obtain ⟨c1, h1⟩ := steps_first h
  exact hc c1 h1

/-- the reader only shrinks along the trace -/
theorem steps_rd {c c' : Cfg Circ} {j : Nat} (h : FinishSteps c j c') :
    c.rd.bad = false → c'.rd.bad = false ∧ c'.rd.rem <:+ c.rd.rem := by
  induction h with
  | refl _ => intro hb; exact ⟨hb, List.suffix_refl _⟩
  | @step c0 s1 w1 rc1 rd1 snk1 k c' hstop hfill hn _ ih =>
    intro hb
    obtain ⟨sym, probs, hrun, _⟩ := processNext_ok_iff.1 hn
    rcases hrd : c0.rd with ⟨a, bad⟩
    rw [hrd] at hb hrun
    simp only at hb
    subst hb
    obtain ⟨g1, g2, _⟩ := runDec_ok_app true _ _ _ _ _ _ _ _ hrun
    obtain ⟨i1, i2⟩ := ih g1
    exact ⟨i1, i2.trans g2⟩

/-! ## the delivered-plus-window history -/

/-- window `w` and sink `snk` together hold the output history `base ++ H`: the window
represents `H` and the sink holds `base` followed by the completed laps of `H` -/
def HistInv (base : Array UInt8) (w : Circ) (snk : Sink) (H : Bytes) : Prop :=
  CircInv w H ∧ snk.Perfect ∧ snk.out = base ++ (H.take (flushedLen w.dictSize H.length)).toArray

/-- … for some history extending `H` -/
def HistGe (base : Array UInt8) (H : Bytes) (w : Circ) (snk : Sink) : Prop :=
  ∃ H', H <+: H' ∧ HistInv base w snk H'

theorem histGe_lit {base : Array UInt8} {H : Bytes} (w : Circ) (b : UInt8) (snk snk' : Sink) (w' : Circ)
    (h : LzBuf.appendLiteral w b snk = (snk', .ok w')) (hi : HistGe base H w snk) : HistGe base H w' snk' := by
  obtain ⟨H', hp, hci, hs, hout⟩ := hi
  have h' : w.appendLiteral b snk = (snk', .ok w') := h
  by_cases hm : min (H'.length + 1) w.dictSize ≤ w.memlimit
  · obtain ⟨w'', he, hci', hd, _⟩ := Circ.appendLiteral_ok b hci hs hm
    rw [he] at h'
    simp only [Prod.mk.injEq, Except.ok.injEq] at h'
    obtain ⟨rfl, rfl⟩ := h'
    refine ⟨H' ++ [b], hp.trans (List.prefix_append _ _), hci', Sink.after_perfect hs, ?_⟩
    rw [hd]
    exact Sink.after_out_rel (s0 := { out := base }) (List.prefix_append _ _) hout
  · rw [Circ.appendLiteral_fail snk b hci hm] at h'
    simp at h'

theorem histGe_lz {base : Array UInt8} {H : Bytes} (w : Circ) (l d : Nat) (snk snk' : Sink) (w' : Circ)
    (h : LzBuf.appendLz w l d snk = (snk', .ok w')) (hi : HistGe base H w snk) : HistGe base H w' snk' := by
  obtain ⟨H', hp, hci, hs, hout⟩ := hi
  have h' : w.appendLz l d snk = (snk', .ok w') := h
  by_cases hd0 : d = 0
  · subst hd0
    have hz := Circ.appendLz_zero (s := snk) l hci hs
    split at hz
    · obtain ⟨w'', he, hci', hd, _⟩ := hz
      rw [he] at h'
      simp only [Prod.mk.injEq, Except.ok.injEq] at h'
      obtain ⟨rfl, rfl⟩ := h'
      refine ⟨_, hp.trans (List.prefix_append _ _), hci', Sink.after_perfect hs, ?_⟩
      rw [hd]
      exact Sink.after_out_rel (s0 := { out := base }) (List.prefix_append _ _) hout
    · rw [hz] at h'; simp at h'
  · have hz := Circ.appendLz_spec (s := snk) l hci hs (show 1 ≤ d by omega)
    split at hz
    · obtain ⟨w'', he, hci', hd, _⟩ := hz
      rw [he] at h'
      simp only [Prod.mk.injEq, Except.ok.injEq] at h'
      obtain ⟨rfl, rfl⟩ := h'
      refine ⟨_, hp.trans (List.prefix_append _ _), hci', Sink.after_perfect hs, ?_⟩
      rw [hd]
      exact Sink.after_out_rel (s0 := { out := base }) (List.prefix_append _ _) hout
    · rw [hz] at h'; simp at h'

/-- the history only grows along the one-shot trace -/
theorem histGe_steps {base : Array UInt8} {H : Bytes} {c c' : Cfg Circ} {j : Nat} (h : FinishSteps c j c') :
    HistGe base H c.w c.snk → HistGe base H c'.w c'.snk := by
  induction h with
  | refl _ => exact id
  | step _ _ hn _ ih =>
    intro hi
    obtain ⟨sym, probs, -, ha⟩ := processNext_ok_iff.1 hn
    exact ih (applySym_inv histGe_lit histGe_lz ha hi)

theorem histGe_run {base : Array UInt8} {H : Bytes} {c c' : Cfg Circ} {k : Nat} {e : Exit}
    (h : FinishRun c k e c') : HistGe base H c.w c.snk → HistGe base H c'.w c'.snk :=
  FinishRun.inv (I := HistGe base H) histGe_lit histGe_lz h

/-- what `finish` would deliver: the sink's bytes followed by the unflushed part of the window -/
def histOut (w : Circ) (snk : Sink) : Array UInt8 := snk.out ++ w.buf.extract 0 w.cursor

theorem finish_out {w : Circ} {snk s' : Sink} (hs : snk.Perfect) (h : w.finish snk = (s', .ok ())) :
    s'.out = histOut w snk := by
  have hs' : snk.script = [] := hs
  unfold Circ.finish at h
  unfold histOut
  by_cases hc : w.cursor > 0
  · rw [if_pos hc] at h
    by_cases hcb : w.cursor ≤ w.buf.size
    · rw [if_pos hcb] at h
      have hne : (w.buf.extract 0 w.cursor).isEmpty = false := by
        rw [Array.isEmpty_eq_false_iff]; intro h0
        have : (w.buf.extract 0 w.cursor).size = 0 := by rw [h0]; rfl
        rw [Array.size_extract] at this; omega
      rw [bind_run, writeAll_perfect hs hne] at h
      simp only at h
      rw [flushSink_perfect (by exact hs')] at h
      simp only [Prod.mk.injEq, and_true] at h
      rw [← h]
    · rw [if_neg hcb] at h
      simp [bind_run] at h
  · rw [if_neg hc] at h
    have h0 : w.cursor = 0 := by omega
    simp only [bind_run, pure_run] at h
    rw [flushSink_perfect hs] at h
    simp only [Prod.mk.injEq, and_true] at h
    rw [← h, h0]
    simp

/-- with the history invariant, `finish` succeeds and delivers exactly `base ++ H` -/
theorem finish_hist {base : Array UInt8} {w : Circ} {snk : Sink} {H : Bytes} (h : HistInv base w snk H) :
    ∃ s', w.finish snk = (s', .ok ()) ∧ s'.out = base ++ H.toArray ∧ histOut w snk = base ++ H.toArray := by
  obtain ⟨hci, hs, hout⟩ := h
  obtain ⟨s', hf, _, ho, _⟩ := Circ.finish_spec (s0 := { out := base }) hci hs hout
  exact ⟨s', hf, ho, by rw [← finish_out hs hf]; exact ho⟩

theorem histInv_init {d m : Nat} (hd : 0 < d) {snk : Sink} (hs : snk.script = []) :
    HistInv snk.out (Circ.fromStream d m) snk [] := by
  refine ⟨Circ.fromStream_inv m hd, hs, ?_⟩
  simp

/-! ## assembly -/

/-- the one-shot configuration after the header and `RangeDecoder::new` (if they parse) -/
def startCfg (opts : Options) (x : Bytes) (snk : Sink) : Option (Cfg Circ) :=
  match Stream.readHeader ⟨x, false⟩ opts with
  | .ok (some rs, rd) => some ⟨rs.decoder, rs.output, ⟨rs.range, rs.code⟩, rd, snk⟩
  | _ => none

theorem startCfg_some {opts : Options} {x : Bytes} {snk : Sink} {c₀ : Cfg Circ}
    (h : startCfg opts x snk = some c₀) :
    ∃ rs, Stream.readHeader ⟨x, false⟩ opts = .ok (some rs, ⟨x.drop (NN opts), false⟩) ∧
      c₀ = rcfg rs (x.drop (NN opts)) snk ∧ rs.decoder.partialBuf = [] ∧
      c₀.w = Circ.fromStream c₀.w.dictSize c₀.w.memlimit ∧ 0 < c₀.w.dictSize := by
  unfold startCfg at h
  split at h
  · rename_i rs rd hr
    obtain ⟨_, hrd, _⟩ := srh_some hr
    subst hrd
    obtain ⟨_, hpb, _⟩ := enter_data hr
    simp only [Option.some.injEq] at h
    subst h
    obtain ⟨params, rd1, decoder, rc, h1, _, _, hrs⟩ := sreadHeader_some_iff.mp hr
    refine ⟨rs, hr, ?_, hpb, ?_, ?_⟩
    · unfold rcfg cfg
      rw [clr_of_nil hpb]
    · subst hrs; rfl
    · subst hrs; exact (readHeader_dict h1).1
  · cases h

/-- a successful one-shot run is a `FinishRun` from the start configuration followed by `finish` -/
theorem oneshot_run {opts : Options} {x : Bytes} {snk snkO : Sink} {rdO : Rd}
    (h : lzmaDecompress ⟨x, false⟩ opts snk = (snkO, .ok rdO)) :
    ∃ c₀ k e cF, startCfg opts x snk = some c₀ ∧ FinishRun c₀ k e cF ∧
      cF.w.finish cF.snk = (snkO, .ok ()) := by
  obtain ⟨params, rd1, dec, rc, rd2, s', w', rc', snk1, hh, hd, hrc, hpm, hfin⟩ := lzmaDecompress_ok_iff.mp h
  have hr : Stream.readHeader ⟨x, false⟩ opts = .ok (some (mkRun opts params dec.state rc), rd2) :=
    sreadHeader_some_iff.mpr ⟨params, rd1, dec.state, rc, hh, new_decoder_inv hd, hrc, rfl⟩
  have hpb := (LzmaDecoder.new_ok hd).2.2.1
  obtain ⟨k, e, hrun, _⟩ := processMode_finish_run
    (c := ⟨dec.state, Circ.fromStream params.dictSize (opts.memlimit.getD USIZE_MAX), rc, rd2, snk⟩) hpb hpm
  refine ⟨_, k, e, _, ?_, hrun, hfin⟩
  unfold startCfg
  rw [hr]
  rfl

/-- **The stream lies on the one-shot trace.**  After feeding any chunking of a prefix
`p` (containing the header and the five coder bytes) of an input `x = p ++ q` on which
the one-shot decoder does not fail, the stream is in Data state, its window and sink
are those of the one-shot configuration `c` reached after `j` full iterations, and
either the one-shot loop cannot continue from `c`, or `c` has read all of `p` except
fewer than 20 bytes. -/
theorem stream_on_trace (hN : Need20) {opts : Options} {x p q : Bytes} {cs : List Bytes} {snk0 : Sink}
    {c₀ : Cfg Circ} (hxq : x = p ++ q) (hcs : cs.flatten = p) (hlen : NN opts ≤ p.length)
    (hok : OneShotOk opts x snk0) (hc₀ : startCfg opts x snk0 = some c₀) :
    ∃ k st' rs' j c, feedAll cs (Stream.newWithOptions opts) snk0 = (k, st', .ok ()) ∧
      st'.options = opts ∧ st'.state = some (.data rs') ∧ FinishSteps c₀ j c ∧ c.w = rs'.output ∧ c.snk = k ∧
      c.rd.bad = false ∧ (NoStep c ∨ c.rd.rem.length + p.length < x.length + 20) := by
  obtain ⟨rs0, hr, hc, hpb0, _, _⟩ := startCfg_some hc₀
  subst hxq hcs
  obtain ⟨k, st', rs', hf, ho, hg⟩ := header_good hN (rs0 := rs0) (t0 := (cs.flatten ++ q).drop (NN opts)) cs
    (Stream.newWithOptions opts) q snk0 rfl (HNone_nil opts)
    (by show Stream.readHeader ⟨[] ++ cs.flatten ++ q, false⟩ opts = _; rw [List.nil_append]; exact hr)
    (by show OneShotOk opts ([] ++ cs.flatten ++ q) snk0; rw [List.nil_append]; exact hok)
    (by show NN opts ≤ ([] ++ cs.flatten).length; rw [List.nil_append]; exact hlen)
  rw [← hc] at hg
  obtain ⟨j, c, t1, t2, t3, t4⟩ := hg.tr
  have hbad0 : c₀.rd.bad = false := by rw [hc]; rfl
  obtain ⟨hbad, _⟩ := steps_rd t1 hbad0
  refine ⟨k, st', rs', j, c, hf, ho, hg.inv.state, t1, t2, t3, hbad, ?_⟩
  have hstop : StopNow rs'.decoder rs'.output → c.s = clr rs'.decoder → c.rc = ⟨rs'.range, rs'.code⟩ → NoStep c := by
    intro hs h5 h6
    have : c = cfg rs'.decoder rs'.output ⟨rs'.range, rs'.code⟩ c.rd.rem k :=
      cfg_ext h5 t2 h6 (by rcases hcr : c.rd with ⟨r, b⟩; rw [hcr] at hbad; simp only at hbad; subst hbad; rfl) t3
    rw [this]
    exact nostep_stopNow _ _ _ hs
  rcases t4 with ⟨t5, t6, t7 | t7⟩ | ⟨t7, _⟩
  · rcases hg.inv.pb with hp | hp
    · right
      rw [t7]
      have h8 := hg.tmpLen
      simp only [List.length_append]
      rcases hg.inv.excl with he | he
      · rw [he]; simp only [List.length_nil]; omega
      · rw [he]; simp only [List.length_nil]; omega
    · exact .inl (hstop hp t5 t6)
  · exact .inl (hstop t7 t5 t6)
  · exact .inl t7

theorem finish_incomplete_eq {st : Stream} {rs : RunState} (hs : st.state = some (.data rs))
    (ho : st.options.allowIncomplete = true) (snk : Sink) : st.finish snk = rs.output.finish snk := by
  unfold Stream.finish
  rw [hs]
  simp only [ho, Bool.not_true, Bool.false_eq_true, if_false]
  rfl

theorem apre_of_prefix {base : Array UInt8} {H H' : Bytes} (h : H <+: H') :
    APre (base ++ H.toArray) (base ++ H'.toArray) := by
  obtain ⟨t, rfl⟩ := h
  exact ⟨t.toArray, by simp [Array.append_assoc]⟩

/-- **Progress, master statement.**  Perfect sink `snk0`, the one-shot decoder succeeds
on `x = p ++ q`, `cs` is any chunking of the prefix `p`, which contains the header and
the five coder bytes, `allow_incomplete = true`.  Then feeding `cs` succeeds and leaves
the stream in Data state; `finish` succeeds and delivers exactly the
delivered-plus-window history `histOut` of the stream; that history is a prefix of the
one-shot output; and it contains the history of EVERY one-shot configuration `cᵢ`
(after `i` symbols) that has consumed at most `p.length - 20` input bytes. -/
theorem progress_master (hN : Need20) {opts : Options} (hA : opts.allowIncomplete = true) {x p q : Bytes}
    {cs : List Bytes} {snk0 snkO : Sink} {rdO : Rd} (hxq : x = p ++ q) (hcs : cs.flatten = p)
    (hlen : NN opts ≤ p.length) (hs : snk0.script = [])
    (hone : lzmaDecompress ⟨x, false⟩ opts snk0 = (snkO, .ok rdO)) :
    ∃ c₀ k st' rs' snkS, startCfg opts x snk0 = some c₀ ∧
      feedAll cs (Stream.newWithOptions opts) snk0 = (k, st', .ok ()) ∧ st'.state = some (.data rs') ∧
      streamRun opts cs snk0 = (snkS, .ok ()) ∧ snkS.out = histOut rs'.output k ∧
      APre snkS.out snkO.out ∧
      ∀ i cᵢ, FinishSteps c₀ i cᵢ → (x.length - cᵢ.rd.rem.length) + 20 ≤ p.length →
        APre (histOut cᵢ.w cᵢ.snk) (histOut rs'.output k) := by
  obtain ⟨c₀, kF, e, cF, hc₀, hrun, hfin⟩ := oneshot_run hone
  have hok : OneShotOk opts x snk0 := by
    unfold OneShotOk
    rw [hone]
    rintro ⟨e, he⟩
    simp [toUnit] at he
  obtain ⟨k, st', rs', j, c, hfeed, hopt, hst, t1, t2, t3, hbad, hlag⟩ :=
    stream_on_trace hN hxq hcs hlen hok hc₀
  obtain ⟨rs0, _, hc, hpb0, hw0, hd0⟩ := startCfg_some hc₀
  have hp0 : c₀.s.partialBuf = [] := by rw [hc]; rfl
  have hsnk0 : c₀.snk = snk0 := by rw [hc]; rfl
  have hinit : HistInv snk0.out c₀.w c₀.snk [] := by
    rw [hsnk0, hw0]
    exact histInv_init hd0 hs
  -- the stream's configuration
  obtain ⟨Hj, _, hHj⟩ := histGe_steps t1 ⟨[], List.prefix_refl _, hinit⟩
  rw [t2, t3] at hHj
  obtain ⟨sS, hfinS, hSout, hSh⟩ := finish_hist hHj
  have hrunS : streamRun opts cs snk0 = (sS, .ok ()) := by
    unfold streamRun streamRunFrom
    rw [hfeed]
    simp only
    rw [finish_incomplete_eq hst (by rw [hopt]; exact hA)]
    exact hfinS
  -- the one-shot result
  obtain ⟨jj, _, hrun'⟩ := FinishSteps.run_split t1 hrun hp0
  obtain ⟨HF, hpF, hHF⟩ := histGe_run hrun' ⟨Hj, List.prefix_refl _, by rw [t2, t3]; exact hHj⟩
  obtain ⟨sF, hfinF, hFout, _⟩ := finish_hist hHF
  rw [hfin] at hfinF
  simp only [Prod.mk.injEq, and_true] at hfinF
  subst hfinF
  refine ⟨c₀, k, st', rs', sS, hc₀, hfeed, hst, hrunS, ?_, ?_, ?_⟩
  · rw [hSout, hSh]
  · rw [hSout, hFout]
    exact apre_of_prefix hpF
  · intro i ci hi hcons
    have hij : i ≤ j := by
      rcases hlag with hno | hlag
      · exact nostep_le hno t1 hi
      · refine Classical.byContradiction fun hlt => ?_
        have hsp := steps_split hi t1 (by omega)
        have := (steps_rd hsp hbad).2.length_le
        omega
    have hsp := steps_split t1 hi hij
    obtain ⟨Hi, _, hHi⟩ := histGe_steps hi ⟨[], List.prefix_refl _, hinit⟩
    obtain ⟨H', hp', hH'⟩ := histGe_steps hsp ⟨Hi, List.prefix_refl _, hHi⟩
    rw [t2, t3] at hH'
    obtain ⟨_, _, _, h1⟩ := finish_hist hHi
    obtain ⟨_, _, _, h2⟩ := finish_hist hH'
    rw [h1, h2]
    exact apre_of_prefix hp'

/-! ## `finish` after any successful feeding (no assumption on the rest of the stream) -/

theorem write_perfect (st : Stream) (data : Bytes) (snk : Sink) (hs : snk.script = []) :
    (st.write data snk).1.script = [] :=
  ((OM.streamWrite st data).obl snk snk hs rfl).1

theorem writeS_fst (st : Stream) (data : Bytes) (snk : Sink) :
    (st.writeS data snk).1 = (st.write data snk).1 := by
  unfold Stream.writeS
  generalize st.write data snk = res
  rcases res with ⟨k, r⟩
  cases r with
  | error e => rfl
  | ok y => obtain ⟨a, b⟩ := y; rfl

theorem feed_perfect : ∀ (f : Nat) (st : Stream) (data : Bytes) (acc : Nat) (snk : Sink),
    snk.script = [] → (Stream.feed f st data acc snk).1.script = [] := by
  intro f
  induction f with
  | zero => intro st data acc snk hs; exact hs
  | succ f ih =>
    intro st data acc snk hs
    rw [Stream.feed]
    split
    · exact hs
    · have hw : (st.writeS data snk).1.script = [] := by
        rw [writeS_fst]; exact write_perfect st data snk hs
      rcases hres : st.writeS data snk with ⟨k, st1, r⟩
      rw [hres] at hw
      cases r with
      | error e => exact hw
      | ok n =>
        simp only
        split
        · exact hw
        · exact ih st1 _ _ k hw

theorem feedAll_perfect : ∀ (cs : List Bytes) (st : Stream) (snk : Sink),
    snk.script = [] → (feedAll cs st snk).1.script = [] := by
  intro cs
  induction cs with
  | nil => intro st snk hs; exact hs
  | cons c cs ih =>
    intro st snk hs
    rw [feedAll]
    have hf := feed_perfect (c.length + 1) st c 0 snk hs
    rcases hres : Stream.feed (c.length + 1) st c 0 snk with ⟨k, st1, r⟩
    rw [hres] at hf
    cases r with
    | error e => exact hf
    | ok n => exact ih st1 k hf

theorem feedAll_data (hN : Need20) : ∀ (cs : List Bytes) (st : Stream) (rs : RunState) (snk k : Sink)
    (st' : Stream), DataInv st rs → feedAll cs st snk = (k, st', .ok ()) →
    st'.options = st.options ∧ ∃ rs', DataInv st' rs' := by
  intro cs
  induction cs with
  | nil =>
    intro st rs snk k st' hD h
    simp only [feedAll, Prod.mk.injEq, and_true] at h
    obtain ⟨_, rfl⟩ := h
    exact ⟨rfl, rs, hD⟩
  | cons c cs ih =>
    intro st rs snk k st' hD h
    rw [feedAll] at h
    rcases hf : Stream.feed (c.length + 1) st c 0 snk with ⟨k1, st1, r⟩
    rw [hf] at h
    have hp := feed_data hN _ st rs c 0 snk _ hD (Nat.lt_succ_self _) hf
    cases r with
    | error e => simp at h
    | ok n =>
      obtain ⟨rs1, hD1, ho1, _⟩ := hp
      obtain ⟨g1, g2⟩ := ih st1 rs1 k1 k st' hD1 h
      exact ⟨g1.trans ho1, g2⟩

theorem feedAll_state (hN : Need20) : ∀ (cs : List Bytes) (st : Stream) (snk k : Sink) (st' : Stream),
    st.state = some .header → HNone st.options st.tmp → feedAll cs st snk = (k, st', .ok ()) →
    st'.options = st.options ∧
      (HNone st.options (st.tmp ++ cs.flatten) ∨ (∃ rs', DataInv st' rs')) := by
  intro cs
  induction cs with
  | nil =>
    intro st snk k st' hs hno h
    simp only [feedAll, Prod.mk.injEq, and_true] at h
    obtain ⟨_, rfl⟩ := h
    exact ⟨rfl, .inl (by simpa using hno)⟩
  | cons c cs ih =>
    intro st snk k st' hs hno h
    rw [feedAll] at h
    rcases hf : Stream.feed (c.length + 1) st c 0 snk with ⟨k1, st1, r⟩
    rw [hf] at h
    have hp := feed_header hN _ st c 0 snk _ hs hno (Nat.lt_succ_self _) hf
    cases r with
    | error e => simp at h
    | ok n =>
      obtain ⟨ho, hcase⟩ := hp
      rcases hcase with ⟨_, h1, h2, h3⟩ | ⟨rs', hD, _⟩
      · obtain ⟨g1, g2⟩ := ih st1 k1 k st' h1 (by rw [ho, h2]; exact h3) h
        refine ⟨g1.trans ho, ?_⟩
        rcases g2 with g2 | g2
        · left
          rw [ho, h2] at g2
          rw [List.flatten_cons, ← List.append_assoc]; exact g2
        · exact .inr g2
      · obtain ⟨g1, g2⟩ := feedAll_data hN cs st1 rs' k1 k st' hD h
        exact ⟨g1.trans ho, .inr g2⟩

theorem circ_finish_ok {w : Circ} {snk : Sink} (hs : snk.script = []) (hc : w.cursor ≤ w.buf.size) :
    ∃ s', w.finish snk = (s', .ok ()) := by
  have hs' : snk.Perfect := hs
  unfold Circ.finish
  by_cases hc0 : w.cursor > 0
  · rw [if_pos hc0, if_pos hc]
    have hne : (w.buf.extract 0 w.cursor).isEmpty = false := by
      rw [Array.isEmpty_eq_false_iff]; intro h0
      have : (w.buf.extract 0 w.cursor).size = 0 := by rw [h0]; rfl
      rw [Array.size_extract] at this; omega
    rw [bind_run, writeAll_perfect hs' hne]
    simp only
    rw [flushSink_perfect (by exact hs)]
    exact ⟨_, rfl⟩
  · rw [if_neg hc0]
    simp only [bind_run, pure_run]
    rw [flushSink_perfect hs']
    exact ⟨_, rfl⟩

/-- **`finish` after any successful feeding.**  Perfect sink, `allow_incomplete = true`,
ANY input: if no `write` failed and the input so far contains the header and the five
coder bytes, `finish` succeeds. -/
theorem finish_any_ok (hN : Need20) {opts : Options} (hA : opts.allowIncomplete = true) {cs : List Bytes}
    {snk0 k : Sink} {st' : Stream} (hs : snk0.script = [])
    (hfeed : feedAll cs (Stream.newWithOptions opts) snk0 = (k, st', .ok ()))
    (hlen : NN opts ≤ cs.flatten.length) :
    ∃ snkS, streamRun opts cs snk0 = (snkS, .ok ()) := by
  have hk : k.script = [] := by
    have := feedAll_perfect cs (Stream.newWithOptions opts) snk0 hs
    rw [hfeed] at this; exact this
  obtain ⟨hopt, hcase⟩ := feedAll_state hN cs (Stream.newWithOptions opts) snk0 k st' rfl (HNone_nil opts) hfeed
  rcases hcase with ⟨r, hr⟩ | ⟨rs', hD⟩
  · have := srh_none hr
    have h0 : (Stream.newWithOptions opts).tmp ++ cs.flatten = cs.flatten := rfl
    rw [h0] at this
    have h1 : (Stream.newWithOptions opts).options = opts := rfl
    rw [h1] at this
    omega
  · obtain ⟨s', hf⟩ := circ_finish_ok hk hD.inv.cw.2.1
    refine ⟨s', ?_⟩
    unfold streamRun streamRunFrom
    rw [hfeed]
    simp only
    rw [finish_incomplete_eq hD.state (by rw [hopt]; exact hA)]
    exact hf

end StreamEq
end Lzma
