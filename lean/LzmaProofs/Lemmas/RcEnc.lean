/-
  The range ENCODER as a pure function plus its carry invariant.

  `REnc.wl` is `write_low` as a pure function (new state, emitted bytes);
  `EInv e r` is the carry-safety invariant (`r` plays the role of the width of
  the current interval); `EV e out` is the unbounded integer the encoder state
  denotes (`out` = bytes already emitted, then the pending `cache, FF, …, FF`,
  then the 32 (33) bits of `low`) and `EN e out` its length in bytes (minus 4).
  `wl_spec`: one `write_low` multiplies `EV` by 256 exactly (no carry is lost).
-/
import LzmaProofs.Lemmas.Monad
import LzmaProofs.Lemmas.RcArith
import LzmaSpec.Sym
namespace Lzma
open RcArith

/-! ## sinks that accept everything -/

/-- `snk'` is `snk` after appending `bs`, both with an exhausted script -/
def SinkExt (snk snk' : Sink) (bs : Bytes) : Prop :=
  snk'.script = [] ∧ snk'.out.toList = snk.out.toList ++ bs

theorem SinkExt.refl {snk : Sink} (h : snk.script = []) : SinkExt snk snk [] := by
  simp [SinkExt, h]

theorem SinkExt.trans {a b c : Sink} {x y : Bytes} (h1 : SinkExt a b x) (h2 : SinkExt b c y) :
    SinkExt a c (x ++ y) := by
  simp [SinkExt, h1.2, h2.1, h2.2]

theorem writeByte_run (snk : Sink) (h : snk.script = []) (b : UInt8) :
    ∃ snk', writeBytes [b] snk = (snk', .ok ()) ∧ SinkExt snk snk' [b] := by
  refine ⟨{ snk with out := snk.out ++ #[b], writes := snk.writes + 1, lastFlush := false }, ?_, ?_⟩
  · simp [writeBytes, writeAll, h]
  · simp [SinkExt, h]

namespace REnc

/-! ## pure `write_low` -/

/-- bytes written by `emitLoop` -/
def emitBytes (carry : Nat) : Nat → Nat → Bytes
  | 0, _ => []
  | n+1, tmp => UInt8.ofNat ((tmp + carry) % 256) :: emitBytes carry n 0xFF

theorem emitLoop_run (carry : Nat) : ∀ (n tmp : Nat) (snk : Sink), snk.script = [] →
    ∃ snk', emitLoop carry n tmp snk = (snk', .ok ()) ∧ SinkExt snk snk' (emitBytes carry n tmp)
  | 0, _, snk, h => ⟨snk, rfl, SinkExt.refl h⟩
  | n+1, tmp, snk, h => by
    obtain ⟨s1, h1, e1⟩ := writeByte_run snk h (UInt8.ofNat ((tmp + carry) % 256))
    obtain ⟨s2, h2, e2⟩ := emitLoop_run carry n 0xFF s1 e1.1
    refine ⟨s2, ?_, ?_⟩
    · show (writeBytes _ >>= fun _ => emitLoop carry n 0xFF) snk = _
      rw [bind_run_ok h1, h2]
    · exact e1.trans e2

theorem emitBytes_zero (c : Nat) (hc : c < 256) (k : Nat) :
    emitBytes 0 (k + 1) c = UInt8.ofNat c :: List.replicate k 0xFF := by
  have aux : ∀ k, emitBytes 0 k 0xFF = List.replicate k 0xFF := by
    intro k; induction k with
    | zero => rfl
    | succ k ih => simp [emitBytes, ih, List.replicate_succ]
  simp [emitBytes, aux, Nat.mod_eq_of_lt hc]

theorem emitBytes_one (c : Nat) (hc : c + 1 < 256) (k : Nat) :
    emitBytes 1 (k + 1) c = UInt8.ofNat (c + 1) :: List.replicate k 0 := by
  have aux : ∀ k, emitBytes 1 k 0xFF = List.replicate k 0 := by
    intro k; induction k with
    | zero => rfl
    | succ k ih => simp [emitBytes, ih, List.replicate_succ]
  simp [emitBytes, aux, Nat.mod_eq_of_lt hc]

/-- does `write_low` flush the pending bytes? -/
def flushes (e : REnc) : Prop := e.low < 0xFF000000 ∨ e.low > 0xFFFFFFFF

instance (e : REnc) : Decidable e.flushes := by unfold flushes; infer_instance

/-- `write_low` as a pure function: new state and emitted bytes -/
def wl (e : REnc) : REnc × Bytes :=
  if e.flushes then
    ({ e with cachesz := 1, cache := (e.low >>> 24) % 256, low := (e.low <<< 8) &&& 0xFFFFFFFF },
      emitBytes ((e.low >>> 32) % 256) e.cachesz e.cache)
  else ({ e with cachesz := e.cachesz + 1, low := (e.low <<< 8) &&& 0xFFFFFFFF }, [])

theorem writeLow_run (e : REnc) (snk : Sink) (hs : snk.script = []) (hc : 1 ≤ e.cachesz) :
    ∃ snk', e.writeLow snk = (snk', .ok (wl e).1) ∧ SinkExt snk snk' (wl e).2 := by
  unfold writeLow wl
  by_cases hf : e.flushes
  · obtain ⟨s1, h1, e1⟩ := emitLoop_run ((e.low >>> 32) % 256) e.cachesz e.cache snk hs
    have hf' : e.low < 0xFF000000 ∨ e.low > 0xFFFFFFFF := hf
    have hne : ¬ e.cachesz = 0 := by omega
    refine ⟨s1, ?_, by simpa [hf] using e1⟩
    simp only [hf', hf, if_true, hne, if_false]
    simp only [Bind.bind, M.bind, Pure.pure, M.pure, h1]
  · have hf' : ¬ (e.low < 0xFF000000 ∨ e.low > 0xFFFFFFFF) := hf
    refine ⟨snk, ?_, by simpa [hf] using SinkExt.refl hs⟩
    simp only [hf', hf, if_false]
    rfl

/-! ## the denoted integer and the carry invariant -/

/-- the pending bytes: `cache`, then `cachesz - 1` times `0xFF` -/
def pend (e : REnc) : Bytes := UInt8.ofNat e.cache :: List.replicate (e.cachesz - 1) 0xFF

/-- the unbounded `low`: emitted bytes, pending bytes, then `low` (bit 32 of `low` is a carry) -/
def EV (e : REnc) (out : Bytes) : Nat := beVal (out ++ pend e) * 4294967296 + e.low

/-- number of bytes emitted or pending -/
def EN (e : REnc) (out : Bytes) : Nat := out.length + e.cachesz

/-- carry safety: `r` is (a lower bound of) the width of the interval still to be narrowed -/
structure EInv (e : REnc) (r : Nat) : Prop where
  cs : 1 ≤ e.cachesz
  cache : e.cache < 256
  rpos : 1 ≤ r
  low : e.low + r ≤ 8589934592
  ff : e.cache = 255 → e.low + r ≤ 4294967296

theorem EInv.mono {e : REnc} {r r' : Nat} (h : EInv e r) (h1 : 1 ≤ r') (h2 : r' ≤ r) : EInv e r' := by
  obtain ⟨a, b, c, d, f⟩ := h
  exact ⟨a, b, h1, by omega, fun h => by have := f h; omega⟩

theorem wl_low (e : REnc) : (wl e).1.low = e.low * 256 % 4294967296 := by
  unfold wl
  have : (e.low <<< 8) &&& 0xFFFFFFFF = e.low * 256 % 4294967296 := by
    rw [Nat.shiftLeft_eq, show (0xFFFFFFFF : Nat) = 2 ^ 32 - 1 from rfl, Nat.and_two_pow_sub_one_eq_mod]
  split <;> simp [this]

theorem wl_range (e : REnc) : (wl e).1.range = e.range := by
  unfold wl; split <;> rfl

/-- One `write_low`: the denoted integer is multiplied by 256 exactly, one more
byte is pending, and the carry invariant holds for the scaled width. -/
theorem wl_spec (e : REnc) (out : Bytes) (r : Nat) (h : EInv e r) (hr : r ≤ 16777216) :
    EInv (wl e).1 (256 * r) ∧ EV (wl e).1 (out ++ (wl e).2) = 256 * EV e out ∧
      EN (wl e).1 (out ++ (wl e).2) = EN e out + 1 := by
  obtain ⟨hcs, hcache, hrpos, hlow, hff⟩ := h
  have hl := wl_low e
  have hsh24 : e.low >>> 24 = e.low / 16777216 := by rw [Nat.shiftRight_eq_div_pow]
  have hsh32 : e.low >>> 32 = e.low / 4294967296 := by rw [Nat.shiftRight_eq_div_pow]
  obtain ⟨k, hk⟩ : ∃ k, e.cachesz = k + 1 := ⟨e.cachesz - 1, by omega⟩
  by_cases hf : e.flushes
  · have hcz : (wl e).1.cachesz = 1 := by simp [wl, hf]
    have hca : (wl e).1.cache = e.low / 16777216 % 256 := by simp [wl, hf, hsh24]
    have hem : (wl e).2 = emitBytes (e.low / 4294967296 % 256) e.cachesz e.cache := by
      simp [wl, hf, hsh32]
    have hpend : pend (wl e).1 = [UInt8.ofNat (e.low / 16777216 % 256)] := by
      simp [pend, hcz, hca]
    have hb : (UInt8.ofNat (e.low / 16777216 % 256)).toNat = e.low / 16777216 % 256 :=
      rc_toNat_ofNat_lt (by omega)
    rcases (hf : e.low < 0xFF000000 ∨ e.low > 0xFFFFFFFF) with hlt | hgt
    · -- flush without carry
      have hc0 : e.low / 4294967296 % 256 = 0 := by omega
      have hem' : out ++ (wl e).2 = out ++ pend e := by
        rw [hem, hc0, hk, emitBytes_zero _ hcache]; simp [pend, hk]
      refine ⟨⟨by omega, by omega, by omega, by omega, fun h => by omega⟩, ?_, ?_⟩
      · unfold EV
        rw [hem', hpend, beVal_snoc, hb, hl]
        generalize beVal (out ++ pend e) = X
        omega
      · unfold EN
        rw [hem', hcz]; simp [pend, hk]
    · -- flush with carry
      have hc1 : e.low / 4294967296 % 256 = 1 := by omega
      have hc254 : e.cache + 1 < 256 := by
        by_cases h255 : e.cache = 255
        · have := hff h255; omega
        · omega
      have hem' : beVal (out ++ (wl e).2) = beVal (out ++ pend e) + 1 := by
        rw [hem, hc1, hk, emitBytes_one _ hc254, beVal_carry _ _ _ hc254]; simp [pend, hk]
      refine ⟨⟨by omega, by omega, by omega, by omega, fun h => by omega⟩, ?_, ?_⟩
      · unfold EV
        rw [hpend, beVal_snoc, hb, hl, hem']
        generalize beVal (out ++ pend e) = X
        omega
      · unfold EN
        rw [hem, hc1, hk, emitBytes_one _ hc254, hcz]; simp
  · -- no flush: one more 0xFF pending
    have hrange : 0xFF000000 ≤ e.low ∧ e.low ≤ 0xFFFFFFFF := by
      have : ¬ (e.low < 0xFF000000 ∨ e.low > 0xFFFFFFFF) := hf
      omega
    have hcz : (wl e).1.cachesz = e.cachesz + 1 := by simp [wl, hf]
    have hca : (wl e).1.cache = e.cache := by simp [wl, hf]
    have hem : (wl e).2 = [] := by simp [wl, hf]
    have hpend : pend (wl e).1 = pend e ++ [0xFF] := by
      simp [pend, hcz, hca, hk, List.replicate_succ']
    refine ⟨⟨by omega, by omega, by omega, by omega, fun h => ?_⟩, ?_, ?_⟩
    · have := hff (by omega); omega
    · unfold EV
      rw [hem, List.append_nil, hpend, ← List.append_assoc, beVal_snoc, hl]
      have : (0xFF : UInt8).toNat = 255 := rfl
      generalize beVal (out ++ pend e) = X
      omega
    · unfold EN; rw [hem, hcz]; simp; omega

end REnc
end Lzma
