/-
  C05 — the fuel of `processLoop` is irrelevant once it exceeds the measure; the
  fuel-free loop `PL` and the one-shot tail `fin`.
-/
import LzmaProofs.Lemmas.StreamEquivLoop
namespace Lzma
namespace StreamEq

open DState Safety

/-! ## the fuel is irrelevant once it exceeds the measure -/

theorem mu_step {a1 pb1 al pl t r r' K : Nat} (hlen : a1 + pb1 = al + pl)
    (hmu : t * K + r' < pb1 * K + r) : (a1 + t) * K + r' < (al + pl) * K + r := by
  rw [← hlen, Nat.add_mul, Nat.add_mul]; omega

theorem fuel_bound {x r K : Nat} (h : r < K) : x * K + r < (x + 1) * K + 1 := by
  rw [Nat.add_mul]; omega

theorem loopBody_congr {mode : Mode} {k1 k2} {s : DState} {w : Circ} {rc : RC} {a : Bytes} (snk : Sink)
    (hI : Inv s w rc)
    (hk : ∀ s' w' rc' a' snk', Inv s' w' rc' → lmu s' rc' a' < lmu s rc a →
      k1 s' w' rc' ⟨a', false⟩ snk' = k2 s' w' rc' ⟨a', false⟩ snk') :
    loopBody mode k1 s w rc ⟨a, false⟩ snk = loopBody mode k2 s w rc ⟨a, false⟩ snk := by
  cases hs : stopB mode s w rc a with
  | true => rw [LB_stop snk hs, LB_stop snk hs]
  | false =>
    by_cases hpb : s.partialBuf = []
    · by_cases hc : (mode = .stream ∧ a.length < 20 ∧ tryProcessNext s w a rc = false)
      · rw [LB_direct_ret snk hs hpb hc, LB_direct_ret snk hs hpb hc]
      · rw [LB_direct_next snk hs hpb hc, LB_direct_next snk hs hpb hc]
        rcases hr : processNext s w rc ⟨a, false⟩ snk with ⟨k', r⟩
        cases r with
        | error e => rfl
        | ok y =>
          obtain ⟨st, s', w', rc', rd'⟩ := y
          obtain ⟨hI', hbad, hsuf, hmu, hpb', _⟩ := processNext_inv hI hr
          obtain ⟨a', _⟩ := rd'
          simp only at hbad hsuf hmu
          subst hbad
          simp only [pnTail, Bool.false_eq_true, if_false]
          split
          · rfl
          · refine hk _ _ _ _ _ hI' ?_
            simp only [lmu, hpb', hpb, List.length_nil, Nat.add_zero]
            exact hmu
    · obtain ⟨pb1, a1, hr, _, hl20, _, hI1, _, _, _, hlen⟩ := readPartial_facts a hI
      by_cases hc : (mode = .stream ∧ ({ s with partialBuf := pb1 } : DState).partialBuf.length < 20 ∧
          tryProcessNext { s with partialBuf := pb1 } w ({ s with partialBuf := pb1 } : DState).partialBuf rc = false)
      · rw [LB_buf_ret snk hs hpb hr hc, LB_buf_ret snk hs hpb hr hc]
      · rw [LB_buf_next snk hs hpb hr hc, LB_buf_next snk hs hpb hr hc]
        show pnTail k1 _ true (processNext { s with partialBuf := pb1 } w rc ⟨pb1, false⟩ snk) =
          pnTail k2 _ true (processNext { s with partialBuf := pb1 } w rc ⟨pb1, false⟩ snk)
        rcases hp : processNext { s with partialBuf := pb1 } w rc ⟨pb1, false⟩ snk with ⟨k', r⟩
        cases r with
        | error e => rfl
        | ok y =>
          obtain ⟨st, s', w', rc', tmp⟩ := y
          obtain ⟨hI', hbad, hsuf, hmu, hpb', _⟩ := processNext_inv hI1 hp
          simp only [pnTail, if_true]
          split
          · rfl
          · have hle : tmp.rem.length ≤ pb1.length := hsuf.length_le
            refine hk _ _ _ _ _ ⟨hI'.ds.of_eq rfl hI'.ds.state rfl (by show tmp.rem.length ≤ 20; omega),
              hI'.cw, hI'.dict, hI'.rc⟩ ?_
            have hmu' : tmp.rem.length * 4294967296 + rc'.range < pb1.length * 4294967296 + rc.range := hmu
            show (a1.length + tmp.rem.length) * 4294967296 + rc'.range <
              (a.length + s.partialBuf.length) * 4294967296 + rc.range
            exact mu_step hlen hmu'

theorem processLoop_fuel (mode : Mode) : ∀ (f1 f2 : Nat) (s : DState) (w : Circ) (rc : RC) (a : Bytes)
    (snk : Sink), Inv s w rc → lmu s rc a < f1 → lmu s rc a < f2 →
    processLoop mode f1 s w rc ⟨a, false⟩ snk = processLoop mode f2 s w rc ⟨a, false⟩ snk := by
  intro f1
  induction f1 with
  | zero => intro f2 s w rc a snk _ h; omega
  | succ f1 ih =>
    intro f2 s w rc a snk hI h1 h2
    cases f2 with
    | zero => omega
    | succ f2 =>
      rw [processLoop_succ, processLoop_succ]
      refine loopBody_congr snk hI ?_
      intro s' w' rc' a' snk' hI' hlt
      exact ih f2 s' w' rc' a' snk' hI' (by omega) (by omega)

/-- the loop of `process_mode` with the model's own fuel -/
def PL (mode : Mode) (s : DState) (w : Circ) (rc : RC) (rd : Rd) : M (DState × Circ × RC × Rd) :=
  processLoop mode (loopFuel s rd) s w rc rd

theorem lmu_lt_loopFuel {s : DState} {w : Circ} {rc : RC} (a : Bytes) (hI : Inv s w rc) :
    lmu s rc a < loopFuel s ⟨a, false⟩ := by
  exact fuel_bound hI.rc.2.1

/-- fuel-free unfolding of the loop -/
theorem PL_unfold {mode : Mode} {s : DState} {w : Circ} {rc : RC} (a : Bytes) (snk : Sink)
    (hI : Inv s w rc) :
    PL mode s w rc ⟨a, false⟩ snk = loopBody mode (PL mode) s w rc ⟨a, false⟩ snk := by
  obtain ⟨F, hF⟩ : ∃ F, loopFuel s ⟨a, false⟩ = F + 1 := ⟨_, rfl⟩
  have hlt0 := lmu_lt_loopFuel a hI
  unfold PL
  rw [hF] at hlt0 ⊢
  rw [processLoop_succ]
  refine loopBody_congr snk hI ?_
  intro s' w' rc' a' snk' hI' hlt
  exact processLoop_fuel mode _ _ _ _ _ _ _ hI' (by omega) (lmu_lt_loopFuel a' hI')

theorem processLoop_eq_PL {mode : Mode} {s : DState} {w : Circ} {rc : RC} (a : Bytes) (snk : Sink)
    (hI : Inv s w rc) {n : Nat} (hn : lmu s rc a < n) :
    processLoop mode n s w rc ⟨a, false⟩ snk = PL mode s w rc ⟨a, false⟩ snk :=
  processLoop_fuel mode _ _ _ _ _ _ _ hI hn (lmu_lt_loopFuel a hI)

/-! ## the one-shot tail -/

/-- the size check of `process_mode(Finish)` followed by `output.finish()` -/
def postOf (u : Option Nat) (w : Circ) : M Unit :=
  match u with
  | some n => if n ≠ w.len then throwM .lzma else w.finish
  | none => w.finish

/-- the size check and `finish` applied to a loop result -/
def finK (r : Sink × Except Err (DState × Circ × RC × Rd)) : Sink × Except Err Unit :=
  match r with
  | (k, Except.ok (s', w', _, _)) => postOf s'.unpackedSize w' k
  | (k, Except.error e) => (k, Except.error e)

/-- `.finish` loop on the remaining input `R`, size check, `output.finish()` -/
def fin (s : DState) (w : Circ) (rc : RC) (R : Bytes) : M Unit := fun snk =>
  finK (PL .finish s w rc ⟨R, false⟩ snk)

theorem fin_eq (s : DState) (w : Circ) (rc : RC) (R : Bytes) (snk : Sink) :
    fin s w rc R snk = finK (PL .finish s w rc ⟨R, false⟩ snk) := rfl

attribute [irreducible] PL

theorem fin_stop {s : DState} {w : Circ} {rc : RC} {R : Bytes} (snk : Sink) (hI : Inv s w rc)
    (h : stopB .finish s w rc R = true) : fin s w rc R snk = postOf s.unpackedSize w snk := by
  rw [fin_eq, PL_unfold R snk hI, LB_stop snk h]
  rfl

theorem pnTail_err (K) (a1 : Rd) (stage : Bool) (k : Sink) (e : Err) :
    pnTail K a1 stage (k, .error e) = (k, .error e) := rfl

theorem pnTail_cont (K) (a1 : Rd) (k : Sink) (s' : DState) (w' : Circ) (rc' : RC) (tmp : Rd) :
    pnTail K a1 false (k, .ok (.continue, s', w', rc', tmp)) = K s' w' rc' tmp k := rfl

theorem pnTail_fin (K) (a1 : Rd) (k : Sink) (s' : DState) (w' : Circ) (rc' : RC) (tmp : Rd) :
    pnTail K a1 false (k, .ok (.finished, s', w', rc', tmp)) = (k, .ok (s', w', rc', tmp)) := rfl

theorem pnTail_cont_buf (K) (a1 : Rd) (k : Sink) (s' : DState) (w' : Circ) (rc' : RC) (tmp : Rd) :
    pnTail K a1 true (k, .ok (.continue, s', w', rc', tmp)) =
      K { s' with partialBuf := tmp.rem } w' rc' a1 k := rfl

theorem pnTail_fin_buf (K) (a1 : Rd) (k : Sink) (s' : DState) (w' : Circ) (rc' : RC) (tmp : Rd) :
    pnTail K a1 true (k, .ok (.finished, s', w', rc', tmp)) =
      (k, .ok ({ s' with partialBuf := tmp.rem }, w', rc', a1)) := rfl

theorem finK_ok (k : Sink) (s' : DState) (w' : Circ) (rc' : RC) (rd' : Rd) :
    finK (k, .ok (s', w', rc', rd')) = postOf s'.unpackedSize w' k := rfl

theorem finK_err (k : Sink) (e : Err) : finK (k, .error e) = (k, .error e) := rfl

theorem fin_next_err {s : DState} {w : Circ} {rc : RC} {R : Bytes} {snk k : Sink} {e : Err}
    (hI : Inv s w rc) (hpb : s.partialBuf = []) (h : stopB .finish s w rc R = false)
    (hp : processNext s w rc ⟨R, false⟩ snk = (k, .error e)) :
    fin s w rc R snk = (k, .error e) := by
  rw [fin_eq, PL_unfold R snk hI, LB_direct_next snk h hpb (by simp), hp, pnTail_err, finK_err]

theorem fin_next_cont {s s' : DState} {w w' : Circ} {rc rc' : RC} {R R' : Bytes} {snk k : Sink}
    (hI : Inv s w rc) (hpb : s.partialBuf = []) (h : stopB .finish s w rc R = false)
    (hp : processNext s w rc ⟨R, false⟩ snk = (k, .ok (.continue, s', w', rc', ⟨R', false⟩))) :
    fin s w rc R snk = fin s' w' rc' R' k := by
  rw [fin_eq, PL_unfold R snk hI, LB_direct_next snk h hpb (by simp), hp, pnTail_cont, fin_eq]

theorem fin_next_fin {s s' : DState} {w w' : Circ} {rc rc' : RC} {R : Bytes} {rd' : Rd} {snk k : Sink}
    (hI : Inv s w rc) (hpb : s.partialBuf = []) (h : stopB .finish s w rc R = false)
    (hp : processNext s w rc ⟨R, false⟩ snk = (k, .ok (.finished, s', w', rc', rd'))) :
    fin s w rc R snk = postOf s'.unpackedSize w' k := by
  rw [fin_eq, PL_unfold R snk hI, LB_direct_next snk h hpb (by simp), hp, pnTail_fin, finK_ok]

end StreamEq
end Lzma
