/-
  The end-of-stream marker with ANY length field (agent `longmarker`).

  LZMA identifies the end marker by its distance alone: a "match" whose decoded distance field is
  `0xFFFFFFFF`, whatever length (2..273) its length field carries.  `Sym.eos` is the marker with
  the minimal length; `Sym.mtch 0x100000000 len` (1-based distance `2^32`) is the marker with
  length `len`.  The latter is NOT well-formed in `SpecSt.step` (its distance exceeds every
  history), so the symbol-level round trip is redone here at the level of the BIT STRING:
  `decode_bits` (any `RawSym.WF` symbol) + the decoder's `rep0 = 0xFFFFFFFF` exit, which never
  touches the window.

    * `distEv_long_marker`, `forcesRead_long_marker` — coding the marker shifts a byte out, for
      every length;
    * `decode_long_marker` — `process_next` returns `Finished` on the marker's events, any length;
    * `progEvents_eos_eq`, `encodeSyms_eos_eq` — `Sym.eos` and `Sym.mtch 0x100000000 2` are
      encoded identically;
    * `decode_exact_long_marker_of_header` — end-to-end, any header/option pair without a size in
      effect (`EncRT.HeaderReads`).
-/
import LzmaProofs.Lemmas.EncRoundTrip
namespace Lzma.LongMarker
open Lzma DState REnc EncRT

/-! ## the marker's raw symbol and events -/

/-- the raw symbol of a marker with real length `len`: decoded length `len − 2`, distance field
`0xFFFFFFFF` -/
theorem toRaw_long_marker (len : Nat) :
    (Sym.mtch 0x100000000 len).toRaw = .mtch (len - 2) 0xFFFFFFFF := rfl

/-- `Sym.eos` is the marker of length 2 -/
theorem toRaw_eos : (Sym.eos).toRaw = (Sym.mtch 0x100000000 2).toRaw := rfl

theorem rawOk_long_marker {len : Nat} (hlen : 2 ≤ len ∧ len ≤ 273) :
    Sym.RawOk (Sym.mtch 0x100000000 len) := by
  show len - 2 < 272 ∧ 0x100000000 - 1 < 2 ^ 32
  omega

/-- the part of `distEv` behind the position slot does not depend on the length -/
def distTailEv (d : Nat) : List Ev :=
  let slot := posSlotOf d
  if slot < 4 then []
  else
    let nd := (slot >>> 1) - 1
    let base := (2 ^^^ (slot &&& 1)) <<< nd
    let r := d - base
    if slot < 14 then revBitTreeEv .posDec (base - slot) nd 1 r
    else directEv (nd - 4) (r >>> 4) ++ revBitTreeEv .align 0 4 1 (r &&& 0xF)

theorem distEv_split (l d : Nat) :
    distEv l d = bitTreeEv (.posSlot (if l > 3 then 3 else l)) 6 1 (posSlotOf d) ++ distTailEv d := rfl

theorem posSlotOf_marker : posSlotOf 0xFFFFFFFF = 63 := by decide +kernel

theorem distTailEv_marker :
    distTailEv 0xFFFFFFFF = directEv 26 0xFFFFFFF ++ revBitTreeEv .align 0 4 1 0xF := by
  decide +kernel

/-- the distance part of the marker, for every decoded length `l`: position slot 63 (in the
slot tree of `min l 3`), 26 direct bits all one, 4 align bits all one -/
theorem distEv_long_marker (l : Nat) :
    distEv l 0xFFFFFFFF =
      bitTreeEv (.posSlot (if l > 3 then 3 else l)) 6 1 63 ++
        (directEv 26 0xFFFFFFF ++ revBitTreeEv .align 0 4 1 0xF) := by
  rw [distEv_split, posSlotOf_marker, distTailEv_marker]

/-- the marker — with ANY length field — cannot be coded without shifting a byte out of the
range coder: before it the decoder's reader is not empty -/
theorem forcesRead_long_marker (c : ECtx) (l : Nat) (rest : List Ev) :
    ForcesRead (rawSymEvents c (.mtch l 0xFFFFFFFF) ++ rest) := by
  have : rawSymEvents c (.mtch l 0xFFFFFFFF) ++ rest =
      ([.pbit (.isMatch ((c.state <<< 4) + c.posState)) true, .pbit (.isRep c.state) false] ++
        lenEv false c.posState l ++ bitTreeEv (.posSlot (if l > 3 then 3 else l)) 6 1 63) ++
      (directEv 26 0xFFFFFFF ++ (revBitTreeEv .align 0 4 1 0xF ++ rest)) := by
    simp only [rawSymEvents, distEv_long_marker, List.append_assoc]
  rw [this]
  exact ForcesRead.append_left _ (forcesRead_direct (by omega) _ _)

/-! ## one iteration: the marker with any length -/

variable {ω : Type} [LzBuf ω]

/-- **The end marker, any length.**  In a coupled state, if the encoder's last events are those
of a match with distance field `0xFFFFFFFF` and ANY decoded length `l < 272` (real length
`l + 2 ∈ 2..273`), and nothing follows the payload, `process_next` returns `Finished`, leaving
window and sink alone and the reader empty.  (Generalises `decode_marker`, which is `l = 0`.) -/
theorem decode_long_marker {M : WinModel ω} {snkF snkB : Sink} {probsF : Probs} {eF e2 : REnc}
    (hfin : eF.finish snkF = (snkB, .ok e2))
    {s : DState} {w : ω} {k : Sink} {es : EncSt} (hinv : DecEnc M s w k es)
    {l : Nat} (hl : l < 272)
    {e : REnc} {esnk : Sink} {rc : RC} {rd : Rd}
    (hs : esnk.script = []) (hbad : rd.bad = false)
    (hsim : RcSim snkB.out.toList [] e esnk.out.toList rc rd)
    (henc : encodeEvents (rawSymEvents es.ctx (.mtch l 0xFFFFFFFF)) es.probs e esnk =
      (snkF, .ok (probsF, eF))) :
    ∃ s' rc', processNext s w rc rd k = (k, .ok (.finished, s', w, rc', { rem := [], bad := false })) ∧
      s'.partialBuf = s.partialBuf ∧ s'.unpackedSize = s.unpackedSize := by
  have henc0 : encodeEvents (rawSymEvents es.ctx (.mtch l 0xFFFFFFFF) ++ []) es.probs e esnk =
      (snkF, .ok (probsF, eF)) := by rw [List.append_nil]; exact henc
  have hwf : (RawSym.mtch l 0xFFFFFFFF).WF := by
    show l < 272 ∧ 0xFFFFFFFF < 2 ^ 32
    omega
  obtain ⟨probs', e', esnk', rc', rd', hd, hs', hp', -, hsim', henc', hbad'⟩ :=
    decode_bits hfin hinv (raw := .mtch l 0xFFFFFFFF) hwf hs hsim henc0
  obtain ⟨hrem, hcode, -⟩ := rc_roundtrip_final hs' hp' hsim' henc' hfin
  have hrd : rd' = { rem := [], bad := false } := by
    rcases rd' with ⟨r, b⟩
    simp only at hrem hbad'
    rw [hrem, hbad', hbad]
  subst hrd
  have hfinok : rc'.isFinishedOk { rem := [], bad := false } = .ok true :=
    isFinishedOk_iff.2 ⟨hcode, rfl, rfl⟩
  have hnext := (processNext_finished_iff (snk := k) (snk' := k)).2 ⟨l, probs', hd, hfinok, rfl, rfl, rfl⟩
  obtain ⟨h1, -, h3⟩ := processNext_fields hnext
  exact ⟨_, rc', hnext, h3, h1⟩

/-! ## `Sym.eos` is the marker of length 2, for the reference encoder -/

/-- the events of a program ending in `Sym.eos` are those of the same program ending in the
length-2 marker (no hypothesis on the program) -/
theorem progEvents_eos_eq (dict : Nat) (props : Props) (p : List Sym) (spec : SpecSt) :
    progEvents dict props spec (p ++ [.eos]) =
      progEvents dict props spec (p ++ [.mtch 0x100000000 2]) := by
  rw [progEvents_append, progEvents_append]
  rfl

/-- the reference encoder's payload only depends on the flattened event list -/
theorem encodeSyms_congr {props : Props} {dict : Nat} {a b : List Sym}
    (h : progEvents dict props {} a = progEvents dict props {} b) :
    encodeSyms props dict a = encodeSyms props dict b := by
  unfold encodeSyms
  simp only
  rw [bind_run, bind_run, encodeProg_eq, encodeProg_eq]
  have h0 : (EncSt.new props).props = props := rfl
  have h1 : (EncSt.new props).spec = {} := rfl
  rw [h0, h1, h]
  rcases encodeEvents (progEvents dict props {} b) (EncSt.new props).probs {} {} with ⟨s1, x | r⟩ <;> rfl

/-- **`Sym.eos` is the marker with the minimal length**: the reference encoder produces the same
bytes for `p ++ [eos]` and for `p ++ [mtch 2^32 2]` (every `p`, every `props`, every `dict`) -/
theorem encodeSyms_eos_eq (props : Props) (dict : Nat) (p : List Sym) :
    encodeSyms props dict (p ++ [.eos]) = encodeSyms props dict (p ++ [.mtch 0x100000000 2]) :=
  encodeSyms_congr (progEvents_eos_eq dict props p {})

/-! ## end to end, any header -/

/-- **End-to-end exactness with an end marker of ANY length, any header/option pair.**  If
`read_header` on `hdr` yields `props`, `dict` and NO size in effect, then `lzma_decompress` on
`hdr ++ encodeSyms props dict (prog ++ [mtch 2^32 len])` (`2 ≤ len ≤ 273`) succeeds, delivers
exactly the program's meaning, flushes, and consumes the whole input.  (Generalises
`EncRT.decode_exact_marker_of_header`, the case `len = 2`.) -/
theorem decode_exact_long_marker_of_header {props : Props} (hpo : Safety.PropsOk props) {dict : Nat}
    (hdict : 0 < dict) (prog : List Sym) (st : SpecSt)
    (hrun : SpecSt.run dict {} prog = some (st, false))
    (len : Nat) (hlen : 2 ≤ len ∧ len ≤ 273) {hdr : Bytes} {opts : Options}
    (hhdr : HeaderReads hdr opts props dict none)
    (hmem : min st.hist.size dict ≤ opts.memlimit.getD USIZE_MAX)
    (snk0 : Sink) (hs0 : snk0.script = []) :
    ∃ snk, lzmaDecompress (Rd.ofBytes (hdr ++ encodeSyms props dict (prog ++ [.mtch 0x100000000 len])))
        opts snk0 = (snk, .ok { rem := [] }) ∧
      snk.out = snk0.out ++ st.hist ∧ snk.lastFlush = true := by
  have hwf : ∀ s ∈ prog ++ [Sym.mtch 0x100000000 len], Sym.RawOk s := by
    intro s hs
    rcases List.mem_append.1 hs with h | h
    · exact run_rawOk prog {} st false hrun s h
    · simp only [List.mem_cons, List.not_mem_nil, or_false] at h
      subst h; exact rawOk_long_marker hlen
  obtain ⟨snkF, probsF, eF, snkB, e2, henc, hfin⟩ :=
    encodeProg_total hpo dict (prog ++ [.mtch 0x100000000 len]) hwf {} rfl
  have hsyms := encodeSyms_eq henc hfin
  obtain ⟨P, hP, hinit⟩ := rc_roundtrip_init (snk0 := {}) rfl (probsOk_init _) henc hfin
  have hP' : snkB.out.toList = P := by simpa using hP
  obtain ⟨rc, rd2, hnew, hbad, hsim⟩ := hinit [] false
  rw [List.append_nil] at hnew
  -- events: those of `prog`, then those of the marker
  have hev : progEvents dict props {} (prog ++ [.mtch 0x100000000 len]) =
      progEvents dict props {} prog ++
        (rawSymEvents (ctxOf props st) (.mtch (len - 2) 0xFFFFFFFF) ++ []) := by
    rw [progEvents_append, progSpec_of_run prog {} st false hrun]
    rfl
  rw [hev] at henc
  have hfr : ForcesRead (rawSymEvents (ctxOf props st) (.mtch (len - 2) 0xFFFFFFFF) ++ []) :=
    forcesRead_long_marker _ _ _
  obtain ⟨s', w', k', probs', e', esnk', rc', rd', hsteps, hinv', hs', hsim', hencE, hbad', hpb', hu'⟩ :=
    decode_prog (M := circModel dict (opts.memlimit.getD USIZE_MAX) snk0) (Nat.le_refl _)
      hfin _ prog (freshState props none) _ snk0 (EncSt.new props) {} {}
      rc rd2 st (decEnc_fresh hpo _ hdict hs0) hrun hmem rfl hbad
      (.inr ⟨rfl, .inr hfr⟩) rfl hsim henc
  -- the marker iteration
  have hun : s'.unpackedSize = none := hu'
  have hstop : stopTest .finish s' w' rc' rd' = .ok false := by
    rw [stopTest_none_finish hun hpb']
    apply isFinishedOk_of_rem
    have hl := RcSim.rem_length hfin hs' hinv'.pok hsim' hencE
    have := hfr _ _ _ _ _ hs' hsim'.ok hinv'.pok hencE
    intro h0
    rw [h0, List.length_nil] at hl
    omega
  rw [List.append_nil] at hencE
  obtain ⟨s'', rc'', hnext, -, -⟩ :=
    decode_long_marker hfin hinv' (l := len - 2) (by omega) hs' hbad' hsim' hencE
  have hexit : FinishRun (⟨s', w', rc', rd', k'⟩ : Cfg Circ) 1 .marker
      ⟨s'', w', rc'', { rem := [], bad := false }, k'⟩ :=
    .marker hstop (fillBuf_of_good hbad') hnext
  have hrunAll := hsteps.append_run hexit
  obtain ⟨snk, hres, hout, hlf, -⟩ := lzmaDecompress_of_run_gen hpo hdict hhdr hnew hrunAll
    (by intro n hn; cases hn) hinv'.win
  refine ⟨snk, ?_, by simpa using hout, hlf⟩
  rw [hsyms, hP', hres]

end Lzma.LongMarker
