/-
  C02, exactness — part 2: one chunk of the reference LZMA2 encoder is one `L2.Chunk` that the
  decoder executes (`Chunk.Exec`) keeping the invariant `Inv` between decoder state / window /
  sink and the encoder state; a whole chunk list is a `L2.Run`.
-/
import LzmaProofs.Lemmas.Lzma2Exact
namespace Lzma
namespace L2E
open DState REnc L2

/-! ## the history only grows -/

theorem step_extends {dict : Nat} {st st' : SpecSt} {sym : Sym}
    (h : SpecSt.step dict st sym = some (st', false)) :
    ∃ ext, st'.hist.toList = st.hist.toList ++ ext := by
  cases sym with
  | eos => simp [SpecSt.step] at h
  | lit b =>
    simp only [SpecSt.step, Option.some.injEq, Prod.mk.injEq, and_true] at h
    subst h; exact ⟨[b], by simp⟩
  | mtch dist len =>
    simp only [SpecSt.step] at h
    split at h
    · cases h
    · obtain ⟨h', hc, hs'⟩ := Option.map_eq_some_iff.1 h
      simp only [Prod.mk.injEq, and_true] at hs'
      subst hs'
      obtain ⟨-, hh⟩ := SpecSt.copy_spec _ _ _ _ hc
      exact ⟨_, hh⟩
  | shortRep =>
    simp only [SpecSt.step] at h
    split at h
    · cases h
    · obtain ⟨h', hc, hs'⟩ := Option.map_eq_some_iff.1 h
      simp only [Prod.mk.injEq, and_true] at hs'
      subst hs'
      obtain ⟨-, hh⟩ := SpecSt.copy_spec _ _ _ _ hc
      exact ⟨_, hh⟩
  | rep idx len =>
    simp only [SpecSt.step] at h
    split at h
    · cases h
    · rename_i hg
      have hidx : idx = 0 ∨ idx = 1 ∨ idx = 2 ∨ idx = 3 := by omega
      rcases hidx with rfl | rfl | rfl | rfl <;>
      · simp only at h
        split at h
        · cases h
        · obtain ⟨h', hc, hs'⟩ := Option.map_eq_some_iff.1 h
          simp only [Prod.mk.injEq, and_true] at hs'
          subst hs'
          obtain ⟨-, hh⟩ := SpecSt.copy_spec _ _ _ _ hc
          exact ⟨_, hh⟩

theorem run_extends {dict : Nat} : ∀ (prog : List Sym) (st st' : SpecSt),
    SpecSt.run dict st prog = some (st', false) → ∃ ext, st'.hist.toList = st.hist.toList ++ ext
  | [], st, st', h => by
    simp only [SpecSt.run, Option.some.injEq, Prod.mk.injEq, and_true] at h
    subst h; exact ⟨[], by simp⟩
  | sym :: rest, st, st', h => by
    obtain ⟨st1, hs, hr⟩ := SpecSt.run_cons h
    obtain ⟨e1, h1⟩ := step_extends hs
    obtain ⟨e2, h2⟩ := run_extends rest st1 st' hr
    exact ⟨e1 ++ e2, by rw [h2, h1, List.append_assoc]⟩

/-- the history before a program is the start of the history after it -/
theorem run_hist_split {dict : Nat} {prog : List Sym} {st st' : SpecSt}
    (h : SpecSt.run dict st prog = some (st', false)) :
    st'.hist.toList = st.hist.toList ++ st'.hist.toList.drop st.hist.size := by
  obtain ⟨ext, he⟩ := run_extends prog st st' h
  rw [he, ← Array.length_toList, List.drop_left]

/-! ## `reset_state` and the dictionary reset -/

/-- `reset_state` yields exactly the fresh tables of `EncSt.new` -/
theorem resetState_init {st : DState} (hs : Safety.DStateInv st) {np : Props}
    (hp : Safety.PropsOk np) :
    st.resetState np = .ok { st with
      props := np
      probs := Probs.init (1 <<< (np.lc + np.lp))
      state := 0, rep0 := 0, rep1 := 0, rep2 := 0, rep3 := 0 } := by
  unfold DState.resetState
  rw [Safety.validate_ok hp]
  simp only [Safety.ok_bind]
  by_cases h : st.props.lc + st.props.lp = np.lc + np.lp
  · have h1 : st.probs.lit.size = (1 <<< (np.lc + np.lp)) * 0x300 := by
      rw [hs.probs.lit.1, hs.rows, h]
    have h2 : st.probs.litRows = 1 <<< (np.lc + np.lp) := by rw [hs.rows, h]
    simp only [h, if_true, h1, h2]
    rfl
  · simp only [h, if_false]
    rfl

/-- the optional dictionary reset at the start of a chunk: the history goes to the sink -/
theorem reset_stage {s0 : Sink} {F H : Bytes} {a : Accum} {k : Sink} (c : Prop) [Decidable c]
    (ha : AccumInv a H) (hk : k.script = []) (ho : k.out = s0.out ++ F.toArray) :
    ∃ k0 a0, (if c then a.reset else pure a) k = (k0, .ok a0) ∧ k0.script = [] ∧
      k0.out = s0.out ++ (F ++ if c then H else []).toArray ∧
      AccumInv a0 (if c then [] else H) ∧ a0.memlimit = a.memlimit := by
  by_cases hc : c
  · obtain ⟨s', h1, h2, h3, h4⟩ := Accum.reset_spec ha hk
    refine ⟨s', { a with buf := #[], len := 0 }, by rw [if_pos hc]; exact h1, h2, ?_,
      by rw [if_pos hc]; exact h4, rfl⟩
    rw [h3, ho, if_pos hc]
    simp
  · refine ⟨k, a, by rw [if_neg hc]; rfl, hk, ?_, by rw [if_neg hc]; exact ha, rfl⟩
    rw [ho, if_neg hc]; simp

/-! ## the invariant between chunks -/

/-- decoder object `d`, window `a`, sink `k` versus the encoder state `es`; `F` = the bytes the
dictionary resets have flushed to the sink so far -/
structure Inv (s0 : Sink) (F : Bytes) (d : Lzma2Decoder) (a : Accum) (k : Sink) (es : EncSt) :
    Prop where
  cpl : Coupled d.lzmaState es
  acc : AccumInv a es.spec.hist.toList
  mem : a.memlimit = USIZE_MAX
  perf : k.script = []
  out : k.out = s0.out ++ F.toArray

theorem inv_init {s0 : Sink} (hs : s0.script = []) :
    Inv s0 [] Lzma2Decoder.init (Accum.fromStream USIZE_MAX) s0
      (EncSt.new { lc := 0, lp := 0, pb := 0 }) where
  cpl :=
    { probs := rfl, props := rfl, state := rfl, rep0 := rfl, rep1 := rfl, rep2 := rfl, rep3 := rfl
      dinv := by
        have := Safety.Lzma2Decoder_new_safe
        rw [Lzma2Decoder.new_eq] at this
        exact this
      pbuf := rfl
      pok := probsOk_init _
      lclp := by decide
      lim := by intro h; exact absurd h (by show ¬ (0 : Nat) ≥ 7; omega) }
  acc := Accum.fromStream_inv _
  mem := rfl
  perf := hs
  out := by simp

/-! ## control byte arithmetic -/

theorem ctrl_toNat {cls hi : Nat} (hc : cls ≤ 3) (hh : hi < 32) :
    (UInt8.ofNat (0x80 + cls * 32 + hi)).toNat = 0x80 + cls * 32 + hi := by
  rw [UInt8.toNat_ofNat']; omega

theorem propsByte_toNat {p : Props} (h1 : p.lc + p.lp ≤ 4) (h2 : p.pb ≤ 4) :
    (propsByte p).toNat = p.lc + 9 * (p.lp + 5 * p.pb) := by
  unfold propsByte
  rw [UInt8.toNat_ofNat']; omega

theorem propsOfByte_propsByte {p : Props} (h1 : p.lc + p.lp ≤ 4) (h2 : p.pb ≤ 4) :
    propsOfByte (propsByte p) = p := by
  unfold propsOfByte
  rw [propsByte_toNat h1 h2]
  rcases p with ⟨lc, lp, pb⟩
  simp only at h1 h2 ⊢
  congr 1 <;> omega

/-! ## one chunk -/

/-- the effect of one chunk, uniformly for both kinds: the reference encoder's bytes are those of
a syntactically well-formed `L2.Chunk` that the decoder executes; the chunk has a meaning; the
invariant is re-established for the encoder's next state; and everything delivered so far
(flushed by dictionary resets + still in the window) grows by exactly the chunk's meaning -/
def ChunkOk (s0 : Sink) (F : Bytes) (d : Lzma2Decoder) (a : Accum) (k : Sink) (es : EncSt)
    (c : SChunk) : Prop :=
  ∃ (ch : Chunk) (sp' : SpecSt) (out : Bytes) (d' : Lzma2Decoder) (a' : Accum) (k' : Sink)
    (F' : Bytes),
    ch.WF ∧ ch.bytes = (encChunk es c).1 ∧ ch.Exec d a k d' a' k' ∧
    c.sem es.spec = some (sp', out) ∧ (encChunk es c).2.spec = sp' ∧
    Inv s0 F' d' a' k' (encChunk es c).2 ∧
    F' ++ sp'.hist.toList = F ++ es.spec.hist.toList ++ out ∧ MbAfter es.spec sp' c

theorem raw_chunk {s0 : Sink} {F : Bytes} {d : Lzma2Decoder} {a : Accum} {k : Sink} {es : EncSt}
    (hinv : Inv s0 F d a k es) (rd : Bool) (data : Bytes) (hwf : (SChunk.raw rd data).WF es) :
    ChunkOk s0 F d a k es (.raw rd data) := by
  obtain ⟨k0, a0, hreset, hk0, hout0, hacc0, hmem0⟩ :=
    reset_stage (s0 := s0) (F := F) (rd = true) hinv.acc hinv.perf hinv.out
  refine ⟨.raw rd data, rawAfter rd data es.spec, data, d, a0.appendBytes data, k0,
    F ++ (if rd = true then es.spec.hist.toList else []), hwf, rfl, ⟨rfl, a0, hreset, rfl⟩, rfl, rfl,
    ?_, ?_, ?_⟩
  · have hc := hinv.cpl
    refine ⟨⟨hc.probs, hc.props, hc.state, hc.rep0, hc.rep1, hc.rep2, hc.rep3, hc.dinv, hc.pbuf,
      hc.pok, hc.lclp, hc.lim⟩, ?_, by rw [← hinv.mem, ← hmem0]; rfl, hk0, hout0⟩
    have := Accum.appendBytes_inv data hacc0
    show AccumInv _ (rawAfter rd data es.spec).hist.toList
    cases rd <;> simpa [rawAfter] using this
  · cases rd <;> simp [rawAfter]
  · intro hrd hmb hst
    subst hrd
    have := hmb hst
    show es.spec.rep0 + 1 ≤ (rawAfter false data es.spec).hist.size
    simp only [rawAfter, Bool.false_eq_true, if_false, Array.size_append, List.size_toArray]
    omega

/-- the optional state reset at the start of a compressed chunk -/
theorem state_stage {st : DState} {es : EncSt} (hc : Coupled st es) (cls : Nat) (props : Props)
    (hlclp : (startEnc cls props es).props.lc + (startEnc cls props es).props.lp ≤ 4)
    (hpb : (startEnc cls props es).props.pb ≤ 4) :
    ∃ st0, (if cls ≥ 1 then st.resetState (propsInForce cls props es.props) else .ok st) = .ok st0 ∧
      Coupled st0 (startEnc cls props es) := by
  by_cases h0 : cls = 0
  · subst h0
    exact ⟨st, rfl, hc⟩
  · have he : startEnc cls props es =
        { EncSt.new (propsInForce cls props es.props) with spec := startSpec cls es.spec } := by
      unfold startEnc; rw [if_neg h0]
    rw [he] at hlclp hpb ⊢
    have hp : Safety.PropsOk (propsInForce cls props es.props) :=
      ⟨by have := hlclp; simp only [EncSt.new] at this; omega,
       by have := hlclp; simp only [EncSt.new] at this; omega, hpb⟩
    have hreset := resetState_init hc.dinv hp
    have hsafe := Safety.resetState_safe hc.dinv hp
    rw [hreset] at hsafe
    refine ⟨_, by rw [if_pos (by omega)]; exact hreset, ?_⟩
    obtain ⟨r0, r1, r2, r3⟩ := startSpec_reps h0 es.spec
    exact
      { probs := rfl, props := rfl, state := (startSpec_state h0 es.spec).symm, rep0 := r0.symm,
        rep1 := r1.symm, rep2 := r2.symm, rep3 := r3.symm, dinv := hsafe.1, pbuf := hc.pbuf,
        pok := probsOk_init _, lclp := hlclp,
        lim := by
          intro h
          have : (startSpec cls es.spec).state = 0 := startSpec_state h0 es.spec
          have h' : (startSpec cls es.spec).state ≥ 7 := h
          omega }

theorem lzma_chunk {s0 : Sink} {F : Bytes} {d : Lzma2Decoder} {a : Accum} {k : Sink} {es : EncSt}
    (hinv : Inv s0 F d a k es) (cls : Nat) (props : Props) (prog : List Sym)
    (hwf : (SChunk.lzma cls props prog).WF es) :
    ChunkOk s0 F d a k es (.lzma cls props prog) := by
  obtain ⟨hcls, hlclp, hpb, hneos, hmb0, hrunwf, hpaylen⟩ := hwf
  -- the program runs in the spec
  cases hrun : SpecSt.run dictLim (startSpec cls es.spec) prog with
  | none => rw [hrun] at hrunwf; exact hrunwf.elim
  | some r =>
  obtain ⟨sp', b⟩ := r
  have hb := SpecSt.run_flag prog _ _ _ hneos hrun
  subst hb
  rw [hrun] at hrunwf
  obtain ⟨hu1, hu2, hfit⟩ := hrunwf
  have hsplit := run_hist_split hrun
  have hmono := SpecSt.run_mono prog _ _ hrun
  have hhist := startSpec_hist cls es.spec
  -- the stages before the payload
  obtain ⟨k0, a0, hreset, hk0, hout0, hacc0, hmem0⟩ :=
    reset_stage (s0 := s0) (F := F) (cls = 3) hinv.acc hinv.perf hinv.out
  have hacc0' : AccumInv a0 (startEnc cls props es).spec.hist.toList := by
    rw [startEnc_spec, hhist]
    by_cases h3 : cls = 3
    · rw [if_pos h3] at hacc0 ⊢; exact hacc0
    · rw [if_neg h3] at hacc0 ⊢; exact hacc0
  obtain ⟨st0, hstate, hcpl0⟩ := state_stage hinv.cpl cls props hlclp hpb
  have hmbS : MbOk (startEnc cls props es).spec := by
    rw [startEnc_spec]
    by_cases h0 : cls = 0
    · subst h0; exact hmb0 rfl
    · intro h
      have := startSpec_state h0 es.spec
      have h' : (startSpec cls es.spec).state ≥ 7 := h
      omega
  have hrun' : SpecSt.run dictLim (startEnc cls props es).spec prog = some (sp', false) := by
    rw [startEnc_spec]; exact hrun
  obtain ⟨snkB, probsF, hpay, h5, rc, tk, st1, a1, rc1, tk1, hnew, hmode, hcode, hrem, hbad, hcpl1,
    hacc1, hmem1, hmb1⟩ :=
    payload_exec k0 hcpl0 hacc0' (hmem0.trans hinv.mem) hmbS hrun' hfit
  rw [hpay] at hpaylen
  have hpl : snkB.out.toList.length ≤ 65536 := by rw [Array.length_toList]; exact hpaylen
  -- the chunk
  have hsz0 : (startEnc cls props es).spec.hist.size = (startSpec cls es.spec).hist.size := by
    rw [startEnc_spec]
  have hhi : (sp'.hist.size - (startSpec cls es.spec).hist.size - 1) >>> 16 < 32 := by
    rw [Nat.shiftRight_eq_div_pow]; omega
  have hct := ctrl_toNat (hi := (sp'.hist.size - (startSpec cls es.spec).hist.size - 1) >>> 16)
    hcls hhi
  have henc : encChunk es (.lzma cls props prog) =
      (UInt8.ofNat (0x80 + cls * 32 +
          ((sp'.hist.size - (startSpec cls es.spec).hist.size - 1) >>> 16)) ::
        (beBytes 2 ((sp'.hist.size - (startSpec cls es.spec).hist.size - 1) % 65536) ++
          (beBytes 2 (snkB.out.toList.length - 1) ++
            ((if cls ≥ 2 then [propsByte props] else []) ++ snkB.out.toList))),
       { startEnc cls props es with probs := probsF, spec := sp' }) := by
    simp only [encChunk, hpay, hsz0]
  rw [ChunkOk, henc]
  have ha0len : a0.len = (startSpec cls es.spec).hist.size := by
    rw [hacc0'.2, Array.length_toList, hsz0]
  have hsize : sp'.hist.size - (startSpec cls es.spec).hist.size + a0.len = sp'.hist.size := by
    omega
  have hprops2 : cls ≥ 2 → propsOfByte (propsByte props) = propsInForce cls props es.props := by
    intro h2
    have he : (startEnc cls props es).props = props := by
      unfold startEnc propsInForce
      rw [if_neg (by omega), if_pos h2]; rfl
    rw [he] at hlclp hpb
    unfold propsInForce
    rw [if_pos h2]
    exact propsOfByte_propsByte hlclp hpb
  have hprops1 : ¬ cls ≥ 2 → d.lzmaState.props = propsInForce cls props es.props := by
    intro h2
    unfold propsInForce
    rw [if_neg h2]
    exact hinv.cpl.props
  refine ⟨.packed (UInt8.ofNat (0x80 + cls * 32 +
        ((sp'.hist.size - (startSpec cls es.spec).hist.size - 1) >>> 16)))
      (sp'.hist.size - (startSpec cls es.spec).hist.size)
      (if cls ≥ 2 then some (propsByte props) else none) snkB.out.toList,
    sp', sp'.hist.toList.drop (startSpec cls es.spec).hist.size, { lzmaState := st1 }, a1, k0,
    F ++ (if cls = 3 then es.spec.hist.toList else []), ?_, ?_, ?_, ?_, rfl, ?_, ?_, hmb1⟩
  · -- syntactic well-formedness
    refine ⟨by omega, hu1, ?_, h5, hpl, ?_⟩
    · rw [hct, ← Nat.shiftRight_eq_div_pow _ 16]; omega
    · by_cases h2 : cls ≥ 2
      · have he : (startEnc cls props es).props = props := by
          unfold startEnc propsInForce
          rw [if_neg (by omega), if_pos h2]; rfl
        rw [he] at hlclp hpb
        simp only [if_pos h2]
        rw [propsByte_toNat hlclp hpb]
        refine ⟨by omega, by omega, by omega⟩
      · simp only [if_neg h2]; omega
  · -- the bytes
    simp only [Chunk.bytes, Chunk.control, Chunk.body]
    by_cases h2 : cls ≥ 2 <;> simp [h2]
  · -- execution
    refine ⟨k0, a0, st0, rc, tk, st1, rc1, tk1, ?_, ?_, hnew, ?_, hcode, hrem, hbad, rfl⟩
    · by_cases h3 : cls = 3
      · rw [if_pos h3] at hreset; rw [if_pos (by omega)]; exact hreset
      · rw [if_neg h3] at hreset; rw [if_neg (by omega)]; exact hreset
    · by_cases h1 : cls ≥ 1
      · rw [if_pos h1] at hstate; rw [if_pos (by omega)]
        by_cases h2 : cls ≥ 2
        · simp only [if_pos h2]; rw [hprops2 h2]; exact hstate
        · simp only [if_neg h2]; rw [hprops1 h2]; exact hstate
      · rw [if_neg h1] at hstate; rw [if_neg (by omega)]; exact hstate
    · rw [hsize]; exact hmode
  · -- meaning
    simp only [SChunk.sem, hrun]
  · exact ⟨hcpl1, hacc1, hmem1, hk0, hout0⟩
  · by_cases h3 : cls = 3
    · rw [if_pos h3] at hhist
      rw [hhist] at hsplit ⊢
      simp [h3]
    · rw [if_neg h3] at hhist
      rw [hhist] at hsplit ⊢
      rw [if_neg h3, List.append_nil, List.append_assoc, ← hsplit]

theorem chunk_ok {s0 : Sink} {F : Bytes} {d : Lzma2Decoder} {a : Accum} {k : Sink} {es : EncSt}
    (hinv : Inv s0 F d a k es) (c : SChunk) (hwf : c.WF es) : ChunkOk s0 F d a k es c := by
  cases c with
  | raw rd data => exact raw_chunk hinv rd data hwf
  | lzma cls props prog => exact lzma_chunk hinv cls props prog hwf

/-! ## a chunk sequence -/

theorem run_chunks {s0 : Sink} : ∀ (cs : List SChunk) (es : EncSt) (F : Bytes) (d : Lzma2Decoder)
    (a : Accum) (k : Sink), Inv s0 F d a k es → WF2Aux es cs →
    ∃ (chs : List Chunk) (out : Bytes) (d' : Lzma2Decoder) (a' : Accum) (k' : Sink) (es' : EncSt)
      (F' : Bytes),
      expand2Aux es.spec cs = some out ∧ (∀ c ∈ chs, c.WF) ∧
      encode2Aux es cs = chs.flatMap Chunk.bytes ∧ Run chs d a k d' a' k' ∧
      Inv s0 F' d' a' k' es' ∧ F' ++ es'.spec.hist.toList = F ++ es.spec.hist.toList ++ out
  | [], es, F, d, a, k, hinv, _ =>
    ⟨[], [], d, a, k, es, F, rfl, by simp, rfl, Run.nil _ _ _, hinv, by simp⟩
  | c :: cs, es, F, d, a, k, hinv, hwf => by
    obtain ⟨hwfc, hwfs⟩ := hwf
    obtain ⟨ch, sp', out1, d1, a1, k1, F1, h1, h2, h3, h4, h5, h6, h7, -⟩ := chunk_ok hinv c hwfc
    obtain ⟨chs, out2, d', a', k', es', F', g1, g2, g3, g4, g5, g6⟩ :=
      run_chunks cs _ F1 d1 a1 k1 h6 hwfs
    rw [h5] at g1 g6
    refine ⟨ch :: chs, out1 ++ out2, d', a', k', es', F', ?_, ?_, ?_, Run.cons h3 g4, g5, ?_⟩
    · simp only [expand2Aux, h4, g1, Option.map_some]
    · intro x hx
      rcases List.mem_cons.1 hx with rfl | hx
      · exact h1
      · exact g2 x hx
    · simp only [encode2Aux, List.flatMap_cons, h2, g3]
    · rw [g6, h7]; simp only [List.append_assoc]

/-! ## the syntactic well-formedness implies the semantic one -/

theorem wf2s_imp {s0 : Sink} : ∀ (cs : List SChunk) (b : Bool) (es : EncSt) (F : Bytes)
    (d : Lzma2Decoder) (a : Accum) (k : Sink), Inv s0 F d a k es → (b = true → MbOk es.spec) →
    WF2sAux b es cs → WF2Aux es cs
  | [], _, _, _, _, _, _, _, _, _ => trivial
  | c :: cs, b, es, F, d, a, k, hinv, hb, hwf => by
    obtain ⟨hwfc, hwfs⟩ := hwf
    have hwfc' : c.WF es := by
      cases c with
      | raw rd data => exact hwfc
      | lzma cls props prog =>
        obtain ⟨h1, h2, h3, h4, h5, h6, h7⟩ := hwfc
        exact ⟨h1, h2, h3, h4, fun h0 => hb (h5 h0), h6, h7⟩
    obtain ⟨ch, sp', out1, d1, a1, k1, F1, -, -, -, -, h5, h6, -, h8⟩ := chunk_ok hinv c hwfc'
    refine ⟨hwfc', wf2s_imp cs _ _ F1 d1 a1 k1 h6 ?_ hwfs⟩
    rw [h5]
    cases c with
    | raw rd data =>
      intro hcarry
      simp only [carryAfter, Bool.and_eq_true, Bool.not_eq_true'] at hcarry
      exact h8 hcarry.2 (hb hcarry.1)
    | lzma cls props prog => intro _; exact h8

end L2E
end Lzma
