/-
  C09 — match references outside the produced window are always rejected.

  Subject: `LzmaModel/Window.lean` (`Circ` = Rust `LzCircularBuffer`, `Accum` = Rust
  `LzAccumBuffer`, `/repo/src/decode/lzbuffer.rs`).  Ghost state: the history `H` of all bytes
  appended so far; `CircInv w H` / `AccumInv w H` tie the concrete window to it
  (`LzmaProofs/Lemmas/Window.lean`).  All statements hold for EVERY `dictSize ≥ 1`, every
  `memlimit`, every history: no bounds anywhere.

  Conventions
  * `s.Perfect` : the sink's script is exhausted, every raw call accepts everything.
  * `lzCopy H dist len` : the format's meaning of a match (overlap allowed).
  * `s.after d H H'` : the sink after the window went from history `H` to `H'` — one raw
    `write` per completed lap of `d` bytes, carrying exactly that lap.
  * all theorems about matches assume `1 ≤ dist` (the decoder passes `rep0 + 1`);
    `lastN_dist_zero`/`dist_zero_accepted` say exactly what happens for `dist = 0`.
-/
import LzmaProofs.Lemmas.Window
namespace Lzma.C09

/-! ### 1. construction -/

theorem fromStream_inv {d : Nat} (m : Nat) (hd : 0 < d) : CircInv (Circ.fromStream d m) [] :=
  Circ.fromStream_inv m hd

example : CircInv (Circ.fromStream 3 0) [] := fromStream_inv 0 (by decide)

/-- a concrete window in its second lap (`d = 3`, five bytes produced) meets the invariant -/
example :
    CircInv { buf := #[4, 5, 3], dictSize := 3, memlimit := 3, cursor := 2, len := 5 }
      [1, 2, 3, 4, 5] where
  dict_pos := by decide
  len_eq := rfl
  cursor_eq := rfl
  size_eq := rfl
  size_le := by decide
  cells := by
    intro p hp hw
    have : p = 2 ∨ p = 3 ∨ p = 4 := by simp at hp hw; omega
    rcases this with rfl | rfl | rfl <;> rfl

/-- the invariant in the per-cell form: cell `i` holds the byte of `H` at the LAST position
`p < H.length` with `p % dictSize = i` -/
theorem inv_cell {w : Circ} {H : Bytes} (h : CircInv w H) {i : Nat} (hi : i < w.buf.size) :
    w.buf[i]? = H[lastPos H.length w.dictSize i]? ∧
      lastPos H.length w.dictSize i < H.length ∧ lastPos H.length w.dictSize i % w.dictSize = i ∧
      ∀ q, q < H.length → q % w.dictSize = i → q ≤ lastPos H.length w.dictSize i := by
  have hi' : i < min H.length w.dictSize := by rw [← h.size_eq]; exact hi
  obtain ⟨h1, _, h3⟩ := lastPos_spec h.dict_pos hi'
  exact ⟨h.cell hi, h1, h3, fun q hq hqi => lastPos_last h.dict_pos hi' hq hqi⟩

/-- the content clause of `CircInv` (`Cells`, stated per position of the last `d` positions) is
equivalent to the per-cell "last position with that residue" formulation -/
theorem inv_cells_iff {buf : Array UInt8} {d : Nat} {H : Bytes} (hd : 0 < d) :
    Cells buf d H ↔ ∀ i, i < min H.length d → buf[i]? = H[lastPos H.length d i]? := by
  refine ⟨fun hc i hi => ?_, cells_of_lastPos hd⟩
  obtain ⟨h1, h2, h3⟩ := lastPos_spec hd hi
  rw [← hc _ h1 h2, h3]

/-- the window is a function of the history (and of `dictSize`, `memlimit`) -/
theorem inv_unique {w w' : Circ} {H : Bytes} (h : CircInv w H) (h' : CircInv w' H)
    (hd : w.dictSize = w'.dictSize) (hm : w.memlimit = w'.memlimit) : w = w' :=
  CircInv.ext h h' hd hm

/-! ### 2. `append_literal` -/

theorem appendLiteral_spec {w : Circ} {H : Bytes} {s : Sink} (b : UInt8) (h : CircInv w H)
    (hs : s.Perfect) :
    (min (H.length + 1) w.dictSize ≤ w.memlimit →
      ∃ w' s', w.appendLiteral b s = (s', .ok w') ∧ CircInv w' (H ++ [b]) ∧
        w'.dictSize = w.dictSize ∧ w'.memlimit = w.memlimit ∧ s'.Perfect ∧
        s'.out = s.out ++
          (if (H.length + 1) % w.dictSize = 0 then
            ((H ++ [b]).drop (H.length + 1 - w.dictSize)).toArray
           else #[])) ∧
    (¬ min (H.length + 1) w.dictSize ≤ w.memlimit →
      w.appendLiteral b s = (s, .error .lzma)) := by
  refine ⟨fun hm => ?_, fun hm => Circ.appendLiteral_fail s b h hm⟩
  obtain ⟨w', e1, e2, e3, e4⟩ := Circ.appendLiteral_ok (s := s) b h hs hm
  refine ⟨w', _, e1, e2, e3, e4, Sink.after_perfect hs, ?_⟩
  rw [Sink.after_snoc s h.dict_pos]
  split <;> simp

/-- the step completing a lap (`d = 3`, third byte): the lap `[1,2,3]` reaches the sink -/
example :
    ((Circ.runOps [.lit 1, .lit 2, .lit 3] (Circ.fromStream 3 3)) {}).1.out = #[1, 2, 3] := by
  decide +kernel

/-! ### 3. reads -/

theorem lastN_spec {w : Circ} {H : Bytes} {dist : Nat} (h : CircInv w H) (h1 : 1 ≤ dist) :
    w.lastN dist =
      if hg : dist ≤ w.dictSize ∧ dist ≤ H.length then .ok (H[H.length - dist]'(by omega))
      else .error .lzma :=
  Circ.lastN_spec h h1

theorem lastOr_spec {w : Circ} {H : Bytes} (b : UInt8) (h : CircInv w H) :
    w.lastOr b = .ok (H.getLast?.getD b) :=
  Circ.lastOr_spec b h

/-- `dist = 0` is NOT rejected by `last_n` (nor by `append_lz`): the cell under the cursor is
read — the byte `dictSize` back once a lap is complete (a stale cell), the `unwrap_or(&0)`
default before.  The decoder never passes `0` (it passes `rep0 + 1`). -/
theorem lastN_dist_zero {w : Circ} {H : Bytes} (h : CircInv w H) :
    w.lastN 0 = .ok (if w.dictSize ≤ H.length then H[H.length - w.dictSize]?.getD 0 else 0) :=
  Circ.lastN_zero h

/-- `append_lz(len, 0)` in general: the distance guard never fires; the copy behaves like
distance `dictSize` on the history extended to the left by zeros (`lzCopyZ`); only the memory
limit can reject it. -/
theorem appendLz_dist_zero {w : Circ} {H : Bytes} {s : Sink} (len : Nat) (h : CircInv w H)
    (hs : s.Perfect) :
    ((len = 0 ∨ min (H.length + len) w.dictSize ≤ w.memlimit) →
      ∃ w', w.appendLz len 0 s =
          (s.after w.dictSize H (H ++ lzCopyZ w.dictSize H len), .ok w') ∧
        CircInv w' (H ++ lzCopyZ w.dictSize H len)) ∧
    (¬ (len = 0 ∨ min (H.length + len) w.dictSize ≤ w.memlimit) →
      w.appendLz len 0 s = (s, .error .lzma)) := by
  have hsp := Circ.appendLz_zero (s := s) len h hs
  refine ⟨fun hg => ?_, fun hg => ?_⟩
  · rw [if_pos hg] at hsp
    obtain ⟨w', e1, e2, _⟩ := hsp
    exact ⟨w', e1, e2⟩
  · rw [if_neg hg] at hsp; exact hsp

/-- `append_lz(len, 0)` is accepted: on a fresh window it appends zeros; in a later lap it
re-emits the stale cells (here `2, 3` after `1 2 3 4 5` with `d = 4`) -/
theorem dist_zero_accepted :
    (((Circ.fromStream 4 4).appendLz 2 0 {}).2.toOption.map (·.buf)) = some #[0, 0] ∧
    ((Circ.runOps [.lit 1, .lit 2, .lit 3, .lit 4, .lit 5, .lz 2 0] (Circ.fromStream 4 4) {}).2.toOption.map
        (·.buf)) = some #[5, 2, 3, 4] ∧
    idealOps 4 [.lit 1, .lit 2, .lit 3, .lit 4, .lit 5, .lz 2 0] [] = none := by
  decide +kernel

/-! ### 4. `append_lz`: the guard -/

theorem appendLz_spec {w : Circ} {H : Bytes} {s : Sink} (len : Nat) {dist : Nat}
    (h : CircInv w H) (hs : s.Perfect) (h1 : 1 ≤ dist) :
    ((∃ s' w', w.appendLz len dist s = (s', .ok w')) ↔
      (dist ≤ w.dictSize ∧ dist ≤ H.length ∧
        (len = 0 ∨ min (H.length + len) w.dictSize ≤ w.memlimit))) ∧
    ((dist ≤ w.dictSize ∧ dist ≤ H.length ∧
        (len = 0 ∨ min (H.length + len) w.dictSize ≤ w.memlimit)) →
      ∃ w', w.appendLz len dist s = (s.after w.dictSize H (H ++ lzCopy H dist len), .ok w') ∧
        CircInv w' (H ++ lzCopy H dist len) ∧ w'.dictSize = w.dictSize ∧
        w'.memlimit = w.memlimit ∧ (s.after w.dictSize H (H ++ lzCopy H dist len)).Perfect) ∧
    (¬ (dist ≤ w.dictSize ∧ dist ≤ H.length ∧
        (len = 0 ∨ min (H.length + len) w.dictSize ≤ w.memlimit)) →
      w.appendLz len dist s = (s, .error .lzma)) := by
  have hsp := Circ.appendLz_spec (s := s) len h hs h1
  by_cases hg : dist ≤ w.dictSize ∧ dist ≤ H.length ∧
      (len = 0 ∨ min (H.length + len) w.dictSize ≤ w.memlimit)
  · rw [if_pos hg] at hsp
    obtain ⟨w', e1, e2, e3, e4⟩ := hsp
    exact ⟨⟨fun _ => hg, fun _ => ⟨_, w', e1⟩⟩,
      fun _ => ⟨w', e1, e2, e3, e4, Sink.after_perfect hs⟩, fun hn => absurd hg hn⟩
  · rw [if_neg hg] at hsp
    refine ⟨⟨fun ⟨s', w', e⟩ => ?_, fun hh => absurd hh hg⟩, fun hh => absurd hh hg, fun _ => hsp⟩
    rw [hsp] at e
    injection e with _ e2
    cases e2

/-- a match reaching outside the produced window or the dictionary leaves window and sink
untouched -/
theorem appendLz_guard {w : Circ} {H : Bytes} {s : Sink} (len : Nat) {dist : Nat}
    (h : CircInv w H) (hs : s.Perfect) (h1 : 1 ≤ dist)
    (hbad : w.dictSize < dist ∨ H.length < dist) :
    w.appendLz len dist s = (s, .error .lzma) :=
  (appendLz_spec len h hs h1).2.2 (by omega)

/-- the sink relation "everything except the unflushed part of the current lap" is maintained -/
theorem sink_rel {s0 s : Sink} {d : Nat} {H H' : Bytes} (hp : H <+: H')
    (hout : s.out = s0.out ++ (H.take (H.length - H.length % d)).toArray) :
    (s.after d H H').out = s0.out ++ (H'.take (H'.length - H'.length % d)).toArray :=
  Sink.after_out_rel hp hout

/-- closed form of a copy: the last `dist` bytes repeated periodically -/
theorem lzCopy_periodic {H : Bytes} {dist n i : Nat} (h1 : 1 ≤ dist) (h2 : dist ≤ H.length)
    (hi : i < n) : (lzCopy H dist n)[i]? = H[H.length - dist + i % dist]? :=
  getElem?_lzCopy h1 h2 hi

/-- `d = 3`: after `1 2`, the overlapping copy `(len 5, dist 2)` straddles the wrap point of
both the read offset and the cursor (twice); the result is the ideal one -/
example :
    Circ.runOps [.lit 1, .lit 2, .lz 5 2] (Circ.fromStream 3 3) {} =
      ({ out := #[1, 2, 1, 2, 1, 2], writes := 2 },
       .ok { buf := #[1, 1, 2], dictSize := 3, memlimit := 3, cursor := 1, len := 7 }) ∧
    [1, 2] ++ lzCopy [1, 2] 2 5 = [1, 2, 1, 2, 1, 2, 1] := by
  decide +kernel

/-- `d = 3`, three bytes produced: distances 1..3 accepted, 4 rejected (beyond the dictionary and
beyond the output); on a two-byte history distance 3 is rejected (beyond the output) -/
example :
    ((Circ.runOps [.lit 1, .lit 2, .lit 3, .lz 1 3] (Circ.fromStream 3 3) {}).2.toOption.isSome = true) ∧
    (Circ.runOps [.lit 1, .lit 2, .lit 3, .lz 1 4] (Circ.fromStream 3 3) {}).2 = .error .lzma ∧
    (Circ.runOps [.lit 1, .lit 2, .lz 1 3] (Circ.fromStream 3 3) {}).2 = .error .lzma := by
  decide +kernel

/-! ### 5. the `unwrap_or(&0)` default and stale cells are never observed -/

/-- for a distance passing the guard the offset computation does not panic, the index passed to
`get` is inside the allocated buffer, and the cell holds the byte of the history -/
theorem get_default_unreachable {w : Circ} {H : Bytes} {dist : Nat} (h : CircInv w H)
    (h1 : 1 ≤ dist) (h2 : dist ≤ w.dictSize) (h3 : dist ≤ H.length) :
    ∃ off, w.offsetOf dist = .ok off ∧ off < w.buf.size ∧
      w.get off = H[H.length - dist]'(by omega) := by
  obtain ⟨e1, e2, _⟩ := Circ.offsetOf_get h h1 h2 h3
  exact ⟨_, e1, e2, Circ.get_eq h h1 h2 h3⟩

/-- with `get` replaced by a panicking index (`Circ.getStrict`), `last_n`, `last_or` and the whole
copy loop of `append_lz` behave identically: no read ever leaves the allocated buffer -/
theorem strict_get_same {w : Circ} {H : Bytes} (h : CircInv w H) :
    (∀ b, w.lastOrStrict b = w.lastOr b) ∧
    (∀ dist, 1 ≤ dist → w.lastNStrict dist = w.lastN dist) ∧
    (∀ len dist s, 1 ≤ dist → s.Perfect → w.appendLzStrict len dist s = w.appendLz len dist s) :=
  ⟨fun b => Circ.lastOrStrict_eq b h, fun _ h1 => Circ.lastNStrict_eq h h1,
    fun len _ _ h1 hs => Circ.appendLzStrict_eq len h hs h1⟩

/-! ### 6. refinement of the ideal semantics -/

/-- Running any op list on a fresh window and finishing succeeds with output `H'` iff the ideal
list semantics yields `H'` and the final allocation fits the limit: the output is a function of
the op sequence alone, not of capacity, laps or stale cells. -/
theorem circ_refines_ideal {ops : List WinOp} {d m : Nat} {s0 : Sink} (hd : 0 < d)
    (hs : s0.Perfect) (hv : ∀ op ∈ ops, op.Valid) (H' : Bytes) :
    (∃ s', Circ.runAll ops d m s0 = (s', .ok ()) ∧ s'.out = s0.out ++ H'.toArray) ↔
      (idealOps d ops [] = some H' ∧ min H'.length d ≤ m) :=
  Circ.refines_ideal hd hs hv H'

theorem circ_refines_ideal_ok {ops : List WinOp} {d m : Nat} {s0 : Sink} {H' : Bytes}
    (hd : 0 < d) (hs : s0.Perfect) (hv : ∀ op ∈ ops, op.Valid)
    (hi : idealOps d ops [] = some H') (hm : min H'.length d ≤ m) :
    ∃ s', Circ.runAll ops d m s0 = (s', .ok ()) ∧ s'.Perfect ∧ s'.out = s0.out ++ H'.toArray ∧
      s'.lastFlush = true :=
  Circ.runAll_ok hd hs hv hi hm

/-- otherwise the run is an `lzma` error (never a panic) and the sink holds a prefix of the ideal
history produced before the offending op -/
theorem circ_rejects {ops : List WinOp} {d m : Nat} {s0 : Sink} (hd : 0 < d) (hs : s0.Perfect)
    (hv : ∀ op ∈ ops, op.Valid)
    (hi : ¬ ∃ H', idealOps d ops [] = some H' ∧ min H'.length d ≤ m) :
    ∃ s' Hp, Circ.runAll ops d m s0 = (s', .error .lzma) ∧ s'.Perfect ∧
      s'.out = s0.out ++ Hp.toArray ∧ Hp <+: idealPrefix d ops [] :=
  Circ.runAll_error hd hs hv hi

/-- intermediate form: after the ops (before `finish`) the window represents the ideal history and
the sink holds its completed laps -/
theorem runOps_inv {ops : List WinOp} {d m : Nat} {s0 : Sink} {H' : Bytes} (hd : 0 < d)
    (hs : s0.Perfect) (hv : ∀ op ∈ ops, op.Valid) (hi : idealOps d ops [] = some H')
    (hm : min H'.length d ≤ m) :
    ∃ w', Circ.runOps ops (Circ.fromStream d m) s0 = (s0.after d [] H', .ok w') ∧ CircInv w' H' ∧
      (s0.after d [] H').out = s0.out ++ (H'.take (H'.length - H'.length % d)).toArray := by
  obtain ⟨w', e1, e2, _, _⟩ := Circ.runOps_fromStream_ok (s := s0) hd hs hv
    ((idealRunM_eq_true_iff (m := m) (by simp)).2 ⟨hi, hm⟩)
  exact ⟨w', e1, e2, Sink.after_nil_out s0 d H'⟩

example :
    (∀ op ∈ [WinOp.lit 1, .lit 2, .lz 5 2], op.Valid) ∧
    idealOps 3 [.lit 1, .lit 2, .lz 5 2] [] = some [1, 2, 1, 2, 1, 2, 1] ∧
    Circ.runAll [.lit 1, .lit 2, .lz 5 2] 3 3 {} =
      ({ out := #[1, 2, 1, 2, 1, 2, 1], writes := 3, flushes := 1, lastFlush := true }, .ok ()) := by
  decide +kernel

/-- without `Valid` (a `dist = 0` op) the refinement fails: the concrete window accepts -/
example :
    idealOps 4 [.lz 2 0] [] = none ∧
    Circ.runAll [.lz 2 0] 4 4 {} =
      ({ out := #[0, 0], writes := 1, flushes := 1, lastFlush := true }, .ok ()) := by
  decide +kernel

/-! ### 7. the accumulating window (LZMA2) -/

theorem accum_fromStream_inv (m : Nat) : AccumInv (Accum.fromStream m) [] :=
  Accum.fromStream_inv m

theorem accum_lastN_spec {w : Accum} {H : Bytes} {dist : Nat} (h : AccumInv w H)
    (h1 : 1 ≤ dist) :
    w.lastN dist =
      if hg : dist ≤ H.length then .ok (H[H.length - dist]'(by omega)) else .error .lzma :=
  Accum.lastN_spec h h1

theorem accum_lastOr_spec {w : Accum} {H : Bytes} (b : UInt8) (h : AccumInv w H) :
    w.lastOr b = .ok (H.getLast?.getD b) :=
  Accum.lastOr_spec b h

/-- `append_literal`: the only operation of the accumulating window that looks at `memlimit`
(it compares `len + 1`, the bytes since the last reset); any sink, untouched -/
theorem accum_appendLiteral_spec {w : Accum} {H : Bytes} (b : UInt8) (s : Sink)
    (h : AccumInv w H) :
    (H.length + 1 ≤ w.memlimit →
      ∃ w', w.appendLiteral b s = (s, .ok w') ∧ AccumInv w' (H ++ [b]) ∧
        w'.memlimit = w.memlimit) ∧
    (¬ H.length + 1 ≤ w.memlimit → w.appendLiteral b s = (s, .error .lzma)) := by
  rw [Accum.appendLiteral_spec b s h]
  refine ⟨fun hm => ?_, fun hm => by rw [if_neg hm]⟩
  rw [if_pos hm]
  exact ⟨_, rfl, Accum.appendLiteral_inv b h, rfl⟩

/-- `append_lz`: guard `dist ≤ H.length`, overlapping copy, no memory-limit check, no panic,
any sink, untouched -/
theorem accum_appendLz_spec {w : Accum} {H : Bytes} (len : Nat) {dist : Nat} (s : Sink)
    (h : AccumInv w H) (h1 : 1 ≤ dist) :
    (dist ≤ H.length →
      ∃ w', w.appendLz len dist s = (s, .ok w') ∧ AccumInv w' (H ++ lzCopy H dist len) ∧
        w'.memlimit = w.memlimit) ∧
    (¬ dist ≤ H.length → w.appendLz len dist s = (s, .error .lzma)) := by
  rw [Accum.appendLz_spec len s h h1]
  refine ⟨fun hm => ?_, fun hm => by rw [if_neg hm]⟩
  rw [if_pos hm]
  exact ⟨_, rfl, Accum.appendLz_inv len dist h, rfl⟩

theorem accum_appendBytes_spec {w : Accum} {H : Bytes} (bs : Bytes) (h : AccumInv w H) :
    AccumInv (w.appendBytes bs) (H ++ bs) ∧ (w.appendBytes bs).memlimit = w.memlimit :=
  ⟨Accum.appendBytes_inv bs h, rfl⟩

theorem accum_reset_spec {w : Accum} {H : Bytes} {s : Sink} (h : AccumInv w H)
    (hs : s.Perfect) :
    ∃ s' w', w.reset s = (s', .ok w') ∧ AccumInv w' [] ∧ w'.memlimit = w.memlimit ∧
      s'.Perfect ∧ s'.out = s.out ++ H.toArray := by
  obtain ⟨s', e1, e2, e3, e4⟩ := Accum.reset_spec h hs
  exact ⟨s', _, e1, e4, rfl, e2, e3⟩

theorem accum_finish_spec {w : Accum} {H : Bytes} {s : Sink} (h : AccumInv w H)
    (hs : s.Perfect) :
    ∃ s', w.finish s = (s', .ok ()) ∧ s'.Perfect ∧ s'.out = s.out ++ H.toArray ∧
      s'.lastFlush = true :=
  Accum.finish_spec h hs

/-- on the accumulating window `dist = 0` is an index-out-of-bounds panic (as in the Rust code);
unreachable from the decoder -/
theorem accum_dist_zero_panics (w : Accum) (n : Nat) (s : Sink) :
    w.lastN 0 = .error (.panic "lzbuffer: index out of bounds") ∧
    w.appendLz (n + 1) 0 s = (s, .error (.panic "lzbuffer: index out of bounds")) :=
  ⟨Accum.lastN_zero, Accum.appendLz_zero n s⟩

example : AccumInv { buf := #[1, 2], memlimit := 10, len := 2 } [1, 2] := ⟨rfl, rfl⟩

example :
    (Accum.appendLz { buf := #[1, 2], memlimit := 10, len := 2 } 5 2 {}).2.toOption.map (·.buf) =
      some #[1, 2, 1, 2, 1, 2, 1] ∧
    (Accum.appendLz { buf := #[1, 2], memlimit := 10, len := 2 } 5 3 {}).2 = .error .lzma := by
  decide +kernel

/-! ### stretch: `Circ` agrees with the ideal window on all five `LzBuf` operations -/

theorem circ_sim_ideal {w : Circ} {i : IdealWin} (h : WinSim w i) :
    LzBuf.len w = LzBuf.len i ∧
    (∀ b, LzBuf.lastOr w b = LzBuf.lastOr i b) ∧
    (∀ dist, 1 ≤ dist → LzBuf.lastN w dist = LzBuf.lastN i dist) ∧
    (∀ b s, s.Perfect →
      WinSimM (LzBuf.appendLiteral w b s) (LzBuf.appendLiteral i b s) ∧
        (LzBuf.appendLiteral w b s).1.Perfect) ∧
    (∀ len dist s, 1 ≤ dist → s.Perfect →
      WinSimM (LzBuf.appendLz w len dist s) (LzBuf.appendLz i len dist s) ∧
        (LzBuf.appendLz w len dist s).1.Perfect) :=
  ⟨h.len, h.lastOr, fun _ h1 => h.lastN h1, fun b _ hs => h.appendLiteral b hs,
    fun len _ _ h1 hs => h.appendLz len h1 hs⟩

theorem sim_fromStream {d : Nat} (m : Nat) (hd : 0 < d) :
    WinSim (Circ.fromStream d m) { dictSize := d, memlimit := m } :=
  WinSim.fromStream m hd

end Lzma.C09
