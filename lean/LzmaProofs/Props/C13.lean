/-
  C13 — results do not depend on how the input reader fragments its data.

  `FRd` (LzmaModel/FReader.lean) is a `BufRead` that exposes its data in arbitrary
  non-empty pieces; its primitives are written from the std semantics of
  `fill_buf`/`consume`/`read`/`read_exact`/byteorder/`io::Take` and from
  `decode/util.rs`.  Every primitive the decoders use returns, on ANY fragmentation
  of the same bytes, the value the flat model reader `Rd` returns, and leaves the
  same logical remainder (`fr'.toRd = rd'`, hence the same number of bytes consumed).

  What ties "the decoders use only these primitives" to the Rust source is the static
  call-site audit and the differential tests, not a proof.
-/
import LzmaProofs.Lemmas.FReader
namespace Lzma.C13
open Lzma FRd

/-! ## What "corresponds" means -/

/-- `x` (computed on a fragmented reader) and `y` (computed on the flat reader)
correspond: each success is matched by a success with the SAME value and the same
logical remainder (`fr'.toRd = rd'`, the fragmented remainder again without empty
piece); errors are identical (same class: `.eof` / `.io` / …). -/
def Corr (x : Except Err (α × FRd)) (y : Except Err (α × Rd)) : Prop :=
  (∀ v fr', x = .ok (v, fr') → fr'.WF ∧ y = .ok (v, fr'.toRd)) ∧
  (∀ v rd', y = .ok (v, rd') → ∃ fr', x = .ok (v, fr') ∧ fr'.WF ∧ fr'.toRd = rd') ∧
  (∀ e, x = .error e ↔ y = .error e)

/-- `Corr` is exactly the relation `RelE SimV` the lemmas are proved for -/
theorem corr_iff {x : Except Err (α × FRd)} {y : Except Err (α × Rd)} :
    Corr x y ↔ RelE SimV x y := by
  rw [RelE_iff]
  constructor
  · rintro ⟨h1, h2, h3⟩
    refine ⟨?_, ?_, h3⟩
    · rintro ⟨v, fr'⟩ hx
      obtain ⟨hw, hy⟩ := h1 v fr' hx
      exact ⟨(v, fr'.toRd), hy, rfl, hw, rfl⟩
    · rintro ⟨v, rd'⟩ hy
      obtain ⟨fr', hx, hw, ht⟩ := h2 v rd' hy
      exact ⟨(v, fr'), hx, rfl, hw, ht⟩
  · rintro ⟨h1, h2, h3⟩
    refine ⟨?_, ?_, h3⟩
    · intro v fr' hx
      obtain ⟨⟨v', rd'⟩, hy, hv, hw, ht⟩ := h1 (v, fr') hx
      simp only at hv ht
      subst hv
      subst ht
      exact ⟨hw, hy⟩
    · intro v rd' hy
      obtain ⟨⟨v', fr'⟩, hx, hv, hw, ht⟩ := h2 (v, rd') hy
      simp only at hv ht
      subst hv
      exact ⟨fr', hx, hw, ht⟩

/-- corresponding successes have consumed the same number of bytes -/
theorem Corr.consumed_eq {x : Except Err (α × FRd)} {y : Except Err (α × Rd)} (h : Corr x y)
    {v w fr' rd'} (hx : x = .ok (v, fr')) (hy : y = .ok (w, rd')) :
    v = w ∧ fr'.join.length = rd'.rem.length := by
  obtain ⟨_, hy'⟩ := h.1 v fr' hx
  rw [hy] at hy'
  cases hy'
  exact ⟨rfl, rfl⟩

/-- two fragmentations whose results correspond to the same flat result agree with
each other: same value, same logical remainder, same error -/
theorem Corr.independent {x x' : Except Err (α × FRd)} {y : Except Err (α × Rd)}
    (h : Corr x y) (h' : Corr x' y) :
    RelE (fun a b => a.1 = b.1 ∧ a.2.toRd = b.2.toRd) x x' := by
  refine RelE.join (corr_iff.1 h) (corr_iff.1 h') ?_
  rintro a b c ⟨a1, _, a2⟩ ⟨b1, _, b2⟩
  exact ⟨a1.trans b1.symm, a2.trans b2.symm⟩

/-! ## `freader_primitives` -/

/-- **C13, the primitives.**  For every reader `fr` without empty piece (any pieces,
any end kind `bad`), each primitive behaves on `fr` as on the flat reader `fr.toRd`:
`fill_buf` (fails iff the flat one fails; exposes a prefix of the remaining bytes,
empty exactly at EOF), `is_eof`, `read_exact n`, `read_u8`, `read_u16/u32 BE`,
`read_u32/u64 LE`, `read_tag`.  (`consume`, `read`, `flush_zero_padding`, `take`
have their own theorems below.)  For `read_exact`/`read_uN` failures the flat model
does not say how many bytes were consumed; the statement is: success-equivalence with
equal value and remainder, and equal errors. -/
theorem freader_primitives (fr : FRd) (hwf : fr.WF) :
    ((∀ e, fr.fillBuf = .error e ↔ fr.toRd.fillBuf = .error e) ∧
     (∀ piece, fr.fillBuf = .ok piece →
        fr.toRd.fillBuf = .ok () ∧ (∃ t, fr.join = piece ++ t) ∧ (piece = [] ↔ fr.join = []))) ∧
    fr.isEof = fr.toRd.isEof ∧
    (∀ n, Corr (fr.readExact n) (fr.toRd.readExact n)) ∧
    Corr fr.readU8 fr.toRd.readU8 ∧
    Corr fr.readU16BE fr.toRd.readU16BE ∧
    Corr fr.readU32BE fr.toRd.readU32BE ∧
    Corr fr.readU32LE fr.toRd.readU32LE ∧
    Corr fr.readU64LE fr.toRd.readU64LE ∧
    (∀ tag, Corr (fr.readTag tag) (fr.toRd.readTag tag)) := by
  have hs := Sim.self hwf
  refine ⟨fillBuf_spec hwf, ?_, fun n => corr_iff.2 (readExact_sim hs n),
    corr_iff.2 (readU8_sim hs), corr_iff.2 (readU16BE_sim hs), corr_iff.2 (readU32BE_sim hs),
    corr_iff.2 (readU32LE_sim hs), corr_iff.2 (readU64LE_sim hs),
    fun tag => corr_iff.2 (readTag_sim hs tag)⟩
  have h := isEof_sim hs
  revert h
  cases fr.isEof <;> cases fr.toRd.isEof <;> simp [RelE]

/-- `consume n` within the exposed piece drops `n` bytes of the logical content -/
theorem consume_corr (fr : FRd) (hwf : fr.WF) {piece : Bytes} (hp : fr.fillBuf = .ok piece)
    {n : Nat} (hn : n ≤ piece.length) :
    (fr.consume n).WF ∧
    (fr.consume n).toRd = { fr.toRd with rem := fr.toRd.rem.drop n } :=
  consume_sim (Sim.self hwf) hp hn

/-- One raw `read` call with a buffer of `cap` bytes (the only primitive whose VALUE
depends on the fragmentation — short reads): it returns a prefix of the remaining
bytes of length `≤ cap`, consumes exactly that prefix, returns nothing only for
`cap = 0` or at EOF, and fails exactly at the end of a `bad` reader. -/
theorem read_corr (fr : FRd) (hwf : fr.WF) (cap : Nat) :
    (∀ bs fr', fr.read cap = .ok (bs, fr') →
      fr'.WF ∧ fr'.bad = fr.bad ∧ fr.join = bs ++ fr'.join ∧ bs.length ≤ cap ∧
      (bs = [] ↔ cap = 0 ∨ fr.join = [])) ∧
    (∀ e, fr.read cap = .error e ↔ (fr.join = [] ∧ fr.bad = true ∧ e = .io)) :=
  ⟨fun _ _ h => read_ok hwf h, fun _ => read_error hwf⟩

/-- **`flush_zero_padding`**: the verdict (and any error) is the same as on the flat
reader.  When it is `true` the remainders agree.  When it is `false` the fragmented
reader may have consumed leading all-zero PIECES before it met a non-zero byte in a
later piece, so its remainder is the flat remainder minus a prefix of zero bytes
(in particular a suffix of it).  (lzma-rs turns `false` into an error at once.) -/
theorem flushZeroPadding_corr (fr : FRd) (hwf : fr.WF) :
    (∀ e, fr.flushZeroPadding = .error e ↔ fr.toRd.flushZeroPadding = .error e) ∧
    (∀ b fr', fr.flushZeroPadding = .ok (b, fr') →
      ∃ rd', fr.toRd.flushZeroPadding = .ok (b, rd') ∧ fr'.WF ∧ fr'.bad = rd'.bad ∧
        (b = true → fr'.toRd = rd') ∧
        (b = false → fr'.join <:+ rd'.rem ∧
          ∃ zs : Bytes, zs.all (· == 0) = true ∧ rd'.rem = zs ++ fr'.join)) ∧
    (∀ b rd', fr.toRd.flushZeroPadding = .ok (b, rd') →
      ∃ fr', fr.flushZeroPadding = .ok (b, fr')) := by
  have h := flushZeroPadding_sim (Sim.self hwf)
  rw [RelE_iff] at h
  obtain ⟨h1, h2, h3⟩ := h
  refine ⟨h3, ?_, ?_⟩
  · intro b fr' hx
    obtain ⟨⟨b', rd'⟩, hy, hb, hw, hbad, ht, hf⟩ := h1 (b, fr') hx
    simp only at hb hw hbad ht hf
    subst hb
    refine ⟨rd', hy, hw, hbad, ht, fun hb => ?_⟩
    obtain ⟨zs, hz, hr⟩ := hf hb
    exact ⟨⟨zs, hr.symm⟩, zs, hz, hr⟩
  · intro b rd' hy
    obtain ⟨⟨b', fr'⟩, hx, hb, _⟩ := h2 (b, rd') hy
    simp only at hb
    subst hb
    exact ⟨fr', hx⟩

/-- the `false` case really leaves different remainders (zeros consumed piecewise) -/
example :
    (FRd.mk [[0], [0, 0], [4]] false).flushZeroPadding = .ok (false, FRd.mk [[4]] false) ∧
    (FRd.mk [[0], [0, 0], [4]] false).toRd.flushZeroPadding =
      .ok (false, { rem := [0, 0, 0, 4], bad := false }) := by
  constructor
  · simp [FRd.flushZeroPadding, FRd.consume]
  · rfl

/-- **`take`** (`io::Take`) corresponds to `Rd.split`, `unsplit` to `Rd.unsplit`. -/
theorem take_corr (fr : FRd) (hwf : fr.WF) (n : Nat) :
    (fr.take n).1.WF ∧ (fr.take n).1.toRd = (fr.toRd.split n).1 ∧
    (∀ f ∈ (fr.take n).2, f ≠ []) ∧ (fr.take n).2.flatten = (fr.toRd.split n).2 := by
  obtain ⟨⟨h1, h2⟩, h3, h4⟩ := take_sim (Sim.self hwf) n
  exact ⟨h1, h2, h4, h3⟩

theorem unsplit_corr (fr inner : FRd) (hwf : fr.WF) (hiwf : inner.WF) (rest : List Bytes)
    (hrest : ∀ f ∈ rest, f ≠ []) :
    (fr.unsplit inner rest).WF ∧
    (fr.unsplit inner rest).toRd = fr.toRd.unsplit inner.toRd rest.flatten :=
  unsplit_sim (Sim.self hwf) (Sim.self hiwf) hrest

/-- `take` then `unsplit` of the untouched sub-reader gives the same logical reader back -/
theorem take_unsplit (fr : FRd) (hwf : fr.WF) (n : Nat) :
    (fr.unsplit (fr.take n).1 (fr.take n).2).toRd = fr.toRd := by
  obtain ⟨h1, h2, h3, h4⟩ := take_corr fr hwf n
  rw [(unsplit_corr fr _ hwf h1 _ h3).2, h2, h4]
  simp [Rd.unsplit, Rd.split, toRd]

/-- **std's `io::Take` is that sub-reader**: `Take { inner, limit }` with std's own
`fill_buf`/`consume`/`read` is indistinguishable from `(inner.take limit).1`, and the
bytes beyond the limit are never touched. -/
theorem take_std (t : FTake) (hwf : t.inner.WF) :
    t.fillBuf = t.view.fillBuf ∧
    (∀ piece n, t.fillBuf = .ok piece → n ≤ piece.length →
      (t.consume n).view = t.view.consume n ∧ (t.consume n).inner.WF ∧
      (t.consume n).inner.join.drop (t.consume n).limit = t.inner.join.drop t.limit) ∧
    (∀ cap,
      (∀ bs t', t.read cap = .ok (bs, t') →
        t.view.read cap = .ok (bs, t'.view) ∧ t'.inner.WF ∧
        t'.inner.join.drop t'.limit = t.inner.join.drop t.limit) ∧
      (∀ e, t.read cap = .error e ↔ t.view.read cap = .error e) ∧
      (∀ bs v, t.view.read cap = .ok (bs, v) → ∃ t', t.read cap = .ok (bs, t') ∧ t'.view = v)) := by
  refine ⟨FTake.view_fillBuf t, fun piece n hp hn => FTake.view_consume t hwf hp hn, fun cap => ?_⟩
  have h := FTake.view_read t hwf cap
  rw [RelE_iff] at h
  obtain ⟨h1, h2, h3⟩ := h
  refine ⟨?_, h3, ?_⟩
  · intro bs t' hx
    obtain ⟨⟨bs', v⟩, hy, hb, hv, hw, hd⟩ := h1 (bs, t') hx
    simp only at hb hv hw hd
    subst hb; subst hv
    exact ⟨hy, hw, hd⟩
  · intro bs v hy
    obtain ⟨⟨bs', t'⟩, hx, hb, hv, _⟩ := h2 (bs, v) hy
    simp only at hb hv
    subst hb
    exact ⟨t', hx, hv⟩

/-! ## Lifting: code built from the primitives -/

/-- **Lifting lemma.**  If `f fr` and `g rd` correspond and the continuations
correspond whenever their arguments do (same value, `fr'.toRd = rd'`), then the
binds correspond.  Together with `freader_primitives` this lifts every function
written as `Except` binds over the primitives. -/
theorem bind_corr {x : Except Err (α × FRd)} {y : Except Err (α × Rd)}
    {f : α × FRd → Except Err (β × FRd)} {g : α × Rd → Except Err (β × Rd)}
    (hxy : Corr x y)
    (hfg : ∀ v fr', fr'.WF → Corr (f (v, fr')) (g (v, fr'.toRd))) :
    Corr (x >>= f) (y >>= g) := by
  rw [corr_iff] at hxy ⊢
  refine RelE.bind hxy ?_
  rintro ⟨v, fr'⟩ ⟨v', rd'⟩ ⟨hv, hw, ht⟩
  simp only at hv hw ht
  subst hv; subst ht
  exact corr_iff.1 (hfg v fr' hw)

/-- the general form, for arbitrary result relations (used for `flush_zero_padding`,
tuples, and the generic range decoder) -/
theorem bind_rel {R : α → β → Prop} {S : γ → δ → Prop}
    {x : Except Err α} {y : Except Err β} {f : α → Except Err γ} {g : β → Except Err δ}
    (hxy : RelE R x y) (hfg : ∀ a b, R a b → RelE S (f a) (g b)) :
    RelE S (x >>= f) (y >>= g) := RelE.bind hxy hfg

/-- `get_multibyte` (xz) over the fragmented reader = over the flat reader: same
value, same bytes fed to the digest, same remainder, same error. -/
theorem getMultibyte_corr (fr : FRd) (hwf : fr.WF) :
    Corr (α := Nat × Bytes)
      (fr.getMultibyte.map fun (v, bs, r) => ((v, bs), r))
      ((Lzma.getMultibyte fr.toRd).map fun (v, bs, r) => ((v, bs), r)) := by
  rw [corr_iff]
  have h := getMultibyte_sim (Sim.self hwf)
  revert h
  cases fr.getMultibyte <;> cases Lzma.getMultibyte fr.toRd <;> simp only [RelE, Except.map]
  · exact id
  · exact id
  · exact id
  · rintro ⟨h1, h2, h3⟩
    rename_i a b
    obtain ⟨v, bs, r⟩ := a
    obtain ⟨v', bs', r'⟩ := b
    simp only at h1 h2 h3
    subst h1; subst h2
    exact ⟨rfl, h3⟩

/-- the range-decoder functions written over the abstract byte source are, at the
flat reader, literally the model's functions -/
theorem generic_at_Rd :
    RC.newG (ρ := Rd) = RC.new ∧ RC.normalizeG (ρ := Rd) = RC.normalize ∧
    RC.getBitG (ρ := Rd) = RC.getBit ∧ RC.decodeBitG (ρ := Rd) = RC.decodeBit ∧
    RC.isFinishedOkG (ρ := Rd) = RC.isFinishedOk :=
  ⟨rfl, rfl, rfl, rfl, rfl⟩

theorem runDecG_at_Rd [ProbStore σ ι] (update : Bool) (c : Coder ι α) (s : σ) (rc : RC) (rd : Rd) :
    runDecG update c s rc rd = runDec update c s rc rd := runDecG_Rd update c s rc rd

/-- `RangeDecoder::new` / `normalize` / `get_bit` / `decode_bit` / `is_finished_ok`
on a fragmented reader correspond to the model's functions on the flat reader. -/
theorem rc_corr (fr : FRd) (hwf : fr.WF) :
    Corr (RC.newG fr) (RC.new fr.toRd) ∧
    (∀ rc, Corr (RC.normalizeG rc fr) (RC.normalize rc fr.toRd)) ∧
    (∀ rc, RelE (RelV (RelV Sim)) (RC.getBitG rc fr) (RC.getBit rc fr.toRd)) ∧
    (∀ update p rc, RelE (RelV (RelV (RelV Sim)))
        (RC.decodeBitG update p rc fr) (RC.decodeBit update p rc fr.toRd)) ∧
    (∀ rc, RC.isFinishedOkG rc fr = RC.isFinishedOk rc fr.toRd) := by
  have hs := Sim.self hwf
  refine ⟨corr_iff.2 (RC.newG_rel FRd.byteSrcRel hs),
    fun rc => corr_iff.2 (RC.normalizeG_rel FRd.byteSrcRel rc hs),
    fun rc => RC.getBitG_rel FRd.byteSrcRel rc hs,
    fun u p rc => RC.decodeBitG_rel FRd.byteSrcRel u p rc hs, fun rc => ?_⟩
  have h := RC.isFinishedOkG_rel FRd.byteSrcRel rc hs
  rw [RC.isFinishedOkG_Rd] at h
  revert h
  cases RC.isFinishedOkG rc fr <;> cases RC.isFinishedOk rc fr.toRd <;> simp [RelE]

/-- **The range-decoder interpreter on a fragmented reader**: `runDecF` (same
recursion as `runDec`, reading through `FRd.readU8`) succeeds iff `runDec` on the
flat reader does, with the same decoded value, probability store and coder state,
the same logical remainder, and the same error otherwise. -/
theorem runDecF_corr [ProbStore σ ι] (update : Bool) (c : Coder ι α) (s : σ) (rc : RC)
    (fr : FRd) (hwf : fr.WF) :
    (∀ a s' rc' fr', runDecF update c s rc fr = .ok (a, s', rc', fr') →
      fr'.WF ∧ runDec update c s rc fr.toRd = .ok (a, s', rc', fr'.toRd)) ∧
    (∀ a s' rc' rd', runDec update c s rc fr.toRd = .ok (a, s', rc', rd') →
      ∃ fr', runDecF update c s rc fr = .ok (a, s', rc', fr') ∧ fr'.WF ∧ fr'.toRd = rd') ∧
    (∀ e, runDecF update c s rc fr = .error e ↔ runDec update c s rc fr.toRd = .error e) := by
  have h := runDecF_sim update c s rc (Sim.self hwf)
  rw [RelE_iff] at h
  obtain ⟨h1, h2, h3⟩ := h
  refine ⟨?_, ?_, h3⟩
  · intro a s' rc' fr' hx
    obtain ⟨⟨a', s'', rc'', rd'⟩, hy, e1, e2, e3, hw, ht⟩ := h1 _ hx
    simp only at e1 e2 e3 hw ht
    subst e1; subst e2; subst e3; subst ht
    exact ⟨hw, hy⟩
  · intro a s' rc' rd' hy
    obtain ⟨⟨a', s'', rc'', fr'⟩, hx, e1, e2, e3, hw, ht⟩ := h2 _ hy
    simp only at e1 e2 e3 hw ht
    subst e1; subst e2; subst e3
    exact ⟨fr', hx, hw, ht⟩

/-- Consequently two fragmentations of the same bytes (same end kind) give the same
range-decoder run: same value, store, coder state, same remaining bytes, same error. -/
theorem runDecF_fragmentation_independent [ProbStore σ ι] (update : Bool) (c : Coder ι α)
    (s : σ) (rc : RC) (fr₁ fr₂ : FRd) (h₁ : fr₁.WF) (h₂ : fr₂.WF) (hsame : fr₁.toRd = fr₂.toRd) :
    RelE (fun x y => x.1 = y.1 ∧ x.2.1 = y.2.1 ∧ x.2.2.1 = y.2.2.1 ∧
        x.2.2.2.toRd = y.2.2.2.toRd)
      (runDecF update c s rc fr₁) (runDecF update c s rc fr₂) := by
  have a := runDecF_sim update c s rc (Sim.self h₁)
  have b := runDecF_sim update c s rc (Sim.self h₂)
  rw [hsame] at a
  refine RelE.join a b ?_
  rintro x y z ⟨a1, a2, a3, _, a4⟩ ⟨b1, b2, b3, _, b4⟩
  exact ⟨a1.trans b1.symm, a2.trans b2.symm, a3.trans b3.symm, a4.trans b4.symm⟩

/-! ## Known finding K2 -/

/-- **K2 witness.**  `read_block` parses the block header through
`BufReader::new(CrcDigestRead(Take(header_size)))`.  The `BufReader`'s first refill
is ONE underlying `read`, which gets at most the current piece (`bufFill`); when the
header parse then fails (here: reserved flag bits set) the read-ahead is abandoned.
Two fragmentations of the same 20 bytes, header size 11: the verdict is the same
(error), but the caller's reader has consumed 11 bytes in one case and 1 in the
other. -/
theorem k2_witness :
    ∃ fr₁ fr₂ r₁ r₂ : FRd, fr₁.WF ∧ fr₂.WF ∧ fr₁.toRd = fr₂.toRd ∧
      fr₁.k2Probe 11 = .ok (true, r₁) ∧ fr₂.k2Probe 11 = .ok (true, r₂) ∧
      fr₁.join.length - r₁.join.length = 11 ∧ fr₂.join.length - r₂.join.length = 1 :=
  ⟨FRd.mk [[0x3C, 1, 2, 3, 4, 5, 6, 7, 8, 9, 10, 11, 12, 13, 14, 15, 16, 17, 18, 19]] false,
   FRd.mk [[0x3C], [1, 2, 3, 4, 5, 6, 7, 8, 9, 10, 11, 12, 13, 14, 15, 16, 17, 18, 19]] false,
   FRd.mk [[11, 12, 13, 14, 15, 16, 17, 18, 19]] false,
   FRd.mk [[1, 2, 3, 4, 5, 6, 7, 8, 9, 10], [11, 12, 13, 14, 15, 16, 17, 18, 19]] false,
   by decide, by decide, rfl, rfl, rfl, rfl, rfl⟩

/-- the read-ahead itself is fragmentation dependent only in HOW MUCH it pulls:
what it pulls is a prefix of the remaining bytes, never beyond `cap` -/
theorem bufFill_corr (fr : FRd) (hwf : fr.WF) (cap : Nat) :
    (∀ buf fr', fr.bufFill cap = .ok (buf, fr') →
      fr'.WF ∧ fr'.bad = fr.bad ∧ fr.join = buf ++ fr'.join ∧ buf.length ≤ cap ∧
      (buf = [] ↔ cap = 0 ∨ fr.join = [])) ∧
    (∀ e, fr.bufFill cap = .error e ↔ (fr.join = [] ∧ fr.bad = true ∧ e = .io)) :=
  read_corr fr hwf cap

/-! ## Non-vacuity -/

/-- the running example: three pieces, none empty -/
def ex : FRd := { frags := [[1], [2, 3], [4]] }

example : ex.WF := by decide
example : ex.toRd = { rem := [1, 2, 3, 4], bad := false } := rfl
example : (ofFrags [[1], [], [2, 3], [], [4]]).WF ∧ ofFrags [[1], [], [2, 3], [], [4]] = ex :=
  ⟨WF_ofFrags _ _, rfl⟩

/-- `read_exact 3` crosses two piece boundaries and stops inside none -/
example : ex.readExact 3 = .ok ([1, 2, 3], { frags := [[4]] }) ∧
    ex.toRd.readExact 3 = .ok ([1, 2, 3], { rem := [4] }) := by
  constructor
  · simp [ex, FRd.readExact, FRd.read, FRd.fillBuf, FRd.consume]
  · rfl

/-- one `read` never crosses a piece boundary -/
example : ex.read 3 = .ok ([1], { frags := [[2, 3], [4]] }) := rfl

/-- `read_u32` big-endian across all three pieces; via the theorem -/
example : ∃ fr', ex.readU32BE = .ok (0x01020304, fr') ∧ fr'.join = [] := by
  obtain ⟨_, _, _, _, _, h, _⟩ := freader_primitives ex (by decide)
  obtain ⟨fr', h1, _, h2⟩ := h.2.1 0x01020304 { rem := [] } rfl
  exact ⟨fr', h1, by simpa [toRd] using congrArg Rd.rem h2⟩

/-- failure at the end: `.eof` for a good reader, `.io` for a `bad` one — on both sides -/
example : ex.readExact 5 = .error .eof ∧ ex.toRd.readExact 5 = .error .eof ∧
    ({ ex with bad := true } : FRd).readExact 5 = .error .io ∧
    ({ ex with bad := true } : FRd).toRd.readExact 5 = .error .io := by
  refine ⟨?_, rfl, ?_, rfl⟩ <;>
    simp [ex, FRd.readExact, FRd.read, FRd.fillBuf, FRd.consume]

/-- `take 2` cuts inside the second piece -/
example : ex.take 2 = ({ frags := [[1], [2]] }, [[3], [4]]) ∧
    ex.toRd.split 2 = ({ rem := [1, 2], bad := false }, [3, 4]) := ⟨rfl, rfl⟩

/-- `is_eof` at a piece boundary: after consuming the first piece the next one is exposed -/
example : (ex.consume 1).isEof = .ok false ∧ (ex.consume 1).fillBuf = .ok [2, 3] := ⟨rfl, rfl⟩

/-- `get_multibyte` with a continuation byte in one piece and the last byte in the next -/
example : (FRd.mk [[0x81], [0x01, 7]] false).getMultibyte =
      .ok (0x81, [0x81, 0x01], FRd.mk [[7]] false) ∧
    Lzma.getMultibyte { rem := [0x81, 0x01, 7] } = .ok (0x81, [0x81, 0x01], { rem := [7] }) := by
  constructor
  · simp [FRd.getMultibyte, FRd.getMultibyteAux, FRd.readU8, FRd.readExact, FRd.read,
      FRd.fillBuf, FRd.consume, bind, Except.bind, pure, Except.pure]
  · rfl

end Lzma.C13
