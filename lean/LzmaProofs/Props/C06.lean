/-
  C06 — XZ integrity: `xz_decompress` reports success only if every integrity field of the
  file agrees with the decoded data.

  The container grammar (`XzFile`, `XzFile.Valid`, `XzBlock.Valid`, `XzIndex.Valid`, `MbInt`,
  `BlockDecodes`) is defined in `LzmaProofs/Lemmas/XzInv.lean` as an independent description of
  the file layout; the theorems below say that a successful run of the decoder model
  `xzDecompress` on ANY byte string `x` forces `x` to have that layout with every check satisfied.
  `crc32` / `crc64` stay opaque.
-/
import LzmaProofs.Lemmas.XzInv
namespace Lzma.C06
open Lzma

/-- **C06, main theorem.**  For every byte string `x` and every sink `s` (perfect or
faulty: any script of short writes / failures): if
`xz_decompress` succeeds then `x` is a valid single-stream `.xz` file — header, blocks, index,
footer, nothing after the footer — with every integrity field correct (`XzFile.Valid`), the reader
is at end of input, and the sink received exactly the concatenation of the blocks' contents. -/
theorem xz_success_implies_checks (x : Bytes) (s s' : Sink) (rd' : Rd)
    (h : xzDecompress (Rd.ofBytes x) s = (s', .ok rd')) :
    ∃ (check : CheckMethod) (blocks : List XzBlock),
      XzParses x check blocks ∧ rd'.rem = [] ∧
      s'.out = s.out ++ (blocks.flatMap (·.out)).toArray := by
  obtain ⟨f, hv, hx, hr, -, ho⟩ := xzDecompress_ok h
  exact ⟨f.check, f.blocks, ⟨f, rfl, rfl, hv, hx⟩, hr, ho⟩

/-- the same with the file structure exposed -/
theorem xz_success_file (x : Bytes) (s s' : Sink) (rd' : Rd)
    (h : xzDecompress (Rd.ofBytes x) s = (s', .ok rd')) :
    ∃ f : XzFile, f.Valid ∧ x = f.bytes ∧ rd'.rem = [] ∧ s'.out = s.out ++ f.out.toArray := by
  obtain ⟨f, hv, hx, hr, -, ho⟩ := xzDecompress_ok h
  exact ⟨f, hv, hx, hr, ho⟩

/-! ### The layers of `XzFile.Valid`, spelled out -/

/-- Layer 1 (stream header): magic, first flag byte 0, supported check id, CRC32 of the flags. -/
theorem xz_success_header (x : Bytes) (s s' : Sink) (rd' : Rd)
    (h : xzDecompress (Rd.ofBytes x) s = (s', .ok rd')) :
    ∃ (id : UInt8) (rest : Bytes), (id = 0x00 ∨ id = 0x01 ∨ id = 0x04) ∧
      x = XZ_MAGIC ++ [0, id] ++ leBytes 4 (crc32 [0, id]) ++ rest := by
  obtain ⟨f, hv, hx, -⟩ := xz_success_file x s s' rd' h
  refine ⟨UInt8.ofNat f.check.id, f.blocks.flatMap (·.bytes) ++ f.index.bytes ++ f.footer, ?_, ?_⟩
  · rcases hv.check_supported with h | h | h <;> rw [h] <;> simp [CheckMethod.id]
  · rw [hx]; simp [XzFile.bytes, XzFile.header, XzFile.flags]

/-- Layer 2 (stream footer and end of input): the file ends with
`crc32(backward_size ++ flags) ++ backward_size ++ flags ++ "YZ"`, the flags equal the header's,
`(backward_size + 1) * 4` is the real size of the index (over ℕ, no wrap-around), and the
decoder stopped at the very end of the input. -/
theorem xz_success_footer (x : Bytes) (s s' : Sink) (rd' : Rd)
    (h : xzDecompress (Rd.ofBytes x) s = (s', .ok rd')) :
    ∃ (f : XzFile) (pre : Bytes), x = f.bytes ∧
      x = pre ++ f.index.bytes ++
        (leBytes 4 (crc32 (f.backwardSize ++ [0, UInt8.ofNat f.check.id])) ++ f.backwardSize ++
          [0, UInt8.ofNat f.check.id] ++ [0x59, 0x5A]) ∧
      x.take 8 = XZ_MAGIC ++ [0, UInt8.ofNat f.check.id] ∧
      f.backwardSize.length = 4 ∧
      (leVal f.backwardSize + 1) * 4 = f.index.bytes.length ∧
      rd'.rem = [] := by
  obtain ⟨f, hv, hx, hr, -⟩ := xz_success_file x s s' rd' h
  refine ⟨f, f.header ++ f.blocks.flatMap (·.bytes), hx, ?_, ?_, hv.bs_len, hv.backward, hr⟩
  · rw [hx]; simp [XzFile.bytes, XzFile.footer, XzFile.flags, XZ_MAGIC_FOOTER]
  · rw [hx]; simp [XzFile.bytes, XzFile.header, XzFile.flags, XZ_MAGIC]

/-- Layer 3 (index): indicator 0, record count = number of blocks, one record per block with the
block's real unpadded and uncompressed sizes, zero padding to a multiple of four, CRC32. -/
theorem xz_success_index (x : Bytes) (s s' : Sink) (rd' : Rd)
    (h : xzDecompress (Rd.ofBytes x) s = (s', .ok rd')) :
    ∃ f : XzFile, x = f.bytes ∧
      f.index.bytes = 0 :: (f.index.countEnc ++ f.index.records ++ f.index.pad ++ f.index.crc) ∧
      MbInt f.index.countEnc f.blocks.length ∧
      MbPairs f.index.records
        (f.blocks.map fun b =>
          (1 + b.hdr.length + 4 + b.payload.length + b.check.length, b.out.length)) ∧
      f.index.pad = List.replicate
        (paddingSize (1 + f.index.countEnc.length + f.index.records.length)) 0 ∧
      f.index.crc =
        leBytes 4 (crc32 (0 :: (f.index.countEnc ++ f.index.records ++ f.index.pad))) := by
  obtain ⟨f, hv, hx, -⟩ := xz_success_file x s s' rd' h
  have hi := hv.index_valid
  exact ⟨f, hx, rfl, by simpa using hi.count, hi.records, hi.pad_eq, hi.crc_eq⟩

/-- Layer 4 (blocks): every block of the file satisfies every block-level check
(`XzBlock.Valid`: header size, header CRC32, reserved bits, filter list, declared sizes, zero
header padding, the payload decodes to `out` consuming exactly the payload, zero block padding,
check field = CRC32 / CRC64 of `out`). -/
theorem xz_success_blocks (x : Bytes) (s s' : Sink) (rd' : Rd)
    (h : xzDecompress (Rd.ofBytes x) s = (s', .ok rd')) :
    ∃ f : XzFile, x = f.bytes ∧ s'.out = s.out ++ (f.blocks.flatMap (·.out)).toArray ∧
      BlocksValid f.check f.blocks (f.index.bytes ++ f.footer) ∧
      ∀ b ∈ f.blocks, ∃ rest, b.Valid f.check rest := by
  obtain ⟨f, hv, hx, -, ho⟩ := xz_success_file x s s' rd' h
  exact ⟨f, hx, ho, hv.blocks_valid, BlocksValid.of_mem hv.blocks_valid⟩

/-- In particular: the decoded content of every block has the CRC stored in the file. -/
theorem xz_success_block_check (x : Bytes) (s s' : Sink) (rd' : Rd)
    (h : xzDecompress (Rd.ofBytes x) s = (s', .ok rd')) :
    ∃ f : XzFile, x = f.bytes ∧ s'.out = s.out ++ (f.blocks.flatMap (·.out)).toArray ∧
      ∀ b ∈ f.blocks,
        b.hdrCrc = leBytes 4 (crc32 (b.hsByte :: b.hdr)) ∧
        b.check = (match f.check with
          | .none => []
          | .crc32 => leBytes 4 (crc32 b.out)
          | .crc64 => leBytes 8 (crc64 b.out)
          | .sha256 => []) := by
  obtain ⟨f, hx, ho, -, hb⟩ := xz_success_blocks x s s' rd' h
  refine ⟨f, hx, ho, fun b hbm => ?_⟩
  obtain ⟨rest, hv⟩ := hb b hbm
  refine ⟨hv.hdr_crc, ?_⟩
  rw [hv.check_eq]
  cases f.check <;> rfl

/-! ### Non-vacuity -/

/-- `xz -C crc32` of `"hello"` (60 bytes, one block holding an uncompressed LZMA2 chunk) -/
def helloXz : Bytes :=
  [0xfd, 0x37, 0x7a, 0x58, 0x5a, 0x00, 0x00, 0x01, 0x69, 0x22, 0xde, 0x36,
   0x02, 0x00, 0x21, 0x01, 0x16, 0x00, 0x00, 0x00, 0x74, 0x2f, 0xe5, 0xa3,
   0x01, 0x00, 0x04, 0x68, 0x65, 0x6c, 0x6c, 0x6f, 0x00, 0x00, 0x00, 0x00,
   0x86, 0xa6, 0x10, 0x36,
   0x00, 0x01, 0x19, 0x05, 0xbc, 0xe8, 0xec, 0xcb,
   0x90, 0x42, 0x99, 0x0d, 0x01, 0x00, 0x00, 0x00, 0x00, 0x01, 0x59, 0x5a]

/-- the empty `.xz` file (32 bytes, no block) -/
def emptyXz : Bytes :=
  [0xfd, 0x37, 0x7a, 0x58, 0x5a, 0x00, 0x00, 0x01, 0x69, 0x22, 0xde, 0x36,
   0x00, 0x00, 0x00, 0x00, 0x1c, 0xdf, 0x44, 0x21,
   0x90, 0x42, 0x99, 0x0d, 0x01, 0x00, 0x00, 0x00, 0x00, 0x01, 0x59, 0x5a]

/-- Boolean test "the run succeeded with output `out`" (evaluated by the kernel, CRCs included) -/
def okWith (out : Bytes) (r : Sink × Except Err Rd) : Bool :=
  match r with
  | (s, .ok _) => s.out.toList == out
  | _ => false

theorem okWith_elim {out : Bytes} {r : Sink × Except Err Rd} (h : okWith out r = true) :
    ∃ s' rd', r = (s', .ok rd') ∧ s'.out.toList = out := by
  obtain ⟨s, e | a⟩ := r
  · simp [okWith] at h
  · exact ⟨s, a, rfl, by simpa [okWith] using h⟩

/-- the hypothesis of the theorems is satisfiable: a real file with one block … -/
example : ∃ s' rd', xzDecompress (Rd.ofBytes helloXz) {} = (s', .ok rd') ∧
    s'.out.toList = [0x68, 0x65, 0x6c, 0x6c, 0x6f] :=
  okWith_elim (by decide +kernel)

/-- … the same through a sink that accepts two bytes, then one byte, then everything … -/
example : ∃ s' rd', xzDecompress (Rd.ofBytes helloXz)
      { script := [.upto 2, .upto 1, .all] } = (s', .ok rd') ∧
    s'.out.toList = [0x68, 0x65, 0x6c, 0x6c, 0x6f] :=
  okWith_elim (by decide +kernel)

/-- … and the empty file -/
example : ∃ s' rd', xzDecompress (Rd.ofBytes emptyXz) {} = (s', .ok rd') ∧ s'.out.toList = [] :=
  okWith_elim (by decide +kernel)

/-- hence (by the theorem) `helloXz` has the grammar, with content `"hello"` -/
example : ∃ f : XzFile, f.Valid ∧ helloXz = f.bytes ∧ f.out = [0x68, 0x65, 0x6c, 0x6c, 0x6f] := by
  obtain ⟨s', rd', h, ho⟩ := okWith_elim (out := [0x68, 0x65, 0x6c, 0x6c, 0x6f])
    (r := xzDecompress (Rd.ofBytes helloXz) {}) (by decide +kernel)
  obtain ⟨f, hv, hx, -, hout⟩ := xz_success_file helloXz {} s' rd' h
  refine ⟨f, hv, hx, ?_⟩
  rw [hout] at ho
  simpa using ho

/-- a corrupted file (one payload byte changed) is not accepted -/
example : ∃ s' e, xzDecompress (Rd.ofBytes (helloXz.set 28 0x66)) {} = (s', .error e) := by
  have : (match xzDecompress (Rd.ofBytes (helloXz.set 28 0x66)) {} with
      | (_, .error _) => true | _ => false) = true := by decide +kernel
  revert this
  rcases xzDecompress (Rd.ofBytes (helloXz.set 28 0x66)) {} with ⟨s, e | a⟩
  · intro _; exact ⟨s, e, rfl⟩
  · simp

end Lzma.C06
