/-
  C03 — forward exactness of the XZ container decoder.

  Every file laid out according to the specification `buildXz` (any of the checks
  none / CRC32 / CRC64, any number of blocks, optional declared sizes, non-minimal multibyte
  integers, extra header padding) is accepted by `xzDecompress`, which writes exactly the
  concatenated block outputs and leaves the reader at end of file.  Relative to the LZMA2
  decoder by design: each payload is assumed to be decoded in place (`XzBlockSpec.Decodes`).
  `crc32` / `crc64` are used as opaque functions (only their ranges `< 2^32`, `< 2^64`).
-/
import LzmaProofs.Lemmas.XzFwd
namespace Lzma.C03

/-! ## multibyte integers -/

/-- every `n < 2^(7w)` written in exactly `w` bytes, `1 ≤ w ≤ 9` (so also every non-minimal
encoding), is read back exactly, and exactly its bytes are consumed and reported -/
theorem multibyte_roundtrip (w n : Nat) (r : Bytes) (b : Bool)
    (hw1 : 1 ≤ w) (hw9 : w ≤ 9) (hn : n < 2 ^ (7 * w)) :
    getMultibyte { rem := encodeMb w n ++ r, bad := b }
      = .ok (n, encodeMb w n, { rem := r, bad := b }) :=
  Lzma.multibyte_roundtrip w n r b hw1 hw9 hn

/-- every `n` of minimal width ≤ 9 (i.e. every `n < 2^63`, see `mbWidth_le_nine`) round-trips at each
width from its minimal one up to nine -/
theorem multibyte_widths (n w : Nat) (h1 : mbWidth n ≤ w) (h9 : w ≤ 9) :
    ∀ r b, getMultibyte { rem := encodeMb w n ++ r, bad := b }
      = .ok (n, encodeMb w n, { rem := r, bad := b }) := fun r b =>
  Lzma.multibyte_roundtrip w n r b (Nat.le_trans (mbWidth_pos n) h1) h9 (lt_of_mbWidth_le w n h1)

theorem mbWidth_le_nine (n : Nat) (hn : n < 2 ^ 63) : 1 ≤ mbWidth n ∧ mbWidth n ≤ 9 :=
  ⟨mbWidth_pos n, Lzma.mbWidth_le_nine n hn⟩

/-- the encoder's `write_multibyte` produces the minimal encoding … -/
theorem multibyteBytes_minimal (n : Nat) (h : n < 2 ^ 63) :
    multibyteBytes n = encodeMb (mbWidth n) n := multibyteBytes_eq n h

/-- … which `get_multibyte` reads back -/
theorem getMultibyte_multibyteBytes (n : Nat) (h : n < 2 ^ 63) (r : Bytes) (b : Bool) :
    getMultibyte { rem := multibyteBytes n ++ r, bad := b }
      = .ok (n, multibyteBytes n, { rem := r, bad := b }) :=
  Lzma.getMultibyte_multibyteBytes n h r b

/-- nine bytes that all carry the continuation bit (a nine-byte group whose last byte
continues; every encoding of ten or more bytes) are rejected -/
theorem multibyte_reject_long (l r : Bytes) (b : Bool) (hl : l.length = 9)
    (h : ∀ x ∈ l, x.toNat &&& 0x80 ≠ 0) :
    getMultibyte { rem := l ++ r, bad := b } = .error .xz :=
  getMultibyte_reject_long l r b hl h

/-- the padding computation `((c ^ 3) + 1) & 3` is the distance to the next multiple of 4,
for every count -/
theorem padding_formula (c : Nat) : paddingSize c = (4 - c % 4) % 4 := Lzma.padding_formula c

example : getMultibyte { rem := encodeMb 3 300 ++ [7] } = .ok (300, [0xAC, 0x82, 0x00], { rem := [7] }) :=
  multibyte_roundtrip 3 300 [7] false (by decide) (by decide) (by decide)
example : encodeMb 3 300 = [0xAC, 0x82, 0x00] := by decide
example : getMultibyte { rem := multibyteBytes 300 ++ [7] } = .ok (300, [0xAC, 0x02], { rem := [7] }) := by
  rfl
example : getMultibyte { rem := List.replicate 9 0xFF ++ [0] } = .error .xz :=
  multibyte_reject_long (List.replicate 9 0xFF) [0] false (by decide) (by decide)

/-! ## the container -/

/-- **C03.**  `xzDecompress` on a well-formed file: for the checks none / CRC32 / CRC64, any
list of blocks (including none) whose header fields are legal (`XzBlockSpec.WF`: header size
byte ≤ 255, multibyte widths ≤ 9) and whose payloads are decoded in place by the LZMA2 decoder
(`XzBlockSpec.Decodes`), a record count that fits its field and a backward size that fits 32
bits: with a sink that accepts everything the decoder succeeds, leaves the reader at end of
file, and the sink has received exactly one `write_all` per block with non-empty output
(`Sink.putBlocks`: `out` extended, `writes` incremented, `lastFlush` cleared; nothing else
changes, in particular no flush). -/
theorem xz_decode_exact (check : CheckMethod) (blocks : List XzBlockSpec) (wCount : Nat) (s : Sink)
    (hck : check = .none ∨ check = .crc32 ∨ check = .crc64)
    (hs : s.script = [])
    (hb : ∀ b ∈ blocks, b.WF check ∧ b.Decodes)
    (hc : mbW wCount blocks.length ≤ 9)
    (hidx : (xzIndex check blocks wCount).length / 4 - 1 < 2 ^ 32) :
    xzDecompress (Rd.ofBytes (buildXz check blocks wCount)) s
      = (s.putBlocks blocks, .ok { rem := [] }) :=
  xzDecompress_buildXz check blocks wCount s (by rcases hck with h | h | h <;> simp [h]) hs hb hc hidx

/-- the output is exactly the concatenation of the block outputs -/
theorem xz_decode_exact_out (check : CheckMethod) (blocks : List XzBlockSpec) (wCount : Nat) (s : Sink)
    (hck : check = .none ∨ check = .crc32 ∨ check = .crc64)
    (hs : s.script = [])
    (hb : ∀ b ∈ blocks, b.WF check ∧ b.Decodes)
    (hc : mbW wCount blocks.length ≤ 9)
    (hidx : (xzIndex check blocks wCount).length / 4 - 1 < 2 ^ 32) :
    (xzDecompress (Rd.ofBytes (buildXz check blocks wCount)) s).2 = .ok { rem := [] }
    ∧ (xzDecompress (Rd.ofBytes (buildXz check blocks wCount)) s).1.out
        = s.out ++ (blocks.map (·.out)).flatten.toArray
    ∧ (xzDecompress (Rd.ofBytes (buildXz check blocks wCount)) s).1.flushes = s.flushes := by
  rw [xz_decode_exact check blocks wCount s hck hs hb hc hidx]
  have hfl : ∀ (bs : List XzBlockSpec) (s : Sink), (s.putBlocks bs).flushes = s.flushes := by
    intro bs
    induction bs with
    | nil => intro s; rfl
    | cons b bs ih =>
      intro s
      have := ih (s.put b.out)
      simpa [Sink.putBlocks] using this
  exact ⟨rfl, Sink.putBlocks_out s blocks, hfl blocks s⟩

/-- a sufficient condition for the backward size to fit: at most `2^27` blocks -/
theorem index_fits (check : CheckMethod) (blocks : List XzBlockSpec) (wCount : Nat)
    (hb : ∀ b ∈ blocks, b.WF check) (hc : mbW wCount blocks.length ≤ 9)
    (hn : blocks.length ≤ 2 ^ 27) :
    (xzIndex check blocks wCount).length / 4 - 1 < 2 ^ 32 := by
  have hrec : ∀ (bs : List XzBlockSpec), (∀ b ∈ bs, b.WF check) →
      ((bs.map (·.record check)).flatten).length ≤ 18 * bs.length := by
    intro bs
    induction bs with
    | nil => simp
    | cons b bs ih =>
      intro h
      have h1 := (h b (by simp)).idxUnpadded
      have h2 := (h b (by simp)).idxUnpacked
      have := ih (fun x hx => h x (by simp [hx]))
      have hr : (b.record check).length ≤ 18 := by
        simp only [XzBlockSpec.record, mbField, List.length_append, encodeMb_length]; omega
      simp only [List.map_cons, List.flatten_cons, List.length_append, List.length_cons]
      omega
  have := hrec blocks hb
  have := pad4_lt (xzIndexBody check blocks wCount).length
  have hbody : (xzIndexBody check blocks wCount).length ≤ 10 + 18 * blocks.length := by
    simp only [xzIndexBody, List.length_append, mbField, encodeMb_length, List.length_cons, List.length_nil]
    omega
  have : (xzIndex check blocks wCount).length ≤ 17 + 18 * blocks.length := by
    simp only [xzIndex, List.length_append, List.length_replicate, Fwd.leBytes_length]
    omega
  omega

/-! ## non-vacuity -/

/-- payloads that are sequences of uncompressed LZMA2 chunks satisfy the decoding hypothesis -/
theorem decodes_of_frame (b : XzBlockSpec) (cs : List Bytes) (hp : b.payload = lzma2Frame cs)
    (ho : b.out = cs.flatten) (hok : ∀ c ∈ cs, 1 ≤ c.length ∧ c.length ≤ 65536) : b.Decodes :=
  Lzma.decodes_of_frame b cs hp ho hok

/-- the empty file (no blocks), for each check -/
example (check : CheckMethod) (hck : check = .none ∨ check = .crc32 ∨ check = .crc64) :
    xzDecompress (Rd.ofBytes (buildXz check [])) {} = ({}, .ok { rem := [] }) :=
  xz_decode_exact check [] 0 {} hck rfl (by simp) (by simp [mbW, mbWidth_of_lt])
    (index_fits check [] 0 (by simp) (by simp [mbW, mbWidth_of_lt]) (by simp))

/-- two blocks: the first declares both sizes with a three-byte packed size, a two-byte filter
id and one extra padding word; the second is empty with another dictionary byte -/
def exB1 : XzBlockSpec :=
  { payload := lzma2Frame [[0x61, 0x62], [0x63]], out := [0x61, 0x62, 0x63],
    declPacked := true, declUnpacked := true, wPacked := 3, wFilterId := 2, extraPadWords := 1,
    wIdxUnpacked := 2 }
def exB2 : XzBlockSpec := { payload := lzma2Frame [], out := [], dictByte := 0 }
def exBlocks : List XzBlockSpec := [exB1, exB2]

theorem exBlocks_ok (check : CheckMethod) :
    ∀ b ∈ exBlocks, b.WF check ∧ b.Decodes := by
  have e : ∀ n, n < 128 → mbWidth n = 1 := fun n h => mbWidth_of_lt h
  intro b hb
  simp only [exBlocks, List.mem_cons, List.mem_nil_iff, or_false] at hb
  rcases hb with rfl | rfl
  · refine ⟨?_, decodes_of_frame _ [[0x61, 0x62], [0x63]] rfl rfl (by simp)⟩
    have hf : exB1.unpadded check < 128 := by
      cases check <;> simp [exB1, XzBlockSpec.unpadded, XzBlockSpec.hdrBody, XzBlockSpec.fields,
        XzBlockSpec.hdrPad, mbField, mbW, e, lzma2Frame, checkSize, pad4]
    have hw : mbW exB1.wIdxUnpadded (exB1.unpadded check) ≤ 9 := by
      rw [mbW, e _ hf]; simp [exB1]
    refine ⟨?_, ?_, ?_, ?_, ?_, hw, ?_⟩ <;>
      simp [exB1, XzBlockSpec.hdrWords, XzBlockSpec.hdrBody, XzBlockSpec.fields, XzBlockSpec.hdrPad,
        mbField, mbW, e, lzma2Frame, pad4]
  · refine ⟨?_, decodes_of_frame _ [] rfl rfl (by simp)⟩
    have hf : exB2.unpadded check < 128 := by
      cases check <;> simp [exB2, XzBlockSpec.unpadded, XzBlockSpec.hdrBody, XzBlockSpec.fields,
        XzBlockSpec.hdrPad, mbField, mbW, e, lzma2Frame, checkSize, pad4]
    have hw : mbW exB2.wIdxUnpadded (exB2.unpadded check) ≤ 9 := by
      rw [mbW, e _ hf]; simp [exB2]
    refine ⟨?_, ?_, ?_, ?_, ?_, hw, ?_⟩ <;>
      simp [exB2, XzBlockSpec.hdrWords, XzBlockSpec.hdrBody, XzBlockSpec.fields, XzBlockSpec.hdrPad,
        mbField, mbW, e, lzma2Frame, pad4]

example (check : CheckMethod) (hck : check = .none ∨ check = .crc32 ∨ check = .crc64) (s : Sink)
    (hs : s.script = []) :
    xzDecompress (Rd.ofBytes (buildXz check exBlocks 4)) s
      = ({ s with out := s.out ++ #[0x61, 0x62, 0x63], writes := s.writes + 1, lastFlush := false },
          .ok { rem := [] }) := by
  have hc : mbW 4 exBlocks.length ≤ 9 := by simp [mbW, exBlocks, mbWidth_of_lt]
  rw [xz_decode_exact check exBlocks 4 s hck hs (exBlocks_ok check) hc
    (index_fits check exBlocks 4 (fun b h => (exBlocks_ok check b h).1) hc (by simp [exBlocks]))]
  simp [Sink.putBlocks, exBlocks, exB1, exB2, Sink.put]

end Lzma.C03
