/-
  C11 — decoders consume exactly the compressed payload and nothing after it
  (LZMA2 part and the whole-file decoders).
-/
import LzmaProofs.Lemmas.Lzma2
set_option linter.unusedSimpArgs false
namespace Lzma.C11
open Lzma Lzma.L2 Lzma2Decoder

/-! ### LZMA2 stops right behind its end byte and never looks further -/

/-- Success of `lzma2_decompress` on any reader: what is left in the reader is a suffix of the
input, the byte just before it is the `0` control byte, and the verdict, the sink and the
position do not depend on what follows that byte: replacing the unread tail by ANY bytes `t`
(and any reader end kind) gives the same sink and verdict with the reader left exactly at `t`.
Bytes that follow the end byte are neither read nor required. -/
theorem lzma2_stops_at_end_byte {rd rd' : Rd} {s s' : Sink}
    (h : lzma2Decompress rd s = (s', .ok rd')) :
    ∃ pre, rd.rem = pre ++ 0 :: rd'.rem ∧ rd'.bad = rd.bad ∧
      ∀ (t : Bytes) (bad : Bool),
        lzma2Decompress { rem := pre ++ 0 :: t, bad := bad } s
          = (s', .ok { rem := t, bad := bad }) :=
  lzma2Decompress_tail_irrelevant h

/-- In-place decodability, in the form: if `x` is consumed entirely then `x ++ t` decodes with
the same sink and verdict and leaves the reader at `t`, for EVERY `t`. -/
theorem lzma2_in_place {x : Bytes} {rd' : Rd} {s s' : Sink}
    (h : lzma2Decompress (Rd.ofBytes x) s = (s', .ok rd')) (hr : rd'.rem = []) (t : Bytes) :
    lzma2Decompress (Rd.ofBytes (x ++ t)) s = (s', .ok { rd' with rem := t }) := by
  obtain ⟨pre, h1, h2, h3⟩ := lzma2_stops_at_end_byte h
  have hx : x = pre ++ [0] := by simpa [Rd.ofBytes, hr] using h1
  have := h3 t false
  rw [hx]
  simp only [Rd.ofBytes, List.append_assoc, List.singleton_append] at this ⊢
  rw [this]
  have : rd'.bad = false := h2
  simp [this]

/-- the number of bytes consumed is the length up to and including the end byte, whatever
follows -/
theorem lzma2_consumed {x : Bytes} {rd' : Rd} {s s' : Sink}
    (h : lzma2Decompress (Rd.ofBytes x) s = (s', .ok rd')) :
    rd'.rem.length < x.length ∧ x.drop (x.length - rd'.rem.length) = rd'.rem ∧
      x[x.length - rd'.rem.length - 1]? = some 0 := by
  obtain ⟨pre, h1, -, -⟩ := lzma2_stops_at_end_byte h
  simp only [Rd.ofBytes] at h1
  subst h1
  have e : (pre ++ 0 :: rd'.rem).length - rd'.rem.length = pre.length + 1 := by
    simp; omega
  refine ⟨by simp; omega, ?_, ?_⟩
  · rw [e, show pre ++ 0 :: rd'.rem = (pre ++ [0]) ++ rd'.rem by simp]
    exact List.drop_left' (by simp)
  · rw [e]; simp

/-- the chunk loop's fuel (`rem.length + 1` in `decompress`) is only a bound: more fuel never
changes an `Ok` result, and `rem.length + 1` always suffices for whatever any fuel accepts -/
theorem chunkLoop_fuel_irrelevant {fuel fuel' : Nat} {d d' : Lzma2Decoder} {a a' : Accum}
    {rd rd' : Rd} {s s' : Sink} (h : chunkLoop fuel d a rd s = (s', .ok (d', a', rd'))) :
    (fuel ≤ fuel' → chunkLoop fuel' d a rd s = (s', .ok (d', a', rd'))) ∧
    chunkLoop (rd.rem.length + 1) d a rd s = (s', .ok (d', a', rd')) := by
  obtain ⟨cs, hl, hwf, hr, hb, hrun⟩ := chunkLoop_ok_iff.1 h
  refine ⟨fun hle => chunkLoop_ok_iff.2 ⟨cs, by omega, hwf, hr, hb, hrun⟩,
    chunkLoop_ok_iff.2 ⟨cs, ?_, hwf, hr, hb, hrun⟩⟩
  have := flatMap_bytes_length cs
  rw [hr, List.length_append, List.length_cons]; omega

/-- non-vacuity: "abc" stored, followed by garbage -/
example : ∃ s', lzma2Decompress (Rd.ofBytes ([1, 0, 2, 0x61, 0x62, 0x63, 0] ++ [9, 9, 9])) {}
    = (s', .ok { rem := [9, 9, 9] }) := by
  have h : ∃ s', lzma2Decompress (Rd.ofBytes [1, 0, 2, 0x61, 0x62, 0x63, 0]) {}
      = (s', .ok { rem := [] }) := by
    refine ⟨_, lzma2Decompress_ok_iff.2 ⟨[Chunk.raw true [0x61, 0x62, 0x63]], Lzma2Decoder.init,
      (Accum.fromStream USIZE_MAX).appendBytes [0x61, 0x62, 0x63], {}, ?_, ?_, rfl, ?_, rfl⟩⟩
    · intro c hc; simp at hc; subst hc; decide
    · decide
    · exact Run.cons ⟨rfl, Accum.fromStream USIZE_MAX, rfl, rfl⟩ (Run.nil _ _ _)
  obtain ⟨s', h⟩ := h
  exact ⟨s', lzma2_in_place h rfl [9, 9, 9]⟩


/-! ### the whole-file decoders never succeed with input left over -/

/-- (i) `xz_decompress`: success ⇒ the reader is at EOF (`decode_stream` ends with `is_eof`) -/
theorem xz_rejects_trailing {rd rd' : Rd} {s s' : Sink}
    (h : xzDecompress rd s = (s', .ok rd')) : rd'.rem = [] :=
  xzDecompress_ok_eof h

/-- which unpacked size is in effect after `read_header`, per option -/
theorem size_in_effect {rd rd1 : Rd} {opts : Options} {params : LzmaParams}
    (h : readHeader rd opts = .ok (params, rd1)) :
    params.unpackedSize =
      match opts.unpackedSize with
      | .readFromHeader =>
        if leVal ((rd.rem.drop 5).take 8) = 0xFFFFFFFFFFFFFFFF then none
        else some (leVal ((rd.rem.drop 5).take 8))
      | .readHeaderButUseProvided x => x
      | .useProvided x => x :=
  readHeader_unpackedSize h

/-- (ii) `lzma_decompress` with NO unpacked size in effect — the header's size field is all-ones
(`ReadFromHeader`), or `None` is provided — succeeds only at EOF: both loop exits of
`process_mode(Finish)` (end marker, or `code = 0` at end of input) go through
`is_finished_ok`, which demands `is_eof`. -/
theorem lzma_no_size_rejects_trailing {rd rd' : Rd} {opts : Options} {s s' : Sink}
    (h : lzmaDecompress rd opts s = (s', .ok rd'))
    (hopts : (opts.unpackedSize = .readFromHeader ∧
                leVal ((rd.rem.drop 5).take 8) = 0xFFFFFFFFFFFFFFFF) ∨
             opts.unpackedSize = .readHeaderButUseProvided none ∨
             opts.unpackedSize = .useProvided none) :
    rd'.rem = [] := by
  apply lzmaDecompress_no_size_eof h
  intro params rd1 hh
  rw [readHeader_unpackedSize hh]
  rcases hopts with ⟨h1, h2⟩ | h1 | h1
  · rw [h1]; simp only [h2, if_true]
  · rw [h1]
  · rw [h1]

theorem whole_file_decoders_reject_trailing :
    (∀ (rd rd' : Rd) (s s' : Sink), xzDecompress rd s = (s', .ok rd') → rd'.rem = []) ∧
    (∀ (rd rd' : Rd) (opts : Options) (s s' : Sink), lzmaDecompress rd opts s = (s', .ok rd') →
      ((opts.unpackedSize = .readFromHeader ∧
          leVal ((rd.rem.drop 5).take 8) = 0xFFFFFFFFFFFFFFFF) ∨
        opts.unpackedSize = .readHeaderButUseProvided none ∨
        opts.unpackedSize = .useProvided none) → rd'.rem = []) :=
  ⟨fun _ _ _ _ h => xz_rejects_trailing h, fun _ _ _ _ _ h ho => lzma_no_size_rejects_trailing h ho⟩

/-- hence a file that decodes completely, followed by at least one more byte, is not accepted
with that byte left unread: any success on `x ++ t` has consumed `t` too -/
theorem xz_no_success_with_rest (x t : Bytes) (s s' : Sink) (rd' : Rd)
    (h : xzDecompress (Rd.ofBytes (x ++ t)) s = (s', .ok rd')) (ht : t ≠ []) :
    rd'.rem.length < t.length := by
  rw [xz_rejects_trailing h]
  cases t with
  | nil => exact absurd rfl ht
  | cons _ _ => simp

/-- non-vacuity: the empty `.xz` file (check none) produced by liblzma, and `"a"` as `.lzma`
with an all-ones size field and an end marker, both decode (evaluated in the kernel) -/
def okRem (r : Sink × Except Err Rd) : Option Bytes :=
  match r with
  | (_, .ok rd) => some rd.rem
  | _ => none

theorem okRem_some {r : Sink × Except Err Rd} {bs : Bytes} (h : okRem r = some bs) :
    ∃ s' rd', r = (s', .ok rd') ∧ rd'.rem = bs := by
  obtain ⟨s', r⟩ := r
  cases r with
  | error e => simp [okRem] at h
  | ok rd' => simp [okRem] at h; exact ⟨s', rd', rfl, h⟩

example : ∃ s' rd', xzDecompress (Rd.ofBytes [253, 55, 122, 88, 90, 0, 0, 0, 255, 18, 217, 65, 0,
    0, 0, 0, 28, 223, 68, 33, 6, 114, 158, 122, 1, 0, 0, 0, 0, 0, 89, 90]) {} = (s', .ok rd') ∧
    rd'.rem = [] :=
  okRem_some (by decide +kernel)

example : ∃ s' rd', lzmaDecompress (Rd.ofBytes [93, 0, 0, 128, 0, 255, 255, 255, 255, 255, 255,
    255, 255, 0, 48, 193, 251, 255, 255, 255, 224, 0, 0, 0]) {} {} = (s', .ok rd') ∧ rd'.rem = [] :=
  okRem_some (by decide +kernel)

example : ({} : Options).unpackedSize = .readFromHeader ∧
    leVal (((Rd.ofBytes [93, 0, 0, 128, 0, 255, 255, 255, 255, 255, 255, 255, 255, 0, 48, 193, 251,
      255, 255, 255, 224, 0, 0, 0]).rem.drop 5).take 8) = 0xFFFFFFFFFFFFFFFF := by
  decide

end Lzma.C11
