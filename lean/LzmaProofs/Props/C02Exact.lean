/-
  C02 — LZMA2 decoding is exact for every well-formed stream: END-TO-END.

  `lzma2Decompress` (`Lzma2Decoder::new`, the chunk loop of `decompress`, `parse_uncompressed`,
  `parse_lzma` with its dictionary reset / state reset / new-properties stages, a fresh
  `RangeDecoder` per chunk, the symbol loop of `process_mode(Finish)`, the end-of-chunk check,
  the accumulating window, `finish`) applied to `encode2 cs ++ [0] ++ t` — the bytes the reference
  LZMA2 encoder produces for ANY well-formed chunk list `cs` (format-level spec in
  `Lemmas/Lzma2Exact.lean`: `SChunk`, `encode2`, `expand2`, `WF2`), the end byte, any tail `t` —
  returns `Ok`, delivers exactly the bytes the chunk list denotes (`expand2 cs`), flushes, and
  leaves the reader exactly behind the end byte.
-/
import LzmaProofs.Lemmas.Lzma2ExactRun
namespace Lzma.C02
open Lzma L2 L2E

/-- **End-to-end exactness of LZMA2.**  For every chunk list `cs` — uncompressed chunks (with or
without dictionary reset) and LZMA chunks of every class (`0` continue the coder state, `1` state
reset, `2` state reset + new properties, `3` also dictionary reset), in ANY order, programs whose
matches reach back into data of earlier chunks since the last dictionary reset — that is
well-formed (`WF2`: data length 1..65536; per LZMA chunk 1..2^21 bytes produced, payload as
produced ≤ 65536 bytes, `lc + lp ≤ 4`, `pb ≤ 4`, no end marker, every symbol well-formed w.r.t.
the history since the last dictionary reset), every tail `t` and every perfect sink:
`lzma2_decompress` succeeds, the sink receives exactly `expand2 cs`, the last sink call is a
flush, and the reader is left just behind the end byte (`rem = t`).

NOT assumed (lzma-rs is more lenient than liblzma): that the first chunk resets the dictionary;
that the first LZMA chunk, or an LZMA chunk after a dictionary reset, sets new properties (the
decoder starts with `lc = lp = pb = 0`).  The one coupling between chunks that IS needed
(`MbOk` in `SChunk.WF`, only for class-0 chunks) holds automatically unless an uncompressed
chunk reset the dictionary in between (`wf2_of_syntactic`); `carry_after_raw_reset_fails`
shows it cannot be dropped. -/
theorem lzma2_decode_exact (cs : List SChunk) (hwf : WF2 cs) (t : Bytes) (s0 : Sink)
    (hs : s0.script = []) :
    ∃ out s', expand2 cs = some out ∧
      lzma2Decompress (Rd.ofBytes (encode2 cs ++ [0] ++ t)) s0 = (s', .ok (Rd.ofBytes t)) ∧
      s'.out = s0.out ++ out.toArray ∧ s'.lastFlush = true ∧ s'.script = [] := by
  obtain ⟨chs, out, d', a', k', es', F', g1, g2, g3, g4, g5, g6⟩ :=
    run_chunks cs _ [] Lzma2Decoder.init (Accum.fromStream USIZE_MAX) s0 (inv_init hs) hwf
  obtain ⟨s', hfin, hperf, hout, hlf⟩ := Accum.finish_spec g5.acc g5.perf
  refine ⟨out, s', g1, ?_, ?_, hlf, hperf⟩
  · refine lzma2Decompress_ok_iff.2 ⟨chs, d', a', k', g2, ?_, rfl, g4, hfin⟩
    show encode2 cs ++ [0] ++ t = _
    rw [← g3]
    simp [encode2, Rd.ofBytes]
  · have e : F'.toArray ++ es'.spec.hist.toList.toArray = out.toArray := by
      rw [List.append_toArray, g6]
      simp [EncSt.new]
    rw [hout, g5.out, Array.append_assoc, e]

/-- a well-formed chunk list has a meaning -/
theorem expand2_isSome (cs : List SChunk) (hwf : WF2 cs) : ∃ out, expand2 cs = some out := by
  obtain ⟨out, _, h, _⟩ := lzma2_decode_exact cs hwf [] {} rfl
  exact ⟨out, h⟩

/-- **The coupling clause is automatic** for chunk lists in which a chunk that continues the
coder state (class 0) never follows an uncompressed chunk with dictionary reset without a
compressed chunk in between: the purely syntactic `WF2s` implies `WF2`.  (liblzma demands more:
new properties after every dictionary reset.) -/
theorem wf2_of_syntactic (cs : List SChunk) (h : WF2s cs) : WF2 cs :=
  wf2s_imp (s0 := {}) cs true _ [] Lzma2Decoder.init (Accum.fromStream USIZE_MAX) {}
    (inv_init rfl) (fun _ hst => absurd hst (by show ¬ (0 : Nat) ≥ 7; omega)) h

/-- the exactness theorem under the syntactic well-formedness -/
theorem lzma2_decode_exact_syntactic (cs : List SChunk) (hwf : WF2s cs) (t : Bytes) (s0 : Sink)
    (hs : s0.script = []) :
    ∃ out s', expand2 cs = some out ∧
      lzma2Decompress (Rd.ofBytes (encode2 cs ++ [0] ++ t)) s0 = (s', .ok (Rd.ofBytes t)) ∧
      s'.out = s0.out ++ out.toArray ∧ s'.lastFlush = true ∧ s'.script = [] :=
  lzma2_decode_exact cs (wf2_of_syntactic cs hwf) t s0 hs

/-- the special case the format's own rules allow for an independent decoder: a single LZMA chunk
with full reset (`cls = 3`), whose payload is `encodeSyms` of `LzmaSpec` -/
theorem lzma2_single_chunk (props : Props) (prog : List Sym)
    (hwf : WF2 [.lzma 3 props prog]) (t : Bytes) (s0 : Sink) (hs : s0.script = []) :
    ∃ out s', expand2 [.lzma 3 props prog] = some out ∧
      lzma2Decompress (Rd.ofBytes (encode2 [.lzma 3 props prog] ++ [0] ++ t)) s0 =
        (s', .ok (Rd.ofBytes t)) ∧
      s'.out = s0.out ++ out.toArray ∧ s'.lastFlush = true :=
  let ⟨out, s', h1, h2, h3, h4, _⟩ := lzma2_decode_exact _ hwf t s0 hs
  ⟨out, s', h1, h2, h3, h4⟩

/-! ## non-vacuity -/

/-- a chunk list with every chunk kind: full reset; uncompressed without reset; a chunk that
continues the coder state and whose match reaches back through the uncompressed chunk into the
first chunk; a state reset; new properties (`lc = 1, pb = 1`); an uncompressed chunk WITH
dictionary reset; a state reset WITHOUT new properties after it (accepted by lzma-rs only) -/
def demoChunks : List SChunk :=
  [ .lzma 3 ⟨0, 0, 0⟩ [.lit 0x61, .lit 0x62, .mtch 2 3],
    .raw false [0x63, 0x64],
    .lzma 0 ⟨0, 0, 0⟩ [.mtch 7 2, .shortRep, .lit 0x65],
    .lzma 1 ⟨0, 0, 0⟩ [.lit 0x66, .rep 0 2, .mtch 12 4],
    .lzma 2 ⟨1, 0, 1⟩ [.lit 0x67, .mtch 1 5],
    .raw true [0x68, 0x69],
    .lzma 1 ⟨0, 0, 0⟩ [.mtch 2 2, .lit 0x6a] ]

/-- it satisfies the hypotheses of `lzma2_decode_exact` (and the syntactic ones) -/
theorem demoChunks_wf : WF2 demoChunks ∧ WF2s demoChunks := by
  constructor <;> decide +kernel

/-- its meaning: `"ababa" "cd" "aba" "e" "fff" "abac" "gggggg" "hi" "hi" "j"` -/
theorem demoChunks_expand : expand2 demoChunks = some
    [0x61, 0x62, 0x61, 0x62, 0x61, 0x63, 0x64, 0x61, 0x62, 0x61, 0x65, 0x66, 0x66, 0x66, 0x61, 0x62,
     0x61, 0x63, 0x67, 0x67, 0x67, 0x67, 0x67, 0x67, 0x68, 0x69, 0x68, 0x69, 0x6a] := by
  decide +kernel

/-- so the theorem applies to it (tail `[9, 9]`, empty perfect sink) -/
example : ∃ s', lzma2Decompress (Rd.ofBytes (encode2 demoChunks ++ [0] ++ [9, 9])) {} =
      (s', .ok (Rd.ofBytes [9, 9])) ∧
    s'.out.toList =
      [0x61, 0x62, 0x61, 0x62, 0x61, 0x63, 0x64, 0x61, 0x62, 0x61, 0x65, 0x66, 0x66, 0x66, 0x61, 0x62,
       0x61, 0x63, 0x67, 0x67, 0x67, 0x67, 0x67, 0x67, 0x68, 0x69, 0x68, 0x69, 0x6a] ∧
    s'.lastFlush = true := by
  obtain ⟨out, s', h1, h2, h3, h4, -⟩ := lzma2_decode_exact demoChunks demoChunks_wf.1 [9, 9] {} rfl
  rw [demoChunks_expand] at h1
  cases h1
  exact ⟨s', h2, by rw [h3]; simp, h4⟩

/-! ## the coupling clause cannot be dropped -/

/-- a match (state 7, last distance 2), then an uncompressed chunk with dictionary reset holding
ONE byte, then a class-0 chunk starting with a literal -/
def carryChunks : List SChunk :=
  [ .lzma 3 ⟨0, 0, 0⟩ [.lit 0x61, .lit 0x62, .mtch 2 2],
    .raw true [0x63],
    .lzma 0 ⟨0, 0, 0⟩ [.lit 0x64] ]

/-- is the result `Err(LzmaError)`? -/
def isLzmaErr {α : Type} : Except Err α → Bool
  | .error .lzma => true
  | _ => false

/-- **Why `MbOk` is in `WF2`.**  `carryChunks` has a meaning (`"abab" "c" "d"`), its first two
chunks are well-formed and the third violates only the coupling clause — and lzma-rs fails on
the encoded stream with `LzmaError` after delivering `"abab"`: decoding a literal in a state
after a match reads the byte at the last match distance (`last_n(rep0 + 1)`), which lies before
the dictionary reset.  (liblzma rejects the stream earlier: it demands new properties after a
dictionary reset.  So this is a stream outside the format on which both decoders report an
error.) -/
theorem carry_after_raw_reset_fails :
    expand2 carryChunks = some [0x61, 0x62, 0x61, 0x62, 0x63, 0x64] ∧
    WF2 (carryChunks.take 2) ∧ ¬ WF2 carryChunks ∧
    ∃ s, lzma2Decompress (Rd.ofBytes (encode2 carryChunks ++ [0])) {} = (s, .error .lzma) ∧
      s.out = #[0x61, 0x62, 0x61, 0x62] := by
  refine ⟨by decide +kernel, by decide +kernel, by decide +kernel, ?_⟩
  have key : ∀ r : Sink × Except Err Rd, isLzmaErr r.2 = true → r.1.out = #[0x61, 0x62, 0x61, 0x62] →
      ∃ s, r = (s, .error .lzma) ∧ s.out = #[0x61, 0x62, 0x61, 0x62] := by
    rintro ⟨s, r⟩ h1 h2
    cases r with
    | ok x => cases h1
    | error e => cases e <;> first | exact ⟨s, rfl, h2⟩ | cases h1
  exact key _ (by decide +kernel) (by decide +kernel)

end Lzma.C02
