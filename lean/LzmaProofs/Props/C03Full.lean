/-
  C03 + C02 — exactness of the XZ decoder on files with ARBITRARY well-formed LZMA2 payloads.

  `Props/C03.lean` proves the container layer relative to the payload decoder
  (`XzBlockSpec.Decodes`), `Props/C02Exact.lean` proves the LZMA2 decoder exact on
  `encode2 cs ++ [0]` for every well-formed chunk list `cs` (`WF2`).  Here the two are composed:
  the hypotheses of `xz_decode_exact_full` mention only format-level predicates
  (`XzBlockSpec.WF`, `WF2`, `encode2`, `expand2`, field widths) — no decoder function.
-/
import LzmaProofs.Props.C03
import LzmaProofs.Props.C02Exact
namespace Lzma.C03
open Lzma L2 L2E

/-- `decode_filter` is `lzma2_decompress` into a fresh `Vec` -/
theorem decodeFilter_of_lzma2 (x : UInt8) (rd rd' : Rd) (s' : Sink)
    (h : lzma2Decompress rd {} = (s', .ok rd')) :
    decodeFilter rd { props := [x] } = .ok (s'.out.toList, rd') := by
  unfold lzma2Decompress at h
  unfold decodeFilter
  rcases hn : Lzma2Decoder.new with e | d
  · simp [hn, bind, M.bind, liftE, throwM] at h
  · simp only [hn, bind, M.bind, liftE, M.pure] at h
    rcases hd : d.decompress rd {} with ⟨snk, e | ⟨d', r⟩⟩
    · simp [hd] at h
    · simp only [hd, pure, M.pure] at h
      cases h
      simp [bind, Except.bind, pure, Except.pure, hd]

/-- a block whose payload is the LZMA2 encoding of a well-formed chunk list followed by the end
byte, and whose declared meaning is the meaning of the chunk list (format-level predicate) -/
def _root_.Lzma.XzBlockSpec.IsLzma2 (b : XzBlockSpec) (cs : List SChunk) : Prop :=
  WF2 cs ∧ b.payload = encode2 cs ++ [0] ∧ expand2 cs = some b.out

/-- **C02 discharges the payload hypothesis of C03**: the payload of an `IsLzma2` block is
decoded in place by `decode_filter`, whatever follows it. -/
theorem decodes_of_wf2 (b : XzBlockSpec) (cs : List SChunk) (hp : b.payload = encode2 cs ++ [0])
    (hwf : WF2 cs) (ho : expand2 cs = some b.out) : b.Decodes := by
  intro t
  obtain ⟨out, s', h1, h2, h3, -, -⟩ := C02.lzma2_decode_exact cs hwf t {} rfl
  rw [ho] at h1
  cases h1
  rw [hp, decodeFilter_of_lzma2 b.dictByte _ _ _ h2, h3]
  simp [Rd.ofBytes]

/-- **C03 + C02, end to end.**  For the checks none / CRC32 / CRC64 and any list of blocks
(including none), each of which
* carries as payload `encode2 cs ++ [0]` for some well-formed LZMA2 chunk list `cs`
  (`WF2 cs`: uncompressed and LZMA chunks of all classes in any order, see C02) and has
  `out` = the meaning `expand2 cs` of that chunk list,
* has legal header / index field widths (`XzBlockSpec.WF`: header-size byte ≤ 255, every
  multibyte field — declared sizes if present, filter id, props size, index record — at most
  nine bytes; non-minimal encodings and extra padding words allowed),
a record count that fits its field, and an index whose size fits the 32-bit backward size:
`xz_decompress` on the file `buildXz check blocks wCount`, with a sink that accepts everything,
returns `Ok`, leaves the reader at end of file, and the sink has received exactly the
concatenation of the meanings of the chunk lists, one `write_all` per non-empty block, no flush. -/
theorem xz_decode_exact_full (check : CheckMethod) (blocks : List XzBlockSpec) (wCount : Nat) (s : Sink)
    (hck : check = .none ∨ check = .crc32 ∨ check = .crc64)
    (hs : s.script = [])
    (hb : ∀ b ∈ blocks, b.WF check ∧ ∃ cs, b.IsLzma2 cs)
    (hc : mbW wCount blocks.length ≤ 9)
    (hidx : (xzIndex check blocks wCount).length / 4 - 1 < 2 ^ 32) :
    xzDecompress (Rd.ofBytes (buildXz check blocks wCount)) s
        = (s.putBlocks blocks, .ok { rem := [] })
    ∧ (s.putBlocks blocks).out = s.out ++ (blocks.map (·.out)).flatten.toArray
    ∧ (s.putBlocks blocks).flushes = s.flushes := by
  have hb' : ∀ b ∈ blocks, b.WF check ∧ b.Decodes := fun b h =>
    let ⟨hw, cs, h1, h2, h3⟩ := hb b h
    ⟨hw, decodes_of_wf2 b cs h2 h1 h3⟩
  have h := xz_decode_exact check blocks wCount s hck hs hb' hc hidx
  have h2 := xz_decode_exact_out check blocks wCount s hck hs hb' hc hidx
  rw [h] at h2
  exact ⟨h, h2.2.1, h2.2.2⟩

/-- the block with chunk list `cs` and the header/index layout (declared sizes, widths, padding,
dictionary byte) of `layout` -/
def _root_.Lzma.XzBlockSpec.ofChunks (cs : List SChunk) (layout : XzBlockSpec := { payload := [], out := [] }) :
    XzBlockSpec :=
  { layout with payload := encode2 cs ++ [0], out := (expand2 cs).getD [] }

theorem _root_.Lzma.XzBlockSpec.ofChunks_isLzma2 (cs : List SChunk) (layout : XzBlockSpec) (h : WF2 cs) :
    (XzBlockSpec.ofChunks cs layout).IsLzma2 cs := by
  obtain ⟨out, ho⟩ := C02.expand2_isSome cs h
  exact ⟨h, rfl, by simp [XzBlockSpec.ofChunks, ho]⟩

/-- The same with the blocks given explicitly by their chunk lists and layouts, at most `2^27`
of them: the output is the concatenation of the `expand2 csᵢ`. -/
theorem xz_decode_exact_chunks (check : CheckMethod) (items : List (List SChunk × XzBlockSpec))
    (wCount : Nat) (s : Sink)
    (hck : check = .none ∨ check = .crc32 ∨ check = .crc64)
    (hs : s.script = [])
    (hb : ∀ p ∈ items, WF2 p.1 ∧ (XzBlockSpec.ofChunks p.1 p.2).WF check)
    (hc : mbW wCount items.length ≤ 9)
    (hn : items.length ≤ 2 ^ 27) :
    ∃ s', xzDecompress (Rd.ofBytes
        (buildXz check (items.map fun p => XzBlockSpec.ofChunks p.1 p.2) wCount)) s
        = (s', .ok { rem := [] })
    ∧ s'.out = s.out ++ (items.map fun p => (expand2 p.1).getD []).flatten.toArray
    ∧ s'.flushes = s.flushes ∧ s'.script = [] := by
  have hb' : ∀ b ∈ items.map (fun p => XzBlockSpec.ofChunks p.1 p.2),
      b.WF check ∧ ∃ cs, b.IsLzma2 cs := by
    intro b hbm
    obtain ⟨p, hp, rfl⟩ := List.mem_map.1 hbm
    exact ⟨(hb p hp).2, p.1, XzBlockSpec.ofChunks_isLzma2 _ _ (hb p hp).1⟩
  have hc' : mbW wCount (items.map fun p => XzBlockSpec.ofChunks p.1 p.2).length ≤ 9 := by
    simpa using hc
  obtain ⟨h1, h2, h3⟩ := xz_decode_exact_full check _ wCount s hck hs hb' hc'
    (index_fits check _ wCount (fun b h => (hb' b h).1) hc' (by simpa using hn))
  refine ⟨_, h1, ?_, h3, ?_⟩
  · rw [h2, List.map_map]; rfl
  · have : ∀ (bs : List XzBlockSpec) (s : Sink), (s.putBlocks bs).script = s.script := by
      intro bs
      induction bs with
      | nil => intro s; rfl
      | cons b bs ih => intro s; simpa [Sink.putBlocks] using ih (s.put b.out)
    rw [this, hs]

/-! ## non-vacuity -/

/-- two blocks: `demoChunks` of C02 (all chunk kinds; compressed chunks with matches reaching
into earlier chunks) with both sizes declared, a three-byte packed size and an extra padding
word; and a block with one uncompressed and one compressed chunk, default layout -/
def demoItems : List (List SChunk × XzBlockSpec) :=
  [ (C02.demoChunks, { payload := [], out := [], declPacked := true, declUnpacked := true,
                       wPacked := 3, extraPadWords := 1, wIdxUnpacked := 2 }),
    ([.raw true [0x78, 0x79], .lzma 3 ⟨0, 0, 0⟩ [.lit 0x7a, .mtch 1 4]],
      { payload := [], out := [] }) ]

theorem demoItems_ok (check : CheckMethod) :
    ∀ p ∈ demoItems, WF2 p.1 ∧ (XzBlockSpec.ofChunks p.1 p.2).WF check := by
  intro p hp
  simp only [demoItems, List.mem_cons, List.mem_nil_iff, or_false] at hp
  rcases hp with rfl | rfl
  · refine ⟨C02.demoChunks_wf.1, ?_, ?_, ?_, ?_, ?_, ?_, ?_⟩
    all_goals first | decide +kernel | (cases check <;> decide +kernel)
  · refine ⟨by decide +kernel, ?_, ?_, ?_, ?_, ?_, ?_, ?_⟩
    all_goals first | decide +kernel | (cases check <;> decide +kernel)

example (check : CheckMethod) (hck : check = .none ∨ check = .crc32 ∨ check = .crc64) :
    ∃ s', xzDecompress (Rd.ofBytes
        (buildXz check (demoItems.map fun p => XzBlockSpec.ofChunks p.1 p.2) 2)) {}
        = (s', .ok { rem := [] })
    ∧ s'.out.toList =
      [0x61, 0x62, 0x61, 0x62, 0x61, 0x63, 0x64, 0x61, 0x62, 0x61, 0x65, 0x66, 0x66, 0x66, 0x61, 0x62,
       0x61, 0x63, 0x67, 0x67, 0x67, 0x67, 0x67, 0x67, 0x68, 0x69, 0x68, 0x69, 0x6a,
       0x78, 0x79, 0x7a, 0x7a, 0x7a, 0x7a, 0x7a] := by
  obtain ⟨s', h1, h2, -, -⟩ := xz_decode_exact_chunks check demoItems 2 {} hck rfl
    (demoItems_ok check) (by decide +kernel) (by decide +kernel)
  refine ⟨s', h1, ?_⟩
  rw [h2]
  have : (demoItems.map fun p => (expand2 p.1).getD []).flatten =
      [0x61, 0x62, 0x61, 0x62, 0x61, 0x63, 0x64, 0x61, 0x62, 0x61, 0x65, 0x66, 0x66, 0x66, 0x61, 0x62,
       0x61, 0x63, 0x67, 0x67, 0x67, 0x67, 0x67, 0x67, 0x68, 0x69, 0x68, 0x69, 0x6a,
       0x78, 0x79, 0x7a, 0x7a, 0x7a, 0x7a, 0x7a] := by decide +kernel
  rw [this]; rfl

end Lzma.C03
