/-
  C14 — "a reset raw decoder is indistinguishable from a new one"
  (`decode/lzma.rs`: `DecoderState::{new, reset_state}`, `LzmaDecoder::{new, reset, decompress}`;
   `decode/lzma2.rs`: `Lzma2Decoder::{new, reset, decompress}`).

  Definitions used in the statements (`DState.WF`, `Probs.Sized`, `LenProbs.Sized`,
  `LzmaDecoder.{Inv, forgetSize, forgetRes, thenDecompress}`,
  `Lzma2Decoder.{Inv, norm, forgetRes}`) are in `LzmaProofs/Lemmas/Reset.lean`.
-/
import LzmaProofs.Lemmas.Reset
namespace Lzma.C14

variable {ω : Type} [LzBuf ω]

/-! ### the table-size invariant `DState.WF` -/

/-- `DecoderState::new` establishes `WF`. -/
theorem new_establishes_WF (p : Props) (u : Option Nat) (s : DState)
    (h : DState.new p u = .ok s) : s.WF :=
  DState.new_WF h

/-- non-vacuity: the default properties give a well-formed state (8 rows of 0x300 literal
probabilities, …) -/
example : ∃ s, DState.new { lc := 3, lp := 0, pb := 2 } none = .ok s ∧ s.WF ∧
    s.probs.lit.size = 8 * 0x300 :=
  ⟨_, rfl, DState.new_WF (p := { lc := 3, lp := 0, pb := 2 }) (u := none) rfl,
    Array.size_replicate⟩

/-- Writing one probability (`Probs.set`, i.e. every `setIfInBounds`) preserves all table sizes. -/
theorem set_preserves_sizes (p : Probs) (i : PIdx) (v : Nat) (h : p.Sized) :
    (p.set i v).Sized ∧ (p.set i v).litRows = p.litRows :=
  ⟨h.set i v, Probs.set_litRows p i v⟩

theorem lenSet_preserves_sizes (l : LenProbs) (i : PIdx) (v : Nat) (h : l.Sized) :
    (l.set i v).Sized :=
  h.set i v

/-- Decoding any bit tree with `update = true` (or the dry run) preserves the table sizes. -/
theorem runDec_preserves_sizes {α : Type} (update : Bool) (c : Coder PIdx α) (p p' : Probs)
    (rc rc' : RC) (rd rd' : Rd) (a : α)
    (h : runDec update c p rc rd = .ok (a, p', rc', rd')) (hp : p.Sized) :
    p'.Sized ∧ p'.litRows = p.litRows :=
  runDec_inv (σ := Probs) (fun q => q.Sized ∧ q.litRows = p.litRows)
    (fun q i v hq => ⟨hq.1.set i v, (Probs.set_litRows q i v).trans hq.2⟩) update
    c p rc rd a p' rc' rd' h ⟨hp, rfl⟩

/-- `applySym` (the `update = true` effects of a decoded symbol) touches neither the tables
nor `props`, `unpacked_size`, `partial_input_buf`. -/
theorem applySym_preserves (s s' : DState) (w w' : ω) (rc : RC) (rd : Rd) (sym : RawSym)
    (snk snk' : Sink) (st : DState.Status)
    (h : DState.applySym s w rc rd sym snk = (snk', .ok (st, s', w'))) :
    s'.probs = s.probs ∧ s'.props = s.props ∧ s'.unpackedSize = s.unpackedSize ∧
      s'.partialBuf = s.partialBuf :=
  DState.applySym_keeps h

/-- `process_next` preserves `WF` and never changes `props`, `unpacked_size`,
`partial_input_buf`. -/
theorem processNext_preserves (s s' : DState) (w w' : ω) (rc rc' : RC) (rd rd' : Rd)
    (snk snk' : Sink) (st : DState.Status)
    (h : DState.processNext s w rc rd snk = (snk', .ok (st, s', w', rc', rd'))) (hwf : s.WF) :
    s'.WF ∧ s'.props = s.props ∧ s'.unpackedSize = s.unpackedSize ∧
      s'.partialBuf = s.partialBuf :=
  DState.processNext_inv h hwf

/-- The loop of `process_mode` (any mode, any fuel, any window type) preserves `WF` and never
changes `props`, `unpacked_size`. -/
theorem processLoop_preserves (mode : DState.Mode) (fuel : Nat) (s s' : DState) (w w' : ω)
    (rc rc' : RC) (rd rd' : Rd) (snk snk' : Sink)
    (h : DState.processLoop mode fuel s w rc rd snk = (snk', .ok (s', w', rc', rd')))
    (hwf : s.WF) :
    s'.WF ∧ s'.props = s.props ∧ s'.unpackedSize = s.unpackedSize :=
  let ⟨h0, h1, h2, _⟩ := DState.processLoop_inv fuel h hwf
  ⟨h0, h1, h2⟩

/-- `process_mode` preserves `WF` and never changes `props`, `unpacked_size`. -/
theorem processMode_preserves (mode : DState.Mode) (s s' : DState) (w w' : ω)
    (rc rc' : RC) (rd rd' : Rd) (snk snk' : Sink)
    (h : DState.processMode mode s w rc rd snk = (snk', .ok (s', w', rc', rd')))
    (hwf : s.WF) :
    s'.WF ∧ s'.props = s.props ∧ s'.unpackedSize = s.unpackedSize :=
  let ⟨h0, h1, h2, _⟩ := DState.processMode_inv h hwf
  ⟨h0, h1, h2⟩

/-- `process_mode` in Finish mode started with an empty `partial_input_buf` ends (on `Ok`)
with an empty `partial_input_buf`. -/
theorem finish_mode_keeps_partialBuf_empty (s s' : DState) (w w' : ω)
    (rc rc' : RC) (rd rd' : Rd) (snk snk' : Sink)
    (h : DState.processMode .finish s w rc rd snk = (snk', .ok (s', w', rc', rd')))
    (hwf : s.WF) (hpb : s.partialBuf = []) : s'.partialBuf = [] :=
  (DState.processMode_inv h hwf).2.2.2 rfl hpb

/-! ### `reset_state` = `new` -/

/-- `reset_state(p)` on a well-formed state yields exactly `DecoderState::new(p, size)` —
every table and every register — except that `partial_input_buf` is kept; this covers both
branches (same `lc + lp`: refill in place; different: reallocate). -/
theorem reset_eq_new (s s' s'' : DState) (p : Props) (hwf : s.WF)
    (hr : s.resetState p = .ok s') (hn : DState.new p s.unpackedSize = .ok s'') :
    s' = { s'' with partialBuf := s.partialBuf } := by
  obtain ⟨rfl, hv⟩ := DState.new_eq hn
  rw [DState.resetState_eq hwf hv] at hr
  cases hr
  rfl

/-- `reset_state` and `new` also agree on failure (both panic in `validate`, or both succeed). -/
theorem reset_new_same_verdict (s : DState) (p : Props) (hwf : s.WF) :
    (s.resetState p).map (fun _ => ()) = (DState.new p s.unpackedSize).map (fun _ => ()) := by
  cases hv : p.validate with
  | error e => rw [DState.resetState_of_invalid _ hv, DState.new_of_invalid _ hv]
  | ok x => rw [DState.resetState_eq hwf hv, DState.new_of_valid _ hv]; rfl

/-- non-vacuity: a state dirtied by nothing but with a staged byte, reset in the "same
`lc + lp`" branch and in the "different" branch, both succeed -/
example : ∃ s s1 s2, DState.new { lc := 3, lp := 0, pb := 2 } (some 5) = .ok s ∧
    s.WF ∧ s.resetState { lc := 2, lp := 1, pb := 0 } = .ok s1 ∧
    s.resetState { lc := 0, lp := 0, pb := 0 } = .ok s2 :=
  have hwf : (DState.mk [] { lc := 3, lp := 0, pb := 2 } (some 5) (Probs.init (1 <<< (3 + 0)))
      0 0 0 0 0).WF := DState.fresh_WF _ _ []
  ⟨_, _, _, rfl, hwf, DState.resetState_eq hwf rfl, DState.resetState_eq hwf rfl⟩

/-! ### `LzmaDecoder`: reset then decompress = new then decompress -/

/-- The decoder objects that can arise: `new` succeeded, then any sequence of `reset`s and
`decompress` calls.  A failed `decompress` leaves the Rust object in an unspecified state;
it is modelled by an arbitrary object with the same configuration whose state is
well-formed, has an empty `partial_input_buf` (Finish mode never stages input) and keeps the
properties. -/
inductive LzmaReachable : LzmaDecoder → Prop where
  | new {params : LzmaParams} {ml : Option Nat} {d : LzmaDecoder} :
      LzmaDecoder.new params ml = .ok d → LzmaReachable d
  | reset {d d' : LzmaDecoder} {r : Option (Option Nat)} :
      LzmaReachable d → d.reset r = .ok d' → LzmaReachable d'
  | decompress {d d' : LzmaDecoder} {y y' : Rd} {snk snk' : Sink} :
      LzmaReachable d → d.decompress y snk = (snk', .ok (d', y')) → LzmaReachable d'
  | failed {d d' : LzmaDecoder} {y : Rd} {snk snk' : Sink} {e : Err} :
      LzmaReachable d → d.decompress y snk = (snk', .error e) →
      d'.params = d.params → d'.memlimit = d.memlimit →
      d'.state.WF → d'.state.partialBuf = [] → d'.state.props = d.state.props →
      LzmaReachable d'

/-- every reachable decoder object satisfies the invariant used below -/
theorem lzma_reachable_inv (d : LzmaDecoder) (h : LzmaReachable d) : d.Inv := by
  induction h with
  | new h => exact LzmaDecoder.new_inv h
  | reset _ h ih => exact LzmaDecoder.reset_inv ih h
  | decompress _ h ih => exact LzmaDecoder.decompress_inv ih h
  | failed _ _ hp _ hwf hpb hprops ih =>
    exact ⟨hwf, hpb, by rw [hprops, ih.props, hp], by rw [hp]; exact ih.dict⟩

/-- For every usable decoder object `d` (in particular every reachable one), every
`reset` argument `r`, every input and every sink (any script):
`d.reset(r)` followed by `decompress` behaves exactly like a decoder freshly made by
`LzmaDecoder::new` with the same properties, dictionary size and memory limit and with the
unpacked size that is in effect (`r`'s value if given, else the size currently stored in the
state) — same sink, same verdict, same reader position, and the same decoder object
afterwards (up to the `params.unpacked_size` field, which only `new` reads).
The equation also covers the failure of `reset`/`new` themselves (invalid properties). -/
theorem lzma_reset_then_decompress (d : LzmaDecoder) (hd : d.Inv) (r : Option (Option Nat))
    (y : Rd) (snk : Sink) :
    LzmaDecoder.thenDecompress (d.reset r) y snk =
      LzmaDecoder.thenDecompress
        (LzmaDecoder.new { d.params with unpackedSize := r.getD d.state.unpackedSize }
          (some d.memlimit)) y snk := by
  have h := LzmaDecoder.reset_vs_new d hd r
  revert h
  generalize d.reset r = x1
  generalize LzmaDecoder.new _ _ = x2
  intro h
  rcases x1 with e1 | d1 <;> rcases x2 with e2 | d2 <;>
    simp only [Except.map, Except.error.injEq, Except.ok.injEq, reduceCtorEq] at h
  · subst h; rfl
  · exact LzmaDecoder.decompress_forget h y snk

/-- When the properties are valid (as for every reachable decoder), both `reset` and `new`
succeed, so the theorem above really compares two `decompress` runs. -/
theorem lzma_reset_and_new_succeed (d : LzmaDecoder) (hd : d.Inv)
    (hv : d.params.props.validate = .ok ()) (r : Option (Option Nat)) :
    ∃ dr dn, d.reset r = .ok dr ∧
      LzmaDecoder.new { d.params with unpackedSize := r.getD d.state.unpackedSize }
        (some d.memlimit) = .ok dn ∧
      dr.forgetSize = dn.forgetSize ∧
      ∀ y snk, LzmaDecoder.forgetRes (dr.decompress y snk) =
        LzmaDecoder.forgetRes (dn.decompress y snk) := by
  have h1 := (LzmaDecoder.reset_ok_iff hd.wf (r := r)).2 ⟨hv, rfl⟩
  have h2 := (LzmaDecoder.new_ok_iff
    (params := { d.params with unpackedSize := r.getD d.state.unpackedSize })
    (ml := some d.memlimit)).2 ⟨hd.dict, hv, rfl⟩
  have h := LzmaDecoder.reset_vs_new d hd r
  rw [h1, h2] at h
  simp only [Except.map, Except.ok.injEq] at h
  exact ⟨_, _, h1, h2, h, fun y snk => LzmaDecoder.decompress_forget h y snk⟩

/-- non-vacuity: a freshly created decoder is reachable, hence satisfies the invariant -/
example : ∃ d, LzmaDecoder.new ⟨{ lc := 3, lp := 0, pb := 2 }, 4096, some 7⟩ none = .ok d ∧ LzmaReachable d ∧ d.Inv ∧
      d.params.props.validate = .ok () := by
  have h : LzmaDecoder.new ⟨{ lc := 3, lp := 0, pb := 2 }, 4096, some 7⟩ none = .ok _ :=
    LzmaDecoder.new_ok_iff.2 ⟨by decide, rfl, rfl⟩
  exact ⟨_, h, .new h, lzma_reachable_inv _ (.new h), rfl⟩

/-! ### `Lzma2Decoder` -/

/-- `lzma2_ignores_stale_size`: two LZMA2 decoders that differ only in
`lzma_state.unpacked_size` behave identically under `decompress`: same sink, same verdict,
same reader, and the returned decoders again differ at most in that field.
(`parse_lzma` overwrites the size with `set_unpacked_size` before every `process`, and
`parse_uncompressed` never reads it.) -/
theorem lzma2_ignores_stale_size (d1 d2 : Lzma2Decoder)
    (h : d1.lzmaState.setUnpackedSize none = d2.lzmaState.setUnpackedSize none)
    (y : Rd) (snk : Sink) :
    Lzma2Decoder.forgetRes (d1.decompress y snk) = Lzma2Decoder.forgetRes (d2.decompress y snk) :=
  Lzma2Decoder.decompress_eqv (by simp only [Lzma2Decoder.norm, h]) y snk

/-- the same for a single LZMA chunk, as an equation between the `M` computations -/
theorem lzma2_parseLzma_ignores_stale_size (d : Lzma2Decoder) (u : Option Nat) (accum : Accum)
    (rd : Rd) (status : Nat) :
    d.parseLzma accum rd status =
      ({ lzmaState := d.lzmaState.setUnpackedSize u } : Lzma2Decoder).parseLzma accum rd status := by
  rw [Lzma2Decoder.parseLzma_norm d,
    Lzma2Decoder.parseLzma_norm { lzmaState := d.lzmaState.setUnpackedSize u }]
  rfl

/-- The LZMA2 decoder objects that can arise (a failed `decompress` again leaves an
arbitrary well-formed state with an empty `partial_input_buf`). -/
inductive Lzma2Reachable : Lzma2Decoder → Prop where
  | new {d : Lzma2Decoder} : Lzma2Decoder.new = .ok d → Lzma2Reachable d
  | reset {d d' : Lzma2Decoder} : Lzma2Reachable d → d.reset = .ok d' → Lzma2Reachable d'
  | decompress {d d' : Lzma2Decoder} {y y' : Rd} {snk snk' : Sink} :
      Lzma2Reachable d → d.decompress y snk = (snk', .ok (d', y')) → Lzma2Reachable d'
  | failed {d d' : Lzma2Decoder} {y : Rd} {snk snk' : Sink} {e : Err} :
      Lzma2Reachable d → d.decompress y snk = (snk', .error e) →
      d'.lzmaState.WF → d'.lzmaState.partialBuf = [] → Lzma2Reachable d'

theorem lzma2_reachable_inv (d : Lzma2Decoder) (h : Lzma2Reachable d) : d.Inv := by
  induction h with
  | new h =>
    rw [Lzma2Decoder.new_eq_fresh] at h; cases h
    exact ⟨DState.fresh_WF _ _ _, rfl⟩
  | reset _ h ih =>
    rw [Lzma2Decoder.reset_eq_fresh ih] at h; cases h
    exact ⟨DState.fresh_WF _ _ _, rfl⟩
  | decompress _ h ih => exact Lzma2Decoder.decompress_inv _ ih _ _ _ _ h
  | failed _ _ hwf hpb _ => exact ⟨hwf, hpb⟩

/-- For every usable LZMA2 decoder object (in particular every reachable one): `reset`
succeeds, `new` succeeds, the two decoders differ only in the stale
`lzma_state.unpacked_size` (`reset` keeps it, `new` has `None`), and that does not matter:
`decompress` gives the same sink, verdict, reader and (up to that field) decoder, for every
input and every sink. -/
theorem lzma2_reset_then_decompress (d : Lzma2Decoder) (hd : d.Inv) :
    ∃ dr dn, d.reset = .ok dr ∧ Lzma2Decoder.new = .ok dn ∧
      dr.lzmaState = dn.lzmaState.setUnpackedSize d.lzmaState.unpackedSize ∧
      ∀ (y : Rd) (snk : Sink),
        Lzma2Decoder.forgetRes (dr.decompress y snk) =
          Lzma2Decoder.forgetRes (dn.decompress y snk) := by
  refine ⟨_, _, Lzma2Decoder.reset_eq_fresh hd, Lzma2Decoder.new_eq_fresh, ?_, ?_⟩
  · simp only [DState.setUnpackedSize]
  · intro y snk
    refine Lzma2Decoder.decompress_eqv ?_ y snk
    simp only [Lzma2Decoder.norm, DState.setUnpackedSize]

/-- non-vacuity: the fresh LZMA2 decoder is reachable and satisfies the invariant -/
example : ∃ d, Lzma2Decoder.new = .ok d ∧ Lzma2Reachable d ∧ d.Inv := by
  refine ⟨_, Lzma2Decoder.new_eq_fresh, ?_⟩
  have h := Lzma2Reachable.new Lzma2Decoder.new_eq_fresh
  exact ⟨h, lzma2_reachable_inv _ h⟩

end Lzma.C14
