/-
  C12 — I/O failures propagate as errors and never corrupt what was already written.

  Sink side: the caller's `Write` is the scripted `Sink` (each raw `write`/`flush` call consumes
  one `SinkBeh`: accept everything, accept at most `n` bytes, or fail).  `sp` below always denotes
  a fault-free sink (`sp.script = []`) that starts with the same delivered bytes as `s`.
  Source side: `Rd.bad = true` makes a read beyond the data an I/O error.
-/
import LzmaProofs.Lemmas.Sink
namespace Lzma.C12

/-! ## 1. the raw sink primitives, for every script -/

/-- `write_all` on EVERY script: `.ok` with all bytes appended in order, or `.error .io` with a
strict prefix appended; the script entries consumed are an initial segment of the script. -/
theorem write_all_spec (bs : Array UInt8) (s : Sink) :
    (∃ used, s.script = used ++ (writeAll bs s).1.script) ∧
    (((writeAll bs s).2 = .ok () ∧ (writeAll bs s).1.out = s.out ++ bs) ∨
     ((writeAll bs s).2 = .error .io ∧
        ∃ k, k < bs.size ∧ (writeAll bs s).1.out = s.out ++ bs.extract 0 k)) :=
  writeAll_spec bs s

theorem write_all_list_spec (bs : Bytes) (s : Sink) :
    (∃ used, s.script = used ++ (writeAllList bs s).1.script) ∧
    (((writeAllList bs s).2 = .ok () ∧ (writeAllList bs s).1.out = s.out ++ bs.toArray) ∨
     ((writeAllList bs s).2 = .error .io ∧
        ∃ k, k < bs.length ∧ (writeAllList bs s).1.out = s.out ++ (bs.take k).toArray)) :=
  writeAllList_spec bs s

theorem write_bytes_spec (bs : Bytes) (s : Sink) :
    (∃ used, s.script = used ++ (writeBytes bs s).1.script) ∧
    (((writeBytes bs s).2 = .ok () ∧ (writeBytes bs s).1.out = s.out ++ bs.toArray) ∨
     ((writeBytes bs s).2 = .error .io ∧
        ∃ k, k < bs.length ∧ (writeBytes bs s).1.out = s.out ++ (bs.take k).toArray)) :=
  writeBytes_spec bs s

/-- with an exhausted script the call succeeds, appends everything, and the script stays `[]` -/
theorem write_all_clean (bs : Array UInt8) (s : Sink) (h : s.script = []) :
    (writeAll bs s).2 = .ok () ∧ (writeAll bs s).1.script = [] ∧
    (writeAll bs s).1.out = s.out ++ bs :=
  writeAll_clean bs s h

/-- short writes (`upto n`, `n ≥ 1`) never lose or reorder data -/
theorem write_all_short_writes (bs : Array UInt8) (s : Sink)
    (hb : ∀ b ∈ s.script, b ≠ .fail ∧ b ≠ .upto 0) :
    (writeAll bs s).2 = .ok () ∧ (writeAll bs s).1.out = s.out ++ bs :=
  ⟨(writeAll_benign bs s hb).1, (writeAll_benign bs s hb).2.1⟩

/-- `upto 0` (a raw `write` returning `Ok(0)`) is the `WriteZero` error -/
theorem write_zero (bs : Bytes) (s : Sink) (rest : List SinkBeh)
    (h : s.script = .upto 0 :: rest) (hne : bs ≠ []) :
    (writeAllList bs s).2 = .error .io ∧ (writeAllList bs s).1.out = s.out ∧
    (writeAllList bs s).1.script = rest :=
  writeAllList_upto_zero bs s rest h hne

/-- `flush` never changes the delivered bytes; `.ok` sets `lastFlush`; it fails exactly when the
script says `fail` -/
theorem flush_spec (s : Sink) :
    (flushSink s).1.out = s.out ∧ (flushSink s).1.script = s.script.tail ∧
    (flushSink s).1.flushes = s.flushes + 1 ∧
    (((flushSink s).2 = .ok () ∧ (flushSink s).1.lastFlush = true ∧ s.script.head? ≠ some .fail) ∨
     ((flushSink s).2 = .error .io ∧ (flushSink s).1.lastFlush = s.lastFlush ∧
        s.script.head? = some .fail)) :=
  flushSink_spec s

/-! ## 3. the decoders under a faulty sink -/

/-- LZMA: with ANY sink script the decoder returns the fault-free result with the fault-free bytes,
or `.error .io` having delivered a prefix `pre` of the fault-free output `pre ++ post`. -/
theorem lzma_sink_prefix (rd : Rd) (opts : Options) (s sp : Sink) (hsp : sp.script = [])
    (ho : s.out = sp.out) :
    (lzmaDecompress rd opts sp).1.script = [] ∧
    (((lzmaDecompress rd opts s).2 = (lzmaDecompress rd opts sp).2 ∧
      (lzmaDecompress rd opts s).1.out = (lzmaDecompress rd opts sp).1.out) ∨
     ((lzmaDecompress rd opts s).2 = .error .io ∧ ∃ pre post : Array UInt8,
        (lzmaDecompress rd opts s).1.out = s.out ++ pre ∧
        (lzmaDecompress rd opts sp).1.out = s.out ++ pre ++ post)) :=
  (OM.lzmaDecompress rd opts).sink_prefix s sp hsp ho

theorem lzma2_sink_prefix (rd : Rd) (s sp : Sink) (hsp : sp.script = []) (ho : s.out = sp.out) :
    (lzma2Decompress rd sp).1.script = [] ∧
    (((lzma2Decompress rd s).2 = (lzma2Decompress rd sp).2 ∧
      (lzma2Decompress rd s).1.out = (lzma2Decompress rd sp).1.out) ∨
     ((lzma2Decompress rd s).2 = .error .io ∧ ∃ pre post : Array UInt8,
        (lzma2Decompress rd s).1.out = s.out ++ pre ∧
        (lzma2Decompress rd sp).1.out = s.out ++ pre ++ post)) :=
  (OM.lzma2Decompress rd).sink_prefix s sp hsp ho

theorem xz_sink_prefix (rd : Rd) (s sp : Sink) (hsp : sp.script = []) (ho : s.out = sp.out) :
    (xzDecompress rd sp).1.script = [] ∧
    (((xzDecompress rd s).2 = (xzDecompress rd sp).2 ∧
      (xzDecompress rd s).1.out = (xzDecompress rd sp).1.out) ∨
     ((xzDecompress rd s).2 = .error .io ∧ ∃ pre post : Array UInt8,
        (xzDecompress rd s).1.out = s.out ++ pre ∧
        (xzDecompress rd sp).1.out = s.out ++ pre ++ post)) :=
  (OM.xzDecompress rd).sink_prefix s sp hsp ho

/-- the hypotheses are satisfiable by a genuinely faulty sink -/
example : ∃ s sp : Sink, s.script = [.upto 1, .all, .upto 0, .fail] ∧ sp.script = [] ∧
    s.out = sp.out :=
  ⟨{ script := [.upto 1, .all, .upto 0, .fail] }, {}, rfl, rfl, rfl⟩

/-- whatever happens, only bytes are appended (LZMA, LZMA2, XZ) -/
theorem decoders_only_append (rd : Rd) (opts : Options) (s : Sink) :
    (∃ t, (lzmaDecompress rd opts s).1.out = s.out ++ t) ∧
    (∃ t, (lzma2Decompress rd s).1.out = s.out ++ t) ∧
    (∃ t, (xzDecompress rd s).1.out = s.out ++ t) :=
  ⟨(OM.lzmaDecompress rd opts).mono s, (OM.lzma2Decompress rd).mono s, (OM.xzDecompress rd).mono s⟩

/-- If a run under ANY script returns `.ok`, the fault-free run returns the same value and the
delivered bytes are equal: a sink that accepts only part of each write still receives the
complete data. -/
theorem success_delivers_everything (rd : Rd) (opts : Options) (s sp : Sink)
    (hsp : sp.script = []) (ho : s.out = sp.out) :
    (∀ r, (lzmaDecompress rd opts s).2 = .ok r →
        (lzmaDecompress rd opts sp).2 = .ok r ∧
        (lzmaDecompress rd opts s).1.out = (lzmaDecompress rd opts sp).1.out) ∧
    (∀ r, (lzma2Decompress rd s).2 = .ok r →
        (lzma2Decompress rd sp).2 = .ok r ∧
        (lzma2Decompress rd s).1.out = (lzma2Decompress rd sp).1.out) ∧
    (∀ r, (xzDecompress rd s).2 = .ok r →
        (xzDecompress rd sp).2 = .ok r ∧
        (xzDecompress rd s).1.out = (xzDecompress rd sp).1.out) :=
  ⟨fun r h => (OM.lzmaDecompress rd opts).obl.ok_eq s sp hsp ho r h,
   fun r h => (OM.lzma2Decompress rd).obl.ok_eq s sp hsp ho r h,
   fun r h => (OM.xzDecompress rd).obl.ok_eq s sp hsp ho r h⟩

/-- Any verdict other than an I/O error (a format error, a panic, …) is the fault-free verdict,
reached with the fault-free bytes: a faulty sink never turns into a different kind of error. -/
theorem non_io_verdict_is_fault_free (rd : Rd) (opts : Options) (s sp : Sink)
    (hsp : sp.script = []) (ho : s.out = sp.out) :
    ((lzmaDecompress rd opts s).2 ≠ .error .io →
        (lzmaDecompress rd opts s).2 = (lzmaDecompress rd opts sp).2 ∧
        (lzmaDecompress rd opts s).1.out = (lzmaDecompress rd opts sp).1.out) ∧
    ((lzma2Decompress rd s).2 ≠ .error .io →
        (lzma2Decompress rd s).2 = (lzma2Decompress rd sp).2 ∧
        (lzma2Decompress rd s).1.out = (lzma2Decompress rd sp).1.out) ∧
    ((xzDecompress rd s).2 ≠ .error .io →
        (xzDecompress rd s).2 = (xzDecompress rd sp).2 ∧
        (xzDecompress rd s).1.out = (xzDecompress rd sp).1.out) :=
  ⟨fun h => (OM.lzmaDecompress rd opts).obl.not_io_eq s sp hsp ho h,
   fun h => (OM.lzma2Decompress rd).obl.not_io_eq s sp hsp ho h,
   fun h => (OM.xzDecompress rd).obl.not_io_eq s sp hsp ho h⟩

/-- Short writes are harmless for the whole decoders: if the script contains only `all` and
`upto n` with `n ≥ 1` (no `fail`, no `upto 0`), result and delivered bytes are exactly the
fault-free ones. -/
theorem short_writes_harmless (rd : Rd) (opts : Options) (s sp : Sink)
    (hb : ∀ b ∈ s.script, b ≠ .fail ∧ b ≠ .upto 0) (hsp : sp.script = []) (ho : s.out = sp.out) :
    ((lzmaDecompress rd opts s).2 = (lzmaDecompress rd opts sp).2 ∧
        (lzmaDecompress rd opts s).1.out = (lzmaDecompress rd opts sp).1.out) ∧
    ((lzma2Decompress rd s).2 = (lzma2Decompress rd sp).2 ∧
        (lzma2Decompress rd s).1.out = (lzma2Decompress rd sp).1.out) ∧
    ((xzDecompress rd s).2 = (xzDecompress rd sp).2 ∧
        (xzDecompress rd s).1.out = (xzDecompress rd sp).1.out) :=
  ⟨⟨((OM.lzmaDecompress rd opts).ben s sp hb hsp ho).1, ((OM.lzmaDecompress rd opts).ben s sp hb hsp ho).2.1⟩,
   ⟨((OM.lzma2Decompress rd).ben s sp hb hsp ho).1, ((OM.lzma2Decompress rd).ben s sp hb hsp ho).2.1⟩,
   ⟨((OM.xzDecompress rd).ben s sp hb hsp ho).1, ((OM.xzDecompress rd).ben s sp hb hsp ho).2.1⟩⟩

example : ∃ s sp : Sink, s.script = [.upto 1, .all, .upto 7] ∧
    (∀ b ∈ s.script, b ≠ .fail ∧ b ≠ .upto 0) ∧ sp.script = [] ∧ s.out = sp.out :=
  ⟨{ script := [.upto 1, .all, .upto 7] }, {}, rfl, by decide, rfl, rfl⟩

/-! ## flushing -/

/-- On `.ok`, `lzma_decompress` and `lzma2_decompress` end with a successful `flush` as their
last raw sink call (for every sink script). -/
theorem decoders_flush (rd : Rd) (opts : Options) (s : Sink) :
    (∀ r, (lzmaDecompress rd opts s).2 = .ok r → (lzmaDecompress rd opts s).1.lastFlush = true) ∧
    (∀ r, (lzma2Decompress rd s).2 = .ok r → (lzma2Decompress rd s).1.lastFlush = true) :=
  ⟨fun r h => Fl.lzmaDecompress rd opts s r h, fun r h => Fl.lzma2Decompress rd s r h⟩

/-- `xz_decompress` never calls `flush` (whatever the result): the flush counter is unchanged, and
`lastFlush` is what the block writes left: untouched if nothing was delivered, otherwise `false`. -/
theorem xz_does_not_flush (rd : Rd) (s : Sink) :
    (xzDecompress rd s).1.flushes = s.flushes ∧
    (((xzDecompress rd s).1.lastFlush = s.lastFlush ∧ (xzDecompress rd s).1.out = s.out) ∨
     (xzDecompress rd s).1.lastFlush = false) :=
  (NF.xzDecompress rd).step s

/-- in particular, on a sink that was not just flushed, `xz_decompress` never ends flushed -/
theorem xz_ends_unflushed (rd : Rd) (s : Sink) (h : s.lastFlush = false) :
    (xzDecompress rd s).1.lastFlush = false := by
  rcases (xz_does_not_flush rd s).2 with ⟨h1, _⟩ | h1
  · rw [h1, h]
  · exact h1

/-! ## the encoders under a faulty sink -/

theorem lzma_compress_sink_prefix (rd : ERd) (opt : EncSizeOpt) (s sp : Sink)
    (hsp : sp.script = []) (ho : s.out = sp.out) :
    (lzmaCompress rd opt sp).1.script = [] ∧
    (((lzmaCompress rd opt s).2 = (lzmaCompress rd opt sp).2 ∧
      (lzmaCompress rd opt s).1.out = (lzmaCompress rd opt sp).1.out) ∨
     ((lzmaCompress rd opt s).2 = .error .io ∧ ∃ pre post : Array UInt8,
        (lzmaCompress rd opt s).1.out = s.out ++ pre ∧
        (lzmaCompress rd opt sp).1.out = s.out ++ pre ++ post)) :=
  (OM.lzmaCompress rd opt).sink_prefix s sp hsp ho

theorem lzma2_compress_sink_prefix (rd : ERd) (s sp : Sink) (hsp : sp.script = [])
    (ho : s.out = sp.out) :
    (lzma2Compress rd sp).1.script = [] ∧
    (((lzma2Compress rd s).2 = (lzma2Compress rd sp).2 ∧
      (lzma2Compress rd s).1.out = (lzma2Compress rd sp).1.out) ∨
     ((lzma2Compress rd s).2 = .error .io ∧ ∃ pre post : Array UInt8,
        (lzma2Compress rd s).1.out = s.out ++ pre ∧
        (lzma2Compress rd sp).1.out = s.out ++ pre ++ post)) :=
  (OM.lzma2Compress rd).sink_prefix s sp hsp ho

/-- The XZ writer measures sizes by differences of `out.size`; under a faulty sink these could
differ from the fault-free ones, but then the run has already failed with `.error .io`. -/
theorem xz_compress_sink_prefix (rd : ERd) (s sp : Sink) (hsp : sp.script = [])
    (ho : s.out = sp.out) :
    (xzCompress rd sp).1.script = [] ∧
    (((xzCompress rd s).2 = (xzCompress rd sp).2 ∧
      (xzCompress rd s).1.out = (xzCompress rd sp).1.out) ∨
     ((xzCompress rd s).2 = .error .io ∧ ∃ pre post : Array UInt8,
        (xzCompress rd s).1.out = s.out ++ pre ∧
        (xzCompress rd sp).1.out = s.out ++ pre ++ post)) :=
  (OM.xzCompress rd).sink_prefix s sp hsp ho

/-- encoder versions of `success_delivers_everything` and `short_writes_harmless` -/
theorem compress_success_delivers_everything (rd : ERd) (opt : EncSizeOpt) (s sp : Sink)
    (hsp : sp.script = []) (ho : s.out = sp.out) :
    (∀ r, (lzmaCompress rd opt s).2 = .ok r →
        (lzmaCompress rd opt sp).2 = .ok r ∧
        (lzmaCompress rd opt s).1.out = (lzmaCompress rd opt sp).1.out) ∧
    (∀ r, (lzma2Compress rd s).2 = .ok r →
        (lzma2Compress rd sp).2 = .ok r ∧
        (lzma2Compress rd s).1.out = (lzma2Compress rd sp).1.out) ∧
    (∀ r, (xzCompress rd s).2 = .ok r →
        (xzCompress rd sp).2 = .ok r ∧
        (xzCompress rd s).1.out = (xzCompress rd sp).1.out) :=
  ⟨fun r h => (OM.lzmaCompress rd opt).obl.ok_eq s sp hsp ho r h,
   fun r h => (OM.lzma2Compress rd).obl.ok_eq s sp hsp ho r h,
   fun r h => (OM.xzCompress rd).obl.ok_eq s sp hsp ho r h⟩

theorem compress_short_writes_harmless (rd : ERd) (opt : EncSizeOpt) (s sp : Sink)
    (hb : ∀ b ∈ s.script, b ≠ .fail ∧ b ≠ .upto 0) (hsp : sp.script = []) (ho : s.out = sp.out) :
    ((lzmaCompress rd opt s).2 = (lzmaCompress rd opt sp).2 ∧
        (lzmaCompress rd opt s).1.out = (lzmaCompress rd opt sp).1.out) ∧
    ((lzma2Compress rd s).2 = (lzma2Compress rd sp).2 ∧
        (lzma2Compress rd s).1.out = (lzma2Compress rd sp).1.out) ∧
    ((xzCompress rd s).2 = (xzCompress rd sp).2 ∧
        (xzCompress rd s).1.out = (xzCompress rd sp).1.out) :=
  ⟨⟨((OM.lzmaCompress rd opt).ben s sp hb hsp ho).1, ((OM.lzmaCompress rd opt).ben s sp hb hsp ho).2.1⟩,
   ⟨((OM.lzma2Compress rd).ben s sp hb hsp ho).1, ((OM.lzma2Compress rd).ben s sp hb hsp ho).2.1⟩,
   ⟨((OM.xzCompress rd).ben s sp hb hsp ho).1, ((OM.xzCompress rd).ben s sp hb hsp ho).2.1⟩⟩

/-! ## the reader side -/

/-- With `Rd.bad = true`, demanding data beyond the end is `.error .io` in every reader
primitive (never `.ok`, never a panic). -/
theorem source_fault_propagates (r : Rd) (hbad : r.bad = true) :
    (r.rem = [] → r.readU8 = .error .io) ∧
    (∀ n, r.rem.length < n → r.readExact n = .error .io) ∧
    (r.rem = [] → r.isEof = .error .io) ∧
    (r.rem = [] → r.fillBuf = .error .io) ∧
    (r.rem.length < 2 → r.readU16BE = .error .io) ∧
    (r.rem.length < 4 → r.readU32BE = .error .io) ∧
    (r.rem.length < 4 → r.readU32LE = .error .io) ∧
    (r.rem.length < 8 → r.readU64LE = .error .io) ∧
    (∀ tag, r.rem.length < tag.length → r.readTag tag = .error .io) ∧
    (r.rem.all (· == 0) = true → r.flushZeroPadding = .error .io) := by
  have hexact : ∀ n, r.rem.length < n → r.readExact n = .error .io := by
    intro n h
    have : ¬ n ≤ r.rem.length := by omega
    simp [Rd.readExact, this, Rd.endErr, hbad]
  refine ⟨?_, hexact, ?_, ?_, ?_, ?_, ?_, ?_, ?_, ?_⟩
  · intro h; simp [Rd.readU8, h, Rd.endErr, hbad]
  · intro h; simp [Rd.isEof, h, hbad]
  · intro h; simp [Rd.fillBuf, h, hbad]
  · intro h; simp [Rd.readU16BE, hexact 2 h]; rfl
  · intro h; simp [Rd.readU32BE, hexact 4 h]; rfl
  · intro h; simp [Rd.readU32LE, hexact 4 h]; rfl
  · intro h; simp [Rd.readU64LE, hexact 8 h]; rfl
  · intro tag h; simp [Rd.readTag, hexact _ h]; rfl
  · intro h; simp [Rd.flushZeroPadding, h, hbad]

/-- conversely a reader that is not `bad` never produces an I/O error -/
theorem good_source_never_io (r : Rd) (hgood : r.bad = false) :
    r.readU8 ≠ .error .io ∧
    (∀ n, r.readExact n ≠ .error .io) ∧ r.isEof ≠ .error .io ∧ r.fillBuf ≠ .error .io := by
  refine ⟨?_, ?_, ?_, ?_⟩
  · unfold Rd.readU8; split <;> simp [Rd.endErr, hgood]
  · intro n; unfold Rd.readExact; split <;> simp [Rd.endErr, hgood]
  · unfold Rd.isEof; split <;> simp [hgood]
  · simp [Rd.fillBuf, hgood]

/-- the encoder's input reader -/
theorem encoder_source_fault_propagates (r : ERd) (cap : Nat) (hbad : r.bad = true)
    (hend : r.rem = []) : r.read cap = .error .io := by
  simp [ERd.read, hend, hbad]

example : (Rd.mk [] true).readU8 = .error .io ∧ (Rd.mk [1, 2] true).readExact 3 = .error .io ∧
    (Rd.mk [0, 0] true).flushZeroPadding = .error .io := ⟨rfl, rfl, rfl⟩

/-! ## 4. non-vacuity: concrete runs -/

/-- two short writes deliver `1, 2` in order, then the third raw call fails: the prefix
`#[1,2]` is delivered and the call reports an I/O error -/
example : writeAll #[1, 2, 3] { script := [.upto 1, .upto 1, .fail] } =
    ({ out := #[1, 2], script := [], writes := 3, lastFlush := false }, .error .io) := by
  simp [writeAll, writeAllList.eq_1, Sink.write1]

/-- only short writes: everything arrives, in order -/
example : writeAll #[1, 2, 3] { script := [.upto 1, .upto 1, .upto 1] } =
    ({ out := #[1, 2, 3], script := [], writes := 3, lastFlush := false }, .ok ()) := by
  simp [writeAll, writeAllList.eq_1, Sink.write1]

/-- `Ok(0)` from the raw `write` is the `WriteZero` error -/
example : writeAll #[1, 2, 3] { script := [.upto 2, .upto 0, .all] } =
    ({ out := #[1, 2], script := [.all], writes := 2, lastFlush := false }, .error .io) := by
  simp [writeAll, writeAllList.eq_1, Sink.write1]

/-- a failing `flush` reports the error and leaves the bytes alone -/
example : flushSink { out := #[9], script := [.fail] } =
    ({ out := #[9], script := [], flushes := 1 }, .error .io) := rfl

/-- a 2-byte `.lzma` stream (`lc = lp = pb = 0`, liblzma output for `"ab"`) -/
def lzmaAb : Bytes :=
  [0, 0, 16, 0, 0, 255, 255, 255, 255, 255, 255, 255, 255, 0, 48, 153, 197, 104, 43, 235, 255,
   237, 244, 128, 0]

/-- an LZMA2 stream holding one uncompressed chunk `7, 8, 9` -/
def lzma2Raw : Bytes := [1, 0, 2, 7, 8, 9, 0]

/-- an `.xz` file (CRC32 check, liblzma output for `"abc"`) -/
def xzAbc : Bytes :=
  [253, 55, 122, 88, 90, 0, 0, 1, 105, 34, 222, 54, 2, 0, 33, 1, 22, 0, 0, 0, 116, 47, 229, 163,
   1, 0, 2, 97, 98, 99, 0, 0, 194, 65, 36, 53, 0, 1, 23, 3, 7, 96, 12, 188, 144, 66, 153, 13,
   1, 0, 0, 0, 0, 1, 89, 90]

/-- LZMA: the sink takes one byte and then fails: the run is an I/O error (derived from
`lzma_sink_prefix`, since the delivered bytes differ from the fault-free ones) and exactly the
prefix `"a"` of the fault-free output `"ab"` was delivered -/
example :
    (lzmaDecompress (Rd.ofBytes lzmaAb) {} { script := [.upto 1, .fail] }).2 = .error .io ∧
    (lzmaDecompress (Rd.ofBytes lzmaAb) {} { script := [.upto 1, .fail] }).1.out = #[97] ∧
    (lzmaDecompress (Rd.ofBytes lzmaAb) {} {}).1.out = #[97, 98] := by
  have h1 : (lzmaDecompress (Rd.ofBytes lzmaAb) {} { script := [.upto 1, .fail] }).1.out = #[97] := by
    decide +kernel
  have h2 : (lzmaDecompress (Rd.ofBytes lzmaAb) {} {}).1.out = #[97, 98] := by decide +kernel
  rcases (lzma_sink_prefix (Rd.ofBytes lzmaAb) {} { script := [.upto 1, .fail] } {} rfl rfl).2 with
    ⟨_, h⟩ | ⟨h, _⟩
  · rw [h1, h2] at h; exact absurd h (by decide)
  · exact ⟨h, h1, h2⟩

/-- LZMA2, same experiment -/
example :
    (lzma2Decompress (Rd.ofBytes lzma2Raw) { script := [.upto 2, .fail] }).2 = .error .io ∧
    (lzma2Decompress (Rd.ofBytes lzma2Raw) { script := [.upto 2, .fail] }).1.out = #[7, 8] ∧
    (lzma2Decompress (Rd.ofBytes lzma2Raw) {}).1.out = #[7, 8, 9] := by
  have h1 : (lzma2Decompress (Rd.ofBytes lzma2Raw) { script := [.upto 2, .fail] }).1.out = #[7, 8] := by
    decide +kernel
  have h2 : (lzma2Decompress (Rd.ofBytes lzma2Raw) {}).1.out = #[7, 8, 9] := by decide +kernel
  rcases (lzma2_sink_prefix (Rd.ofBytes lzma2Raw) { script := [.upto 2, .fail] } {} rfl rfl).2 with
    ⟨_, h⟩ | ⟨h, _⟩
  · rw [h1, h2] at h; exact absurd h (by decide)
  · exact ⟨h, h1, h2⟩

/-- XZ, same experiment -/
example :
    (xzDecompress (Rd.ofBytes xzAbc) { script := [.upto 2, .fail] }).2 = .error .io ∧
    (xzDecompress (Rd.ofBytes xzAbc) { script := [.upto 2, .fail] }).1.out = #[97, 98] ∧
    (xzDecompress (Rd.ofBytes xzAbc) {}).1.out = #[97, 98, 99] := by
  have h1 : (xzDecompress (Rd.ofBytes xzAbc) { script := [.upto 2, .fail] }).1.out = #[97, 98] := by
    decide +kernel
  have h2 : (xzDecompress (Rd.ofBytes xzAbc) {}).1.out = #[97, 98, 99] := by decide +kernel
  rcases (xz_sink_prefix (Rd.ofBytes xzAbc) { script := [.upto 2, .fail] } {} rfl rfl).2 with
    ⟨_, h⟩ | ⟨h, _⟩
  · rw [h1, h2] at h; exact absurd h (by decide)
  · exact ⟨h, h1, h2⟩

/-- `success_delivers_everything` / `short_writes_harmless` are not vacuous: a sink that takes one
byte per call lets the decoders succeed, with the complete output -/
example :
    (lzmaDecompress (Rd.ofBytes lzmaAb) {} { script := [.upto 1, .upto 1] }).2.toBool = true ∧
    (lzmaDecompress (Rd.ofBytes lzmaAb) {} { script := [.upto 1, .upto 1] }).1.out = #[97, 98] ∧
    (xzDecompress (Rd.ofBytes xzAbc) { script := [.upto 1, .upto 1, .upto 1] }).2.toBool = true ∧
    (xzDecompress (Rd.ofBytes xzAbc) { script := [.upto 1, .upto 1, .upto 1] }).1.out
      = #[97, 98, 99] := by
  decide +kernel

/-- `decoders_flush` is not vacuous (successful runs exist and end flushed); a successful
`xz_decompress` ends with `lastFlush = false` and `flushes = 0` -/
example :
    (lzmaDecompress (Rd.ofBytes lzmaAb) {} {}).2.toBool = true ∧
    (lzmaDecompress (Rd.ofBytes lzmaAb) {} {}).1.lastFlush = true ∧
    (lzma2Decompress (Rd.ofBytes lzma2Raw) {}).2.toBool = true ∧
    (lzma2Decompress (Rd.ofBytes lzma2Raw) {}).1.lastFlush = true ∧
    (xzDecompress (Rd.ofBytes xzAbc) {}).2.toBool = true ∧
    (xzDecompress (Rd.ofBytes xzAbc) {}).1.lastFlush = false ∧
    (xzDecompress (Rd.ofBytes xzAbc) {}).1.flushes = 0 := by
  decide +kernel

/-- the failing call may be the final `flush`: all bytes are there but the run is an error -/
example :
    (lzma2Decompress (Rd.ofBytes lzma2Raw) { script := [.all, .fail] }).2.toBool = false ∧
    (lzma2Decompress (Rd.ofBytes lzma2Raw) { script := [.all, .fail] }).1.out = #[7, 8, 9] ∧
    (lzma2Decompress (Rd.ofBytes lzma2Raw) { script := [.all, .fail] }).1.lastFlush = false := by
  decide +kernel

/-- LZMA2 encoder: the header byte goes out, the size field is cut after one byte, then the sink
fails: `#[1, 0]` is a prefix of the fault-free output -/
example : lzma2Compress { rem := [7, 8, 9] } { script := [.all, .upto 1, .fail] } =
    ({ out := #[1, 0], script := [], writes := 3 }, .error .io) := by
  simp [lzma2Compress, lzma2EncodeLoop, ERd.read, bind_run, writeBytes, writeAll,
    writeAllList.eq_1, Sink.write1, subChk, beBytes, leBytes, U16]

example : lzma2Compress { rem := [7, 8, 9] } {} =
    ({ out := #[1, 0, 2, 7, 8, 9, 0], writes := 4 }, .ok { rem := [] }) := by
  simp [lzma2Compress, lzma2EncodeLoop, ERd.read, bind_run, writeBytes, writeAll, subChk,
    beBytes, leBytes, U16]

/-- XZ and LZMA encoders under a sink that fails at its third raw call -/
example :
    (xzCompress { rem := [7, 8, 9] } { script := [.all, .upto 1, .fail] }).2.toBool = false ∧
    (xzCompress { rem := [7, 8, 9] } { script := [.all, .upto 1, .fail] }).1.out
      = #[0xFD, 0x37, 0x7A, 0x58, 0x5A, 0x00, 0x00] ∧
    (lzmaCompress { rem := [7] } (.writeToHeader none) { script := [.all, .upto 1, .fail] }).2.toBool
      = false ∧
    (lzmaCompress { rem := [7] } (.writeToHeader none) { script := [.all, .upto 1, .fail] }).1.out
      = #[0x5D, 0x00] := by
  decide +kernel

end Lzma.C12
