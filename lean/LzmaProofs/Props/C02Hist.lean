/-
  C02 / C14 — HISTORY INDEPENDENCE of the raw LZMA2 decoder object.

  A well-formed LZMA2 stream whose first LZMA chunk sets new properties (`StartsFresh`; in
  particular every stream a conforming encoder produces, `StartsFreshStrict`) is decoded by
  `Lzma2Decoder::decompress` on ANY usable decoder object — whatever an earlier `decompress`,
  successful or failed, left in it — exactly as by a fresh `Lzma2Decoder::new()`: same bytes
  delivered, same flush, same verdict `Ok`, same reader position.  No `reset()` is needed.

  This justifies the test oracle "after a failed decode, the same `Lzma2Decoder` object, without
  `reset`, still decodes a well-formed stream to exactly the bytes the format defines".

  The model's `M` monad drops the decoder object on `Err`, so "the object after a failed decode"
  is not a value of the model.  The theorem therefore quantifies over ALL objects satisfying
  `Lzma2Decoder.Inv` (C14): every probability table has its allocated size, the literal table
  has `1 << (lc + lp)` rows, and `partial_input_buf` is empty.  Rust maintains the first two by
  construction (`Vec2D`, fixed-size arrays; `reset_state` reallocates when `lc + lp` changes)
  and the third because `Lzma2Decoder` only ever runs `process_mode(Finish)`, which never
  stages input (C14 `finish_mode_keeps_partialBuf_empty`) — at every point where `?` can leave
  `decompress`.

  DEAD fields of `lzma_state` (arbitrary in the theorem): the CONTENTS of every probability
  table (`literal_probs`, `pos_slot_decoder`, `align_decoder`, `pos_decoders`, `is_match`,
  `is_rep*`, `is_rep_0long`, `len_decoder`, `rep_len_decoder`), `lzma_props` (`lc`, `lp`, `pb`
  — not even `lc + lp ≤ 4`/validity is assumed), `unpacked_size`, `state`, `rep[0..4]`.
  The window is not a field: `decompress` creates a new `LzAccumBuffer` per call, which is why
  NOT EVEN a dictionary reset in the first chunk is needed for lzma-rs (liblzma demands it).
  NOT dead: `partial_input_buf` (kept by `reset_state`; `partialBuf_needed` below) and the
  table sizes (`tableSizes_needed` below; unreachable in Rust).
-/
import LzmaProofs.Lemmas.Lzma2Hist
import LzmaProofs.Props.C14
namespace Lzma.C02
open Lzma L2 L2E L2H

/-- **History independence, full statement.**  For every decoder object `d` with intact table
sizes and empty staging buffer, every well-formed chunk list `cs` whose first LZMA chunk (if
any) sets new properties, every tail `t` and every perfect sink `s0`:
`d.decompress` on `encode2 cs ++ [0] ++ t` returns `Ok`, delivers exactly `expand2 cs`, ends with
a flush, leaves the reader just behind the end byte — and sink, verdict and reader are THE SAME
as for the fresh decoder `Lzma2Decoder::new()` (`Lzma2Decoder.init`) on the same input.  The
object afterwards is usable again, and is even equal to the fresh decoder's object unless the
stream has no LZMA chunk at all (then neither object was touched). -/
theorem lzma2_history_independent_full (d : Lzma2Decoder) (hd : d.Inv) (cs : List SChunk)
    (hwf : WF2 cs) (hsf : StartsFresh cs) (t : Bytes) (s0 : Sink) (hs : s0.script = []) :
    ∃ out s' d' dF, expand2 cs = some out ∧
      d.decompress (Rd.ofBytes (encode2 cs ++ [0] ++ t)) s0 = (s', .ok (d', Rd.ofBytes t)) ∧
      Lzma2Decoder.init.decompress (Rd.ofBytes (encode2 cs ++ [0] ++ t)) s0 =
        (s', .ok (dF, Rd.ofBytes t)) ∧
      s'.out = s0.out ++ out.toArray ∧ s'.lastFlush = true ∧ s'.script = [] ∧
      d'.Inv ∧ (d' = dF ∨ (AllRaw cs ∧ d' = d ∧ dF = Lzma2Decoder.init)) := by
  obtain ⟨chs, out, d0', d', a', k', es', F', g1, g2, g3, g4, g4', g5, g6, g7⟩ :=
    run_chunks_hist cs _ [] Lzma2Decoder.init d (Accum.fromStream USIZE_MAX) s0 (inv_init hs) hd
      hwf hsf
  obtain ⟨s', hfin, hperf, hout, hlf⟩ := Accum.finish_spec g5.acc g5.perf
  have hbytes : (Rd.ofBytes (encode2 cs ++ [0] ++ t)).rem =
      chs.flatMap Chunk.bytes ++ 0 :: (Rd.ofBytes t).rem := by
    show encode2 cs ++ [0] ++ t = _
    rw [← g3]
    simp [encode2, Rd.ofBytes]
  have hdec := decompress_ok_iff.2 ⟨chs, a', k', g2, hbytes, rfl, g4', hfin⟩
  have hdec0 := decompress_ok_iff.2 ⟨chs, a', k', g2, hbytes, rfl, g4, hfin⟩
  refine ⟨out, s', d', d0', g1, hdec, hdec0, ?_, hlf, hperf,
    Lzma2Decoder.decompress_inv d hd _ s0 s' _ hdec, g7⟩
  have e : F'.toArray ++ es'.spec.hist.toList.toArray = out.toArray := by
    rw [List.append_toArray, g6]
    simp [EncSt.new]
  rw [hout, g5.out, Array.append_assoc, e]

/-- **History independence** in the form the oracle uses: whatever is in the object, the stream
is decoded to exactly the bytes the format defines. -/
theorem lzma2_history_independent (d : Lzma2Decoder) (hd : d.Inv) (cs : List SChunk)
    (hwf : WF2 cs) (hsf : StartsFresh cs) (t : Bytes) (s0 : Sink) (hs : s0.script = []) :
    ∃ out s' d', expand2 cs = some out ∧
      d.decompress (Rd.ofBytes (encode2 cs ++ [0] ++ t)) s0 = (s', .ok (d', Rd.ofBytes t)) ∧
      s'.out = s0.out ++ out.toArray ∧ s'.lastFlush = true :=
  let ⟨out, s', d', _, h1, h2, _, h3, h4, _⟩ :=
    lzma2_history_independent_full d hd cs hwf hsf t s0 hs
  ⟨out, s', d', h1, h2, h3, h4⟩

/-- the same as an equation with the one-shot API `lzma2_decompress` (which creates a fresh
decoder): same sink (every field: `out`, `lastFlush`, `script`, call counters), and the same
verdict and remaining reader -/
theorem lzma2_dirty_eq_fresh (d : Lzma2Decoder) (hd : d.Inv) (cs : List SChunk)
    (hwf : WF2 cs) (hsf : StartsFresh cs) (t : Bytes) (s0 : Sink) (hs : s0.script = []) :
    (d.decompress (Rd.ofBytes (encode2 cs ++ [0] ++ t)) s0).1 =
        (lzma2Decompress (Rd.ofBytes (encode2 cs ++ [0] ++ t)) s0).1 ∧
    (d.decompress (Rd.ofBytes (encode2 cs ++ [0] ++ t)) s0).2.map Prod.snd =
        (lzma2Decompress (Rd.ofBytes (encode2 cs ++ [0] ++ t)) s0).2 := by
  obtain ⟨out, s', d', dF, -, h2, h3, -⟩ := lzma2_history_independent_full d hd cs hwf hsf t s0 hs
  have h4 : lzma2Decompress (Rd.ofBytes (encode2 cs ++ [0] ++ t)) s0 = (s', .ok (Rd.ofBytes t)) := by
    unfold lzma2Decompress
    rw [Lzma2Decoder.new_eq]
    simp only [bind_run, liftE_ok, h3, pure_run]
  rw [h2, h4]
  exact ⟨rfl, rfl⟩

/-- the hypothesis in the form of the format's own rule (what every conforming encoder emits):
the first chunk is an LZMA chunk with full reset, or an uncompressed chunk with dictionary reset
after which the first LZMA chunk sets new properties -/
theorem lzma2_history_independent_strict (d : Lzma2Decoder) (hd : d.Inv) (cs : List SChunk)
    (hwf : WF2 cs) (hsf : StartsFreshStrict cs) (t : Bytes) (s0 : Sink) (hs : s0.script = []) :
    ∃ out s' d', expand2 cs = some out ∧
      d.decompress (Rd.ofBytes (encode2 cs ++ [0] ++ t)) s0 = (s', .ok (d', Rd.ofBytes t)) ∧
      s'.out = s0.out ++ out.toArray ∧ s'.lastFlush = true :=
  lzma2_history_independent d hd cs hwf hsf.startsFresh t s0 hs

/-- **The oracle.**  `d1` is any object the API can produce (`C14.Lzma2Reachable`): `new()`,
then any number of `reset()`s and `decompress` calls on any inputs and sinks — successful ones,
and failed ones after which the object is ANYTHING with intact table sizes and an empty staging
buffer.  Then `d1.decompress` on a well-formed stream that starts fresh gives what the fresh
decoder gives: `Ok`, exactly `expand2 cs`, flushed, reader behind the end byte; and `d1'` is
reachable again, so the statement applies to the next stream as well. -/
theorem lzma2_reused_object_decodes_like_fresh (d1 : Lzma2Decoder) (hr : C14.Lzma2Reachable d1)
    (cs : List SChunk) (hwf : WF2 cs) (hsf : StartsFresh cs) (t : Bytes) (s0 : Sink)
    (hs : s0.script = []) :
    ∃ out s' d1' dF, expand2 cs = some out ∧
      d1.decompress (Rd.ofBytes (encode2 cs ++ [0] ++ t)) s0 = (s', .ok (d1', Rd.ofBytes t)) ∧
      Lzma2Decoder.init.decompress (Rd.ofBytes (encode2 cs ++ [0] ++ t)) s0 =
        (s', .ok (dF, Rd.ofBytes t)) ∧
      lzma2Decompress (Rd.ofBytes (encode2 cs ++ [0] ++ t)) s0 = (s', .ok (Rd.ofBytes t)) ∧
      s'.out = s0.out ++ out.toArray ∧ s'.lastFlush = true ∧ C14.Lzma2Reachable d1' := by
  obtain ⟨out, s', d', dF, h1, h2, h3, h4, h5, -, -, -⟩ :=
    lzma2_history_independent_full d1 (C14.lzma2_reachable_inv d1 hr) cs hwf hsf t s0 hs
  refine ⟨out, s', d', dF, h1, h2, h3, ?_, h4, h5, .decompress hr h2⟩
  unfold lzma2Decompress
  rw [Lzma2Decoder.new_eq]
  simp only [bind_run, liftE_ok, h3, pure_run]

/-! ## non-vacuity -/

/-- a hand-made dirty object: properties `lc = 1, pb = 2`, a stale size, a state after a match,
non-zero `rep`s, and table CONTENTS at the extreme values (`is_match` all 31, literals all 2017) -/
def dirtyLit : Lzma2Decoder :=
  { lzmaState :=
      { props := { lc := 1, lp := 0, pb := 2 }
        unpackedSize := some 12345
        probs := { Probs.init 2 with
          lit := Array.replicate (2 * 0x300) 2017
          isMatch := Array.replicate 192 31 }
        state := 11, rep0 := 77, rep1 := 3, rep2 := 2, rep3 := 1 } }

theorem dirtyLit_inv : dirtyLit.Inv := by
  refine ⟨⟨⟨?_, ?_, ?_, ?_, ?_, ?_, ?_, ?_, ?_, ?_, ⟨?_, ?_, ?_⟩, ⟨?_, ?_, ?_⟩⟩, rfl⟩, rfl⟩ <;>
    exact Array.size_replicate

/-- the decoder object `new()` + one successful `decompress` of `bytes` leaves behind -/
def objectAfter (bytes : Bytes) : Option Lzma2Decoder :=
  match Lzma2Decoder.init.decompress (Rd.ofBytes bytes) {} with
  | (_, .ok (d, _)) => some d
  | _ => none

theorem objectAfter_reachable {bytes : Bytes} {d : Lzma2Decoder} (h : objectAfter bytes = some d) :
    C14.Lzma2Reachable d := by
  unfold objectAfter at h
  split at h
  · rename_i heq
    cases h
    exact .decompress (.new Lzma2Decoder.new_eq) heq
  · cases h

/-- another stream: `lc = 1, pb = 2`, ends in a match -/
def otherChunks : List SChunk := [.lzma 3 ⟨1, 0, 2⟩ [.lit 0x78, .lit 0x79, .mtch 2 5]]

/-- a dirty object that really arises: after decoding `otherChunks` the object holds
`lc = 1, pb = 2`, `state = 7`, `rep[0] = 1`, a stale size (and adapted probabilities) -/
theorem dirtyRun_exists : ∃ d1, objectAfter (encode2 otherChunks ++ [0]) = some d1 ∧
    C14.Lzma2Reachable d1 ∧ d1.Inv ∧ d1.lzmaState.props = ⟨1, 0, 2⟩ ∧ d1.lzmaState.state = 7 ∧
    d1.lzmaState.rep0 = 1 ∧ d1.lzmaState.unpackedSize = some 7 := by
  have h : (objectAfter (encode2 otherChunks ++ [0])).map (fun d =>
      (d.lzmaState.props, d.lzmaState.state, d.lzmaState.rep0, d.lzmaState.unpackedSize)) =
      some (⟨1, 0, 2⟩, 7, 1, some 7) := by decide +kernel
  cases hobj : objectAfter (encode2 otherChunks ++ [0]) with
  | none => rw [hobj] at h; cases h
  | some d1 =>
    rw [hobj] at h
    simp only [Option.map_some, Option.some.injEq, Prod.mk.injEq] at h
    have hr := objectAfter_reachable hobj
    exact ⟨d1, rfl, hr, C14.lzma2_reachable_inv d1 hr, h.1, h.2.1, h.2.2.1, h.2.2.2⟩

/-- a stream meeting the hypotheses in the lenient way: an uncompressed chunk WITHOUT dictionary
reset, then new properties (class 2), then a chunk continuing the coder state -/
def histChunks : List SChunk :=
  [ .raw false [0x68, 0x69],
    .lzma 2 ⟨1, 0, 1⟩ [.mtch 2 2, .lit 0x6a],
    .lzma 0 ⟨0, 0, 0⟩ [.lit 0x6b, .rep 0 2] ]

/-- a two-chunk stream as a conforming encoder writes it: full reset, then a continuing chunk -/
def histChunks2 : List SChunk :=
  [ .lzma 3 ⟨0, 0, 0⟩ [.lit 0x61, .lit 0x62, .lit 0x10, .lit 0xF3, .lit 0x77],
    .lzma 0 ⟨0, 0, 0⟩ [.mtch 5 3, .lit 0x63] ]

theorem histChunks_hyps : WF2 histChunks ∧ StartsFresh histChunks ∧ ¬ StartsFreshStrict histChunks ∧
    WF2 histChunks2 ∧ StartsFreshStrict histChunks2 := by
  refine ⟨?_, ?_, ?_, ?_, ?_⟩ <;> decide +kernel

theorem histChunks_expand :
    expand2 histChunks = some [0x68, 0x69, 0x68, 0x69, 0x6a, 0x6b, 0x6a, 0x6b] ∧
    expand2 histChunks2 = some [0x61, 0x62, 0x10, 0xF3, 0x77, 0x61, 0x62, 0x10, 0x63] := by
  constructor <;> decide +kernel

/-- the theorem applied: the hand-made dirty object decodes `histChunks` (tail `[9]`) correctly -/
example : ∃ s' d', dirtyLit.decompress (Rd.ofBytes (encode2 histChunks ++ [0] ++ [9])) {} =
      (s', .ok (d', Rd.ofBytes [9])) ∧
    s'.out.toList = [0x68, 0x69, 0x68, 0x69, 0x6a, 0x6b, 0x6a, 0x6b] ∧ s'.lastFlush = true := by
  obtain ⟨out, s', d', h1, h2, h3, h4⟩ :=
    lzma2_history_independent dirtyLit dirtyLit_inv histChunks histChunks_hyps.1 histChunks_hyps.2.1
      [9] {} rfl
  rw [histChunks_expand.1] at h1
  cases h1
  exact ⟨s', d', h2, by rw [h3]; simp, h4⟩

/-- the oracle applied: the object left by decoding `otherChunks` decodes `histChunks2` correctly,
without `reset` -/
example : ∃ d1 s' d1', objectAfter (encode2 otherChunks ++ [0]) = some d1 ∧
    d1.lzmaState.props = ⟨1, 0, 2⟩ ∧
    d1.decompress (Rd.ofBytes (encode2 histChunks2 ++ [0] ++ [])) {} =
      (s', .ok (d1', Rd.ofBytes [])) ∧
    s'.out.toList = [0x61, 0x62, 0x10, 0xF3, 0x77, 0x61, 0x62, 0x10, 0x63] ∧ s'.lastFlush = true := by
  obtain ⟨d1, hobj, hr, -, hp, -⟩ := dirtyRun_exists
  obtain ⟨out, s', d1', dF, h1, h2, -, -, h3, h4, -⟩ :=
    lzma2_reused_object_decodes_like_fresh d1 hr histChunks2 histChunks_hyps.2.2.2.1
      histChunks_hyps.2.2.2.2.startsFresh [] {} rfl
  rw [histChunks_expand.2] at h1
  cases h1
  exact ⟨d1, s', d1', hobj, hp, h2, by rw [h3]; simp, h4⟩

/-! ## every hypothesis is needed -/

/-- did the call return `Ok`? -/
def isOk {α : Type} (r : Sink × Except Err α) : Bool :=
  match r.2 with
  | .ok _ => true
  | .error _ => false

theorem error_of_not_ok {α : Type} {r : Sink × Except Err α} (h : isOk r = false) :
    ∃ s e, r = (s, .error e) := by
  obtain ⟨s, x⟩ := r
  cases x with
  | error e => exact ⟨s, e, rfl⟩
  | ok a => cases h

/-- `Ok`, exactly `out` delivered, exactly `rest` unread -/
def deliversExactly (r : Sink × Except Err (Lzma2Decoder × Rd)) (out rest : Bytes) : Bool :=
  match r with
  | (s, .ok (_, rd)) => s.out.toList == out && rd.rem == rest
  | _ => false

/-- class 1 (state reset, OLD properties) as the first LZMA chunk -/
def class1Chunks : List SChunk := [.lzma 1 ⟨0, 0, 0⟩ [.lit 0x61, .lit 0x62, .lit 0x63, .mtch 3 4]]

/-- **`StartsFresh` cannot be weakened to "state reset" (class ≥ 1): `lzma_props` is not dead
then.**  `class1Chunks` is well-formed for lzma-rs (the fresh decoder has `lc = lp = pb = 0` and
delivers `"abcabca"`), but the dirty object — whose tables the state reset re-creates for ITS
properties `lc = 1, pb = 2` — fails. -/
theorem startsFresh_needed_class1 :
    WF2 class1Chunks ∧ ¬ StartsFresh class1Chunks ∧ dirtyLit.Inv ∧
    deliversExactly (Lzma2Decoder.init.decompress (Rd.ofBytes (encode2 class1Chunks ++ [0])) {})
      [0x61, 0x62, 0x63, 0x61, 0x62, 0x63, 0x61] [] = true ∧
    ∃ s e, dirtyLit.decompress (Rd.ofBytes (encode2 class1Chunks ++ [0])) {} = (s, .error e) :=
  ⟨by decide +kernel, by decide +kernel, dirtyLit_inv, by decide +kernel,
    error_of_not_ok (by decide +kernel)⟩

/-- class 0 (nothing reset) as the first LZMA chunk -/
def class0Chunks : List SChunk := [.lzma 0 ⟨0, 0, 0⟩ [.lit 0x61, .lit 0x62, .lit 0x63, .mtch 3 4]]

/-- the same stream decoded twice by one object: is the first call `Ok` (everything read) and
the second one not? -/
def secondCallFails (bytes : Bytes) : Bool :=
  match Lzma2Decoder.init.decompress (Rd.ofBytes bytes) {} with
  | (_, .ok (d1, rd)) => rd.rem == [] && !isOk (d1.decompress (Rd.ofBytes bytes) {})
  | _ => false

/-- **`StartsFresh` is needed: probabilities, `state` and `rep`s are not dead under class 0.**
`class0Chunks` is well-formed for lzma-rs; the fresh object decodes it — and the SAME object,
with the properties unchanged, fails on the SAME bytes the second time (adapted probabilities,
`state = 7`). -/
theorem startsFresh_needed_class0 :
    WF2 class0Chunks ∧ ¬ StartsFresh class0Chunks ∧
    ∃ s1 d1 rd1, Lzma2Decoder.init.decompress (Rd.ofBytes (encode2 class0Chunks ++ [0])) {} =
        (s1, .ok (d1, rd1)) ∧ C14.Lzma2Reachable d1 ∧
      ∃ s e, d1.decompress (Rd.ofBytes (encode2 class0Chunks ++ [0])) {} = (s, .error e) := by
  refine ⟨by decide +kernel, by decide +kernel, ?_⟩
  have h : secondCallFails (encode2 class0Chunks ++ [0]) = true := by decide +kernel
  unfold secondCallFails at h
  split at h
  · rename_i s1 d1 rd1 heq
    simp only [Bool.and_eq_true, Bool.not_eq_true'] at h
    exact ⟨s1, d1, rd1, heq, .decompress (.new Lzma2Decoder.new_eq) heq, error_of_not_ok h.2⟩
  · cases h

/-- the fresh object, but with one stray byte staged in `partial_input_buf` -/
def stagedByte : Lzma2Decoder :=
  { lzmaState := { Lzma2Decoder.init.lzmaState with partialBuf := [0xFF] } }

/-- **`partial_input_buf = []` is needed (it is NOT dead):** `reset_state` keeps it and
`process_mode` consumes it before the chunk's payload.  Table sizes intact, stream starting
with a full reset — and the decode fails.  (Unreachable through the `Lzma2Decoder` API.) -/
theorem partialBuf_needed :
    stagedByte.lzmaState.WF ∧ WF2 histChunks2 ∧ StartsFreshStrict histChunks2 ∧
    ∃ s e, stagedByte.decompress (Rd.ofBytes (encode2 histChunks2 ++ [0])) {} = (s, .error e) :=
  ⟨DState.fresh_WF _ _ _, histChunks_hyps.2.2.2.1, histChunks_hyps.2.2.2.2,
    error_of_not_ok (by decide +kernel)⟩

/-- the fresh object, but with an EMPTY literal table (still claiming 1 row) -/
def shortTable : Lzma2Decoder :=
  { lzmaState := { Lzma2Decoder.init.lzmaState with probs := { Probs.init 1 with lit := #[] } } }

/-- **the table sizes are needed:** when `lc + lp` does not change, `reset_state` refills the
literal table in place, so a wrong size survives a full reset; the model then reports the
panic "index out of bounds".  (Unreachable in Rust: `Vec2D` is only ever built with
`1 << (lc + lp)` rows.) -/
theorem tableSizes_needed :
    shortTable.lzmaState.partialBuf = [] ∧ WF2 histChunks2 ∧ StartsFreshStrict histChunks2 ∧
    ∃ s, shortTable.decompress (Rd.ofBytes (encode2 histChunks2 ++ [0])) {} =
      (s, .error (.panic "index out of bounds")) := by
  refine ⟨rfl, histChunks_hyps.2.2.2.1, histChunks_hyps.2.2.2.2, ?_⟩
  have h : (match (shortTable.decompress (Rd.ofBytes (encode2 histChunks2 ++ [0])) {}).2 with
      | .error e => e == .panic "index out of bounds"
      | .ok _ => false) = true := by decide +kernel
  revert h
  generalize shortTable.decompress (Rd.ofBytes (encode2 histChunks2 ++ [0])) {} = r
  obtain ⟨s, x⟩ := r
  cases x with
  | ok a => intro h; cases h
  | error e =>
    intro h
    have : e = .panic "index out of bounds" := by simpa using h
    exact ⟨s, by rw [this]⟩

end Lzma.C02
