/-
  C04 — framing round trips of the LZMA2 and XZ encoders (`encode/lzma2.rs`, `encode/xz.rs`).

  For every input and every fragmentation of the input reader (`ERd.frags` arbitrary: each
  `read` returns between 1 and `min(65536, remaining)` bytes, `0` only at end of input), with
  sinks that accept everything:
  * `lzma2_compress` emits only "uncompressed, dictionary reset" chunks of 1..65536 bytes and
    the end marker, and `lzma2_decompress` maps that back to the input, stopping right after it;
  * `xz_compress` emits exactly the file `buildXz .none [one block]` of the C03 specification,
    and `xz_decompress` maps it back to the input with the reader at end of file.
  The LZMA (range coder) round trip is not part of this property.
-/
import LzmaProofs.Lemmas.XzFwd
import LzmaProofs.Props.C03
namespace Lzma.C04

/-! ## LZMA2 -/

/-- one `read` of the encoder input: at most 65536 bytes, a prefix of the remaining input,
non-empty unless the input is exhausted -/
theorem read_spec (rd : ERd) (hb : rd.bad = false) :
    ∃ buf rd', rd.read 0x10000 = .ok (buf, rd') ∧ rd'.bad = false ∧ buf ++ rd'.rem = rd.rem
      ∧ buf.length ≤ 65536 ∧ (rd.rem ≠ [] → buf ≠ []) := ERd.read_spec rd hb

/-- **format conformance of `lzma2_compress`**: for every input and fragmentation the encoder
succeeds, consumes all input, and its output is `lzma2Frame cs`, i.e. for each chunk `c` of
some partition `cs` of the input into pieces of 1..65536 bytes the bytes
`1 :: beBytes 2 (c.length - 1) ++ c`, terminated by `0`. -/
theorem lzma2_enc_format (data : Bytes) (fr : List Nat) (s : Sink) (hs : s.script = []) :
    ∃ cs s' rd', lzma2Compress { rem := data, frags := fr } s = (s', .ok rd')
      ∧ rd'.rem = []
      ∧ (∀ c ∈ cs, 1 ≤ c.length ∧ c.length ≤ 65536) ∧ cs.flatten = data
      ∧ s'.script = [] ∧ s'.flushes = s.flushes
      ∧ s'.out = s.out ++ (lzma2Frame cs).toArray := by
  obtain ⟨cs, s', rd', h, h1, _, h3, h4, h5, h6, h7⟩ :=
    lzma2EncodeLoop_spec (data.length + 1) { rem := data, frags := fr } s rfl hs (Nat.le_refl _)
  exact ⟨cs, s', rd', h, h1, h6, h7, h3, h4, h5⟩

/-- the frame format, spelled out -/
theorem lzma2Frame_nil : lzma2Frame [] = [0] := rfl
theorem lzma2Frame_cons (c : Bytes) (cs : List Bytes) :
    lzma2Frame (c :: cs) = 1 :: (beBytes 2 (c.length - 1) ++ (c ++ lzma2Frame cs)) := rfl

/-- the size field never truncates: `c.length - 1 < 65536` is read back as `c.length` -/
theorem chunk_size_roundtrip (n : Nat) (h1 : 1 ≤ n) (h2 : n ≤ 65536) :
    (n - 1) % U16 = n - 1 ∧ beVal (beBytes 2 (n - 1)) + 1 = n := by
  have : n - 1 < 65536 := by omega
  exact ⟨Nat.mod_eq_of_lt (by simpa [U16] using this), by rw [Fwd.beVal_beBytes2 _ this]; omega⟩

/-- a full 65536-byte chunk is fine: its size field is `0xFFFF` -/
example : (65536 - 1) % U16 = 65535 ∧ beVal (beBytes 2 (65536 - 1)) + 1 = 65536 :=
  chunk_size_roundtrip 65536 (by decide) (by decide)

/-- the decoder on any frame of uncompressed chunks, followed by arbitrary bytes `t` -/
theorem lzma2_frame_decode (cs : List Bytes) (t : Bytes) (s : Sink) (hs : s.script = [])
    (hc : ∀ c ∈ cs, 1 ≤ c.length ∧ c.length ≤ 65536) :
    ∃ s', lzma2Decompress (Rd.ofBytes (lzma2Frame cs ++ t)) s = (s', .ok { rem := t })
      ∧ s'.script = [] ∧ s'.out = s.out ++ cs.flatten.toArray
      ∧ s'.flushes = s.flushes + 1 ∧ s'.lastFlush = true :=
  lzma2Decompress_frame cs t false s hs hc

/-- **C04, LZMA2 round trip.**  For every `data`, every fragmentation `fr` of the input reader
and sinks `s`, `s0` that accept everything: `lzma2Compress` succeeds with all input consumed,
having appended some bytes `enc`; and `lzma2Decompress` on `enc` followed by arbitrary bytes `t`
succeeds, appends exactly `data`, and leaves the reader at `t`. -/
theorem lzma2_enc_roundtrip (data : Bytes) (fr : List Nat) (t : Bytes) (s s0 : Sink)
    (hs : s.script = []) (hs0 : s0.script = []) :
    ∃ enc s1 rd', lzma2Compress { rem := data, frags := fr } s = (s1, .ok rd')
      ∧ rd'.rem = [] ∧ s1.out = s.out ++ enc.toArray
      ∧ ∃ s2, lzma2Decompress (Rd.ofBytes (enc ++ t)) s0 = (s2, .ok { rem := t })
          ∧ s2.out = s0.out ++ data.toArray := by
  obtain ⟨cs, s1, rd', h, h1, hok, hfl, _, _, hout⟩ := lzma2_enc_format data fr s hs
  obtain ⟨s2, hd, _, hout2, _⟩ := lzma2_frame_decode cs t s0 hs0 hok
  exact ⟨lzma2Frame cs, s1, rd', h, h1, hout, s2, hd, by rw [hout2, hfl]⟩

/-- with fresh sinks, as in the task statement -/
theorem lzma2_enc_roundtrip_fresh (data : Bytes) (fr : List Nat) (t : Bytes) :
    ∃ s1 rd', lzma2Compress { rem := data, frags := fr } {} = (s1, .ok rd') ∧ rd'.rem = []
      ∧ ∃ s2, lzma2Decompress (Rd.ofBytes (s1.out.toList ++ t)) {} = (s2, .ok { rem := t })
          ∧ s2.out.toList = data := by
  obtain ⟨enc, s1, rd', h, h1, hout, s2, hd, hout2⟩ := lzma2_enc_roundtrip data fr t {} {} rfl rfl
  refine ⟨s1, rd', h, h1, s2, ?_, by simp [hout2]⟩
  have : s1.out.toList = enc := by rw [hout]; simp
  rw [this]; exact hd

/-- empty input gives the single byte `0` -/
example (fr : List Nat) : lzma2Compress { rem := [], frags := fr } {}
    = ({ out := #[0], writes := 1 }, .ok { rem := [], frags := fr }) := by
  simp [lzma2Compress, lzma2EncodeLoop, ERd.read, bind, Fwd.M_bind_apply, liftE, M.pure, Fwd.writeBytes_perfect,
    Sink.put]

/-- one byte; two bytes delivered one at a time (two chunks) -/
example : (lzma2Compress { rem := [0x61] } {}).1.out = #[1, 0, 0, 0x61, 0] := by rfl
example : (lzma2Compress { rem := [0x61, 0x62], frags := [1, 1] } {}).1.out
    = #[1, 0, 0, 0x61, 1, 0, 0, 0x62, 0] := by rfl
example : (lzma2Decompress (Rd.ofBytes [1, 0, 0, 0x61, 1, 0, 0, 0x62, 0, 0xFF]) {}).2 = .ok { rem := [0xFF] }
    ∧ (lzma2Decompress (Rd.ofBytes [1, 0, 0, 0x61, 1, 0, 0, 0x62, 0, 0xFF]) {}).1.out = #[0x61, 0x62] := by
  obtain ⟨s', h, _, h2, _⟩ := lzma2_frame_decode [[0x61], [0x62]] [0xFF] {} rfl (by simp)
  have e : Rd.ofBytes (lzma2Frame [[0x61], [0x62]] ++ [0xFF])
      = Rd.ofBytes [1, 0, 0, 0x61, 1, 0, 0, 0x62, 0, 0xFF] := by rfl
  rw [e] at h
  rw [h]
  exact ⟨rfl, by simpa using h2⟩

/-! ## XZ -/

/-- the block `xz_compress` writes for the chunk partition `cs`: payload = the LZMA2 frame, no
declared sizes, dictionary byte 22, minimal widths, no extra padding; its header is the 12
bytes `02 00 21 01 16 00 00 00 crc32` -/
theorem encBlock_def (cs : List Bytes) :
    encBlock cs = { payload := lzma2Frame cs, out := cs.flatten } := rfl

theorem encBlock_header (cs : List Bytes) :
    (encBlock cs).sizeByte = 2 ∧ (encBlock cs).hdrBody = [0x00, 0x21, 1, 22, 0, 0, 0] :=
  ⟨encBlock_sizeByte cs, encBlock_hdrBody cs⟩

/-- **conformance of `xz_compress` to the C03 layout**: for every input shorter than `2^60`
bytes and every fragmentation, the writer succeeds and has appended exactly
`buildXz .none [encBlock cs]` for a partition `cs` of the input into chunks of 1..65536 bytes.
(The length bound keeps the index fields below `2^63`: beyond it `write_multibyte` would emit a
ten-byte integer, which no XZ decoder accepts; see the `example` below.) -/
theorem xz_enc_is_buildXz (data : Bytes) (fr : List Nat) (s : Sink) (hs : s.script = [])
    (hlen : data.length < 2 ^ 60) :
    ∃ cs s', xzCompress { rem := data, frags := fr } s = (s', .ok ())
      ∧ (∀ c ∈ cs, 1 ≤ c.length ∧ c.length ≤ 65536) ∧ cs.flatten = data
      ∧ s'.script = [] ∧ s'.out.toList = s.out.toList ++ buildXz .none [encBlock cs] := by
  obtain ⟨cs, s', h, hok, hfl, w⟩ := xzCompress_spec { rem := data, frags := fr } s rfl hs hlen
  exact ⟨cs, s', h, hok, hfl, w.1, w.2⟩

/-- why a bound is needed: from `2^63` on the writer's integer has ten bytes and is rejected -/
example : (multibyteBytes (2 ^ 63)).length = 10
    ∧ getMultibyte { rem := multibyteBytes (2 ^ 63) } = .error .xz := by
  constructor <;> rfl

/-- **C04, XZ round trip.**  For every `data` shorter than `2^60` bytes, every fragmentation and
sinks that accept everything: `xzCompress` succeeds, appending some bytes `enc`, and
`xzDecompress` on exactly `enc` succeeds, appends exactly `data` and ends at end of file. -/
theorem xz_enc_roundtrip (data : Bytes) (fr : List Nat) (s s0 : Sink)
    (hs : s.script = []) (hs0 : s0.script = []) (hlen : data.length < 2 ^ 60) :
    ∃ enc s1, xzCompress { rem := data, frags := fr } s = (s1, .ok ())
      ∧ s1.out.toList = s.out.toList ++ enc
      ∧ ∃ s2, xzDecompress (Rd.ofBytes enc) s0 = (s2, .ok { rem := [] })
          ∧ s2.out = s0.out ++ data.toArray := by
  obtain ⟨cs, s1, h, hok, hfl, _, hout⟩ := xz_enc_is_buildXz data fr s hs hlen
  obtain ⟨_, _, hidx, hwf, hdec⟩ := encBlock_facts cs hok (by rw [hfl]; exact hlen)
  have hc : mbW 0 [encBlock cs].length ≤ 9 := by simp [mbW, mbWidth_of_lt]
  have hd := C03.xz_decode_exact .none [encBlock cs] 0 s0 (Or.inl rfl) hs0
    (by intro b hb; rw [List.mem_singleton.mp hb]; exact ⟨hwf, hdec⟩) hc hidx
  refine ⟨_, s1, h, hout, _, hd, ?_⟩
  rw [Sink.putBlocks_out]
  simp [encBlock, hfl]

/-- tiny instances -/
example : ∃ s1, xzCompress { rem := [] } {} = (s1, .ok ())
    ∧ ∃ s2, xzDecompress (Rd.ofBytes s1.out.toList) {} = (s2, .ok { rem := [] }) ∧ s2.out = #[] := by
  obtain ⟨enc, s1, h, hout, s2, hd, ho⟩ := xz_enc_roundtrip [] [] {} {} rfl rfl (by decide)
  refine ⟨s1, h, s2, ?_, by simpa using ho⟩
  have : s1.out.toList = enc := by simpa using hout
  rw [this]; exact hd

example : ∃ s1, xzCompress { rem := [0x61, 0x62], frags := [1, 1] } {} = (s1, .ok ())
    ∧ ∃ s2, xzDecompress (Rd.ofBytes s1.out.toList) {} = (s2, .ok { rem := [] })
      ∧ s2.out = #[0x61, 0x62] := by
  obtain ⟨enc, s1, h, hout, s2, hd, ho⟩ :=
    xz_enc_roundtrip [0x61, 0x62] [1, 1] {} {} rfl rfl (by decide)
  refine ⟨s1, h, s2, ?_, by simpa using ho⟩
  have : s1.out.toList = enc := by simpa using hout
  rw [this]; exact hd

end Lzma.C04
