/-
  C05 — the streaming decoder agrees with the one-shot decoder.

  Feeding an LZMA stream to `Stream` in ANY division into `write` calls (each
  chunk through the re-submitting `feed` loop), followed by `finish`, gives the
  same verdict as `lzma_decompress_with_options` on the concatenated bytes and,
  on success, the identical sink — for every decode option with
  `allow_incomplete = false` and for every (also scripted / faulty) sink.  Only
  exception: zero total input, where the stream finishes successfully with empty
  output while the one-shot decoder reports a too-short header.

  Status: COMPLETE, no hypothesis left.  Layers:
  (A) header state machine `stream_header_equiv`;
  (B) prefix stability of the bit decoder `runDec_prefix_ok/err`,
      `processNext_prefix_cases`;
  (C) the 20-byte bound `need20 : Need20` (potential `range * 256^(bytes left)`,
      worst path 22 probability bits + 26 direct bits);
  (L5) `after_marker_continuation_errs`;
  (D) data phase: `stream_loop_sim_partial` (one `read_data`), `data_run_partial`
      (any chunk list), general theorem `stream_equals_oneshot`;
  `stream_zero_input`.
  The theorems named `…_partial` take `Need20` as an explicit hypothesis (they
  were proved first); the unsuffixed ones discharge it with `need20`.
-/
import LzmaProofs.Lemmas.StreamEquivMain
import LzmaProofs.Lemmas.StreamEquivNeed20
namespace Lzma
namespace C05

open StreamEq DState

/-- the run produced a value (no error) -/
def Ok {α : Type} (r : Sink × Except Err α) : Prop := ∃ a, r.2 = .ok a

/-! ## the property -/

/-- **C05, verdict-equivalence form (depends on `Need20`).**  `Veq x y` = both runs
fail, or they are equal (same sink, same value). -/
theorem stream_veq_oneshot_partial (hN : Need20) (opts : Options) (hA : opts.allowIncomplete = false)
    (cs : List Bytes) (hne : cs.flatten ≠ []) (snk : Sink) :
    Veq (streamRun opts cs snk) (toUnit (lzmaDecompress (Rd.ofBytes cs.flatten) opts snk)) := by
  have h0 : (Stream.newWithOptions opts).tmp ++ cs.flatten = cs.flatten := rfl
  have := header_run_partial hN cs (Stream.newWithOptions opts) snk rfl hA (HNone_nil opts)
    (by rw [h0]; exact hne)
  rw [h0] at this
  exact this

/-- **C05 (depends on `Need20`).**  For every option set with
`allow_incomplete = false`, every division `cs` of a non-empty input into chunks
and every sink: the stream run succeeds iff the one-shot decoder succeeds on the
concatenation, and then both leave the identical sink (in particular the same
output bytes). -/
theorem stream_equals_oneshot_partial (hN : Need20) (opts : Options) (hA : opts.allowIncomplete = false)
    (cs : List Bytes) (hne : cs.flatten ≠ []) (snk : Sink) :
    (Ok (streamRun opts cs snk) ↔ Ok (lzmaDecompress (Rd.ofBytes cs.flatten) opts snk)) ∧
    (Ok (streamRun opts cs snk) →
      (streamRun opts cs snk).1 = (lzmaDecompress (Rd.ofBytes cs.flatten) opts snk).1) := by
  have hv := stream_veq_oneshot_partial hN opts hA cs hne snk
  rcases hr : lzmaDecompress (Rd.ofBytes cs.flatten) opts snk with ⟨k, r⟩
  rw [hr] at hv
  rcases hv with ⟨⟨e1, h1⟩, ⟨e2, h2⟩⟩ | heq
  · cases r with
    | ok a => simp [toUnit] at h2
    | error e =>
      constructor
      · constructor
        · rintro ⟨a, ha⟩; rw [h1] at ha; cases ha
        · rintro ⟨a, ha⟩; cases ha
      · rintro ⟨a, ha⟩; rw [h1] at ha; cases ha
  · rw [heq]
    cases r with
    | ok a => exact ⟨⟨fun _ => ⟨a, rfl⟩, fun _ => ⟨(), rfl⟩⟩, fun _ => rfl⟩
    | error e =>
      constructor
      · constructor
        · rintro ⟨a, ha⟩; cases ha
        · rintro ⟨a, ha⟩; cases ha
      · rintro ⟨a, ha⟩; cases ha

/-- the perfect-sink instance: equal output bytes -/
theorem stream_equals_oneshot_out_partial (hN : Need20) (opts : Options)
    (hA : opts.allowIncomplete = false) (cs : List Bytes) (hne : cs.flatten ≠ []) :
    (Ok (streamRun opts cs {}) ↔ Ok (lzmaDecompress (Rd.ofBytes cs.flatten) opts {})) ∧
    (Ok (streamRun opts cs {}) →
      (streamRun opts cs {}).1.out = (lzmaDecompress (Rd.ofBytes cs.flatten) opts {}).1.out) := by
  obtain ⟨h1, h2⟩ := stream_equals_oneshot_partial hN opts hA cs hne {}
  exact ⟨h1, fun h => by rw [h2 h]⟩

/-- the restricted driver "whole input in one chunk" (header write, data write(s)
via re-submission, finish) -/
theorem stream_equals_oneshot_single_chunk_partial (hN : Need20) (opts : Options)
    (hA : opts.allowIncomplete = false) (x : Bytes) (hne : x ≠ []) (snk : Sink) :
    Veq (streamRun opts [x] snk) (toUnit (lzmaDecompress (Rd.ofBytes x) opts snk)) := by
  have := stream_veq_oneshot_partial hN opts hA [x] (by simpa using hne) snk
  simpa using this

/-- resumability: the division into chunks is irrelevant (`a` then `b` = `a ++ b`, etc.) -/
theorem stream_chunks_merge_partial (hN : Need20) (opts : Options) (hA : opts.allowIncomplete = false)
    (cs cs' : List Bytes) (h : cs.flatten = cs'.flatten) (hne : cs.flatten ≠ []) (snk : Sink) :
    Veq (streamRun opts cs snk) (streamRun opts cs' snk) := by
  have h1 := stream_veq_oneshot_partial hN opts hA cs hne snk
  have h2 := stream_veq_oneshot_partial hN opts hA cs' (by rw [← h]; exact hne) snk
  rw [h] at h1
  exact h1.trans h2.symm

/-! ## the property, unconditionally -/

/-- **C05.**  For every option set with `allow_incomplete = false`, every
division `cs` of a non-empty input into chunks and every sink (perfect, scripted
or faulty): the stream run (`feed` every chunk, then `finish`) succeeds iff
`lzma_decompress_with_options` succeeds on the concatenated bytes, and then both
leave the identical sink — in particular byte-identical output. -/
theorem stream_equals_oneshot (opts : Options) (hA : opts.allowIncomplete = false)
    (cs : List Bytes) (hne : cs.flatten ≠ []) (snk : Sink) :
    (Ok (streamRun opts cs snk) ↔ Ok (lzmaDecompress (Rd.ofBytes cs.flatten) opts snk)) ∧
    (Ok (streamRun opts cs snk) →
      (streamRun opts cs snk).1 = (lzmaDecompress (Rd.ofBytes cs.flatten) opts snk).1) :=
  stream_equals_oneshot_partial need20 opts hA cs hne snk

/-- C05 in verdict-equivalence form: both runs fail, or they are equal -/
theorem stream_veq_oneshot (opts : Options) (hA : opts.allowIncomplete = false)
    (cs : List Bytes) (hne : cs.flatten ≠ []) (snk : Sink) :
    Veq (streamRun opts cs snk) (toUnit (lzmaDecompress (Rd.ofBytes cs.flatten) opts snk)) :=
  stream_veq_oneshot_partial need20 opts hA cs hne snk

/-- C05 on the perfect sink `{}`: same verdict, equal output bytes -/
theorem stream_equals_oneshot_out (opts : Options) (hA : opts.allowIncomplete = false)
    (cs : List Bytes) (hne : cs.flatten ≠ []) :
    (Ok (streamRun opts cs {}) ↔ Ok (lzmaDecompress (Rd.ofBytes cs.flatten) opts {})) ∧
    (Ok (streamRun opts cs {}) →
      (streamRun opts cs {}).1.out = (lzmaDecompress (Rd.ofBytes cs.flatten) opts {}).1.out) :=
  stream_equals_oneshot_out_partial need20 opts hA cs hne

/-- the division into chunks is irrelevant -/
theorem stream_chunks_merge (opts : Options) (hA : opts.allowIncomplete = false)
    (cs cs' : List Bytes) (h : cs.flatten = cs'.flatten) (hne : cs.flatten ≠ []) (snk : Sink) :
    Veq (streamRun opts cs snk) (streamRun opts cs' snk) :=
  stream_chunks_merge_partial need20 opts hA cs cs' h hne snk

/-- (C) the 20-byte bound -/
theorem need20 : Need20 := StreamEq.need20

/-! ## zero total input: the one exception -/

theorem feed_empty (st : Stream) (snk : Sink) : Stream.feed 1 st [] 0 snk = (snk, st, .ok 0) := by
  simp [Stream.feed]

/-- **C05, zero input.**  If every chunk is empty, the stream run succeeds and
does not touch the sink (no output). -/
theorem stream_zero_input (opts : Options) (cs : List Bytes) (h : ∀ c ∈ cs, c = []) (snk : Sink) :
    streamRun opts cs snk = (snk, .ok ()) := by
  unfold streamRun
  generalize hst : Stream.newWithOptions opts = st
  have hs : st.state = some .header ∧ st.tmp = [] := by subst hst; exact ⟨rfl, rfl⟩
  clear hst
  induction cs with
  | nil =>
    rw [streamRunFrom_nil]
    unfold Stream.finish
    rw [hs.1]
    simp [hs.2]
  | cons c cs ih =>
    have hc : c = [] := h c (List.mem_cons_self ..)
    subst hc
    rw [streamRunFrom_cons_ok (feed_empty st snk)]
    exact ih (fun c hc => h c (List.mem_cons_of_mem _ hc))

/-- … whereas the one-shot decoder rejects the empty input: the exception is real -/
theorem oneshot_zero_input_fails (opts : Options) (snk : Sink) :
    ¬ Ok (lzmaDecompress (Rd.ofBytes []) opts snk) := by
  rintro ⟨a, ha⟩
  rcases hr : lzmaDecompress (Rd.ofBytes []) opts snk with ⟨k, r⟩
  rw [hr] at ha
  simp only at ha
  subst ha
  obtain ⟨rs, rd2, h⟩ := oneshot_ok_header hr
  have := srh_some h
  have hb := NN_bounds opts
  simp at this
  omega

/-! ## the layers, restated -/

/-- (B) prefix stability of the bit decoder, success case -/
theorem runDec_prefix_ok {σ ι α : Type} [ProbStore σ ι] (u : Bool) (t : Coder ι α) (s : σ) (rc : RC)
    (a : Bytes) (x : α) (s' : σ) (rc' : RC) (rd' : Rd)
    (h : runDec u t s rc ⟨a, false⟩ = .ok (x, s', rc', rd')) :
    rd'.bad = false ∧ rd'.rem <:+ a ∧
      ∀ b, runDec u t s rc ⟨a ++ b, false⟩ = .ok (x, s', rc', ⟨rd'.rem ++ b, false⟩) :=
  runDec_ok_app u t s rc a x s' rc' rd' h

/-- (B) prefix stability, failure case: any error but `eof` persists -/
theorem runDec_prefix_err {σ ι α : Type} [ProbStore σ ι] (u : Bool) (t : Coder ι α) (s : σ) (rc : RC)
    (a : Bytes) (e : Err) (h : runDec u t s rc ⟨a, false⟩ = .error e) :
    e = .eof ∨ ∀ b, runDec u t s rc ⟨a ++ b, false⟩ = .error e :=
  runDec_err_app u t s rc a e h

/-- (B) lifted to `process_next`: on the local reader `a` it either runs out of
input at the bit level, or fails identically on every extension, or continues
identically on every extension, or — end marker with the LOCAL reader exhausted
and `code = 0` — returns `Finished` while every proper extension is rejected -/
theorem processNext_prefix_cases (s : DState) (w : Circ) (rc : RC) (a : Bytes) (snk : Sink) :
    (dec1 s w rc ⟨a, false⟩ = .error .eof) ∨
    (∃ k e, ∀ b, processNext s w rc ⟨a ++ b, false⟩ snk = (k, .error e)) ∨
    (∃ k s' w' rc' a', a' <:+ a ∧ ∀ b, processNext s w rc ⟨a ++ b, false⟩ snk =
        (k, .ok (.continue, s', w', rc', ⟨a' ++ b, false⟩))) ∨
    (∃ s' rc', processNext s w rc ⟨a, false⟩ snk = (snk, .ok (.finished, s', w, rc', ⟨[], false⟩)) ∧
        rc'.code = 0 ∧ s'.rep0 = 0xFFFFFFFF ∧ 7 ≤ s'.state ∧
        ∀ b, b ≠ [] → processNext s w rc ⟨a ++ b, false⟩ snk = (snk, .error .lzma)) :=
  processNext_cases s w rc a snk

/-- (L5) after an end marker nothing decodes any more, dry run or real run -/
theorem after_marker_continuation_errs (u : Bool) (s : DState) (w : Circ) (rc : RC) (rd : Rd)
    (hcode : rc.code = 0) (hrep : s.rep0 = 0xFFFFFFFF) (hstate : 7 ≤ s.state)
    (hdict : w.dictSize < 4294967296) (hrange : 2048 ≤ rc.range)
    (hp : ∀ v, s.probs.get (.isMatch ((s.state <<< 4) + (s.mkCtx w).posState)) = .ok v → 0 < v) :
    ∃ e, runDec u (symTree (s.mkCtx w)) s.probs rc rd = .error e :=
  StreamEq.after_marker_continuation_errs u s w rc rd hcode hrep hstate hdict hrange hp

/-- (A) one `write` in Header state with everything received so far staged in `tmp` -/
theorem stream_header_equiv {st : Stream} (hs : st.state = some .header)
    (hopt : st.options.allowIncomplete = false) (hno : HNone st.options st.tmp)
    {data : Bytes} (hdne : data ≠ []) (snk : Sink) :
    (∃ e, st.write data snk = (snk, .error e) ∧
      ∀ G snk', IsErr (toUnit (lzmaDecompress ⟨st.tmp ++ data ++ G, false⟩ st.options snk'))) ∨
    (∃ st', st.write data snk = (snk, .ok (st', data.length)) ∧ st'.state = some .header ∧
      st'.tmp = st.tmp ++ data ∧ st'.options = st.options ∧ HNone st.options (st.tmp ++ data)) ∨
    (∃ st' n rs, st.write data snk = (snk, .ok (st', n)) ∧ 0 < n ∧ n ≤ data.length ∧
      DataInv st' rs ∧ st'.options = st.options ∧
      ∀ G snk', Veq (toUnit (lzmaDecompress ⟨st.tmp ++ data ++ G, false⟩ st.options snk'))
        (sfin st' rs (data.drop n ++ G) snk')) :=
  StreamEq.stream_header_equiv hs hopt hno hdne snk

/-- (D) from any stream in Data state, any chunk list then `finish` = the one-shot
tail on `tmp ++ partialBuf ++ chunks.flatten` -/
theorem data_phase_partial (hN : Need20) (cs : List Bytes) (st : Stream) (rs : RunState) (snk : Sink)
    (hD : DataInv st rs) (ho : st.options.allowIncomplete = false) :
    Veq (streamRunFrom st cs snk) (sfin st rs cs.flatten snk) :=
  data_run_partial hN cs st rs snk hD ho

/-! ## non-vacuity -/

/-- the decidable hypotheses are satisfiable -/
example : ({} : Options).allowIncomplete = false ∧ ([[0x5d], [0, 0, 0x80]] : List Bytes).flatten ≠ [] := by
  decide

/-- the empty file with end marker, split `[[0x5d],[0,0,0x80],[…]]` -/
def emptyEosChunks : List Bytes :=
  [[0x5d], [0, 0, 0x80], [0] ++ List.replicate 8 0xff ++ [0, 0x83, 0xff, 0xfb, 0xff, 0xff, 0xc0, 0, 0, 0]]

/-- "aaaa" compressed by liblzma (lc = lp = pb = 0, end marker), in seven chunks
(one of them empty, the header spread over three) -/
def aaaaBytes : Bytes :=
  [0, 0, 16, 0, 0, 255, 255, 255, 255, 255, 255, 255, 255, 0, 48, 233, 119, 239, 255, 255, 255, 225, 0, 0, 0]
def aaaaChunks : List Bytes :=
  [[0], [0, 16, 0], [0, 255, 255, 255, 255, 255, 255, 255, 255], [0, 48], [], [233],
   [119, 239, 255, 255, 255, 225, 0, 0, 0]]

def outIs (exp : Array UInt8) (r : Sink × Except Err Unit) : Bool :=
  match r.2 with
  | .ok _ => r.1.out == exp
  | .error _ => false

example : outIs #[] (streamRun {} emptyEosChunks {}) = true := by decide +kernel
example : outIs #[] (toUnit (lzmaDecompress (Rd.ofBytes emptyEosChunks.flatten) {} {})) = true := by
  decide +kernel
example : aaaaChunks.flatten = aaaaBytes := by decide
example : outIs #[97, 97, 97, 97] (streamRun {} aaaaChunks {}) = true := by decide +kernel
example : outIs #[97, 97, 97, 97] (toUnit (lzmaDecompress (Rd.ofBytes aaaaBytes) {} {})) = true := by
  decide +kernel
/-- a truncated stream fails in both drivers -/
example : outIs #[97, 97, 97, 97] (streamRun {} (aaaaChunks.take 6) {}) = false := by decide +kernel
example : outIs #[97, 97, 97, 97]
    (toUnit (lzmaDecompress (Rd.ofBytes (aaaaChunks.take 6).flatten) {} {})) = false := by decide +kernel
/-- zero input: the stream accepts, the one-shot decoder does not -/
example : outIs #[] (streamRun {} [[], []] {}) = true := by decide +kernel
example : outIs #[] (toUnit (lzmaDecompress (Rd.ofBytes []) {} {})) = false := by decide +kernel

end C05
end Lzma
