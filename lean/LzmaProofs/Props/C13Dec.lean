/-
  C13 for WHOLE DECODERS — the verdict, the output and the number of bytes consumed of
  each one-shot decoder do not depend on how the input reader fragments its data.

  `LzmaModel/FDecoders.lean` writes the one-shot decoders (`lzma_decompress_with_options`,
  `lzma2_decompress`, `xz_decompress`) once over an abstract reader interface
  (`ByteSrc` + `DecSrc`).  Two facts are proved about these generic decoders:

  * **bridge**: instantiated at the flat model reader `Rd` they ARE the model decoders
    (`generic_decoders_at_Rd`);
  * **parametricity**: run on related readers they produce the same sink, the same
    verdict/error and related remaining readers (`LzmaProofs/Lemmas/FDecoders.lean`,
    `…G_rel`; the reader relation for `FRd`/`Rd` is `Sim fr rd := fr.WF ∧ fr.toRd = rd`, for
    whose primitives C13.lean proved the correspondence).

  Hence a decoder run on ANY fragmentation `fr` of the input gives the flat model's result
  on `fr.toRd`, and two fragmentations of the same bytes give the same result.

  Scope / trust.  (1) `process_mode` is covered in Finish mode with nothing staged in
  `partial_input_buf` — the only way the one-shot decoders ever run it (the generic
  functions' own top-level entry points establish that invariant; `Partial` mode, which
  inspects `fill_buf` contents, is only run by `Stream` on in-memory cursors).
  (2) The XZ block header is read in Rust through
  `BufReader(CrcDigestRead(Take(header_size)))`; the generic decoder, like the flat model,
  parses the `Take`n sub-reader directly.  The `BufReader` only decides how many header
  bytes have been pulled from the caller's reader when the header parse FAILS (finding K2,
  `C13.k2_witness`); error results carry no reader in this model, so nothing is claimed
  about the reader position after an error.  (3) That the Rust decoders use their reader
  only through these primitives is the call-site audit's claim, not a theorem.
-/
import LzmaProofs.Lemmas.FDecoders
namespace Lzma.C13
open Lzma FRd FD

/-! ## the statements -/

/-- Outcome of a decoder run on a fragmented reader (`x`) against the flat model's (`y`):
same sink (same bytes written, same raw calls); success is matched by success with the same
logical remainder (`fr'.toRd = rd'`, again without empty piece) — hence the same number of
bytes consumed; failure by failure with the SAME error. -/
def RunCorr (x : Sink × Except Err FRd) (y : Sink × Except Err Rd) : Prop :=
  x.1 = y.1 ∧
  (∀ fr', x.2 = .ok fr' → fr'.WF ∧ y.2 = .ok fr'.toRd) ∧
  (∀ rd', y.2 = .ok rd' → ∃ fr', x.2 = .ok fr' ∧ fr'.WF ∧ fr'.toRd = rd') ∧
  (∀ e, x.2 = .error e ↔ y.2 = .error e)

/-- Outcomes of the same decoder on two fragmented readers: same sink, same verdict, the same
error on failure, the same logical remainder on success. -/
def RunSame (x y : Sink × Except Err FRd) : Prop :=
  x.1 = y.1 ∧
  (∀ r, x.2 = .ok r → ∃ r', y.2 = .ok r' ∧ r'.WF ∧ r.toRd = r'.toRd) ∧
  (∀ r', y.2 = .ok r' → ∃ r, x.2 = .ok r ∧ r.WF ∧ r.toRd = r'.toRd) ∧
  (∀ e, x.2 = .error e ↔ y.2 = .error e)

/-- equal logical remainders of fragmentations of the same input = equally many bytes consumed -/
theorem consumed_eq {fr₁ fr₂ r₁ r₂ : FRd} (h : fr₁.toRd = fr₂.toRd) (hr : r₁.toRd = r₂.toRd) :
    fr₁.join.length - r₁.join.length = fr₂.join.length - r₂.join.length := by
  have h1 : fr₁.join = fr₂.join := congrArg Rd.rem h
  have h2 : r₁.join = r₂.join := congrArg Rd.rem hr
  rw [h1, h2]

theorem runCorr_of_relM {x : M FRd} {y : M Rd} (h : RelM Sim x y) (snk : Sink) :
    RunCorr (x snk) (y snk) := by
  obtain ⟨h1, h2⟩ := h snk
  rw [RelE_iff] at h2
  obtain ⟨a, b, c⟩ := h2
  refine ⟨h1, ?_, ?_, c⟩
  · intro fr' hx
    obtain ⟨rd', hy, hw, ht⟩ := a fr' hx
    subst ht
    exact ⟨hw, hy⟩
  · intro rd' hy
    obtain ⟨fr', hx, hw, ht⟩ := b rd' hy
    exact ⟨fr', hx, hw, ht⟩

theorem runSame_of_runCorr {x x' : Sink × Except Err FRd} {y : Sink × Except Err Rd}
    (h : RunCorr x y) (h' : RunCorr x' y) : RunSame x x' := by
  obtain ⟨a1, a2, a3, a4⟩ := h
  obtain ⟨b1, b2, b3, b4⟩ := h'
  refine ⟨a1.trans b1.symm, ?_, ?_, fun e => (a4 e).trans (b4 e).symm⟩
  · intro r hx
    obtain ⟨_, hy⟩ := a2 r hx
    obtain ⟨r', hx', hw', ht'⟩ := b3 _ hy
    exact ⟨r', hx', hw', ht'.symm⟩
  · intro r' hx'
    obtain ⟨_, hy⟩ := b2 r' hx'
    obtain ⟨r, hx, hw, ht⟩ := a3 _ hy
    exact ⟨r, hx, hw, ht⟩

/-! ## bridge: the generic decoders at the flat reader are the model decoders -/

/-- **Bridge.**  Instantiated at the model's flat reader `Rd` (whose `DecSrc` instance
consists of the model's own reader functions), the generic decoders are the model decoders. -/
theorem generic_decoders_at_Rd :
    (∀ rd opts, lzmaDecompressG (ρ := Rd) rd opts = lzmaDecompress rd opts) ∧
    (∀ rd, lzma2DecompressG (ρ := Rd) rd = lzma2Decompress rd) ∧
    (∀ rd, xzDecompressG (ρ := Rd) rd = xzDecompress rd) :=
  ⟨lzmaDecompressG_Rd, lzma2DecompressG_Rd, xzDecompressG_Rd⟩

/-- the same for the building blocks (no side condition) -/
theorem generic_parts_at_Rd :
    (∀ fuel (s : DState) (w : Circ) rc (rd : Rd),
      DState.processLoopG fuel s w rc rd = DState.processLoop .finish fuel s w rc rd) ∧
    (∀ (s : DState) (w : Accum) rc (rd : Rd),
      DState.processModeG s w rc rd = DState.processMode .finish s w rc rd) ∧
    (∀ (d : LzmaDecoder) (rd : Rd), d.decompressG rd = d.decompress rd) ∧
    (∀ (d : Lzma2Decoder) accum (rd : Rd) status,
      d.parseLzmaG accum rd status = d.parseLzma accum rd status) ∧
    (∀ accum (rd : Rd) r,
      Lzma2Decoder.parseUncompressedG accum rd r = Lzma2Decoder.parseUncompressed accum rd r) ∧
    (∀ (d : Lzma2Decoder) (rd : Rd), d.decompressG rd = d.decompress rd) ∧
    (∀ (rd : Rd), parseStreamHeaderG rd = parseStreamHeader rd) ∧
    (∀ (rd : Rd) hs, readBlockHeaderG rd hs = readBlockHeader rd hs) ∧
    (∀ start rs (rd : Rd), checkIndexG start rs rd = checkIndex start rs rd) ∧
    (∀ start (rd : Rd) check hs, readBlockG start rd check hs = readBlock start rd check hs) :=
  ⟨processLoopG_Rd, processModeG_Rd, LzmaDecoder.decompressG_Rd, parseLzmaG_Rd,
    parseUncompressedG_Rd, Lzma2Decoder.decompressG_Rd, parseStreamHeaderG_Rd, readBlockHeaderG_Rd,
    checkIndexG_Rd, readBlockG_Rd⟩

/-! ## a fragmented run is the flat model's run -/

/-- **`.lzma` on a fragmented reader = the model on the flat reader.** -/
theorem lzma_fragmented_eq_flat (fr : FRd) (hwf : fr.WF) (opts : Options) (snk : Sink) :
    RunCorr (lzmaDecompressG fr opts snk) (lzmaDecompress fr.toRd opts snk) := by
  rw [← lzmaDecompressG_Rd]
  exact runCorr_of_relM (lzmaDecompressG_rel FRd.decSrcRel opts (Sim.self hwf)) snk

/-- **LZMA2 on a fragmented reader = the model on the flat reader.** -/
theorem lzma2_fragmented_eq_flat (fr : FRd) (hwf : fr.WF) (snk : Sink) :
    RunCorr (lzma2DecompressG fr snk) (lzma2Decompress fr.toRd snk) := by
  rw [← lzma2DecompressG_Rd]
  exact runCorr_of_relM (lzma2DecompressG_rel FRd.decSrcRel (Sim.self hwf)) snk

/-- **XZ on a fragmented reader = the model on the flat reader.** -/
theorem xz_fragmented_eq_flat (fr : FRd) (hwf : fr.WF) (snk : Sink) :
    RunCorr (xzDecompressG fr snk) (xzDecompress fr.toRd snk) := by
  rw [← xzDecompressG_Rd]
  exact runCorr_of_relM (xzDecompressG_rel FRd.decSrcRel (Sim.self hwf)) snk

/-! ## fragmentation independence -/

/-- **C13 for `lzma_decompress_with_options`.**  For any two fragmentations of the same bytes
(any pieces, same end kind), any options and any sink (any script of short writes/failures):
same resulting sink, same verdict, same error class on failure, and on success the same
logical remainder — the same number of bytes consumed (`consumed_eq`). -/
theorem lzma_fragmentation_independent (fr₁ fr₂ : FRd) (h₁ : fr₁.WF) (h₂ : fr₂.WF)
    (hsame : fr₁.toRd = fr₂.toRd) (opts : Options) (snk : Sink) :
    RunSame (lzmaDecompressG fr₁ opts snk) (lzmaDecompressG fr₂ opts snk) := by
  have a := lzma_fragmented_eq_flat fr₁ h₁ opts snk
  rw [hsame] at a
  exact runSame_of_runCorr a (lzma_fragmented_eq_flat fr₂ h₂ opts snk)

/-- **C13 for `lzma2_decompress`.** -/
theorem lzma2_fragmentation_independent (fr₁ fr₂ : FRd) (h₁ : fr₁.WF) (h₂ : fr₂.WF)
    (hsame : fr₁.toRd = fr₂.toRd) (snk : Sink) :
    RunSame (lzma2DecompressG fr₁ snk) (lzma2DecompressG fr₂ snk) := by
  have a := lzma2_fragmented_eq_flat fr₁ h₁ snk
  rw [hsame] at a
  exact runSame_of_runCorr a (lzma2_fragmented_eq_flat fr₂ h₂ snk)

/-- **C13 for `xz_decompress`.**  Same sink, same verdict, and on success the same number of
bytes consumed.  (The error agrees as well in this model, where the block header is parsed
from the `Take`n sub-reader as in the flat model; the position of the caller's reader after an
ERROR is not part of any result here and does depend on the fragmentation in Rust — K2.) -/
theorem xz_fragmentation_independent (fr₁ fr₂ : FRd) (h₁ : fr₁.WF) (h₂ : fr₂.WF)
    (hsame : fr₁.toRd = fr₂.toRd) (snk : Sink) :
    RunSame (xzDecompressG fr₁ snk) (xzDecompressG fr₂ snk) := by
  have a := xz_fragmented_eq_flat fr₁ h₁ snk
  rw [hsame] at a
  exact runSame_of_runCorr a (xz_fragmented_eq_flat fr₂ h₂ snk)

/-! ## Non-vacuity -/

/-- `out` was written, the run succeeded and left exactly `rest` unread -/
def okWith (x : Sink × Except Err FRd) (out : Array UInt8) (rest : Bytes) : Bool :=
  x.1.out == out && match x.2 with
    | .ok r => r.join == rest
    | .error _ => false

/-- the run failed with `e` after writing `out` -/
def failsWith (x : Sink × Except Err FRd) (out : Array UInt8) (e : Err) : Bool :=
  x.1.out == out && match x.2 with
    | .ok _ => false
    | .error e' => e' == e

/-- LZMA2: one uncompressed chunk `abc` and the end marker, then two trailing bytes;
pieces cut inside the chunk header, inside the payload and inside the trailer -/
def l2a : FRd := { frags := [[1], [0, 2, 0x61], [0x62, 0x63, 0, 9], [9]] }
/-- the same bytes in one piece -/
def l2b : FRd := { frags := [[1, 0, 2, 0x61, 0x62, 0x63, 0, 9, 9]] }
/-- the same bytes one at a time -/
def l2c : FRd := { frags := [[1], [0], [2], [0x61], [0x62], [0x63], [0], [9], [9]] }

example : l2a.WF ∧ l2b.WF ∧ l2c.WF := by decide
example : l2a.toRd = l2b.toRd ∧ l2c.toRd = l2b.toRd := ⟨rfl, rfl⟩

/-- all three decode `abc` and stop after the end marker, 7 of the 9 bytes consumed -/
example : okWith (lzma2DecompressG l2a {}) #[0x61, 0x62, 0x63] [9, 9] = true ∧
    okWith (lzma2DecompressG l2b {}) #[0x61, 0x62, 0x63] [9, 9] = true ∧
    okWith (lzma2DecompressG l2c {}) #[0x61, 0x62, 0x63] [9, 9] = true := by decide +kernel

/-- the theorem applied (hypotheses met by evaluation) -/
example : RunSame (lzma2DecompressG l2a {}) (lzma2DecompressG l2c {}) :=
  lzma2_fragmentation_independent l2a l2c (by decide) (by decide) rfl {}

/-- the task's example: `[1,0,2,0x61,0x62,0x63,0]` split as `[[1],[0,2,0x61],[0x62,0x63,0]]` -/
example : okWith (lzma2DecompressG (FRd.mk [[1], [0, 2, 0x61], [0x62, 0x63, 0]] false) {})
    #[0x61, 0x62, 0x63] [] = true := by decide +kernel

/-- an error case: the input ends inside the chunk; a plain reader and a faulty one
(`bad`), fragmented or not, give `LzmaError` (lzma-rs maps the I/O error) -/
example :
    failsWith (lzma2DecompressG (FRd.mk [[1], [0, 2, 0x61], [0x62]] false) {}) #[] .lzma = true ∧
    failsWith (lzma2DecompressG (FRd.mk [[1, 0, 2, 0x61, 0x62]] false) {}) #[] .lzma = true ∧
    failsWith (lzma2DecompressG (FRd.mk [[1], [0, 2, 0x61], [0x62]] true) {}) #[] .lzma = true := by
  decide +kernel

/-- `.lzma` (liblzma's encoding of `abababab`, lc=0 lp=0 pb=0, unknown size, end marker:
two literals, a match, the marker), cut inside the header, inside the range-coder
initialisation and inside the payload -/
def lza : FRd := { frags := [[0, 0, 16], [0, 0, 255, 255, 255, 255, 255, 255, 255, 255, 0, 48, 153],
  [200], [209, 34, 18, 123, 255, 254, 223, 152, 0]] }
def lzb : FRd := { frags := [[0, 0, 16, 0, 0, 255, 255, 255, 255, 255, 255, 255, 255, 0, 48, 153,
  200, 209, 34, 18, 123, 255, 254, 223, 152, 0]] }

example : lza.WF ∧ lzb.WF ∧ lza.toRd = lzb.toRd := ⟨by decide, by decide, rfl⟩

example : okWith (lzmaDecompressG lza {} {}) #[0x61, 0x62, 0x61, 0x62, 0x61, 0x62, 0x61, 0x62] [] = true ∧
    okWith (lzmaDecompressG lzb {} {}) #[0x61, 0x62, 0x61, 0x62, 0x61, 0x62, 0x61, 0x62] [] = true := by
  decide +kernel

example : RunSame (lzmaDecompressG lza {} {}) (lzmaDecompressG lzb {} {}) :=
  lzma_fragmentation_independent lza lzb (by decide) (by decide) rfl {} {}

/-- `.xz` (liblzma's container for `abc`, CRC32 check), cut inside the magic, the stream
header, the block header (12 bytes: the `Take`), the LZMA2 chunk, the index and the footer -/
def xza : FRd := { frags := [[253, 55, 122, 88], [90, 0, 0, 1, 105, 34, 222, 54, 2, 0, 33],
  [1, 0, 0, 0, 0, 55, 39, 151, 214, 1, 0, 2, 97, 98],
  [99, 0, 0, 194, 65, 36, 53, 0, 1, 23, 3, 7, 96, 12, 188, 144, 66, 153, 13, 1, 0, 0, 0, 0, 1, 89],
  [90]] }
def xzb : FRd := { frags := [[253, 55, 122, 88, 90, 0, 0, 1, 105, 34, 222, 54, 2, 0, 33,
  1, 0, 0, 0, 0, 55, 39, 151, 214, 1, 0, 2, 97, 98,
  99, 0, 0, 194, 65, 36, 53, 0, 1, 23, 3, 7, 96, 12, 188, 144, 66, 153, 13, 1, 0, 0, 0, 0, 1, 89,
  90]] }

example : xza.WF ∧ xzb.WF ∧ xza.toRd = xzb.toRd := ⟨by decide, by decide, rfl⟩

example : okWith (xzDecompressG xza {}) #[0x61, 0x62, 0x63] [] = true ∧
    okWith (xzDecompressG xzb {}) #[0x61, 0x62, 0x63] [] = true := by decide +kernel

example : RunSame (xzDecompressG xza {}) (xzDecompressG xzb {}) :=
  xz_fragmentation_independent xza xzb (by decide) (by decide) rfl {}

/-- an XZ error case (a flipped bit in the block-header CRC): `XzError` on both, nothing written -/
example :
    failsWith (xzDecompressG { xza with frags := xza.frags.map (·.map fun b => if b = 214 then 215 else b) } {})
      #[] .xz = true ∧
    failsWith (xzDecompressG { xzb with frags := xzb.frags.map (·.map fun b => if b = 214 then 215 else b) } {})
      #[] .xz = true := by decide +kernel

/-- Why the correspondence lemmas (`processLoopG_rel`, …) assume that nothing is staged in
`partial_input_buf`: `read_partial_input_buf` is ONE raw `read`, and a raw `read` returns
what the current piece holds.  (Never reached by the one-shot decoders.) -/
example :
    let s : DState := { partialBuf := [0], props := ⟨0, 0, 0⟩, unpackedSize := none,
                        probs := Probs.init 1 }
    (DState.readPartialInputBufG s (FRd.mk [[1], [2]] false)).map (·.1.partialBuf) = .ok [0, 1] ∧
    (DState.readPartialInputBufG s (FRd.mk [[1, 2]] false)).map (·.1.partialBuf) = .ok [0, 1, 2] :=
  ⟨rfl, rfl⟩

end Lzma.C13
