/-
  C10 — the memory limit is honoured exactly.

  Subject: `Circ` (= Rust `LzCircularBuffer`) of `LzmaModel/Window.lean`.
  * never more: `buf.len() ≤ memlimit` after every op of every sequence — for every sink
    behaviour and every distance (even the `dist = 0` the decoder never issues);
  * never less: the allocation is exactly `min produced dictSize`, a run fails with `lzma` iff
    `min dictSize produced` would exceed the limit, at the first op that would do so and before
    anything reaches the sink; with enough memory the limit is invisible.
  "produced" = length of the ideal history `idealPrefix d ops []` (up to the end or to the first
  op the ideal semantics rejects).
-/
import LzmaProofs.Lemmas.Window
namespace Lzma.C10

/-- `buf.len() ≤ memlimit` is part of the invariant -/
theorem inv_buf_le_memlimit {w : Circ} {H : Bytes} (h : CircInv w H) :
    w.buf.size ≤ w.memlimit ∧ w.buf.size = min H.length w.dictSize :=
  ⟨h.size_le, h.size_eq⟩

/-- After every op of every sequence (apply it to each prefix), for EVERY sink script and every
distance, the allocation respects the limit; `memlimit` and `dictSize` never change. -/
theorem buf_le_memlimit {ops : List WinOp} {w w' : Circ} {s s' : Sink}
    (hb : w.buf.size ≤ w.memlimit) (h : Circ.runOps ops w s = (s', .ok w')) :
    w'.buf.size ≤ w'.memlimit ∧ w'.memlimit = w.memlimit ∧ w'.dictSize = w.dictSize :=
  Circ.runOps_size_le h hb

/-- the same for the single operations (any sink, any arguments) -/
theorem buf_le_memlimit_step {w w' : Circ} {s s' : Sink} (hb : w.buf.size ≤ w.memlimit) :
    (∀ b, w.appendLiteral b s = (s', .ok w') → w'.buf.size ≤ w'.memlimit) ∧
    (∀ len dist, w.appendLz len dist s = (s', .ok w') → w'.buf.size ≤ w'.memlimit) :=
  ⟨fun _ h => (Circ.appendLiteral_size_le h hb).1, fun _ _ h => (Circ.appendLz_size_le h hb).1⟩

theorem buf_le_memlimit_fresh {ops : List WinOp} {d m : Nat} {w' : Circ} {s s' : Sink}
    (h : Circ.runOps ops (Circ.fromStream d m) s = (s', .ok w')) :
    w'.buf.size ≤ m := by
  have := Circ.runOps_size_le h (by simp [Circ.fromStream])
  have e : (Circ.fromStream d m).memlimit = m := rfl
  omega

/-- non-vacuity: a run with a misbehaving sink (a short write) and a `dist = 0` op -/
example :
    Circ.runOps [.lit 1, .lit 2, .lz 3 0] (Circ.fromStream 2 2) { script := [.upto 1, .all] } =
      ({ out := #[1, 2, 1, 2], writes := 3 },
       .ok { buf := #[1, 2], dictSize := 2, memlimit := 2, cursor := 1, len := 5 }) := by
  decide +kernel

/-- Enough memory: the limit is invisible.  For any two limits that both accommodate
`min d produced`, the runs give the same result for the op list, the same sink and the same
window up to the `memlimit` field.  (Take `m' = d`, or anything larger, as "unlimited".) -/
theorem memlimit_exact {ops : List WinOp} {d m m' : Nat} {s0 : Sink} (hd : 0 < d)
    (hs : s0.Perfect) (hv : ∀ op ∈ ops, op.Valid)
    (hm : min (idealPrefix d ops []).length d ≤ m)
    (hm' : min (idealPrefix d ops []).length d ≤ m') :
    Circ.runOps ops (Circ.fromStream d m) s0 =
      ((Circ.runOps ops (Circ.fromStream d m') s0).1,
       (Circ.runOps ops (Circ.fromStream d m') s0).2.map fun w => { w with memlimit := m }) :=
  Circ.memlimit_exact_of_le hd hs hv hm hm'

/-- `m' = d` always qualifies as "unlimited" -/
theorem memlimit_exact_unlimited {ops : List WinOp} {d m : Nat} {s0 : Sink} (hd : 0 < d)
    (hs : s0.Perfect) (hv : ∀ op ∈ ops, op.Valid)
    (hm : min (idealPrefix d ops []).length d ≤ m) :
    Circ.runOps ops (Circ.fromStream d m) s0 =
      ((Circ.runOps ops (Circ.fromStream d d) s0).1,
       (Circ.runOps ops (Circ.fromStream d d) s0).2.map fun w => { w with memlimit := m }) :=
  Circ.memlimit_exact_of_le hd hs hv hm (Nat.min_le_right _ _)

/-- Not enough memory: `lzma` error, and nothing at all has reached the sink. -/
theorem memlimit_exceeded {ops : List WinOp} {d m : Nat} {s0 : Sink} (hd : 0 < d)
    (hs : s0.Perfect) (hv : ∀ op ∈ ops, op.Valid)
    (hm : ¬ min (idealPrefix d ops []).length d ≤ m) :
    Circ.runOps ops (Circ.fromStream d m) s0 = (s0, .error .lzma) :=
  Circ.memlimit_exact_of_not_le hd hs hv hm

/-- The failing op is exactly the first one that would make `min d produced` exceed the limit:
if the ops before it are ideal-accepted producing `Hp` with `min Hp.length d ≤ m`, they run fine
(window represents `Hp`, sink untouched), and `op` — a literal or a match inside the window —
with `min (Hp.length + op.outLen) d > m` fails. -/
theorem memlimit_fails_at {pre post : List WinOp} {op : WinOp} {d m : Nat} {s0 : Sink}
    {Hp : Bytes} (hd : 0 < d) (hs : s0.Perfect) (hv : ∀ o ∈ pre ++ op :: post, o.Valid)
    (hpre : idealOps d pre [] = some Hp) (hfit : min Hp.length d ≤ m)
    (hop : ∀ len dist, op = .lz len dist → dist ≤ min Hp.length d)
    (hover : ¬ min (Hp.length + op.outLen) d ≤ m) :
    (∃ w, Circ.runOps pre (Circ.fromStream d m) s0 = (s0, .ok w) ∧ CircInv w Hp) ∧
      Circ.runOps (pre ++ op :: post) (Circ.fromStream d m) s0 = (s0, .error .lzma) :=
  Circ.memlimit_fails_at hd hs hv hpre hfit hop hover

/-- single-step form: exact accept/reject condition of each operation w.r.t. the limit -/
theorem memlimit_step {w : Circ} {H : Bytes} {s : Sink} (h : CircInv w H) (hs : s.Perfect) :
    (∀ b, (∃ s' w', w.appendLiteral b s = (s', .ok w')) ↔
      min (H.length + 1) w.dictSize ≤ w.memlimit) ∧
    (∀ len dist, 1 ≤ dist → dist ≤ w.dictSize → dist ≤ H.length →
      ((∃ s' w', w.appendLz len dist s = (s', .ok w')) ↔
        (len = 0 ∨ min (H.length + len) w.dictSize ≤ w.memlimit))) := by
  refine ⟨fun b => ?_, fun len dist h1 h2 h3 => ?_⟩
  · by_cases hm : min (H.length + 1) w.dictSize ≤ w.memlimit
    · obtain ⟨w', e, _⟩ := Circ.appendLiteral_ok (s := s) b h hs hm
      exact ⟨fun _ => hm, fun _ => ⟨_, w', e⟩⟩
    · refine ⟨fun ⟨s', w', e⟩ => ?_, fun hh => absurd hh hm⟩
      rw [Circ.appendLiteral_fail s b h hm] at e
      injection e with _ e2
      cases e2
  · have hsp := Circ.appendLz_spec (s := s) len h hs h1
    by_cases hm : len = 0 ∨ min (H.length + len) w.dictSize ≤ w.memlimit
    · rw [if_pos ⟨h2, h3, hm⟩] at hsp
      obtain ⟨w', e, _⟩ := hsp
      exact ⟨fun _ => hm, fun _ => ⟨_, w', e⟩⟩
    · rw [if_neg (fun hh => hm hh.2.2)] at hsp
      refine ⟨fun ⟨s', w', e⟩ => ?_, fun hh => absurd hh hm⟩
      rw [hsp] at e
      injection e with _ e2
      cases e2

/-- `d = 4`, ops produce 6 bytes: `min 4 6 = 4`.  Limit 4 behaves like limit 1000 (up to the
field); limit 3 fails — at the copy, the first op that needs the 4th cell — with an untouched
sink, while limit 3 is fine for the first two ops. -/
example :
    (∀ op ∈ [WinOp.lit 1, .lit 2, .lz 4 2], op.Valid) ∧
    idealPrefix 4 [.lit 1, .lit 2, .lz 4 2] [] = [1, 2, 1, 2, 1, 2] ∧
    Circ.runOps [.lit 1, .lit 2, .lz 4 2] (Circ.fromStream 4 4) {} =
      ({ out := #[1, 2, 1, 2], writes := 1 },
       .ok { buf := #[1, 2, 1, 2], dictSize := 4, memlimit := 4, cursor := 2, len := 6 }) ∧
    Circ.runOps [.lit 1, .lit 2, .lz 4 2] (Circ.fromStream 4 1000) {} =
      ({ out := #[1, 2, 1, 2], writes := 1 },
       .ok { buf := #[1, 2, 1, 2], dictSize := 4, memlimit := 1000, cursor := 2, len := 6 }) ∧
    Circ.runOps [.lit 1, .lit 2, .lz 4 2] (Circ.fromStream 4 3) {} = ({}, .error .lzma) ∧
    Circ.runOps [.lit 1, .lit 2] (Circ.fromStream 4 3) {} =
      ({}, .ok { buf := #[1, 2], dictSize := 4, memlimit := 3, cursor := 2, len := 2 }) := by
  decide +kernel

end Lzma.C10
