/-
  C01 — LZMA decoding is exact for every well-formed stream: END-TO-END.

  `lzmaDecompress` (header, `LzmaDecoder::new`, `RangeDecoder::new`, the symbol loop of
  `process_mode(Finish)`, the circular window, `finish`) applied to
  `lzmaHeader … ++ encodeSyms props dict prog ++ T` — the bytes the reference encoder produces
  for ANY symbol program `prog` that is well-formed in the format-level semantics `SpecSt.run` —
  returns exactly the bytes the program denotes (`expand`), flushes, and leaves the reader
  exactly behind the payload.  Composed from the range-coder simulation (`RangeCoder.lean`), the
  symbol layer (`C01Sym`), the window theorems (`Window.lean`), the loop analysis
  (`ProcessMode.lean`) and the termination theorem (`SafetyLoop.lean`).
-/
import LzmaProofs.Lemmas.DecodeExactTop
import LzmaProofs.Props.C08
namespace Lzma.C01
open Lzma DState REnc

/-- the bytes a well-formed program denotes, in terms of `expand` -/
theorem expand_eq {dict : Nat} {prog : List Sym} {st : SpecSt} {b : Bool}
    (h : SpecSt.run dict {} prog = some (st, b)) : expand dict prog = some st.hist.toList := by
  simp [expand, h]

/-- **End-to-end exactness, size in the header.**  For all properties `lc ≤ 8, lp ≤ 4, pb ≤ 4`,
every dictionary field `D < 2^32`, every program `prog` (no end marker) that is well-formed for
the dictionary size in effect `max D 4096`, every trailing input `T`, every perfect sink, with
`unpacked_size` read from the header and any memory limit that admits the window
(`min (output size) (dictionary size)`; `None` always does):
`lzma_decompress` succeeds, the sink receives exactly the bytes the program denotes, the last
sink call is a flush, and the reader is left exactly behind the payload (`rem = T`).
(`hsize`: the 8-byte size field `2^64 − 1` means "unknown", so that size is excluded.) -/
theorem lzma_decode_exact_sized (props : Props) (hp : props.lc ≤ 8 ∧ props.lp ≤ 4 ∧ props.pb ≤ 4)
    (D : Nat) (hD : D < 2 ^ 32) (prog : List Sym) (st : SpecSt)
    (hrun : SpecSt.run (max D 4096) {} prog = some (st, false))
    (hsize : st.hist.size < 0xFFFFFFFFFFFFFFFF) (T : Bytes) (opts : Options)
    (hopt : opts.unpackedSize = .readFromHeader)
    (hmem : min st.hist.size (max D 4096) ≤ opts.memlimit.getD USIZE_MAX)
    (snk0 : Sink) (hs0 : snk0.script = []) :
    ∃ snk, lzmaDecompress (Rd.ofBytes (lzmaHeader props D (some st.hist.size) ++
          encodeSyms props (max D 4096) prog ++ T)) opts snk0 = (snk, .ok { rem := T }) ∧
      snk.out = snk0.out ++ st.hist ∧ snk.lastFlush = true := by
  have hpo : Safety.PropsOk props := hp
  -- the encoder succeeds; its output is the payload
  obtain ⟨snkF, probsF, eF, snkB, e2, henc, hfin⟩ :=
    encodeProg_total hpo (max D 4096) prog (run_rawOk prog {} st false hrun) {} rfl
  have hsyms := encodeSyms_eq henc hfin
  obtain ⟨P, hP, hinit⟩ := rc_roundtrip_init (snk0 := {}) rfl (probsOk_init _) henc hfin
  have hP' : snkB.out.toList = P := by simpa using hP
  obtain ⟨rc, rd2, hnew, hbad, hsim⟩ := hinit T false
  -- the symbol loop
  have hsf : sizeOfField st.hist.size = some st.hist.size := by
    unfold sizeOfField; rw [if_neg (by omega)]
  have hdict : 0 < max D 4096 := by omega
  have henc' : encodeEvents (progEvents (max D 4096) (EncSt.new props).props (EncSt.new props).spec prog ++ [])
      (EncSt.new props).probs {} {} = (snkF, .ok (probsF, eF)) := by
    rw [List.append_nil]; exact henc
  obtain ⟨s', w', k', probs', e', esnk', rc', rd', hsteps, hinv', hs', hsim', hencE, hbad', hpb', hu'⟩ :=
    decode_prog (M := circModel (max D 4096) (opts.memlimit.getD USIZE_MAX) snk0) (Nat.le_refl _)
      hfin [] prog (freshState props (sizeOfField st.hist.size)) _ snk0 (EncSt.new props) {} {} rc rd2
      st (decEnc_fresh hpo _ hdict hs0) hrun hmem rfl hbad
      (.inl ⟨st.hist.size, by rw [hsf]; rfl, Nat.le_refl _⟩) rfl hsim henc'
  obtain ⟨hrem, -, -⟩ := rc_roundtrip_final hs' hinv'.pok hsim' hencE hfin
  have hrd : rd' = { rem := T } := by
    rcases rd' with ⟨r, b⟩
    simp only at hrem hbad'
    rw [hrem, hbad']
  have hlen : w'.len = st.hist.size := by
    have := (circModel (max D 4096) (opts.memlimit.getD USIZE_MAX) snk0).len hinv'.win
    rw [Array.length_toList] at this
    exact this
  have hexit : FinishRun (⟨s', w', rc', rd', k'⟩ : Cfg Circ) 0 .sizeReached ⟨s', w', rc', rd', k'⟩ :=
    .sizeReached (n := st.hist.size) (by show s'.unpackedSize = _; rw [hu']; exact hsf)
      (by show st.hist.size ≤ w'.len; omega)
  have hrunAll := hsteps.append_run hexit
  obtain ⟨snk, hres, hout, hlf, -⟩ := lzmaDecompress_of_run hpo hD (field := st.hist.size)
    (by omega) hopt hnew hrunAll (by intro n hn; rw [hsf] at hn; cases hn; exact hlen) hinv'.win
  refine ⟨snk, ?_, by simpa using hout, hlf⟩
  rw [List.append_assoc, hsyms, hP', hres, hrd]

/-- **End-to-end exactness, end marker.**  Same, with the size field all-ones ("unknown"), the
program followed by the end-of-stream marker, and nothing after the payload: `lzma_decompress`
succeeds, delivers exactly the bytes of `prog`, and consumes the whole input.  (The clean-EOF
exit of the loop — `code = 0` and reader empty — cannot fire before the marker: coding the
marker shifts at least one more byte out of the range coder, `forcesRead_marker`.) -/
theorem lzma_decode_exact_marker (props : Props) (hp : props.lc ≤ 8 ∧ props.lp ≤ 4 ∧ props.pb ≤ 4)
    (D : Nat) (hD : D < 2 ^ 32) (prog : List Sym) (st : SpecSt)
    (hrun : SpecSt.run (max D 4096) {} prog = some (st, false)) (opts : Options)
    (hopt : opts.unpackedSize = .readFromHeader)
    (hmem : min st.hist.size (max D 4096) ≤ opts.memlimit.getD USIZE_MAX)
    (snk0 : Sink) (hs0 : snk0.script = []) :
    ∃ snk, lzmaDecompress (Rd.ofBytes (lzmaHeader props D (some 0xFFFFFFFFFFFFFFFF) ++
          encodeSyms props (max D 4096) (prog ++ [.eos]))) opts snk0 = (snk, .ok { rem := [] }) ∧
      snk.out = snk0.out ++ st.hist ∧ snk.lastFlush = true := by
  have hpo : Safety.PropsOk props := hp
  have hwf : ∀ s ∈ prog ++ [Sym.eos], Sym.RawOk s := by
    intro s hs
    rcases List.mem_append.1 hs with h | h
    · exact run_rawOk prog {} st false hrun s h
    · simp only [List.mem_cons, List.not_mem_nil, or_false] at h
      subst h; decide
  obtain ⟨snkF, probsF, eF, snkB, e2, henc, hfin⟩ :=
    encodeProg_total hpo (max D 4096) (prog ++ [.eos]) hwf {} rfl
  have hsyms := encodeSyms_eq henc hfin
  obtain ⟨P, hP, hinit⟩ := rc_roundtrip_init (snk0 := {}) rfl (probsOk_init _) henc hfin
  have hP' : snkB.out.toList = P := by simpa using hP
  obtain ⟨rc, rd2, hnew, hbad, hsim⟩ := hinit [] false
  rw [List.append_nil] at hnew
  have hsf : sizeOfField 0xFFFFFFFFFFFFFFFF = none := rfl
  have hdict : 0 < max D 4096 := by omega
  -- events: those of `prog`, then those of the marker
  have hev : progEvents (max D 4096) props {} (prog ++ [.eos]) =
      progEvents (max D 4096) props {} prog ++ (rawSymEvents (ctxOf props st) (Sym.eos).toRaw ++ []) := by
    rw [progEvents_append, progSpec_of_run prog {} st false hrun]
    simp [progEvents]
  rw [hev] at henc
  have hfr : ForcesRead (rawSymEvents (ctxOf props st) (Sym.eos).toRaw ++ []) :=
    forcesRead_marker _ _
  obtain ⟨s', w', k', probs', e', esnk', rc', rd', hsteps, hinv', hs', hsim', hencE, hbad', hpb', hu'⟩ :=
    decode_prog (M := circModel (max D 4096) (opts.memlimit.getD USIZE_MAX) snk0) (Nat.le_refl _)
      hfin _ prog (freshState props (sizeOfField 0xFFFFFFFFFFFFFFFF)) _ snk0 (EncSt.new props) {} {}
      rc rd2 st (decEnc_fresh hpo _ hdict hs0) hrun hmem rfl hbad
      (.inr ⟨rfl, .inr hfr⟩) rfl hsim henc
  -- the marker iteration
  have hun : s'.unpackedSize = none := hu'
  have hstop : stopTest .finish s' w' rc' rd' = .ok false := by
    rw [stopTest_none_finish hun hpb']
    apply isFinishedOk_of_rem
    have hl := RcSim.rem_length hfin hs' hinv'.pok hsim' hencE
    have := hfr _ _ _ _ _ hs' hsim'.ok hinv'.pok hencE
    intro h0
    rw [h0, List.length_nil] at hl
    omega
  rw [List.append_nil] at hencE
  obtain ⟨s'', rc'', hnext, -, -⟩ := decode_marker hfin hinv' hs' hbad' hsim' hencE
  have hexit : FinishRun (⟨s', w', rc', rd', k'⟩ : Cfg Circ) 1 .marker
      ⟨s'', w', rc'', { rem := [], bad := false }, k'⟩ :=
    .marker hstop (fillBuf_of_good hbad') hnext
  have hrunAll := hsteps.append_run hexit
  obtain ⟨snk, hres, hout, hlf, -⟩ := lzmaDecompress_of_run hpo hD (field := 0xFFFFFFFFFFFFFFFF)
    (by omega) hopt hnew hrunAll (by intro n hn; rw [hsf] at hn; cases hn) hinv'.win
  refine ⟨snk, ?_, by simpa using hout, hlf⟩
  rw [hsyms, hP', hres]

/-- both theorems in terms of `expand`: the sink receives `expand dict prog` -/
theorem lzma_decode_exact_expand (props : Props) (hp : props.lc ≤ 8 ∧ props.lp ≤ 4 ∧ props.pb ≤ 4)
    (D : Nat) (hD : D < 2 ^ 32) (prog : List Sym) (out : Bytes)
    (hexp : expand (max D 4096) prog = some out) (hne : Sym.eos ∉ prog)
    (hsize : out.length < 0xFFFFFFFFFFFFFFFF) (T : Bytes) :
    ∃ snk, lzmaDecompress (Rd.ofBytes (lzmaHeader props D (some out.length) ++
          encodeSyms props (max D 4096) prog ++ T)) {} {} = (snk, .ok { rem := T }) ∧
      snk.out.toList = out ∧ snk.lastFlush = true := by
  unfold expand at hexp
  obtain ⟨⟨st, b⟩, hrun, hout⟩ := Option.map_eq_some_iff.1 hexp
  simp only at hout
  have hb := SpecSt.run_flag prog {} st b hne hrun
  subst hb
  have hl : out.length = st.hist.size := by rw [← hout]; simp
  obtain ⟨snk, h1, h2, h3⟩ := lzma_decode_exact_sized props hp D hD prog st hrun (by omega) T {} rfl
    (by show _ ≤ USIZE_MAX; unfold USIZE_MAX U64; omega) {} rfl
  rw [hl]
  exact ⟨snk, h1, by rw [h2, ← hout]; simp, h3⟩

/-! ## corollaries -/

/-- **The declared dictionary size does not matter as long as every match distance fits**: if
`prog` is well-formed for the dictionary sizes in effect under header fields `D` and `D'`, then
the reference encoder produces the same payload for both, the program denotes the same bytes,
and the two files decode to the same output. -/
theorem dict_field_irrelevant (props : Props) (hp : props.lc ≤ 8 ∧ props.lp ≤ 4 ∧ props.pb ≤ 4)
    (D D' : Nat) (hD : D < 2 ^ 32) (hD' : D' < 2 ^ 32) (prog : List Sym) (st st' : SpecSt)
    (hrun : SpecSt.run (max D 4096) {} prog = some (st, false))
    (hrun' : SpecSt.run (max D' 4096) {} prog = some (st', false))
    (hsize : st.hist.size < 0xFFFFFFFFFFFFFFFF) (T : Bytes) (opts : Options)
    (hopt : opts.unpackedSize = .readFromHeader)
    (hmem : min st.hist.size (max D 4096) ≤ opts.memlimit.getD USIZE_MAX)
    (hmem' : min st.hist.size (max D' 4096) ≤ opts.memlimit.getD USIZE_MAX)
    (snk0 : Sink) (hs0 : snk0.script = []) :
    st' = st ∧ encodeSyms props (max D' 4096) prog = encodeSyms props (max D 4096) prog ∧
    ∃ snk snk',
      lzmaDecompress (Rd.ofBytes (lzmaHeader props D (some st.hist.size) ++
        encodeSyms props (max D 4096) prog ++ T)) opts snk0 = (snk, .ok { rem := T }) ∧
      lzmaDecompress (Rd.ofBytes (lzmaHeader props D' (some st.hist.size) ++
        encodeSyms props (max D 4096) prog ++ T)) opts snk0 = (snk', .ok { rem := T }) ∧
      snk.out = snk'.out ∧ snk.out = snk0.out ++ st.hist := by
  have hst : (st', false) = (st, false) := SpecSt.run_dict_indep prog {} _ _ hrun' hrun
  have hst' : st' = st := (Prod.mk.inj hst).1
  subst hst'
  have henc := encodeSyms_dict_indep (props := props) hp hrun' hrun
  refine ⟨rfl, henc, ?_⟩
  obtain ⟨snk, h1, h2, -⟩ := lzma_decode_exact_sized props hp D hD prog st' hrun hsize T opts hopt hmem snk0 hs0
  obtain ⟨snk', h1', h2', -⟩ := lzma_decode_exact_sized props hp D' hD' prog st' hrun' hsize T opts hopt
    hmem' snk0 hs0
  rw [henc] at h1'
  exact ⟨snk, snk', h1, h1', by rw [h2, h2'], h2⟩

/-- **A dictionary field below 4096 behaves as 4096**: for `D < 4096` the file with header field
`D` decodes exactly like the file with header field `4096` (same verdict, same reader, same
sink) — for ANY payload (`C08.dict_below_4096_decompress_same`); and for a reference-encoded
program well-formed for 4096 both decode exactly. -/
theorem dict_below_4096 (props : Props) (hp : props.lc ≤ 8 ∧ props.lp ≤ 4 ∧ props.pb ≤ 4)
    (D : Nat) (hD : D < 4096) (prog : List Sym) (st : SpecSt)
    (hrun : SpecSt.run 4096 {} prog = some (st, false))
    (hsize : st.hist.size < 0xFFFFFFFFFFFFFFFF) (T : Bytes) (opts : Options)
    (hopt : opts.unpackedSize = .readFromHeader)
    (hmem : min st.hist.size 4096 ≤ opts.memlimit.getD USIZE_MAX)
    (snk0 : Sink) (hs0 : snk0.script = []) :
    ∃ snk,
      lzmaDecompress (Rd.ofBytes (lzmaHeader props D (some st.hist.size) ++
        encodeSyms props 4096 prog ++ T)) opts snk0 = (snk, .ok { rem := T }) ∧
      lzmaDecompress (Rd.ofBytes (lzmaHeader props 4096 (some st.hist.size) ++
        encodeSyms props 4096 prog ++ T)) opts snk0 = (snk, .ok { rem := T }) ∧
      snk.out = snk0.out ++ st.hist ∧ snk.lastFlush = true := by
  have e1 : max D 4096 = 4096 := by omega
  have e2 : max 4096 4096 = 4096 := by omega
  obtain ⟨snk, h1, h2, h3⟩ := lzma_decode_exact_sized props hp D (by omega) prog st (by rw [e1]; exact hrun)
    hsize T opts hopt (by rw [e1]; exact hmem) snk0 hs0
  obtain ⟨snk', h1', h2', h3'⟩ := lzma_decode_exact_sized props hp 4096 (by omega) prog st
    (by rw [e2]; exact hrun) hsize T opts hopt (by rw [e2]; exact hmem) snk0 hs0
  rw [e1] at h1
  rw [e2] at h1'
  -- the two runs are the same computation: the header fields denote the same dictionary size
  have hsame := C08.dict_below_4096_decompress_same
    (UInt8.ofNat (props.lc + 9 * (props.lp + 5 * props.pb))) (leBytes 4 D) (leBytes 4 4096)
    (leBytes 8 st.hist.size ++ encodeSyms props 4096 prog ++ T) false opts
    (top_leBytes_length _ _) (top_leBytes_length _ _)
    (by rw [top_leVal_leBytes 4 D (by omega)]; omega) (by decide) snk0
  have hl : ∀ d, Rd.ofBytes (lzmaHeader props d (some st.hist.size) ++ encodeSyms props 4096 prog ++ T) =
      ⟨UInt8.ofNat (props.lc + 9 * (props.lp + 5 * props.pb)) :: leBytes 4 d ++
        (leBytes 8 st.hist.size ++ encodeSyms props 4096 prog ++ T), false⟩ := by
    intro d; simp [Rd.ofBytes, lzmaHeader, List.append_assoc]
  rw [← hl, ← hl, h1, h1'] at hsame
  have : snk = snk' := (Prod.mk.inj hsame).1
  subst this
  exact ⟨snk, h1, h1', h2, h3⟩

/-! ## stream-level C09: a copy that reaches outside the window is rejected -/

/-- **A copy reaching outside the window is rejected, at the stream level.**  Let `good` be a
well-formed program, `bad` a syntactically valid copy symbol whose distance exceeds
`min (bytes produced so far) (dictionary size)` (`Sym.OutOfWindow`: a match with too large a
distance, or a short rep / rep match whose remembered distance is too large), and `rest` any
further symbols (raw-encodable).  The reference encoder encodes such programs too.  On that
stream — with a size field larger than the output of `good`, or with size "unknown" and a
non-empty tail — `lzma_decompress` returns `LzmaError`, and the sink holds exactly the laps of
`good`'s output flushed so far: a prefix of the meaning of `good`.  (`bad` makes the program
meaningless: `Sym.OutOfWindow.step_none`.) -/
theorem reject_out_of_window (props : Props) (hp : props.lc ≤ 8 ∧ props.lp ≤ 4 ∧ props.pb ≤ 4)
    (D : Nat) (hD : D < 2 ^ 32) (good : List Sym) (bad : Sym) (rest : List Sym) (st : SpecSt)
    (hrun : SpecSt.run (max D 4096) {} good = some (st, false))
    (hbad : bad.OutOfWindow (max D 4096) st) (hrest : ∀ s ∈ rest, Sym.RawOk s)
    (field : Nat) (T : Bytes)
    (hfield : (field < 0xFFFFFFFFFFFFFFFF ∧ st.hist.size < field) ∨
      (field = 0xFFFFFFFFFFFFFFFF ∧ T ≠ []))
    (opts : Options) (hopt : opts.unpackedSize = .readFromHeader)
    (hmem : min st.hist.size (max D 4096) ≤ opts.memlimit.getD USIZE_MAX)
    (snk0 : Sink) (hs0 : snk0.script = []) :
    SpecSt.run (max D 4096) {} (good ++ [bad] ++ rest) = none ∧
    ∃ snk, lzmaDecompress (Rd.ofBytes (lzmaHeader props D (some field) ++
          encodeSyms props (max D 4096) (good ++ [bad] ++ rest) ++ T)) opts snk0 =
        (snk, .error .lzma) ∧
      snk.out = snk0.out ++
        (st.hist.toList.take (flushedLen (max D 4096) st.hist.size)).toArray := by
  have hpo : Safety.PropsOk props := hp
  constructor
  · -- the program has no meaning
    have : ∀ (good : List Sym) (s0 : SpecSt), SpecSt.run (max D 4096) s0 good = some (st, false) →
        SpecSt.run (max D 4096) s0 (good ++ [bad] ++ rest) = none := by
      intro good
      induction good with
      | nil =>
        intro s0 h
        simp only [SpecSt.run, Option.some.injEq, Prod.mk.injEq, and_true] at h
        subst h
        simp [SpecSt.run, hbad.step_none]
      | cons sym g ih =>
        intro s0 h
        obtain ⟨st1, hs, hr⟩ := SpecSt.run_cons h
        simp only [List.cons_append, SpecSt.run, hs]
        exact ih st1 hr
    exact this good {} hrun
  have hwf : ∀ s ∈ good ++ [bad] ++ rest, Sym.RawOk s := by
    intro s hs
    rcases List.mem_append.1 hs with h | h
    · rcases List.mem_append.1 h with h | h
      · exact run_rawOk good {} st false hrun s h
      · simp only [List.mem_cons, List.not_mem_nil, or_false] at h
        subst h; exact hbad.rawOk
    · exact hrest s h
  obtain ⟨snkF, probsF, eF, snkB, e2, henc, hfin⟩ :=
    encodeProg_total hpo (max D 4096) (good ++ [bad] ++ rest) hwf {} rfl
  have hsyms := encodeSyms_eq henc hfin
  obtain ⟨P, hP, hinit⟩ := rc_roundtrip_init (snk0 := {}) rfl (probsOk_init _) henc hfin
  have hP' : snkB.out.toList = P := by simpa using hP
  obtain ⟨rc, rd2, hnew, hbd, hsim⟩ := hinit T false
  have hdict : 0 < max D 4096 := by omega
  have hf64 : field < 2 ^ 64 := by rcases hfield with h | h <;> omega
  -- events: those of `good`, then those of `bad`, then the rest
  have hev : progEvents (max D 4096) props {} (good ++ [bad] ++ rest) =
      progEvents (max D 4096) props {} good ++ (rawSymEvents (ctxOf props st) bad.toRaw ++
        progEvents (max D 4096) props (nextSpec (max D 4096) st bad) rest) := by
    rw [List.append_assoc, progEvents_append, progSpec_of_run good {} st false hrun]
    rfl
  rw [hev] at henc
  have hmode : (∃ n, (freshState props (sizeOfField field)).unpackedSize = some n ∧ st.hist.size ≤ n) ∨
      ((freshState props (sizeOfField field)).unpackedSize = none ∧
        (T ≠ [] ∨ ForcesRead (rawSymEvents (ctxOf props st) bad.toRaw ++
          progEvents (max D 4096) props (nextSpec (max D 4096) st bad) rest))) := by
    rcases hfield with ⟨h1, h2⟩ | ⟨h1, h2⟩
    · refine .inl ⟨field, ?_, by omega⟩
      show sizeOfField field = some field
      unfold sizeOfField; rw [if_neg (by omega)]
    · refine .inr ⟨?_, .inl h2⟩
      show sizeOfField field = none
      rw [h1]; rfl
  obtain ⟨s', w', k', probs', e', esnk', rc', rd', hsteps, hinv', hs', hsim', hencE, hbad', hpb', hu'⟩ :=
    decode_prog (M := circModel (max D 4096) (opts.memlimit.getD USIZE_MAX) snk0) (Nat.le_refl _)
      hfin _ good (freshState props (sizeOfField field)) _ snk0 (EncSt.new props) {} {}
      rc rd2 st (decEnc_fresh hpo _ hdict hs0) hrun hmem rfl hbd hmode rfl hsim henc
  -- the test at the top of the loop does not fire before `bad`
  have hlen : LzBuf.len w' = st.hist.size := by
    have := (circModel (max D 4096) (opts.memlimit.getD USIZE_MAX) snk0).len hinv'.win
    rw [Array.length_toList] at this
    exact this
  have hstop : stopTest .finish s' w' rc' rd' = .ok false := by
    rcases hfield with ⟨h1, h2⟩ | ⟨h1, h2⟩
    · have hu : s'.unpackedSize = some field := by
        rw [hu']; show sizeOfField field = some field
        unfold sizeOfField; rw [if_neg (by omega)]
      rw [stopTest_some hu, hlen]
      have : ¬ field ≤ st.hist.size := by omega
      simp [this]
    · have hu : s'.unpackedSize = none := by
        rw [hu']; show sizeOfField field = none
        rw [h1]; rfl
      rw [stopTest_none_finish hu hpb']
      apply isFinishedOk_of_rem
      have hl := RcSim.rem_length hfin hs' hinv'.pok hsim' hencE
      intro h0
      rw [h0, List.length_nil] at hl
      have : T.length = 0 := by omega
      exact h2 (List.eq_nil_of_length_eq_zero this)
  have hnext := decode_bad_step hfin hinv' (sym := bad) hbad hs' hsim' hencE
  have hres := lzmaDecompress_of_steps_error hpo hD hf64 (rest := P ++ T) hopt hnew hsteps hstop
    (fillBuf_of_good hbad') hnext
  refine ⟨k', ?_, hinv'.win.2.2.2.2⟩
  rw [List.append_assoc, hsyms, hP', hres]

/-! ## non-vacuity -/

/-- a program with a literal, a match, a short rep and a rep match -/
def demoProg : List Sym := [.lit 0x61, .lit 0x62, .mtch 2 3, .shortRep, .rep 0 2]

/-- it is well-formed (for dictionary field 0, i.e. 4096) and denotes `"abababab"`… -/
theorem demoProg_run : ∃ st, SpecSt.run (max 0 4096) {} demoProg = some (st, false) ∧
    st.hist.toList = [0x61, 0x62, 0x61, 0x62, 0x61, 0x62, 0x61, 0x62] :=
  ⟨{ hist := #[0x61, 0x62, 0x61, 0x62, 0x61, 0x62, 0x61, 0x62], state := 11, rep0 := 1 }, by rfl, rfl⟩

/-- …so `lzma_decode_exact_sized` applies to it (props `lc = lp = pb = 0`, trailing garbage
`[1, 2, 3]`, default options): all hypotheses hold -/
example : ∃ snk, lzmaDecompress (Rd.ofBytes (lzmaHeader ⟨0, 0, 0⟩ 0 (some 8) ++
      encodeSyms ⟨0, 0, 0⟩ 4096 demoProg ++ [1, 2, 3])) {} {} = (snk, .ok { rem := [1, 2, 3] }) ∧
    snk.out.toList = [0x61, 0x62, 0x61, 0x62, 0x61, 0x62, 0x61, 0x62] ∧ snk.lastFlush = true := by
  obtain ⟨st, hrun, hout⟩ := demoProg_run
  have hsz : st.hist.size = 8 := by rw [← Array.length_toList, hout]; rfl
  obtain ⟨snk, h1, h2, h3⟩ := lzma_decode_exact_sized ⟨0, 0, 0⟩ (by decide) 0 (by decide) demoProg st hrun
    (by omega) [1, 2, 3] {} rfl (by show _ ≤ USIZE_MAX; unfold USIZE_MAX U64; omega) {} rfl
  rw [hsz] at h1
  exact ⟨snk, h1, by rw [h2, ← hout]; simp, h3⟩

/-- …and `lzma_decode_exact_marker` -/
example : ∃ snk, lzmaDecompress (Rd.ofBytes (lzmaHeader ⟨0, 0, 0⟩ 0 (some 0xFFFFFFFFFFFFFFFF) ++
      encodeSyms ⟨0, 0, 0⟩ 4096 (demoProg ++ [.eos]))) {} {} = (snk, .ok { rem := [] }) ∧
    snk.out.toList = [0x61, 0x62, 0x61, 0x62, 0x61, 0x62, 0x61, 0x62] ∧ snk.lastFlush = true := by
  obtain ⟨st, hrun, hout⟩ := demoProg_run
  have hsz : st.hist.size = 8 := by rw [← Array.length_toList, hout]; rfl
  obtain ⟨snk, h1, h2, h3⟩ := lzma_decode_exact_marker ⟨0, 0, 0⟩ (by decide) 0 (by decide) demoProg st hrun
    {} rfl (by show _ ≤ USIZE_MAX; unfold USIZE_MAX U64; omega) {} rfl
  exact ⟨snk, h1, by rw [h2, ← hout]; simp, h3⟩

/-- non-vacuity of `reject_out_of_window`: after `"ab"`, a match at distance 3 (only 2 bytes
produced) -/
example : ∃ st, SpecSt.run (max 0 4096) {} [.lit 0x61, .lit 0x62] = some (st, false) ∧
    (Sym.mtch 3 2).OutOfWindow (max 0 4096) st ∧ (∀ s ∈ [Sym.lit 0x63, .eos], Sym.RawOk s) ∧
    st.hist.size < 100 :=
  ⟨{ hist := #[0x61, 0x62] }, by rfl, by decide, by decide, by decide⟩

end Lzma.C01
