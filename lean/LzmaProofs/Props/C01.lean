/-
  C01 — the arithmetic-coding layer of "LZMA decoding is exact".

  For EVERY event sequence (probability-coded and direct bits, any length, any
  adaptive-probability history that starts from values in [31, 2017] — in
  particular from the initial 0x400), what the modelled range ENCODER emits
  (carry propagation through arbitrarily long 0xFF runs included) followed by
  its 5-byte flush is decoded by the modelled range DECODER into exactly the
  same decisions, with the same probability updates, consuming exactly the
  encoder's bytes and ending with `code = 0` — whatever bytes follow.

  Together with `Lzma.C01.sym_roundtrip` (Props/C01Sym.lean: the decision tree
  of one LZMA symbol follows the events a conforming encoder emits for it) this
  gives: the bit-level decoder returns every symbol of a reference-encoded
  program.  The remaining composition with the window theorems (C09) into one
  end-to-end statement is recorded in DESIGN.md.
-/
import LzmaProofs.Lemmas.RangeCoder
namespace Lzma.C01
open Lzma

/-- **Range-coder round trip** for one decision tree `t` whose path is `evs`. -/
theorem rc_roundtrip {α : Type} {evs : List Ev} {probs probsF : Probs} {snk0 snkF snkB : Sink}
    {eF e2 : REnc} (t : Coder PIdx α) (a : α)
    (hs : snk0.script = []) (hp : ProbsOk probs)
    (henc : encodeEvents evs probs {} snk0 = (snkF, .ok (probsF, eF)))
    (hfin : eF.finish snkF = (snkB, .ok e2))
    (hrun : runEv t evs = some (a, [])) :
    ∃ P, snkB.out.toList = snk0.out.toList ++ P ∧ ∀ (T : Bytes) (bad : Bool),
      ∃ rc rd rc', RC.new { rem := P ++ T, bad := bad } = .ok (rc, rd) ∧
        runDec true t probs rc rd = .ok (a, probsF, rc', { rem := T, bad := bad }) ∧
        rc'.code = 0 :=
  Lzma.rc_roundtrip t a hs hp henc hfin hrun

/-- the encoder side never fails: for admissible probabilities and in-bounds
indices, encoding any event list and flushing succeeds (no panic, no error) -/
theorem encoder_total (evs : List Ev) (probs : Probs) (snk : Sink)
    (hs : snk.script = []) (hp : ProbsOk probs)
    (hidx : ∀ i b, Ev.pbit i b ∈ evs → ∃ v, probs.get i = .ok v) :
    ∃ snkF probsF eF snkB e2, encodeEvents evs probs {} snk = (snkF, .ok (probsF, eF)) ∧
      eF.finish snkF = (snkB, .ok e2) :=
  Lzma.encodeEvents_total evs probs {} snk hs REnc.eok_fresh hp hidx

/-- the payload is exactly `5 + (number of normalisation shifts)` bytes long -/
theorem encoder_byte_count {evs : List Ev} {probs probsF : Probs} {snk0 snkF snkB : Sink}
    {eF e2 : REnc} (hs : snk0.script = []) (hp : ProbsOk probs)
    (henc : encodeEvents evs probs {} snk0 = (snkF, .ok (probsF, eF)))
    (hfin : eF.finish snkF = (snkB, .ok e2)) :
    snkB.out.toList.length = snk0.out.toList.length + 5 + normCount evs probs {} :=
  Lzma.encoder_byte_count hs hp henc hfin

/-- the probability range is necessary: with a stored probability outside
[31, 2017] (unreachable from 0x400 by the update rule) the round trip fails -/
theorem rc_roundtrip_needs_probOk :
    (∀ i v, cxProbs.get i = .ok v → 0 < v ∧ v < 0x800) ∧ rcRoundTrips cxEvs cxProbs = false :=
  Lzma.rc_roundtrip_needs_probOk

/-- non-vacuity: the initial tables satisfy the hypothesis -/
example : ProbsOk (Probs.init 8) := probsOk_init 8

end Lzma.C01
