/-
  C07 (extension) — the state hand-over after a failed `decompress`.

  After a failed raw decode the harness dumps the object the Rust call left behind
  (`verif_state_bytes`), the model reads it back (`DState.ofBytes`) and evaluates
  `DState.checkInv` on it.  This module proves that the executable check is sound for the
  invariant of the safety theorems, so that every object that passed the check at run time
  is covered by `C07Any`: re-using it does not panic, terminates, and keeps the invariant.
-/
import LzmaProofs.Props.C07Any
import LzmaModel.StateBytes
namespace Lzma
namespace C07State
open Safety C07 C07Any

theorem arrOkB_sound {n : Nat} {a : Array Nat} (h : DState.arrOkB n a = true) : ArrOk n a := by
  unfold DState.arrOkB at h
  simp only [Bool.and_eq_true, beq_iff_eq, Array.all_eq_true, decide_eq_true_eq] at h
  exact ⟨h.1, fun i hi => h.2 i hi⟩

theorem lenOkB_sound {l : LenProbs} (h : DState.lenOkB l = true) : LenOk l := by
  unfold DState.lenOkB at h
  simp only [Bool.and_eq_true, decide_eq_true_eq] at h
  obtain ⟨⟨⟨⟨⟨⟨h1, h2⟩, h3⟩, h4⟩, h5⟩, h6⟩, h7⟩ := h
  exact ⟨⟨h1, h2⟩, ⟨h3, h4⟩, arrOkB_sound h5, arrOkB_sound h6, arrOkB_sound h7⟩

/-- the executable invariant check is sound -/
theorem checkInv_sound {s : DState} (h : s.checkInv = true) : DStateInv s := by
  unfold DState.checkInv at h
  simp only [Bool.and_eq_true, decide_eq_true_eq] at h
  obtain ⟨⟨⟨⟨⟨⟨⟨⟨⟨⟨⟨⟨⟨⟨⟨⟨⟨a1, a2⟩, a3⟩, a4⟩, a5⟩, a6⟩, a7⟩, a8⟩, a9⟩, a10⟩, l1⟩, l2⟩, hst⟩, hlc⟩, hlp⟩, hpb⟩, hrows⟩, hpbuf⟩ := h
  exact ⟨⟨arrOkB_sound a1, arrOkB_sound a2, arrOkB_sound a3, arrOkB_sound a4, arrOkB_sound a5,
          arrOkB_sound a6, arrOkB_sound a7, arrOkB_sound a8, arrOkB_sound a9, arrOkB_sound a10,
          lenOkB_sound l1, lenOkB_sound l2⟩, hst, hlc, hlp, hpb, hrows, hpbuf⟩

/-- … and complete: an object inside the invariant passes the check (the check cannot raise a
false alarm on a healthy object) -/
theorem arrOkB_complete {n : Nat} {a : Array Nat} (h : ArrOk n a) : DState.arrOkB n a = true := by
  unfold DState.arrOkB
  simp only [Bool.and_eq_true, beq_iff_eq, Array.all_eq_true, decide_eq_true_eq]
  exact ⟨h.1, fun i hi => h.2 i hi⟩

/-- what the driver does with a dump: the decoder object continues with the dumped state -/
def resume (d : LzmaDecoder) (s : DState) : LzmaDecoder := { d with state := s }

/-- every resumed object that passed the check is inside the raw decoder's invariant … -/
theorem resume_inv {d : LzmaDecoder} (hd : LzmaDecoderInv d) {s : DState} (h : s.checkInv = true) :
    LzmaDecoderInv (resume d s) :=
  ⟨checkInv_sound h, hd.2.1, hd.2.2⟩

/-- … hence using it again is safe, whatever input and sink follow: no panic, termination, and the
objects that follow are again inside the invariant -/
theorem resumed_object_safe {d : LzmaDecoder} (hd : LzmaDecoderInv d) {s : DState} (h : s.checkInv = true)
    (rd : Rd) (snk : Sink) :
    (∀ w, ((resume d s).decompress rd snk).2 ≠ .error (.panic w)) ∧
    ((resume d s).decompress rd snk).2 ≠ .error .fuel ∧
    (∀ u w, (resume d s).reset u ≠ .error (.panic w)) :=
  ⟨fun w => no_panic_decompress_any_lzma_object (resume_inv hd h) rd snk w,
   terminates_decompress_any_lzma_object (resume_inv hd h) rd snk,
   fun u w => no_panic_reset_any_lzma_object (resume_inv hd h) u w⟩

theorem lenOkB_complete {l : LenProbs} (h : LenOk l) : DState.lenOkB l = true := by
  unfold DState.lenOkB
  simp only [Bool.and_eq_true, decide_eq_true_eq]
  exact ⟨⟨⟨⟨⟨⟨h.choice.1, h.choice.2⟩, h.choice2.1⟩, h.choice2.2⟩, arrOkB_complete h.low⟩, arrOkB_complete h.mid⟩,
    arrOkB_complete h.high⟩

/-- the check decides the invariant exactly -/
theorem checkInv_iff (s : DState) : s.checkInv = true ↔ DStateInv s := by
  refine ⟨checkInv_sound, fun h => ?_⟩
  unfold DState.checkInv
  simp only [Bool.and_eq_true, decide_eq_true_eq]
  have p := h.probs
  exact ⟨⟨⟨⟨⟨⟨⟨⟨⟨⟨⟨⟨⟨⟨⟨⟨⟨arrOkB_complete p.lit, arrOkB_complete p.posSlot⟩, arrOkB_complete p.align⟩,
    arrOkB_complete p.posDec⟩, arrOkB_complete p.isMatch⟩, arrOkB_complete p.isRep⟩, arrOkB_complete p.isRepG0⟩,
    arrOkB_complete p.isRepG1⟩, arrOkB_complete p.isRepG2⟩, arrOkB_complete p.isRep0Long⟩, lenOkB_complete p.len⟩,
    lenOkB_complete p.repLen⟩, h.state⟩, h.lc⟩, h.lp⟩, h.pb⟩, h.rows⟩, h.pbuf⟩

/-- non-vacuity: a fresh decoder's state passes the check; the half-way object of `C07Any` passes it too;
an object with `state = 12` does not.  (That `ofBytes` reads a dump back faithfully is checked at run time on
every hand-over: the model re-serialises what it parsed with `toBytes`, and length and CRC-32 must equal the dump's.) -/
example : sampleDecoder.state.checkInv = true :=
  (checkInv_iff _).mpr (LzmaReach.new sampleParams none _ (by decide) (by rfl)).inv.1

example : ({ sampleDecoder.state with state := 12 } : DState).checkInv = false := by
  cases h : DState.checkInv { sampleDecoder.state with state := 12 } with
  | false => rfl
  | true => exact absurd (checkInv_sound h).state (by show ¬ (12 : Nat) < 12; omega)

end C07State
end Lzma
