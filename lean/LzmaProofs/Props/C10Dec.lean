/-
  C10 (decoder level) — the memory limit is honoured exactly by the WHOLE decoders.

  `Props/C10.lean` proves the property for the circular window; here it is lifted to
  `lzmaDecompress` (= `lzma_decompress_with_options`), to the raw `LzmaDecoder.decompress`
  and to the streaming decoder `Stream`.

  With a memory limit `m` decoding behaves exactly as without a limit whenever the window
  actually needed — `min (dictionary size) (bytes produced)` — does not exceed `m`; otherwise it
  fails with `Err lzma`, having delivered a prefix of the unlimited output; errors of the
  unlimited run are reproduced (or pre-empted by the limit); and no decoder ever holds more
  than `m` bytes of history.

  Conventions: `snk.Perfect` = the sink accepts every write (`script = []`; `{}` is perfect);
  `APre a b` = `a` is a prefix of `b`; `headerDict rd` = the dictionary size in effect for the
  `.lzma` header at the front of `rd` (`max field 4096`); bytes produced = growth of `out`.
  The proofs (`Lemmas/MemLimit.lean`) run the limited decoder in lock step with a reference
  decoder whose window can never hit its limit; the symbol decoder cannot observe the
  `memlimit` field except through a failing append.
-/
import LzmaProofs.Lemmas.MemLimit
namespace Lzma.C10
open Lzma DState

/-- the options with `memlimit = Some(m)` / `memlimit = None` -/
def optsM (opts : Options) (m : Nat) : Options := { opts with memlimit := some m }
def optsU (opts : Options) : Options := { opts with memlimit := none }

/-! ### one-shot `.lzma` decoder -/

/-- the bytes a run delivered are some list `H1`; `|H1|` is the growth of `out` -/
private theorem len_of_out {snk snk' : Sink} {H1 : Bytes} (h : snk'.out = snk.out ++ H1.toArray) :
    H1.length = snk'.out.size - snk.out.size := by
  rw [h]; simp

/-- **Enough memory ⇒ the limit is invisible.**  If the unlimited run succeeds and
`min dict produced ≤ m`, the run with limit `m` returns the identical result: same sink (bytes,
number of raw writes and flushes), same reader position. -/
theorem lzma_memlimit_exact_ok (rd : Rd) (opts : Options) (m : Nat) {snk snkU : Sink} {rdU : Rd}
    (hs : snk.Perfect) (hU : lzmaDecompress rd (optsU opts) snk = (snkU, .ok rdU))
    (hm : min (headerDict rd) (snkU.out.size - snk.out.size) ≤ m) :
    lzmaDecompress rd (optsM opts m) snk = (snkU, .ok rdU) := by
  obtain ⟨H1, ho, -, hsame, -⟩ := (lzmaDecompress_lim rd opts m hs).1 _ _ hU
  exact hsame (by rw [len_of_out ho]; omega)

/-- **Not enough memory ⇒ `Err lzma`.**  If the unlimited run succeeds but
`min dict produced > m`, the limited run fails with `LzmaError`, and what it delivered is a
prefix of the unlimited output. -/
theorem lzma_memlimit_exact_err (rd : Rd) (opts : Options) (m : Nat) {snk snkU : Sink} {rdU : Rd}
    (hs : snk.Perfect) (hU : lzmaDecompress rd (optsU opts) snk = (snkU, .ok rdU))
    (hm : m < min (headerDict rd) (snkU.out.size - snk.out.size)) :
    (lzmaDecompress rd (optsM opts m) snk).2 = .error .lzma ∧
      APre (lzmaDecompress rd (optsM opts m) snk).1.out snkU.out := by
  obtain ⟨H1, ho, -, -, hhit⟩ := (lzmaDecompress_lim rd opts m hs).1 _ _ hU
  exact (hhit (by rw [len_of_out ho]; omega)).2

/-- the two together: given that the unlimited run succeeds, the limited run succeeds (and is
then identical) IFF the needed window fits -/
theorem lzma_memlimit_iff (rd : Rd) (opts : Options) (m : Nat) {snk snkU : Sink} {rdU : Rd}
    (hs : snk.Perfect) (hU : lzmaDecompress rd (optsU opts) snk = (snkU, .ok rdU)) :
    (lzmaDecompress rd (optsM opts m) snk = (snkU, .ok rdU) ↔
      min (headerDict rd) (snkU.out.size - snk.out.size) ≤ m) ∧
    ((∃ s r, lzmaDecompress rd (optsM opts m) snk = (s, .ok r)) ↔
      min (headerDict rd) (snkU.out.size - snk.out.size) ≤ m) := by
  have hno : ¬ min (headerDict rd) (snkU.out.size - snk.out.size) ≤ m →
      ∀ s r, lzmaDecompress rd (optsM opts m) snk ≠ (s, .ok r) := by
    intro hn s r he
    have := (lzma_memlimit_exact_err rd opts m hs hU (by omega)).1
    rw [he] at this; cases this
  refine ⟨⟨fun he => ?_, lzma_memlimit_exact_ok rd opts m hs hU⟩,
    ⟨fun ⟨s, r, he⟩ => ?_, fun h => ⟨_, _, lzma_memlimit_exact_ok rd opts m hs hU h⟩⟩⟩
  · exact Decidable.byContradiction fun hn => hno hn _ _ he
  · exact Decidable.byContradiction fun hn => hno hn _ _ he

/-- **Errors are preserved.**  If the unlimited run fails, the limited run fails too: with the
same error and the same sink, or — only possible when `m < dict` — with `LzmaError` earlier
(its sink a prefix). -/
theorem lzma_memlimit_error_preserved (rd : Rd) (opts : Options) (m : Nat) {snk snkU : Sink}
    {e : Err} (hs : snk.Perfect) (hU : lzmaDecompress rd (optsU opts) snk = (snkU, .error e)) :
    lzmaDecompress rd (optsM opts m) snk = (snkU, .error e) ∨
      (m < headerDict rd ∧ (lzmaDecompress rd (optsM opts m) snk).2 = .error .lzma ∧
        APre (lzmaDecompress rd (optsM opts m) snk).1.out snkU.out) :=
  (lzmaDecompress_lim rd opts m hs).2 _ _ hU

/-- a limit of at least the dictionary size is never noticed, whatever the input -/
theorem lzma_memlimit_ge_dict (rd : Rd) (opts : Options) (m : Nat) {snk : Sink} (hs : snk.Perfect)
    (hm : headerDict rd ≤ m) :
    lzmaDecompress rd (optsM opts m) snk = lzmaDecompress rd (optsU opts) snk := by
  rcases hU : lzmaDecompress rd (optsU opts) snk with ⟨snkU, e | rdU⟩
  · rcases lzma_memlimit_error_preserved rd opts m hs hU with h | ⟨h, -⟩
    · exact h
    · omega
  · exact lzma_memlimit_exact_ok rd opts m hs hU (by omega)

/-- **Monotonicity.**  Success under limit `m` implies the identical success under every larger
limit and without a limit. -/
theorem lzma_memlimit_mono (rd : Rd) (opts : Options) {m m' : Nat} (hmm : m ≤ m') {snk s : Sink}
    {r : Rd} (hs : snk.Perfect) (h : lzmaDecompress rd (optsM opts m) snk = (s, .ok r)) :
    lzmaDecompress rd (optsM opts m') snk = (s, .ok r) ∧
      lzmaDecompress rd (optsU opts) snk = (s, .ok r) := by
  rcases hU : lzmaDecompress rd (optsU opts) snk with ⟨snkU, e | rdU⟩
  · rcases lzma_memlimit_error_preserved rd opts m hs hU with h' | ⟨-, h', -⟩
    · rw [h] at h'; cases h'
    · rw [h] at h'; cases h'
  · have hfit := ((lzma_memlimit_iff rd opts m hs hU).2).1 ⟨s, r, h⟩
    have h1 := lzma_memlimit_exact_ok rd opts m hs hU hfit
    rw [h] at h1; cases h1
    exact ⟨lzma_memlimit_exact_ok rd opts m' hs hU (by omega), rfl⟩

/-- **Never more than `m` bytes of history** (ANY sink, any input): every configuration that a
Finish-mode decoding loop started on a fresh window with limit `m` passes through — `k` complete
iterations, for every `k` — has `buf.len() ≤ m` (and still the same limit and dictionary size). -/
theorem never_buffers_more {s : DState} {d m : Nat} {rc : RC} {rd : Rd} {snk : Sink} {k : Nat}
    {c' : Cfg Circ} (h : FinishSteps ⟨s, Circ.fromStream d m, rc, rd, snk⟩ k c') :
    c'.w.buf.size ≤ m ∧ c'.w.memlimit = m ∧ c'.w.dictSize = d :=
  FinishSteps.bufOK h (BufOK.fromStream d m)

/-- … in particular along the run of `lzma_decompress_with_options` with `memlimit = Some(m)`: the
run is `process_mode` on exactly such a fresh window (`lzmaDecompress_ok_iff`), and the window it
finally `finish`es holds at most `m` bytes.  ANY sink. -/
theorem lzma_never_buffers_more {rd rd' : Rd} {opts : Options} {m : Nat} {snk snk' : Sink}
    (hm : opts.memlimit = some m) (h : lzmaDecompress rd opts snk = (snk', .ok rd')) :
    ∃ params rd1 dec rc rd2 s' w' rc' snk1,
      readHeader rd opts = .ok (params, rd1) ∧ LzmaDecoder.new params opts.memlimit = .ok dec ∧
      RC.new rd1 = .ok (rc, rd2) ∧
      dec.state.processMode .finish (Circ.fromStream params.dictSize m) rc rd2 snk =
        (snk1, .ok (s', w', rc', rd')) ∧
      w'.finish snk1 = (snk', .ok ()) ∧ w'.buf.size ≤ m ∧
      (∀ k c', FinishSteps ⟨dec.state, Circ.fromStream params.dictSize m, rc, rd2, snk⟩ k c' →
        c'.w.buf.size ≤ m) := by
  obtain ⟨params, rd1, dec, rc, rd2, s', w', rc', snk1, hh, hd, hrc, hpm, hfin⟩ :=
    lzmaDecompress_ok_iff.1 h
  rw [hm] at hpm
  simp only [Option.getD] at hpm
  refine ⟨params, rd1, dec, rc, rd2, s', w', rc', snk1, hh, hd, hrc, hpm, hfin, ?_, ?_⟩
  · exact (processMode_bufOK hpm (BufOK.fromStream _ m)).1
  · intro k c' hs; exact (never_buffers_more hs).1

/-! ### raw decoder `LzmaDecoder` (any dictionary size `≥ 1`)

`dec` is the reference decoder; it must be unable to hit its own limit
(`dictSize ≤ dec.memlimit`: e.g. `memlimit = None` and `dictSize ≤ usize::MAX`, see
`decoder_new_unlimited`).  `dec.withLimit m` is the same decoder with limit `m`. -/

/-- a decoder created with `memlimit = Some(m)` is the one created with `None`, with limit `m`;
the latter cannot hit its limit as long as the dictionary size is a `usize` -/
theorem decoder_new_unlimited {params : LzmaParams} {decU : LzmaDecoder} (m : Nat)
    (h : LzmaDecoder.new params none = .ok decU) (hd : params.dictSize ≤ USIZE_MAX) :
    LzmaDecoder.new params (some m) = .ok (decU.withLimit m) ∧
      1 ≤ decU.params.dictSize ∧ decU.params.dictSize ≤ decU.memlimit := by
  obtain ⟨hp, hml, -⟩ := LzmaDecoder.new_ok h
  refine ⟨by rw [LzmaDecoder.new_memlimit params none (some m), h]; rfl, ?_, by rw [hp, hml]; exact hd⟩
  rw [hp]
  unfold LzmaDecoder.new at h
  by_cases h0 : params.dictSize = 0
  · simp [h0, bind, Except.bind, throw, throwThe, MonadExceptOf.throw] at h
  · omega

theorem decoder_memlimit_exact_ok (dec : LzmaDecoder) (m : Nat) (rd : Rd) {snk snkU : Sink}
    {dU : LzmaDecoder} {rdU : Rd} (hs : snk.Perfect) (hd : 1 ≤ dec.params.dictSize)
    (hroomy : dec.params.dictSize ≤ dec.memlimit)
    (hU : dec.decompress rd snk = (snkU, .ok (dU, rdU)))
    (hm : min dec.params.dictSize (snkU.out.size - snk.out.size) ≤ m) :
    (dec.withLimit m).decompress rd snk = (snkU, .ok (dU.withLimit m, rdU)) := by
  obtain ⟨H1, ho, -, hsame, -⟩ := (LzmaDecoder.decompress_lim dec m rd hs hd hroomy).1 _ _ _ hU
  exact hsame (by rw [len_of_out ho]; omega)

theorem decoder_memlimit_exact_err (dec : LzmaDecoder) (m : Nat) (rd : Rd) {snk snkU : Sink}
    {dU : LzmaDecoder} {rdU : Rd} (hs : snk.Perfect) (hd : 1 ≤ dec.params.dictSize)
    (hroomy : dec.params.dictSize ≤ dec.memlimit)
    (hU : dec.decompress rd snk = (snkU, .ok (dU, rdU)))
    (hm : m < min dec.params.dictSize (snkU.out.size - snk.out.size)) :
    ((dec.withLimit m).decompress rd snk).2 = .error .lzma ∧
      APre ((dec.withLimit m).decompress rd snk).1.out snkU.out := by
  obtain ⟨H1, ho, -, -, hhit⟩ := (LzmaDecoder.decompress_lim dec m rd hs hd hroomy).1 _ _ _ hU
  exact (hhit (by rw [len_of_out ho]; omega)).2

theorem decoder_memlimit_error_preserved (dec : LzmaDecoder) (m : Nat) (rd : Rd) {snk snkU : Sink}
    {e : Err} (hs : snk.Perfect) (hd : 1 ≤ dec.params.dictSize)
    (hroomy : dec.params.dictSize ≤ dec.memlimit)
    (hU : dec.decompress rd snk = (snkU, .error e)) :
    (dec.withLimit m).decompress rd snk = (snkU, .error e) ∨
      (m < dec.params.dictSize ∧ ((dec.withLimit m).decompress rd snk).2 = .error .lzma ∧
        APre ((dec.withLimit m).decompress rd snk).1.out snkU.out) :=
  (LzmaDecoder.decompress_lim dec m rd hs hd hroomy).2 _ _ hU

/-- monotonicity for ANY decoder (no assumption on its own limit): success under `m` implies the
identical success under every `m' ≥ m` -/
theorem decoder_memlimit_mono (dec : LzmaDecoder) {m m' : Nat} (hmm : m ≤ m') (rd : Rd)
    {snk s : Sink} {d' : LzmaDecoder} {r : Rd} (hs : snk.Perfect) (hd : 1 ≤ dec.params.dictSize)
    (h : (dec.withLimit m).decompress rd snk = (s, .ok (d', r))) :
    (dec.withLimit m').decompress rd snk = (s, .ok (d'.withLimit m', r)) := by
  -- reference: the same decoder with limit `dictSize`, which can never be hit
  have hroomy : (dec.withLimit dec.params.dictSize).params.dictSize ≤
      (dec.withLimit dec.params.dictSize).memlimit := Nat.le_refl _
  have e1 : (dec.withLimit dec.params.dictSize).withLimit m = dec.withLimit m := rfl
  have e2 : (dec.withLimit dec.params.dictSize).withLimit m' = dec.withLimit m' := rfl
  rcases hR : (dec.withLimit dec.params.dictSize).decompress rd snk with ⟨sR, e | ⟨dR, rR⟩⟩
  · rcases decoder_memlimit_error_preserved (dec.withLimit dec.params.dictSize) m rd hs hd hroomy hR with h' | ⟨-, h', -⟩
    · rw [e1, h] at h'; cases h'
    · rw [e1, h] at h'; cases h'
  · by_cases hfit : min dec.params.dictSize (sR.out.size - snk.out.size) ≤ m
    · have h1 := decoder_memlimit_exact_ok (dec.withLimit dec.params.dictSize) m rd hs hd hroomy hR hfit
      rw [e1, h] at h1; cases h1
      have h2 := decoder_memlimit_exact_ok (dec.withLimit dec.params.dictSize) m' rd hs hd hroomy hR
        (Nat.le_trans hfit hmm)
      rw [e2] at h2
      exact h2
    · have h1 := (decoder_memlimit_exact_err (dec.withLimit dec.params.dictSize) m rd hs hd hroomy hR (Nat.lt_of_not_le hfit)).1
      rw [e1, h] at h1; cases h1

/-! ### streaming decoder `Stream`

`Stream.runStream fuel opts chunks snk` (`Lemmas/MemLimit.lean`) is a complete session: create the
stream with `opts`, feed the chunks one after the other with the re-submitting loop `Stream.feed`
(stop at the first `Err`), then `finish`; it returns the final sink and the per-chunk accepted
counts, or the first error.  `stF.dict` is the dictionary size of the window the unlimited
stream created from the header (`0` if the header was never completed: then nothing was
produced).  Bytes produced = growth of `out` (a successful `finish` delivers everything). -/

/-- **Enough memory ⇒ the limit is invisible**, for every chunking of the input: same per-chunk
results, same final sink. -/
theorem stream_memlimit_exact_ok (m fuel : Nat) (opts : Options) (chunks : List Bytes)
    {snk snkU : Sink} {ns : List Nat} (hs : snk.Perfect)
    (hU : Stream.runStream fuel (optsU opts) chunks snk = (snkU, .ok ns)) :
    ∃ snkF stF, Stream.feedChunks fuel chunks (Stream.newWithOptions (optsU opts)) snk =
        (snkF, stF, .ok ns) ∧
      (min stF.dict (snkU.out.size - snk.out.size) ≤ m →
        Stream.runStream fuel (optsM opts m) chunks snk = (snkU, .ok ns)) := by
  obtain ⟨snkF, stF, h1, h2, -⟩ := (Stream.runStream_lim m fuel opts chunks hs).1 _ _ hU
  exact ⟨snkF, stF, h1, h2⟩

/-- **Not enough memory ⇒ `Err lzma`** (from the `write` that would exceed the limit, or from
`finish`), the sink holding a prefix of the unlimited output. -/
theorem stream_memlimit_exact_err (m fuel : Nat) (opts : Options) (chunks : List Bytes)
    {snk snkU : Sink} {ns : List Nat} (hs : snk.Perfect)
    (hU : Stream.runStream fuel (optsU opts) chunks snk = (snkU, .ok ns)) :
    ∃ snkF stF, Stream.feedChunks fuel chunks (Stream.newWithOptions (optsU opts)) snk =
        (snkF, stF, .ok ns) ∧
      (m < min stF.dict (snkU.out.size - snk.out.size) →
        (Stream.runStream fuel (optsM opts m) chunks snk).2 = .error .lzma ∧
        APre (Stream.runStream fuel (optsM opts m) chunks snk).1.out snkU.out) := by
  obtain ⟨snkF, stF, h1, -, h3⟩ := (Stream.runStream_lim m fuel opts chunks hs).1 _ _ hU
  exact ⟨snkF, stF, h1, fun hlt => h3 (by omega)⟩

/-- the two together: given that the unlimited session succeeds, the limited session succeeds
(and is then identical) IFF the needed window fits -/
theorem stream_memlimit_exact (m fuel : Nat) (opts : Options) (chunks : List Bytes)
    {snk snkU : Sink} {ns : List Nat} (hs : snk.Perfect)
    (hU : Stream.runStream fuel (optsU opts) chunks snk = (snkU, .ok ns)) :
    ∃ snkF stF, Stream.feedChunks fuel chunks (Stream.newWithOptions (optsU opts)) snk =
        (snkF, stF, .ok ns) ∧
      (Stream.runStream fuel (optsM opts m) chunks snk = (snkU, .ok ns) ↔
        min stF.dict (snkU.out.size - snk.out.size) ≤ m) := by
  obtain ⟨snkF, stF, h1, h2, h3⟩ := (Stream.runStream_lim m fuel opts chunks hs).1 _ _ hU
  refine ⟨snkF, stF, h1, fun he => ?_, h2⟩
  exact Decidable.byContradiction fun hn => by
    have : (Stream.runStream fuel (optsM opts m) chunks snk).2 = .error .lzma := (h3 hn).1
    rw [he] at this; cases this

/-- **Errors are preserved** by the limited session (or pre-empted by `Err lzma`). -/
theorem stream_memlimit_error_preserved (m fuel : Nat) (opts : Options) (chunks : List Bytes)
    {snk snkU : Sink} {e : Err} (hs : snk.Perfect)
    (hU : Stream.runStream fuel (optsU opts) chunks snk = (snkU, .error e)) :
    Stream.runStream fuel (optsM opts m) chunks snk = (snkU, .error e) ∨
      ((Stream.runStream fuel (optsM opts m) chunks snk).2 = .error .lzma ∧
        APre (Stream.runStream fuel (optsM opts m) chunks snk).1.out snkU.out) :=
  (Stream.runStream_lim m fuel opts chunks hs).2 _ _ hU

/-- **Monotonicity** for sessions: success under `m` implies the identical success under every
`m' ≥ m` and without a limit -/
theorem stream_memlimit_mono {m m' : Nat} (hmm : m ≤ m') (fuel : Nat) (opts : Options)
    (chunks : List Bytes) {snk s : Sink} {ns : List Nat} (hs : snk.Perfect)
    (h : Stream.runStream fuel (optsM opts m) chunks snk = (s, .ok ns)) :
    Stream.runStream fuel (optsM opts m') chunks snk = (s, .ok ns) ∧
      Stream.runStream fuel (optsU opts) chunks snk = (s, .ok ns) := by
  rcases hU : Stream.runStream fuel (optsU opts) chunks snk with ⟨snkU, e | nsU⟩
  · rcases stream_memlimit_error_preserved m fuel opts chunks hs hU with h' | ⟨h', -⟩
    · rw [h] at h'; cases h'
    · rw [h] at h'; cases h'
  · obtain ⟨snkF, stF, h1, h2, h3⟩ := (Stream.runStream_lim m fuel opts chunks hs).1 _ _ hU
    obtain ⟨snkF', stF', h1', h2', -⟩ := (Stream.runStream_lim m' fuel opts chunks hs).1 _ _ hU
    rw [h1] at h1'; cases h1'
    by_cases hfit : min stF.dict (snkU.out.size - snk.out.size) ≤ m
    · have e1 : Stream.runStream fuel (optsM opts m) chunks snk = (snkU, .ok nsU) := h2 hfit
      rw [h] at e1; cases e1
      exact ⟨h2' (by omega), rfl⟩
    · have : (Stream.runStream fuel (optsM opts m) chunks snk).2 = .error .lzma := (h3 hfit).1
      rw [h] at this; cases this

/-- one `write` call from ANY reachable pair of states: `st` is the unlimited stream (invariant
`Stream.Inv`: it has decoded `H` into the perfect sink), `st.withLimit m` the limited one, whose
window still fits (`st.need ≤ m`).  The limited call returns the same count, the same sink and
the corresponding stream iff the window the unlimited stream holds afterwards fits; otherwise
`Err lzma`.  (`need` = `buf.len()` of the window = `min dict produced`.) -/
theorem stream_write_memlimit (m : Nat) (data : Bytes) {st : Stream} {base snk : Sink} {H : Bytes}
    (h : st.Inv base snk H) (hfit : st.need ≤ m) :
    (∀ n, (st.writeS data snk).2.2 = .ok n →
      (∃ H1, H <+: H1 ∧ (st.writeS data snk).2.1.Inv base (st.writeS data snk).1 H1) ∧
      ((st.writeS data snk).2.1.need ≤ m →
        (st.withLimit m).writeS data snk =
          ((st.writeS data snk).1, (st.writeS data snk).2.1.withLimit m, .ok n)) ∧
      (¬ (st.writeS data snk).2.1.need ≤ m →
        ((st.withLimit m).writeS data snk).2.2 = .error .lzma ∧
        APre ((st.withLimit m).writeS data snk).1.out (st.writeS data snk).1.out)) ∧
    (∀ e, (st.writeS data snk).2.2 = .error e →
      (st.withLimit m).writeS data snk =
          ((st.writeS data snk).1, (st.writeS data snk).2.1.withLimit m, .error e) ∨
        (((st.withLimit m).writeS data snk).2.2 = .error .lzma ∧
          APre ((st.withLimit m).writeS data snk).1.out (st.writeS data snk).1.out)) := by
  have hrel := Stream.writeS_srel m data h
  exact ⟨fun n hn => ⟨(hrel.ref n hn).2, hrel.same hfit n hn, hrel.hit hfit n hn⟩,
    fun e he => hrel.err hfit e he⟩

/-- the invariant holds initially and `st.need = min dict produced` under it -/
theorem stream_inv_new (opts : Options) (m : Nat) {base : Sink} (hb : base.Perfect) :
    (Stream.newWithOptions (optsU opts)).Inv base base [] ∧
      (Stream.newWithOptions (optsU opts)).withLimit m = Stream.newWithOptions (optsM opts m) :=
  ⟨Stream.Inv.new _ rfl hb, rfl⟩

theorem stream_need_eq {st : Stream} {base snk : Sink} {H : Bytes} (h : st.Inv base snk H) :
    st.need = min H.length st.dict := h.need_eq

/-- **The stream never holds more than `m` bytes of history**: after ANY sequence of `write` and
`flush` calls (any data, any sink behaviour) on a stream created with `memlimit = Some(m)`, the
window — if the stream is in the `Data` state — has `buf.len() ≤ m`. -/
theorem stream_never_buffers_more (opts : Options) (m : Nat) (cs : List Stream.Call) (snk : Sink)
    {rs : RunState}
    (h : (Stream.runCalls cs (Stream.newWithOptions (optsM opts m)) snk).2.1.state = some (.data rs)) :
    rs.output.buf.size ≤ m ∧ rs.output.memlimit = m :=
  (Stream.runCalls_bufOK cs snk (Stream.BufOKS.new opts m)).2 rs h

/-! ### non-vacuity: a real stream, a limit equal to the needed window and one below it -/

/-- `"abcabcabc"` as `.lzma` (lc = lp = pb = 0, dictionary 4096, end marker), made by liblzma -/
def sample : Bytes :=
  [0, 0, 16, 0, 0, 255, 255, 255, 255, 255, 255, 255, 255, 0, 48, 153, 171, 216, 139, 1, 114, 199,
   255, 255, 50, 64, 0, 0]

/-- the empty sink is perfect -/
theorem perfect_empty : ({} : Sink).Perfect := rfl

/-- is the result `Err(LzmaError)`? -/
def isLzmaErr {α : Type} : Except Err α → Bool
  | .error .lzma => true
  | _ => false

/-- the unlimited run succeeds and produces 9 bytes; the dictionary is 4096: needed window
`min 4096 9 = 9` -/
theorem sample_unlimited :
    ∃ snkU rdU, lzmaDecompress (Rd.ofBytes sample) (optsU {}) {} = (snkU, .ok rdU) ∧
      snkU.out.size = 9 ∧ headerDict (Rd.ofBytes sample) = 4096 := by
  have h1 : (lzmaDecompress (Rd.ofBytes sample) (optsU {}) {}).2.isOk = true := by decide +kernel
  have h2 : (lzmaDecompress (Rd.ofBytes sample) (optsU {}) {}).1.out.size = 9 := by decide +kernel
  rcases hU : lzmaDecompress (Rd.ofBytes sample) (optsU {}) {} with ⟨snkU, e | rdU⟩
  · rw [hU] at h1; cases h1
  · rw [hU] at h2
    exact ⟨snkU, rdU, rfl, h2, by decide +kernel⟩

/-- limit 9 = needed window: `lzma_memlimit_exact_ok` applies, the limited run is the unlimited one -/
example : lzmaDecompress (Rd.ofBytes sample) (optsM {} 9) {} =
    lzmaDecompress (Rd.ofBytes sample) (optsU {}) {} := by
  obtain ⟨snkU, rdU, hU, hsz, hd⟩ := sample_unlimited
  rw [hU]
  exact lzma_memlimit_exact_ok _ _ 9 perfect_empty hU (by rw [hsz, hd]; decide)

/-- limit 8 < needed window: `lzma_memlimit_exact_err` applies -/
example : (lzmaDecompress (Rd.ofBytes sample) (optsM {} 8) {}).2 = .error .lzma := by
  obtain ⟨snkU, rdU, hU, hsz, hd⟩ := sample_unlimited
  exact (lzma_memlimit_exact_err _ _ 8 perfect_empty hU (by rw [hsz, hd]; decide)).1

/-- the same two facts evaluated directly on the model -/
example : (lzmaDecompress (Rd.ofBytes sample) (optsM {} 9) {}).2.isOk = true ∧
    (lzmaDecompress (Rd.ofBytes sample) (optsM {} 9) {}).1.out.toList =
      [97, 98, 99, 97, 98, 99, 97, 98, 99] ∧
    isLzmaErr (lzmaDecompress (Rd.ofBytes sample) (optsM {} 8) {}).2 = true ∧
    (lzmaDecompress (Rd.ofBytes sample) (optsM {} 8) {}).1.out.toList = [] := by decide +kernel

/-- an unlimited error (truncated input) is reproduced under a limit that is not hit … -/
example : (lzmaDecompress (Rd.ofBytes (sample.take 20)) (optsU {}) {}).2.isOk = false ∧
    lzmaDecompress (Rd.ofBytes (sample.take 20)) (optsM {} 4096) {} =
      lzmaDecompress (Rd.ofBytes (sample.take 20)) (optsU {}) {} :=
  ⟨by decide +kernel, lzma_memlimit_ge_dict _ _ _ perfect_empty (by decide +kernel)⟩

/-- … while under a small limit it is pre-empted by `Err lzma` (the second alternative of
`lzma_memlimit_error_preserved` does occur): the input truncated after 24 bytes fails with `eof`
without a limit and with `lzma` under limit 2 -/
example : (match (lzmaDecompress (Rd.ofBytes (sample.take 24)) (optsU {}) {}).2 with
      | .error .eof => true
      | _ => false) = true ∧
    isLzmaErr (lzmaDecompress (Rd.ofBytes (sample.take 24)) (optsM {} 2) {}).2 = true := by
  decide +kernel

/-- … and `lzma_memlimit_mono` has instances: success under 9 gives success under 10 -/
example : ∃ s r, lzmaDecompress (Rd.ofBytes sample) (optsM {} 10) {} = (s, .ok r) := by
  obtain ⟨snkU, rdU, hU, hsz, hd⟩ := sample_unlimited
  have h9 := lzma_memlimit_exact_ok _ _ 9 perfect_empty hU (by rw [hsz, hd]; decide)
  exact ⟨_, _, (lzma_memlimit_mono _ _ (by decide : 9 ≤ 10) perfect_empty h9).1⟩

/-- raw decoder: the payload of `sample` on a decoder for dictionary 4096 -/
def sampleParams : LzmaParams :=
  { props := { lc := 0, lp := 0, pb := 0 }, dictSize := 4096, unpackedSize := none }

def sampleDecoder : LzmaDecoder := (LzmaDecoder.new sampleParams none).toOption.getD default

example : LzmaDecoder.new sampleParams none = .ok sampleDecoder ∧
    1 ≤ sampleDecoder.params.dictSize ∧ sampleDecoder.params.dictSize ≤ sampleDecoder.memlimit :=
  ⟨rfl, by decide, by decide⟩

example : ((sampleDecoder.withLimit 9).decompress (Rd.ofBytes (sample.drop 13)) {}).2.isOk = true ∧
    isLzmaErr ((sampleDecoder.withLimit 8).decompress (Rd.ofBytes (sample.drop 13)) {}).2 = true ∧
    (sampleDecoder.decompress (Rd.ofBytes (sample.drop 13)) {}).1.out.size = 9 := by
  decide +kernel

/-- the configurations of `never_buffers_more` exist: 3 iterations on the sample payload with
limit 9 lead to a window holding 3 bytes -/
example : ∃ c', FinishSteps (ω := Circ) ⟨sampleDecoder.state, Circ.fromStream 4096 9,
      (RC.new (Rd.ofBytes (sample.drop 13))).toOption.get!.1,
      (RC.new (Rd.ofBytes (sample.drop 13))).toOption.get!.2, {}⟩ 3 c' ∧ c'.w.buf.size = 3 := by
  have h : (stepsTrace 3 (⟨sampleDecoder.state, Circ.fromStream 4096 9,
      (RC.new (Rd.ofBytes (sample.drop 13))).toOption.get!.1,
      (RC.new (Rd.ofBytes (sample.drop 13))).toOption.get!.2, {}⟩ : Cfg Circ)).map (·.w.buf.size) =
        some 3 := by decide +kernel
  rcases hc : stepsTrace 3 (⟨sampleDecoder.state, Circ.fromStream 4096 9,
      (RC.new (Rd.ofBytes (sample.drop 13))).toOption.get!.1,
      (RC.new (Rd.ofBytes (sample.drop 13))).toOption.get!.2, {}⟩ : Cfg Circ) with _ | c'
  · rw [hc] at h; cases h
  · rw [hc] at h
    exact ⟨c', stepsTrace_sound 3 hc, by simpa using h⟩

/-! streaming: the sample fed in two fragments (the first ends inside the header) -/

/-- the unlimited session succeeds, accepts `[7, 21]` bytes, delivers 9 bytes; the window the
stream created has dictionary size 4096 -/
theorem sample_stream_unlimited :
    ∃ snkU, Stream.runStream 10 (optsU {}) [sample.take 7, sample.drop 7] {} = (snkU, .ok [7, 21]) ∧
      snkU.out.size = 9 ∧
      (Stream.feedChunks 10 [sample.take 7, sample.drop 7] (Stream.newWithOptions (optsU {})) {}).2.1.dict =
        4096 := by
  have h1 : (match (Stream.runStream 10 (optsU {}) [sample.take 7, sample.drop 7] {}).2 with
      | .ok ns => ns == [7, 21]
      | .error _ => false) = true := by decide +kernel
  have h2 : (Stream.runStream 10 (optsU {}) [sample.take 7, sample.drop 7] {}).1.out.size = 9 := by
    decide +kernel
  rcases hU : Stream.runStream 10 (optsU {}) [sample.take 7, sample.drop 7] {} with ⟨snkU, e | ns⟩
  · rw [hU] at h1; cases h1
  · rw [hU] at h1 h2
    have : ns = [7, 21] := by simpa using h1
    subst this
    exact ⟨snkU, rfl, h2, by decide +kernel⟩

/-- limit 9: `stream_memlimit_exact_ok` applies — the limited session is the unlimited one -/
example : Stream.runStream 10 (optsM {} 9) [sample.take 7, sample.drop 7] {} =
    Stream.runStream 10 (optsU {}) [sample.take 7, sample.drop 7] {} := by
  obtain ⟨snkU, hU, hsz, hd⟩ := sample_stream_unlimited
  obtain ⟨snkF, stF, hF, hok⟩ := stream_memlimit_exact_ok 9 10 {} _ perfect_empty hU
  rw [hF] at hd
  rw [hU]
  exact hok (by dsimp only at hd; rw [hd, hsz]; decide)

/-- limit 8: `stream_memlimit_exact_err` applies -/
example : (Stream.runStream 10 (optsM {} 8) [sample.take 7, sample.drop 7] {}).2 = .error .lzma := by
  obtain ⟨snkU, hU, hsz, hd⟩ := sample_stream_unlimited
  obtain ⟨snkF, stF, hF, herr⟩ := stream_memlimit_exact_err 8 10 {} _ perfect_empty hU
  rw [hF] at hd
  exact (herr (by dsimp only at hd; rw [hd, hsz]; decide)).1

/-- the same evaluated directly on the model -/
example : (Stream.runStream 10 (optsM {} 9) [sample.take 7, sample.drop 7] {}).2.isOk = true ∧
    (Stream.runStream 10 (optsM {} 9) [sample.take 7, sample.drop 7] {}).1.out.toList =
      [97, 98, 99, 97, 98, 99, 97, 98, 99] ∧
    isLzmaErr (Stream.runStream 10 (optsM {} 8) [sample.take 7, sample.drop 7] {}).2 = true := by
  decide +kernel

/-- `stream_never_buffers_more` has instances in the `Data` state: after three writes (the second
one is cut short by the 18-byte header staging buffer) with limit 9 the window holds 9 bytes -/
example : (match (Stream.runCalls [.write (sample.take 7), .write (sample.drop 7), .write (sample.drop 18)]
      (Stream.newWithOptions (optsM {} 9)) {}).2.1.state with
    | some (.data rs) => rs.output.buf.size
    | _ => 0) = 9 := by decide +kernel

end Lzma.C10
