/-
  C17 — malformed LZMA2 framing is rejected.

  All theorems hold for every input, every decoder state, every accumulated window, every
  reader end kind (`bad`) and — unless stated otherwise — every (scripted) sink.
-/
import LzmaProofs.Lemmas.Lzma2
set_option linter.unusedSimpArgs false
namespace Lzma.C17
open Lzma Lzma.L2 Lzma2Decoder

/-! ### control bytes 3 … 0x7F -/

/-- A control byte `3 ≤ c < 0x80` is rejected with an `LzmaError`, whatever follows, and the
sink is not touched. -/
theorem reject_bad_control (fuel : Nat) (d : Lzma2Decoder) (a : Accum) (rd : Rd) (s : Sink)
    (c : UInt8) (rest : Bytes) (hr : rd.rem = c :: rest) (h3 : 3 ≤ c.toNat) (h80 : c.toNat < 0x80) :
    chunkLoop (fuel + 1) d a rd s = (s, .error .lzma) := by
  have h1 : lzErr rd.readU8 = .ok (c, { rd with rem := rest }) :=
    readU8_lzErr_ok_iff.2 ⟨hr, rfl⟩
  have hc := c.toNat_lt
  have hand : c.toNat &&& 0x80 = 0 := by
    have := and80_eq c.toNat (by simpa using hc)
    simp at this
    by_cases h : c.toNat &&& 128 = 0
    · exact h
    · have := this.1 h; omega
  rw [chunkLoop_succ, h1]
  have e0 : ¬ c.toNat = 0 := by omega
  have e1 : ¬ c.toNat = 1 := by omega
  have e2 : ¬ c.toNat = 2 := by omega
  simp only [e0, e1, e2, if_false, parseLzma_eq_NF, parseLzmaNF, hand, if_true]

/-- … in particular for the whole-stream decoder when it is the first control byte. -/
theorem reject_bad_control_stream (c : UInt8) (rest : Bytes) (bad : Bool) (s : Sink)
    (h3 : 3 ≤ c.toNat) (h80 : c.toNat < 0x80) :
    lzma2Decompress { rem := c :: rest, bad := bad } s = (s, .error .lzma) := by
  unfold lzma2Decompress
  rw [Lzma2Decoder.new_eq]
  simp only [bind_run, liftE_ok, decompress]
  rw [reject_bad_control _ _ _ _ _ c rest rfl h3 h80]

example : lzma2Decompress (Rd.ofBytes [3]) {} = ({}, .error .lzma) :=
  reject_bad_control_stream 3 [] false {} (by decide) (by decide)

example : lzma2Decompress (Rd.ofBytes [0x7F, 1, 2, 3]) {} = ({}, .error .lzma) :=
  reject_bad_control_stream 0x7F _ false {} (by decide) (by decide)


/-! ### invalid property byte -/

/-- `parse_lzma` on a chunk that announces new properties (`control ≥ 0xC0`) whose property
byte is `≥ 225` or has `lc + lp > 4`: an error.  The class is `LzmaError`, unless the preceding
dictionary reset (`control ≥ 0xE0`) already failed on a faulty sink (`io`). -/
theorem parseLzma_bad_props (d : Lzma2Decoder) (a : Accum) (s : Sink) (bad : Bool)
    (c u1 u2 p1 p2 b : UInt8) (rest : Bytes) (hc : 0xC0 ≤ c.toNat)
    (hb : 225 ≤ b.toNat ∨ b.toNat % 9 + b.toNat / 9 % 5 > 4) :
    ∃ s' e, parseLzma d a { rem := u1 :: u2 :: p1 :: p2 :: b :: rest, bad := bad } c.toNat s
        = (s', .error e) ∧
      (e = .lzma ∨ (e = .io ∧ 0xE0 ≤ c.toNat ∧ s.script ≠ [])) := by
  have hc' := c.toNat_lt
  have h80 : c.toNat &&& 0x80 ≠ 0 := by
    rw [and80_eq _ (by simpa using hc')]; omega
  obtain ⟨k3, k1, k2⟩ := cls_cases c (by omega)
  rw [parseLzma_eq_NF]
  simp only [parseLzmaNF, if_neg h80, readU16BE_cons2]
  rcases optReset_result (c.toNat >>> 5 &&& 3 = 3) a s with ⟨s0, a0, h⟩ | ⟨h3, hs, s0, h⟩
  · refine ⟨s0, .lzma, ?_, Or.inl rfl⟩
    simp only [h]
    have hp : propsStage d { rem := b :: rest, bad := bad } (c.toNat >>> 5 &&& 3) = .error .lzma := by
      have h1 : lzErr ({ rem := b :: rest, bad := bad } : Rd).readU8
          = .ok (b, { rem := rest, bad := bad }) := readU8_lzErr_ok_iff.2 ⟨rfl, rfl⟩
      simp only [propsStage, k1.2 (by omega), k2.2 hc, if_true, h1]
      rcases hb with hb | hb
      · rw [if_pos hb]
      · by_cases h225 : b.toNat ≥ 225
        · rw [if_pos h225]
        · rw [if_neg h225, if_pos hb]
    simp only [hp]
  · exact ⟨s0, .io, by simp only [h], Or.inr ⟨rfl, k3.1 h3, hs⟩⟩

/-- the same for the chunk loop (any fuel ≥ 1, any decoder state, any window, any continuation) -/
theorem reject_bad_props (fuel : Nat) (d : Lzma2Decoder) (a : Accum) (rd : Rd) (s : Sink)
    (c u1 u2 p1 p2 b : UInt8) (rest : Bytes)
    (hr : rd.rem = c :: u1 :: u2 :: p1 :: p2 :: b :: rest) (hc : 0xC0 ≤ c.toNat)
    (hb : 225 ≤ b.toNat ∨ b.toNat % 9 + b.toNat / 9 % 5 > 4) :
    ∃ s' e, chunkLoop (fuel + 1) d a rd s = (s', .error e) ∧
      (e = .lzma ∨ (e = .io ∧ 0xE0 ≤ c.toNat ∧ s.script ≠ [])) := by
  obtain ⟨s', e, h, he⟩ := parseLzma_bad_props d a s rd.bad c u1 u2 p1 p2 b rest hc hb
  exact ⟨s', e, chunkLoop_of_parseLzma_error hr (by omega) h, he⟩

/-- with a perfect sink (or without a dictionary reset) the class is `LzmaError` -/
theorem reject_bad_props_lzma (fuel : Nat) (d : Lzma2Decoder) (a : Accum) (rd : Rd) (s : Sink)
    (c u1 u2 p1 p2 b : UInt8) (rest : Bytes)
    (hr : rd.rem = c :: u1 :: u2 :: p1 :: p2 :: b :: rest) (hc : 0xC0 ≤ c.toNat)
    (hb : 225 ≤ b.toNat ∨ b.toNat % 9 + b.toNat / 9 % 5 > 4)
    (hs : s.script = [] ∨ c.toNat < 0xE0) :
    ∃ s', chunkLoop (fuel + 1) d a rd s = (s', .error .lzma) := by
  obtain ⟨s', e, h, he⟩ := reject_bad_props fuel d a rd s c u1 u2 p1 p2 b rest hr hc hb
  rcases he with rfl | ⟨-, h1, h2⟩
  · exact ⟨s', h⟩
  · rcases hs with hs | hs
    · exact absurd hs h2
    · omega

/-- non-vacuity: property byte 225, and property byte 44 (`lc = 8, lp = 4`) -/
example : ∃ s', lzma2Decompress (Rd.ofBytes [0xE0, 0, 0, 0, 9, 225, 0, 0, 0, 0, 0, 0]) {}
    = (s', .error .lzma) := by
  unfold lzma2Decompress
  rw [Lzma2Decoder.new_eq]
  simp only [bind_run, liftE_ok, decompress]
  obtain ⟨s', h⟩ := reject_bad_props_lzma _ Lzma2Decoder.init (Accum.fromStream USIZE_MAX)
    (Rd.ofBytes [0xE0, 0, 0, 0, 9, 225, 0, 0, 0, 0, 0, 0]) {} 0xE0 0 0 0 9 225 _ rfl
    (by decide) (by decide) (Or.inl rfl)
  exact ⟨s', by rw [h]⟩

example : (225 : UInt8).toNat ≥ 225 ∧ (44 : UInt8).toNat % 9 + (44 : UInt8).toNat / 9 % 5 > 4 := by
  decide


/-! ### truncated input -/

/-- input ends before the control byte -/
theorem reject_truncated_control (fuel : Nat) (d : Lzma2Decoder) (a : Accum) (rd : Rd) (s : Sink)
    (hr : rd.rem = []) : chunkLoop (fuel + 1) d a rd s = (s, .error .lzma) := by
  rw [chunkLoop_succ]
  have : lzErr rd.readU8 = .error .lzma := by simp [Rd.readU8, hr, lzErr]
  simp only [this]

/-- input ends inside the 2-byte size field of an uncompressed chunk -/
theorem reject_truncated_raw_size (fuel : Nat) (d : Lzma2Decoder) (a : Accum) (rd : Rd) (s : Sink)
    (c : UInt8) (rest : Bytes) (hr : rd.rem = c :: rest) (hc : c.toNat = 1 ∨ c.toNat = 2)
    (hl : rest.length < 2) : chunkLoop (fuel + 1) d a rd s = (s, .error .lzma) := by
  apply chunkLoop_of_parseUncompressed_error hr hc
  simp only [parseUncompressed]
  rw [bind_run_error (e := .lzma) (s' := s)]
  rw [readU16BE_short (by simpa using hl)]; rfl

/-- input ends inside the data of an uncompressed chunk (`read_exact` fails).  The class is
`LzmaError` unless the dictionary reset of a control-1 chunk failed on a faulty sink. -/
theorem reject_truncated_raw_data (fuel : Nat) (d : Lzma2Decoder) (a : Accum) (rd : Rd) (s : Sink)
    (c b1 b2 : UInt8) (rest : Bytes) (hr : rd.rem = c :: b1 :: b2 :: rest)
    (hc : c.toNat = 1 ∨ c.toNat = 2) (hl : rest.length < b1.toNat * 256 + b2.toNat + 1) :
    ∃ s' e, chunkLoop (fuel + 1) d a rd s = (s', .error e) ∧
      (e = .lzma ∨ (e = .io ∧ c.toNat = 1 ∧ s.script ≠ [])) := by
  have key : ∃ s' e, parseUncompressed a { rd with rem := b1 :: b2 :: rest } (decide (c.toNat = 1)) s
      = (s', .error e) ∧ (e = .lzma ∨ (e = .io ∧ c.toNat = 1 ∧ s.script ≠ [])) := by
    simp only [parseUncompressed]
    rw [bind_run_ok (a := (b1.toNat * 256 + b2.toNat, { rd with rem := rest })) (s' := s)
      (by rw [readU16BE_cons2]; rfl)]
    dsimp only
    have hex : lzErr (({ rd with rem := rest } : Rd).readExact (b1.toNat * 256 + b2.toNat + 1))
        = .error .lzma := readExact_short (by simpa using hl)
    by_cases h1 : c.toNat = 1
    · simp only [h1, decide_true, if_true]
      rcases optReset_result True a s with ⟨s0, a0, h⟩ | ⟨-, hs, s0, h⟩
      · simp only [if_true] at h
        refine ⟨s0, .lzma, ?_, Or.inl rfl⟩
        rw [bind_run_ok h, bind_run_error (e := .lzma) (s' := s0) (by rw [hex]; rfl)]
      · simp only [if_true] at h
        exact ⟨s0, .io, bind_run_error h, Or.inr ⟨rfl, trivial, hs⟩⟩
    · simp only [h1, decide_false, Bool.false_eq_true, if_false]
      refine ⟨s, .lzma, ?_, Or.inl rfl⟩
      rw [bind_run_ok (a := a) (s' := s) rfl, bind_run_error (e := .lzma) (s' := s) (by rw [hex]; rfl)]
  obtain ⟨s', e, h, he⟩ := key
  exact ⟨s', e, chunkLoop_of_parseUncompressed_error hr hc h, he⟩

/-- input ends inside the 4 bytes of size fields of a compressed chunk -/
theorem reject_truncated_lzma_sizes (fuel : Nat) (d : Lzma2Decoder) (a : Accum) (rd : Rd)
    (s : Sink) (c : UInt8) (rest : Bytes) (hr : rd.rem = c :: rest) (hc : 0x80 ≤ c.toNat)
    (hl : rest.length < 4) : chunkLoop (fuel + 1) d a rd s = (s, .error .lzma) := by
  apply chunkLoop_of_parseLzma_error hr (by omega)
  have hc' := c.toNat_lt
  have h80 : c.toNat &&& 0x80 ≠ 0 := by
    rw [and80_eq _ (by simpa using hc')]; omega
  rw [parseLzma_eq_NF]
  simp only [parseLzmaNF, if_neg h80]
  match rest, hl with
  | [], _ => rw [readU16BE_short (by simp)]
  | [_], _ => rw [readU16BE_short (by simp)]
  | [u1, u2], _ => rw [readU16BE_cons2]; simp only; rw [readU16BE_short (by simp)]
  | [u1, u2, _], _ => rw [readU16BE_cons2]; simp only; rw [readU16BE_short (by simp)]


/-! ### a compressed chunk is consumed and produced exactly as declared -/

/-- header length of a compressed chunk after the control byte: two 16-bit sizes and, for
`control ≥ 0xC0`, the property byte -/
def hdrLen (c : UInt8) : Nat := if 0xC0 ≤ c.toNat then 5 else 4

/-- the declared unpacked size: 5 bits from the control byte, 16 from the first size field -/
def declUnpacked (c : UInt8) (body : Bytes) : Nat :=
  (((c.toNat &&& 0x1F) <<< 16) ||| beVal (body.take 2)) + 1

/-- the declared packed size -/
def declPacked (body : Bytes) : Nat := beVal ((body.drop 2).take 2) + 1

/-- **Exactness of a compressed chunk.**  If `parse_lzma` succeeds on control byte `c` then
(a) the window grew by exactly the declared unpacked size (after the dictionary reset, if any);
(b) the reader advanced by exactly header + declared packed size (`rd'.rem` is the rest), at
    least a 5-byte range-coder preamble was present, and if anything is left in the reader
    the chunk was present in full;
(c) the payload, decoded on its own as the `Take`n sub-reader, ended with the range decoder
    exhausted: `code = 0` and no byte of the declared packed size unread (the `fix:`). -/
theorem chunk_size_exact {d d' : Lzma2Decoder} {a a' : Accum} {rd rd' : Rd} {c : UInt8}
    {s s' : Sink} (h : parseLzma d a rd c.toNat s = (s', .ok (d', a', rd'))) :
    0x80 ≤ c.toNat ∧
    a'.len = (if 0xE0 ≤ c.toNat then 0 else a.len) + declUnpacked c rd.rem ∧
    rd'.rem = rd.rem.drop (hdrLen c + declPacked rd.rem) ∧ rd'.bad = rd.bad ∧
    hdrLen c + 5 ≤ rd.rem.length ∧
    (rd'.rem ≠ [] → hdrLen c + declPacked rd.rem < rd.rem.length) ∧
    ∃ (s0 : Sink) (a0 : Accum) (st0 : DState) (rc : RC) (tk : Rd) (st1 : DState) (rc1 : RC)
        (tk1 : Rd),
      (if 0xE0 ≤ c.toNat then a.reset else pure a) s = (s0, .ok a0) ∧
      RC.new { rem := (rd.rem.drop (hdrLen c)).take (declPacked rd.rem),
               bad := rd.bad && decide ((rd.rem.drop (hdrLen c)).length < declPacked rd.rem) }
        = .ok (rc, tk) ∧
      (st0.setUnpackedSize (some (declUnpacked c rd.rem + a0.len))).processMode .finish a0 rc tk s0
        = (s', .ok (st1, a', rc1, tk1)) ∧
      rc1.code = 0 ∧ tk1.rem = [] ∧ d' = { lzmaState := st1 } := by
  rw [parseLzma_eq_NF, parseLzmaNF_ok_iff] at h
  obtain ⟨h80, u1, u2, p1, p2, rest, s0, a0, st0, rd3, rc, tk, st1, rc1, tk1, hr, h3, h4, g1, g2,
    g3, g4, g5, rfl, rfl⟩ := h
  have hc := c.toNat_lt
  rw [and80_eq _ (by simpa using hc)] at h80
  obtain ⟨p, hr3, hb3, hp, hst⟩ := (propsStage_ok_iff_chunk h80).1 h4
  dsimp only at hr3 hb3
  simp only [(cls_cases c h80).1] at h3
  have hU : declUnpacked c rd.rem = lzUnpacked c.toNat (u1.toNat * 256 + u2.toNat) := by
    simp [declUnpacked, lzUnpacked, hr, beVal]
  have hP : declPacked rd.rem = p1.toNat * 256 + p2.toNat + 1 := by
    simp [declPacked, hr, beVal]
  have hH : rd.rem.drop (hdrLen c) = rd3.rem := by
    cases p with
    | none =>
      simp only at hp
      simp [hdrLen, show ¬ 0xC0 ≤ c.toNat by omega, hr, hr3]
    | some b =>
      simp only at hp
      simp [hdrLen, hp.1, hr, hr3]
  have hHl : rd.rem.length = hdrLen c + rd3.rem.length := by
    rw [← hH, List.length_drop]
    have : hdrLen c ≤ rd.rem.length := by
      rw [hr, hr3]; unfold hdrLen; cases p <;> simp at hp ⊢ <;> split <;> omega
    omega
  rw [lzProc_eq] at g2
  have hlen := (processMode_finish_size g2 rfl).1
  have ha0 : a0.len = (if 0xE0 ≤ c.toNat then 0 else a.len) := by
    split at h3
    · simp only [Accum.reset] at h3
      obtain ⟨_, _, _, h⟩ := bind_ok_inv h3
      simp at h; rw [← h.2]; simp [*]
    · simp at h3; rw [← h3.2]; simp [*]
  have h5 := RC.new_ok_length g1
  simp [Rd.split] at h5
  refine ⟨h80, ?_, ?_, hb3, by omega, ?_, s0, a0, st0, rc, tk, st1, rc1, tk1, h3, ?_, ?_, g3, g4, rfl⟩
  · change a'.len = _ at hlen
    rw [hU, ← ha0]; omega
  · dsimp only
    rw [hP, ← hH, List.drop_drop]
  · dsimp only
    intro hne
    have : p1.toNat * 256 + p2.toNat + 1 < rd3.rem.length :=
      Nat.lt_of_not_le fun hcon => hne (List.drop_eq_nil_of_le hcon)
    omega
  · rw [← g1, hH, hP]; simp only [Rd.split, hb3]
  · rw [hU]; exact g2


/-- non-vacuity of `chunk_size_exact`: a 1-byte chunk (`control = 0xE0`, unpacked size 1, packed
size 6, properties 0, all-zero payload = one literal `0x00`) followed by one more byte -/
def okRest (r : Sink × Except Err (Lzma2Decoder × Accum × Rd)) : Option Bytes :=
  match r with
  | (_, .ok (_, _, rd)) => some rd.rem
  | _ => none

theorem okRest_some {r : Sink × Except Err (Lzma2Decoder × Accum × Rd)} {bs : Bytes}
    (h : okRest r = some bs) : ∃ s' d' a' rd', r = (s', .ok (d', a', rd')) ∧ rd'.rem = bs := by
  obtain ⟨s', r⟩ := r
  cases r with
  | error e => simp [okRest] at h
  | ok x => obtain ⟨d', a', rd'⟩ := x; simp [okRest] at h; exact ⟨s', d', a', rd', rfl, h⟩

example : ∃ s' d' a' rd', parseLzma Lzma2Decoder.init (Accum.fromStream USIZE_MAX)
    (Rd.ofBytes [0, 0, 0, 5, 0, 0, 0, 0, 0, 0, 0, 0x77]) (0xE0 : UInt8).toNat {}
      = (s', .ok (d', a', rd')) ∧ rd'.rem = [0x77] :=
  okRest_some (by decide +kernel)

/-- **`chunk_size_exact` cannot be strengthened to "the declared packed size was available"**:
`parse_lzma` itself accepts a chunk whose declared packed size (here 100) exceeds the remaining
input (6 bytes) when the range decoder happens to be exhausted (`code = 0`) exactly at the end
of the input — `Take::fill_buf` reports EOF both at its limit and at the end of the data.  Such
a chunk is necessarily the last thing in the input, so the chunk loop then fails to read a
control byte (`reject_truncated_control`); for whole streams the bound holds
(`lzma2_ok_implies_framing`: every chunk lies in the input in full). -/
theorem chunk_packed_bound_partial :
    ∃ (d : Lzma2Decoder) (a : Accum) (rd : Rd) (c : UInt8) (s s' : Sink) (d' : Lzma2Decoder)
      (a' : Accum) (rd' : Rd),
      parseLzma d a rd c.toNat s = (s', .ok (d', a', rd')) ∧
        rd.rem.length < hdrLen c + declPacked rd.rem := by
  obtain ⟨s', d', a', rd', h, -⟩ := okRest_some (r := parseLzma Lzma2Decoder.init
    (Accum.fromStream USIZE_MAX) (Rd.ofBytes [0, 0, 0, 99, 0, 0, 0, 0, 0, 0, 0])
    (0xE0 : UInt8).toNat {}) (bs := []) (by decide +kernel)
  exact ⟨_, _, _, 0xE0, _, s', d', a', rd', h, by decide⟩

/-- a compressed chunk cut anywhere before the end of its 5-byte range-coder preamble (inside
the size fields, before the property byte, or with fewer than 5 payload bytes) is an error -/
theorem reject_truncated_lzma_chunk (fuel : Nat) (d : Lzma2Decoder) (a : Accum) (rd : Rd)
    (s : Sink) (c : UInt8) (rest : Bytes) (hr : rd.rem = c :: rest) (hc : 0x80 ≤ c.toNat)
    (hl : rest.length < hdrLen c + 5) :
    ∃ s' e, chunkLoop (fuel + 1) d a rd s = (s', .error e) := by
  cases h : parseLzma d a { rd with rem := rest } c.toNat s with
  | mk s' r =>
    cases r with
    | error e => exact ⟨s', e, chunkLoop_of_parseLzma_error hr (by omega) h⟩
    | ok x =>
      obtain ⟨d', a', rd'⟩ := x
      have := (chunk_size_exact h).2.2.2.2.1
      dsimp only at this
      omega


/-- the error class of `reject_truncated_lzma_chunk` -/
theorem parseLzma_truncated_class {d : Lzma2Decoder} {a : Accum} {rd : Rd} {c : UInt8}
    {s s' : Sink} {e : Err} (hc : 0x80 ≤ c.toNat) (hl : rd.rem.length < hdrLen c + 5)
    (h : parseLzma d a rd c.toNat s = (s', .error e)) :
    e = .lzma ∨ e = .io ∨ d.lzmaState.props.validate = .error e := by
  rw [parseLzma_eq_NF] at h
  generalize lzProc = proc at h
  unfold parseLzmaNF at h
  split at h
  · simp at h; exact Or.inl h.2.symm
  split at h
  · rename_i h1; simp at h; rw [← h.2]; exact Or.inl (lzErr_error_inv h1)
  rename_i u rd1 h1
  split at h
  · rename_i h2; simp at h; rw [← h.2]; exact Or.inl (lzErr_error_inv h2)
  rename_i p rd2 h2
  split at h
  · rename_i h3; simp at h; rw [← h.2]; exact Or.inr (Or.inl (optReset_error h3))
  rename_i s0 a0 h3
  split at h
  · rename_i h4; simp at h; rw [← h.2]
    rcases propsStage_error_class h4 with h | h
    · exact Or.inl h
    · exact Or.inr (Or.inr h)
  rename_i st0 rd3 h4
  have hshort : rd3.rem.length < 5 := by
    obtain ⟨u1, u2, r1, hr1, -, rfl⟩ := Rd.readU16BE_ok_iff.1 (lzErr_ok_inv h1)
    obtain ⟨p1, p2, r2, hr2, -, rfl⟩ := Rd.readU16BE_ok_iff.1 (lzErr_ok_inv h2)
    obtain ⟨po, hr3, -, hp, -⟩ := (propsStage_ok_iff_chunk hc).1 h4
    dsimp only at hr2 hr3
    rw [hr1, hr2, hr3] at hl
    unfold hdrLen at hl
    cases po with
    | none => simp at hp hl; split at hl <;> omega
    | some b => simp at hp hl; rw [if_pos hp.1] at hl; omega
  rw [payloadStage_short hshort] at h
  simp at h
  exact Or.inl h.2.symm


/-- `reject_truncated_lzma_chunk` with its error class: `LzmaError`; or `io` when the dictionary
reset failed on a faulty sink; or — only for a decoder state whose properties are invalid, which
`Lzma2Decoder::new`/`parse_lzma` never produce — the `validate` panic of `reset_state` -/
theorem reject_truncated_lzma_chunk_class (fuel : Nat) (d : Lzma2Decoder) (a : Accum) (rd : Rd)
    (s : Sink) (c : UInt8) (rest : Bytes) (hr : rd.rem = c :: rest) (hc : 0x80 ≤ c.toNat)
    (hl : rest.length < hdrLen c + 5) :
    ∃ s' e, chunkLoop (fuel + 1) d a rd s = (s', .error e) ∧
      (e = .lzma ∨ e = .io ∨ d.lzmaState.props.validate = .error e) := by
  cases h : parseLzma d a { rd with rem := rest } c.toNat s with
  | mk s' r =>
    cases r with
    | error e =>
      exact ⟨s', e, chunkLoop_of_parseLzma_error hr (by omega) h,
        parseLzma_truncated_class hc (by simpa using hl) h⟩
    | ok x =>
      obtain ⟨d', a', rd'⟩ := x
      have := (chunk_size_exact h).2.2.2.2.1
      dsimp only at this
      omega

/-- the empty input is rejected -/
example (s : Sink) : lzma2Decompress (Rd.ofBytes []) s = (s, .error .lzma) := by
  unfold lzma2Decompress
  rw [Lzma2Decoder.new_eq]
  simp only [bind_run, liftE_ok, decompress]
  rw [reject_truncated_control _ _ _ _ _ rfl]

/-! ### the end byte, and the inversion: success implies well-formed framing -/

/-- `lzma2_decompress` succeeds **iff** the input is a sequence of well-formed chunks
(`Chunk.WF`: control byte 1, 2 or ≥ 0x80; sizes as encoded; 1 ≤ data ≤ 65536 bytes; valid
property byte exactly when `control ≥ 0xC0`; 5 ≤ payload ≤ 65536 bytes, present in full), each of
which executes (`Chunk.Exec`: dictionary / state resets as named by the control byte, payload
decodes to exactly the declared unpacked size with the range decoder exhausted), followed by a
`0` control byte; the reader is left right behind that byte. -/
theorem lzma2_framing_iff {rd rd' : Rd} {s s' : Sink} :
    lzma2Decompress rd s = (s', .ok rd') ↔
      ∃ (cs : List Chunk) (d' : Lzma2Decoder) (a' : Accum) (s1 : Sink), (∀ c ∈ cs, c.WF) ∧
        rd.rem = cs.flatMap Chunk.bytes ++ 0 :: rd'.rem ∧ rd'.bad = rd.bad ∧
        Run cs Lzma2Decoder.init (Accum.fromStream USIZE_MAX) s d' a' s1 ∧
        a'.finish s1 = (s', .ok ()) :=
  lzma2Decompress_ok_iff

theorem lzma2_ok_implies_framing {x : Bytes} {rd' : Rd} {s s' : Sink}
    (h : lzma2Decompress (Rd.ofBytes x) s = (s', .ok rd')) :
    ∃ (cs : List Chunk) (d' : Lzma2Decoder) (a' : Accum) (s1 : Sink), (∀ c ∈ cs, c.WF) ∧
      x = cs.flatMap Chunk.bytes ++ 0 :: rd'.rem ∧
      Run cs Lzma2Decoder.init (Accum.fromStream USIZE_MAX) s d' a' s1 ∧
      a'.finish s1 = (s', .ok ()) := by
  obtain ⟨cs, d', a', s1, h1, h2, -, h3, h4⟩ := lzma2Decompress_ok_iff.1 h
  exact ⟨cs, d', a', s1, h1, h2, h3, h4⟩

/-- what "executes" means for a compressed chunk, spelled out: exactly the declared number of
bytes is produced (on top of the window, emptied first iff `control ≥ 0xE0`) -/
theorem packed_chunk_exact {c : UInt8} {u : Nat} {p : Option UInt8} {payload : Bytes}
    {d d' : Lzma2Decoder} {a a' : Accum} {s s' : Sink}
    (h : (Chunk.packed c u p payload).Exec d a s d' a' s') :
    a'.len = (if 0xE0 ≤ c.toNat then 0 else a.len) + u :=
  h.packed_len

/-- success ⇒ the last byte consumed is the `0` control byte -/
theorem reject_missing_end {x : Bytes} {rd' : Rd} {s s' : Sink}
    (h : lzma2Decompress (Rd.ofBytes x) s = (s', .ok rd')) :
    ∃ pre, x = pre ++ 0 :: rd'.rem := by
  obtain ⟨pre, h1, -, -⟩ := lzma2Decompress_tail_irrelevant h
  exact ⟨pre, h1⟩

/-- … hence input that stops anywhere before the end byte of a valid stream — at a chunk
boundary or inside a chunk, including inside the payload of a compressed chunk — is an error -/
theorem reject_truncated_stream {x : Bytes} {rd' : Rd} {s s' : Sink}
    (h : lzma2Decompress (Rd.ofBytes x) s = (s', .ok rd')) (y z : Bytes)
    (hx : x = y ++ z ++ rd'.rem) (hz : z ≠ []) :
    ∃ s2 e, lzma2Decompress (Rd.ofBytes y) s = (s2, .error e) :=
  lzma2Decompress_strict_prefix_error h y z hx hz false

/-- non-vacuity: `"abc"` as one uncompressed chunk; the stream without its end byte is rejected -/
example : ∃ s2 e, lzma2Decompress (Rd.ofBytes [1, 0, 2, 0x61, 0x62, 0x63]) {} = (s2, .error e) := by
  have h : ∃ s', lzma2Decompress (Rd.ofBytes [1, 0, 2, 0x61, 0x62, 0x63, 0]) {}
      = (s', .ok { rem := [] }) := by
    refine ⟨_, lzma2Decompress_ok_iff.2 ⟨[Chunk.raw true [0x61, 0x62, 0x63]], Lzma2Decoder.init,
      (Accum.fromStream USIZE_MAX).appendBytes [0x61, 0x62, 0x63], {}, ?_, ?_, rfl, ?_, rfl⟩⟩
    · intro c hc; simp at hc; subst hc; decide
    · decide
    · exact Run.cons ⟨rfl, Accum.fromStream USIZE_MAX, rfl, rfl⟩ (Run.nil _ _ _)
  obtain ⟨s', h⟩ := h
  exact reject_truncated_stream h [1, 0, 2, 0x61, 0x62, 0x63] [0] rfl (by simp)

end Lzma.C17
